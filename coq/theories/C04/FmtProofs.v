(* C04 -- the text the modelled printf("%.<p>g") produces is, for EVERY binary32/binary64 memory image and every
   precision, one well-formed token of scanf's floating-point grammar (part "tok" of the contract H_num). *)
From Coq Require Import ZifyBool ZifyNat.
From Coq.Strings Require Import Byte.
From EsVerif.Common Require Import Base Bytes.
From EsVerif.C04 Require Import Gen TextModel Spec DecProofs ScanProofs FmtModel.
Ltac Zify.zify_post_hook ::= Z.to_euclidean_division_equations.

Definition digits (l : list byte) : Prop := Forall (fun b => is_digit b = true) l.

(* ---------------------------------------------------------------- the automaton as a fold *)
Fixpoint steps (k : tk) (s : st) (l : list byte) : option st :=
  match l with
  | [] => Some s
  | b :: r => match step k s b with Some s' => steps k s' r | None => None end
  end.

Lemma steps_app k : forall l1 l2 s, steps k s (l1 ++ l2) = match steps k s l1 with Some s1 => steps k s1 l2 | None => None end.
Proof.
  induction l1 as [|b l1 IH]; intros l2 s; simpl; [reflexivity|]. destruct (step k s b); [apply IH|reflexivity].
Qed.

Lemma run_steps k : forall l s s', steps k s l = Some s' -> run k s l = (s', l, []).
Proof.
  induction l as [|b l IH]; intros s s' H; simpl in *.
  - inversion H; reflexivity.
  - destruct (step k s b) as [s1|]; [|discriminate]. rewrite (IH s1 s' H). reflexivity.
Qed.

Lemma steps_tok_ok k tok s : steps k Q0 tok = Some s -> accepting s = true -> tok_ok k tok = true.
Proof. intros H A. unfold tok_ok. rewrite (run_steps k tok Q0 s H), A. reflexivity. Qed.

(* ---------------------------------------------------------------- digits *)
Definition intish (s : st) : Prop := s = QZero \/ s = QInt.
Definition startish (s : st) : Prop := s = Q0 \/ s = QSign.

Lemma digit_facts b : is_digit b = true -> numchar b = true /\ is_sign b = false /\ (lc b =? 120) = false
  /\ (lc b =? 101) = false /\ (bZ b =? 46) = false.
Proof.
  intro H. unfold is_digit in H. set (n := bZ b) in *. assert (R : 48 <= n <= 57) by lia.
  unfold numchar, is_sign, lc, is_digit, is_alpha. fold n.
  assert ((65 <=? n) && (n <=? 90) = false) as -> by lia.
  repeat split; lia.
Qed.

Lemma step_start_digit s b : startish s -> is_digit b = true -> exists s', step TFloat s b = Some s' /\ intish s'.
Proof.
  intros Hs Hb. destruct (digit_facts b Hb) as [Hn [Hsg _]]. unfold step. rewrite Hn.
  destruct Hs as [-> | ->]; simpl; rewrite ?Hsg; unfold fstart; rewrite Hb;
    destruct (bZ b =? 48); eexists; (split; [reflexivity|]); unfold intish; auto.
Qed.

Lemma step_int_digit s b : intish s -> is_digit b = true -> step TFloat s b = Some QInt.
Proof.
  intros Hs Hb. destruct (digit_facts b Hb) as [Hn [_ [Hx _]]]. unfold step. rewrite Hn.
  destruct Hs as [-> | ->]; simpl; rewrite ?Hx, Hb; reflexivity.
Qed.

Lemma steps_int_digits : forall ds s, digits ds -> intish s -> exists s', steps TFloat s ds = Some s' /\ intish s'.
Proof.
  induction ds as [|b ds IH]; intros s Hd Hs; simpl.
  - exists s. auto.
  - rewrite (step_int_digit s b Hs (Forall_inv Hd)). apply IH; [exact (Forall_inv_tail Hd)|right; reflexivity].
Qed.

Lemma steps_start_digits ds s : digits ds -> ds <> [] -> startish s -> exists s', steps TFloat s ds = Some s' /\ intish s'.
Proof.
  intros Hd Hne Hs. destruct ds as [|b ds]; [contradiction|]. simpl.
  destruct (step_start_digit s b Hs (Forall_inv Hd)) as [s1 [-> Hi]].
  apply steps_int_digits; [exact (Forall_inv_tail Hd)|exact Hi].
Qed.

Definition fracish (s : st) : Prop := s = QIntDot \/ s = QFrac.
Lemma steps_frac_digits : forall ds s, digits ds -> fracish s -> ds <> [] -> steps TFloat s ds = Some QFrac.
Proof.
  induction ds as [|b ds IH]; intros s Hd Hs Hne; [contradiction|]. simpl.
  destruct (digit_facts b (Forall_inv Hd)) as [Hn _].
  assert (E : step TFloat s b = Some QFrac).
  { unfold step. rewrite Hn. destruct Hs as [-> | ->]; simpl; rewrite (Forall_inv Hd); reflexivity. }
  rewrite E. destruct ds as [|b2 ds]; [reflexivity|].
  apply IH; [exact (Forall_inv_tail Hd)|right; reflexivity|discriminate].
Qed.

Definition expish (s : st) : Prop := s = QE \/ s = QESign \/ s = QExp.
Lemma steps_exp_digits : forall ds s, digits ds -> expish s -> ds <> [] -> steps TFloat s ds = Some QExp.
Proof.
  induction ds as [|b ds IH]; intros s Hd Hs Hne; [contradiction|]. simpl.
  destruct (digit_facts b (Forall_inv Hd)) as [Hn [Hsg _]].
  assert (E : step TFloat s b = Some QExp).
  { unfold step. rewrite Hn. destruct Hs as [-> | [-> | ->]]; simpl; rewrite ?Hsg, (Forall_inv Hd); reflexivity. }
  rewrite E. destruct ds as [|b2 ds]; [reflexivity|].
  apply IH; [exact (Forall_inv_tail Hd)|right; right; reflexivity|discriminate].
Qed.

(* mantissa: digits, optionally a point and more digits *)
Definition mant_state (s : st) : Prop := intish s \/ s = QFrac.

Lemma steps_dot s : intish s -> step TFloat s dot_b = Some QIntDot.
Proof. intros [-> | ->]; reflexivity. Qed.

Lemma steps_e s : mant_state s -> step TFloat s x65 = Some QE.
Proof. intros [[-> | ->] | ->]; reflexivity. Qed.

Lemma mant_accepting s : mant_state s -> accepting s = true.
Proof. intros [[-> | ->] | ->]; reflexivity. Qed.

(* ---------------------------------------------------------------- pieces of the printed text *)
Lemma dec_fuel_digits : forall f n acc, digits acc -> digits (dec_fuel f n acc).
Proof.
  induction f as [|f IH]; intros n acc Ha; simpl; [exact Ha|].
  assert (Hd : digits (digit_byte (n mod 10) :: acc)).
  { constructor; [|exact Ha]. apply digit_byte_is_digit. lia. }
  destruct (n <? 10); [exact Hd|apply IH; exact Hd].
Qed.

Lemma dec_fuel_nonempty : forall f n acc, dec_fuel (S f) n acc <> [].
Proof.
  intros f n acc. simpl. destruct (n <? 10); [discriminate|].
  rewrite dec_fuel_app. intro H. apply app_eq_nil in H. destruct H as [_ H]. discriminate.
Qed.

Lemma dec_nat_digits n : digits (dec_nat n) /\ dec_nat n <> [].
Proof. unfold dec_nat. split; [apply dec_fuel_digits; constructor|apply dec_fuel_nonempty]. Qed.

Lemma drop_zeros_digits l : digits l -> digits (drop_zeros l).
Proof.
  induction l as [|b l IH]; intro H; simpl; [constructor|].
  destruct (byte_eqb b zero_b); [apply IH; exact (Forall_inv_tail H)|exact H].
Qed.

Lemma strip0_digits l : digits l -> digits (strip0 l).
Proof. intro H. unfold strip0. apply Forall_rev. apply drop_zeros_digits. apply Forall_rev. exact H. Qed.

Lemma firstn_digits : forall n l, digits l -> digits (firstn n l).
Proof.
  induction n as [|n IH]; intros l H; simpl; [constructor|]. destruct l as [|b l]; [constructor|].
  constructor; [exact (Forall_inv H)|apply IH; exact (Forall_inv_tail H)].
Qed.

Lemma skipn_digits : forall n l, digits l -> digits (skipn n l).
Proof.
  induction n as [|n IH]; intros l H; simpl; [exact H|]. destruct l as [|b l]; [constructor|].
  apply IH. exact (Forall_inv_tail H).
Qed.

Lemma repeat_zero_digits n : digits (repeat zero_b n).
Proof. induction n; simpl; constructor; [reflexivity|assumption]. Qed.

(* the mantissa text leads from a start state to an accepting mantissa state *)
Lemma with_frac_steps ip frac s : digits ip -> ip <> [] -> digits frac -> startish s ->
  exists s', steps TFloat s (with_frac ip frac) = Some s' /\ mant_state s'.
Proof.
  intros Hi Hne Hf Hs. unfold with_frac. pose proof (strip0_digits frac Hf) as Hfr.
  destruct (steps_start_digits ip s Hi Hne Hs) as [s1 [E1 I1]].
  destruct (strip0 frac) as [|c fr] eqn:Efr.
  - exists s1. split; [exact E1|left; exact I1].
  - exists QFrac. split; [|right; reflexivity].
    rewrite steps_app, E1.
    change (steps TFloat s1 (dot_b :: c :: fr))
      with (match step TFloat s1 dot_b with Some s' => steps TFloat s' (c :: fr) | None => None end).
    rewrite (steps_dot s1 I1).
    apply steps_frac_digits; [exact Hfr|left; reflexivity|discriminate].
Qed.

Lemma exp_text_steps X s : mant_state s -> steps TFloat s (exp_text X) = Some QExp.
Proof.
  intro Hs. unfold exp_text. cbn [app steps]. rewrite (steps_e s Hs).
  assert (Hsg : step TFloat QE (if X <? 0 then minus else plus) = Some QESign) by (destruct (X <? 0); reflexivity).
  rewrite Hsg. destruct (dec_nat_digits (Z.abs X)) as [Hd Hne].
  apply steps_exp_digits; [|right; left; reflexivity|].
  - destruct (Z.abs X <? 10); [constructor; [reflexivity|exact Hd]|exact Hd].
  - destruct (Z.abs X <? 10); [discriminate|exact Hne].
Qed.

Lemma sig_digits_shape prec N D : digits (fst (sig_digits prec N D)) /\ fst (sig_digits prec N D) <> [].
Proof. unfold sig_digits. destruct (_ =? _); simpl; apply dec_nat_digits. Qed.

Lemma firstn_S_nonempty {A} n (l : list A) : l <> [] -> firstn (S n) l <> [].
Proof. destruct l; [contradiction|discriminate]. Qed.

Lemma fmt_g_pos_steps prec N D s : startish s ->
  exists s', steps TFloat s (fmt_g_pos prec N D) = Some s' /\ accepting s' = true.
Proof.
  intro Hs. unfold fmt_g_pos.
  set (p := if prec =? 0 then 1 else prec).
  destruct (sig_digits_shape p N D) as [Hd Hne].
  destruct (sig_digits p N D) as [ds X]. simpl in Hd, Hne.
  destruct ((-4 <=? X) && (X <? p)).
  - destruct (0 <=? X) eqn:EX.
    + assert (Z.to_nat (X + 1) = S (Z.to_nat X)) as -> by lia.
      destruct (with_frac_steps (firstn (S (Z.to_nat X)) ds) (skipn (S (Z.to_nat X)) ds) s) as [s' [E M]];
        [apply firstn_digits; exact Hd|apply firstn_S_nonempty; exact Hne|apply skipn_digits; exact Hd|exact Hs|].
      exists s'. split; [exact E|apply mant_accepting; exact M].
    + destruct (with_frac_steps [zero_b] (repeat zero_b (Z.to_nat (- X - 1)) ++ ds) s) as [s' [E M]];
        [constructor; [reflexivity|constructor]|discriminate|apply Forall_app; split; [apply repeat_zero_digits|exact Hd]|exact Hs|].
      exists s'. split; [exact E|apply mant_accepting; exact M].
  - destruct (with_frac_steps (firstn 1 ds) (skipn 1 ds) s) as [s' [E M]];
      [apply firstn_digits; exact Hd|apply firstn_S_nonempty; exact Hne|apply skipn_digits; exact Hd|exact Hs|].
    exists QExp. split; [|reflexivity]. rewrite steps_app, E. apply exp_text_steps. exact M.
Qed.

Theorem fmt_g_tok_ok prec c : tok_ok TFloat (fmt_g prec c) = true.
Proof.
  destruct c as [neg|neg|neg|neg N D]; try (destruct neg; reflexivity).
  unfold fmt_g, sgn. destruct neg.
  - destruct (fmt_g_pos_steps prec N D QSign (or_intror eq_refl)) as [s' [E A]].
    eapply steps_tok_ok; [|exact A]. simpl. exact E.
  - destruct (fmt_g_pos_steps prec N D Q0 (or_introl eq_refl)) as [s' [E A]].
    eapply steps_tok_ok; [exact E|exact A].
Qed.

Theorem F_model_tok_ok sz e : tok_ok TFloat (F_model sz e) = true.
Proof. apply fmt_g_tok_ok. Qed.

(* ---------------------------------------------------------------- part "len" of H_num: the modelled strtod stores
   exactly sz bytes for the text the modelled printf produces (it is never taken for a hexadecimal float) *)
Lemma image_length f neg b m : length (image f neg b m) = f_bytes f.
Proof. unfold image. apply encode_le_length. Qed.

Lemma round_to_length f neg N D : length (round_to f neg N D) = f_bytes f.
Proof.
  unfold round_to. destruct (_ =? _); destruct (_ <? _); try apply image_length;
    destruct (_ <=? _); unfold image_inf; apply image_length.
Qed.

Lemma fp_bytes sz : sz = 4%nat \/ sz = 8%nat -> f_bytes (fp_of sz) = sz.
Proof. intros [-> | ->]; reflexivity. Qed.

(* the part of P_model behind the sign *)
Definition P_body (f : fmtp) (neg : bool) (l : list byte) : list byte :=
  if starts_lc l [110; 97; 110] then image_nan f
  else if starts_lc l [105; 110; 102] then image_inf f neg
  else if starts_lc l [48; 120] then []
  else
    let '(ip, r1) := take_digits l in
    let '(fp, r2) := match r1 with
                     | b :: r => if byte_eqb b dot_b then take_digits r else ([], r1)
                     | [] => ([], [])
                     end in
    let ex := match r2 with
              | b :: r => if lc_is b 101
                          then match r with
                               | s :: r' => if byte_eqb s minus then - parse_digits 0 (fst (take_digits r'))
                                            else if byte_eqb s plus then parse_digits 0 (fst (take_digits r'))
                                            else parse_digits 0 (fst (take_digits r))
                               | [] => 0
                               end
                          else 0
              | [] => 0
              end in
    let m := parse_digits 0 (ip ++ fp) in
    let k := Z.max (- exp_clamp) (Z.min exp_clamp ex) - Z.of_nat (length fp) in
    if m =? 0 then image f neg 0 0
    else if 0 <=? k then round_to f neg (m * 10 ^ k) 1 else round_to f neg m (10 ^ (- k)).

Lemma P_model_body sz tok : P_model sz tok =
  match tok with
  | b :: r => if byte_eqb b minus then P_body (fp_of sz) true r
              else if byte_eqb b plus then P_body (fp_of sz) false r else P_body (fp_of sz) false tok
  | [] => P_body (fp_of sz) false []
  end.
Proof.
  unfold P_model, P_body. destruct tok as [|b r]; [reflexivity|].
  destruct (byte_eqb b minus); [reflexivity|]. destruct (byte_eqb b plus); reflexivity.
Qed.

Lemma P_body_length f neg l : starts_lc l [48; 120] = false -> length (P_body f neg l) = f_bytes f.
Proof.
  intro H. unfold P_body. rewrite H.
  destruct (starts_lc l [110; 97; 110]); [apply image_length|].
  destruct (starts_lc l [105; 110; 102]); [apply image_length|].
  destruct (take_digits l) as [ip r1].
  destruct (match r1 with b :: r => if byte_eqb b dot_b then take_digits r else ([], r1) | [] => ([], []) end) as [fp r2].
  cbv zeta. destruct (_ =? 0); [apply image_length|]. destruct (0 <=? _); apply round_to_length.
Qed.

(* the second byte of the printed text is never an x *)
Definition second_ok (l : list byte) : Prop := match l with _ :: c :: _ => (lc c =? 120) = false | _ => True end.

Lemma second_ok_not_hex l : second_ok l -> starts_lc l [48; 120] = false.
Proof.
  destruct l as [|a [|c l]]; try reflexivity. simpl. intro H. unfold starts_lc. simpl.
  unfold lc_is at 2. simpl. rewrite H. rewrite andb_false_r. reflexivity.
Qed.

Lemma with_frac_second ip frac rest : digits ip -> ip <> [] -> (rest = [] \/ exists r, rest = x65 :: r) ->
  second_ok (with_frac ip frac ++ rest).
Proof.
  intros Hi Hne Hr. unfold with_frac. destruct ip as [|a [|c ip]]; [contradiction| |].
  - destruct (strip0 frac) as [|c fr]; simpl.
    + destruct Hr as [-> | [r ->]]; simpl; [exact I|reflexivity].
    + reflexivity.
  - pose proof (Forall_inv (Forall_inv_tail Hi)) as Hc. destruct (digit_facts c Hc) as [_ [_ [Hx _]]].
    destruct (strip0 frac); simpl; exact Hx.
Qed.

Lemma fmt_g_pos_second prec N D : second_ok (fmt_g_pos prec N D).
Proof.
  unfold fmt_g_pos. set (p := if prec =? 0 then 1 else prec).
  destruct (sig_digits_shape p N D) as [Hd Hne]. destruct (sig_digits p N D) as [ds X]. simpl in Hd, Hne.
  destruct ((-4 <=? X) && (X <? p)).
  - destruct (0 <=? X) eqn:EX.
    + assert (Z.to_nat (X + 1) = S (Z.to_nat X)) as -> by lia.
      rewrite <- (app_nil_r (with_frac _ _)). apply with_frac_second;
        [apply firstn_digits; exact Hd|apply firstn_S_nonempty; exact Hne|left; reflexivity].
    + rewrite <- (app_nil_r (with_frac _ _)). apply with_frac_second;
        [constructor; [reflexivity|constructor]|discriminate|left; reflexivity].
  - apply with_frac_second; [apply firstn_digits; exact Hd|apply firstn_S_nonempty; exact Hne|].
    right. unfold exp_text. simpl. eexists. reflexivity.
Qed.

Lemma with_frac_head ip frac rest : digits ip -> ip <> [] ->
  exists b r, with_frac ip frac ++ rest = b :: r /\ is_digit b = true.
Proof.
  intros Hi Hne. unfold with_frac. destruct ip as [|a ip]; [contradiction|].
  pose proof (Forall_inv Hi) as Ha. destruct (strip0 frac); simpl; eexists; eexists; (split; [reflexivity|exact Ha]).
Qed.

Lemma fmt_g_pos_head prec N D : exists b r, fmt_g_pos prec N D = b :: r /\ is_digit b = true.
Proof.
  unfold fmt_g_pos. set (p := if prec =? 0 then 1 else prec).
  destruct (sig_digits_shape p N D) as [Hd Hne]. destruct (sig_digits p N D) as [ds X]. simpl in Hd, Hne.
  destruct ((-4 <=? X) && (X <? p)).
  - destruct (0 <=? X) eqn:EX.
    + assert (Z.to_nat (X + 1) = S (Z.to_nat X)) as -> by lia.
      rewrite <- (app_nil_r (with_frac _ _)). apply with_frac_head;
        [apply firstn_digits; exact Hd|apply firstn_S_nonempty; exact Hne].
    + rewrite <- (app_nil_r (with_frac _ _)). apply with_frac_head; [constructor; [reflexivity|constructor]|discriminate].
  - apply with_frac_head; [apply firstn_digits; exact Hd|apply firstn_S_nonempty; exact Hne].
Qed.

Lemma PF_length sz e : length (P_model sz (F_model sz e)) = f_bytes (fp_of sz).
Proof.
  rewrite P_model_body. unfold F_model.
  destruct (classify (fp_of sz) e) as [neg|neg|neg|neg N D]; try (destruct neg; simpl; apply P_body_length; reflexivity).
  unfold fmt_g, sgn. destruct (fmt_g_pos_head (print_prec sz) N D) as [b [r [E Hb]]].
  pose proof (fmt_g_pos_second (print_prec sz) N D) as H2.
  destruct neg.
  - change (byte_eqb minus minus) with true. cbv iota. apply P_body_length. apply second_ok_not_hex. exact H2.
  - rewrite E in *. destruct (is_digit_not_sign b Hb) as [-> ->]. apply P_body_length. apply second_ok_not_hex. exact H2.
Qed.

Theorem F_model_P_model_length sz e : sz = 4%nat \/ sz = 8%nat -> length (P_model sz (F_model sz e)) = sz.
Proof. intro Hsz. rewrite PF_length. apply fp_bytes. exact Hsz. Qed.

(* ---------------------------------------------------------------- H_num for the modelled printf/strtod reduces to its
   accuracy part: every floating-point element comes back to 16 / 7 significant digits *)
Section Acc.
  Variable F P : nat -> list byte -> list byte.
  Definition facc_el_b (f : fld) (e : list byte) : bool :=
    match fkind f with KFlt sz => fval_ok_b (digits_of sz) (fdecode e) (fdecode (P sz (F sz e))) | _ => true end.
  Fixpoint facc_row_b (fs : list fld) (r : row) : bool :=
    match fs, r with
    | f :: fs', els :: r' => forallb (facc_el_b f) els && facc_row_b fs' r'
    | _, _ => true
    end.
  Definition facc_b (t : table) : bool := forallb (fun r => facc_row_b (tdt t) (to_native_row (tdt t) r)) (trows t).
End Acc.

Lemma facc_el_contract f e : fld_ok_b f = true -> facc_el_b F_model P_model f e = true -> el_contract_b F_model P_model f e = true.
Proof.
  unfold fld_ok_b, facc_el_b, el_contract_b. intros Hf Ha. destruct (fkind f) as [sg sz|sz|w]; try reflexivity.
  apply andb_true_iff in Hf. destruct Hf as [Hk _]. simpl in Hk.
  unfold fcell_ok_b. rewrite F_model_tok_ok, Ha. rewrite F_model_P_model_length.
  - rewrite Nat.eqb_refl. reflexivity.
  - apply orb_true_iff in Hk. destruct Hk as [Hk|Hk]; apply Nat.eqb_eq in Hk; auto.
Qed.

Lemma facc_row_contract : forall fs r, forallb fld_ok_b fs = true ->
  facc_row_b F_model P_model fs r = true -> row_contract_b F_model P_model fs r = true.
Proof.
  induction fs as [|f fs IH]; intros [|els r] Hf Ha; simpl in *; try reflexivity.
  apply andb_true_iff in Hf. destruct Hf as [Hf Hfs]. apply andb_true_iff in Ha. destruct Ha as [Ha Har].
  rewrite (IH r Hfs Har), andb_true_r.
  induction els as [|e els IHe]; simpl in *; [reflexivity|].
  apply andb_true_iff in Ha. destruct Ha as [Hae Hal]. rewrite (facc_el_contract f e Hf Hae), (IHe Hal). reflexivity.
Qed.

Theorem fcontract_of_acc t : table_ok t -> facc_b F_model P_model t = true -> fcontract F_model P_model t.
Proof.
  unfold table_ok, table_ok_b, facc_b, fcontract, fcontract_b. intros Hok Ha.
  apply andb_true_iff in Hok. destruct Hok as [Hok _]. apply andb_true_iff in Hok. destruct Hok as [Hok _].
  apply andb_true_iff in Hok. destruct Hok as [Hf _].
  induction (trows t) as [|r rows IH]; simpl in *; [reflexivity|].
  apply andb_true_iff in Ha. destruct Ha as [Har Hal].
  rewrite (facc_row_contract (tdt t) _ Hf Har), (IH Hal). reflexivity.
Qed.

(* ---------------------------------------------------------------- towards the accuracy part of H_num: the rounding steps
   of the model are nearest-roundings *)
(* round-half-even returns a nearest integer: | rhe a b - a/b | <= 1/2 *)
Lemma rhe_nearest a b : 0 <= a -> 0 < b -> 2 * Z.abs (rhe a b * b - a) <= b.
Proof.
  intros Ha Hb. unfold rhe. pose proof (Z_div_mod a b ltac:(lia)) as H.
  destruct (Z.div_eucl a b) as [q r]. destruct H as [E R].
  destruct (2 * r <? b) eqn:E1; [nia|]. destruct (b <? 2 * r) eqn:E2; [nia|].
  destruct (Z.even q); nia.
Qed.

Lemma rhe_nonneg a b : 0 <= a -> 0 < b -> 0 <= rhe a b.
Proof.
  intros Ha Hb. unfold rhe. pose proof (Z_div_mod a b ltac:(lia)) as H.
  destruct (Z.div_eucl a b) as [q r]. destruct H as [E R].
  assert (0 <= q) by nia.
  destruct (2 * r <? b); [lia|]. destruct (b <? 2 * r); [lia|]. destruct (Z.even q); lia.
Qed.

(* the integer the printer turns into digits is the value divided by 10^k, correctly rounded -- whatever k is *)
Lemma scaled_rhe_nearest N D k : 0 <= N -> 0 < D ->
  if 0 <=? k then 2 * Z.abs (scaled_rhe 10 N D k * (D * 10 ^ k) - N) <= D * 10 ^ k
  else 2 * Z.abs (scaled_rhe 10 N D k * D - N * 10 ^ (- k)) <= D.
Proof.
  intros HN HD. unfold scaled_rhe. destruct (0 <=? k) eqn:E.
  - apply rhe_nearest; [exact HN|]. assert (0 < 10 ^ k) by (apply Z.pow_pos_nonneg; lia). nia.
  - apply rhe_nearest; [|exact HD]. assert (0 < 10 ^ (- k)) by (apply Z.pow_pos_nonneg; lia). nia.
Qed.


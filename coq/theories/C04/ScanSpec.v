(* C04 -- exact acceptance / rejection of the scanner model on ARBITRARY text (not only on text the writer produced):
   maximal munch, the empty-field -> NaN branch, end of file, and the fixed-width string reader. *)
From Coq Require Import ZifyBool ZifyNat.
From Coq.Strings Require Import Byte.
From EsVerif.Common Require Import Base Bytes.
From EsVerif.C04 Require Import Gen TextModel Spec DecProofs ScanProofs RoundTrip FmtModel FmtProofs.

(* ---- the automaton takes the LONGEST prefix it can (maximal munch), whatever the input *)
Lemma run_spec k : forall l s s' t r, run k s l = (s', t, r) ->
  l = t ++ r /\ steps k s t = Some s' /\ match r with [] => True | c :: _ => step k s' c = None end.
Proof.
  induction l as [|b l IH]; intros s s' t r H; simpl in H.
  - inversion H; subst. auto.
  - destruct (step k s b) as [s1|] eqn:E.
    + destruct (run k s1 l) as [[s2 t2] r2] eqn:R. inversion H; subst.
      destruct (IH _ _ _ _ R) as [E1 [E2 E3]]. split; [simpl; f_equal; exact E1|]. split; [simpl; rewrite E; exact E2|exact E3].
    + inversion H; subst. split; [reflexivity|]. split; [reflexivity|exact E].
Qed.

(* acceptance: exactly the well-formed tokens that cannot be extended by the next byte *)
Theorem scan_tok_accepts k l t r : scan_tok k l = TOk t r <->
  l = t ++ r /\ tok_ok k t = true /\ (exists s, steps k Q0 t = Some s /\ match r with [] => True | c :: _ => step k s c = None end).
Proof.
  unfold scan_tok. destruct (run k Q0 l) as [[s t0] r0] eqn:R. destruct (run_spec k l Q0 s t0 r0 R) as [E1 [E2 E3]]. split.
  - destruct (accepting s) eqn:A; [|discriminate]. intro H. inversion H; subst.
    split; [reflexivity|]. split; [eapply steps_tok_ok; eassumption|]. exists s. auto.
  - intros [E [Hok [s1 [Hs Hm]]]].
    (* the decomposition with a non-extendable accepted prefix is unique: it is the one [run] found *)
    assert (U : forall l s t r s', steps k s t = Some s' -> match r with [] => True | c :: _ => step k s' c = None end ->
                 l = t ++ r -> run k s l = (s', t, r)).
    { clear. intros l s t. revert l s. induction t as [|b t IH]; intros l s r s' Hs Hm El; subst l; simpl in *.
      - inversion Hs; subst. destruct r as [|c r]; [reflexivity|]. simpl. rewrite Hm. reflexivity.
      - destruct (step k s b) as [s1|]; [|discriminate]. rewrite (IH _ s1 r s' Hs Hm eq_refl). reflexivity. }
    rewrite (U l Q0 t r s1 Hs Hm E) in R. inversion R; subst.
    unfold tok_ok in Hok. rewrite (run_steps k t0 Q0 s Hs) in Hok. apply andb_true_iff in Hok. destruct Hok as [A _].
    rewrite A. reflexivity.
Qed.

(* rejection: the longest prefix the automaton can take is not a complete token *)
Theorem scan_tok_rejects k l : (exists r, scan_tok k l = TFail r) <->
  (exists s t r, run k Q0 l = (s, t, r) /\ accepting s = false).
Proof.
  unfold scan_tok. destruct (run k Q0 l) as [[s t] r] eqn:R. split.
  - intros [r' H]. destruct (accepting s) eqn:A; [discriminate|]. exists s, t, r. auto.
  - intros [s' [t' [r' [E A]]]]. inversion E; subst. rewrite A. eexists. reflexivity.
Qed.

(* ---- one numeric cell, delimiter mode (format "<conv> <delim>"): the three outcomes *)
Section Cell.
  Variable d : byte.
  Hypothesis Hd : delim_ok d.
  Hypothesis Hsp : byte_eqb d space = false.

  Let Hdn : numchar d = false. Proof. exact (proj1 (delim_ok_facts d Hd)). Qed.

  Lemma run_stuck k c r : numchar c = false -> run k Q0 (c :: r) = (Q0, [], c :: r).
  Proof. intro H. simpl. unfold step. rewrite H. reflexivity. Qed.

  (* an EMPTY field (the delimiter comes first, after optional white space): NaN for floating point, error for integers *)
  Theorem empty_field_float pre r : all_ws pre -> is_ws d = false ->
    read_num TFloat d (pre ++ d :: r) = Ok (nan_tok, r).
  Proof.
    intros Hp Hw. unfold read_num, fscanf_num. rewrite Hsp. rewrite skip_ws_all_ws by exact Hp.
    rewrite skip_ws_stop by exact Hw. unfold scan_tok. rewrite (run_stuck TFloat d r Hdn). simpl.
    rewrite byte_eqb_refl. reflexivity.
  Qed.

  Theorem empty_field_int pre r : all_ws pre -> is_ws d = false ->
    read_num TInt d (pre ++ d :: r) = Err ERuntime.
  Proof.
    intros Hp Hw. unfold read_num, fscanf_num. rewrite Hsp. rewrite skip_ws_all_ws by exact Hp.
    rewrite skip_ws_stop by exact Hw. unfold scan_tok. rewrite (run_stuck TInt d r Hdn). simpl.
    rewrite byte_eqb_refl. reflexivity.
  Qed.

  (* anything else that cannot start a number is an error *)
  Theorem garbage_field k pre c r : all_ws pre -> is_ws c = false -> numchar c = false -> c <> d ->
    read_num k d (pre ++ c :: r) = Err ERuntime.
  Proof.
    intros Hp Hw Hn Hne. unfold read_num, fscanf_num. rewrite Hsp. rewrite skip_ws_all_ws by exact Hp.
    rewrite skip_ws_stop by exact Hw. unfold scan_tok. rewrite (run_stuck k c r Hn). simpl.
    apply byte_eqb_false in Hne. rewrite Hne. reflexivity.
  Qed.

  (* end of file (possibly after white space) is an error, in both modes *)
  Theorem eof_field k d' pre : all_ws pre -> read_num k d' pre = Err ERuntime.
  Proof.
    intro Hp. unfold read_num, fscanf_num. rewrite <- (app_nil_r pre). rewrite skip_ws_all_ws by exact Hp. simpl.
    destruct (byte_eqb d' space); reflexivity.
  Qed.
End Cell.

(* ---- fixed-width strings: exactly w bytes are taken, none of them 0xff, else error *)
Theorem take_bytes_spec : forall w l e r, take_bytes w l = Ok (e, r) <->
  l = e ++ r /\ length e = w /\ Forall (fun b => byte_eqb b xff = false) e.
Proof.
  induction w as [|w IH]; intros l e r; simpl.
  - split.
    + intro H. inversion H; subst. auto.
    + intros [E [L _]]. destruct e; [|discriminate]. simpl in E. subst. reflexivity.
  - destruct l as [|b l].
    + split; [discriminate|]. intros [E [L _]]. destruct e; [discriminate|]. discriminate.
    + destruct (byte_eqb b xff) eqn:Eb.
      * split; [discriminate|]. intros [E [L Fa]]. destruct e as [|b' e]; [discriminate|].
        simpl in E. inversion E; subst. pose proof (Forall_inv Fa) as Hb. simpl in Hb. congruence.
      * destruct (take_bytes w l) as [[e1 r1]|er] eqn:T; simpl.
        -- split.
           ++ intro H. inversion H; subst. apply IH in T. destruct T as [E [L Fa]]. subst l.
              split; [reflexivity|]. split; [simpl; f_equal; exact L|constructor; assumption].
           ++ intros [E [L Fa]]. destruct e as [|b' e]; [discriminate|]. simpl in E. inversion E; subst.
              assert (T2 : take_bytes w (e ++ r) = Ok (e, r)).
              { apply IH. split; [reflexivity|]. split; [simpl in L; lia|exact (Forall_inv_tail Fa)]. }
              rewrite T2 in T. inversion T; subst. reflexivity.
        -- split; [discriminate|]. intros [E [L Fa]]. destruct e as [|b' e]; [discriminate|]. simpl in E. inversion E; subst.
           assert (T2 : take_bytes w (e ++ r) = Ok (e, r)).
           { apply IH. split; [reflexivity|]. split; [simpl in L; lia|exact (Forall_inv_tail Fa)]. }
           rewrite T2 in T. discriminate.
Qed.

(* a file that ends inside a string cell is rejected *)
Theorem take_bytes_truncated : forall w l, (length l < w)%nat -> take_bytes w l = Err ERuntime.
Proof.
  induction w as [|w IH]; intros l H; [lia|]. simpl. destruct l as [|b l]; [reflexivity|].
  destruct (byte_eqb b xff); [reflexivity|]. simpl in H. rewrite IH by lia. reflexivity.
Qed.

(* ---- error class: whatever the text, the reader either succeeds or fails with RuntimeError (every C++ exception of
   records.cpp surfaces as RuntimeError through SWIG); no other error class can come out of the model *)
Section ErrClass.
  Variable P : nat -> list byte -> list byte.

  Lemma take_bytes_err : forall w l e, take_bytes w l = Err e -> e = ERuntime.
  Proof.
    induction w as [|w IH]; intros l e H; simpl in H; [discriminate|].
    destruct l as [|b l]; [inversion H; reflexivity|]. destruct (byte_eqb b xff); [inversion H; reflexivity|].
    destruct (take_bytes w l) as [[e1 r1]|e1] eqn:T; simpl in H; [discriminate|]. inversion H; subst. eapply IH. exact T.
  Qed.

  Lemma read_num_err k d l e : read_num k d l = Err e -> e = ERuntime.
  Proof.
    unfold read_num. destruct (fscanf_num k _ l) as [t r|r|]; [discriminate| |intro H; inversion H; reflexivity].
    destruct (byte_eqb d space); [intro H; inversion H; reflexivity|].
    destruct r as [|c r]; [intro H; inversion H; reflexivity|].
    destruct (byte_eqb c d); [|intro H; inversion H; reflexivity]. destruct k; [intro H; inversion H; reflexivity|discriminate].
  Qed.

  Lemma read_str_els_err w : forall n l e, read_str_els w n l = Err e -> e = ERuntime.
  Proof.
    induction n as [|n IH]; intros l e H; simpl in H; [discriminate|].
    destruct (take_bytes w l) as [[e1 r1]|e1] eqn:T; simpl in H.
    - destruct (read_str_els w n (tl r1)) as [[es r2]|e2] eqn:R; simpl in H; [discriminate|]. inversion H; subst. eapply IH. exact R.
    - inversion H; subst. eapply take_bytes_err. exact T.
  Qed.

  Lemma read_num_els_err k d : forall n l e, read_num_els P k d n l = Err e -> e = ERuntime.
  Proof.
    induction n as [|n IH]; intros l e H; simpl in H; [discriminate|].
    destruct (read_num (tk_of k) d l) as [[t r]|e1] eqn:T; simpl in H.
    - destruct (read_num_els P k d n r) as [[es r2]|e2] eqn:R; simpl in H; [discriminate|]. inversion H; subst. eapply IH. exact R.
    - inversion H; subst. eapply read_num_err. exact T.
  Qed.

  Lemma read_field_err d f l e : read_field P d f l = Err e -> e = ERuntime.
  Proof.
    unfold read_field. destruct (fkind f) as [sg sz|sz|w].
    - destruct (read_num_els P _ d (fnel f) l) as [[es r]|e1] eqn:R; simpl; [discriminate|].
      intro H. inversion H; subst. eapply read_num_els_err. exact R.
    - destruct (read_num_els P _ d (fnel f) l) as [[es r]|e1] eqn:R; simpl; [discriminate|].
      intro H. inversion H; subst. eapply read_num_els_err. exact R.
    - apply read_str_els_err.
  Qed.

  Lemma read_row_err d : forall fs keep l e, read_row P d fs keep l = Err e -> e = ERuntime.
  Proof.
    induction fs as [|f fs IH]; intros keep l e H; simpl in H; [discriminate|].
    destruct (read_field P d f l) as [[els r]|e1] eqn:Fd; simpl in H.
    - destruct (read_row P d fs (tl keep) r) as [[rest r2]|e2] eqn:R; simpl in H; [discriminate|]. inversion H; subst. eapply IH. exact R.
    - inversion H; subst. eapply read_field_err. exact Fd.
  Qed.

  Lemma read_rows_all_err d fs keep : forall n l e, read_rows_all P d fs keep n l = Err e -> e = ERuntime.
  Proof.
    induction n as [|n IH]; intros l e H; simpl in H; [discriminate|].
    destruct (read_row P d fs keep l) as [[r l2]|e1] eqn:R; simpl in H.
    - destruct (read_rows_all P d fs keep n l2) as [rs|e2] eqn:Rs; simpl in H; [discriminate|]. inversion H; subst. eapply IH. exact Rs.
    - inversion H; subst. eapply read_row_err. exact R.
  Qed.

  Theorem read_text_error_class d fs n l e : read_text P d fs n l = Err e -> e = ERuntime.
  Proof.
    unfold read_text. destruct (n <? 1); [intro H; inversion H; reflexivity|].
    unfold read_text_columns. destruct (read_rows_all P d (map native_fld fs) _ (Z.to_nat n) l) as [rows|e1] eqn:R; simpl; [discriminate|].
    intro H. inversion H; subst. eapply read_rows_all_err. exact R.
  Qed.
End ErrClass.

(* ---- blank tolerance of the format "<conv> <delim>": white space before a number and between a number and its
   (non-blank) delimiter is skipped; the stream is left right behind the delimiter *)
Theorem blank_tolerance k d pre tok mid rest :
  byte_eqb d space = false -> numchar d = false -> is_ws d = false ->
  all_ws pre -> all_ws mid -> tok_ok k tok = true ->
  read_num k d (pre ++ tok ++ mid ++ d :: rest) = Ok (tok, rest).
Proof.
  intros Hsp Hdn Hdw Hpre Hmid Htok. unfold read_num, fscanf_num. rewrite Hsp. rewrite skip_ws_all_ws by exact Hpre.
  destruct (tok_ok_head k tok Htok) as [b [r [-> Hb]]].
  change ((b :: r) ++ mid ++ d :: rest) with (b :: (r ++ mid ++ d :: rest)).
  rewrite skip_ws_stop by (apply numchar_not_ws; exact Hb).
  change (b :: (r ++ mid ++ d :: rest)) with ((b :: r) ++ (mid ++ d :: rest)).
  assert (He : ends_tok (mid ++ d :: rest)).
  { destruct mid as [|m mid]; simpl; [exact Hdn|]. pose proof (Forall_inv Hmid) as Hm. simpl in Hm.
    destruct (numchar m) eqn:E; [|reflexivity]. apply numchar_not_ws in E. congruence. }
  rewrite (scan_tok_ends k (b :: r) _ Htok He). cbv beta iota.
  rewrite skip_ws_all_ws by exact Hmid. rewrite skip_ws_stop by exact Hdw. rewrite byte_eqb_refl. reflexivity.
Qed.

(* C19 -- "given equal seeded generators the output is reproducible": every entry point consumes a
   fixed number of deviates in a fixed order, its result is a function of its own arguments and of
   exactly those deviates, and consecutive calls compose without any other shared state. *)
From Coq Require Import Reals QArith List Lia.
From EsVerif.Common Require Import Base.
From EsVerif.C19 Require Import Model ModelQ ModelStream ProofsSampler.
Import ListNotations.

Lemma draw_app {A} (p t : list A) n : length p = n -> draw n (p ++ t) = Some (p, t).
Proof.
  intro L. unfold draw. rewrite app_length.
  replace (length p + length t <? n)%nat with false by (symmetry; apply Nat.ltb_ge; lia).
  rewrite firstn_app, skipn_app, L, Nat.sub_diag. cbn [firstn skipn].
  rewrite <- L, firstn_all, skipn_all, app_nil_r. reflexivity.
Qed.

Lemma split_2n {A} (p : list A) n : length p = (n + n)%nat ->
  p = firstn n p ++ skipn n p /\ length (firstn n p) = n /\ length (skipn n p) = n.
Proof.
  intro L. split; [symmetry; apply firstn_skipn|]. split; [rewrite firstn_length; lia|rewrite skipn_length; lia].
Qed.

Definition two_blocks {A O} (f : A -> A -> O) (n : nat) (p : list A) : list O := map2 f (firstn n p) (skipn n p).

Lemma two_blocks_consumer {A O} (f : A -> A -> O) n (call : list A -> option (list O * list A)) :
  (forall s, call s = match draw n s with None => None | Some (us, s1) =>
                        match draw n s1 with None => None | Some (ups, s2) => Some (map2 f us ups, s2) end end) ->
  exact_consumer call (n + n) (two_blocks f n).
Proof.
  intros H p t L. destruct (split_2n p n L) as [E [L1 L2]]. rewrite H.
  rewrite E at 1. rewrite <- app_assoc. rewrite (draw_app _ _ n L1). rewrite (draw_app _ _ n L2). reflexivity.
Qed.

Theorem randcap_call_consumer dorot n ra dec rad :
  exact_consumer (randcap_call dorot n ra dec rad) (n + n) (two_blocks (randcap_R dorot ra dec rad) n).
Proof. apply two_blocks_consumer. intro s. reflexivity. Qed.

Theorem randsphere_call_consumer n ra0 ra1 dec0 dec1 :
  exact_consumer (randsphere_call n ra0 ra1 dec0 dec1) (n + n) (two_blocks (randsphere_R ra0 ra1 dec0 dec1) n).
Proof. apply two_blocks_consumer. intro s. reflexivity. Qed.

(* point i is made from deviate i of the first block and deviate i of the second block *)
Theorem two_blocks_nth {A O} (f : A -> A -> O) n (p : list A) i da d :
  length p = (n + n)%nat -> (i < n)%nat ->
  length (two_blocks f n p) = n /\ nth i (two_blocks f n p) d = f (nth i p da) (nth (n + i) p da).
Proof.
  intros L Hi. destruct (split_2n p n L) as [_ [L1 L2]]. unfold two_blocks. split.
  - rewrite map2_length; lia.
  - rewrite (map2_nth f _ _ i da da d) by lia. f_equal.
    + apply nth_firstn_lt. exact Hi.
    + apply nth_skipn_add.
Qed.

Theorem sampler_call_consumer pofx x n :
  exact_consumer (sampler_call pofx x n) n (gen_sample false pofx x).
Proof. intros p t L. unfold sampler_call. rewrite (draw_app _ _ n L). reflexivity. Qed.

Theorem cholesky_call_consumer means M n :
  exact_consumer (cholesky_call means M n) (length M * n) (chol_sample means M n).
Proof. intros p t L. unfold cholesky_call. rewrite (draw_app _ _ _ L). reflexivity. Qed.

(* consecutive calls on one generator: the second call's result is what the second call alone
   returns on its own deviates; nothing of the first call (arguments, result) enters it *)
Theorem then_call_consumer {A O1 O2} (f1 : list A -> option (O1 * list A)) (f2 : list A -> option (O2 * list A))
    k1 k2 g1 g2 :
  exact_consumer f1 k1 g1 -> exact_consumer f2 k2 g2 ->
  exact_consumer (then_call f1 f2) (k1 + k2) (fun p => (g1 (firstn k1 p), g2 (skipn k1 p))).
Proof.
  intros H1 H2 p t L. unfold then_call.
  assert (E : p = firstn k1 p ++ skipn k1 p) by (symmetry; apply firstn_skipn).
  assert (L1 : length (firstn k1 p) = k1) by (rewrite firstn_length; lia).
  assert (L2 : length (skipn k1 p) = k2) by (rewrite skipn_length; lia).
  rewrite E at 1. rewrite <- app_assoc. rewrite (H1 _ _ L1). rewrite (H2 _ _ L2). reflexivity.
Qed.

(* equal generators (equal deviate streams up to what the call consumes), equal arguments: equal result,
   and the generators are left in corresponding positions *)
Theorem consumer_reproducible {A O} (f : list A -> option (O * list A)) k g p t t' :
  exact_consumer f k g -> length p = k ->
  exists o, f (p ++ t) = Some (o, t) /\ f (p ++ t') = Some (o, t').
Proof. intros H L. exists (g p). split; apply H; exact L. Qed.

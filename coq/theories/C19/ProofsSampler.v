(* C19 -- proofs about the cumulative-method sampler, the Cholesky sampler and index selection
   (style Q / discrete). *)
From Coq Require Import QArith Qabs Lqa Sorting.Sorted Lia ZifyBool.
From EsVerif.Common Require Import Base.
From EsVerif.C19 Require Import ModelQ Spec.
Local Open Scope Q_scope.

(* ---------------------------------------------------------------- one linear segment *)
Definition lin (x0 x1 v0 v1 u : Q) : Q := (u - x0) * (v1 - v0) / (x1 - x0) + v0.

Lemma lin_slope x0 x1 v0 v1 u : x0 < x1 ->
  exists s, lin x0 x1 v0 v1 u == (u - x0) * s + v0 /\ s * (x1 - x0) == v1 - v0.
Proof.
  intro H. exists ((v1 - v0) / (x1 - x0)). split.
  - unfold lin. field. lra.
  - field. lra.
Qed.

Lemma slope_nonneg s d e : 0 < d -> 0 <= e -> s * d == e -> 0 <= s.
Proof.
  intros Hd He E. destruct (Qlt_le_dec s 0) as [Hs|Hs]; [|exact Hs].
  exfalso. assert (s * d < 0) by nra. lra.
Qed.

Lemma lin_ge_left x0 x1 v0 v1 u : x0 < x1 -> v0 <= v1 -> x0 <= u -> v0 <= lin x0 x1 v0 v1 u.
Proof.
  intros Hx Hv Hu. destruct (lin_slope x0 x1 v0 v1 u Hx) as [s [E Es]]. rewrite E.
  assert (0 <= s) by (apply (slope_nonneg s (x1 - x0) (v1 - v0)); lra). nra.
Qed.
Lemma lin_le_left x0 x1 v0 v1 u : x0 < x1 -> v0 <= v1 -> u <= x0 -> lin x0 x1 v0 v1 u <= v0.
Proof.
  intros Hx Hv Hu. destruct (lin_slope x0 x1 v0 v1 u Hx) as [s [E Es]]. rewrite E.
  assert (0 <= s) by (apply (slope_nonneg s (x1 - x0) (v1 - v0)); lra). nra.
Qed.
Lemma lin_le_right x0 x1 v0 v1 u : x0 < x1 -> v0 <= v1 -> u <= x1 -> lin x0 x1 v0 v1 u <= v1.
Proof.
  intros Hx Hv Hu. destruct (lin_slope x0 x1 v0 v1 u Hx) as [s [E Es]]. rewrite E.
  assert (0 <= s) by (apply (slope_nonneg s (x1 - x0) (v1 - v0)); lra).
  assert ((u - x0) * s <= (x1 - x0) * s) by nra. lra.
Qed.
Lemma lin_ge_right x0 x1 v0 v1 u : x0 < x1 -> v0 <= v1 -> x1 <= u -> v1 <= lin x0 x1 v0 v1 u.
Proof.
  intros Hx Hv Hu. destruct (lin_slope x0 x1 v0 v1 u Hx) as [s [E Es]]. rewrite E.
  assert (0 <= s) by (apply (slope_nonneg s (x1 - x0) (v1 - v0)); lra).
  assert ((x1 - x0) * s <= (u - x0) * s) by nra. lra.
Qed.
Lemma lin_mono x0 x1 v0 v1 u u' : x0 < x1 -> v0 <= v1 -> u <= u' -> lin x0 x1 v0 v1 u <= lin x0 x1 v0 v1 u'.
Proof.
  intros Hx Hv Hu. destruct (lin_slope x0 x1 v0 v1 u Hx) as [s [E Es]].
  destruct (lin_slope x0 x1 v0 v1 u' Hx) as [s' [E' Es']]. rewrite E, E'.
  assert (s == s'). { assert (s * (x1 - x0) == s' * (x1 - x0)) by lra. apply (Qmult_inj_r s s' (x1 - x0)); [lra|assumption]. }
  assert (0 <= s) by (apply (slope_nonneg s (x1 - x0) (v1 - v0)); lra).
  assert ((u - x0) * s <= (u' - x0) * s) by nra. nra.
Qed.
Lemma lin_at_right x0 x1 v0 v1 : x0 < x1 -> lin x0 x1 v0 v1 x1 == v1.
Proof. intro H. unfold lin. field. lra. Qed.
Lemma lin_at_left x0 x1 v0 v1 : x0 < x1 -> lin x0 x1 v0 v1 x0 == v0.
Proof. intro H. unfold lin. field. lra. Qed.

(* ---------------------------------------------------------------- increasing lists, searchsorted *)
Lemma Qlt_bool_iff a b : Qlt_bool a b = true <-> a < b.
Proof.
  unfold Qlt_bool. rewrite Bool.negb_true_iff. split; intro H.
  - apply Qnot_le_lt. intro C. apply Qle_bool_iff in C. congruence.
  - destruct (Qle_bool b a) eqn:E; [|reflexivity]. apply Qle_bool_iff in E. exfalso. apply (Qlt_not_le _ _ H E).
Qed.

Definition cnt (x : list Q) (u : Q) : nat := length (filter (fun xi => Qlt_bool xi u) x).

Lemma count_lt_cnt x u : count_lt x u = Z.of_nat (cnt x u).
Proof. reflexivity. Qed.

Lemma cnt_le_length x u : (cnt x u <= length x)%nat.
Proof. unfold cnt. induction x as [|a t IH]; simpl; [lia|]. destruct (Qlt_bool a u); simpl; lia. Qed.

Lemma filter_none_above a t u : Forall (Qlt a) t -> u <= a -> filter (fun xi => Qlt_bool xi u) t = [].
Proof.
  intros F Hu. induction t as [|b t IH]; [reflexivity|]. simpl. inversion F; subst.
  destruct (Qlt_bool b u) eqn:E; [|auto]. apply Qlt_bool_iff in E. exfalso. lra.
Qed.

Lemma incr_nth_lt x : increasing x -> forall i j, (i < j < length x)%nat -> nth i x 0 < nth j x 0.
Proof.
  intro S. induction S as [|a t S IH F]; intros i j H; simpl in *; [lia|].
  destruct j as [|j]; [lia|]. destruct i as [|i].
  - rewrite Forall_forall in F. apply F. apply nth_In. lia.
  - apply IH. lia.
Qed.

Lemma incr_nth_le x : increasing x -> forall i j, (i <= j < length x)%nat -> nth i x 0 <= nth j x 0.
Proof.
  intros S i j H. destruct (Nat.eq_dec i j) as [->|N]; [lra|]. apply Qlt_le_weak, incr_nth_lt; [assumption|lia].
Qed.

(* searchsorted on an increasing array: everything before the returned index is < u,
   everything from it on is >= u *)
Lemma cnt_spec x u : increasing x ->
  (forall i, (i < cnt x u)%nat -> nth i x 0 < u) /\ (forall i, (cnt x u <= i < length x)%nat -> u <= nth i x 0).
Proof.
  intro S. induction S as [|a t S IH F]; unfold cnt in *; simpl.
  - split; intros; lia.
  - destruct (Qlt_bool a u) eqn:E.
    + apply Qlt_bool_iff in E. simpl. destruct IH as [I1 I2]. split; intros i Hi; destruct i as [|i]; try assumption; try lia.
      * apply I1. lia.
      * apply I2. lia.
    + assert (Hu : u <= a). { apply Qnot_lt_le. intro C. apply Qlt_bool_iff in C. congruence. }
      rewrite (filter_none_above a t u F Hu). simpl. split; intros i Hi; [lia|].
      destruct i as [|i]; [exact Hu|]. rewrite Forall_forall in F.
      assert (a < nth i t 0) by (apply F, nth_In; lia). lra.
Qed.

Lemma cnt_mono x u u' : u <= u' -> (cnt x u <= cnt x u')%nat.
Proof.
  intro H. unfold cnt. induction x as [|a t IH]; simpl; [lia|].
  destruct (Qlt_bool a u) eqn:E.
  - apply Qlt_bool_iff in E. assert (E' : Qlt_bool a u' = true) by (apply Qlt_bool_iff; lra). rewrite E'. simpl. lia.
  - destruct (Qlt_bool a u'); simpl; lia.
Qed.

Lemma cnt_at_node x k : increasing x -> (k < length x)%nat -> cnt x (nth k x 0) = k.
Proof.
  intros S Hk. destruct (cnt_spec x (nth k x 0) S) as [C1 C2]. pose proof (cnt_le_length x (nth k x 0)).
  destruct (lt_eq_lt_dec (cnt x (nth k x 0)) k) as [[L|E]|G]; [|exact E|].
  - exfalso. assert (nth k x 0 <= nth (cnt x (nth k x 0)) x 0) by (apply C2; lia).
    assert (nth (cnt x (nth k x 0)) x 0 < nth k x 0) by (apply incr_nth_lt; [assumption|lia]). lra.
  - exfalso. assert (nth k x 0 < nth k x 0) by (apply C1; lia). lra.
Qed.

(* ---------------------------------------------------------------- interplin *)
(* the bracket index chosen by interplin, on naturals *)
Definition bracket (n k : nat) : nat := if (n - 1 <=? k - 1)%nat then (n - 2)%nat else (k - 1)%nat.

Lemma interplin_eq v x u : (2 <= length x)%nat -> length v = length x ->
  let m := bracket (length x) (cnt x u) in
  interplin v x u = Ok (Qred (lin (nth m x 0) (nth (S m) x 0) (nth m v 0) (nth (S m) v 0) u)) /\ (S m < length x)%nat.
Proof.
  intros Hn Hv. cbv zeta. unfold interplin. rewrite count_lt_cnt, Hv.
  pose proof (cnt_le_length x u) as Hc. remember (cnt x u) as k eqn:Ek. clear Ek.
  remember (length x) as n eqn:En. clear En.
  unfold bracket.
  destruct (n - 1 <=? k - 1)%nat eqn:E1.
  - apply Nat.leb_le in E1. assert (k = n) by lia. subst k.
    destruct (Z.of_nat n - 1 <=? Z.of_nat n - 1)%Z eqn:E2; [|lia].
    destruct (Z.of_nat n - 2 <? 0)%Z eqn:E3; [lia|].
    destruct ((Z.of_nat n <=? Z.of_nat n - 2 + 1) || (Z.of_nat n <=? Z.of_nat n - 2 + 1))%Z eqn:E4; [lia|].
    split; [|lia]. unfold lin, qnth. repeat f_equal; lia.
  - apply Nat.leb_gt in E1.
    destruct (Z.of_nat n - 1 <=? Z.of_nat k - 1)%Z eqn:E2; [lia|].
    destruct (Z.of_nat k - 1 <? 0)%Z eqn:E3.
    + assert (k = 0)%nat by lia.
      destruct ((Z.of_nat n <=? 0 + 1) || (Z.of_nat n <=? 0 + 1))%Z eqn:E4; [lia|].
      split; [|lia]. unfold lin, qnth. replace (k - 1)%nat with 0%nat by lia. reflexivity.
    + destruct ((Z.of_nat n <=? Z.of_nat k - 1 + 1) || (Z.of_nat n <=? Z.of_nat k - 1 + 1))%Z eqn:E4; [lia|].
      split; [|lia]. unfold lin, qnth. repeat f_equal; lia.
Qed.

(* where u sits relative to its bracket *)
Lemma bracket_cases x u : increasing x -> (2 <= length x)%nat ->
  let m := bracket (length x) (cnt x u) in
  (S m < length x)%nat
  /\ ((cnt x u = 0%nat /\ m = 0%nat /\ u <= nth 0 x 0)
      \/ (nth m x 0 < u /\ u <= nth (S m) x 0 /\ m = (cnt x u - 1)%nat /\ (1 <= cnt x u)%nat)
      \/ (cnt x u = length x /\ m = (length x - 2)%nat /\ nth (S m) x 0 < u)).
Proof.
  intros Sx Hn. cbv zeta. destruct (cnt_spec x u Sx) as [C1 C2]. pose proof (cnt_le_length x u) as Hc.
  unfold bracket. remember (cnt x u) as k eqn:Ek. clear Ek.
  destruct (length x - 1 <=? k - 1)%nat eqn:E1.
  - apply Nat.leb_le in E1. assert (k = length x) by lia. subst k. split; [lia|]. right. right.
    repeat split. replace (S (length x - 2)) with (length x - 1)%nat by lia. apply C1. lia.
  - apply Nat.leb_gt in E1. split; [lia|]. destruct k as [|k].
    + left. repeat split. apply C2. lia.
    + right. left. replace (S k - 1)%nat with k by lia. repeat split; try lia.
      * apply C1. lia.
      * apply C2. lia.
Qed.

(* the value interplin returns (when it returns) *)
Definition interpF (v x : list Q) (u : Q) : Q :=
  let m := bracket (length x) (cnt x u) in Qred (lin (nth m x 0) (nth (S m) x 0) (nth m v 0) (nth (S m) v 0) u).

Section Interp.
  Variables v x : list Q.
  Hypothesis Sx : increasing x.
  Hypothesis Sv : increasing v.
  Hypothesis Hn : (2 <= length x)%nat.
  Hypothesis Hv : length v = length x.

  Notation F := (interpF v x).

  Lemma seg_ok m : (S m < length x)%nat -> nth m x 0 < nth (S m) x 0 /\ nth m v 0 <= nth (S m) v 0.
  Proof.
    intro H. split.
    - apply incr_nth_lt; [assumption|lia].
    - apply Qlt_le_weak, incr_nth_lt; [assumption|lia].
  Qed.

  Lemma F_upper u : let m := bracket (length x) (cnt x u) in u <= nth (S m) x 0 -> F u <= nth (S m) v 0.
  Proof.
    cbv zeta. intro H. destruct (bracket_cases x u Sx Hn) as [Hm _]. destruct (seg_ok _ Hm). unfold interpF; cbv zeta; rewrite ?Qred_correct.
    apply lin_le_right; assumption.
  Qed.
  Lemma F_lower u : let m := bracket (length x) (cnt x u) in nth m x 0 <= u -> nth m v 0 <= F u.
  Proof.
    cbv zeta. intro H. destruct (bracket_cases x u Sx Hn) as [Hm _]. destruct (seg_ok _ Hm). unfold interpF; cbv zeta; rewrite ?Qred_correct.
    apply lin_ge_left; assumption.
  Qed.

  Lemma bracket_mono u u' : u <= u' -> (bracket (length x) (cnt x u) <= bracket (length x) (cnt x u'))%nat.
  Proof.
    intro H. pose proof (cnt_mono x u u' H). pose proof (cnt_le_length x u). pose proof (cnt_le_length x u').
    unfold bracket. destruct (length x - 1 <=? cnt x u - 1)%nat eqn:E1; destruct (length x - 1 <=? cnt x u' - 1)%nat eqn:E2;
      try apply Nat.leb_le in E1; try apply Nat.leb_le in E2; try apply Nat.leb_gt in E1; try apply Nat.leb_gt in E2; lia.
  Qed.

  Lemma F_monotone u u' : u <= u' -> F u <= F u'.
  Proof.
    intro H. pose proof (bracket_mono u u' H) as Hb.
    destruct (bracket_cases x u Sx Hn) as [Hm Cu]. destruct (bracket_cases x u' Sx Hn) as [Hm' Cu'].
    pose proof (F_upper u) as FU. pose proof (F_lower u') as FL. cbv zeta in *.
    remember (bracket (length x) (cnt x u)) as m eqn:Em. remember (bracket (length x) (cnt x u')) as m' eqn:Em'.
    destruct (Nat.eq_dec m m') as [E|N].
    - unfold interpF; cbv zeta; rewrite ?Qred_correct. rewrite <- Em, <- Em', <- E. destruct (seg_ok _ Hm). apply lin_mono; assumption.
    - assert (Hlt : (m < m')%nat) by lia.
      assert (U : u <= nth (S m) x 0).
      { destruct Cu as [[_ [_ C]]|[[_ [C _]]|[_ [C _]]]]; [|exact C|lia].
        assert (nth 0 x 0 < nth (S m) x 0) by (apply incr_nth_lt; [assumption|lia]). lra. }
      assert (L : nth m' x 0 <= u').
      { destruct Cu' as [[_ [C _]]|[[C _]|[_ [C1 C2]]]]; [lia|lra|].
        assert (nth m' x 0 < nth (S m') x 0) by (apply incr_nth_lt; [assumption|lia]). lra. }
      specialize (FU U). specialize (FL L).
      assert (nth (S m) v 0 <= nth m' v 0) by (apply incr_nth_le; [assumption|lia]). lra.
  Qed.

  Lemma F_in_grid u : nth 0 x 0 <= u <= nth (length x - 1) x 0 -> nth 0 v 0 <= F u <= nth (length v - 1) v 0.
  Proof.
    intros [H0 H1]. destruct (bracket_cases x u Sx Hn) as [Hm Cu].
    pose proof (F_upper u) as FU. pose proof (F_lower u) as FL. cbv zeta in *.
    remember (bracket (length x) (cnt x u)) as m eqn:Em. split.
    - assert (L : nth m x 0 <= u).
      { destruct Cu as [[_ [C _]]|[[C _]|[_ [C1 C2]]]]; [subst m; rewrite C; exact H0|lra|].
        assert (nth m x 0 < nth (S m) x 0) by (apply incr_nth_lt; [assumption|lia]). lra. }
      specialize (FL L). assert (nth 0 v 0 <= nth m v 0) by (apply incr_nth_le; [assumption|lia]). lra.
    - assert (U : u <= nth (S m) x 0).
      { destruct Cu as [[_ [_ C]]|[[_ [C _]]|[_ [C1 C2]]]]; [|exact C|].
        - assert (nth 0 x 0 < nth (S m) x 0) by (apply incr_nth_lt; [assumption|lia]). lra.
        - exfalso. replace (S m) with (length x - 1)%nat in C2 by lia. lra. }
      specialize (FU U). assert (nth (S m) v 0 <= nth (length v - 1) v 0) by (apply incr_nth_le; [assumption|lia]). lra.
  Qed.

  Lemma F_at_node k : (k < length x)%nat -> F (nth k x 0) == nth k v 0.
  Proof.
    intro Hk. unfold interpF; cbv zeta; rewrite ?Qred_correct. rewrite (cnt_at_node x k Sx Hk). unfold bracket.
    destruct (length x - 1 <=? k - 1)%nat eqn:E1.
    - apply Nat.leb_le in E1. lia.
    - apply Nat.leb_gt in E1. destruct k as [|k].
      + simpl. apply lin_at_left. apply (incr_nth_lt x Sx 0 1)%nat. lia.
      + replace (S k - 1)%nat with k by lia. apply lin_at_right. apply incr_nth_lt; [assumption|lia].
  Qed.

  Lemma interplin_F u : interplin v x u = Ok (F u).
  Proof. destruct (interplin_eq v x u Hn Hv) as [E _]. exact E. Qed.
End Interp.

(* ---------------------------------------------------------------- the cumulative table *)
Lemma cumtrapz_go_props xs : forall ys xprev yprev acc,
  increasing (xprev :: xs) -> 0 < yprev -> positive ys -> length ys = length xs ->
  length (cumtrapz_go xprev yprev acc xs ys) = length xs
  /\ increasing (cumtrapz_go xprev yprev acc xs ys)
  /\ Forall (fun z => acc < z) (cumtrapz_go xprev yprev acc xs ys).
Proof.
  induction xs as [|x xt IH]; intros ys xprev yprev acc Sx Hy Py Hl.
  - destruct ys; simpl; repeat split; constructor.
  - destruct ys as [|y yt]; [discriminate|]. cbn [cumtrapz_go].
    inversion Sx as [|? ? Sx' Fx]; subst. inversion Py as [|? ? Hy0 Py']; subst. inversion Fx as [|? ? Hx0 _]; subst.
    set (acc' := Qred (acc + (x - xprev) * (y + yprev) / 2)).
    assert (Hacc : acc < acc').
    { unfold acc'. rewrite Qred_correct. assert (0 < (x - xprev) * (y + yprev)) by nra.
      assert (0 < (x - xprev) * (y + yprev) / 2) by (apply Qlt_shift_div_l; lra). lra. }
    destruct (IH yt x y acc' Sx' Hy0 Py' ltac:(simpl in Hl; lia)) as [L [I G]].
    repeat split.
    + cbn [length]. rewrite L. reflexivity.
    + constructor; assumption.
    + constructor; [exact Hacc|]. eapply Forall_impl; [|exact G]. intros z Hz. simpl in Hz. lra.
Qed.

Lemma last_nth (l : list Q) : l <> [] -> qlast l = nth (length l - 1) l 0.
Proof.
  unfold qlast. induction l as [|a t IH]; [congruence|]. intros _. destruct t as [|b t]; [reflexivity|].
  change (last (a :: b :: t) 0) with (last (b :: t) 0). rewrite IH by congruence. simpl. rewrite Nat.sub_0_r. reflexivity.
Qed.

Lemma nth_map_div (l : list Q) n i : (i < length l)%nat ->
  nth i (map (fun p => Qred (p / n)) l) 0 = Qred (nth i l 0 / n).
Proof.
  intro H. rewrite (nth_indep _ 0 ((fun p => Qred (p / n)) 0)) by (rewrite map_length; exact H).
  exact (map_nth (fun p => Qred (p / n)) l 0 i).
Qed.

Lemma incr_map_div l n : increasing l -> 0 < n -> increasing (map (fun p => Qred (p / n)) l).
Proof.
  intros S Hn. assert (Hi : 0 < / n) by (apply Qinv_lt_0_compat; exact Hn).
  induction S as [|a t S IH F]; cbn [map]; constructor; [exact IH|].
  rewrite Forall_forall in *. intros z Hz. apply in_map_iff in Hz as [b [<- Hb]].
  rewrite !Qred_correct. unfold Qdiv. apply Qmult_lt_compat_r; [exact Hi|apply F; exact Hb].
Qed.

Lemma incr_tl l : increasing l -> increasing (tl l).
Proof. intro S. destruct l; [constructor|]. inversion S; assumption. Qed.

Lemma tables_props pofx x : gen_ok pofx x ->
  let xv := fst (gen_tables false pofx x) in let pc := snd (gen_tables false pofx x) in
  xv = tl x /\ length pc = length xv /\ (2 <= length pc)%nat /\ increasing xv /\ increasing pc
  /\ 0 < nth 0 pc 0 /\ nth (length pc - 1) pc 0 == 1.
Proof.
  intros [Hl [H3 [Sx Pp]]]. cbv zeta. unfold gen_tables. cbn [fst snd].
  destruct x as [|x0 xt]; [simpl in H3; lia|]. destruct pofx as [|p0 pt]; [discriminate|].
  inversion Pp as [|? ? Hp0 Pt]; subst. unfold cumtrapz.
  destruct (cumtrapz_go_props xt pt x0 p0 0 Sx Hp0 Pt ltac:(simpl in Hl; lia)) as [L [I G]].
  set (c := cumtrapz_go x0 p0 0 xt pt) in *.
  assert (Hc : c <> []). { intro E. rewrite E in L. simpl in L, H3. lia. }
  assert (Hnorm : 0 < qlast c).
  { rewrite last_nth by exact Hc. rewrite Forall_forall in G. apply G. apply nth_In. destruct c; [congruence|simpl; lia]. }
  cbn [tl]. rewrite map_length. simpl in H3.
  repeat split; try lia.
  - inversion Sx; assumption.
  - apply incr_map_div; assumption.
  - rewrite nth_map_div by lia. rewrite Qred_correct. apply Qlt_shift_div_l; [exact Hnorm|]. rewrite Qmult_0_l.
    rewrite Forall_forall in G. apply G, nth_In. lia.
  - rewrite nth_map_div by lia. rewrite Qred_correct. rewrite <- last_nth by exact Hc. field. lra.
Qed.

(* ---------------------------------------------------------------- the sampler *)
Lemma sampler_eq pofx x u : gen_ok pofx x ->
  sampler pofx x u = Ok (interpF (tl x) (snd (gen_tables false pofx x)) u).
Proof.
  intro G. destruct (tables_props pofx x G) as [E [L [H2 [Sv [Sp _]]]]]. unfold sampler.
  destruct (gen_tables false pofx x) as [xv pc]. simpl fst in *; simpl snd in *. subst xv.
  apply interplin_F; [lia|congruence].
Qed.

Theorem sampler_total pofx x u : gen_ok pofx x -> exists y, sampler pofx x u = Ok y.
Proof. intro G. eexists. apply sampler_eq. exact G. Qed.


Theorem sampler_hits_nodes pofx x k : gen_ok pofx x -> (k < length x - 1)%nat ->
  exists y, sampler pofx x (nth k (pcum_of pofx x) 0) = Ok y /\ y == nth (S k) x 0.
Proof.
  intros G Hk. destruct (tables_props pofx x G) as [E [L [H2 [Sv [Sp _]]]]]. rewrite E in *.
  eexists. split; [apply sampler_eq; exact G|]. unfold pcum_of.
  assert (Hlen : length (tl x) = (length x - 1)%nat) by (destruct x; simpl; lia).
  rewrite (F_at_node (tl x) _ Sp H2 (eq_sym L) k) by lia.
  destruct x as [|x0 xt]; [simpl in Hk; lia|]. reflexivity.
Qed.

Theorem sampler_monotone pofx x u u' y y' : gen_ok pofx x -> u <= u' ->
  sampler pofx x u = Ok y -> sampler pofx x u' = Ok y' -> y <= y'.
Proof.
  intros G Hu. rewrite !(sampler_eq pofx x _ G). intros Ey Ey'. inversion Ey as [Ey1]; inversion Ey' as [Ey2]. clear Ey Ey' Ey1 Ey2.
  destruct (tables_props pofx x G) as [E [L [H2 [Sv [Sp _]]]]]. rewrite E in *.
  apply (F_monotone (tl x) _ Sp Sv H2 (eq_sym L)). exact Hu.
Qed.

Theorem sampler_in_grid pofx x u y : gen_ok pofx x ->
  nth 0 (pcum_of pofx x) 0 <= u <= 1 -> sampler pofx x u = Ok y ->
  nth 1 x 0 <= y <= qlast x.
Proof.
  intros G [H0 H1]. rewrite (sampler_eq pofx x _ G). intro Ey. inversion Ey as [Ey']. clear Ey Ey'.
  destruct (tables_props pofx x G) as [E [L [Hp2 [Sv [Sp [_ Hone]]]]]]. rewrite E in *. unfold pcum_of in *.
  set (pc := snd (gen_tables false pofx x)) in *.
  destruct (F_in_grid (tl x) pc Sp Sv Hp2 (eq_sym L) u) as [A B]; [split; [exact H0|lra]|].
  destruct G as [_ [G3 _]]. destruct x as [|x0 [|x1 xt]]; try (simpl in G3; lia).
  split; [exact A|]. rewrite (last_nth (x0 :: x1 :: xt)) by (intro Hnil; discriminate Hnil).
  replace (nth (length (x0 :: x1 :: xt) - 1) (x0 :: x1 :: xt) 0) with (nth (length (tl (x0 :: x1 :: xt)) - 1) (tl (x0 :: x1 :: xt)) 0); [exact B|].
  simpl. rewrite Nat.sub_0_r. destruct xt; reflexivity.
Qed.

(* consequence used by the in-grid checker: the first grid point bounds the second *)
Lemma grid_first_le_second x : increasing x -> (2 <= length x)%nat -> nth 0 x 0 <= nth 1 x 0.
Proof. intros S H. apply incr_nth_le; [assumption|lia]. Qed.

(* ---------------------------------------------------------------- checker soundness *)
Lemma close_b_sound tol a b : close_b tol a b = true -> Qabs (a - b) <= tol.
Proof. unfold close_b. apply Qle_bool_iff. Qed.

Lemma all2_Forall2 {A B} (f : A -> B -> bool) (P : A -> B -> Prop) :
  (forall a b, f a b = true -> P a b) -> forall l1 l2, all2 f l1 l2 = true -> Forall2 P l1 l2.
Proof.
  intros H l1. induction l1 as [|a t IH]; intros [|b t2] E; simpl in E; try discriminate; constructor.
  - apply H. apply andb_true_iff in E. tauto.
  - apply IH. apply andb_true_iff in E. tauto.
Qed.

Theorem gen_check_sound tol pofx x us outs :
  gen_check tol pofx x us outs = true -> Forall2 (gen_out_ok tol pofx x) us outs.
Proof.
  apply all2_Forall2. intros u o E. unfold gen_out_ok. destruct (sampler pofx x u) as [y|e]; [|discriminate].
  exists y. split; [reflexivity|]. apply close_b_sound. exact E.
Qed.

Lemma nodup_b_sound l : nodup_b l = true -> NoDup l.
Proof.
  induction l as [|a t IH]; simpl; intro E; constructor; apply andb_true_iff in E as [E1 E2].
  - intro I. apply Bool.negb_true_iff in E1. assert (existsb (Z.eqb a) t = true); [|congruence].
    apply existsb_exists. exists a. split; [exact I|apply Z.eqb_refl].
  - apply IH. exact E2.
Qed.

Theorem ri_check_sound imax nrand unique out : ri_check imax nrand unique out = true -> ri_ok imax nrand unique out.
Proof.
  unfold ri_check, ri_ok. intro E. apply andb_true_iff in E as [E E3]. apply andb_true_iff in E as [E1 E2].
  repeat split.
  - lia.
  - rewrite forallb_forall in E2. specialize (E2 v H). lia.
  - rewrite forallb_forall in E2. specialize (E2 v H). lia.
  - intro U. subst unique. simpl in E3. apply nodup_b_sound. exact E3.
Qed.

Lemma NoDup_map_inj_in {A B} (f : A -> B) l :
  (forall a b, In a l -> In b l -> f a = f b -> a = b) -> NoDup l -> NoDup (map f l).
Proof.
  intros Inj N. induction N as [|a t Hn N IH]; simpl; constructor.
  - intro I. apply in_map_iff in I as [b [E Hb]]. apply Hn.
    rewrite (Inj a b (or_introl eq_refl) (or_intror Hb) (eq_sym E)). exact Hb.
  - apply IH. intros x y Hx Hy. apply Inj; right; assumption.
Qed.

(* a duplicate-free selection from [0, imax) cannot have more than imax members: rejecting
   unique=True with nrand > imax is forced, not a choice of the implementation *)
Theorem ri_unique_bound imax nrand out : ri_ok imax nrand true out -> (nrand <= Z.max 0 imax)%Z.
Proof.
  intros [L [R U]]. specialize (U eq_refl).
  assert (N : NoDup (map Z.to_nat out)).
  { apply NoDup_map_inj_in; [|exact U]. intros a b Ia Ib E. pose proof (R a Ia). pose proof (R b Ib). lia. }
  assert (I : incl (map Z.to_nat out) (seq 0 (Z.to_nat imax))).
  { intros k Hk. apply in_map_iff in Hk as [v [<- Hv]]. specialize (R v Hv). apply in_seq. lia. }
  pose proof (NoDup_incl_length N I) as H. rewrite map_length, seq_length in H. lia.
Qed.

Theorem sky_check_sound n pts : sky_check n pts = true -> sky_ok n pts.
Proof.
  unfold sky_check, sky_ok. intro E. apply andb_true_iff in E as [E1 E2]. split; [lia|].
  intros p Hp. rewrite forallb_forall in E2. specialize (E2 p Hp).
  repeat (apply andb_true_iff in E2 as [E2 ?]).
  repeat match goal with H : Qle_bool _ _ = true |- _ => apply Qle_bool_iff in H end. tauto.
Qed.

Theorem chol_check_sound means M n flat out :
  chol_check means M n flat out = true -> chol_ok means M n flat out.
Proof.
  unfold chol_check, chol_ok. intro E. apply andb_true_iff in E as [E1 E2]. apply Nat.eqb_eq in E1.
  split; [exact E1|]. intros j i Hj Hi. rewrite forallb_forall in E2.
  specialize (E2 j ltac:(apply in_seq; lia)). apply andb_true_iff in E2 as [E3 E4]. apply Nat.eqb_eq in E3.
  split; [exact E3|]. rewrite forallb_forall in E4. specialize (E4 i ltac:(apply in_seq; lia)).
  apply close_b_sound. exact E4.
Qed.

(* ---------------------------------------------------------------- Cholesky sampler is affine *)
Lemma nth_firstn_lt {A} (l : list A) n j d : (j < n)%nat -> nth j (firstn n l) d = nth j l d.
Proof.
  revert n j. induction l as [|a t IH]; intros n j H; [rewrite firstn_nil; reflexivity|].
  destruct n as [|n]; [lia|]. destruct j as [|j]; [reflexivity|]. simpl. apply IH. lia.
Qed.

Lemma nth_skipn_add {A} (l : list A) s j d : nth j (skipn s l) d = nth (s + j) l d.
Proof.
  revert l. induction s as [|s IH]; intro l; [reflexivity|]. destruct l as [|a t]; [destruct j; reflexivity|].
  simpl. apply IH.
Qed.

Lemma reshape_length rows n flat : length (reshape rows n flat) = rows.
Proof. revert flat. induction rows as [|k IH]; intro flat; simpl; [reflexivity|]. rewrite IH. reflexivity. Qed.

Lemma reshape_nth rows n flat k j : (k < rows)%nat -> (j < n)%nat ->
  nth j (nth k (reshape rows n flat) []) 0%Q = nth (k * n + j) flat 0%Q.
Proof.
  revert flat k. induction rows as [|r IH]; intros flat k Hk Hj; [lia|].
  destruct k as [|k]; simpl.
  - apply nth_firstn_lt. exact Hj.
  - rewrite IH by lia. rewrite nth_skipn_add. f_equal. lia.
Qed.

Lemma map2_nth_seq {A B C} (f : A -> B -> C) (a : list A) (b : list B) da db :
  length a = length b -> map2 f a b = map (fun k => f (nth k a da) (nth k b db)) (seq 0 (length a)).
Proof.
  revert b. induction a as [|x t IH]; intros [|y t2] H; simpl in *; try discriminate; [reflexivity|].
  f_equal. rewrite <- seq_shift, map_map. apply IH. lia.
Qed.

Lemma nth_map_seq {A} (f : nat -> A) n j d : (j < n)%nat -> nth j (map f (seq 0 n)) d = f j.
Proof.
  intro H. rewrite (nth_indep _ d (f 0%nat)) by (rewrite map_length, seq_length; exact H).
  rewrite (map_nth f (seq 0 n) 0%nat j). rewrite seq_nth by exact H. reflexivity.
Qed.

Lemma nth_map_in {A B} (f : A -> B) l i da db : (i < length l)%nat -> nth i (map f l) db = f (nth i l da).
Proof.
  intro H. rewrite (nth_indep _ db (f da)) by (rewrite map_length; exact H). apply map_nth.
Qed.

Lemma map2_length {A B C} (f : A -> B -> C) a b : length a = length b -> length (map2 f a b) = length a.
Proof. revert b. induction a as [|x t IH]; intros [|y t2] H; simpl in *; try discriminate; [reflexivity|]. rewrite IH; lia. Qed.

Lemma map2_nth {A B C} (f : A -> B -> C) a b i da db dc :
  length a = length b -> (i < length a)%nat -> nth i (map2 f a b) dc = f (nth i a da) (nth i b db).
Proof.
  revert b i. induction a as [|x t IH]; intros [|y t2] i H Hi; simpl in *; try discriminate; try lia.
  destruct i as [|i]; [reflexivity|]. apply IH; lia.
Qed.


Theorem cholesky_is_affine means M n flat j i :
  square M -> means_fit means M -> (j < n)%nat -> (i < length M)%nat ->
  length (chol_sample means M n flat) = n
  /\ length (nth j (chol_sample means M n flat) []) = length M
  /\ nth i (nth j (chol_sample means M n flat) []) 0 == chol_entry means M n flat j i.
Proof.
  intros Sq Mf Hj Hi. unfold chol_sample, transpose.
  set (r := reshape (length M) n flat). set (V := matmul M r n).
  assert (LV : length V = length M) by (unfold V, matmul; apply map_length).
  set (V' := match means with Some m => add_means m V | None => V end).
  assert (LV' : length V' = length M).
  { unfold V'. destruct means as [m|]; [|exact LV]. unfold add_means. simpl in Mf. rewrite map2_length; congruence. }
  rewrite map_length, seq_length. split; [reflexivity|].
  rewrite nth_map_seq by exact Hj. unfold column. rewrite map_length. split; [exact LV'|].
  rewrite (nth_map_in _ V' i [] 0) by lia.
  (* entry (i, j) of V *)
  assert (EV : nth j (nth i V []) 0 == qsum (map (fun k => nth k (nth i M []) 0 * nth (k * n + j) flat 0) (seq 0 (length M)))).
  { unfold V, matmul. rewrite (nth_map_in _ M i [] []) by exact Hi. rewrite nth_map_seq by exact Hj.
    unfold dotq. assert (Lrow : length (nth i M []) = length M).
    { unfold square in Sq. rewrite Forall_forall in Sq. apply Sq, nth_In. exact Hi. }
    assert (Lcol : length (map (fun row => nth j row 0) r) = length M) by (rewrite map_length; apply reshape_length).
    rewrite (map2_nth_seq Qmult _ _ 0 0) by (etransitivity; [exact Lrow|symmetry; exact Lcol]). rewrite Lrow.
    assert (E : map (fun k => nth k (nth i M []) 0 * nth k (map (fun row => nth j row 0) r) 0) (seq 0 (length M))
              = map (fun k => nth k (nth i M []) 0 * nth (k * n + j) flat 0) (seq 0 (length M))).
    { apply map_ext_in. intros k Hk. apply in_seq in Hk. f_equal.
      rewrite (nth_map_in _ r k [] 0) by (unfold r; rewrite reshape_length; lia).
      unfold r. apply reshape_nth; lia. }
    unfold column. rewrite E. reflexivity. }
  unfold chol_entry, V'. destruct means as [m|].
  - unfold add_means. simpl in Mf.
    rewrite (map2_nth _ m V i 0 [] []) by congruence.
    assert (Lr : (j < length (nth i V []))%nat).
    { unfold V, matmul. rewrite (nth_map_in _ M i [] []) by exact Hi. rewrite map_length, seq_length. exact Hj. }
    rewrite (nth_map_in _ (nth i V []) j 0 0) by exact Lr. rewrite EV. ring.
  - rewrite EV. ring.
Qed.

(* ---------------------------------------------------------------- remaining checkers *)

Lemma adj_incr_b_sound l : adj_incr_b l = true -> increasing l.
Proof.
  intro H. apply Sorted_StronglySorted; [intros a b c; apply Qlt_trans|].
  induction l as [|a t IH]; [constructor|]. destruct t as [|b t]; [repeat constructor|].
  simpl in H. apply andb_true_iff in H as [H1 H2]. constructor; [apply IH; exact H2|].
  constructor. apply Qlt_bool_iff. exact H1.
Qed.

Theorem gen_ok_b_sound pofx x : gen_ok_b pofx x = true -> gen_ok pofx x.
Proof.
  unfold gen_ok_b, gen_ok. intro E. repeat (apply andb_true_iff in E as [E ?]).
  apply Nat.eqb_eq in E. repeat split; try assumption.
  - apply Nat.leb_le. assumption.
  - apply adj_incr_b_sound. assumption.
  - unfold positive. apply Forall_forall. intros p Hp. rewrite forallb_forall in H. apply Qlt_bool_iff. apply H. exact Hp.
Qed.


Theorem pairs_mono_b_sound tol uo : pairs_mono_b tol uo = true -> ForallOrdPairs (mono_pair tol) uo.
Proof.
  induction uo as [|[u o] t IH]; intro E; [constructor|]. simpl in E. apply andb_true_iff in E as [E1 E2].
  constructor; [|apply IH; exact E2]. apply Forall_forall. intros [u' o'] Hq.
  rewrite forallb_forall in E1. specialize (E1 (u', o') Hq). simpl in E1. apply andb_true_iff in E1 as [A B].
  unfold mono_pair. simpl. split; intro H.
  - apply Qle_bool_iff in H. rewrite H in A. apply Qle_bool_iff. exact A.
  - apply Qle_bool_iff in H. rewrite H in B. apply Qle_bool_iff. exact B.
Qed.

Theorem in_grid_b_sound tol c x uo : in_grid_b tol c x uo = true ->
  forall u o, In (u, o) uo -> c <= u <= 1 -> qnth x 0 - tol <= o <= qlast x + tol.
Proof.
  unfold in_grid_b. intros E u o Hi [H0 H1]. rewrite forallb_forall in E. specialize (E (u, o) Hi). simpl in E.
  apply Qle_bool_iff in H0, H1. rewrite H0, H1 in E. simpl in E. apply andb_true_iff in E as [A B].
  apply Qle_bool_iff in A, B. split; assumption.
Qed.

(* C19 -- glue evaluated by generated case files (exact rationals / integers, vm_compute):
   verdict = (model = implementation ?) + 2 * (verified property checker rejects the output).
   The geometric part of the property is certified per case by generated lemmas over R
   (ProofsGeo.v introduction rules + interval), not here. *)
From Coq Require Import QArith Qabs.
From EsVerif.Common Require Import Base.
From EsVerif.C19 Require Import ModelQ Spec.
Local Open Scope Q_scope.

(* sky outputs of two runs with equal seeded generators: requested count, ranges on the exact
   dyadic values, bit-identical repetition.  (No model involved: bit 0 is never set.) *)
Definition v_sky (n : Z) (run1 run2 : list (Q * Q)) : Z :=
  verdict true (sky_check n run1 && same_points run1 run2).

(* radii returned with the points: 0 <= r <= rad (+ 1e-9 deg), identical in both runs *)
Definition v_radii (rad : Q) (r1 r2 : list Q) : Z :=
  verdict true (forallb (fun r => Qle_bool 0 r && Qle_bool r (rad + (1 # 1000000000))) r1
                && list_eqb Qeq_bool r1 r2).

(* cumulative-method sampler *)
Definition v_gen (pofx x us : list Q) (out : result (list Q)) : Z :=
  let tol := gen_tol pofx x in
  verdict (match gen_sample false pofx x us, out with
           | Ok m, Ok o => all2 (close_b tol) m o
           | Err a, Err b => err_eqb a b
           | _, _ => false
           end)
          (if gen_ok_b pofx x then
             match out with
             | Ok o => gen_check tol pofx x us o
                       && pairs_mono_b (2 * tol) (combine us o)
                       && in_grid_b tol (qnth (pcum_of pofx x) 0) x (combine us o)
             | Err _ => false
             end
           else true).

(* Cholesky sampler: out = samples (n rows of npar), M = the factor the implementation used *)
Definition chol_agree (means : option (list Q)) (M : list (list Q)) (n : nat) (flat : list Q)
    (out : list (list Q)) : bool :=
  let model := chol_sample means M n flat in
  (length out =? length model)%nat
  && forallb (fun j => forallb (fun i =>
        close_b (relq * chol_scale means M n flat j i) (nth i (nth j model []) 0) (nth i (nth j out []) 0))
        (seq 0 (length M))) (seq 0 n).

Definition v_chol (means : option (list Q)) (cov M : list (list Q)) (n : nat) (flat : list Q)
    (out : list (list Q)) : Z :=
  verdict (chol_agree means M n flat out)
          (chol_oracle_b cov M && chol_check means M n flat out).

(* random_indices: two runs with equal seeds *)
Definition v_ri (imax nrand : Z) (unique : bool) (out out2 : result (list Z)) : Z :=
  verdict (match out with
           | Ok _ => ri_accepts imax nrand unique
           | Err e => negb (ri_accepts imax nrand unique) && err_eqb e EValue
           end)
          (match out with
           | Ok l => ri_check imax nrand unique l
           | Err _ => negb (ri_accepts imax nrand unique)
           end && result_eqb zlist_eqb out out2).

(* the branch randcap takes, decided on the exact value of dec *)
Definition polar_b (dec : Q) : bool :=
  let thr := 3163075050785997 # 35184372088832 in Qle_bool thr dec || Qle_bool dec (- thr).

(* ---------------------------------------------------------------- v_gen, tables computed once
   (vm_compute is call-by-value: the `let` is evaluated a single time, whereas `sampler`
   rebuilds the cumulative table for every deviate).  ExecSound.v: v_gen_fast = v_gen. *)
Definition gen_check_t (tol : Q) (xvals pcum us outs : list Q) : bool :=
  all2 (fun u o => match interplin xvals pcum u with Ok y => close_b tol y o | Err _ => false end) us outs.

Definition v_gen_fast (pofx x us : list Q) (out : result (list Q)) : Z :=
  let tbl := gen_tables false pofx x in
  let xvals := fst tbl in
  let pcum := snd tbl in
  let tol := Qred (relq * (qmaxabs x + max_slope xvals pcum)) in
  verdict (match gen_sample false pofx x us, out with
           | Ok m, Ok o => all2 (close_b tol) m o
           | Err a, Err b => err_eqb a b
           | _, _ => false
           end)
          (if gen_ok_b pofx x then
             match out with
             | Ok o => gen_check_t tol xvals pcum us o
                       && pairs_mono_b (2 * tol) (combine us o)
                       && in_grid_b tol (qnth pcum 0) x (combine us o)
             | Err _ => false
             end
           else true).

(* ---------------------------------------------------------------- input-form variants of v_gen_fast
   k    : multiplier of the tolerance (1 for binary64 inputs; 2^29 = eps(float32)/eps(float64) when the grid
          or density is handed over as float32, because numpy then builds the table in float32)
   mono : run the quadratic pairwise monotonicity checker (switched off for long samples, where the
          agreement with the monotone model is checked value by value anyway) *)
Definition v_gen_opt (k : Q) (mono : bool) (pofx x us : list Q) (out : result (list Q)) : Z :=
  let tbl := gen_tables false pofx x in
  let xvals := fst tbl in
  let pcum := snd tbl in
  let tol := Qred (k * (relq * (qmaxabs x + max_slope xvals pcum))) in
  verdict (match gen_sample false pofx x us, out with
           | Ok m, Ok o => all2 (close_b tol) m o
           | Err a, Err b => err_eqb a b
           | _, _ => false
           end)
          (if gen_ok_b pofx x then
             match out with
             | Ok o => gen_check_t tol xvals pcum us o
                       && (if mono then pairs_mono_b (2 * tol) (combine us o) else true)
                       && in_grid_b tol (qnth pcum 0) x (combine us o)
             | Err _ => false
             end
           else true).

(* cumulative=True: pofx is the tabulated cumulative distribution itself (not the "density" of the
   statement): model comparison only *)
Definition v_gen_cum (pofx x us : list Q) (out : result (list Q)) : Z :=
  let tbl := gen_tables true pofx x in
  let tol := Qred (relq * (qmaxabs x + max_slope (fst tbl) (snd tbl))) in
  verdict (match gen_sample true pofx x us, out with
           | Ok m, Ok o => all2 (close_b tol) m o
           | Err a, Err b => err_eqb a b
           | _, _ => false
           end) true.

(* ---------------------------------------------------------------- per-deviate tolerance
   A deviate below the first tabulated cumulative value p0 is EXTRAPOLATED along the first segment:
   value = (u - p0) * (x1 - x0) / (p1 - p0) + x0.  The float error of the difference p1 - p0 (two numbers
   of order 1, each good to 1 ulp) is relative eps / (p1 - p0), and it is multiplied by the distance
   |u - p0| measured in segment widths.  Inside its segment that factor is <= 1 (already in gen_tol);
   outside it is (p0 - u) / (p1 - p0).  ucond is that factor; the tolerance of deviate u is tol * ucond u. *)
Definition ucond (pcum : list Q) (u : Q) : Q :=
  let p0 := qnth pcum 0 in
  let p1 := qnth pcum 1 in
  if Qlt_bool u p0 then Qred (1 + (p0 - u) / (p1 - p0)) else 1.

Definition gen_check_tu (tol : Q) (xvals pcum us outs : list Q) : bool :=
  all2 (fun u o => match interplin xvals pcum u with
                   | Ok y => close_b (tol * ucond pcum u) y o
                   | Err _ => false
                   end) us outs.

Definition v_gen_u (k : Q) (pofx x us : list Q) (out : result (list Q)) : Z :=
  let tbl := gen_tables false pofx x in
  let xvals := fst tbl in
  let pcum := snd tbl in
  let tol := Qred (k * (relq * (qmaxabs x + max_slope xvals pcum))) in
  verdict (match gen_sample false pofx x us, out with
           | Ok m, Ok o => all2 (fun um o' => close_b (tol * ucond pcum (fst um)) (snd um) o') (combine us m) o
           | Err a, Err b => err_eqb a b
           | _, _ => false
           end)
          (if gen_ok_b pofx x then
             match out with
             | Ok o => gen_check_tu tol xvals pcum us o
                       && pairs_mono_b (2 * tol) (combine us o)
                       && in_grid_b tol (qnth pcum 0) x (combine us o)
             | Err _ => false
             end
           else true).

(* ---------------------------------------------------------------- v_gen_u with the in-grid and monotonicity
   requirements judged at the scale of the GRID (1e-12 |x|max), not at the condition-aware tolerance of the value
   comparison: on a table with flat stretches (repeated cumulative values) the inverse map is arbitrarily steep
   and the value comparison says nothing, but an interpolated value still has to lie between two grid abscissae and
   the outputs still have to be ordered like the deviates (both up to rounding of magnitude eps |x|). *)
Definition v_gen_x (k : Q) (pofx x us : list Q) (out : result (list Q)) : Z :=
  let tbl := gen_tables false pofx x in
  let xvals := fst tbl in
  let pcum := snd tbl in
  let tol := Qred (k * (relq * (qmaxabs x + max_slope xvals pcum))) in
  let tolx := Qred (k * (relq * qmaxabs x)) in
  verdict (match gen_sample false pofx x us, out with
           | Ok m, Ok o => all2 (fun um o' => close_b (tol * ucond pcum (fst um)) (snd um) o') (combine us m) o
           | Err a, Err b => err_eqb a b
           | _, _ => false
           end)
          (if gen_ok_b pofx x then
             match out with
             | Ok o => gen_check_tu tol xvals pcum us o
                       && pairs_mono_b (2 * tolx) (combine us o)
                       && in_grid_b tolx (Qred (qnth pcum 0 * (1 + relq))) x (combine us o)
             | Err _ => false
             end
           else true).

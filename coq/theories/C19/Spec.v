(* C19 -- the property as Props (geometry over R, samplers over Q) and boolean checkers for
   the parts that are decided by computation on the implementation's outputs. *)
From Coq Require Import Reals QArith Qabs Sorting.Sorted.
From EsVerif.Common Require Import Base.
From EsVerif.C19 Require Import Model ModelQ.

(* ================================================================ geometry (R) *)
Section Geometry.
Local Open Scope R_scope.

Definition dot (a b : vec3) : R :=
  let '(a1, a2, a3) := a in let '(b1, b2, b3) := b in a1 * b1 + a2 * b2 + a3 * b3.

(* great-circle separation in degrees of two positions given in degrees *)
Definition sep_deg (ra1 dec1 ra2 dec2 : R) : R :=
  r2d (acos (dot (eq2xyz ra1 dec1) (eq2xyz ra2 dec2))).

(* sin^2(sep/2) written without cancellation (haversine); Proofs: hav_is_sin2_half_sep *)
Definition hav (ra1 dec1 ra2 dec2 : R) : R :=
  (sin (d2r (dec2 - dec1) / 2))² + cos (d2r dec1) * cos (d2r dec2) * (sin (d2r (ra2 - ra1) / 2))².

Definition in_box (ra0 ra1 dec0 dec1 : R) (p : R * R) : Prop :=
  ra0 <= fst p <= ra1 /\ dec0 <= snd p <= dec1.

Definition on_sky (p : R * R) : Prop := 0 <= fst p <= 360 /\ -90 <= snd p <= 90.

Definition valid_box (ra0 ra1 dec0 dec1 : R) : Prop :=
  0 <= ra0 <= ra1 /\ ra1 <= 360 /\ -90 <= dec0 <= dec1 /\ dec1 <= 90.

Definition valid_cap (ra dec rad : R) : Prop :=
  0 <= ra <= 360 /\ -90 <= dec <= 90 /\ 0 <= rad <= 180.

Definition unit_dev (u : R) : Prop := 0 <= u <= 1.

(* what the statement says about one point returned by randcap (with its radius) *)
Definition cap_point (ra dec rad : R) (out : R * R * R) : Prop :=
  let '(ra2, dec2, r) := out in
  sep_deg ra dec ra2 dec2 <= rad /\ on_sky (ra2, dec2) /\ r = sep_deg ra dec ra2 dec2.

(* ---- the same requirements on FLOAT outputs, with the rounding slack of the per-case
   certificates.  slack = 1e-9 deg: the outputs are binary64 numbers of magnitude <= 360
   (spacing 5.7e-14 deg) produced by ~25 correctly rounded operations on quantities of order
   1 rad, all well conditioned after the repairs (measured deviation <= 2e-13 deg); 1e-9 deg
   leaves four orders of magnitude for rounding and is still 1000 times smaller than the
   smallest radius (1e-6 deg) the property quantifies over. *)
Definition slack : R := 1 / 10 ^ 9.
(* 1 - cos(1e-9 deg) = 1.52e-22: two unit vectors closer than this are within 1e-9 deg *)
Definition vslack : R := 15 / 10 ^ 23.
(* slack for the sampled variable v = -sin(dec) of randsphere: 4e-15 (36 ulp of 1), the error
   budget of cos (x2), the three roundings of uniform, arccos (1 ulp of pi = 4.4e-16),
   the conversion to degrees (1 ulp of 180 deg = 5e-16 rad) and the subtraction of 90 *)
Definition sinslack : R := 4 / 10 ^ 15.

Definition cap_point_fl (ra dec rad : R) (out : R * R * R) : Prop :=
  let '(ra2, dec2, r) := out in
  sep_deg ra dec ra2 dec2 <= rad + slack /\ Rabs (sep_deg ra dec ra2 dec2 - r) <= slack.

(* model and implementation agree to 1e-9 deg on the sky and in the radius *)
Definition cap_close (model out : R * R * R) : Prop :=
  let '(mra, mdec, mr) := model in let '(ra2, dec2, r) := out in
  1 - dot (eq2xyz mra mdec) (eq2xyz ra2 dec2) <= vslack /\ Rabs (mr - r) <= slack.

(* box membership of a float output: longitude to 1e-9 deg; latitude to 1e-9 deg or, where
   that is the larger allowance (within ~4e-4 deg of a pole), to 8 ulp in the variable
   sin(dec) that the code samples uniformly (the quantisation of cos near +-1 is inherent in
   the anchored mechanism "uniform in sin(dec)") *)
Definition box_point_fl (ra0 ra1 dec0 dec1 : R) (p : R * R) : Prop :=
  ra0 - slack <= fst p <= ra1 + slack
  /\ (dec0 - slack <= snd p \/ sin (d2r dec0) - sinslack <= sin (d2r (snd p)))
  /\ (snd p <= dec1 + slack \/ sin (d2r (snd p)) <= sin (d2r dec1) + sinslack).

Definition sphere_close (model out : R * R) : Prop :=
  Rabs (fst model - fst out) <= slack /\ Rabs (sin (d2r (snd model)) - sin (d2r (snd out))) <= sinslack.

Definition xyz_close (model out : vec3) : Prop :=
  let '(a1, a2, a3) := model in let '(b1, b2, b3) := out in
  Rabs (a1 - b1) <= sinslack /\ Rabs (a2 - b2) <= sinslack /\ Rabs (a3 - b3) <= sinslack.

End Geometry.

(* ================================================================ samplers (Q) *)
Local Open Scope Q_scope.

Definition increasing (l : list Q) : Prop := StronglySorted Qlt l.
Definition positive (l : list Q) : Prop := Forall (fun p => 0 < p) l.

(* the inputs Generator(...).sample accepts: a positive density tabulated on an increasing
   grid of at least three points (two points leave a single cumulative value, nothing to
   interpolate between: IndexError, see gen_sample) *)
Definition gen_ok (pofx x : list Q) : Prop :=
  length pofx = length x /\ (3 <= length x)%nat /\ increasing x /\ positive pofx.

(* the cumulative-method sampler as a function of the deviate *)
Definition sampler (pofx x : list Q) (u : Q) : result Q :=
  let '(xvals, pcum) := gen_tables false pofx x in interplin xvals pcum u.

Definition pcum_of (pofx x : list Q) : list Q := snd (gen_tables false pofx x).

Fixpoint adj_incr_b (l : list Q) : bool :=
  match l with
  | a :: ((b :: _) as t) => Qlt_bool a b && adj_incr_b t
  | _ => true
  end.

Definition gen_ok_b (pofx x : list Q) : bool :=
  (length pofx =? length x)%nat && (3 <=? length x)%nat && adj_incr_b x && forallb (fun p => Qlt_bool 0 p) pofx.

(* ---- checkers evaluated on the implementation's float outputs (exact dyadic rationals) *)

Definition Qmax (a b : Q) : Q := if Qle_bool a b then b else a.
Definition qmaxabs (l : list Q) : Q := fold_right (fun v m => Qmax (Qabs v) m) 0 l.
Definition close_b (tol a b : Q) : bool := Qle_bool (Qabs (a - b)) tol.

(* largest slope of the interpolant (x against pcum) *)
Fixpoint max_slope (v x : list Q) : Q :=
  match v, x with
  | v0 :: ((v1 :: _) as vt), x0 :: ((x1 :: _) as xt) => Qmax (Qabs ((v1 - v0) / (x1 - x0))) (max_slope vt xt)
  | _, _ => 0
  end.

(* condition-aware tolerance of the Q correspondence: 1e-12 relative to the size of the grid
   abscissae plus the steepest slope of the interpolant (an error of k ulp in a cumulative value
   moves the result by slope * k ulp; u and the cumulative values are of order 1).  Qred only
   changes the representation of the fraction (Qred_correct), it keeps the comparisons fast. *)
Definition relq : Q := 1 # 1000000000000.
Definition gen_tol (pofx x : list Q) : Q :=
  let '(xvals, pcum) := gen_tables false pofx x in Qred (relq * (qmaxabs x + max_slope xvals pcum)).

Fixpoint all2 {A B} (f : A -> B -> bool) (l1 : list A) (l2 : list B) : bool :=
  match l1, l2 with
  | [], [] => true
  | a :: t1, b :: t2 => f a b && all2 f t1 t2
  | _, _ => false
  end.

(* every output is the model's value for its deviate, up to tol *)
Definition gen_check (tol : Q) (pofx x us outs : list Q) : bool :=
  all2 (fun u o => match sampler pofx x u with Ok y => close_b tol y o | Err _ => false end) us outs.

Definition gen_out_ok (tol : Q) (pofx x : list Q) (u o : Q) : Prop :=
  exists y, sampler pofx x u = Ok y /\ Qabs (y - o) <= tol.

(* monotone and inside the grid, judged on the outputs alone (slack 2 tol: each output may be
   off by tol).  first_cum = first tabulated cumulative value. *)
Fixpoint pairs_mono_b (tol : Q) (uo : list (Q * Q)) : bool :=
  match uo with
  | [] => true
  | (u, o) :: t =>
      forallb (fun q => let '(u', o') := q in
                 (if Qle_bool u u' then Qle_bool o (o' + tol) else true)
                 && (if Qle_bool u' u then Qle_bool o' (o + tol) else true)) t
      && pairs_mono_b tol t
  end.

Definition mono_pair (tol : Q) (p q : Q * Q) : Prop :=
  (fst p <= fst q -> snd p <= snd q + tol) /\ (fst q <= fst p -> snd q <= snd p + tol).

Definition in_grid_b (tol first_cum : Q) (x : list Q) (uo : list (Q * Q)) : bool :=
  forallb (fun q => let '(u, o) := q in
             if Qle_bool first_cum u && Qle_bool u 1
             then Qle_bool (qnth x 0 - tol) o && Qle_bool o (qlast x + tol) else true) uo.

(* ---- Cholesky sampler *)
Definition square (M : list (list Q)) : Prop := Forall (fun row => length row = length M) M.
Definition means_fit (means : option (list Q)) (M : list (list Q)) : Prop :=
  match means with Some m => length m = length M | None => True end.

Definition chol_entry (means : option (list Q)) (M : list (list Q)) (n : nat) (flat : list Q)
    (j i : nat) : Q :=
  (match means with Some m => nth i m 0 | None => 0 end)
  + qsum (map (fun k => nth k (nth i M []) 0 * nth (k * n + j) flat 0) (seq 0 (length M))).

Definition chol_scale (means : option (list Q)) (M : list (list Q)) (n : nat) (flat : list Q)
    (j i : nat) : Q :=
  Qabs (match means with Some m => nth i m 0 | None => 0 end)
  + qsum (map (fun k => Qabs (nth k (nth i M []) 0 * nth (k * n + j) flat 0)) (seq 0 (length M))).

(* out[j][i] = mean_i + sum_k M_ik r_kj  up to 1e-12 of the sum of the magnitudes of the terms *)
Definition chol_check (means : option (list Q)) (M : list (list Q)) (n : nat) (flat : list Q)
    (out : list (list Q)) : bool :=
  (length out =? n)%nat
  && forallb (fun j =>
       (length (nth j out []) =? length M)%nat
       && forallb (fun i => close_b (relq * chol_scale means M n flat j i)
                                    (chol_entry means M n flat j i) (nth i (nth j out []) 0))
                  (seq 0 (length M)))
     (seq 0 n).

Definition chol_ok (means : option (list Q)) (M : list (list Q)) (n : nat) (flat : list Q)
    (out : list (list Q)) : Prop :=
  length out = n /\
  forall j i, (j < n)%nat -> (i < length M)%nat ->
    length (nth j out []) = length M /\
    Qabs (chol_entry means M n flat j i - nth i (nth j out []) 0)
      <= relq * chol_scale means M n flat j i.

(* contract of the oracle numpy.linalg.cholesky(cov): lower triangular with M M^T = cov
   (to 1e-12 of the larger of the two diagonal elements) *)
Definition lower_tri_b (M : list (list Q)) : bool :=
  forallb (fun i => forallb (fun k => if (i <? k)%nat then Qeq_bool (nth k (nth i M []) 0) 0 else true)
                            (seq 0 (length M))) (seq 0 (length M)).
Definition mmt (M : list (list Q)) (i j : nat) : Q := dotq (nth i M []) (nth j M []).
Definition chol_oracle_b (cov M : list (list Q)) : bool :=
  let n := length M in
  (length cov =? n)%nat && forallb (fun row => (length row =? n)%nat) M && lower_tri_b M
  && forallb (fun i => forallb (fun j =>
        close_b (relq * Qmax (nth i (nth i cov []) 0) (nth j (nth j cov []) 0))
                (mmt M i j) (nth j (nth i cov []) 0)) (seq 0 n)) (seq 0 n).

(* ---- random_indices *)
Local Open Scope Z_scope.

Definition ri_ok (imax nrand : Z) (unique : bool) (out : list Z) : Prop :=
  Z.of_nat (length out) = nrand
  /\ (forall v, In v out -> 0 <= v < imax)
  /\ (unique = true -> NoDup out).

Fixpoint nodup_b (l : list Z) : bool :=
  match l with
  | [] => true
  | a :: t => negb (existsb (Z.eqb a) t) && nodup_b t
  end.

Definition ri_check (imax nrand : Z) (unique : bool) (out : list Z) : bool :=
  (Z.of_nat (length out) =? nrand)
  && forallb (fun v => (0 <=? v) && (v <? imax)) out
  && (negb unique || nodup_b out).

(* ---- discrete requirements on sky outputs: count, ranges (exact dyadics), reproducibility *)
Definition qpair_eqb (p q : Q * Q) : bool :=
  Qeq_bool (fst p) (fst q) && Qeq_bool (snd p) (snd q).

Definition sky_ok (n : Z) (pts : list (Q * Q)) : Prop :=
  Z.of_nat (length pts) = n
  /\ forall p, In p pts -> (0 <= fst p <= 360)%Q /\ (-(90) <= snd p <= 90)%Q.

Definition sky_check (n : Z) (pts : list (Q * Q)) : bool :=
  (Z.of_nat (length pts) =? n)
  && forallb (fun p => Qle_bool 0 (fst p) && Qle_bool (fst p) 360
                       && Qle_bool (-(90)) (snd p) && Qle_bool (snd p) 90) pts.

Definition same_points (a b : list (Q * Q)) : bool := list_eqb qpair_eqb a b.

(* C19 -- model, continued (no proofs): numpy.linalg.cholesky over the reals (LAPACK potrf, lower
   factor, computed column by column -- Cholesky-Crout):

       L[j][j] = sqrt(A[j][j] - sum_{k<j} L[j][k]^2)
       L[i][j] = (A[i][j] - sum_{k<j} L[i][k] L[j][k]) / L[j][j]       (i > j),      L[i][j] = 0  (i < j)

   Matrices are functions nat -> nat -> R (entries outside the n x n block are irrelevant).  numpy
   raises LinAlgError when a pivot A[j][j] - sum ... is not positive; `pivots_pos` is the
   condition under which it returns. *)
From Coq Require Import Reals.
Open Scope R_scope.

Definition mat := nat -> nat -> R.

Fixpoint bigsum (f : nat -> R) (n : nat) : R :=
  match n with O => 0 | S k => bigsum f k + f k end.

(* the pivot of column j, given a matrix L whose columns < j are already final *)
Definition chol_pivot (A L : mat) (j : nat) : R := A j j - bigsum (fun k => L j k * L j k) j.

(* fill column j *)
Definition chol_step (A L : mat) (j : nat) : mat :=
  fun i c =>
    if (c =? j)%nat then
      if (i <? j)%nat then 0
      else if (i =? j)%nat then sqrt (chol_pivot A L j)
      else (A i j - bigsum (fun k => L i k * L j k) j) / sqrt (chol_pivot A L j)
    else L i c.

(* columns 0 .. j-1 filled, the others zero *)
Fixpoint chol_cols (A : mat) (j : nat) : mat :=
  match j with
  | O => fun _ _ => 0
  | S j' => chol_step A (chol_cols A j') j'
  end.

Definition cholR (A : mat) (n : nat) : mat := chol_cols A n.

Definition pivots_pos (A : mat) (n : nat) : Prop :=
  forall j, (j < n)%nat -> 0 < chol_pivot A (chol_cols A j) j.

Definition symmetric (A : mat) (n : nat) : Prop := forall i j, (i < n)%nat -> (j < n)%nat -> A i j = A j i.

(* (L L^T)[i][j] on the n x n block *)
Definition mmtR (L : mat) (n i j : nat) : R := bigsum (fun k => L i k * L j k) n.

(* the contract the harness monitors on numpy's answer (Spec.chol_oracle_b), over the reals *)
Definition is_cholesky_factor (A L : mat) (n : nat) : Prop :=
  (forall i k, (i < k)%nat -> (k < n)%nat -> L i k = 0)
  /\ (forall j, (j < n)%nat -> 0 < L j j)
  /\ (forall i j, (i < n)%nat -> (j < n)%nat -> mmtR L n i j = A i j).

(* C19 -- property theorems only.  Bodies live in ProofsGeo.v (style R) and ProofsSampler.v
   (style Q / discrete). *)
From Coq Require Import Reals Lra QArith Qabs Sorting.Sorted.
From EsVerif.Common Require Import Base.
From EsVerif.C19 Require Import Model ModelLoops ModelQ Spec ProofsGeo ProofsGeo2 ProofsSampler ProofsSampler2 Exec ExecSound.

(* ================================================================ sky positions (over R) *)

(* Points drawn in a longitude/latitude box fall inside the box. *)
Theorem C19_box_in_range : forall ra0 ra1 dec0 dec1 u1 u2,
  valid_box ra0 ra1 dec0 dec1 -> unit_dev u1 -> unit_dev u2 ->
  in_box ra0 ra1 dec0 dec1 (randsphere_R ra0 ra1 dec0 dec1 u1 u2).
Proof. exact randsphere_in_box. Qed.

(* The dec map is monotone (decreasing) in its deviate, the ra map increasing in its own. *)
Theorem C19_box_maps_monotone : forall ra0 ra1 dec0 dec1 u1 u1' u2 u2',
  valid_box ra0 ra1 dec0 dec1 -> unit_dev u2 -> unit_dev u2' -> (u1 <= u1')%R -> (u2 <= u2')%R ->
  (snd (randsphere_R ra0 ra1 dec0 dec1 u1' u2') <= snd (randsphere_R ra0 ra1 dec0 dec1 u1 u2))%R
  /\ (fst (randsphere_R ra0 ra1 dec0 dec1 u1 u2) <= fst (randsphere_R ra0 ra1 dec0 dec1 u1' u2'))%R.
Proof.
  intros. split; [apply randsphere_dec_monotone; assumption | apply randsphere_ra_monotone; assumption].
Qed.

(* "uniform-in-sin(dec)": the longitude is affine in u1, the sine of the latitude affine in u2
   (from sin(dec1) at u2 = 0 to sin(dec0) at u2 = 1) *)
Theorem C19_box_uniform_in_sin_dec : forall ra0 ra1 dec0 dec1 u1 u2,
  valid_box ra0 ra1 dec0 dec1 -> unit_dev u2 ->
  let p := randsphere_R ra0 ra1 dec0 dec1 u1 u2 in
  (fst p = ra0 + (ra1 - ra0) * u1
   /\ sin (d2r (snd p)) = sin (d2r dec1) + (sin (d2r dec0) - sin (d2r dec1)) * u2)%R.
Proof. exact randsphere_uniform_in_sin. Qed.

(* Unrotated formula: the point lies at exactly sqrt(u) * rad from the centre (spherical law of
   cosines), and that is the radius returned. *)
Theorem C19_cap_distance : forall ra dec rad u upsi,
  unit_dev u -> (0 <= rad <= 180)%R ->
  let '(ra2, dec2, r) := randcap_unrot ra dec rad u upsi in
  sep_deg ra dec ra2 dec2 = (sqrt u * rad)%R /\ r = (sqrt u * rad)%R.
Proof. exact cap_distance_unrot. Qed.

(* rotate() is an isometry of the sphere ... *)
Theorem C19_rotate_isometry : forall phi theta psi ra1 dec1 ra2 dec2,
  let p := rotate_R phi theta psi ra1 dec1 in
  let q := rotate_R phi theta psi ra2 dec2 in
  sep_deg (fst p) (snd p) (fst q) (snd q) = sep_deg ra1 dec1 ra2 dec2.
Proof. exact rotate_isometry. Qed.

(* ... so the distance law transfers to the rotated (polar / dorot) branch. *)
Theorem C19_cap_rot_preserves : forall ra dec rad u upsi,
  unit_dev u -> (0 <= rad <= 180)%R ->
  let '(ra2, dec2, r) := randcap_rot ra dec rad u upsi in
  sep_deg ra dec ra2 dec2 = (sqrt u * rad)%R /\ r = (sqrt u * rad)%R.
Proof. exact cap_distance_rot. Qed.

(* atbound's two `while` loops (ModelLoops, on fuel) terminate within two iterations on every
   longitude randcap hands them (phi - Dphi with phi = deg2rad(ra), Dphi = arctan2(..) in (-pi, pi])
   and return what the unrolled Model.atbound returns, so the theorems below are about the loops *)
Theorem C19_atbound_loops_terminate : forall fuel ra y x, (2 <= fuel)%nat -> (0 <= ra <= 360)%R ->
  atbound_loops fuel (r2d (d2r ra - atan2 y x)) = Some (atbound (r2d (d2r ra - atan2 y x))).
Proof. exact atbound_loops_terminate. Qed.

(* Both branches, every centre (poles and seam included), every radius up to 180 deg: the
   point is within rad of the centre, has longitude in [0,360] and latitude in [-90,90], and
   the returned radius is the actual separation in degrees. *)
Theorem C19_cap_within_and_radius_returned_is_separation_deg : forall dorot ra dec rad u upsi,
  valid_cap ra dec rad -> unit_dev u ->
  cap_point ra dec rad (randcap_R dorot ra dec rad u upsi).
Proof. intros. apply randcap_spec; assumption. Qed.

(* The same statement is FALSE of the rotated branch as it was before the repair (radii
   converted to degrees twice): kept as the record of the defect. *)
Theorem C19_radius_returned_unrepaired_refuted :
  exists ra dec rad u upsi,
    valid_cap ra dec rad /\ unit_dev u /\
    let '(ra2, dec2, r) := randcap_rot_unrepaired ra dec rad u upsi in r <> sep_deg ra dec ra2 dec2.
Proof. exact radius_unrepaired_refuted. Qed.

(* Soundness of the per-case certificates: a bound on the haversine (which `interval` can
   enclose) is a bound on the separation. *)
Theorem C19_haversine_certificates_sound : forall ra1 dec1 ra2 dec2 R,
  (0 <= R <= 180)%R ->
  (hav ra1 dec1 ra2 dec2 <= (sin (d2r R / 2))² -> sep_deg ra1 dec1 ra2 dec2 <= R)%R
  /\ ((sin (d2r R / 2))² <= hav ra1 dec1 ra2 dec2 -> R <= sep_deg ra1 dec1 ra2 dec2)%R.
Proof. intros. split; [apply sep_le_by_hav | apply sep_ge_by_hav]; assumption. Qed.

(* ================================================================ cumulative-method sampler (over Q) *)

Theorem C19_sampler_total : forall pofx x u, gen_ok pofx x -> exists y, sampler pofx x u = Ok y.
Proof. intros. apply sampler_total. assumption. Qed.

(* u equal to a tabulated cumulative value returns the grid point exactly *)
Theorem C19_sampler_hits_nodes : forall pofx x k, gen_ok pofx x -> (k < length x - 1)%nat ->
  exists y, sampler pofx x (nth k (pcum_of pofx x) 0%Q) = Ok y /\ (y == nth (S k) x 0)%Q.
Proof. exact sampler_hits_nodes. Qed.

Theorem C19_sampler_monotone : forall pofx x u u' y y', gen_ok pofx x -> (u <= u')%Q ->
  sampler pofx x u = Ok y -> sampler pofx x u' = Ok y' -> (y <= y')%Q.
Proof. exact sampler_monotone. Qed.

Theorem C19_sampler_in_grid : forall pofx x u y, gen_ok pofx x ->
  (nth 0 (pcum_of pofx x) 0 <= u <= 1)%Q -> sampler pofx x u = Ok y ->
  (nth 1 x 0 <= y <= qlast x)%Q.
Proof. exact sampler_in_grid. Qed.

(* the stored table is the normalised trapezoid-rule cumulative distribution:
   pcum_k = (sum of the first k+1 trapezoids) / (sum of all of them) *)
Theorem C19_pcum_is_normalised_trapezoid : forall pofx x k, gen_ok pofx x -> (k < length x - 1)%nat ->
  (nth k (pcum_of pofx x) 0 == trap_area pofx x k / trap_area pofx x (length x - 2))%Q.
Proof. exact pcum_is_normalised_trapezoid. Qed.

(* a deviate between two tabulated cumulative values is mapped to the linear interpolation of the
   grid abscissae x_(k+1), x_(k+2) against those values *)
Theorem C19_sampler_is_linear_interpolation : forall pofx x u k, gen_ok pofx x ->
  (S k < length (pcum_of pofx x))%nat ->
  (nth k (pcum_of pofx x) 0 < u <= nth (S k) (pcum_of pofx x) 0)%Q ->
  exists y, sampler pofx x u = Ok y
            /\ (y == lin (nth k (pcum_of pofx x) 0) (nth (S k) (pcum_of pofx x) 0) (nth (S k) x 0) (nth (S (S k)) x 0) u)%Q.
Proof. exact sampler_interpolates. Qed.

(* the requested number of values is returned, each one the sampler's value for its deviate
   (gen_sample is the whole-call model the per-case correspondence evaluates) *)
Theorem C19_count_returned : forall pofx x us, gen_ok pofx x ->
  exists ys, gen_sample false pofx x us = Ok ys /\ length ys = length us
             /\ Forall2 (fun u y => sampler pofx x u = Ok y) us ys.
Proof. exact gen_sample_count. Qed.

(* ================================================================ Cholesky sampler *)

(* sample j, component i  =  mean_i + sum_k M_ik * r_(k*n+j)  for the deviates r it drew *)
Theorem C19_cholesky_is_affine : forall means M n flat j i,
  square M -> means_fit means M -> (j < n)%nat -> (i < length M)%nat ->
  length (chol_sample means M n flat) = n
  /\ length (nth j (chol_sample means M n flat) []) = length M
  /\ (nth i (nth j (chol_sample means M n flat) []) 0 == chol_entry means M n flat j i)%Q.
Proof. exact cholesky_is_affine. Qed.

(* ================================================================ index selection *)

(* what the checker accepts is the property (count, range, uniqueness), and a unique
   selection larger than the range cannot exist (so its rejection is forced) *)
Theorem C19_random_indices : forall imax nrand unique out,
  (ri_check imax nrand unique out = true -> ri_ok imax nrand unique out)
  /\ (ri_ok imax nrand true out -> (nrand <= Z.max 0 imax)%Z).
Proof. intros. split; [apply ri_check_sound | apply ri_unique_bound]. Qed.

(* ================================================================ checker soundness *)
Theorem C19_checkers_sound :
  (forall tol pofx x us outs, gen_check tol pofx x us outs = true -> Forall2 (gen_out_ok tol pofx x) us outs)
  /\ (forall pofx x, gen_ok_b pofx x = true -> gen_ok pofx x)
  /\ (forall tol uo, pairs_mono_b tol uo = true -> ForallOrdPairs (mono_pair tol) uo)
  /\ (forall tol c x uo, in_grid_b tol c x uo = true ->
        forall u o, In (u, o) uo -> (c <= u <= 1)%Q -> (qnth x 0 - tol <= o <= qlast x + tol)%Q)
  /\ (forall means M n flat out, chol_check means M n flat out = true -> chol_ok means M n flat out)
  /\ (forall n pts, sky_check n pts = true -> sky_ok n pts).
Proof.
  split; [exact gen_check_sound|]. split; [exact gen_ok_b_sound|]. split; [exact pairs_mono_b_sound|].
  split; [exact in_grid_b_sound|]. split; [exact chol_check_sound|exact sky_check_sound].
Qed.

(* the verdict the generated case files evaluate (cumulative table built once) is the verdict
   assembled from the checkers above *)
Theorem C19_fast_verdict_is_spec_verdict : forall pofx x us out,
  v_gen_fast pofx x us out = v_gen pofx x us out.
Proof. exact v_gen_fast_eq. Qed.

(* the checker with the per-deviate tolerance (extrapolated deviates below the first cumulative value
   get the conditioning factor ucond) accepts only outputs within that tolerance of the sampler *)
Theorem C19_per_deviate_checker_sound : forall tol pofx x us outs,
  gen_check_tu tol (fst (gen_tables false pofx x)) (snd (gen_tables false pofx x)) us outs = true ->
  Forall2 (fun u o => exists y, sampler pofx x u = Ok y
                                /\ (Qabs (y - o) <= tol * ucond (pcum_of pofx x) u)%Q) us outs.
Proof. exact gen_check_tu_sound. Qed.

(* ================================================================ non-vacuity *)
Example C19_nonvacuous :
  valid_box 10 35 (-25) 15 /\ valid_cap 359 90 180 /\ unit_dev (1 / 2)
  /\ gen_ok [1; 2; 1]%Q [0; 1; 3]%Q
  /\ (exists y, sampler [1; 2; 1]%Q [0; 1; 3]%Q (1 # 3) = Ok y /\ (y == 1)%Q)
  /\ (exists y, sampler [1; 2; 1]%Q [0; 1; 3]%Q (2 # 3) = Ok y /\ (y == 2)%Q)
  /\ square [[2; 0]; [1; 3]]%Q
  /\ chol_sample (Some [10; 20]%Q) [[2; 0]; [1; 3]]%Q 2 [1; 2; 3; 4]%Q = [[12; 30]; [14; 34]]%Q
  /\ ri_check 5 3 true [4; 0; 2]%Z = true /\ ri_check 5 3 true [4; 0; 4]%Z = false.
Proof.
  assert (G : gen_ok [1; 2; 1]%Q [0; 1; 3]%Q) by (apply gen_ok_b_sound; reflexivity).
  split; [unfold valid_box; lra|]. split; [unfold valid_cap; lra|]. split; [unfold unit_dev; lra|].
  split; [exact G|].
  split; [eexists; split; [vm_compute; reflexivity|reflexivity]|].
  split; [eexists; split; [vm_compute; reflexivity|reflexivity]|].
  split; [repeat constructor|]. split; [vm_compute; reflexivity|]. split; reflexivity.
Qed.

(* the premises of the interpolation theorem are satisfiable, and the table of the small example
   is the normalised trapezoid sums 3/2 and 3/2 + 3 over 9/2 *)
Example C19_nonvacuous_interpolation :
  (S 0 < length (pcum_of [1; 2; 1]%Q [0; 1; 3]%Q))%nat
  /\ (nth 0 (pcum_of [1; 2; 1]%Q [0; 1; 3]%Q) 0 < 1 # 2 <= nth 1 (pcum_of [1; 2; 1]%Q [0; 1; 3]%Q) 0)%Q
  /\ (trap_area [1; 2; 1]%Q [0; 1; 3]%Q 0 == 3 # 2)%Q /\ (trap_area [1; 2; 1]%Q [0; 1; 3]%Q 1 == 9 # 2)%Q.
Proof. vm_compute. repeat split; try lia; try discriminate; try reflexivity. Qed.

(* ################################################################ proof-deepening round
   (bodies in ProofsChol, ProofsDeep, ProofsStream, ProofsGeo2) *)
From Coq Require Import Lia List.
From EsVerif.C19 Require Import ModelChol ModelSPD ModelStream ProofsChol ProofsSPD ProofsDeep ProofsStream.
Import ListNotations.

(* ================================================================ numpy.linalg.cholesky in the model *)

(* Whenever every pivot is positive (i.e. whenever numpy returns instead of raising LinAlgError) the
   column-by-column factor of the model is lower triangular, has a positive diagonal and
   L L^T = A on the n x n block, for every n: the contract that the harness monitors on numpy's
   answer is a theorem of the model. *)
Theorem C19_cholesky_factor_of_model_correct : forall (A : mat) (n : nat),
  symmetric A n -> pivots_pos A n -> is_cholesky_factor A (cholR A n) n.
Proof. exact cholR_correct. Qed.

(* ... and that contract has no other solution: a matrix that passes it exactly IS the model's factor. *)
Theorem C19_cholesky_factor_unique : forall (A : mat) (n : nat) (L : mat),
  pivots_pos A n -> is_cholesky_factor A L n ->
  forall i c, (i < n)%nat -> (c < n)%nat -> L i c = cholR A n i c.
Proof. exact cholesky_factor_unique. Qed.

(* The statement quantifies over symmetric POSITIVE-DEFINITE covariances: those are exactly the
   matrices on which the model's factorisation goes through (all pivots positive; numpy raises
   LinAlgError otherwise), so every covariance of the statement has its factor. *)
Theorem C19_posdef_iff_cholesky_succeeds : forall (A : mat) (n : nat),
  symmetric A n -> (posdef A n <-> pivots_pos A n).
Proof. exact posdef_iff_pivots_pos. Qed.

Theorem C19_every_spd_covariance_has_its_factor : forall (A : mat) (n : nat),
  symmetric A n -> posdef A n -> is_cholesky_factor A (cholR A n) n.
Proof. exact spd_has_cholesky_factor. Qed.

(* the boolean monitor evaluated on numpy's answer is sound for the (toleranced) contract *)
Theorem C19_cholesky_oracle_monitor_sound : forall cov M, chol_oracle_b cov M = true -> chol_oracle_ok cov M.
Proof. exact chol_oracle_b_sound. Qed.

(* ================================================================ index selection *)

(* the checker decides the property (soundness was C19_random_indices; this adds completeness) *)
Theorem C19_random_indices_checker_decides : forall imax nrand unique out,
  ri_check imax nrand unique out = true <-> ri_ok imax nrand unique out.
Proof. exact ri_check_iff. Qed.

(* for a non-negative population the rejected requests are exactly the unsatisfiable ones *)
Theorem C19_random_indices_rejects_exactly_unsatisfiable : forall imax nrand unique, (0 <= imax)%Z ->
  (ri_accepts imax nrand unique = true <-> exists out, ri_ok imax nrand unique out).
Proof. exact ri_accepts_iff_satisfiable. Qed.

(* the two remaining boolean checkers decide their properties as well (soundness: C19_checkers_sound) *)
Theorem C19_sky_checker_decides : forall n pts, sky_check n pts = true <-> sky_ok n pts.
Proof. exact sky_check_iff. Qed.

Theorem C19_cholesky_checker_decides : forall means M n flat out, (0 < length M)%nat ->
  (chol_check means M n flat out = true <-> chol_ok means M n flat out).
Proof. exact chol_check_iff. Qed.

(* ================================================================ cumulative-method sampler: error paths *)

(* which tables are rejected, with which error class (ValueError: shapes differ or empty grid;
   IndexError: one grid point, or two grid points and at least one deviate); two points and no
   deviate return the empty sample; three or more points of a valid table: C19_count_returned *)
Theorem C19_sampler_rejections : forall pofx x us,
  (length pofx <> length x -> gen_sample false pofx x us = Err EValue)
  /\ (length pofx = length x -> length x = 0%nat -> gen_sample false pofx x us = Err EValue)
  /\ (length pofx = length x -> length x = 1%nat -> gen_sample false pofx x us = Err EIndex)
  /\ (length pofx = length x -> length x = 2%nat -> us <> [] -> gen_sample false pofx x us = Err EIndex)
  /\ (length pofx = length x -> length x = 2%nat -> gen_sample false pofx x [] = Ok []).
Proof. exact gen_sample_rejections. Qed.

(* below the first tabulated cumulative value the sampler extrapolates the first segment of the
   table: the value is at most x_1 ... *)
Theorem C19_sampler_below_first_value_extrapolates : forall pofx x u, gen_ok pofx x ->
  (u <= nth 0 (pcum_of pofx x) 0)%Q ->
  exists y, sampler pofx x u = Ok y
            /\ (y == lin (nth 0 (pcum_of pofx x) 0) (nth 1 (pcum_of pofx x) 0) (nth 1 x 0) (nth 2 x 0) u)%Q
            /\ (y <= nth 1 x 0)%Q.
Proof. exact sampler_below_first. Qed.

(* ... and NOT bounded below by the first grid point: the restriction in C19_sampler_in_grid (and in
   the statement) cannot be dropped.  Witness: density 10, 10, 1 on 0, 1, 2 sends u = 0 to -9/11
   (the real Generator returns -0.8181...; 29% of its samples lie below 0). *)
Theorem C19_sampler_in_grid_without_restriction_refuted :
  exists pofx x u y, gen_ok pofx x /\ (0 <= u <= 1)%Q /\ sampler pofx x u = Ok y /\ (y < nth 0 x 0)%Q.
Proof. exact sampler_in_grid_without_restriction_refuted. Qed.

(* the repetition checker (bit-identical second run) is sound *)
Theorem C19_repetition_checker_sound : forall a b, same_points a b = true ->
  Forall2 (fun p q => (fst p == fst q /\ snd p == snd q)%Q) a b.
Proof. exact same_points_sound. Qed.

(* ================================================================ both branches of randcap *)

(* forcing the rotation (dorot=True, or a centre within 0.1 deg of a pole) changes how the point is
   computed, not which point it is: same direction on the sphere, same radius, for the same deviates *)
Theorem C19_dorot_does_not_move_the_point : forall ra dec rad u upsi,
  let '(ra1, dec1, r1) := randcap_unrot ra dec rad u upsi in
  let '(ra2, dec2, r2) := randcap_rot ra dec rad u upsi in
  eq2xyz ra1 dec1 = eq2xyz ra2 dec2 /\ r1 = r2.
Proof. exact randcap_branches_agree. Qed.

(* rotate() and atbound() keep their outputs in range for every input (used by both theorems above) *)
Theorem C19_rotate_output_on_sky : forall phi theta psi ra dec, on_sky (rotate_R phi theta psi ra dec).
Proof. exact on_sky_rotate. Qed.

Theorem C19_atbound_range : forall lon, (-360 <= lon <= 720)%R -> (0 <= atbound lon <= 360)%R.
Proof. exact atbound_once. Qed.

(* ================================================================ randsphere(system='xyz') *)

Theorem C19_box_xyz_unit_vector_in_box : forall ra0 ra1 dec0 dec1 u1 u2,
  valid_box ra0 ra1 dec0 dec1 -> unit_dev u1 -> unit_dev u2 ->
  let '(x, y, z) := randsphere_xyz_R ra0 ra1 dec0 dec1 u1 u2 in
  (x * x + y * y + z * z = 1 /\ sin (d2r dec0) <= z <= sin (d2r dec1))%R.
Proof. exact randsphere_xyz_in_box. Qed.

(* ================================================================ reproducibility: deviate streams *)

(* randcap(n, ...) takes exactly 2n deviates from its generator -- n for the radii, then n for the
   position angles, in BOTH branches (the rotated branch hands the same generator on) -- returns a
   function of its arguments and of those 2n deviates alone, and leaves the rest untouched *)
Theorem C19_randcap_consumes_two_blocks : forall dorot n ra dec rad,
  exact_consumer (randcap_call dorot n ra dec rad) (n + n) (two_blocks (randcap_R dorot ra dec rad) n).
Proof. exact randcap_call_consumer. Qed.

Theorem C19_randsphere_consumes_two_blocks : forall n ra0 ra1 dec0 dec1,
  exact_consumer (randsphere_call n ra0 ra1 dec0 dec1) (n + n) (two_blocks (randsphere_R ra0 ra1 dec0 dec1) n).
Proof. exact randsphere_call_consumer. Qed.

(* the requested number of points comes back, and point i is the per-point model of the earlier
   theorems on deviate i of the first block and deviate i of the second *)
Theorem C19_two_blocks_pointwise : forall (O : Type) (f : R -> R -> O) n (p : list R) i d,
  length p = (n + n)%nat -> (i < n)%nat ->
  length (two_blocks f n p) = n /\ nth i (two_blocks f n p) d = f (nth i p 0%R) (nth (n + i) p 0%R).
Proof. intros O f n p i d. exact (two_blocks_nth f n p i 0%R d). Qed.

Theorem C19_sampler_consumes_n : forall pofx x n,
  exact_consumer (sampler_call pofx x n) n (gen_sample false pofx x).
Proof. exact sampler_call_consumer. Qed.

Theorem C19_cholesky_consumes_npar_n : forall means M n,
  exact_consumer (cholesky_call means M n) (length M * n) (chol_sample means M n).
Proof. exact cholesky_call_consumer. Qed.

(* HISTORY: two calls on one generator -- the second result is what the second call alone returns on
   its own deviates; no argument or result of the first call enters it (the model has no other state) *)
Theorem C19_calls_compose_without_state : forall (A O1 O2 : Type)
    (f1 : list A -> option (O1 * list A)) (f2 : list A -> option (O2 * list A)) k1 k2 g1 g2,
  exact_consumer f1 k1 g1 -> exact_consumer f2 k2 g2 ->
  exact_consumer (then_call f1 f2) (k1 + k2) (fun p => (g1 (firstn k1 p), g2 (skipn k1 p))).
Proof. exact @then_call_consumer. Qed.

(* equal generators, equal arguments: equal results, generators left in corresponding positions *)
Theorem C19_reproducible_for_equal_generators : forall (A O : Type) (f : list A -> option (O * list A)) k g p t t',
  exact_consumer f k g -> length p = k ->
  exists o, f (p ++ t) = Some (o, t) /\ f (p ++ t') = Some (o, t').
Proof. exact @consumer_reproducible. Qed.

(* ================================================================ non-vacuity *)
Definition ex_cov : mat := fun i j =>
  match i, j with
  | O, O => 4 | O, S O => 2 | S O, O => 2 | S O, S O => 5 | _, _ => 0
  end%R.

Example C19_nonvacuous_cholesky :
  symmetric ex_cov 2%nat /\ pivots_pos ex_cov 2%nat
  /\ cholR ex_cov 2%nat 0%nat 0%nat = 2%R /\ cholR ex_cov 2%nat 1%nat 0%nat = 1%R /\ cholR ex_cov 2%nat 1%nat 1%nat = 2%R.
Proof.
  assert (S4 : sqrt (4 - 0) = 2%R) by (replace (4 - 0)%R with (2 * 2)%R by ring; apply sqrt_square; lra).
  assert (P1 : chol_pivot ex_cov (chol_cols ex_cov 1%nat) 1%nat = 4%R).
  { unfold chol_pivot. cbn [bigsum chol_cols]. unfold chol_step. cbn [Nat.eqb Nat.ltb Nat.leb]. unfold chol_pivot.
    cbn [bigsum ex_cov]. rewrite S4. field. }
  split; [|split; [|split; [|split]]].
  - intros i j Hi Hj. destruct i as [|[|i]]; destruct j as [|[|j]]; try lia; reflexivity.
  - intros j Hj. destruct j as [|[|j]]; try lia.
    + unfold chol_pivot. cbn [bigsum ex_cov]. lra.
    + rewrite P1. lra.
  - unfold cholR. cbn [chol_cols]. unfold chol_step at 1. cbn [Nat.eqb]. unfold chol_step. cbn [Nat.eqb Nat.ltb Nat.leb].
    unfold chol_pivot. cbn [bigsum ex_cov]. exact S4.
  - unfold cholR. cbn [chol_cols]. unfold chol_step at 1. cbn [Nat.eqb]. unfold chol_step. cbn [Nat.eqb Nat.ltb Nat.leb].
    unfold chol_pivot. cbn [bigsum ex_cov]. rewrite S4. field.
  - unfold cholR. change (chol_cols ex_cov 2%nat) with (chol_step ex_cov (chol_cols ex_cov 1%nat) 1%nat).
    unfold chol_step at 1. cbn [Nat.eqb Nat.ltb Nat.leb]. rewrite P1.
    replace 4%R with (2 * 2)%R by ring. apply sqrt_square. lra.
Qed.

Example C19_nonvacuous_posdef : posdef ex_cov 2.
Proof.
  destruct C19_nonvacuous_cholesky as [S [P _]]. apply (proj2 (posdef_iff_pivots_pos ex_cov 2 S)). exact P.
Qed.

Example C19_nonvacuous_deep :
  (exists out, ri_ok 5 3 true out) /\ ri_accepts 5 6 true = false /\ ri_accepts 5 6 false = true
  /\ (exists o, randsphere_call 1 0 360 (-90) 90 [1 / 2; 1 / 2; 7]%R = Some (o, [7%R]))
  /\ (exists o, sampler_call [1; 2; 1]%Q [0; 1; 3]%Q 2 [1 # 3; 2 # 3; 9 # 10]%Q = Some (o, [9 # 10]%Q))
  /\ gen_sample false [1; 2]%Q [0; 1]%Q [1 # 2]%Q = Err EIndex.
Proof.
  split; [exists [0; 1; 2]%Z; apply ri_check_sound; reflexivity|].
  split; [reflexivity|]. split; [reflexivity|].
  split; [eexists; reflexivity|]. split; [eexists; reflexivity|]. reflexivity.
Qed.

(* C19 -- model, continued (no proofs): the entry points as CONSUMERS OF THE DEVIATE STREAM of the
   generator they are handed.  A generator is the list of deviates it will hand out, in order; a
   call takes what it needs from the front and leaves the rest for the next call.  Nothing else is
   carried from one call to the next: the functions below have no other state argument.

     rng.random(n) / rng.uniform(low, high, size=n) / dist(k)      draw n
     randcap(n, ra, dec, rad, get_radius=True, dorot, rng)          random(n) then uniform(0, 2 pi, n);
                                                                    the rotated branch hands the SAME rng to its
                                                                    recursive call, so it draws the same two blocks
     randsphere(n, ra_range, dec_range, rng)                        uniform(ra0, ra1, n) then uniform(cmin, cmax, n)
     Generator(pofx, x, rng).sample(n)                              uniform(size=n)
     cholesky_sample(cov, n, means, dist) / CholeskySampler.sample  dist(npar * n), one call *)
From Coq Require Import Reals QArith List.
From EsVerif.Common Require Import Base.
From EsVerif.C19 Require Import Model ModelQ.
Import ListNotations.

Definition draw {A} (n : nat) (s : list A) : option (list A * list A) :=
  if (length s <? n)%nat then None else Some (firstn n s, skipn n s).

Definition randcap_call (dorot : bool) (n : nat) (ra dec rad : R) (s : list R)
  : option (list (R * R * R) * list R) :=
  match draw n s with
  | None => None
  | Some (us, s1) =>
      match draw n s1 with
      | None => None
      | Some (ups, s2) => Some (map2 (fun u up => randcap_R dorot ra dec rad u up) us ups, s2)
      end
  end.

Definition randsphere_call (n : nat) (ra0 ra1 dec0 dec1 : R) (s : list R)
  : option (list (R * R) * list R) :=
  match draw n s with
  | None => None
  | Some (u1s, s1) =>
      match draw n s1 with
      | None => None
      | Some (u2s, s2) => Some (map2 (fun u1 u2 => randsphere_R ra0 ra1 dec0 dec1 u1 u2) u1s u2s, s2)
      end
  end.

Definition sampler_call (pofx x : list Q) (n : nat) (s : list Q) : option (result (list Q) * list Q) :=
  match draw n s with
  | None => None
  | Some (us, s1) => Some (gen_sample false pofx x us, s1)
  end.

Definition cholesky_call (means : option (list Q)) (M : list (list Q)) (n : nat) (s : list Q)
  : option (list (list Q) * list Q) :=
  match draw (length M * n) s with
  | None => None
  | Some (flat, s1) => Some (chol_sample means M n flat, s1)
  end.

(* a call that takes exactly k deviates from the front, whose result is a function of those k
   deviates alone, and that hands the untouched rest on *)
Definition exact_consumer {A O} (f : list A -> option (O * list A)) (k : nat) (g : list A -> O) : Prop :=
  forall p t, length p = k -> f (p ++ t) = Some (g p, t).

(* two calls one after the other on the same generator *)
Definition then_call {A O1 O2} (f1 : list A -> option (O1 * list A)) (f2 : list A -> option (O2 * list A))
  (s : list A) : option ((O1 * O2) * list A) :=
  match f1 s with
  | None => None
  | Some (o1, s1) => match f2 s1 with None => None | Some (o2, s2) => Some ((o1, o2), s2) end
  end.

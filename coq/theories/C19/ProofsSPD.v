(* C19 -- a symmetric positive-definite matrix has positive Cholesky pivots (so numpy.linalg.cholesky
   returns on exactly the covariances the statement quantifies over, and the factor theorems apply). *)
From Coq Require Import Reals Lra Lia.
From EsVerif.C19 Require Import ModelChol ModelSPD ProofsChol.
Open Scope R_scope.

(* ---------------------------------------------------------------- finite sums, continued *)
Lemma bigsum_plus f g n : bigsum (fun k => f k + g k) n = bigsum f n + bigsum g n.
Proof. induction n as [|n IH]; cbn [bigsum]; [ring|rewrite IH; ring]. Qed.

Lemma bigsum_scal c f n : bigsum (fun k => c * f k) n = c * bigsum f n.
Proof. induction n as [|n IH]; cbn [bigsum]; [ring|rewrite IH; ring]. Qed.

Lemma bigsum_0 n : bigsum (fun _ => 0) n = 0.
Proof. induction n as [|n IH]; cbn [bigsum]; [reflexivity|rewrite IH; ring]. Qed.

Lemma bigsum_swap (f : nat -> nat -> R) n m :
  bigsum (fun i => bigsum (fun j => f i j) m) n = bigsum (fun j => bigsum (fun i => f i j) n) m.
Proof.
  induction n as [|n IH]; cbn [bigsum].
  - symmetry. apply bigsum_0.
  - rewrite IH. rewrite <- bigsum_plus. reflexivity.
Qed.

(* (sum_i a_i) (sum_j b_j) = sum_i sum_j a_i b_j *)
Lemma bigsum_mul a b n m : bigsum a n * bigsum b m = bigsum (fun i => bigsum (fun j => a i * b j) m) n.
Proof.
  induction n as [|n IH]; cbn [bigsum]; [ring|]. rewrite <- IH. rewrite bigsum_scal. ring.
Qed.

(* a function changed at one index *)
Lemma bigsum_update f w k c n : (k < n)%nat ->
  bigsum (fun a => f a * (if (a =? k)%nat then c else w a)) n = bigsum (fun a => f a * w a) n + f k * (c - w k).
Proof.
  intro H. induction n as [|n IH]; [lia|]. cbn [bigsum].
  destruct (Nat.eq_dec k n) as [E|N].
  - subst k. rewrite Nat.eqb_refl.
    rewrite (bigsum_ext (fun a => f a * (if (a =? n)%nat then c else w a)) (fun a => f a * w a)).
    + ring.
    + intros a Ha. replace (a =? n)%nat with false by (symmetry; apply Nat.eqb_neq; lia). reflexivity.
  - rewrite IH by lia. replace (n =? k)%nat with false by (symmetry; apply Nat.eqb_neq; lia). ring.
Qed.

(* ---------------------------------------------------------------- Gram form *)
(* v^T (M M^T) v = sum_k (sum_i v_i M_ik)^2, with M M^T taken over m columns *)
Lemma quad_gram (M : mat) (v : nat -> R) n m :
  bigsum (fun i => bigsum (fun j => v i * bigsum (fun k => M i k * M j k) m * v j) n) n
  = bigsum (fun k => bigsum (fun i => v i * M i k) n * bigsum (fun i => v i * M i k) n) m.
Proof.
  induction m as [|m IH].
  - cbn [bigsum]. rewrite (bigsum_ext _ (fun _ => 0)); [apply bigsum_0|].
    intros i _. rewrite (bigsum_ext _ (fun _ => 0)); [apply bigsum_0|]. intros j _. ring.
  - cbn [bigsum]. rewrite <- IH. rewrite bigsum_mul. rewrite <- bigsum_plus. apply bigsum_ext. intros i _.
    rewrite <- bigsum_plus. apply bigsum_ext. intros j _. ring.
Qed.

(* ---------------------------------------------------------------- the factor equations below the diagonal
   (no symmetry needed, any row i) *)
Lemma chol_low A n i c : pivots_pos A n -> (c < n)%nat -> (c <= i)%nat -> mmtR (cholR A n) n i c = A i c.
Proof.
  intros Piv Hc Hic. rewrite mmt_split by (try exact Hc; intros a k Hak; apply chol_upper_zero; exact Hak).
  pose proof (Piv c Hc) as P.
  destruct (Nat.eq_dec i c) as [E|N].
  - subst i. rewrite (chol_diag A n c Hc). rewrite sqrt_sqrt by lra. rewrite (pivot_is_final A n c) by lia. ring.
  - rewrite (chol_below A n c i Hc) by lia.
    assert (D : cholR A n c c <> 0). { rewrite chol_diag by exact Hc. apply Rgt_not_eq. apply sqrt_lt_R0. exact P. }
    field. exact D.
Qed.

(* ---------------------------------------------------------------- back substitution: L^T w = b *)
Fixpoint tsolve (L : mat) (b : nat -> R) (j t : nat) : nat -> R :=
  match t with
  | O => fun _ => 0
  | S t' =>
      let w := tsolve L b j t' in
      let k := (j - 1 - t')%nat in
      fun a => if (a =? k)%nat then (b k - bigsum (fun a' => L a' k * w a') j) / L k k else w a
  end.

Lemma tsolve_inv L b j : (forall k, (k < j)%nat -> L k k <> 0) -> (forall a k, (a < k)%nat -> L a k = 0) ->
  forall t, (t <= j)%nat ->
    (forall a, (a < j - t)%nat -> tsolve L b j t a = 0)
    /\ (forall k, (j - t <= k < j)%nat -> bigsum (fun a => L a k * tsolve L b j t a) j = b k).
Proof.
  intros D U t. induction t as [|t IH]; intro Ht.
  - split; [reflexivity|intros k Hk; lia].
  - destruct (IH ltac:(lia)) as [Z S]. cbn [tsolve]. set (w := tsolve L b j t) in *. set (k0 := (j - 1 - t)%nat).
    assert (Hk0 : (k0 < j)%nat) by (unfold k0; lia).
    assert (W0 : w k0 = 0) by (apply Z; unfold k0; lia).
    split.
    + intros a Ha. replace (a =? k0)%nat with false by (symmetry; apply Nat.eqb_neq; unfold k0; lia). apply Z. lia.
    + intros k Hk. rewrite (bigsum_update (fun a => L a k) w k0 _ j Hk0). rewrite W0.
      destruct (Nat.eq_dec k k0) as [E|N].
      * subst k. field. apply D. exact Hk0.
      * rewrite (U k0 k) by (unfold k0 in *; lia). rewrite (S k) by (unfold k0 in *; lia). ring.
Qed.

(* ---------------------------------------------------------------- the theorem *)
Theorem spd_pivots_pos A n : symmetric A n -> posdef A n -> pivots_pos A n.
Proof.
  intros Sym PD j. induction j as [j IHj] using lt_wf_ind. intro Hj.
  assert (PP : pivots_pos A j) by (intros k Hk; apply IHj; lia).
  assert (Symj : symmetric A j) by (intros a b Ha Hb; apply Sym; lia).
  destruct (cholR_correct A j Symj PP) as [_ [Dg F1]].
  set (L := cholR A j) in *.
  assert (Up : forall a k, (a < k)%nat -> L a k = 0) by (intros a k H; apply chol_upper_zero; exact H).
  assert (F2 : forall c, (c < j)%nat -> mmtR L j j c = A j c) by (intros c Hc; apply chol_low; [exact PP|exact Hc|lia]).
  set (piv := chol_pivot A (chol_cols A j) j).
  assert (Epiv : piv = A j j - bigsum (fun k => L j k * L j k) j) by reflexivity.
  (* the test vector *)
  set (w := tsolve L (fun k => - L j k) j j).
  destruct (tsolve_inv L (fun k => - L j k) j (fun k Hk => Rgt_not_eq _ _ (Dg k Hk)) Up j (le_n j)) as [_ Sw].
  fold w in Sw.
  set (z := fun i => if (i <? j)%nat then w i else if (i =? j)%nat then 1 else 0).
  assert (Zj : z j = 1) by (unfold z; rewrite Nat.ltb_irrefl, Nat.eqb_refl; reflexivity).
  assert (Zlt : forall i, (i < j)%nat -> z i = w i) by (intros i Hi; unfold z; replace (i <? j)%nat with true by (symmetry; apply Nat.ltb_lt; exact Hi); reflexivity).
  assert (Zgt : forall i, (j < i)%nat -> z i = 0).
  { intros i Hi. unfold z. replace (i <? j)%nat with false by (symmetry; apply Nat.ltb_ge; lia).
    replace (i =? j)%nat with false by (symmetry; apply Nat.eqb_neq; lia). reflexivity. }
  (* A on the block <= j is the Gram matrix of the rows of L plus piv in the corner *)
  assert (Blk : forall i i', (i <= j)%nat -> (i' <= j)%nat ->
            A i i' = mmtR L j i i' + (if (i =? j)%nat then if (i' =? j)%nat then piv else 0 else 0)).
  { intros i i' Hi Hi'. destruct (Nat.eq_dec i j) as [Ei|Ni]; destruct (Nat.eq_dec i' j) as [Ei'|Ni'].
    - subst i i'. rewrite Nat.eqb_refl. unfold mmtR. rewrite Epiv. ring.
    - subst i. rewrite Nat.eqb_refl. replace (i' =? j)%nat with false by (symmetry; apply Nat.eqb_neq; exact Ni').
      rewrite F2 by lia. ring.
    - subst i'. replace (i =? j)%nat with false by (symmetry; apply Nat.eqb_neq; exact Ni).
      rewrite (Sym i j) by lia. rewrite <- (F2 i) by lia. unfold mmtR.
      rewrite (bigsum_ext (fun k => L i k * L j k) (fun k => L j k * L i k)) by (intros; ring). ring.
    - replace (i =? j)%nat with false by (symmetry; apply Nat.eqb_neq; exact Ni). rewrite F1 by lia. ring. }
  (* the quadratic form of z *)
  assert (Q : quad A n z = piv).
  { unfold quad.
    (* only indices <= j matter *)
    rewrite (bigsum_zero_tail _ (S j) n) by
      (try lia; intros i Hi; rewrite (bigsum_ext _ (fun _ => 0)) by (intros; rewrite (Zgt i) by lia; ring); apply bigsum_0).
    rewrite (bigsum_ext _ (fun i => bigsum (fun i' => z i * A i i' * z i') (S j))) by
      (intros i Hi; apply (bigsum_zero_tail _ (S j) n); [lia|intros i' Hi'; rewrite (Zgt i') by lia; ring]).
    rewrite (bigsum_ext _ (fun i => bigsum (fun i' => z i * mmtR L j i i' * z i') (S j)
                                    + bigsum (fun i' => z i * (if (i =? j)%nat then if (i' =? j)%nat then piv else 0 else 0) * z i') (S j))).
    2:{ intros i Hi. rewrite <- bigsum_plus. apply bigsum_ext. intros i' Hi'. rewrite (Blk i i') by lia. ring. }
    rewrite bigsum_plus. unfold mmtR. rewrite quad_gram.
    (* first part: L^T z = 0 *)
    rewrite (bigsum_ext _ (fun _ => 0)), bigsum_0.
    2:{ intros k Hk. cbn [bigsum]. rewrite Zj.
        rewrite (bigsum_ext _ (fun a => L a k * w a)) by (intros a Ha; rewrite (Zlt a Ha); ring).
        rewrite (Sw k) by lia. ring. }
    (* second part: the corner *)
    cbn [bigsum]. rewrite Nat.eqb_refl, Zj.
    rewrite (bigsum_ext (fun i => bigsum _ j + _) (fun _ => 0)), bigsum_0.
    2:{ intros i Hi. replace (i =? j)%nat with false by (symmetry; apply Nat.eqb_neq; lia).
        rewrite (bigsum_ext _ (fun _ => 0)) by (intros; ring). rewrite bigsum_0. ring. }
    rewrite (bigsum_ext _ (fun _ => 0)), bigsum_0.
    2:{ intros i' Hi'. replace (i' =? j)%nat with false by (symmetry; apply Nat.eqb_neq; lia). ring. }
    ring. }
  fold piv. rewrite <- Q. apply PD. exists j. split; [exact Hj|rewrite Zj; lra].
Qed.

(* the statement's quantifier: every symmetric positive-definite covariance has the factor *)
Corollary spd_has_cholesky_factor A n : symmetric A n -> posdef A n -> is_cholesky_factor A (cholR A n) n.
Proof. intros S P. apply cholR_correct; [exact S|apply spd_pivots_pos; assumption]. Qed.

(* ---------------------------------------------------------------- the converse: positive pivots => positive definite *)
Lemma bigsum_single f n k : (k < n)%nat -> (forall i, (i < n)%nat -> i <> k -> f i = 0) -> bigsum f n = f k.
Proof.
  intros Hk H. induction n as [|n IH]; [lia|]. cbn [bigsum].
  destruct (Nat.eq_dec k n) as [E|N].
  - subst k. rewrite (bigsum_ext f (fun _ => 0)) by (intros i Hi; apply H; lia). rewrite bigsum_0. ring.
  - rewrite IH by (try lia; intros i Hi Hne; apply H; lia). rewrite (H n) by lia. ring.
Qed.

Lemma bigsum_ge_term f n k : (forall i, (i < n)%nat -> 0 <= f i) -> (k < n)%nat -> f k <= bigsum f n.
Proof.
  intros H Hk. induction n as [|n IH]; [lia|]. cbn [bigsum].
  assert (N0 : 0 <= bigsum f n).
  { clear IH Hk. induction n as [|m IHm]; cbn [bigsum]; [lra|].
    pose proof (H m ltac:(lia)). assert (0 <= bigsum f m) by (apply IHm; intros i Hi; apply H; lia). lra. }
  destruct (Nat.eq_dec k n) as [E|N]; [subst k; lra|].
  pose proof (H n ltac:(lia)). assert (f k <= bigsum f n) by (apply IH; [intros i Hi; apply H; lia|lia]). lra.
Qed.

Lemma last_nonzero (v : nat -> R) n : (exists i, (i < n)%nat /\ v i <> 0) ->
  exists i0, (i0 < n)%nat /\ v i0 <> 0 /\ forall i, (i0 < i < n)%nat -> v i = 0.
Proof.
  induction n as [|n IH]; intros [i [Hi Hv]]; [lia|].
  destruct (Req_EM_T (v n) 0) as [Z|NZ].
  - destruct (Nat.eq_dec i n) as [E|N]; [subst i; contradiction|].
    assert (Hi' : (i < n)%nat) by lia.
    destruct (IH (ex_intro _ i (conj Hi' Hv))) as [i0 [H0 [Hn0 Ht]]].
    exists i0. split; [lia|]. split; [exact Hn0|]. intros k Hk.
    destruct (Nat.eq_dec k n) as [E|N']; [subst k; exact Z|apply Ht; lia].
  - exists n. split; [lia|]. split; [exact NZ|intros k Hk; lia].
Qed.

Theorem pivots_pos_posdef A n : symmetric A n -> pivots_pos A n -> posdef A n.
Proof.
  intros Sym Piv v Hv. destruct (cholR_correct A n Sym Piv) as [Up [Dg F]]. set (L := cholR A n) in *.
  unfold quad.
  rewrite (bigsum_ext _ (fun i => bigsum (fun j => v i * bigsum (fun k => L i k * L j k) n * v j) n)).
  2:{ intros i Hi. apply bigsum_ext. intros j Hj. rewrite <- (F i j Hi Hj). reflexivity. }
  rewrite quad_gram.
  destruct (last_nonzero v n Hv) as [i0 [H0 [Hn0 Ht]]].
  set (s := fun k => bigsum (fun i => v i * L i k) n).
  assert (S0 : s i0 = v i0 * L i0 i0).
  { unfold s. apply (bigsum_single (fun i => v i * L i i0) n i0 H0). intros i Hi Hne.
    destruct (lt_dec i i0) as [Hl|Hg]; [rewrite (Up i i0 Hl H0); ring|rewrite (Ht i) by lia; ring]. }
  assert (P0 : 0 < s i0 * s i0).
  { rewrite S0. pose proof (Dg i0 H0). assert (v i0 * L i0 i0 <> 0) by (apply Rmult_integral_contrapositive_currified; lra).
    apply Rsqr_pos_lt in H1. unfold Rsqr in H1. exact H1. }
  apply Rlt_le_trans with (s i0 * s i0); [exact P0|].
  apply (bigsum_ge_term (fun k => s k * s k) n i0); [|exact H0].
  intros k _. apply Rle_0_sqr.
Qed.

(* in the model, numpy.linalg.cholesky returns (all pivots positive) exactly on the positive-definite matrices *)
Theorem posdef_iff_pivots_pos A n : symmetric A n -> (posdef A n <-> pivots_pos A n).
Proof. intro S. split; [apply spd_pivots_pos; exact S|apply pivots_pos_posdef; exact S]. Qed.

(* C19 -- the central claim about the cumulative-method sampler made explicit:
   (1) the stored table is the NORMALISED TRAPEZOID-RULE cumulative distribution,
   (2) between two tabulated cumulative values the sampler is the LINEAR INTERPOLATION of the grid
       abscissae against that table. *)
From Coq Require Import QArith Qabs Lia Lqa Sorting.Sorted.
From EsVerif.Common Require Import Base.
From EsVerif.C19 Require Import ModelQ Spec ProofsSampler.
Local Open Scope Q_scope.

(* sum of the first k+1 trapezoids  (x_i - x_{i-1}) (p_i + p_{i-1}) / 2  starting after (xprev, yprev) *)
Fixpoint trapz (xs ys : list Q) (xprev yprev : Q) (k : nat) : Q :=
  match xs, ys with
  | x :: xt, y :: yt =>
      (x - xprev) * (y + yprev) / 2 + match k with O => 0 | S k' => trapz xt yt x y k' end
  | _, _ => 0
  end.

Definition trap_area (pofx x : list Q) (k : nat) : Q :=
  match x, pofx with
  | x0 :: xt, p0 :: pt => trapz xt pt x0 p0 k
  | _, _ => 0
  end.

Lemma cumtrapz_go_nth xs : forall ys xprev yprev acc k,
  (k < length xs)%nat -> length ys = length xs ->
  nth k (cumtrapz_go xprev yprev acc xs ys) 0 == acc + trapz xs ys xprev yprev k.
Proof.
  induction xs as [|x xt IH]; intros ys xprev yprev acc k Hk Hl; [simpl in Hk; lia|].
  destruct ys as [|y yt]; [discriminate|]. cbn [cumtrapz_go trapz].
  destruct k as [|k].
  - cbn [nth]. rewrite Qred_correct. ring.
  - cbn [nth]. rewrite IH by (simpl in Hk, Hl; lia). rewrite Qred_correct. ring.
Qed.

Lemma qlast_cumtrapz_go xs : forall ys xprev yprev acc,
  (1 <= length xs)%nat -> length ys = length xs ->
  qlast (cumtrapz_go xprev yprev acc xs ys) == acc + trapz xs ys xprev yprev (length xs - 1).
Proof.
  intros ys xprev yprev acc H1 Hl.
  assert (L : length (cumtrapz_go xprev yprev acc xs ys) = length xs).
  { revert ys xprev yprev acc Hl. clear H1. induction xs as [|x xt IH]; intros [|y yt] xp yp acc Hl; try discriminate; [reflexivity|].
    cbn [cumtrapz_go length]. rewrite IH by (simpl in Hl; lia). reflexivity. }
  rewrite last_nth by (intro E; rewrite E in L; simpl in L; lia).
  rewrite L. apply cumtrapz_go_nth; lia.
Qed.

(* (1) the table *)
Theorem pcum_is_normalised_trapezoid pofx x k : gen_ok pofx x -> (k < length x - 1)%nat ->
  nth k (pcum_of pofx x) 0 == trap_area pofx x k / trap_area pofx x (length x - 2).
Proof.
  intros [Hl [H3 _]] Hk. unfold pcum_of, gen_tables. cbn [snd].
  destruct x as [|x0 xt]; [simpl in H3; lia|]. destruct pofx as [|p0 pt]; [discriminate|].
  unfold cumtrapz, trap_area. cbn [length] in *.
  assert (Lc : length (cumtrapz_go x0 p0 0 xt pt) = length xt).
  { clear Hk H3. revert pt x0 p0 Hl. generalize 0. induction xt as [|a t IH]; intros acc [|y yt] xp yp Hl; try discriminate; [reflexivity|].
    cbn [cumtrapz_go length]. rewrite IH by (simpl in Hl; lia). reflexivity. }
  rewrite nth_map_div by lia. rewrite Qred_correct.
  rewrite cumtrapz_go_nth by lia. rewrite qlast_cumtrapz_go by lia.
  replace (S (length xt) - 2)%nat with (length xt - 1)%nat by lia.
  rewrite !Qplus_0_l. reflexivity.
Qed.

(* (2) the map from deviate to value *)
Theorem sampler_interpolates pofx x u k : gen_ok pofx x ->
  (S k < length (pcum_of pofx x))%nat ->
  nth k (pcum_of pofx x) 0 < u <= nth (S k) (pcum_of pofx x) 0 ->
  exists y, sampler pofx x u = Ok y
            /\ y == lin (nth k (pcum_of pofx x) 0) (nth (S k) (pcum_of pofx x) 0) (nth (S k) x 0) (nth (S (S k)) x 0) u.
Proof.
  intros G Hk [Hlo Hhi]. pose proof (tables_props pofx x G) as TP. cbv zeta in TP.
  rewrite (sampler_eq pofx x u G). eexists. split; [reflexivity|].
  unfold pcum_of in *. set (pc := snd (gen_tables false pofx x)) in *.
  destruct TP as [_ [Lpc [H2 [_ [Spc _]]]]].
  unfold interpF. cbv zeta. rewrite Qred_correct.
  destruct (bracket_cases pc u Spc H2) as [Hm C]. cbv zeta in Hm, C.
  set (m := bracket (length pc) (cnt pc u)) in *.
  assert (Em : m = k).
  { destruct C as [[_ [E0 C]]|[[C1 [C2 _]]|[_ [E C]]]].
    - assert (nth 0 pc 0 <= nth k pc 0) by (apply incr_nth_le; [exact Spc|lia]). lra.
    - destruct (lt_eq_lt_dec m k) as [[Hlt|He]|Hgt]; [|exact He|].
      + assert (nth (S m) pc 0 <= nth k pc 0) by (apply incr_nth_le; [exact Spc|lia]). lra.
      + assert (nth (S k) pc 0 <= nth m pc 0) by (apply incr_nth_le; [exact Spc|lia]). lra.
    - assert (nth (S k) pc 0 <= nth (S m) pc 0) by (apply incr_nth_le; [exact Spc|lia]). lra. }
  rewrite Em.
  assert (T : forall i, nth i (tl x) 0 = nth (S i) x 0) by (intro i; destruct x; [destruct i; reflexivity|reflexivity]).
  rewrite !T. reflexivity.
Qed.

(* (3) below the first tabulated cumulative value the sampler EXTRAPOLATES the first segment of the
   table (which starts at the SECOND grid point, the first one having no cumulative value): the
   result is at most x_1 and is not bounded below by x_0. *)
Theorem sampler_below_first pofx x u : gen_ok pofx x -> u <= nth 0 (pcum_of pofx x) 0 ->
  exists y, sampler pofx x u = Ok y
            /\ y == lin (nth 0 (pcum_of pofx x) 0) (nth 1 (pcum_of pofx x) 0) (nth 1 x 0) (nth 2 x 0) u
            /\ y <= nth 1 x 0.
Proof.
  intros G Hu. pose proof (tables_props pofx x G) as TP. cbv zeta in TP.
  rewrite (sampler_eq pofx x u G). eexists. split; [reflexivity|].
  unfold pcum_of in *. set (pc := snd (gen_tables false pofx x)) in *.
  destruct TP as [_ [Lpc [H2 [Sv [Spc _]]]]].
  unfold interpF. cbv zeta. rewrite Qred_correct.
  destruct (bracket_cases pc u Spc H2) as [Hm C]. cbv zeta in Hm, C.
  set (m := bracket (length pc) (cnt pc u)) in *.
  assert (Em : m = 0%nat).
  { destruct C as [[_ [E0 _]]|[[C1 _]|[_ [_ C]]]]; [exact E0| |].
    - assert (nth 0 pc 0 <= nth m pc 0) by (apply incr_nth_le; [exact Spc|lia]). lra.
    - assert (nth 0 pc 0 <= nth (S m) pc 0) by (apply incr_nth_le; [exact Spc|lia]). lra. }
  rewrite Em.
  assert (T : forall i, nth i (tl x) 0 = nth (S i) x 0) by (intro i; destruct x; [destruct i; reflexivity|reflexivity]).
  rewrite !T. split; [reflexivity|].
  assert (P01 : nth 0 pc 0 < nth 1 pc 0) by (apply incr_nth_lt; [exact Spc|lia]).
  assert (X12 : nth 1 x 0 <= nth 2 x 0).
  { destruct G as [_ [H3 [Sx _]]]. apply Qlt_le_weak. apply incr_nth_lt; [exact Sx|lia]. }
  apply lin_le_left; assumption.
Qed.

(* the restriction "u at or above the first tabulated cumulative value" in the in-grid statement
   cannot be dropped: a decreasing density sends small deviates BELOW the first grid point *)
Theorem sampler_in_grid_without_restriction_refuted :
  exists pofx x u y, gen_ok pofx x /\ 0 <= u <= 1 /\ sampler pofx x u = Ok y /\ y < nth 0 x 0.
Proof.
  exists [10; 10; 1], [0; 1; 2], 0, (-(9) # 11).
  split; [apply gen_ok_b_sound; reflexivity|]. split; [split; discriminate|].
  split; [vm_compute; reflexivity|reflexivity].
Qed.

(* C19 -- proof-deepening round, rational / discrete side:
   (1) the contract monitor of the numpy.linalg.cholesky oracle is sound,
   (2) the index-selection checker is complete (so it decides the property), and the requests
       random_indices rejects are exactly the unsatisfiable ones. *)
From Coq Require Import QArith Qabs Lia ZArith List Bool.
From EsVerif.Common Require Import Base.
From EsVerif.C19 Require Import ModelQ Spec ProofsSampler.
Import ListNotations.

(* ---------------------------------------------------------------- (1) oracle contract *)
Local Open Scope Q_scope.

Definition chol_oracle_ok (cov M : list (list Q)) : Prop :=
  length cov = length M
  /\ Forall (fun row => length row = length M) M
  /\ (forall i k, (i < k < length M)%nat -> nth k (nth i M []) 0 == 0)
  /\ (forall i j, (i < length M)%nat -> (j < length M)%nat ->
        Qabs (mmt M i j - nth j (nth i cov []) 0)
        <= relq * Qmax (nth i (nth i cov []) 0) (nth j (nth j cov []) 0)).

Theorem chol_oracle_b_sound cov M : chol_oracle_b cov M = true -> chol_oracle_ok cov M.
Proof.
  unfold chol_oracle_b, chol_oracle_ok. intro E.
  apply andb_true_iff in E as [E E4]. apply andb_true_iff in E as [E E3]. apply andb_true_iff in E as [E1 E2].
  apply Nat.eqb_eq in E1. split; [exact E1|]. split; [|split].
  - apply Forall_forall. intros row Hr. rewrite forallb_forall in E2. apply Nat.eqb_eq. apply E2. exact Hr.
  - intros i k [Hik Hk]. unfold lower_tri_b in E3. rewrite forallb_forall in E3.
    specialize (E3 i ltac:(apply in_seq; lia)). rewrite forallb_forall in E3.
    specialize (E3 k ltac:(apply in_seq; lia)).
    destruct (i <? k)%nat eqn:L; [apply Qeq_bool_iff; exact E3|apply Nat.ltb_ge in L; lia].
  - intros i j Hi Hj. rewrite forallb_forall in E4. specialize (E4 i ltac:(apply in_seq; lia)).
    rewrite forallb_forall in E4. specialize (E4 j ltac:(apply in_seq; lia)).
    apply close_b_sound. exact E4.
Qed.

(* ---------------------------------------------------------------- (2) index selection *)
Local Open Scope Z_scope.

Lemma nodup_b_complete l : NoDup l -> nodup_b l = true.
Proof.
  induction 1 as [|a t Hn N IH]; [reflexivity|]. cbn [nodup_b]. rewrite IH, andb_true_r.
  apply negb_true_iff. destruct (existsb (Z.eqb a) t) eqn:E; [|reflexivity].
  apply existsb_exists in E as [b [Hb Eb]]. apply Z.eqb_eq in Eb. subst b. contradiction.
Qed.

Theorem ri_check_complete imax nrand unique out : ri_ok imax nrand unique out -> ri_check imax nrand unique out = true.
Proof.
  intros [L [R U]]. unfold ri_check. apply andb_true_iff. split; [apply andb_true_iff; split|].
  - apply Z.eqb_eq. exact L.
  - apply forallb_forall. intros v Hv. specialize (R v Hv). apply andb_true_iff. split; [apply Z.leb_le|apply Z.ltb_lt]; lia.
  - destruct unique; [|reflexivity]. cbn [negb orb]. apply nodup_b_complete. apply U. reflexivity.
Qed.

Theorem ri_check_iff imax nrand unique out : ri_check imax nrand unique out = true <-> ri_ok imax nrand unique out.
Proof. split; [apply ri_check_sound|apply ri_check_complete]. Qed.

(* the identity selection 0, 1, ..., k-1 *)
Definition iota (k : nat) : list Z := map Z.of_nat (seq 0 k).

Lemma iota_props k : length (iota k) = k /\ (forall v, In v (iota k) -> 0 <= v < Z.of_nat k) /\ NoDup (iota k).
Proof.
  unfold iota. split; [rewrite map_length, seq_length; reflexivity|]. split.
  - intros v Hv. apply in_map_iff in Hv as [i [<- Hi]]. apply in_seq in Hi. lia.
  - apply NoDup_map_inj_in; [|apply seq_NoDup]. intros a b _ _ E. lia.
Qed.

(* For a non-negative population size the requests random_indices accepts are exactly those for
   which a selection with the required count, range and uniqueness EXISTS: every rejection
   (ValueError) is forced by the statement, and nothing satisfiable is rejected. *)
Theorem ri_accepts_iff_satisfiable imax nrand unique : 0 <= imax ->
  (ri_accepts imax nrand unique = true <-> exists out, ri_ok imax nrand unique out).
Proof.
  intro Hi. unfold ri_accepts. split.
  - intro E. apply andb_true_iff in E as [E E3]. apply andb_true_iff in E as [E1 E2].
    apply Z.leb_le in E1. apply orb_true_iff in E2. apply orb_true_iff in E3.
    destruct unique.
    + (* without replacement: 0 .. nrand-1 *)
      assert (Hle : nrand <= imax) by (destruct E3 as [E3|E3]; [discriminate|apply Z.leb_le; exact E3]).
      exists (iota (Z.to_nat nrand)). destruct (iota_props (Z.to_nat nrand)) as [L [R N]].
      split; [rewrite L; lia|]. split; [|intros _; exact N].
      intros v Hv. specialize (R v Hv). lia.
    + (* with replacement: nrand copies of 0 *)
      exists (repeat 0 (Z.to_nat nrand)). split; [rewrite repeat_length; lia|]. split; [|discriminate].
      intros v Hv. destruct E2 as [E2|E2].
      * apply Z.eqb_eq in E2. subst nrand. simpl in Hv. contradiction.
      * apply repeat_spec in Hv. subst v. apply Z.ltb_lt in E2. lia.
  - intros [out [L [R U]]].
    assert (H0 : 0 <= nrand) by lia.
    apply andb_true_iff. split; [apply andb_true_iff; split|].
    + apply Z.leb_le. exact H0.
    + apply orb_true_iff. destruct out as [|v t]; [left; apply Z.eqb_eq; simpl in L; lia|].
      right. apply Z.ltb_lt. specialize (R v (or_introl eq_refl)). lia.
    + destruct unique; [|reflexivity]. cbn [negb orb]. apply Z.leb_le.
      pose proof (ri_unique_bound imax nrand out (conj L (conj R U))). lia.
Qed.

(* ---------------------------------------------------------------- (3) which tables Generator(...).sample rejects *)
Local Open Scope Q_scope.

Theorem gen_sample_rejections pofx x us :
  (length pofx <> length x -> gen_sample false pofx x us = Err EValue)
  /\ (length pofx = length x -> length x = 0%nat -> gen_sample false pofx x us = Err EValue)
  /\ (length pofx = length x -> length x = 1%nat -> gen_sample false pofx x us = Err EIndex)
  /\ (length pofx = length x -> length x = 2%nat -> us <> [] -> gen_sample false pofx x us = Err EIndex)
  /\ (length pofx = length x -> length x = 2%nat -> gen_sample false pofx x [] = Ok []).
Proof.
  unfold gen_sample. repeat split.
  - intro H. apply Nat.eqb_neq in H. rewrite H. reflexivity.
  - intros H H0. rewrite H, Nat.eqb_refl, H0. reflexivity.
  - intros H H1. rewrite H, Nat.eqb_refl, H1. cbn [negb Nat.eqb andb].
    destruct x as [|a [|? ?]]; try discriminate. destruct pofx as [|p [|? ?]]; try discriminate. reflexivity.
  - intros H H2 Hu. rewrite H, Nat.eqb_refl, H2. cbn [negb Nat.eqb andb].
    destruct x as [|a [|b [|? ?]]]; try discriminate. destruct pofx as [|p [|q [|? ?]]]; try discriminate.
    destruct us as [|u ut]; [contradiction|].
    cbn [gen_tables cumtrapz cumtrapz_go tl map qlast last mapM]. unfold interplin, count_lt. cbn [length filter].
    destruct (Qlt_bool _ u); reflexivity.
  - intros H H2. rewrite H, Nat.eqb_refl, H2. cbn [negb Nat.eqb andb].
    destruct x as [|a [|b [|? ?]]]; try discriminate. destruct pofx as [|p [|q [|? ?]]]; try discriminate. reflexivity.
Qed.

(* ---------------------------------------------------------------- (4) the repetition checker *)
Theorem same_points_sound a b : same_points a b = true ->
  Forall2 (fun p q => fst p == fst q /\ snd p == snd q) a b.
Proof.
  unfold same_points. revert b. induction a as [|p t IH]; intros [|q t2] E; cbn [list_eqb] in E; try discriminate; constructor.
  - apply andb_true_iff in E as [E _]. unfold qpair_eqb in E. apply andb_true_iff in E as [E1 E2].
    split; apply Qeq_bool_iff; assumption.
  - apply IH. apply andb_true_iff in E as [_ E]. exact E.
Qed.

(* ---------------------------------------------------------------- (5) the remaining checkers are complete too *)
Local Open Scope Q_scope.

Theorem sky_check_complete n pts : sky_ok n pts -> sky_check n pts = true.
Proof.
  intros [L R]. unfold sky_check. apply andb_true_iff. split; [apply Z.eqb_eq; exact L|].
  apply forallb_forall. intros p Hp. destruct (R p Hp) as [[A B] [C D]].
  repeat (apply andb_true_iff; split); apply Qle_bool_iff; assumption.
Qed.

Theorem chol_check_complete means M n flat out : (0 < length M)%nat ->
  chol_ok means M n flat out -> chol_check means M n flat out = true.
Proof.
  intros HM [L H]. unfold chol_check. apply andb_true_iff. split; [apply Nat.eqb_eq; exact L|].
  apply forallb_forall. intros j Hj. apply in_seq in Hj. apply andb_true_iff. split.
  - apply Nat.eqb_eq. destruct (H j 0%nat ltac:(lia) HM) as [E _]. exact E.
  - apply forallb_forall. intros i Hi. apply in_seq in Hi. destruct (H j i ltac:(lia) ltac:(lia)) as [_ E].
    unfold close_b. apply Qle_bool_iff. exact E.
Qed.

Theorem sky_check_iff n pts : sky_check n pts = true <-> sky_ok n pts.
Proof. split; [apply sky_check_sound|apply sky_check_complete]. Qed.

Theorem chol_check_iff means M n flat out : (0 < length M)%nat ->
  (chol_check means M n flat out = true <-> chol_ok means M n flat out).
Proof. intro H. split; [apply chol_check_sound|apply chol_check_complete; exact H]. Qed.

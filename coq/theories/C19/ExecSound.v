(* C19 -- the table-once verdict of Exec.v is the verdict built from the Spec checkers. *)
From Coq Require Import QArith Qabs.
From EsVerif.Common Require Import Base.
From EsVerif.C19 Require Import ModelQ Spec Exec.

Lemma v_gen_fast_eq : forall pofx x us out, v_gen_fast pofx x us out = v_gen pofx x us out.
Proof.
  intros pofx x us out.
  unfold v_gen_fast, v_gen, gen_tol, gen_check, gen_check_t, sampler, pcum_of.
  destruct (gen_tables false pofx x) as [xv pc]. cbn [fst snd]. reflexivity.
Qed.

(* C19 -- the table-once verdict of Exec.v is the verdict built from the Spec checkers. *)
From Coq Require Import QArith Qabs.
From EsVerif.Common Require Import Base.
From EsVerif.C19 Require Import ModelQ Spec Exec.

Lemma v_gen_fast_eq : forall pofx x us out, v_gen_fast pofx x us out = v_gen pofx x us out.
Proof.
  intros pofx x us out.
  unfold v_gen_fast, v_gen, gen_tol, gen_check, gen_check_t, sampler, pcum_of.
  destruct (gen_tables false pofx x) as [xv pc]. cbn [fst snd]. reflexivity.
Qed.

(* ---------------------------------------------------------------- the requested number of values is
   returned: gen_sample (the function the per-case correspondence evaluates) maps `sampler` (the
   function the theorems are about) over the deviates. *)
From Coq Require Import Lia.
From EsVerif.C19 Require Import ProofsSampler.

Lemma mapM_total {A B} (f : A -> result B) (l : list A) :
  (forall a, exists b, f a = Ok b) ->
  exists ys, mapM f l = Ok ys /\ length ys = length l /\ Forall2 (fun a y => f a = Ok y) l ys.
Proof.
  intro T. induction l as [|a t IH].
  - exists []. repeat split; constructor.
  - destruct (T a) as [b Hb]. destruct IH as [ys [E [L F]]]. exists (b :: ys). cbn [mapM]. rewrite Hb, E.
    repeat split; [cbn [length]; lia | constructor; assumption].
Qed.

Theorem gen_sample_count pofx x us : gen_ok pofx x ->
  exists ys, gen_sample false pofx x us = Ok ys /\ length ys = length us
             /\ Forall2 (fun u y => sampler pofx x u = Ok y) us ys.
Proof.
  intro G. pose proof (tables_props pofx x G) as TP. cbv zeta in TP.
  assert (T : forall u, exists y, sampler pofx x u = Ok y) by (intro u; apply sampler_total; exact G).
  destruct G as [Hl [H3 _]]. unfold gen_sample, sampler in *.
  rewrite Hl, Nat.eqb_refl. cbn [negb andb].
  replace (length x =? 0)%nat with false by (symmetry; apply Nat.eqb_neq; lia). cbn [negb andb].
  destruct (gen_tables false pofx x) as [xv pc]. cbn [fst snd] in TP.
  destruct TP as [_ [_ [H2 _]]]. destruct pc as [|p0 pt]; [cbn [length] in H2; lia|].
  apply mapM_total. exact T.
Qed.

(* ---------------------------------------------------------------- the per-deviate checker is sound *)
Theorem gen_check_tu_sound tol pofx x us outs :
  gen_check_tu tol (fst (gen_tables false pofx x)) (snd (gen_tables false pofx x)) us outs = true ->
  Forall2 (fun u o => exists y, sampler pofx x u = Ok y
                                /\ (Qabs (y - o) <= tol * ucond (pcum_of pofx x) u)%Q) us outs.
Proof.
  unfold gen_check_tu, pcum_of, sampler. destruct (gen_tables false pofx x) as [xv pc]. cbn [fst snd].
  apply all2_Forall2. intros u o E. destruct (interplin xv pc u) as [y|e]; [|discriminate].
  exists y. split; [reflexivity|]. apply close_b_sound. exact E.
Qed.

(* ---------------------------------------------------------------- the named pieces are the ones the models use *)
Lemma gen_sample_uses_genrand_accum cumulative pofx x us :
  gen_sample cumulative pofx x us =
  if negb (length pofx =? length x)%nat then Err EValue
  else if (negb cumulative && (length x =? 0)%nat)%bool then Err EValue
  else let '(xvals, pcum) := gen_tables cumulative pofx x in
       match pcum with [] => Err EIndex | _ => genrand_accum xvals pcum us end.
Proof. reflexivity. Qed.

Lemma ri_accepts_is_choice imax nrand unique : ri_accepts imax nrand unique = choice_accepts imax nrand (negb unique).
Proof. reflexivity. Qed.

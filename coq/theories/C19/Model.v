(* C19 -- model (style R, DESIGN 3.3) of the sky samplers of esutil/coords.py, formula for
   formula over Coq's real numbers, as functions of the deviates the code draws from `rng`:

     _check_range / randsphere   coords.py 1006-1078
     randcap                     coords.py 1081-1185   (both branches)
     rotate                      coords.py 1233-1294
     atbound                     coords.py 627-638
     eq2xyz / _thetaphi2xyz      coords.py 455-504

   The model describes the code AFTER the three repairs in fixes/C19 (radii converted to degrees
   once; arctan2 instead of arccos in randcap; arctan2 instead of arcsin in rotate).  One element
   of the vectorised numpy computation is modelled; `rng.uniform(low, high)` is
   low + (high - low) * u for the underlying deviate u in [0,1) (numpy's definition for both
   RandomState and Generator; the harness' stub generators implement exactly that and the
   seeded real generators are compared against it).

   Real PI stands for the code's float constants (math.pi, np.deg2rad's pi/180, np.rad2deg's
   180/pi); the relative difference (<= 1.3e-16) is part of the rounding gap that the per-case
   certificates measure.  No proofs in this file. *)
From Coq Require Import Reals.
Open Scope R_scope.

Definition d2r (x : R) : R := x * (PI / 180).        (* np.deg2rad *)
Definition r2d (x : R) : R := x * (180 / PI).        (* np.rad2deg *)

(* np.clip(x, lo, hi) = minimum(maximum(x, lo), hi) *)
Definition clip (lo hi x : R) : R := Rmin (Rmax x lo) hi.

(* rng.uniform(low=lo, high=hi) on the deviate u *)
Definition uniform (lo hi u : R) : R := lo + (hi - lo) * u.

(* np.arctan2(y, x) (no signed zeros over R: arctan2(0, x<0) = pi) *)
Definition atan2 (y x : R) : R :=
  if Rlt_dec 0 x then atan (y / x)
  else if Rlt_dec x 0 then (if Rle_dec 0 y then atan (y / x) + PI else atan (y / x) - PI)
  else if Rlt_dec 0 y then PI / 2
  else if Rlt_dec y 0 then - (PI / 2)
  else 0.

(* python's float % for a positive modulus: x - m * floor(x / m) *)
Definition pymod (x m : R) : R := x - IZR (Int_part (x / m)) * m.

Definition vec3 : Type := (R * R * R)%type.

(* _thetaphi2xyz(theta, phi); eq2xyz(ra, dec) with units='deg', stomp=False *)
Definition thetaphi2xyz (theta phi : R) : vec3 :=
  (cos theta * cos phi, sin theta * cos phi, sin phi).
Definition eq2xyz (ra dec : R) : vec3 := thetaphi2xyz (d2r ra) (d2r dec).

(* atbound(longitude, 0, 360): `while lon < 0: lon += 360`, then `while lon > 360: lon -= 360`.
   For the arguments that reach it from randcap (lon in [-180, 540)) each loop body runs at
   most once (Proofs: atbound_once), so one `if` per loop is the loop. *)
Definition atbound (lon : R) : R :=
  let lon := if Rlt_dec lon 0 then lon + 360 else lon in
  if Rlt_dec 360 lon then lon - 360 else lon.

(* ---------------------------------------------------------------- randsphere *)

(* randsphere(1, ra_range=[ra0,ra1], dec_range=[dec0,dec1], rng) on the deviates u1 (first
   uniform call) and u2 (second uniform call); system='eq' *)
Definition randsphere_v (dec0 dec1 u2 : R) : R :=
  let cosdec_min := cos (d2r (90 + dec1)) in
  let cosdec_max := cos (d2r (90 + dec0)) in
  clip (-1) 1 (uniform cosdec_min cosdec_max u2).

Definition randsphere_R (ra0 ra1 dec0 dec1 u1 u2 : R) : R * R :=
  let ra := uniform ra0 ra1 u1 in
  let v := randsphere_v dec0 dec1 u2 in
  let dec := acos v in
  let dec := r2d dec in
  (ra, dec - 90).

(* system='xyz' *)
Definition randsphere_xyz_R (ra0 ra1 dec0 dec1 u1 u2 : R) : vec3 :=
  let '(ra, dec) := randsphere_R ra0 ra1 dec0 dec1 u1 u2 in eq2xyz ra dec.

(* ---------------------------------------------------------------- randcap *)

(* the literal 89.9 of `dec >= 89.9 or dec <= -89.9`: exact value of the binary64 constant *)
Definition pole_thr : R := 3163075050785997 / 35184372088832.

(* the `else` branch (points generated around the centre itself); u = rng.random(),
   upsi = deviate of rng.uniform(low=0, high=2*PI).  Returns (ra, dec, radius in degrees). *)
Definition randcap_unrot (ra dec rad u upsi : R) : R * R * R :=
  let rand_r := sqrt u * rad in
  let rand_r := d2r rand_r in
  let rand_posangle := uniform 0 (2 * PI) upsi in
  let theta := d2r (dec + 90) in
  let phi := d2r ra in
  let sintheta := sin theta in
  let costheta := cos theta in
  let sinr := sin rand_r in
  let cosr := cos rand_r in
  let cospsi := cos rand_posangle in
  let sinpsi := sin rand_posangle in
  let costheta2 := costheta * cosr + sintheta * sinr * cospsi in
  let xtmp := sintheta * cosr - costheta * sinr * cospsi in
  let ytmp := sinr * sinpsi in
  let theta2 := atan2 (sqrt (xtmp * xtmp + ytmp * ytmp)) costheta2 in
  let Dphi := atan2 ytmp xtmp in
  let phi2 := phi - Dphi in
  let rand_ra := atbound (r2d phi2) in
  let rand_dec := r2d theta2 - 90 in
  (rand_ra, rand_dec, r2d rand_r).

(* rotate(phi, theta, psi, ra, dec) *)
Definition rotate_R (phi theta psi ra dec : R) : R * R :=
  let twopi := 2 * PI in
  let fourpi := 4 * PI in
  let phi := d2r (- phi) in
  let theta := d2r (- theta) in
  let psi := d2r (- psi) in
  let sintheta := sin theta in
  let costheta := cos theta in
  let a := d2r ra - phi in
  let b := d2r dec in
  let sb := sin b in
  let cb := cos b in
  let cbsa := cb * sin a in
  let x := cb * cos a in
  let y := costheta * cbsa + sintheta * sb in
  let z := - sintheta * cbsa + costheta * sb in
  let dec_out := atan2 z (sqrt (x * x + y * y)) in
  let a := atan2 y x in
  let ra_out := pymod (a + psi + fourpi) twopi in
  (r2d ra_out, r2d dec_out).

(* the `if dorot:` branch: cap around (90, 0), rotated to the centre by two calls of rotate *)
Definition randcap_rot (ra dec rad u upsi : R) : R * R * R :=
  let tra := 90 in
  let tdec := 0 in
  let '(rand_ra, rand_dec, rand_r) := randcap_unrot 90 0 rad u upsi in
  let '(rand_ra, rand_dec) := rotate_R 0 (dec - tdec) 0 rand_ra rand_dec in
  let '(rand_ra, rand_dec) := rotate_R (ra - tra) 0 0 rand_ra rand_dec in
  (rand_ra, rand_dec, rand_r).

Definition polar (dec : R) : bool :=
  if Rle_dec pole_thr dec then true else if Rle_dec dec (- pole_thr) then true else false.

(* randcap(1, ra, dec, rad, get_radius=True, dorot=dorot, rng) *)
Definition randcap_R (dorot : bool) (ra dec rad u upsi : R) : R * R * R :=
  if (dorot || polar dec)%bool then randcap_rot ra dec rad u upsi
  else randcap_unrot ra dec rad u upsi.

(* The rotated branch as it was BEFORE the repair (coords.py 1114-1125, 1174-1176 of the
   unchanged tree): the radii came back from the recursive call in degrees and the final
   np.rad2deg was applied to them again.  Kept only for the refutation theorem. *)
Definition randcap_rot_unrepaired (ra dec rad u upsi : R) : R * R * R :=
  let '(rand_ra, rand_dec, rand_r) := randcap_rot ra dec rad u upsi in
  (rand_ra, rand_dec, r2d rand_r).

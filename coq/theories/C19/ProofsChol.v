(* C19 -- the Cholesky factor of the model: whenever the pivots are positive (numpy returns),
   cholR A n is lower triangular with positive diagonal and (cholR A n)(cholR A n)^T = A on the
   n x n block; and it is the ONLY such matrix, so the contract monitored on numpy's answer
   determines that answer. *)
From Coq Require Import Reals Lra Lia.
From EsVerif.C19 Require Import ModelChol.
Open Scope R_scope.

(* ---------------------------------------------------------------- finite sums *)
Lemma bigsum_ext f g n : (forall k, (k < n)%nat -> f k = g k) -> bigsum f n = bigsum g n.
Proof.
  induction n as [|n IH]; intro H; [reflexivity|]. cbn [bigsum]. rewrite IH by (intros k Hk; apply H; lia).
  rewrite (H n) by lia. reflexivity.
Qed.

Lemma bigsum_zero_tail f m n : (m <= n)%nat -> (forall k, (m <= k < n)%nat -> f k = 0) -> bigsum f n = bigsum f m.
Proof.
  intros Hle H. induction n as [|n IH].
  - replace m with 0%nat by lia. reflexivity.
  - destruct (Nat.eq_dec m (S n)) as [E|N]; [subst m; reflexivity|].
    cbn [bigsum]. rewrite (H n) by lia. rewrite IH by (try lia; intros k Hk; apply H; lia). ring.
Qed.

(* ---------------------------------------------------------------- shape of the columns *)
Lemma cols_beyond A j i c : (j <= c)%nat -> chol_cols A j i c = 0.
Proof.
  revert c. induction j as [|j IH]; intros c H; [reflexivity|]. cbn [chol_cols]. unfold chol_step.
  replace (c =? j)%nat with false by (symmetry; apply Nat.eqb_neq; lia). apply IH. lia.
Qed.

Lemma cols_stable A j i c : (c < j)%nat -> chol_cols A j i c = chol_cols A (S c) i c.
Proof.
  induction j as [|j IH]; intro H; [lia|].
  destruct (Nat.eq_dec c j) as [E|N]; [subst c; reflexivity|].
  cbn [chol_cols]. unfold chol_step at 1.
  replace (c =? j)%nat with false by (symmetry; apply Nat.eqb_neq; exact N). apply IH. lia.
Qed.

Lemma col_entry A c i :
  chol_cols A (S c) i c =
  if (i <? c)%nat then 0
  else if (i =? c)%nat then sqrt (chol_pivot A (chol_cols A c) c)
  else (A i c - bigsum (fun k => chol_cols A c i k * chol_cols A c c k) c) / sqrt (chol_pivot A (chol_cols A c) c).
Proof. cbn [chol_cols]. unfold chol_step. rewrite Nat.eqb_refl. reflexivity. Qed.

Lemma chol_upper_zero A n i k : (i < k)%nat -> cholR A n i k = 0.
Proof.
  intro H. unfold cholR. destruct (le_lt_dec n k) as [Hn|Hn]; [apply cols_beyond; exact Hn|].
  rewrite cols_stable by exact Hn. rewrite col_entry.
  replace (i <? k)%nat with true by (symmetry; apply Nat.ltb_lt; exact H). reflexivity.
Qed.

(* the partial sums the algorithm uses are partial sums of the final factor *)
Lemma partial_is_final A n c i j : (c <= n)%nat ->
  bigsum (fun k => chol_cols A c i k * chol_cols A c j k) c = bigsum (fun k => cholR A n i k * cholR A n j k) c.
Proof.
  intro H. apply bigsum_ext. intros k Hk. unfold cholR.
  rewrite (cols_stable A c i k), (cols_stable A c j k), (cols_stable A n i k), (cols_stable A n j k) by lia. reflexivity.
Qed.

Lemma pivot_is_final A n c : (c <= n)%nat ->
  chol_pivot A (chol_cols A c) c = A c c - bigsum (fun k => cholR A n c k * cholR A n c k) c.
Proof. intro H. unfold chol_pivot. rewrite (partial_is_final A n c c c H). reflexivity. Qed.

Lemma chol_diag A n c : (c < n)%nat -> cholR A n c c = sqrt (chol_pivot A (chol_cols A c) c).
Proof.
  intro H. unfold cholR. rewrite cols_stable by exact H. rewrite col_entry.
  rewrite Nat.ltb_irrefl, Nat.eqb_refl. reflexivity.
Qed.

Lemma chol_below A n c i : (c < n)%nat -> (c < i)%nat ->
  cholR A n i c = (A i c - bigsum (fun k => cholR A n i k * cholR A n c k) c) / cholR A n c c.
Proof.
  intros H Hi. rewrite (chol_diag A n c H). unfold cholR at 1. rewrite cols_stable by exact H. rewrite col_entry.
  replace (i <? c)%nat with false by (symmetry; apply Nat.ltb_ge; lia).
  replace (i =? c)%nat with false by (symmetry; apply Nat.eqb_neq; lia).
  rewrite (partial_is_final A n c i c) by lia. reflexivity.
Qed.

(* (L L^T)[i][c] for c <= i only involves columns <= c *)
Lemma mmt_split L n i c : (c < n)%nat -> (forall a k, (a < k)%nat -> L a k = 0) ->
  mmtR L n i c = bigsum (fun k => L i k * L c k) c + L i c * L c c.
Proof.
  intros H U. unfold mmtR. rewrite (bigsum_zero_tail _ (S c) n) by (try lia; intros k Hk; rewrite (U c k) by lia; ring).
  reflexivity.
Qed.

Theorem cholR_correct A n : symmetric A n -> pivots_pos A n -> is_cholesky_factor A (cholR A n) n.
Proof.
  intros Sym Piv. split; [|split].
  - intros i k H _. apply chol_upper_zero. exact H.
  - intros j Hj. rewrite chol_diag by exact Hj. apply sqrt_lt_R0. apply Piv. exact Hj.
  - assert (Low : forall i c, (c < n)%nat -> (c <= i)%nat -> mmtR (cholR A n) n i c = A i c).
    { intros i c Hc Hic. rewrite mmt_split by (try exact Hc; intros a k Hak; apply chol_upper_zero; exact Hak).
      pose proof (Piv c Hc) as P.
      destruct (Nat.eq_dec i c) as [E|N].
      - subst i. rewrite (chol_diag A n c Hc). rewrite sqrt_sqrt by lra. rewrite (pivot_is_final A n c) by lia. ring.
      - rewrite (chol_below A n c i Hc) by lia.
        assert (D : cholR A n c c <> 0). { rewrite chol_diag by exact Hc. apply Rgt_not_eq. apply sqrt_lt_R0. exact P. }
        field. exact D. }
    intros i j Hi Hj. destruct (le_lt_dec j i) as [H|H]; [apply Low; assumption|].
    unfold mmtR. rewrite (bigsum_ext _ (fun k => cholR A n j k * cholR A n i k)) by (intros; ring).
    rewrite Sym by assumption. apply (Low j i); [exact Hi|lia].
Qed.

(* ---------------------------------------------------------------- uniqueness *)
Lemma sqrt_unique_pos x y : 0 < y -> y * y = x -> y = sqrt x.
Proof. intros Hy E. subst x. symmetry. apply sqrt_square. lra. Qed.

Theorem cholesky_factor_unique A n L : pivots_pos A n -> is_cholesky_factor A L n ->
  forall i c, (i < n)%nat -> (c < n)%nat -> L i c = cholR A n i c.
Proof.
  intros Piv [U [D M]].
  (* strong induction on the column *)
  assert (Col : forall c, (c < n)%nat -> forall i, (i < n)%nat -> L i c = cholR A n i c).
  { intro c. induction c as [c IH] using lt_wf_ind. intros Hc i Hi.
    destruct (lt_dec i c) as [Hlt|Hge]; [rewrite (U i c Hlt Hc), chol_upper_zero by exact Hlt; reflexivity|].
    assert (Sums : forall a, (a < n)%nat -> bigsum (fun k => L a k * L c k) c = bigsum (fun k => cholR A n a k * cholR A n c k) c).
    { intros a Ha. apply bigsum_ext. intros k Hk. rewrite (IH k Hk ltac:(lia) a Ha), (IH k Hk ltac:(lia) c Hc). reflexivity. }
    assert (Split : forall a, (a < n)%nat -> (c <= a)%nat -> bigsum (fun k => L a k * L c k) c + L a c * L c c = A a c).
    { intros a Ha Hca. rewrite <- (M a c Ha Hc). unfold mmtR.
      rewrite (bigsum_zero_tail _ (S c) n) by (try lia; intros k Hk; rewrite (U c k) by lia; ring). reflexivity. }
    (* the diagonal entry first *)
    assert (Dc : L c c = cholR A n c c).
    { rewrite chol_diag by exact Hc. apply sqrt_unique_pos; [apply D; exact Hc|].
      rewrite (pivot_is_final A n c) by lia. rewrite <- (Sums c Hc). pose proof (Split c Hc ltac:(lia)). lra. }
    destruct (Nat.eq_dec i c) as [E|N]; [subst i; exact Dc|].
    rewrite (chol_below A n c i Hc) by lia. rewrite <- (Sums i Hi), <- Dc.
    pose proof (Split i Hi ltac:(lia)) as S. pose proof (D c Hc) as Dp.
    apply Rmult_eq_reg_r with (L c c); [|lra]. unfold Rdiv. rewrite Rmult_assoc, Rinv_l by lra. lra. }
  intros i c Hi Hc. apply Col; assumption.
Qed.

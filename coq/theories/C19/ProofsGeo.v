(* C19 -- proofs of the geometric part (style R). *)
From Coq Require Import Reals Lra Nsatz.
From EsVerif.C19 Require Import Model Spec.
Open Scope R_scope.

(* ---------------------------------------------------------------- arctan2 *)

Lemma sqrt_sq_pos x y : 0 < x -> sqrt (x * x + y * y) = x * sqrt (1 + (y / x)²).
Proof.
  intro Hx. replace (x * x + y * y) with ((x * x) * (1 + (y / x)²)) by (unfold Rsqr; field; lra).
  rewrite sqrt_mult_alt by nra. rewrite sqrt_square by lra. reflexivity.
Qed.

Lemma sqrt_1t_pos t : 0 < sqrt (1 + t²).
Proof. apply sqrt_lt_R0. unfold Rsqr. nra. Qed.

Lemma atan2_cos y x : cos (atan2 y x) * sqrt (x * x + y * y) = x.
Proof.
  unfold atan2. destruct (Rlt_dec 0 x) as [Hx|Hx].
  - rewrite cos_atan, sqrt_sq_pos by assumption. pose proof (sqrt_1t_pos (y / x)). field. lra.
  - destruct (Rlt_dec x 0) as [Hx'|Hx'].
    + assert (E : sqrt (x * x + y * y) = - x * sqrt (1 + (y / x)²)).
      { replace (x * x + y * y) with ((- x) * (- x) + y * y) by ring.
        rewrite sqrt_sq_pos by lra. f_equal. f_equal. f_equal. unfold Rsqr. field. lra. }
      pose proof (sqrt_1t_pos (y / x)).
      destruct (Rle_dec 0 y).
      * rewrite neg_cos, cos_atan, E. field. lra.
      * unfold Rminus. rewrite <- (cos_period _ 1). simpl INR.
        replace (atan (y / x) + - PI + 2 * 1 * PI) with (atan (y / x) + PI) by ring.
        rewrite neg_cos, cos_atan, E. field. lra.
    + assert (x = 0) by lra. subst x.
      destruct (Rlt_dec 0 y); [rewrite cos_PI2; ring|].
      destruct (Rlt_dec y 0); [rewrite cos_neg, cos_PI2; ring|].
      assert (y = 0) by lra. subst y. replace (0 * 0 + 0 * 0) with 0 by ring. rewrite sqrt_0. ring.
Qed.

Lemma atan2_sin y x : sin (atan2 y x) * sqrt (x * x + y * y) = y.
Proof.
  unfold atan2. destruct (Rlt_dec 0 x) as [Hx|Hx].
  - rewrite sin_atan, sqrt_sq_pos by assumption. pose proof (sqrt_1t_pos (y / x)). field. lra.
  - destruct (Rlt_dec x 0) as [Hx'|Hx'].
    + assert (E : sqrt (x * x + y * y) = - x * sqrt (1 + (y / x)²)).
      { replace (x * x + y * y) with ((- x) * (- x) + y * y) by ring.
        rewrite sqrt_sq_pos by lra. f_equal. f_equal. f_equal. unfold Rsqr. field. lra. }
      pose proof (sqrt_1t_pos (y / x)).
      destruct (Rle_dec 0 y).
      * rewrite neg_sin, sin_atan, E. field. lra.
      * unfold Rminus. rewrite <- (sin_period _ 1). simpl INR.
        replace (atan (y / x) + - PI + 2 * 1 * PI) with (atan (y / x) + PI) by ring.
        rewrite neg_sin, sin_atan, E. field. lra.
    + assert (x = 0) by lra. subst x.
      destruct (Rlt_dec 0 y).
      { rewrite sin_PI2. replace (0 * 0 + y * y) with (y * y) by ring. rewrite sqrt_square; lra. }
      destruct (Rlt_dec y 0).
      { rewrite sin_neg, sin_PI2. replace (0 * 0 + y * y) with ((- y) * (- y)) by ring. rewrite sqrt_square; lra. }
      assert (y = 0) by lra. subst y. rewrite sin_0. ring.
Qed.

(* ranges *)
Lemma atan2_bound y x : - PI < atan2 y x <= PI.
Proof.
  pose proof PI_RGT_0. unfold atan2.
  destruct (Rlt_dec 0 x). { pose proof (atan_bound (y / x)). lra. }
  destruct (Rlt_dec x 0).
  - destruct (Rle_dec 0 y).
    + assert (Hq : y / x <= 0). { unfold Rdiv. assert (/ x < 0) by (apply Rinv_lt_0_compat; lra). nra. }
      pose proof (atan_bound (y / x)).
      assert (atan (y / x) <= 0). { destruct Hq as [Hq|Hq]. - left. rewrite <- atan_0. apply atan_increasing. lra. - rewrite Hq, atan_0. lra. }
      lra.
    + assert (0 < y / x). { unfold Rdiv. assert (/ x < 0) by (apply Rinv_lt_0_compat; lra). nra. }
      pose proof (atan_bound (y / x)).
      assert (0 < atan (y / x)). { rewrite <- atan_0. apply atan_increasing. lra. }
      lra.
  - destruct (Rlt_dec 0 y); [lra|]. destruct (Rlt_dec y 0); lra.
Qed.

Lemma atan2_nonneg y x : 0 <= y -> 0 <= atan2 y x <= PI.
Proof.
  intro Hy. pose proof PI_RGT_0. pose proof (atan2_bound y x). split; [|lra].
  unfold atan2. destruct (Rlt_dec 0 x).
  - assert (Hq : 0 <= y / x). { unfold Rdiv. assert (0 < / x) by (apply Rinv_0_lt_compat; lra). nra. }
    destruct Hq as [Hq|Hq]. + left. rewrite <- atan_0. apply atan_increasing. lra. + rewrite <- Hq, atan_0. lra.
  - destruct (Rlt_dec x 0).
    + destruct (Rle_dec 0 y); [|lra]. pose proof (atan_bound (y / x)). lra.
    + destruct (Rlt_dec 0 y); [lra|]. destruct (Rlt_dec y 0); lra.
Qed.

Lemma atan2_right y x : 0 <= x -> - (PI / 2) <= atan2 y x <= PI / 2.
Proof.
  intro Hx. pose proof PI_RGT_0. unfold atan2. destruct (Rlt_dec 0 x).
  - pose proof (atan_bound (y / x)). lra.
  - destruct (Rlt_dec x 0); [lra|]. destruct (Rlt_dec 0 y); [lra|]. destruct (Rlt_dec y 0); lra.
Qed.

(* ---------------------------------------------------------------- units, periodicity *)
Lemma d2r_r2d x : d2r (r2d x) = x.
Proof. unfold d2r, r2d. pose proof PI_RGT_0. field. lra. Qed.
Lemma r2d_d2r x : r2d (d2r x) = x.
Proof. unfold d2r, r2d. pose proof PI_RGT_0. field. lra. Qed.
Lemma r2d_le x y : x <= y -> r2d x <= r2d y.
Proof.
  intro H. unfold r2d. pose proof PI_RGT_0.
  assert (0 < 180 / PI) by (apply Rdiv_lt_0_compat; lra). nra.
Qed.
Lemma d2r_le x y : x <= y -> d2r x <= d2r y.
Proof.
  intro H. unfold d2r. pose proof PI_RGT_0.
  assert (0 < PI / 180) by (apply Rdiv_lt_0_compat; lra). nra.
Qed.
Lemma d2r_180 : d2r 180 = PI.
Proof. unfold d2r. field. Qed.
Lemma d2r_plus x y : d2r (x + y) = d2r x + d2r y.
Proof. unfold d2r. ring. Qed.
Lemma d2r_90 : d2r 90 = PI / 2.
Proof. unfold d2r. field. Qed.

Lemma cos_2kPI x (k : Z) : cos (x + IZR k * (2 * PI)) = cos x.
Proof.
  destruct k as [|p|p].
  - f_equal. simpl. ring.
  - rewrite <- (cos_period x (Pos.to_nat p)). f_equal. rewrite INR_IZR_INZ, positive_nat_Z. ring.
  - rewrite <- (cos_period (x + IZR (Z.neg p) * (2 * PI)) (Pos.to_nat p)). f_equal.
    rewrite INR_IZR_INZ, positive_nat_Z. change (Z.neg p) with (- Z.pos p)%Z. rewrite opp_IZR. ring.
Qed.
Lemma sin_2kPI x (k : Z) : sin (x + IZR k * (2 * PI)) = sin x.
Proof.
  destruct k as [|p|p].
  - f_equal. simpl. ring.
  - rewrite <- (sin_period x (Pos.to_nat p)). f_equal. rewrite INR_IZR_INZ, positive_nat_Z. ring.
  - rewrite <- (sin_period (x + IZR (Z.neg p) * (2 * PI)) (Pos.to_nat p)). f_equal.
    rewrite INR_IZR_INZ, positive_nat_Z. change (Z.neg p) with (- Z.pos p)%Z. rewrite opp_IZR. ring.
Qed.

Lemma pymod_eq x m : pymod x m = x + IZR (- Int_part (x / m)) * m.
Proof. unfold pymod. rewrite opp_IZR. ring. Qed.

Lemma pymod_bound x m : 0 < m -> 0 <= pymod x m < m.
Proof.
  intro Hm. unfold pymod. destruct (base_Int_part (x / m)) as [H1 H2].
  set (k := IZR (Int_part (x / m))) in *.
  assert (E : x = (x / m) * m) by (field; lra).
  split.
  - assert (k * m <= x / m * m) by (apply Rmult_le_compat_r; lra). lra.
  - assert (x / m * m < (k + 1) * m) by (apply Rmult_lt_compat_r; lra). lra.
Qed.

(* the two loops of atbound run at most once each on [-360, 720] and land in [0, 360] *)
Lemma atbound_once lon : -360 <= lon <= 720 -> 0 <= atbound lon <= 360.
Proof.
  intro H. unfold atbound. destruct (Rlt_dec lon 0); destruct (Rlt_dec 360 _); lra.
Qed.
Lemma atbound_shift lon : exists k : Z, atbound lon = lon + IZR k * 360.
Proof.
  unfold atbound. destruct (Rlt_dec lon 0); destruct (Rlt_dec 360 _).
  - exists 0%Z. simpl. lra.
  - exists 1%Z. simpl. lra.
  - exists (-1)%Z. simpl. lra.
  - exists 0%Z. simpl. lra.
Qed.

(* ---------------------------------------------------------------- unit vectors, separation *)
Lemma s2c2 x : sin x * sin x + cos x * cos x = 1.
Proof. pose proof (sin2_cos2 x) as H. unfold Rsqr in H. exact H. Qed.

Lemma eq2xyz_unit ra dec : dot (eq2xyz ra dec) (eq2xyz ra dec) = 1.
Proof.
  unfold dot, eq2xyz, thetaphi2xyz. pose proof (s2c2 (d2r ra)). pose proof (s2c2 (d2r dec)). nsatz.
Qed.

Lemma dot_expand ra1 dec1 ra2 dec2 :
  dot (eq2xyz ra1 dec1) (eq2xyz ra2 dec2)
  = cos (d2r dec1) * cos (d2r dec2) * cos (d2r (ra2 - ra1)) + sin (d2r dec1) * sin (d2r dec2).
Proof.
  unfold dot, eq2xyz, thetaphi2xyz. replace (d2r (ra2 - ra1)) with (d2r ra2 - d2r ra1) by (unfold d2r; ring).
  rewrite cos_minus. ring.
Qed.

Lemma sin2_half x : (sin (x / 2))² = (1 - cos x) / 2.
Proof. replace x with (2 * (x / 2)) at 2 by field. rewrite cos_2a_sin. unfold Rsqr. field. Qed.

(* haversine: hav = (1 - cos sep) / 2 *)
Lemma hav_dot ra1 dec1 ra2 dec2 :
  hav ra1 dec1 ra2 dec2 = (1 - dot (eq2xyz ra1 dec1) (eq2xyz ra2 dec2)) / 2.
Proof.
  rewrite dot_expand. unfold hav. rewrite !sin2_half.
  replace (d2r (dec2 - dec1)) with (d2r dec2 - d2r dec1) by (unfold d2r; ring).
  rewrite cos_minus. field.
Qed.

Lemma dot_bound ra1 dec1 ra2 dec2 : -1 <= dot (eq2xyz ra1 dec1) (eq2xyz ra2 dec2) <= 1.
Proof.
  pose proof (eq2xyz_unit ra1 dec1) as H1. pose proof (eq2xyz_unit ra2 dec2) as H2.
  destruct (eq2xyz ra1 dec1) as [[a1 a2] a3]. destruct (eq2xyz ra2 dec2) as [[b1 b2] b3].
  unfold dot in *.
  pose proof (Rle_0_sqr (a1 + b1)). pose proof (Rle_0_sqr (a2 + b2)). pose proof (Rle_0_sqr (a3 + b3)).
  pose proof (Rle_0_sqr (a1 - b1)). pose proof (Rle_0_sqr (a2 - b2)). pose proof (Rle_0_sqr (a3 - b3)).
  unfold Rsqr in *. split; lra.
Qed.

Lemma sep_deg_bound ra1 dec1 ra2 dec2 : 0 <= sep_deg ra1 dec1 ra2 dec2 <= 180.
Proof.
  unfold sep_deg. pose proof (acos_bound (dot (eq2xyz ra1 dec1) (eq2xyz ra2 dec2))) as [H1 H2].
  split.
  - replace 0 with (r2d 0) by (unfold r2d; ring). apply r2d_le. exact H1.
  - replace 180 with (r2d PI) by (unfold r2d; field; pose proof PI_RGT_0; lra). apply r2d_le. exact H2.
Qed.

Lemma cos_half_sq rho : cos rho = 1 - 2 * (sin (rho / 2))².
Proof. rewrite sin2_half. field. Qed.

(* certificates: an upper/lower bound on the haversine is a bound on the separation *)
Lemma sep_le_by_hav ra1 dec1 ra2 dec2 R :
  0 <= R <= 180 -> hav ra1 dec1 ra2 dec2 <= (sin (d2r R / 2))² -> sep_deg ra1 dec1 ra2 dec2 <= R.
Proof.
  intros HR Hh. rewrite hav_dot in Hh. unfold sep_deg.
  set (c := dot _ _) in *. pose proof (dot_bound ra1 dec1 ra2 dec2) as Hc. fold c in Hc.
  rewrite <- (r2d_d2r R). apply r2d_le.
  assert (Hrho : 0 <= d2r R <= PI).
  { rewrite <- d2r_180. replace 0 with (d2r 0) by (unfold d2r; ring). split; apply d2r_le; lra. }
  pose proof (acos_bound c) as Ha.
  apply cos_decr_0; try lra. rewrite cos_acos by lra. rewrite (cos_half_sq (d2r R)). lra.
Qed.

Lemma sep_ge_by_hav ra1 dec1 ra2 dec2 R :
  0 <= R <= 180 -> (sin (d2r R / 2))² <= hav ra1 dec1 ra2 dec2 -> R <= sep_deg ra1 dec1 ra2 dec2.
Proof.
  intros HR Hh. rewrite hav_dot in Hh. unfold sep_deg.
  set (c := dot _ _) in *. pose proof (dot_bound ra1 dec1 ra2 dec2) as Hc. fold c in Hc.
  rewrite <- (r2d_d2r R) at 1. apply r2d_le.
  assert (Hrho : 0 <= d2r R <= PI).
  { rewrite <- d2r_180. replace 0 with (d2r 0) by (unfold d2r; ring). split; apply d2r_le; lra. }
  pose proof (acos_bound c) as Ha.
  apply cos_decr_0; try lra. rewrite cos_acos by lra. rewrite (cos_half_sq (d2r R)). lra.
Qed.

(* ---------------------------------------------------------------- randcap, unrotated branch *)

(* closed form of the unit vector of the point the unrotated branch returns *)
Definition cap_vec (ra dec rad u upsi : R) : vec3 :=
  let r := d2r (sqrt u * rad) in
  let psi := uniform 0 (2 * PI) upsi in
  let theta := d2r (dec + 90) in
  let phi := d2r ra in
  let ct2 := cos theta * cos r + sin theta * sin r * cos psi in
  let x := sin theta * cos r - cos theta * sin r * cos psi in
  let y := sin r * sin psi in
  (x * cos phi + y * sin phi, x * sin phi - y * cos phi, - ct2).

Lemma sqrt_sq_sum x y : sqrt (x * x + y * y) * sqrt (x * x + y * y) = x * x + y * y.
Proof. apply sqrt_sqrt. nra. Qed.

(* atan2 of the two legs of a unit vector recovers cosine and sine *)
Lemma atan2_unit_cos s c : 0 <= s -> c * c + s * s = 1 -> cos (atan2 s c) = c.
Proof. intros _ H. pose proof (atan2_cos s c) as E. rewrite H, sqrt_1 in E. lra. Qed.
Lemma atan2_unit_sin s c : 0 <= s -> c * c + s * s = 1 -> sin (atan2 s c) = s.
Proof. intros _ H. pose proof (atan2_sin s c) as E. rewrite H, sqrt_1 in E. lra. Qed.

Lemma cos_d2r_atbound x : cos (d2r (atbound x)) = cos (d2r x).
Proof.
  destruct (atbound_shift x) as [k E]. rewrite E.
  replace (d2r (x + IZR k * 360)) with (d2r x + IZR k * (2 * PI)) by (unfold d2r; field).
  apply cos_2kPI.
Qed.
Lemma sin_d2r_atbound x : sin (d2r (atbound x)) = sin (d2r x).
Proof.
  destruct (atbound_shift x) as [k E]. rewrite E.
  replace (d2r (x + IZR k * 360)) with (d2r x + IZR k * (2 * PI)) by (unfold d2r; field).
  apply sin_2kPI.
Qed.

Lemma randcap_unrot_vec ra dec rad u upsi :
  let '(ra2, dec2, _) := randcap_unrot ra dec rad u upsi in
  eq2xyz ra2 dec2 = cap_vec ra dec rad u upsi.
Proof.
  unfold randcap_unrot, cap_vec, eq2xyz, thetaphi2xyz. cbv zeta beta iota.
  set (r := d2r (sqrt u * rad)). set (psi := uniform 0 (2 * PI) upsi).
  set (theta := d2r (dec + 90)). set (phi := d2r ra).
  set (ct2 := cos theta * cos r + sin theta * sin r * cos psi).
  set (x := sin theta * cos r - cos theta * sin r * cos psi).
  set (y := sin r * sin psi).
  set (s := sqrt (x * x + y * y)).
  assert (Hs0 : 0 <= s) by apply sqrt_pos.
  assert (Hss : s * s = x * x + y * y) by apply sqrt_sq_sum.
  assert (Hn : ct2 * ct2 + s * s = 1).
  { rewrite Hss. unfold ct2, x, y.
    pose proof (s2c2 theta). pose proof (s2c2 r). pose proof (s2c2 psi). nsatz. }
  assert (Hc2 : cos (atan2 s ct2) = ct2) by (apply atan2_unit_cos; assumption).
  assert (Hs2 : sin (atan2 s ct2) = s) by (apply atan2_unit_sin; assumption).
  assert (HDc : cos (atan2 y x) * s = x) by apply atan2_cos.
  assert (HDs : sin (atan2 y x) * s = y) by apply atan2_sin.
  rewrite cos_d2r_atbound, sin_d2r_atbound, !d2r_r2d.
  replace (d2r (r2d (atan2 s ct2) - 90)) with (atan2 s ct2 - PI / 2)
    by (unfold Rminus; rewrite d2r_plus, d2r_r2d; unfold d2r; field).
  rewrite (cos_minus (atan2 s ct2)), (sin_minus (atan2 s ct2)), cos_PI2, sin_PI2, Hc2, Hs2.
  rewrite (cos_minus phi), (sin_minus phi).
  set (cD := cos (atan2 y x)) in *. set (sD := sin (atan2 y x)) in *.
  f_equal; [f_equal|].
  - transitivity (cos phi * (cD * s) + sin phi * (sD * s)); [ring|]. rewrite HDc, HDs. ring.
  - transitivity (sin phi * (cD * s) - cos phi * (sD * s)); [ring|]. rewrite HDc, HDs. ring.
  - ring.
Qed.

Lemma centre_vec ra dec :
  eq2xyz ra dec = (cos (d2r ra) * sin (d2r (dec + 90)), sin (d2r ra) * sin (d2r (dec + 90)), - cos (d2r (dec + 90))).
Proof.
  unfold eq2xyz, thetaphi2xyz. rewrite d2r_plus, d2r_90.
  rewrite sin_plus, cos_plus, cos_PI2, sin_PI2. f_equal; [f_equal|]; ring.
Qed.

(* spherical law of cosines: the point lies at angular distance r = sqrt(u) * rad *)
Lemma cap_vec_dot ra dec rad u upsi :
  dot (eq2xyz ra dec) (cap_vec ra dec rad u upsi) = cos (d2r (sqrt u * rad)).
Proof.
  rewrite centre_vec. unfold cap_vec, dot. cbv zeta beta iota.
  set (r := d2r (sqrt u * rad)). set (psi := uniform 0 (2 * PI) upsi).
  set (theta := d2r (dec + 90)). set (phi := d2r ra).
  pose proof (s2c2 theta). pose proof (s2c2 phi). nsatz.
Qed.

Lemma cap_radius_range rad u : 0 <= u <= 1 -> 0 <= rad <= 180 -> 0 <= sqrt u * rad <= rad.
Proof.
  intros Hu Hr. assert (0 <= sqrt u) by apply sqrt_pos.
  assert (sqrt u <= 1) by (rewrite <- sqrt_1; apply sqrt_le_1; lra). nra.
Qed.

Lemma sep_of_dot ra1 dec1 ra2 dec2 R :
  0 <= R <= 180 -> dot (eq2xyz ra1 dec1) (eq2xyz ra2 dec2) = cos (d2r R) -> sep_deg ra1 dec1 ra2 dec2 = R.
Proof.
  intros HR E. unfold sep_deg. rewrite E, acos_cos, r2d_d2r; [reflexivity|].
  rewrite <- d2r_180. replace 0 with (d2r 0) by (unfold d2r; ring). split; apply d2r_le; lra.
Qed.

Lemma cap_distance_unrot ra dec rad u upsi :
  unit_dev u -> 0 <= rad <= 180 ->
  let '(ra2, dec2, r) := randcap_unrot ra dec rad u upsi in
  sep_deg ra dec ra2 dec2 = sqrt u * rad /\ r = sqrt u * rad.
Proof.
  intros Hu Hr. pose proof (randcap_unrot_vec ra dec rad u upsi) as V.
  pose proof (cap_radius_range rad u Hu Hr) as Hrr.
  destruct (randcap_unrot ra dec rad u upsi) as [[ra2 dec2] r] eqn:E.
  split.
  - apply sep_of_dot; [lra|]. rewrite V. apply cap_vec_dot.
  - unfold randcap_unrot in E. inversion E. apply r2d_d2r.
Qed.

Lemma on_sky_unrot ra dec rad u upsi :
  0 <= ra <= 360 ->
  let '(ra2, dec2, _) := randcap_unrot ra dec rad u upsi in on_sky (ra2, dec2).
Proof.
  intro Hra. unfold randcap_unrot, on_sky. cbv zeta beta iota. simpl fst; simpl snd. pose proof PI_RGT_0 as Hpi.
  split.
  - apply atbound_once.
    match goal with |- context [atan2 ?y ?x] => pose proof (atan2_bound y x) as HD; set (D := atan2 y x) in * end.
    assert (H0 : 0 <= d2r ra <= 2 * PI).
    { replace (2 * PI) with (d2r 360) by (unfold d2r; field).
      replace 0 with (d2r 0) by (unfold d2r; ring). split; apply d2r_le; lra. }
    assert (H1 : r2d (- PI) <= r2d (d2r ra - D) <= r2d (3 * PI)) by (split; apply r2d_le; lra).
    replace (r2d (- PI)) with (-180) in H1 by (unfold r2d; field; lra).
    replace (r2d (3 * PI)) with 540 in H1 by (unfold r2d; field; lra). lra.
  - match goal with |- context [atan2 (sqrt ?a) ?c] => pose proof (atan2_nonneg (sqrt a) c (sqrt_pos a)) as HT; set (T := atan2 (sqrt a) c) in * end.
    assert (H1 : r2d 0 <= r2d T <= r2d PI) by (split; apply r2d_le; lra).
    replace (r2d 0) with 0 in H1 by (unfold r2d; ring).
    replace (r2d PI) with 180 in H1 by (unfold r2d; field; lra). lra.
Qed.

(* ---------------------------------------------------------------- rotate *)

(* the linear map rotate() applies to unit vectors (angles as passed to rotate, in degrees) *)
Definition rot_lin (phi theta psi : R) (v : vec3) : vec3 :=
  let p := d2r (- phi) in let t := d2r (- theta) in let s := d2r (- psi) in
  let '(v1, v2, v3) := v in
  let w1 := v1 * cos p + v2 * sin p in
  let w2 := - v1 * sin p + v2 * cos p in
  let x := w1 in
  let y := cos t * w2 + sin t * v3 in
  let z := - sin t * w2 + cos t * v3 in
  (x * cos s - y * sin s, x * sin s + y * cos s, z).

Lemma rotate_vec phi theta psi ra dec :
  let '(ra', dec') := rotate_R phi theta psi ra dec in
  eq2xyz ra' dec' = rot_lin phi theta psi (eq2xyz ra dec).
Proof.
  unfold rotate_R, rot_lin, eq2xyz, thetaphi2xyz. cbv zeta beta iota.
  set (p := d2r (- phi)). set (t := d2r (- theta)). set (s := d2r (- psi)).
  set (al := d2r ra). set (b := d2r dec).
  set (x := cos b * cos (al - p)).
  set (y := cos t * (cos b * sin (al - p)) + sin t * sin b).
  set (z := - sin t * (cos b * sin (al - p)) + cos t * sin b).
  set (S := sqrt (x * x + y * y)).
  assert (HS0 : 0 <= S) by apply sqrt_pos.
  assert (HSS : S * S = x * x + y * y) by apply sqrt_sq_sum.
  assert (Hn : S * S + z * z = 1).
  { rewrite HSS. unfold x, y, z.
    pose proof (s2c2 t). pose proof (s2c2 b). pose proof (s2c2 (al - p)). nsatz. }
  assert (Hcd : cos (atan2 z S) = S).
  { pose proof (atan2_cos z S) as E. rewrite Hn, sqrt_1 in E. lra. }
  assert (Hsd : sin (atan2 z S) = z).
  { pose proof (atan2_sin z S) as E. rewrite Hn, sqrt_1 in E. lra. }
  assert (Hca : cos (atan2 y x) * S = x) by apply atan2_cos.
  assert (Hsa : sin (atan2 y x) * S = y) by apply atan2_sin.
  rewrite !d2r_r2d, pymod_eq.
  replace (IZR (- Int_part ((atan2 y x + s + 4 * PI) / (2 * PI))) * (2 * PI))
    with (IZR (- Int_part ((atan2 y x + s + 4 * PI) / (2 * PI))) * (2 * PI)) by reflexivity.
  set (k := (- Int_part ((atan2 y x + s + 4 * PI) / (2 * PI)))%Z).
  replace (atan2 y x + s + 4 * PI + IZR k * (2 * PI)) with (atan2 y x + s + IZR (k + 2) * (2 * PI))
    by (rewrite plus_IZR; ring).
  rewrite cos_2kPI, sin_2kPI, Hcd, Hsd, cos_plus, sin_plus.
  assert (Ex : x = cos al * cos b * cos p + sin al * cos b * sin p).
  { unfold x. rewrite cos_minus. ring. }
  assert (Ew : cos b * sin (al - p) = - (cos al * cos b) * sin p + sin al * cos b * cos p).
  { rewrite sin_minus. ring. }
  f_equal; [f_equal|].
  - transitivity (cos (atan2 y x) * S * cos s - sin (atan2 y x) * S * sin s); [ring|].
    rewrite Hca, Hsa. unfold y. rewrite Ew, Ex. ring.
  - transitivity (sin (atan2 y x) * S * cos s + cos (atan2 y x) * S * sin s); [ring|].
    rewrite Hca, Hsa. unfold y. rewrite Ew, Ex. ring.
  - unfold z. rewrite Ew. ring.
Qed.

(* rotate is an isometry of the sphere *)
Lemma rot_lin_dot phi theta psi v w : dot (rot_lin phi theta psi v) (rot_lin phi theta psi w) = dot v w.
Proof.
  destruct v as [[v1 v2] v3]. destruct w as [[w1 w2] w3]. unfold rot_lin, dot. cbv zeta beta iota.
  pose proof (s2c2 (d2r (- phi))). pose proof (s2c2 (d2r (- theta))). pose proof (s2c2 (d2r (- psi))).
  nsatz.
Qed.

(* the two rotations of the polar branch carry the auxiliary centre (90, 0) to (ra, dec) *)
Lemma rot_centre ra dec :
  rot_lin (ra - 90) 0 0 (rot_lin 0 (dec - 0) 0 (eq2xyz 90 0)) = eq2xyz ra dec.
Proof.
  unfold rot_lin, eq2xyz, thetaphi2xyz. cbv zeta beta iota.
  replace (d2r (- 0)) with 0 by (unfold d2r; ring).
  replace (d2r 0) with 0 by (unfold d2r; ring).
  replace (d2r (- (dec - 0))) with (- d2r dec) by (unfold d2r; ring).
  replace (d2r (- (ra - 90))) with (PI / 2 - d2r ra) by (unfold d2r; field).
  rewrite d2r_90, sin_shift, cos_shift, cos_0, sin_0, cos_PI2, sin_PI2, cos_neg, sin_neg.
  f_equal; [f_equal|]; ring.
Qed.

Lemma randcap_rot_vec ra dec rad u upsi :
  let '(ra2, dec2, _) := randcap_rot ra dec rad u upsi in
  eq2xyz ra2 dec2 = rot_lin (ra - 90) 0 0 (rot_lin 0 (dec - 0) 0 (cap_vec 90 0 rad u upsi)).
Proof.
  unfold randcap_rot. pose proof (randcap_unrot_vec 90 0 rad u upsi) as V0.
  destruct (randcap_unrot 90 0 rad u upsi) as [[ra0 dec0] r0].
  pose proof (rotate_vec 0 (dec - 0) 0 ra0 dec0) as V1.
  destruct (rotate_R 0 (dec - 0) 0 ra0 dec0) as [ra1 dec1].
  pose proof (rotate_vec (ra - 90) 0 0 ra1 dec1) as V2.
  destruct (rotate_R (ra - 90) 0 0 ra1 dec1) as [ra2 dec2].
  rewrite V2, V1, V0. reflexivity.
Qed.

(* cap_rot_preserves: the bound of the unrotated formula transfers through the rotations *)
Lemma cap_distance_rot ra dec rad u upsi :
  unit_dev u -> 0 <= rad <= 180 ->
  let '(ra2, dec2, r) := randcap_rot ra dec rad u upsi in
  sep_deg ra dec ra2 dec2 = sqrt u * rad /\ r = sqrt u * rad.
Proof.
  intros Hu Hr. pose proof (randcap_rot_vec ra dec rad u upsi) as V.
  pose proof (cap_radius_range rad u Hu Hr) as Hrr.
  pose proof (cap_distance_unrot 90 0 rad u upsi Hu Hr) as D0.
  unfold randcap_rot in *.
  destruct (randcap_unrot 90 0 rad u upsi) as [[ra0 dec0] r0].
  destruct (rotate_R 0 (dec - 0) 0 ra0 dec0) as [ra1 dec1].
  destruct (rotate_R (ra - 90) 0 0 ra1 dec1) as [ra2 dec2].
  split; [|tauto].
  apply sep_of_dot; [lra|]. rewrite V, <- (rot_centre ra dec), !rot_lin_dot. apply cap_vec_dot.
Qed.

Lemma on_sky_rotate phi theta psi ra dec : on_sky (rotate_R phi theta psi ra dec).
Proof.
  unfold rotate_R, on_sky. cbv zeta beta iota. simpl fst; simpl snd. pose proof PI_RGT_0 as Hpi. split.
  - match goal with |- context [pymod ?a ?m] => pose proof (pymod_bound a m ltac:(lra)) as HB; set (P := pymod a m) in * end.
    assert (H1 : r2d 0 <= r2d P <= r2d (2 * PI)) by (split; apply r2d_le; lra).
    replace (r2d 0) with 0 in H1 by (unfold r2d; ring).
    replace (r2d (2 * PI)) with 360 in H1 by (unfold r2d; field; lra). lra.
  - match goal with |- context [atan2 ?z (sqrt ?a)] => pose proof (atan2_right z (sqrt a) (sqrt_pos a)) as HT; set (T := atan2 z (sqrt a)) in * end.
    assert (H1 : r2d (- (PI / 2)) <= r2d T <= r2d (PI / 2)) by (split; apply r2d_le; lra).
    replace (r2d (- (PI / 2))) with (-90) in H1 by (unfold r2d; field; lra).
    replace (r2d (PI / 2)) with 90 in H1 by (unfold r2d; field; lra). lra.
Qed.

Lemma on_sky_rot ra dec rad u upsi :
  let '(ra2, dec2, _) := randcap_rot ra dec rad u upsi in on_sky (ra2, dec2).
Proof.
  unfold randcap_rot.
  destruct (randcap_unrot 90 0 rad u upsi) as [[ra0 dec0] r0].
  destruct (rotate_R 0 (dec - 0) 0 ra0 dec0) as [ra1 dec1].
  pose proof (on_sky_rotate (ra - 90) 0 0 ra1 dec1) as H.
  destruct (rotate_R (ra - 90) 0 0 ra1 dec1) as [ra2 dec2]. exact H.
Qed.

(* ---------------------------------------------------------------- randcap: both branches *)
Theorem randcap_spec dorot ra dec rad u upsi :
  valid_cap ra dec rad -> unit_dev u ->
  cap_point ra dec rad (randcap_R dorot ra dec rad u upsi)
  /\ (let '(ra2, dec2, _) := randcap_R dorot ra dec rad u upsi in sep_deg ra dec ra2 dec2 = sqrt u * rad).
Proof.
  intros [Hra [Hdec Hrad]] Hu. pose proof (cap_radius_range rad u Hu Hrad) as Hrr.
  unfold randcap_R. destruct (dorot || polar dec)%bool.
  - pose proof (cap_distance_rot ra dec rad u upsi Hu Hrad) as D.
    pose proof (on_sky_rot ra dec rad u upsi) as S.
    destruct (randcap_rot ra dec rad u upsi) as [[ra2 dec2] r]. destruct D as [D1 D2].
    unfold cap_point. repeat split; try apply S; try lra.
  - pose proof (cap_distance_unrot ra dec rad u upsi Hu Hrad) as D.
    pose proof (on_sky_unrot ra dec rad u upsi Hra) as S.
    destruct (randcap_unrot ra dec rad u upsi) as [[ra2 dec2] r]. destruct D as [D1 D2].
    unfold cap_point. repeat split; try apply S; try lra.
Qed.

(* ---------------------------------------------------------------- randsphere *)
Lemma clip_id lo hi x : lo <= x <= hi -> clip lo hi x = x.
Proof. intro H. unfold clip. rewrite Rmax_left by lra. apply Rmin_left. lra. Qed.

Lemma colat_range dec : -90 <= dec <= 90 -> 0 <= d2r (90 + dec) <= PI.
Proof.
  intro H. rewrite <- d2r_180. replace 0 with (d2r 0) by (unfold d2r; ring). split; apply d2r_le; lra.
Qed.

Lemma uniform_between lo hi u : lo <= hi -> 0 <= u <= 1 -> lo <= uniform lo hi u <= hi.
Proof. intros H Hu. unfold uniform. split; nra. Qed.

Lemma uniform_mono lo hi u u' : lo <= hi -> u <= u' -> uniform lo hi u <= uniform lo hi u'.
Proof. intros H Hu. unfold uniform. nra. Qed.

Lemma randsphere_v_range ra0 ra1 dec0 dec1 u2 :
  valid_box ra0 ra1 dec0 dec1 -> unit_dev u2 ->
  randsphere_v dec0 dec1 u2 = uniform (cos (d2r (90 + dec1))) (cos (d2r (90 + dec0))) u2
  /\ cos (d2r (90 + dec1)) <= randsphere_v dec0 dec1 u2 <= cos (d2r (90 + dec0))
  /\ -1 <= randsphere_v dec0 dec1 u2 <= 1.
Proof.
  intros [Hra [Hra1 [Hd Hd1]]] Hu. unfold randsphere_v. cbv zeta.
  pose proof (colat_range dec0 ltac:(lra)) as H0. pose proof (colat_range dec1 ltac:(lra)) as H1.
  assert (Hc : cos (d2r (90 + dec1)) <= cos (d2r (90 + dec0))).
  { apply cos_decr_1; try lra. apply d2r_le. lra. }
  pose proof (COS_bound (d2r (90 + dec1))) as B1. pose proof (COS_bound (d2r (90 + dec0))) as B0.
  pose proof (uniform_between _ _ u2 Hc Hu) as HU.
  rewrite clip_id by lra. repeat split; lra.
Qed.

Lemma acos_decr x y : -1 <= x <= 1 -> -1 <= y <= 1 -> x <= y -> acos y <= acos x.
Proof.
  intros Hx Hy H. pose proof (acos_bound x). pose proof (acos_bound y).
  apply cos_decr_0; try lra. rewrite !cos_acos by lra. exact H.
Qed.

(* box_in_range *)
Theorem randsphere_in_box ra0 ra1 dec0 dec1 u1 u2 :
  valid_box ra0 ra1 dec0 dec1 -> unit_dev u1 -> unit_dev u2 ->
  in_box ra0 ra1 dec0 dec1 (randsphere_R ra0 ra1 dec0 dec1 u1 u2).
Proof.
  intros HB Hu1 Hu2. destruct (randsphere_v_range _ _ _ _ u2 HB Hu2) as [_ [Hv Hv1]].
  destruct HB as [Hra [Hra1 [Hd Hd1]]].
  unfold randsphere_R, in_box. cbv zeta. simpl fst; simpl snd. split.
  - apply uniform_between; [lra|exact Hu1].
  - set (v := randsphere_v dec0 dec1 u2) in *.
    pose proof (colat_range dec0 ltac:(lra)) as H0. pose proof (colat_range dec1 ltac:(lra)) as H1.
    pose proof (COS_bound (d2r (90 + dec1))) as B1. pose proof (COS_bound (d2r (90 + dec0))) as B0.
    assert (L : d2r (90 + dec0) <= acos v).
    { rewrite <- (acos_cos (d2r (90 + dec0))) by lra. apply acos_decr; lra. }
    assert (U : acos v <= d2r (90 + dec1)).
    { rewrite <- (acos_cos (d2r (90 + dec1))) by lra. apply acos_decr; lra. }
    apply r2d_le in L. apply r2d_le in U. rewrite r2d_d2r in L, U. lra.
Qed.

(* monotonicity of the dec map: a larger deviate gives a smaller (or equal) declination *)
Theorem randsphere_dec_monotone ra0 ra1 dec0 dec1 u1 u1' u2 u2' :
  valid_box ra0 ra1 dec0 dec1 -> unit_dev u2 -> unit_dev u2' -> u2 <= u2' ->
  snd (randsphere_R ra0 ra1 dec0 dec1 u1' u2') <= snd (randsphere_R ra0 ra1 dec0 dec1 u1 u2).
Proof.
  intros HB Hu Hu' Hle.
  destruct (randsphere_v_range _ _ _ _ u2 HB Hu) as [E [Hv Hv1]].
  destruct (randsphere_v_range _ _ _ _ u2' HB Hu') as [E' [Hv' Hv1']].
  unfold randsphere_R. cbv zeta. simpl snd.
  assert (acos (randsphere_v dec0 dec1 u2') <= acos (randsphere_v dec0 dec1 u2)).
  { apply acos_decr; try lra. rewrite E, E'. apply uniform_mono; lra. }
  pose proof (r2d_le _ _ H). lra.
Qed.

Theorem randsphere_ra_monotone ra0 ra1 dec0 dec1 u1 u1' u2 u2' :
  valid_box ra0 ra1 dec0 dec1 -> u1 <= u1' ->
  fst (randsphere_R ra0 ra1 dec0 dec1 u1 u2) <= fst (randsphere_R ra0 ra1 dec0 dec1 u1' u2').
Proof.
  intros [Hra _] Hle. unfold randsphere_R. cbv zeta. simpl fst. apply uniform_mono; lra.
Qed.

(* sin(dec) = -v, cos(dec) = sqrt(1 - v^2): what the per-case certificates evaluate *)
Lemma randsphere_sincos ra0 ra1 dec0 dec1 u1 u2 :
  valid_box ra0 ra1 dec0 dec1 -> unit_dev u2 ->
  let v := uniform (cos (d2r (90 + dec1))) (cos (d2r (90 + dec0))) u2 in
  let dec := snd (randsphere_R ra0 ra1 dec0 dec1 u1 u2) in
  sin (d2r dec) = - v /\ cos (d2r dec) = sqrt (1 - v²).
Proof.
  intros HB Hu. destruct (randsphere_v_range _ _ _ _ u2 HB Hu) as [E [Hv Hv1]]. cbv zeta.
  rewrite <- E. set (v := randsphere_v dec0 dec1 u2) in *.
  unfold randsphere_R. cbv zeta. simpl snd. fold v.
  replace (d2r (r2d (acos v) - 90)) with (acos v - PI / 2)
    by (unfold Rminus; rewrite d2r_plus, d2r_r2d; unfold d2r; field).
  rewrite sin_minus, cos_minus, cos_PI2, sin_PI2, cos_acos, sin_acos by lra. split; ring.
Qed.

Lemma randsphere_xyz_closed ra0 ra1 dec0 dec1 u1 u2 :
  valid_box ra0 ra1 dec0 dec1 -> unit_dev u2 ->
  let v := uniform (cos (d2r (90 + dec1))) (cos (d2r (90 + dec0))) u2 in
  let ra := uniform ra0 ra1 u1 in
  randsphere_xyz_R ra0 ra1 dec0 dec1 u1 u2 = (cos (d2r ra) * sqrt (1 - v²), sin (d2r ra) * sqrt (1 - v²), - v).
Proof.
  intros HB Hu. pose proof (randsphere_sincos ra0 ra1 dec0 dec1 u1 u2 HB Hu) as H. cbv zeta in *.
  unfold randsphere_xyz_R. destruct (randsphere_R ra0 ra1 dec0 dec1 u1 u2) as [ra dec] eqn:E.
  assert (Era : ra = uniform ra0 ra1 u1) by (unfold randsphere_R in E; inversion E; reflexivity).
  simpl snd in H. destruct H as [Hs Hc]. unfold eq2xyz, thetaphi2xyz. rewrite Hs, Hc, Era. reflexivity.
Qed.

(* ---------------------------------------------------------------- certificate introduction rules
   (each generated per-case lemma is one of these followed by `lra` / `interval`) *)

Lemma sphere_close_intro ra0 ra1 dec0 dec1 u1 u2 ra_o dec_o :
  valid_box ra0 ra1 dec0 dec1 -> unit_dev u2 ->
  Rabs (uniform ra0 ra1 u1 - ra_o) <= slack ->
  Rabs (sin (d2r dec_o) + uniform (cos (d2r (90 + dec1))) (cos (d2r (90 + dec0))) u2) <= sinslack ->
  sphere_close (randsphere_R ra0 ra1 dec0 dec1 u1 u2) (ra_o, dec_o).
Proof.
  intros HB Hu H1 H2. destruct (randsphere_sincos ra0 ra1 dec0 dec1 u1 u2 HB Hu) as [Hs _].
  unfold sphere_close. rewrite Hs. split.
  - unfold randsphere_R. cbv zeta. simpl fst. exact H1.
  - simpl snd. rewrite <- Rabs_Ropp. match goal with |- Rabs ?a <= _ => replace a with
      (sin (d2r dec_o) + uniform (cos (d2r (90 + dec1))) (cos (d2r (90 + dec0))) u2) by ring end. exact H2.
Qed.

Lemma xyz_close_intro ra0 ra1 dec0 dec1 u1 u2 x y z :
  valid_box ra0 ra1 dec0 dec1 -> unit_dev u2 ->
  (let v := uniform (cos (d2r (90 + dec1))) (cos (d2r (90 + dec0))) u2 in
   let ra := uniform ra0 ra1 u1 in
   Rabs (cos (d2r ra) * sqrt (1 - v * v) - x) <= sinslack
   /\ Rabs (sin (d2r ra) * sqrt (1 - v * v) - y) <= sinslack
   /\ Rabs (- v - z) <= sinslack) ->
  xyz_close (randsphere_xyz_R ra0 ra1 dec0 dec1 u1 u2) (x, y, z).
Proof.
  intros HB Hu H. rewrite (randsphere_xyz_closed ra0 ra1 dec0 dec1 u1 u2 HB Hu). unfold xyz_close, Rsqr. exact H.
Qed.

Lemma cap_point_fl_intro ra dec rad ra2 dec2 r :
  0 <= rad ->
  (180 <= rad + slack \/ hav ra dec ra2 dec2 <= (sin (d2r (rad + slack) / 2))²) ->
  (r - slack <= 0 \/ (r - slack <= 180 /\ (sin (d2r (r - slack) / 2))² <= hav ra dec ra2 dec2)) ->
  (180 <= r + slack \/ (0 <= r + slack /\ hav ra dec ra2 dec2 <= (sin (d2r (r + slack) / 2))²)) ->
  cap_point_fl ra dec rad (ra2, dec2, r).
Proof.
  intros Hrad H1 H2 H3. unfold cap_point_fl. pose proof (sep_deg_bound ra dec ra2 dec2) as B.
  assert (Hs : 0 < slack) by (unfold slack; lra).
  split.
  - destruct H1 as [H1|H1]; [lra|]. destruct (Rle_dec (rad + slack) 180); [|lra].
    apply sep_le_by_hav; [lra|exact H1].
  - apply Rabs_le. split.
    + destruct H2 as [H2|[H2 H2']]; [lra|]. destruct (Rle_dec 0 (r - slack)); [|lra].
      pose proof (sep_ge_by_hav ra dec ra2 dec2 (r - slack) ltac:(lra) H2'). lra.
    + destruct H3 as [H3|[H3 H3']]; [lra|]. destruct (Rle_dec (r + slack) 180); [|lra].
      pose proof (sep_le_by_hav ra dec ra2 dec2 (r + slack) ltac:(lra) H3'). lra.
Qed.

Lemma dot_sym a b : dot a b = dot b a.
Proof. destruct a as [[a1 a2] a3], b as [[b1 b2] b3]. unfold dot. ring. Qed.

Lemma polar_false dec : - pole_thr < dec < pole_thr -> polar dec = false.
Proof. intro H. unfold polar. destruct (Rle_dec pole_thr dec); [lra|]. destruct (Rle_dec dec (- pole_thr)); [lra|reflexivity]. Qed.
Lemma polar_true dec : pole_thr <= dec \/ dec <= - pole_thr -> polar dec = true.
Proof. intro H. unfold polar. destruct (Rle_dec pole_thr dec); [reflexivity|]. destruct (Rle_dec dec (- pole_thr)); [reflexivity|lra]. Qed.

Lemma cap_close_unrot_intro ra dec rad u upsi ra_o dec_o r_o :
  - pole_thr < dec < pole_thr ->
  1 - dot (cap_vec ra dec rad u upsi) (eq2xyz ra_o dec_o) <= vslack ->
  Rabs (sqrt u * rad - r_o) <= slack ->
  cap_close (randcap_R false ra dec rad u upsi) (ra_o, dec_o, r_o).
Proof.
  intros Hd H1 H2. unfold randcap_R. rewrite (polar_false dec Hd). simpl orb. cbv iota.
  pose proof (randcap_unrot_vec ra dec rad u upsi) as V.
  destruct (randcap_unrot ra dec rad u upsi) as [[mra mdec] mr] eqn:E.
  unfold cap_close. rewrite V. split; [exact H1|].
  unfold randcap_unrot in E. inversion E. rewrite r2d_d2r. exact H2.
Qed.

Lemma cap_close_rot_intro dorot ra dec rad u upsi ra_o dec_o r_o :
  (dorot = true \/ pole_thr <= dec \/ dec <= - pole_thr) ->
  1 - dot (rot_lin (ra - 90) 0 0 (rot_lin 0 (dec - 0) 0 (cap_vec 90 0 rad u upsi))) (eq2xyz ra_o dec_o) <= vslack ->
  Rabs (sqrt u * rad - r_o) <= slack ->
  cap_close (randcap_R dorot ra dec rad u upsi) (ra_o, dec_o, r_o).
Proof.
  intros Hd H1 H2. unfold randcap_R.
  assert (Hb : (dorot || polar dec)%bool = true).
  { destruct Hd as [Hd|Hd]; [rewrite Hd; reflexivity|]. rewrite (polar_true dec Hd). apply Bool.orb_true_r. }
  rewrite Hb.
  pose proof (randcap_rot_vec ra dec rad u upsi) as V.
  destruct (randcap_rot ra dec rad u upsi) as [[mra mdec] mr] eqn:E.
  unfold cap_close. rewrite V. split; [exact H1|].
  unfold randcap_rot in E.
  destruct (randcap_unrot 90 0 rad u upsi) as [[a0 d0] r0] eqn:E0.
  destruct (rotate_R 0 (dec - 0) 0 a0 d0) as [a1 d1]. destruct (rotate_R (ra - 90) 0 0 a1 d1) as [a2 d2].
  inversion E. subst. unfold randcap_unrot in E0. inversion E0. rewrite r2d_d2r. exact H2.
Qed.

Lemma box_point_fl_intro ra0 ra1 dec0 dec1 ra_o dec_o :
  ra0 - slack <= ra_o <= ra1 + slack ->
  (dec0 - slack <= dec_o \/ sin (d2r dec0) - sinslack <= sin (d2r dec_o)) ->
  (dec_o <= dec1 + slack \/ sin (d2r dec_o) <= sin (d2r dec1) + sinslack) ->
  box_point_fl ra0 ra1 dec0 dec1 (ra_o, dec_o).
Proof. intros H1 H2 H3. unfold box_point_fl. simpl fst; simpl snd. tauto. Qed.

(* closed form of the rotated branch's unit vector (zero Euler angles simplified away); this is
   the expression the per-case certificates of the polar branch evaluate *)
Definition cap_vec_rot (ra dec rad u upsi : R) : vec3 :=
  let r := d2r (sqrt u * rad) in
  let psi := uniform 0 (2 * PI) upsi in
  let al := d2r ra in
  let de := d2r dec in
  let a := sin r * sin psi in
  let b := cos r in
  let c := - (sin r * cos psi) in
  let m2 := cos de * b - sin de * c in
  let m3 := sin de * b + cos de * c in
  (a * sin al + m2 * cos al, - a * cos al + m2 * sin al, m3).

Lemma cap_vec_rot_eq ra dec rad u upsi :
  rot_lin (ra - 90) 0 0 (rot_lin 0 (dec - 0) 0 (cap_vec 90 0 rad u upsi)) = cap_vec_rot ra dec rad u upsi.
Proof.
  unfold rot_lin, cap_vec, cap_vec_rot. cbv zeta beta iota.
  replace (d2r (- 0)) with 0 by (unfold d2r; ring).
  replace (d2r (0 + 90)) with (PI / 2) by (unfold d2r; field).
  replace (d2r (- (dec - 0))) with (- d2r dec) by (unfold d2r; ring).
  replace (d2r (- (ra - 90))) with (PI / 2 - d2r ra) by (unfold d2r; field).
  rewrite d2r_90, sin_shift, cos_shift, cos_0, sin_0, cos_PI2, sin_PI2, cos_neg, sin_neg.
  f_equal; [f_equal|]; ring.
Qed.

Lemma cap_close_rot_intro' dorot ra dec rad u upsi ra_o dec_o r_o :
  (dorot = true \/ pole_thr <= dec \/ dec <= - pole_thr) ->
  1 - dot (cap_vec_rot ra dec rad u upsi) (eq2xyz ra_o dec_o) <= vslack ->
  Rabs (sqrt u * rad - r_o) <= slack ->
  cap_close (randcap_R dorot ra dec rad u upsi) (ra_o, dec_o, r_o).
Proof. intros Hd H1 H2. apply cap_close_rot_intro; try assumption. rewrite cap_vec_rot_eq. exact H1. Qed.

(* ---------------------------------------------------------------- rotate is an isometry *)
Theorem rotate_isometry phi theta psi ra1 dec1 ra2 dec2 :
  let p := rotate_R phi theta psi ra1 dec1 in
  let q := rotate_R phi theta psi ra2 dec2 in
  sep_deg (fst p) (snd p) (fst q) (snd q) = sep_deg ra1 dec1 ra2 dec2.
Proof.
  cbv zeta. pose proof (rotate_vec phi theta psi ra1 dec1) as V1. pose proof (rotate_vec phi theta psi ra2 dec2) as V2.
  destruct (rotate_R phi theta psi ra1 dec1) as [a1 d1]. destruct (rotate_R phi theta psi ra2 dec2) as [a2 d2].
  unfold sep_deg. simpl fst; simpl snd. rewrite V1, V2, rot_lin_dot. reflexivity.
Qed.

(* ---------------------------------------------------------------- the unrepaired radius *)
Lemma r2d_gt x : 0 < x -> x < r2d x.
Proof.
  intro H. unfold r2d. pose proof PI_4 as P4. pose proof PI_RGT_0 as P0.
  assert (1 < 180 / PI). { apply Rmult_lt_reg_r with PI; [lra|]. unfold Rdiv. rewrite Rmult_assoc, Rinv_l by lra. lra. }
  nra.
Qed.

Theorem radius_unrepaired_refuted :
  exists ra dec rad u upsi,
    valid_cap ra dec rad /\ unit_dev u /\
    let '(ra2, dec2, r) := randcap_rot_unrepaired ra dec rad u upsi in r <> sep_deg ra dec ra2 dec2.
Proof.
  exists 10, 90, 1, 1, 0. split; [unfold valid_cap; lra|]. split; [unfold unit_dev; lra|].
  unfold randcap_rot_unrepaired.
  pose proof (cap_distance_rot 10 90 1 1 0 ltac:(unfold unit_dev; lra) ltac:(lra)) as D.
  destruct (randcap_rot 10 90 1 1 0) as [[ra2 dec2] r]. destruct D as [D1 D2].
  rewrite D1, D2, sqrt_1. pose proof (r2d_gt (1 * 1) ltac:(lra)). lra.
Qed.

(* ---------------------------------------------------------------- refutation certificates
   (tried on a case whose certificate failed, to decide whether it is a proven failing input) *)
Lemma cap_point_fl_refute ra dec rad ra2 dec2 r :
  (0 <= rad + 2 * slack <= 180 /\ (sin (d2r (rad + 2 * slack) / 2))² <= hav ra dec ra2 dec2)
  \/ (0 <= r + 2 * slack <= 180 /\ (sin (d2r (r + 2 * slack) / 2))² <= hav ra dec ra2 dec2)
  \/ (0 <= r - 2 * slack <= 180 /\ hav ra dec ra2 dec2 <= (sin (d2r (r - 2 * slack) / 2))²)
  \/ 180 < r - slack \/ r + slack < 0 ->
  ~ cap_point_fl ra dec rad (ra2, dec2, r).
Proof.
  intros H [H1 H2]. unfold Rabs in H2. destruct (Rcase_abs (sep_deg ra dec ra2 dec2 - r)) as [Hneg|Hpos]. all: pose proof (sep_deg_bound ra dec ra2 dec2) as B.
  all: assert (Hs : 0 < slack) by (unfold slack; lra).
  all: destruct H as [[Hr Hh]|[[Hr Hh]|[[Hr Hh]|[Hh|Hh]]]];
    [ pose proof (sep_ge_by_hav _ _ _ _ _ Hr Hh); lra
    | pose proof (sep_ge_by_hav _ _ _ _ _ Hr Hh); lra
    | pose proof (sep_le_by_hav _ _ _ _ _ Hr Hh); lra
    | lra | lra ].
Qed.

Lemma box_point_fl_refute ra0 ra1 dec0 dec1 ra_o dec_o :
  ra_o < ra0 - slack \/ ra1 + slack < ra_o
  \/ (dec_o < dec0 - slack /\ sin (d2r dec_o) < sin (d2r dec0) - sinslack)
  \/ (dec1 + slack < dec_o /\ sin (d2r dec1) + sinslack < sin (d2r dec_o)) ->
  ~ box_point_fl ra0 ra1 dec0 dec1 (ra_o, dec_o).
Proof.
  unfold box_point_fl. simpl fst; simpl snd. intros H [H1 [H2 H3]].
  destruct H as [H|[H|[[Ha Hb]|[Ha Hb]]]]; try lra; try (destruct H2; lra); try (destruct H3; lra).
Qed.

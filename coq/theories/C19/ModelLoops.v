(* C19 -- model, continued (no proofs): atbound(longitude, 0, 360) of coords.py 633-644 with its two
   `while` loops as they are written, on explicit fuel (DESIGN 3.2):

       (w,) = np.where(longitude < minval)
       while w.size > 0:  longitude[w] += 360.0 ; (w,) = np.where(longitude < minval)
       (w,) = np.where(longitude > maxval)
       while w.size > 0:  longitude[w] -= 360.0 ; (w,) = np.where(longitude > maxval)

   for one element.  Model.atbound is the same with each loop unrolled once; ProofsGeo2 proves that for
   every argument randcap can pass (|lon| within [-360, 720]) two units of fuel suffice, both loops
   have terminated, and the result is Model.atbound's. *)
From Coq Require Import Reals.
Open Scope R_scope.

Fixpoint up_loop (fuel : nat) (lon : R) : option R :=
  if Rlt_dec lon 0 then
    match fuel with O => None | S f => up_loop f (lon + 360) end
  else Some lon.

Fixpoint down_loop (fuel : nat) (lon : R) : option R :=
  if Rlt_dec 360 lon then
    match fuel with O => None | S f => down_loop f (lon - 360) end
  else Some lon.

(* None = out of fuel *)
Definition atbound_loops (fuel : nat) (lon : R) : option R :=
  match up_loop fuel lon with
  | Some l => down_loop fuel l
  | None => None
  end.

(* C19 -- model, continued (no proofs): positive definiteness, the hypothesis under which the statement
   quantifies over covariances ("all symmetric positive-definite covariances"). *)
From Coq Require Import Reals.
From EsVerif.C19 Require Import ModelChol.
Open Scope R_scope.

(* v^T A v on the n x n block *)
Definition quad (A : mat) (n : nat) (v : nat -> R) : R :=
  bigsum (fun i => bigsum (fun j => v i * A i j * v j) n) n.

Definition posdef (A : mat) (n : nat) : Prop :=
  forall v, (exists i, (i < n)%nat /\ v i <> 0) -> 0 < quad A n v.

(* C19 -- the anchored mechanism "uniform-in-sin(dec) box sampling" as an equation: the returned
   longitude is affine in the first deviate and the SINE of the returned latitude is affine in the
   second one, running from sin(dec1) at u2 = 0 to sin(dec0) at u2 = 1 (inverse of the cumulative
   distribution of a uniform density on the sphere restricted to the box). *)
From Coq Require Import Reals Lra.
From EsVerif.C19 Require Import Model Spec ProofsGeo.
Open Scope R_scope.

Theorem randsphere_uniform_in_sin ra0 ra1 dec0 dec1 u1 u2 :
  valid_box ra0 ra1 dec0 dec1 -> unit_dev u2 ->
  let p := randsphere_R ra0 ra1 dec0 dec1 u1 u2 in
  fst p = ra0 + (ra1 - ra0) * u1
  /\ sin (d2r (snd p)) = sin (d2r dec1) + (sin (d2r dec0) - sin (d2r dec1)) * u2.
Proof.
  intros HB Hu. cbv zeta. split; [reflexivity|].
  destruct (randsphere_sincos ra0 ra1 dec0 dec1 u1 u2 HB Hu) as [Hs _]. cbv zeta in Hs. rewrite Hs.
  unfold uniform. rewrite !d2r_plus, d2r_90. rewrite !cos_plus, cos_PI2, sin_PI2. ring.
Qed.

(* ---------------------------------------------------------------- atbound: the while loops *)
From EsVerif.C19 Require Import ModelLoops.

Theorem atbound_loops_eq fuel lon : (2 <= fuel)%nat -> -360 <= lon <= 720 ->
  atbound_loops fuel lon = Some (atbound lon).
Proof.
  intros Hf H. destruct fuel as [|[|f]]; [inversion Hf | inversion Hf as [|? Hf']; inversion Hf' |].
  unfold atbound_loops, atbound.
  cbn [up_loop]. destruct (Rlt_dec lon 0) as [L|L].
  - destruct (Rlt_dec (lon + 360) 0) as [L2|L2]; [lra|].
    cbn [down_loop]. destruct (Rlt_dec 360 (lon + 360)) as [G|G]; [lra|reflexivity].
  - cbn [down_loop]. destruct (Rlt_dec 360 lon) as [G|G]; [|reflexivity].
    destruct (Rlt_dec 360 (lon - 360)) as [G2|G2]; [lra|reflexivity].
Qed.

(* the argument randcap passes to atbound is within that range *)
Lemma atbound_arg_range ra dphi : 0 <= ra <= 360 -> - PI < dphi <= PI -> -360 <= r2d (d2r ra - dphi) <= 720.
Proof.
  intros Hra Hd. unfold Rminus. replace (d2r ra + - dphi) with (d2r (ra + - r2d dphi)).
  - rewrite r2d_d2r. assert (- 180 <= r2d dphi <= 180).
    { replace (-180) with (r2d (- PI)) by (unfold r2d; field; apply PI_neq0).
      replace 180 with (r2d PI) by (unfold r2d; field; apply PI_neq0). split; apply r2d_le; lra. }
    lra.
  - rewrite d2r_plus. f_equal. unfold d2r, r2d. field. apply PI_neq0.
Qed.

Theorem atbound_loops_terminate fuel ra y x : (2 <= fuel)%nat -> 0 <= ra <= 360 ->
  atbound_loops fuel (r2d (d2r ra - atan2 y x)) = Some (atbound (r2d (d2r ra - atan2 y x))).
Proof.
  intros Hf Hra. apply atbound_loops_eq; [exact Hf|].
  apply atbound_arg_range; [exact Hra|apply atan2_bound].
Qed.

(* ---------------------------------------------------------------- system='xyz' *)
Theorem randsphere_xyz_in_box ra0 ra1 dec0 dec1 u1 u2 :
  valid_box ra0 ra1 dec0 dec1 -> unit_dev u1 -> unit_dev u2 ->
  let '(x, y, z) := randsphere_xyz_R ra0 ra1 dec0 dec1 u1 u2 in
  x * x + y * y + z * z = 1 /\ sin (d2r dec0) <= z <= sin (d2r dec1).
Proof.
  intros HB H1 H2. pose proof (randsphere_in_box ra0 ra1 dec0 dec1 u1 u2 HB H1 H2) as [_ [Hlo Hhi]].
  unfold randsphere_xyz_R. destruct (randsphere_R ra0 ra1 dec0 dec1 u1 u2) as [ra dec]. cbn [fst snd] in *.
  pose proof (eq2xyz_unit ra dec) as U. unfold eq2xyz, thetaphi2xyz, dot in *.
  destruct HB as [_ [_ [[Hd0 Hd01] Hd1]]].
  assert (R90 : d2r 90 = PI / 2) by apply d2r_90.
  assert (Rm90 : d2r (-90) = - (PI / 2)) by (unfold d2r; field).
  split; [exact U|]. split; apply sin_incr_1; try apply d2r_le; try lra;
    try (rewrite <- Rm90; apply d2r_le; lra); try (rewrite <- R90; apply d2r_le; lra).
Qed.

(* ---------------------------------------------------------------- dorot does not move the point *)
Lemma cap_vec_rot_is_cap_vec ra dec rad u upsi : cap_vec_rot ra dec rad u upsi = cap_vec ra dec rad u upsi.
Proof.
  unfold cap_vec_rot, cap_vec. cbv zeta.
  replace (d2r (dec + 90)) with (d2r dec + PI / 2) by (rewrite d2r_plus, d2r_90; reflexivity).
  rewrite sin_plus, cos_plus, cos_PI2, sin_PI2. f_equal; [f_equal|]; ring.
Qed.

(* Both branches of randcap return the SAME direction on the sphere and the same radius for the same
   deviates: forcing the rotation (dorot=True, or a centre within 0.1 deg of a pole) changes how the
   point is computed, not which point it is. *)
Theorem randcap_branches_agree ra dec rad u upsi :
  let '(ra1, dec1, r1) := randcap_unrot ra dec rad u upsi in
  let '(ra2, dec2, r2) := randcap_rot ra dec rad u upsi in
  eq2xyz ra1 dec1 = eq2xyz ra2 dec2 /\ r1 = r2.
Proof.
  pose proof (randcap_unrot_vec ra dec rad u upsi) as V1. pose proof (randcap_rot_vec ra dec rad u upsi) as V2.
  rewrite cap_vec_rot_eq, cap_vec_rot_is_cap_vec in V2.
  unfold randcap_rot in *.
  destruct (randcap_unrot 90 0 rad u upsi) as [[a0 d0] r0] eqn:E0.
  destruct (rotate_R 0 (dec - 0) 0 a0 d0) as [a1 d1]. destruct (rotate_R (ra - 90) 0 0 a1 d1) as [a2 d2].
  destruct (randcap_unrot ra dec rad u upsi) as [[ra1 dec1] r1] eqn:E1.
  split; [rewrite V1, V2; reflexivity|].
  unfold randcap_unrot in E0, E1. inversion E0. inversion E1. reflexivity.
Qed.

(* ---------------------------------------------------------------- system='xyz' on FLOAT outputs:
   what C19_box_xyz_unit_vector_in_box says, with the rounding slack of the per-case certificates
   (sinslack in the components).  The longitude condition is stated through the two half-planes
   sin(ra - ra0) >= 0 and sin(ra1 - ra) >= 0 and is only used for boxes at most 180 deg wide. *)
Definition box_xyz_fl (dec0 dec1 : R) (p : vec3) : Prop :=
  let '(x, y, z) := p in
  Rabs (x * x + y * y + z * z - 1) <= 4 * sinslack
  /\ sin (d2r dec0) - sinslack <= z <= sin (d2r dec1) + sinslack.

Definition lon_halfplanes_fl (ra0 ra1 : R) (p : vec3) : Prop :=
  let '(x, y, _) := p in
  - sinslack <= y * cos (d2r ra0) - x * sin (d2r ra0) /\ - sinslack <= x * sin (d2r ra1) - y * cos (d2r ra1).

(* C19 -- the anchored mechanism "uniform-in-sin(dec) box sampling" as an equation: the returned
   longitude is affine in the first deviate and the SINE of the returned latitude is affine in the
   second one, running from sin(dec1) at u2 = 0 to sin(dec0) at u2 = 1 (inverse of the cumulative
   distribution of a uniform density on the sphere restricted to the box). *)
From Coq Require Import Reals Lra.
From EsVerif.C19 Require Import Model Spec ProofsGeo.
Open Scope R_scope.

Theorem randsphere_uniform_in_sin ra0 ra1 dec0 dec1 u1 u2 :
  valid_box ra0 ra1 dec0 dec1 -> unit_dev u2 ->
  let p := randsphere_R ra0 ra1 dec0 dec1 u1 u2 in
  fst p = ra0 + (ra1 - ra0) * u1
  /\ sin (d2r (snd p)) = sin (d2r dec1) + (sin (d2r dec0) - sin (d2r dec1)) * u2.
Proof.
  intros HB Hu. cbv zeta. split; [reflexivity|].
  destruct (randsphere_sincos ra0 ra1 dec0 dec1 u1 u2 HB Hu) as [Hs _]. cbv zeta in Hs. rewrite Hs.
  unfold uniform. rewrite !d2r_plus, d2r_90. rewrite !cos_plus, cos_PI2, sin_PI2. ring.
Qed.

(* ---------------------------------------------------------------- atbound: the while loops *)
From EsVerif.C19 Require Import ModelLoops.

Theorem atbound_loops_eq fuel lon : (2 <= fuel)%nat -> -360 <= lon <= 720 ->
  atbound_loops fuel lon = Some (atbound lon).
Proof.
  intros Hf H. destruct fuel as [|[|f]]; [inversion Hf | inversion Hf as [|? Hf']; inversion Hf' |].
  unfold atbound_loops, atbound.
  cbn [up_loop]. destruct (Rlt_dec lon 0) as [L|L].
  - destruct (Rlt_dec (lon + 360) 0) as [L2|L2]; [lra|].
    cbn [down_loop]. destruct (Rlt_dec 360 (lon + 360)) as [G|G]; [lra|reflexivity].
  - cbn [down_loop]. destruct (Rlt_dec 360 lon) as [G|G]; [|reflexivity].
    destruct (Rlt_dec 360 (lon - 360)) as [G2|G2]; [lra|reflexivity].
Qed.

(* the argument randcap passes to atbound is within that range *)
Lemma atbound_arg_range ra dphi : 0 <= ra <= 360 -> - PI < dphi <= PI -> -360 <= r2d (d2r ra - dphi) <= 720.
Proof.
  intros Hra Hd. unfold Rminus. replace (d2r ra + - dphi) with (d2r (ra + - r2d dphi)).
  - rewrite r2d_d2r. assert (- 180 <= r2d dphi <= 180).
    { replace (-180) with (r2d (- PI)) by (unfold r2d; field; apply PI_neq0).
      replace 180 with (r2d PI) by (unfold r2d; field; apply PI_neq0). split; apply r2d_le; lra. }
    lra.
  - rewrite d2r_plus. f_equal. unfold d2r, r2d. field. apply PI_neq0.
Qed.

Theorem atbound_loops_terminate fuel ra y x : (2 <= fuel)%nat -> 0 <= ra <= 360 ->
  atbound_loops fuel (r2d (d2r ra - atan2 y x)) = Some (atbound (r2d (d2r ra - atan2 y x))).
Proof.
  intros Hf Hra. apply atbound_loops_eq; [exact Hf|].
  apply atbound_arg_range; [exact Hra|apply atan2_bound].
Qed.

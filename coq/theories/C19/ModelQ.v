(* C19 -- model (style Q, DESIGN 3.3: exact rationals) of the samplers of esutil/random.py
   and the helper they call in esutil/stat/util.py:

     Generator.initialize_points / initialize_func (method='accum')   random.py 302-355
     Generator._genrand_accum / sample                                  random.py 204-255
     stat.interplin                                                     stat/util.py 1217-1259
     CholeskySampler.sample, cholesky_sample                            random.py 847-979
     random_indices (acceptance of its arguments)                       random.py 982-1011

   External calls re-implemented (DESIGN 3.4): scipy.integrate.cumulative_trapezoid(y, x)
   = cumsum(diff(x) * (y[1:] + y[:-1]) / 2); ndarray.searchsorted(u) on an increasing array
   = number of elements strictly smaller than u; numpy.dot; reshape; transpose.
   numpy.linalg.cholesky is an ORACLE: its result M enters the model as an argument and the
   harness monitors its contract (lower triangular, M M^T = cov) on every case.
   rng.choice is not modelled (only which arguments it accepts); its output is judged by the
   property checker alone.

   Qred (reduction of a fraction to lowest terms, Qred q == q by QArith.Qred_correct) is applied
   to the stored table entries and to the interpolated value: it changes the representation
   only, never the number, and keeps the evaluation inside Coq fast.  No proofs in this file. *)
From Coq Require Import QArith.
From EsVerif.Common Require Import Base.
Local Open Scope Q_scope.

Definition qnth (l : list Q) (i : Z) : Q := nth (Z.to_nat i) l 0.
Definition qlast (l : list Q) : Q := last l 0.
Definition Qlt_bool (a b : Q) : bool := negb (Qle_bool b a).

(* ---------------------------------------------------------------- cumulative table *)

(* cumulative_trapezoid: running sum of (x_i - x_{i-1}) * (y_i + y_{i-1}) / 2 *)
Fixpoint cumtrapz_go (xprev yprev acc : Q) (xs ys : list Q) : list Q :=
  match xs, ys with
  | x :: xt, y :: yt =>
      let acc' := Qred (acc + (x - xprev) * (y + yprev) / 2) in
      acc' :: cumtrapz_go x y acc' xt yt
  | _, _ => []
  end.

Definition cumtrapz (ys xs : list Q) : list Q :=
  match xs, ys with
  | x0 :: xt, y0 :: yt => cumtrapz_go x0 y0 0 xt yt
  | _, _ => []
  end.

(* (self.xvals, self.pcum) after initialize_points / initialize_func; pofx is the tabulated
   density (or, with cumulative=True, the tabulated cumulative distribution) on the grid x *)
Definition gen_tables (cumulative : bool) (pofx x : list Q) : list Q * list Q :=
  if cumulative then
    let norm := qlast pofx in
    (x, map (fun p => Qred (p / norm)) pofx)
  else
    let pcum := cumtrapz pofx x in
    let norm := qlast pcum in
    (tl x, map (fun p => Qred (p / norm)) pcum).

(* ---------------------------------------------------------------- interplin *)

(* x.searchsorted(u) for increasing x *)
Definition count_lt (x : list Q) (u : Q) : Z :=
  Z.of_nat (length (filter (fun xi => Qlt_bool xi u) x)).

(* interplin(v, x, u) for one u; IndexError when x[xm+1] / v[xm+1] does not exist *)
Definition interplin (v x : list Q) (u : Q) : result Q :=
  let n := Z.of_nat (length x) in
  let xm := (count_lt x u - 1)%Z in
  let xm := if (n - 1 <=? xm)%Z then (n - 2)%Z else xm in      (* xm[xm >= x.size-1] = x.size-2 *)
  let xm := if (xm <? 0)%Z then 0%Z else xm in                 (* xm[xm < 0] = 0 *)
  let xmp1 := (xm + 1)%Z in
  if ((n <=? xmp1) || (Z.of_nat (length v) <=? xmp1))%Z then Err EIndex
  else Ok (Qred ((u - qnth x xm) * (qnth v xmp1 - qnth v xm) / (qnth x xmp1 - qnth x xm) + qnth v xm)).

Fixpoint mapM {A B} (f : A -> result B) (l : list A) : result (list B) :=
  match l with
  | [] => Ok []
  | a :: t => match f a with
              | Err e => Err e
              | Ok b => match mapM f t with Err e => Err e | Ok bt => Ok (b :: bt) end
              end
  end.

(* Generator(pofx, x=x, cumulative=c, rng=stub).sample(len us) on the deviates us returned by
   rng.uniform(size=n).  ValueError: shapes differ, or cumulative_trapezoid is handed an empty
   grid ("At least one point is required along `axis`"); IndexError: pcum[-1] of an empty table
   (grid of one point: cumulative_trapezoid returns an empty array). *)
Definition gen_sample (cumulative : bool) (pofx x : list Q) (us : list Q) : result (list Q) :=
  if negb (length pofx =? length x)%nat then Err EValue
  else if (negb cumulative && (length x =? 0)%nat)%bool then Err EValue
  else
    let '(xvals, pcum) := gen_tables cumulative pofx x in
    match pcum with
    | [] => Err EIndex
    | _ => mapM (interplin xvals pcum) us
    end.

(* ---------------------------------------------------------------- Cholesky sampler *)

Fixpoint map2 {A B C} (f : A -> B -> C) (l1 : list A) (l2 : list B) : list C :=
  match l1, l2 with
  | a :: t1, b :: t2 => f a b :: map2 f t1 t2
  | _, _ => []
  end.

Definition qsum (l : list Q) : Q := fold_right Qplus 0 l.
Definition dotq (a b : list Q) : Q := qsum (map2 Qmult a b).

(* dist(npar * n).reshape(npar, n) *)
Fixpoint reshape (rows n : nat) (flat : list Q) : list (list Q) :=
  match rows with
  | O => []
  | S k => firstn n flat :: reshape k n (skipn n flat)
  end.

Definition column (j : nat) (m : list (list Q)) : list Q := map (fun row => nth j row 0) m.

(* V = numpy.dot(M, r) for r of shape (npar, n) *)
Definition matmul (M r : list (list Q)) (n : nat) : list (list Q) :=
  map (fun Mi => map (fun j => dotq Mi (column j r)) (seq 0 n)) M.

(* for i in range(npar): V[i, :] += mean[i] *)
Definition add_means (means : list Q) (V : list (list Q)) : list (list Q) :=
  map2 (fun m row => map (fun v => v + m) row) means V.

(* samples = V.T : n rows of npar values *)
Definition transpose (V : list (list Q)) (n : nat) : list (list Q) :=
  map (fun j => column j V) (seq 0 n).

(* cholesky_sample(cov, n, means, dist) / CholeskySampler(mean, cov, dist).sample(n) with
   M = numpy.linalg.cholesky(cov) (oracle) and flat = the array returned by dist(npar * n) *)
Definition chol_sample (means : option (list Q)) (M : list (list Q)) (n : nat) (flat : list Q)
  : list (list Q) :=
  let npar := length M in
  let r := reshape npar n flat in
  let V := matmul M r n in
  let V := match means with Some m => add_means m V | None => V end in
  transpose V n.

(* ---------------------------------------------------------------- random_indices *)

(* rng.choice(imax, size=nrand, replace=not unique) returns (no ValueError) *)
Definition ri_accepts (imax nrand : Z) (unique : bool) : bool :=
  ((0 <=? nrand) && ((nrand =? 0) || (0 <? imax)) && (negb unique || (nrand <=? imax)))%Z.

(* ---------------------------------------------------------------- named pieces (round 6: so that the translator can
   regenerate them from the source and tie them; the definitions above are unchanged) *)

(* Generator._genrand_accum: urand = rng.uniform(size=n); rand = stat.interplin(xvals, pcum, urand)  (interplin is
   vectorised over its third argument) *)
Definition genrand_accum (xvals pcum us : list Q) : result (list Q) := mapM (interplin xvals pcum) us.

(* numpy's rng.choice(imax, size=nrand, replace=replace) returns (does not raise ValueError) *)
Definition choice_accepts (imax nrand : Z) (replace : bool) : bool :=
  ((0 <=? nrand) && ((nrand =? 0) || (0 <? imax)) && (replace || (nrand <=? imax)))%Z.

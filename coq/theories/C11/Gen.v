(* C11 -- constants REGENERATED on every run by harness/props/c11_translate.py from
   esutil/cosmology/cosmolib.h, cosmolib.c and cosmology.py (fail-closed regex / ast walk).
   Decimal literals appear twice: as the exact rational they denote (R) and as the binary64
   value the compiler / CPython rounds them to (PrimFloat hex literal). *)
From Coq Require Import Reals ZArith List PrimFloat.
Definition NPTS : nat := 5.
Definition VNPTS : nat := 10.
Definition C_CLIGHT_R : R := (149896229 / 500)%R.
Definition C_CLIGHT_F : float := (0x1.24c41d4fdf3b6p+18)%float.
Definition FOUR_PI_G_OVER_C_SQUARED_Q : Z * Z := (7518813067703769, 12500000000000000000000)%Z.
Definition FOUR_PI_G_OVER_C_SQUARED_R : R := (IZR 7518813067703769 / IZR 12500000000000000000000)%R.
Definition FOUR_PI_G_OVER_C_SQUARED_F : float := (0x1.42ee3954cbf1cp-21)%float.
Definition M_PI_R : R := (157079632679489661923 / 50000000000000000000)%R.
Definition M_PI_F : float := (0x1.921fb54442d18p+1)%float.
Definition GAULEG_EPS_R : R := (1 / 25000000000)%R.
Definition GAULEG_EPS_F : float := (0x1.5fd7fe1796495p-35)%float.
Definition PY_CLIGHT_R : R := (149896229 / 500)%R.
Definition PY_CLIGHT_F : float := (0x1.24c41d4fdf3b6p+18)%float.
Definition DEFAULT_H0_R : R := (100)%R.
Definition DEFAULT_H0_F : float := (0x1.9000000000000p+6)%float.
Definition DEFAULT_FLAT : bool := true.
Definition DEFAULT_OMEGA_M_R : R := (3 / 10)%R.
Definition DEFAULT_OMEGA_M_F : float := (0x1.3333333333333p-2)%float.
Definition DEFAULT_OMEGA_L_R : R := (7 / 10)%R.
Definition DEFAULT_OMEGA_L_F : float := (0x1.6666666666666p-1)%float.
Definition H_SCALE_R : R := (100)%R.
Definition H_SCALE_F : float := (0x1.9000000000000p+6)%float.
(* Cosmo.extract_parms, translated statement by statement (omega_k : option num, None = python None) *)
Section GenExtract.
  Context {num : Type}.
  Variables (zero one : num) (sub : num -> num -> num) (is_zero : num -> bool).
  Definition extract_parms_src (om ol : num) (ok : option num) (flat : bool) : bool * num * num * option num :=
    (let '(flat, om, ol, ok) := (if (match ok with Some _ => true | None => false end) then (let '(flat, om, ol, ok) := (if (match ok with Some k => is_zero k | None => false end) then (let '(flat, om, ol, ok) := (true, om, ol, ok) in (flat, om, ol, ok)) else (let '(flat, om, ol, ok) := (false, om, ol, ok) in (flat, om, ol, ok))) in (flat, om, ol, ok)) else ((flat, om, ol, ok))) in let '(flat, om, ol, ok) := (if (match ok with Some _ => false | None => true end) then (let '(flat, om, ol, ok) := (true, om, ol, ok) in let '(flat, om, ol, ok) := (flat, om, ol, Some zero) in (flat, om, ol, ok)) else (let '(flat, om, ol, ok) := (if flat then (let '(flat, om, ol, ok) := (flat, om, ol, Some zero) in (flat, om, ol, ok)) else ((flat, om, ol, ok))) in (flat, om, ol, ok))) in let '(flat, om, ol, ok) := (if flat then (let '(flat, om, ol, ok) := (flat, om, (sub one om), ok) in (flat, om, ol, ok)) else ((flat, om, ol, ok))) in (flat, om, ol, ok)).
End GenExtract.
(* Cosmo.copy / __copy__ / __deepcopy__ and _pars / __reduce__: constructor arguments (H0, h, flat, omega_m,
   omega_l, omega_k) of the new instance, in terms of the remembered inputs / the accessor values *)
Definition copy_args_src {num : Type} (sH0 : num) (sflat : bool) (som sol : num) (sok : option num)
  : num * option num * bool * num * num * option num := (sH0, None, sflat, som, sol, sok).
Definition reduce_args_src {num : Type} (rH0 : num) (rflat : bool) (rom rol rok : num)
  : num * option num * bool * num * num * option num := (rH0, None, rflat, rom, rol, Some rok).
(* the scalar/array dispatch of the two-argument methods: (isscalar zmin, isscalar zmax, len zmin != len zmax) ->
   0 scalar entry point, 1 _vec1, 2 _vec2, 3 _2vec, 4 ValueError *)
Definition dispatch_src_Dc (sa sb ne : bool) : nat := (if (sa && sb) then 0%nat else if ((negb sa) && sb) then 1%nat else if (sa && (negb sb)) then 2%nat else if ((negb sa) && (negb sb)) then (if ne then 4%nat else 3%nat) else 4%nat)%bool.
Definition dispatch_src_Dm (sa sb ne : bool) : nat := (if (sa && sb) then 0%nat else if ((negb sa) && sb) then 1%nat else if (sa && (negb sb)) then 2%nat else if ((negb sa) && (negb sb)) then (if ne then 4%nat else 3%nat) else 4%nat)%bool.
Definition dispatch_src_Da (sa sb ne : bool) : nat := (if (sa && sb) then 0%nat else if ((negb sa) && sb) then 1%nat else if (sa && (negb sb)) then 2%nat else if ((negb sa) && (negb sb)) then (if ne then 4%nat else 3%nat) else 4%nat)%bool.
Definition dispatch_src_Dl (sa sb ne : bool) : nat := (if (sa && sb) then 0%nat else if ((negb sa) && sb) then 1%nat else if (sa && (negb sb)) then 2%nat else if ((negb sa) && (negb sb)) then (if ne then 4%nat else 3%nat) else 4%nat)%bool.
Definition dispatch_src_sigmacritinv (sa sb ne : bool) : nat := (if (sa && sb) then 0%nat else if ((negb sa) && sb) then 1%nat else if (sa && (negb sb)) then 2%nat else if ((negb sa) && (negb sb)) then (if ne then 4%nat else 3%nat) else 4%nat)%bool.
(* cosmolib_pywrap.c, translated: index of the C function called (0 ez_inverse, 1 Dc, 2 Dm, 3 Da, 4 Dl, 5 dV, 6 V,
   7 scinv, 8 ez_inverse_integral), arg1 read as arg1[i], arg2 read as arg2[i], n = size of arg1, arguments in order *)
Definition SCALAR_Dc : nat * bool := (1%nat, true).
Definition WRAP_Dc_vec1 : nat * bool * bool * bool * bool := (1%nat, true, false, true, true).
Definition WRAP_Dc_vec2 : nat * bool * bool * bool * bool := (1%nat, false, true, false, true).
Definition WRAP_Dc_2vec : nat * bool * bool * bool * bool := (1%nat, true, true, true, true).
Definition SCALAR_Dm : nat * bool := (2%nat, true).
Definition WRAP_Dm_vec1 : nat * bool * bool * bool * bool := (2%nat, true, false, true, true).
Definition WRAP_Dm_vec2 : nat * bool * bool * bool * bool := (2%nat, false, true, false, true).
Definition WRAP_Dm_2vec : nat * bool * bool * bool * bool := (2%nat, true, true, true, true).
Definition SCALAR_Da : nat * bool := (3%nat, true).
Definition WRAP_Da_vec1 : nat * bool * bool * bool * bool := (3%nat, true, false, true, true).
Definition WRAP_Da_vec2 : nat * bool * bool * bool * bool := (3%nat, false, true, false, true).
Definition WRAP_Da_2vec : nat * bool * bool * bool * bool := (3%nat, true, true, true, true).
Definition SCALAR_Dl : nat * bool := (4%nat, true).
Definition WRAP_Dl_vec1 : nat * bool * bool * bool * bool := (4%nat, true, false, true, true).
Definition WRAP_Dl_vec2 : nat * bool * bool * bool * bool := (4%nat, false, true, false, true).
Definition WRAP_Dl_2vec : nat * bool * bool * bool * bool := (4%nat, true, true, true, true).
Definition SCALAR_scinv : nat * bool := (7%nat, true).
Definition WRAP_scinv_vec1 : nat * bool * bool * bool * bool := (7%nat, true, false, true, true).
Definition WRAP_scinv_vec2 : nat * bool * bool * bool * bool := (7%nat, false, true, false, true).
Definition WRAP_scinv_2vec : nat * bool * bool * bool * bool := (7%nat, true, true, true, true).
Definition SCALAR_ez_inverse : nat * bool := (0%nat, true).
Definition WRAP1_ez_inverse_vec : nat * bool := (0%nat, true).
Definition SCALAR_dV : nat * bool := (5%nat, true).
Definition WRAP1_dV_vec : nat * bool := (5%nat, true).
Definition SCALAR_V : nat * bool := (6%nat, true).
Definition SCALAR_ez_inverse_integral : nat * bool := (8%nat, true).
(* cosmolib.c, translated statement by statement (binary64; callees and libm functions are parameters) *)
Section GenCosmolib.
  Local Open Scope float_scope.
  Definition ez_inverse_src (flat : bool) (om ol ok : float) (z : float) : float :=
    let oneplusz := ((0x1.0000000000000p+0) + z) in let ezi := (if flat then (let ezi := ((((om * oneplusz) * oneplusz) * oneplusz) + ol) in ezi) else (let oneplusz2 := (oneplusz * oneplusz) in let ezi := ((((om * oneplusz2) * oneplusz) + (ok * oneplusz2)) + ol) in ezi)) in let ezi := (PrimFloat.sqrt ((0x1.0000000000000p+0) / ezi)) in ezi.
  Definition ez_inverse_integral_src (xs ws : list float) (fez : float -> float) (zmin zmax : float) : float :=
    let ezinv_int := (0x0.0p+0) in let f1 := ((zmax - zmin) / (0x1.0000000000000p+1)) in let f2 := ((zmax + zmin) / (0x1.0000000000000p+1)) in let ezinv_int := (0x0.0p+0) in let ezinv_int := fold_left (fun ezinv_int xw => let xi := fst xw in let wi := snd xw in let z := ((xi * f1) + f2) in let ezinv := (fez z) in let ezinv_int := (ezinv_int + ((f1 * ezinv) * wi)) in ezinv_int) (combine xs ws) ezinv_int in ezinv_int.
  Definition Dc_src (DH : float) (fezint : float -> float -> float) (zmin zmax : float) : float :=
    (DH * (fezint zmin zmax)).
  Definition Dm_src (flat : bool) (ok tcfac : float) (fDc : float -> float -> float) (fsinh : float -> float) (fsin : float -> float) (zmin zmax : float) : float :=
    let d := (fDc zmin zmax) in let d := (if (negb flat) then (let d := (if ((0x0.0p+0) <? ok) then (let d := ((fsinh (d * tcfac)) / tcfac) in d) else (let d := ((fsin (d * tcfac)) / tcfac) in d)) in d) else (d)) in d.
  Definition Da_src (fDm : float -> float -> float) (zmin zmax : float) : float :=
    let d := (fDm zmin zmax) in let d := (d / ((0x1.0000000000000p+0) + zmax)) in d.
  Definition Dl_src (fDm : float -> float -> float) (zmin zmax : float) : float :=
    let d := (fDm zmin zmax) in let d := (d * ((0x1.0000000000000p+0) + zmax)) in d.
  Definition dV_src (DH : float) (fDa : float -> float -> float) (fez : float -> float) (z : float) : float :=
    let oneplusz := ((0x1.0000000000000p+0) + z) in let da := (fDa (0x0.0p+0) z) in let ezinv := (fez z) in let dv := (((((DH * da) * da) * ezinv) * oneplusz) * oneplusz) in dv.
  Definition V_src (xs ws : list float) (fdV : float -> float) (zmin zmax : float) : float :=
    let v := (0x0.0p+0) in let f1 := ((zmax - zmin) / (0x1.0000000000000p+1)) in let f2 := ((zmax + zmin) / (0x1.0000000000000p+1)) in let v := fold_left (fun v xw => let xi := fst xw in let wi := snd xw in let z := ((xi * f1) + f2) in let dv := (fdV z) in let v := (v + ((f1 * dv) * wi)) in v) (combine xs ws) v in ((v * (0x1.0000000000000p+2)) * M_PI_F).
  Definition scinv_src (fDa : float -> float -> float) (zl zs : float) : float :=
    if (zs <=? zl) then (0x0.0p+0) else (let dl := (fDa (0x0.0p+0) zl) in let ds := (fDa (0x0.0p+0) zs) in let dls := (fDa zl zs) in (((dls * dl) / ds) * FOUR_PI_G_OVER_C_SQUARED_F)).
  Definition tcfac_src (flat : bool) (DH ok : float) : float :=
    let tcfac := (0x0.0p+0) in let tcfac := (if (negb flat) then (let tcfac := (if ((0x0.0p+0) <? ok) then (let tcfac := ((PrimFloat.sqrt ok) / DH) in tcfac) else (let tcfac := ((PrimFloat.sqrt (- ok)) / DH) in tcfac)) in tcfac) else (tcfac)) in tcfac.
End GenCosmolib.

(* C11 -- lemmas: parameter normalisation and clones (generic number type), dispatch, identities
   of the distance chain over R, the link between the model chain and Hogg's definitions, and
   the reduction of the accuracy criterion to closeness to the Gauss-Legendre model value. *)
From Coq Require Import Reals Lra Lia QArith Qabs.
From Coquelicot Require Import Coquelicot.
From EsVerif.Common Require Import Base.
From EsVerif.C11 Require Import Gen Model Spec.

(* ========================================================================================== *)
(* parameters                                                                                 *)
(* ========================================================================================== *)
Section ParamsProofs.
  Context {num : Type}.
  Variables (zero one h_scale clight : num) (sub mul div : num -> num -> num) (is_zero : num -> bool).

  Notation extract := (extract_parms zero one sub is_zero).
  Notation mk := (construct zero one h_scale clight sub mul div is_zero).
  Notation cp := (copy zero one h_scale clight sub mul div is_zero).
  Notation unp := (unpickle zero one h_scale clight sub mul div is_zero).
  Notation chain := (clone_chain zero one h_scale clight sub mul div is_zero).

  (* flat forces omega_k = 0 and omega_l = 1 - omega_m; omega_m is never touched *)
  Lemma extract_normalised om ol ok flat :
    let '(f, om', ol', ok') := extract om ol ok flat in
    om' = om /\ (f = true -> ok' = zero /\ ol' = sub one om') /\
    (f = false -> exists k, ok = Some k /\ is_zero k = false /\ ok' = k /\ ol' = ol).
  Proof.
    unfold extract_parms. destruct ok as [k|].
    - destruct (is_zero k) eqn:Ez; cbn.
      + split; [reflexivity|]. split; [intros _; split; reflexivity | intro D; discriminate D].
      + split; [reflexivity|]. split; [intro D; discriminate D|].
        intros _. exists k. repeat split; assumption.
    - cbn. split; [reflexivity|]. split; [intros _; split; reflexivity | intro D; discriminate D].
  Qed.

  (* flat is decided by omega_k alone when it is given, and is forced when it is not *)
  Lemma extract_flat_flag om ol ok flat :
    fst (fst (fst (extract om ol ok flat))) =
    match ok with Some k => is_zero k | None => true end.
  Proof. unfold extract_parms. destruct ok as [k|]; [destruct (is_zero k)|]; reflexivity. Qed.

  Lemma construct_normalised a :
    let o := mk a in
    c_om o = a_om a /\ (c_flat o = true -> c_ok o = zero /\ c_ol o = sub one (c_om o)).
  Proof.
    unfold construct. pose proof (extract_normalised (a_om a) (a_ol a) (a_ok a) (a_flat a)) as E.
    destruct (extract (a_om a) (a_ol a) (a_ok a) (a_flat a)) as [[[f om'] ol'] ok'].
    cbn. destruct E as [E1 [E2 _]]. split; assumption.
  Qed.

  (* h overrides H0 *)
  Lemma construct_hubble a :
    let o := mk a in
    s_H0 o = match a_h a with Some h => mul h_scale h | None => a_H0 a end
    /\ c_DH o = div clight (s_H0 o).
  Proof.
    unfold construct.
    destruct (extract (a_om a) (a_ol a) (a_ok a) (a_flat a)) as [[[f om'] ol'] ok'].
    cbn. split; reflexivity.
  Qed.

  (* copy(), copy.copy, copy.deepcopy of a constructed object: the very same object state *)
  Lemma copy_construct a : cp (mk a) = mk (stored_args (mk a)) /\ reported (cp (mk a)) = reported (mk a).
  Proof.
    split; [reflexivity|].
    unfold copy, stored_args, construct.
    destruct (extract (a_om a) (a_ol a) (a_ok a) (a_flat a)) as [[[f om'] ol'] ok'] eqn:E.
    cbn. rewrite E. cbn. reflexivity.
  Qed.

  Hypothesis zero_is_zero : is_zero zero = true.

  (* __reduce__ round trip *)
  Lemma unpickle_construct a : reported (unp (mk a)) = reported (mk a).
  Proof.
    unfold unpickle, reduce_args, construct.
    pose proof (extract_normalised (a_om a) (a_ol a) (a_ok a) (a_flat a)) as N.
    destruct (extract (a_om a) (a_ol a) (a_ok a) (a_flat a)) as [[[f om'] ol'] ok'] eqn:E.
    destruct N as [N1 [N2 N3]]. cbn.
    unfold extract_parms. destruct f.
    - destruct (N2 eq_refl) as [K L]. subst ok'. rewrite zero_is_zero. cbn. rewrite L. reflexivity.
    - destruct (N3 eq_refl) as [k [_ [Z [K L]]]]. subst ok'. rewrite Z. cbn. reflexivity.
  Qed.

  Lemma reduce_roundtrip_extract a :
    let o := mk a in
    extract (c_om o) (c_ol o) (Some (c_ok o)) (c_flat o) = (c_flat o, c_om o, c_ol o, c_ok o).
  Proof.
    pose proof (unpickle_construct a) as U. cbv zeta.
    unfold unpickle, reduce_args, construct in U.
    destruct (extract (a_om a) (a_ol a) (a_ok a) (a_flat a)) as [[[f om'] ol'] ok'] eqn:E.
    unfold construct. rewrite E. cbn in *.
    destruct (extract om' ol' (Some ok') f) as [[[f2 om2] ol2] ok2]. cbn in U.
    inversion U. reflexivity.
  Qed.

  (* every object reachable by copy / copy.copy / deepcopy / pickle reports the same parameters *)
  Lemma clone_chain_reported ops : forall a, reported (chain a ops) = reported (mk a).
  Proof.
    unfold clone_chain.
    assert (G : forall ops o, (exists a', o = mk a') ->
                fold_left (apply_op zero one h_scale clight sub mul div is_zero) ops o = o \/
                (exists a'', fold_left (apply_op zero one h_scale clight sub mul div is_zero) ops o = mk a'' /\
                             reported (mk a'') = reported o)).
    { clear ops. induction ops as [|op ops IH]; intros o [a' Ho]; [left; reflexivity|].
      cbn [fold_left]. right.
      assert (S : exists a2, apply_op zero one h_scale clight sub mul div is_zero o op = mk a2 /\
                             reported (mk a2) = reported o).
      { subst o. destruct op; cbn [apply_op].
        1-3: (exists (stored_args (mk a')); split; [apply copy_construct | ];
              rewrite <- (proj1 (copy_construct a')); apply copy_construct).
        exists (reduce_args (mk a')). split; [reflexivity|]. apply unpickle_construct. }
      destruct S as [a2 [S1 S2]]. rewrite S1.
      destruct (IH (mk a2) (ex_intro _ a2 eq_refl)) as [I|[a3 [I1 I2]]].
      - exists a2. split; assumption.
      - exists a3. split; [assumption|]. rewrite I2. assumption. }
    intro a. destruct (G ops (mk a) (ex_intro _ a eq_refl)) as [I|[a3 [I1 I2]]].
    - rewrite I. reflexivity.
    - rewrite I1. assumption.
  Qed.
End ParamsProofs.

(* ========================================================================================== *)
(* dispatch                                                                                   *)
(* ========================================================================================== *)
Section DispatchProofs.
  Context {A B : Type}.

  Lemma two_vec_length (f : A -> A -> B) xs : forall ys, length xs = length ys -> length (two_vec f xs ys) = length xs.
  Proof. induction xs as [|x xs IH]; intros [|y ys] H; simpl in *; try discriminate; auto. Qed.

  Lemma two_vec_nth (f : A -> A -> B) xs : forall ys i d e, length xs = length ys -> (i < length xs)%nat ->
    nth i (two_vec f xs ys) e = f (nth i xs d) (nth i ys d).
  Proof.
    induction xs as [|x xs IH]; intros [|y ys] i d e H L; simpl in *; try discriminate; try lia.
    destruct i as [|i]; [reflexivity|]. apply IH; lia.
  Qed.

  Lemma map_nth' {C D} (g : C -> D) l : forall i d e, (i < length l)%nat -> nth i (map g l) e = g (nth i l d).
  Proof.
    induction l as [|x l IH]; intros i d e L; simpl in *; [lia|].
    destruct i; [reflexivity|]. apply IH; lia.
  Qed.

  Lemma dispatch2_elementwise (f : A -> A -> B) a b : elementwise2 f a b (dispatch2 f a b).
  Proof.
    destruct a as [x|xs], b as [y|ys]; cbn.
    - reflexivity.
    - exists (vec2 f x ys). split; [reflexivity|]. unfold vec2. split; [apply map_length|].
      intros i d e L. apply (map_nth' (fun y => f x y)); assumption.
    - exists (vec1 f xs y). split; [reflexivity|]. unfold vec1. split; [apply map_length|].
      intros i d e L. apply (map_nth' (fun x => f x y)); assumption.
    - destruct (Nat.eqb (length xs) (length ys)) eqn:E; [|reflexivity].
      apply Nat.eqb_eq in E. exists (two_vec f xs ys). split; [reflexivity|].
      split; [apply two_vec_length; assumption|]. intros i d e L. apply two_vec_nth; assumption.
  Qed.

  Lemma dispatch2_mismatch (f : A -> A -> B) xs ys :
    length xs <> length ys -> dispatch2 f (Ar xs) (Ar ys) = Err EValue.
  Proof. intro H. cbn. apply Nat.eqb_neq in H. rewrite H. reflexivity. Qed.

  Lemma dispatch2_arrays (f : A -> A -> B) xs ys :
    length xs = length ys ->
    dispatch2 f (Ar xs) (Ar ys) = Ok (Ar (map (fun p => f (fst p) (snd p)) (combine xs ys))).
  Proof.
    intro H. cbn. rewrite (proj2 (Nat.eqb_eq _ _) H). do 2 f_equal.
    revert ys H. induction xs as [|x xs IH]; intros [|y ys] H; simpl in *; try discriminate; [reflexivity|].
    f_equal. apply IH. lia.
  Qed.

  Lemma dispatch1_elementwise (g : A -> B) a : elementwise1 g a (dispatch1 g a).
  Proof.
    destruct a as [x|xs]; cbn; [reflexivity|].
    exists (map g xs). split; [reflexivity|]. split; [apply map_length|].
    intros i d e L. apply map_nth'; assumption.
  Qed.
End DispatchProofs.

(* distmod of an array = the array of scalar distmods *)
Lemma distmod_dispatch_elementwise {A B C} (dl : A -> A -> B) (post : B -> C) zero z :
  distmod_dispatch dl post zero z =
  Ok (dispatch1 (fun x => post (dl zero x)) z).
Proof.
  unfold distmod_dispatch. destruct z as [x|xs]; cbn; [reflexivity|].
  unfold vec2. rewrite map_map. reflexivity.
Qed.

(* soundness of the boolean element-wise checkers *)
Lemma pointwise2_b_sound f : forall xs ys l, pointwise2_b f xs ys l = true ->
  length l = length xs /\ length xs = length ys /\
  forall i d e, (i < length xs)%nat -> nth i l e = f (nth i xs d) (nth i ys d).
Proof.
  induction xs as [|x xs IH]; intros [|y ys] [|v l] H; simpl in *; try discriminate.
  - repeat split; intros; lia.
  - apply andb_true_iff in H as [H1 H2]. apply Z.eqb_eq in H1. destruct (IH _ _ H2) as [L1 [L2 N]].
    repeat split; try lia. intros [|i] d e L; [assumption|]. apply N. lia.
Qed.

Lemma nth_repeat' {T} (y : T) n i d : (i < n)%nat -> nth i (repeat y n) d = y.
Proof. revert i; induction n as [|n IH]; intros [|i] L; simpl; try lia; auto. apply IH; lia. Qed.

Lemma elementwise2_b_sound f a b out : elementwise2_b f a b out = true -> elementwise2 f a b out.
Proof.
  destruct a as [x|xs], b as [y|ys]; destruct out as [[v|l]|e]; cbn; try discriminate; intro H.
  - apply Z.eqb_eq in H. subst; reflexivity.
  - destruct (pointwise2_b_sound _ _ _ _ H) as [L1 [L2 N]]. rewrite repeat_length in L1.
    exists l. split; [reflexivity|]. split; [assumption|]. intros i d e L.
    assert (L' : (i < length (repeat x (length ys)))%nat) by (rewrite repeat_length; assumption).
    rewrite (N i d e L'). rewrite nth_repeat' by assumption. reflexivity.
  - destruct (pointwise2_b_sound _ _ _ _ H) as [L1 [L2 N]].
    exists l. split; [reflexivity|]. split; [assumption|]. intros i d e L.
    rewrite (N i d e L). rewrite nth_repeat' by assumption. reflexivity.
  - apply andb_true_iff in H as [H1 H2]. rewrite H1.
    destruct (pointwise2_b_sound _ _ _ _ H2) as [L1 [L2 N]].
    exists l. split; [reflexivity|]. split; [assumption|]. exact N.
  - destruct e; try discriminate. apply negb_true_iff in H. rewrite H. reflexivity.
Qed.

Lemma pointwise1_b_sound g : forall xs l, pointwise1_b g xs l = true ->
  length l = length xs /\ forall i d e, (i < length xs)%nat -> nth i l e = g (nth i xs d).
Proof.
  induction xs as [|x xs IH]; intros [|v l] H; simpl in *; try discriminate.
  - split; intros; lia.
  - apply andb_true_iff in H as [H1 H2]. apply Z.eqb_eq in H1. destruct (IH _ H2) as [L1 N].
    split; [lia|]. intros [|i] d e L; [assumption|]. apply N. lia.
Qed.

Lemma elementwise1_b_sound g a out : elementwise1_b g a out = true -> elementwise1 g a out.
Proof.
  destruct a as [x|xs]; destruct out as [v|l]; cbn; try discriminate; intro H.
  - apply Z.eqb_eq in H. subst; reflexivity.
  - destruct (pointwise1_b_sound _ _ _ H) as [L N]. exists l. repeat split; assumption.
Qed.

(* ========================================================================================== *)
(* "to rounding" checkers over Q                                                              *)
(* ========================================================================================== *)
Lemma close_b_sound a b : close_b a b = true -> close_to_rounding a b.
Proof. unfold close_b, close_to_rounding. intro H. apply Qle_bool_iff. exact H. Qed.

Lemma identities_b_sound o : identities_b o = true -> identities o.
Proof.
  unfold identities_b, identities. intro H.
  repeat (apply andb_true_iff in H; destruct H as [H ?]).
  repeat split; try (apply close_b_sound; assumption); try (apply Qeq_bool_iff; assumption).
  intro F. rewrite F in *. apply close_b_sound. assumption.
Qed.

(* ========================================================================================== *)
(* the chain over R                                                                           *)
(* ========================================================================================== *)
Local Open Scope R_scope.

Definition rsum (l : list R) : R := fold_right Rplus 0 l.

Lemma fold_left_rsum {T} (h : T -> R) l : forall a0, fold_left (fun acc p => acc + h p) l a0 = a0 + rsum (map h l).
Proof. induction l as [|p l IH]; intro a0; simpl; [lra|]. rewrite IH. lra. Qed.

Lemma rsum_app l1 l2 : rsum (l1 ++ l2) = rsum l1 + rsum l2.
Proof. induction l1 as [|x l1 IH]; simpl; [lra|]. rewrite IH. lra. Qed.

Lemma rsum_rev l : rsum (rev l) = rsum l.
Proof. induction l as [|x l IH]; simpl; [reflexivity|]. rewrite rsum_app, IH. simpl. lra. Qed.

Lemma rsum_map_opp {T} (h : T -> R) l : rsum (map (fun p => - h p) l) = - rsum (map h l).
Proof. induction l as [|x l IH]; simpl; [lra|]. rewrite IH. lra. Qed.

Lemma combine_app' {S T} (l1 l1' : list S) (l2 l2' : list T) :
  length l1 = length l2 -> combine (l1 ++ l1') (l2 ++ l2') = combine l1 l2 ++ combine l1' l2'.
Proof.
  revert l2. induction l1 as [|x l1 IH]; intros [|y l2] H; simpl in *; try discriminate; [reflexivity|].
  f_equal. apply IH. lia.
Qed.

Lemma combine_rev' {S T} (l1 : list S) : forall (l2 : list T),
  length l1 = length l2 -> rev (combine l1 l2) = combine (rev l1) (rev l2).
Proof.
  induction l1 as [|x l1 IH]; intros [|y l2] H; simpl in *; try discriminate; [reflexivity|].
  rewrite combine_app' by (rewrite !rev_length; lia). rewrite IH by lia. reflexivity.
Qed.

Lemma gl_sum_as_rsum xs ws g a b :
  gl_sum xs ws g a b =
  rsum (map (fun xw => (b - a) / 2 * g (fst xw * ((b - a) / 2) + (b + a) / 2) * snd xw) (combine xs ws)).
Proof. unfold gl_sum. cbv zeta. rewrite fold_left_rsum. lra. Qed.

(* the affine map of a mirror-symmetric node set: exchanging the limits reverses the nodes *)
Lemma affine_mirror xs a b : rev xs = map Ropp xs ->
  map (fun x => x * ((a - b) / 2) + (a + b) / 2) xs = rev (map (fun x => x * ((b - a) / 2) + (b + a) / 2) xs).
Proof.
  intro M. rewrite <- map_rev, M, map_map. apply map_ext. intro x. lra.
Qed.

Lemma map_combine_opp (h : R * R -> R) xs : forall ws,
  map (fun xw => h (- fst xw, snd xw)) (combine xs ws) = map h (combine (map Ropp xs) ws).
Proof. induction xs as [|x xs IH]; intros [|w ws]; simpl; try reflexivity. f_equal. apply IH. Qed.

(* Dc(a,b) = -Dc(b,a) for every integrand, given a mirror-symmetric table *)
Lemma gl_sum_antisym xs ws g a b : mirror xs ws -> gl_sum xs ws g a b = - gl_sum xs ws g b a.
Proof.
  intros [L [MX MW]]. rewrite !gl_sum_as_rsum.
  set (h := fun xw : R * R => (b - a) / 2 * g (fst xw * ((b - a) / 2) + (b + a) / 2) * snd xw).
  transitivity (- rsum (map (fun xw => - h (- fst xw, snd xw)) (combine xs ws))).
  2:{ f_equal. f_equal. apply map_ext. intros [x w]. unfold h. cbn [fst snd].
      replace (- x * ((b - a) / 2) + (b + a) / 2) with (x * ((a - b) / 2) + (a + b) / 2) by lra. lra. }
  rewrite (rsum_map_opp (fun xw => h (- fst xw, snd xw))). rewrite Ropp_involutive.
  rewrite (map_combine_opp h). rewrite <- MX. rewrite <- MW at 2.
  rewrite <- combine_rev' by assumption. rewrite map_rev, rsum_rev. reflexivity.
Qed.

Lemma gl_sum_same xs ws g a : gl_sum xs ws g a a = 0.
Proof.
  rewrite gl_sum_as_rsum. replace ((a - a) / 2) with 0 by lra.
  induction (combine xs ws) as [|p l IH]; simpl; [reflexivity|]. rewrite IH. lra.
Qed.

Section ChainProofs.
  Variables (xs ws vxs vws : list R) (c : cosmoR).

  Lemma Da_is_Dm_over z1 z2 : Da_GL xs ws c z1 z2 = Dm_GL xs ws c z1 z2 / (1 + z2).
  Proof. reflexivity. Qed.

  Lemma Dl_is_Dm_times z1 z2 : Dl_GL xs ws c z1 z2 = Dm_GL xs ws c z1 z2 * (1 + z2).
  Proof. reflexivity. Qed.

  Lemma Da_Dl_reciprocity z1 z2 : 1 + z2 <> 0 -> Dl_GL xs ws c z1 z2 = Da_GL xs ws c z1 z2 * (1 + z2) ^ 2.
  Proof. intro H. unfold Dl_GL, Da_GL. field. assumption. Qed.

  Lemma flat_Dm_is_Dc z1 z2 : cflat c = true -> Dm_GL xs ws c z1 z2 = Dc_GL xs ws c z1 z2.
  Proof. intro F. unfold Dm_GL, Dm_of. rewrite F. reflexivity. Qed.

  Lemma Dc_antisym z1 z2 : mirror xs ws -> Dc_GL xs ws c z1 z2 = - Dc_GL xs ws c z2 z1.
  Proof. intro M. unfold Dc_GL, ezinv_integral. rewrite (gl_sum_antisym xs ws _ z1 z2 M). lra. Qed.

  Lemma Dc_same z : Dc_GL xs ws c z z = 0.
  Proof. unfold Dc_GL, ezinv_integral. rewrite gl_sum_same. lra. Qed.

  Lemma scinv_zero zl zs : zs <= zl -> scinv_GL xs ws c zl zs = 0.
  Proof. intro H. unfold scinv_GL. destruct (Rle_dec zs zl); [reflexivity|contradiction]. Qed.

  Lemma scinv_behind zl zs : zl < zs ->
    scinv_GL xs ws c zl zs =
    Da_GL xs ws c zl zs * Da_GL xs ws c 0 zl / Da_GL xs ws c 0 zs * FOUR_PI_G_OVER_C_SQUARED_R.
  Proof. intro H. unfold scinv_GL. destruct (Rle_dec zs zl); [lra|reflexivity]. Qed.
End ChainProofs.

(* ------------------------------------------------------------------------------------------ *)
(* the model chain is Hogg's chain with the integral replaced by the quadrature sum            *)
(* ------------------------------------------------------------------------------------------ *)
Lemma ez_inverse_is_def c z : (cflat c = true -> cok c = 0) -> 0 < E2 c z -> ez_inverse c z = Einv_def c z.
Proof.
  intros N P. unfold ez_inverse, Einv_def. cbv zeta.
  assert (Q : forall x, 0 < x -> sqrt (1 / x) = / sqrt x).
  { intros x Hx. unfold Rdiv. rewrite Rmult_1_l. apply sqrt_inv. }
  unfold E2 in *. destruct (cflat c) eqn:F.
  - pose proof (N eq_refl) as K. rewrite K in *.
    replace (com c * (1 + z) * (1 + z) * (1 + z) + col c) with (com c * (1 + z) ^ 3 + 0 * (1 + z) ^ 2 + col c) by ring.
    apply Q. assumption.
  - replace (com c * ((1 + z) * (1 + z)) * (1 + z) + cok c * ((1 + z) * (1 + z)) + col c)
      with (com c * (1 + z) ^ 3 + cok c * (1 + z) ^ 2 + col c) by ring.
    apply Q. assumption.
Qed.

(* curvature of the struct agrees with the sign of omega_k: flat <-> omega_k = 0 *)
Definition curvature_consistent (c : cosmoR) : Prop :=
  (cflat c = true -> cok c = 0) /\ (cflat c = false -> cok c <> 0).

Lemma Dm_of_is_def c d : 0 < cDH c -> curvature_consistent c -> Dm_of c d = Dm_of_def c d.
Proof.
  intros HD [C1 C2]. unfold Dm_of, Dm_of_def, tcfac.
  destruct (cflat c) eqn:F.
  - rewrite (C1 eq_refl). destruct (total_order_T 0 0) as [[L|E]|G]; [lra | reflexivity | lra].
  - specialize (C2 eq_refl). destruct (total_order_T 0 (cok c)) as [[L|E]|G].
    + destruct (Rlt_dec 0 (cok c)); [|lra].
      assert (0 < sqrt (cok c)) by (apply sqrt_lt_R0; assumption).
      replace (d * (sqrt (cok c) / cDH c)) with (sqrt (cok c) * d / cDH c) by (field; lra).
      field. split; lra.
    + exfalso. apply C2. symmetry. assumption.
    + destruct (Rlt_dec 0 (cok c)); [lra|].
      assert (0 < sqrt (- cok c)) by (apply sqrt_lt_R0; lra).
      replace (d * (sqrt (- cok c) / cDH c)) with (sqrt (- cok c) * d / cDH c) by (field; lra).
      field. split; lra.
Qed.

Section Hogg.
  Variables (xs ws : list R) (c : cosmoR).
  Hypothesis DHpos : 0 < cDH c.
  Hypothesis Hcurv : curvature_consistent c.

  (* IF the quadrature sum were the integral, every distance would be Hogg's *)
  Lemma chain_is_Hogg z1 z2 :
    ezinv_integral xs ws c z1 z2 = I_def c z1 z2 ->
    Dc_GL xs ws c z1 z2 = Dc_def c z1 z2 /\ Dm_GL xs ws c z1 z2 = Dm_def c z1 z2 /\
    Da_GL xs ws c z1 z2 = Da_def c z1 z2 /\ Dl_GL xs ws c z1 z2 = Dl_def c z1 z2.
  Proof.
    intro E.
    assert (D : Dc_GL xs ws c z1 z2 = Dc_def c z1 z2) by (unfold Dc_GL, Dc_def; rewrite E; reflexivity).
    assert (M : Dm_GL xs ws c z1 z2 = Dm_def c z1 z2).
    { unfold Dm_GL, Dm_def. rewrite D. apply Dm_of_is_def; assumption. }
    repeat split; try assumption.
    - unfold Da_GL, Da_def. rewrite M. reflexivity.
    - unfold Dl_GL, Dl_def. rewrite M. reflexivity.
  Qed.

  Lemma distmod_is_Hogg z :
    ezinv_integral xs ws c 0 z = I_def c 0 z -> distmod_GL xs ws c z = distmod_def c z.
  Proof.
    intro E. destruct (chain_is_Hogg 0 z E) as [_ [_ [_ L]]].
    unfold distmod_GL, distmod_of, distmod_def, log10. rewrite L.
    replace (10 ^ 6) with 1000000 by (simpl; lra). reflexivity.
  Qed.

  Lemma dV_is_Hogg z : 0 < E2 c z ->
    ezinv_integral xs ws c 0 z = I_def c 0 z -> dV_GL xs ws c z = dV_def c z.
  Proof.
    intros P E. destruct (chain_is_Hogg 0 z E) as [_ [_ [A _]]].
    unfold dV_GL, dV_def. cbv zeta. rewrite A, (ez_inverse_is_def c z (proj1 Hcurv) P). ring.
  Qed.

  Lemma scinv_is_Hogg zl zs :
    FOUR_PI_G_OVER_C_SQUARED_R = FOUR_PI_G_OVER_C2 ->
    ezinv_integral xs ws c zl zs = I_def c zl zs ->
    ezinv_integral xs ws c 0 zl = I_def c 0 zl ->
    ezinv_integral xs ws c 0 zs = I_def c 0 zs ->
    scinv_GL xs ws c zl zs = scinv_def c zl zs.
  Proof.
    intros K E1 E2 E3.
    destruct (chain_is_Hogg _ _ E1) as [_ [_ [A1 _]]].
    destruct (chain_is_Hogg _ _ E2) as [_ [_ [A2 _]]].
    destruct (chain_is_Hogg _ _ E3) as [_ [_ [A3 _]]].
    unfold scinv_GL, scinv_def. rewrite A1, A2, A3, K.
    destruct (Rle_dec zs zl); [reflexivity|]. unfold Rdiv. ring.
  Qed.
End Hogg.

(* V: the outer sum is the VNPTS-point rule applied to 4 pi dV (constant factored out) *)
Lemma V_GL_is_rule xs ws vxs vws c z1 z2 :
  V_GL xs ws vxs vws c z1 z2 = gl_sum vxs vws (fun z => 4 * PI * dV_GL xs ws c z) z1 z2.
Proof.
  unfold V_GL. rewrite !gl_sum_as_rsum.
  induction (combine vxs vws) as [|p l IH]; simpl; [lra|].
  rewrite <- IH. lra.
Qed.

(* ------------------------------------------------------------------------------------------ *)
(* two redshifts: the sinh/sin form used by the code equals Hogg's eq. 19                      *)
(* ------------------------------------------------------------------------------------------ *)
Lemma sinh_minus u v : sinh (u - v) = sinh u * cosh v - cosh u * sinh v.
Proof.
  unfold sinh, cosh. replace (- (u - v)) with (- u + v) by lra. unfold Rminus.
  rewrite !exp_plus. field.
Qed.

Lemma cosh2_sinh2 u : cosh u ^ 2 = 1 + sinh u ^ 2.
Proof.
  unfold cosh, sinh.
  assert (E : exp u * exp (- u) = 1) by (rewrite <- exp_plus, Rplus_opp_r; apply exp_0).
  replace (((exp u + exp (- u)) / 2) ^ 2) with ((exp u ^ 2 + 2 * (exp u * exp (- u)) + exp (- u) ^ 2) / 4) by field.
  replace (((exp u - exp (- u)) / 2) ^ 2) with ((exp u ^ 2 - 2 * (exp u * exp (- u)) + exp (- u) ^ 2) / 4) by field.
  rewrite E. field.
Qed.

Lemma sqrt_1_sinh2 u : sqrt (1 + sinh u ^ 2) = cosh u.
Proof.
  replace (1 + sinh u ^ 2) with (cosh u ^ 2).
  - replace (cosh u ^ 2) with (Rsqr (cosh u)) by (unfold Rsqr; ring).
    apply sqrt_Rsqr. unfold cosh. pose proof (exp_pos u). pose proof (exp_pos (- u)). lra.
  - apply cosh2_sinh2.
Qed.

(* eq. 19 for omega_k > 0 with DM_i = DH/sqrt(Ok) sinh(sqrt(Ok) Dc_i/DH) *)
Lemma two_redshift_Hogg19_open DH ok d1 d2 : 0 < DH -> 0 < ok ->
  let s := sqrt ok in
  let DM1 := DH / s * sinh (s * d1 / DH) in
  let DM2 := DH / s * sinh (s * d2 / DH) in
  DH / s * sinh (s * (d2 - d1) / DH) =
  DM2 * sqrt (1 + ok * DM1 ^ 2 / DH ^ 2) - DM1 * sqrt (1 + ok * DM2 ^ 2 / DH ^ 2).
Proof.
  intros HD HK s DM1 DM2.
  assert (Hs : 0 < s) by (apply sqrt_lt_R0; assumption).
  assert (Hss : s * s = ok) by (apply sqrt_sqrt; lra).
  assert (E : forall d, 1 + ok * (DH / s * sinh (s * d / DH)) ^ 2 / DH ^ 2 = 1 + sinh (s * d / DH) ^ 2).
  { intro d. rewrite <- Hss. field. split; lra. }
  unfold DM1, DM2. rewrite !E, !sqrt_1_sinh2.
  replace (s * (d2 - d1) / DH) with (s * d2 / DH - s * d1 / DH) by (field; lra).
  rewrite sinh_minus. field. lra.
Qed.

Lemma sqrt_1_minus_sin2 u : 0 <= cos u -> sqrt (1 - sin u ^ 2) = cos u.
Proof.
  intro H. replace (1 - sin u ^ 2) with (Rsqr (cos u)).
  - apply sqrt_Rsqr. assumption.
  - pose proof (sin2_cos2 u) as S. unfold Rsqr in *. lra.
Qed.

(* eq. 19's analogue for omega_k < 0 (valid while both objects are on the near hemisphere) *)
Lemma two_redshift_Hogg19_closed DH ok d1 d2 : 0 < DH -> ok < 0 ->
  let s := sqrt (- ok) in
  0 <= cos (s * d1 / DH) -> 0 <= cos (s * d2 / DH) ->
  let DM1 := DH / s * sin (s * d1 / DH) in
  let DM2 := DH / s * sin (s * d2 / DH) in
  DH / s * sin (s * (d2 - d1) / DH) =
  DM2 * sqrt (1 + ok * DM1 ^ 2 / DH ^ 2) - DM1 * sqrt (1 + ok * DM2 ^ 2 / DH ^ 2).
Proof.
  intros HD HK s C1 C2 DM1 DM2.
  assert (Hs : 0 < s) by (apply sqrt_lt_R0; lra).
  assert (Hss : s * s = - ok) by (apply sqrt_sqrt; lra).
  assert (E : forall d, 1 + ok * (DH / s * sin (s * d / DH)) ^ 2 / DH ^ 2 = 1 - sin (s * d / DH) ^ 2).
  { intro d. replace ok with (- (s * s)) by lra. field. split; lra. }
  unfold DM1, DM2. rewrite !E, !sqrt_1_minus_sin2 by assumption.
  replace (s * (d2 - d1) / DH) with (s * d2 / DH - s * d1 / DH) by (field; lra).
  rewrite sin_minus. field. lra.
Qed.

(* ------------------------------------------------------------------------------------------ *)
(* the criterion follows from closeness to the Gauss-Legendre model value, whatever the         *)
(* reference: |out - ref| <= |gl - ref| + |out - gl|                                            *)
(* ------------------------------------------------------------------------------------------ *)
Lemma within_truncation_of_close out ref gl : close12 out gl -> within_truncation out ref gl.
Proof.
  unfold close12. intro H. unfold within_truncation.
  replace (out - ref) with ((out - gl) + (gl - ref)) by lra.
  eapply Rle_trans; [apply Rabs_triang|].
  pose proof (Rabs_pos (gl - ref)). lra.
Qed.

(* and, conversely, what the criterion gives: an explicit error bound *)
Lemma within_truncation_bound out ref gl t :
  within_truncation out ref gl -> Rabs (gl - ref) <= t ->
  Rabs (out - ref) <= 3 / 2 * t + 1 / 10 ^ 12 * Rabs out.
Proof. unfold within_truncation. intros H T. lra. Qed.

(* rewriting lemmas used by the generated per-case certificates (flat universes) *)
Lemma Dm_of_def_flat c d : cok c = 0 -> Dm_of_def c d = d.
Proof. intro K. unfold Dm_of_def. rewrite K. destruct (total_order_T 0 0) as [[L|E]|G]; [lra | reflexivity | lra]. Qed.

Lemma Vcum_of_flat c d : cok c = 0 -> Vcum_of c d = 4 * PI / 3 * d ^ 3.
Proof. intro K. unfold Vcum_of. rewrite K. destruct (total_order_T 0 0) as [[L|E]|G]; [lra | reflexivity | lra]. Qed.

Lemma scinv_def_behind c zl zs : zl < zs ->
  scinv_def c zl zs = FOUR_PI_G_OVER_C2 * Da_def c zl zs * Da_def c 0 zl / Da_def c 0 zs.
Proof. intro H. unfold scinv_def. destruct (Rle_dec zs zl); [lra|reflexivity]. Qed.

Lemma I_def_same c z : I_def c z z = 0.
Proof. unfold I_def. exact (@RInt_point R_CompleteNormedModule z (Einv_def c)). Qed.

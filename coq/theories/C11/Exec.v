(* C11 -- glue evaluated by generated case files (vm_compute):
     verdict = (model = implementation ?) + 2 * (property checker rejects the implementation).
   The bit-exact binary64 model (ModelF) is compared with the outputs of the real esutil; the
   "identities to rounding" and the normalisation rules are decided on the exact rational
   values of those outputs (Spec.identities_b etc.).  The accuracy part of the property is
   certified separately, one kernel-checked lemma per case and quantity (Cert.cert). *)
From Coq Require Import PrimFloat Uint63 FloatOps SpecFloat ZArith List Bool QArith Qabs.
From EsVerif.Common Require Import Base Bytes.
From EsVerif.C11 Require Import Gen Model ModelF Spec.
Import ListNotations.

(* ---------------------------------------------------------------- parameters, copies, pickle *)
Definition fzero : float := 0%float.
Definition f_is_zero (x : float) : bool := PrimFloat.eqb x 0%float.       (* omega_k == 0.0 *)

Definition constructF := @construct float fzero 1%float H_SCALE_F PY_CLIGHT_F PrimFloat.sub PrimFloat.mul PrimFloat.div f_is_zero.
Definition clone_chainF := @clone_chain float fzero 1%float H_SCALE_F PY_CLIGHT_F PrimFloat.sub PrimFloat.mul PrimFloat.div f_is_zero.

(* keyword arguments as given by the caller (None = not passed: the default of the signature) *)
Record kwargs := mkKw { k_H0 : option float; k_h : option float; k_flat : option bool;
                        k_om : option float; k_ol : option float; k_ok : option float }.
Definition dflt {A} (d : A) (o : option A) : A := match o with Some v => v | None => d end.
Definition fill (k : kwargs) : @ctor_args float :=
  mkArgs (dflt DEFAULT_H0_F (k_H0 k)) (k_h k) (dflt DEFAULT_FLAT (k_flat k))
         (dflt DEFAULT_OMEGA_M_F (k_om k)) (dflt DEFAULT_OMEGA_L_F (k_ol k)) (k_ok k).

(* H0(), DH(), flat(), omega_m(), omega_l(), omega_k() *)
Record rep := mkRep { r_H0 : float; r_DH : float; r_flat : bool; r_om : float; r_ol : float; r_ok : float }.
Definition rep_of (t : float * float * bool * float * float * float) : rep :=
  let '(a, b, c, d, e, f) := t in mkRep a b c d e f.
Definition rep_same (a b : rep) : bool :=
  fsame (r_H0 a) (r_H0 b) && fsame (r_DH a) (r_DH b) && Bool.eqb (r_flat a) (r_flat b)
  && fsame (r_om a) (r_om b) && fsame (r_ol a) (r_ol b) && fsame (r_ok a) (r_ok b).

Definition op_of (n : Z) : clone_op :=
  if n =? 0 then OpCopy else if n =? 1 then OpCopyCopy else if n =? 2 then OpDeepCopy else OpPickle.

Definition qof (f : float) : Q := match float_to_Q f with Some q => q | None => 0%Q end.
Definition finite (f : float) : bool := match float_to_Q f with Some _ => true | None => false end.

(* the documented rules, on the implementation's reported values:
   flat forces omega_k = 0 and omega_l = 1 - omega_m; omega_k given decides flatness; h overrides
   H0 (H0 = 100 h); DH = c/H0; the documented defaults (H0 = 100, omega_m = 0.3) *)
Definition CLIGHT_Q : Q := 299792458 # 1000.
Definition params_ok (k : kwargs) (r : rep) : bool :=
  finite (r_H0 r) && finite (r_DH r) && finite (r_om r) && finite (r_ol r) && finite (r_ok r)
  && (if r_flat r then Qeq_bool (qof (r_ok r)) 0 && close_b (qof (r_ol r)) (1 - qof (r_om r))
      else match k_ol k with Some l => fsame (r_ol r) l | None => true end)
  && match k_ok k with
     | Some w => Bool.eqb (r_flat r) (Qeq_bool (qof w) 0) && (r_flat r || fsame (r_ok r) w)
     | None => r_flat r
     end
  && match k_om k with Some m => fsame (r_om r) m | None => close_b (qof (r_om r)) (3 # 10) end
  && match k_h k, k_H0 k with
     | Some h, _ => close_b (qof (r_H0 r)) (100 * qof h)
     | None, Some H => fsame (r_H0 r) H
     | None, None => Qeq_bool (qof (r_H0 r)) 100
     end
  && close_b (qof (r_DH r) * qof (r_H0 r)) CLIGHT_Q.

(* out = reported values of the constructed object, of the clone, and the bit patterns of a
   probe set of distances computed by both *)
Definition v_params (k : kwargs) (ops : list Z) (orig clone : rep) (d_orig d_clone : list Z) : Z :=
  let a := fill k in
  verdict (rep_same (rep_of (reported (constructF a))) orig
           && rep_same (rep_of (reported (clone_chainF a (map op_of ops)))) clone)
          (params_ok k orig && rep_same orig clone && zlist_eqb d_orig d_clone).

(* ---------------------------------------------------------------- sequences of constructions / clones / calls *)
(* Several objects live in ONE process.  [items]: every observation of a reported-parameter tuple in the sequence --
   right after the construction or clone operation and again at the end of the sequence -- together with the keyword
   arguments of the object's root constructor call and the clone operations that lead from the root to the object.
   The model (history-free by construction) must reproduce each of them and the documented rules must hold for each;
   [seq] are the results (bit patterns, length-prefixed) of the method calls made in the sequence, [alone] the results
   of the same calls made on the same object built alone in a fresh process: the statement's quantities are functions
   of the parameters and redshifts only, hence independent of the history. *)
Definition seq_item_agree (it : kwargs * list Z * rep) : bool :=
  let '(k, ops, r) := it in rep_same (rep_of (reported (clone_chainF (fill k) (map op_of ops)))) r.
Definition seq_item_ok (it : kwargs * list Z * rep) : bool :=
  let '(k, _, r) := it in params_ok k r.
Definition v_sequence (items : list (kwargs * list Z * rep)) (seq alone : list Z) : Z :=
  verdict (forallb seq_item_agree items) (forallb seq_item_ok items && zlist_eqb seq alone).

(* ---------------------------------------------------------------- the distance chain, bit-exact *)
Record chain_out := mkOut {
  o_ez : float; o_int : float; o_Dc : float; o_Dm : float; o_Da : float; o_Dl : float;
  o_dV : float; o_V : float; o_sc : float;
  o_Dc_rev : float; o_sc_rev : float; o_sc_same : float }.

Definition osame (m : option float) (o : float) : bool :=
  match m with Some v => fsame v o | None => false end.

Definition chain_agree (cosv libm : oracle) (r : rep) (z1 z2 : float) (o : chain_out) : bool :=
  match cosmo_new cosv (r_DH r) (r_flat r) (r_om r) (r_ol r) (r_ok r) with
  | None => false
  | Some c =>
      fsame (ez_inverseF c z2) (o_ez o)
      && fsame (ezinv_integralF c z1 z2) (o_int o)
      && fsame (DcF c z1 z2) (o_Dc o)
      && osame (DmF libm c z1 z2) (o_Dm o)
      && osame (DaF libm c z1 z2) (o_Da o)
      && osame (DlF libm c z1 z2) (o_Dl o)
      && osame (dVF libm c z2) (o_dV o)
      && osame (VF libm c z1 z2) (o_V o)
      && osame (scinvF libm c z1 z2) (o_sc o)
      && fsame (DcF c z2 z1) (o_Dc_rev o)
      && osame (scinvF libm c z2 z1) (o_sc_rev o)
      && osame (scinvF libm c z2 z2) (o_sc_same o)
  end.

Definition all_finite (o : chain_out) : bool :=
  finite (o_ez o) && finite (o_int o) && finite (o_Dc o) && finite (o_Dm o) && finite (o_Da o)
  && finite (o_Dl o) && finite (o_dV o) && finite (o_V o) && finite (o_sc o)
  && finite (o_Dc_rev o) && finite (o_sc_rev o) && finite (o_sc_same o).

Definition ident_of (r : rep) (z2 : float) (o : chain_out) : ident_outputs :=
  mkIdent (r_flat r) (qof z2) (qof (o_Dc o)) (qof (o_Dm o)) (qof (o_Da o)) (qof (o_Dl o))
          (qof (o_Dc_rev o)) (qof (o_sc_rev o)) (qof (o_sc_same o)).

(* requires z1 <= z2 (the generator's convention; checked) *)
Definition v_chain (cosv libm : oracle) (r : rep) (z1 z2 : float) (o : chain_out) : Z :=
  verdict (chain_agree cosv libm r z1 z2 o)
          (all_finite o && finite z2 && PrimFloat.leb z1 z2 && identities_b (ident_of r z2 o)).

(* the tables the model computes, for the per-run table certificates *)
Definition tables (cosv : oracle) : option (list float * list float * list float * list float) :=
  match gauleg cosv (-1)%float 1%float NPTS, gauleg cosv (-1)%float 1%float VNPTS with
  | Some (x, w), Some (vx, vw) => Some (x, w, vx, vw)
  | _, _ => None
  end.
Definition flist_same (a b : list float) : bool := list_eqb fsame a b.
Definition v_tables (cosv : oracle) (x w vx vw : list float) : Z :=
  match tables cosv with
  | Some (x', w', vx', vw') =>
      verdict (flist_same x' x && flist_same w' w && flist_same vx' vx && flist_same vw' vw) true
  | None => 1
  end.

(* ---------------------------------------------------------------- which C entry point the model's dispatch takes *)
(* 0 scalar, 1 _vec1 (array, scalar), 2 _vec2 (scalar, array), 3 _2vec, 4 ValueError; compared on every run with the
   decision function Gen.dispatch_src_<method> translated from cosmology.py (harness: "Gen: dispatch of ...") *)
Definition is_sc {A} (a : zarg A) : bool := match a with Sc _ => true | Ar _ => false end.
Definition code_of {A B} (f : A -> A -> B) (a b : zarg A) : nat :=
  match a, b, dispatch2 f a b with
  | Sc _, Sc _, Ok (Sc _) => 0 | Ar _, Sc _, Ok (Ar _) => 1 | Sc _, Ar _, Ok (Ar _) => 2 | Ar _, Ar _, Ok (Ar _) => 3
  | _, _, Err EValue => 4 | _, _, _ => 5
  end%nat.

(* the flags Gen.WRAP_<name> translated from cosmolib_pywrap.c as (C function index, arguments in order, Model.wrapper);
   compared on every run with Model.W_vec1 / W_vec2 / W_2vec, for which C11_vector_loops_are_elementwise is proved *)
Definition wrapper_of (t : nat * bool * bool * bool * bool) : nat * bool * wrapper :=
  let '(c, i1, i2, sf, ord) := t in
  (c, ord, mkW (if i1 then KIndexed else KScalar) (if i2 then KIndexed else KScalar) sf).

(* ---------------------------------------------------------------- literal decoding of long arrays *)
(* A long array argument / result is printed by the harness as a palette of bit patterns plus a hex string of
   1-byte ([pal]) or 2-byte big-endian ([pal2]) palette indices per element (a list literal of 10^5 numerals
   overflows Coq's parser).  This is literal printing only: the decoded [list Z] goes to the same verified
   checker as a short array; an index outside the palette decodes to -1, which is no binary64 bit pattern. *)
Definition pal (p : list Z) (s : String.string) : list Z :=
  map (fun b => nth (Z.to_nat (bZ b)) p (-1)%Z) (unhex s).
Fixpoint pairs_be (l : list Byte.byte) : list Z :=
  match l with
  | hi :: lo :: l' => (bZ hi * 256 + bZ lo)%Z :: pairs_be l'
  | _ => []
  end.
Definition pal2 (p : list Z) (s : String.string) : list Z :=
  map (fun i => nth (Z.to_nat i) p (-1)%Z) (pairs_be (unhex s)).

(* ---------------------------------------------------------------- dispatch *)
(* arguments and results are bit patterns of binary64 values; the scalar method is a finite table
   measured by calling the real scalar entry point on every element (pair) *)
Fixpoint lookup2 (t : list (Z * Z * Z)) (x y : Z) : Z :=
  match t with
  | [] => -1
  | (a, b, v) :: t' => if (a =? x) && (b =? y) then v else lookup2 t' x y
  end.
Fixpoint lookup1 (t : list (Z * Z)) (x : Z) : Z :=
  match t with
  | [] => -1
  | (a, v) :: t' => if a =? x then v else lookup1 t' x
  end.

Definition rz_eqb (a b : result (zarg Z)) : bool := result_eqb zarg_eqb a b.

Definition v_dispatch2 (tab : list (Z * Z * Z)) (a b : zarg Z) (out : result (zarg Z)) : Z :=
  verdict (rz_eqb (dispatch2 (lookup2 tab) a b) out) (elementwise2_b (lookup2 tab) a b out).

Definition v_dispatch1 (tab : list (Z * Z)) (a : zarg Z) (out : result (zarg Z)) : Z :=
  verdict (rz_eqb (Ok (dispatch1 (lookup1 tab) a)) out)
          (match out with Ok o => elementwise1_b (lookup1 tab) a o | Err _ => false end).

(* distmod: [tab] is the measured scalar distmod; the model composes Dl's dispatch (table [dl],
   lower bound 0.0 = bit pattern 0) with the element-wise post-processing (table [post]) *)
Definition v_distmod (dl : list (Z * Z * Z)) (post tab : list (Z * Z)) (z : zarg Z) (out : result (zarg Z)) : Z :=
  verdict (rz_eqb (distmod_dispatch (lookup2 dl) (lookup1 post) 0 z) out)
          (match out with Ok o => elementwise1_b (lookup1 tab) z o | Err _ => false end).

(* ---------------------------------------------------------------- table certificates *)
(* the n-point table integrates x^k, k < 2n, on [-1,1] up to eps (exact rational arithmetic) *)
Local Open Scope Q_scope.
Fixpoint qpow (x : Q) (k : nat) : Q := match k with O => 1 | S k' => x * qpow x k' end.
Definition moment (xs ws : list Q) (k : nat) : Q :=
  fold_right Qplus 0 (map (fun xw => snd xw * qpow (fst xw) k) (combine xs ws)).
Definition exact_moment (k : nat) : Q := if Nat.even k then 2 # Pos.of_nat (k + 1) else 0.
Definition moments_ok_b (xs ws : list Q) (eps : Q) : bool :=
  Nat.eqb (length xs) (length ws) &&
  forallb (fun k => Qle_bool (Qabs (moment xs ws k - exact_moment k)) eps) (seq 0 (2 * length xs)).
Definition worst_moment (xs ws : list Q) : Q :=
  fold_right (fun k m => let e := Qabs (moment xs ws k - exact_moment k) in if Qle_bool m e then e else m)
             0 (seq 0 (2 * length xs)).

(* C11 -- a verified interval evaluator for the R model of the distance chain.

   The per-case certificates of the correspondence run state
       | out - model_R(inputs) | <= 1e-12 * |out|
   for the implementation's binary64 output [out] and binary64 inputs, all given as exact
   integer fractions.  Instead of reifying the (large) real-number expression with the
   [interval] tactic for every case, the chain is evaluated here once and for all over the
   interval arithmetic of the Interval library (module I: floating-point bounds with BigZ
   mantissas, outward rounding), and [cert] proves that whenever the boolean [check] computes to
   true the real-number statement holds.  A case is then closed by [vm_compute].  Partial
   operations (division, logarithm) are guarded: the evaluator answers None unless the result
   interval is a genuine (non-NaI) interval, which is what makes the real-number value defined. *)
From Coq Require Import Reals ZArith List Lra Lia Bool.
From Interval Require Import Xreal Interval.Interval Float.Specific_ops Float.Specific_bigint
     Interval.Float_full Float.Basic.
From EsVerif.C11 Require Import Gen Model Spec Proofs.
Import ListNotations.

Module F := SpecificFloat BigIntRadix2.
Module I := FloatIntervalFull F.

Local Open Scope R_scope.

(* exact fractions n/d (every binary64 value is one) *)
Definition q2R (q : Z * Z) : R := IZR (fst q) / IZR (snd q).

Definition encl (xi : I.type) (x : R) : Prop := contains (I.convert xi) (Xreal x).

Lemma Some_eq {A} (a b : A) : Some a = Some b -> a = b.
Proof. intro H; injection H; auto. Qed.

Record cosmoQ := mkCq { qDH : Z * Z; qflat : bool; qom : Z * Z; qol : Z * Z; qok : Z * Z }.
Definition cosmoR_of (c : cosmoQ) : cosmoR :=
  mkC (q2R (qDH c)) (qflat c) (q2R (qom c)) (q2R (qol c)) (q2R (qok c)).

Inductive curv := Flat | Open | Closed.
Definition branch_ok (br : curv) (c : cosmoR) : Prop :=
  match br with
  | Flat => cflat c = true
  | Open => cflat c = false /\ 0 < cok c
  | Closed => cflat c = false /\ ~ 0 < cok c
  end.

Inductive quantity := QEz | QInt | QDc | QDm | QDa | QDl | QDistmod | QdV | QV | QScinv.

(* the model value a certificate is about (one-redshift quantities are taken at z2) *)
Definition value_R (q : quantity) (xs ws vxs vws : list R) (c : cosmoR) (z1 z2 : R) : R :=
  match q with
  | QEz => ez_inverse c z2
  | QInt => ezinv_integral xs ws c z1 z2
  | QDc => Dc_GL xs ws c z1 z2
  | QDm => Dm_GL xs ws c z1 z2
  | QDa => Da_GL xs ws c z1 z2
  | QDl => Dl_GL xs ws c z1 z2
  | QDistmod => distmod_GL xs ws c z2
  | QdV => dV_GL xs ws c z2
  | QV => V_GL xs ws vxs vws c z1 z2
  | QScinv => scinv_GL xs ws c z1 z2
  end.

(* ------------------------------------------------------------------------------------------ *)
(* enclosure lemmas                                                                            *)
(* ------------------------------------------------------------------------------------------ *)
Section Ops.
  Variable p : F.precision.

  Lemma encl_add a b x y : encl a x -> encl b y -> encl (I.add p a b) (x + y).
  Proof. intros Ha Hb. exact (I.add_correct p a b (Xreal x) (Xreal y) Ha Hb). Qed.
  Lemma encl_sub a b x y : encl a x -> encl b y -> encl (I.sub p a b) (x - y).
  Proof. intros Ha Hb. exact (I.sub_correct p a b (Xreal x) (Xreal y) Ha Hb). Qed.
  Lemma encl_mul a b x y : encl a x -> encl b y -> encl (I.mul p a b) (x * y).
  Proof. intros Ha Hb. exact (I.mul_correct p a b (Xreal x) (Xreal y) Ha Hb). Qed.
  Lemma encl_neg a x : encl a x -> encl (I.neg a) (- x).
  Proof. intros Ha. exact (I.neg_correct a (Xreal x) Ha). Qed.
  Lemma encl_abs a x : encl a x -> encl (I.abs a) (Rabs x).
  Proof. intros Ha. exact (I.abs_correct a (Xreal x) Ha). Qed.
  Lemma encl_sqrt a x : encl a x -> encl (I.sqrt p a) (sqrt x).
  Proof. intros Ha. exact (I.sqrt_correct p a (Xreal x) Ha). Qed.
  Lemma encl_exp a x : encl a x -> encl (I.exp p a) (exp x).
  Proof. intros Ha. exact (I.exp_correct p a (Xreal x) Ha). Qed.
  Lemma encl_sin a x : encl a x -> encl (I.sin p a) (sin x).
  Proof. intros Ha. exact (I.sin_correct p a (Xreal x) Ha). Qed.
  Lemma encl_Z v : encl (I.fromZ p v) (IZR v).
  Proof. exact (I.fromZ_correct p v). Qed.
  Lemma encl_pi : encl (I.pi p) PI.
  Proof. exact (I.pi_correct p). Qed.

  Definition odiv (a b : I.type) : option I.type :=
    let r := I.div p a b in if I.real r then Some r else None.
  Lemma encl_odiv a b x y r : encl a x -> encl b y -> odiv a b = Some r -> encl r (x / y).
  Proof.
    unfold odiv. intros Ha Hb. destruct (I.real (I.div p a b)) eqn:E; [|discriminate].
    intro S; apply Some_eq in S; subst r.
    pose proof (I.div_correct p a b (Xreal x) (Xreal y) Ha Hb) as H. cbn in H.
    unfold Xdiv' in H. rewrite I.real_correct in E. unfold encl.
    destruct (is_zero y).
    - destruct (I.convert (I.div p a b)); [discriminate|]. contradiction H.
    - exact H.
  Qed.

  Definition oln (a : I.type) : option I.type :=
    let r := I.ln p a in if I.real r then Some r else None.
  Lemma encl_oln a x r : encl a x -> oln a = Some r -> encl r (ln x).
  Proof.
    unfold oln. intros Ha. destruct (I.real (I.ln p a)) eqn:E; [|discriminate].
    intro S; apply Some_eq in S; subst r.
    pose proof (I.ln_correct p a (Xreal x) Ha) as H. cbn in H.
    unfold Xln' in H. rewrite I.real_correct in E. unfold encl.
    destruct (is_positive x).
    - exact H.
    - destruct (I.convert (I.ln p a)); [discriminate|]. contradiction H.
  Qed.

  Definition qI (q : Z * Z) : option I.type := odiv (I.fromZ p (fst q)) (I.fromZ p (snd q)).
  Lemma encl_qI q r : qI q = Some r -> encl r (q2R q).
  Proof. unfold qI, q2R. apply encl_odiv; apply encl_Z. Qed.

  Fixpoint qIs (l : list (Z * Z)) : option (list I.type) :=
    match l with
    | [] => Some []
    | q :: t => match qI q, qIs t with Some a, Some r => Some (a :: r) | _, _ => None end
    end.
  Lemma encl_qIs l : forall r, qIs l = Some r -> Forall2 encl r (map q2R l).
  Proof.
    induction l as [|q t IH]; intros r H; simpl in *.
    - apply Some_eq in H; subst r. constructor.
    - destruct (qI q) eqn:E1; [|discriminate]. destruct (qIs t) eqn:E2; [|discriminate].
      apply Some_eq in H; subst r. constructor; [apply encl_qI; assumption | apply IH; reflexivity].
  Qed.

  (* ---------------------------------------------------------------------------------------- *)
  (* the chain over intervals                                                                  *)
  (* ---------------------------------------------------------------------------------------- *)
  Record cosmoI := mkCi { iDH : I.type; iflat : bool; iom : I.type; iol : I.type; iok : I.type }.
  Definition cencl (ci : cosmoI) (c : cosmoR) : Prop :=
    encl (iDH ci) (cDH c) /\ iflat ci = cflat c /\ encl (iom ci) (com c) /\ encl (iol ci) (col c)
    /\ encl (iok ci) (cok c).

  Definition cosmoI_of (c : cosmoQ) : option cosmoI :=
    match qI (qDH c), qI (qom c), qI (qol c), qI (qok c) with
    | Some a, Some b, Some d, Some e => Some (mkCi a (qflat c) b d e)
    | _, _, _, _ => None
    end.
  Lemma cencl_of c ci : cosmoI_of c = Some ci -> cencl ci (cosmoR_of c).
  Proof.
    unfold cosmoI_of. destruct (qI (qDH c)) eqn:E1; [|discriminate].
    destruct (qI (qom c)) eqn:E2; [|discriminate]. destruct (qI (qol c)) eqn:E3; [|discriminate].
    destruct (qI (qok c)) eqn:E4; [|discriminate]. intro H. apply Some_eq in H; subst ci. unfold cencl, cosmoR_of. cbn [iDH iflat iom iol iok cDH cflat com col cok].
    repeat split; try reflexivity; apply encl_qI; assumption.
  Qed.

  Definition zI (v : Z) : I.type := I.fromZ p v.

  Definition ez_I (ci : cosmoI) (z : I.type) : option I.type :=
    let o := I.add p (zI 1) z in
    let e := if iflat ci
             then I.add p (I.mul p (I.mul p (I.mul p (iom ci) o) o) o) (iol ci)
             else let o2 := I.mul p o o in
                  I.add p (I.add p (I.mul p (I.mul p (iom ci) o2) o) (I.mul p (iok ci) o2)) (iol ci) in
    match odiv (zI 1) e with Some q => Some (I.sqrt p q) | None => None end.

  Lemma ez_I_sound ci c zi z r : cencl ci c -> encl zi z -> ez_I ci zi = Some r -> encl r (ez_inverse c z).
  Proof.
    intros [H1 [H2 [H3 [H4 H5]]]] Hz. unfold ez_I, ez_inverse. cbv zeta. rewrite H2.
    pose proof (encl_Z 1) as One.
    destruct (cflat c).
    - match goal with |- context [odiv ?a ?b] => destruct (odiv a b) as [q|] eqn:E end; [|discriminate].
      intro S; apply Some_eq in S; subst r. apply encl_sqrt. eapply encl_odiv; [exact One| |exact E].
      repeat first [apply encl_add | apply encl_mul | assumption].
    - match goal with |- context [odiv ?a ?b] => destruct (odiv a b) as [q|] eqn:E end; [|discriminate].
      intro S; apply Some_eq in S; subst r. apply encl_sqrt. eapply encl_odiv; [exact One| |exact E].
      repeat first [apply encl_add | apply encl_mul | assumption].
  Qed.

  Fixpoint gl_loop (g : I.type -> option I.type) (f1 f2 : I.type) (l : list (I.type * I.type))
           (acc : I.type) : option I.type :=
    match l with
    | [] => Some acc
    | xw :: t =>
        match g (I.add p (I.mul p (fst xw) f1) f2) with
        | Some v => gl_loop g f1 f2 t (I.add p acc (I.mul p (I.mul p f1 v) (snd xw)))
        | None => None
        end
    end.

  Definition gl_sum_I (xs ws : list I.type) (g : I.type -> option I.type) (a b : I.type) : option I.type :=
    match odiv (I.sub p b a) (zI 2), odiv (I.add p b a) (zI 2) with
    | Some f1, Some f2 => gl_loop g f1 f2 (combine xs ws) (zI 0)
    | _, _ => None
    end.

  Definition sound1 (gI : I.type -> option I.type) (g : R -> R) : Prop :=
    forall zi z v, encl zi z -> gI zi = Some v -> encl v (g z).

  Lemma gl_loop_sound gI g f1i f1 f2i f2 : sound1 gI g -> encl f1i f1 -> encl f2i f2 ->
    forall li l, Forall2 (fun a b => encl (fst a) (fst b) /\ encl (snd a) (snd b)) li l ->
    forall acci acc r, encl acci acc -> gl_loop gI f1i f2i li acci = Some r ->
    encl r (fold_left (fun acc xw => acc + f1 * g (fst xw * f1 + f2) * snd xw) l acc).
  Proof.
    intros Hg H1 H2 li l HF. induction HF as [|a b li l [Ha Hb] HF IH]; intros acci acc r Hacc H; simpl in *.
    - apply Some_eq in H; subst r. assumption.
    - destruct (gI (I.add p (I.mul p (fst a) f1i) f2i)) as [v|] eqn:E; [|discriminate].
      eapply IH; [|exact H]. apply encl_add; [assumption|].
      apply encl_mul; [|assumption]. apply encl_mul; [assumption|].
      eapply Hg; [|exact E]. apply encl_add; [|assumption]. apply encl_mul; assumption.
  Qed.

  Lemma Forall2_combine xsI xs wsI ws : Forall2 encl xsI xs -> Forall2 encl wsI ws ->
    Forall2 (fun a b => encl (fst a) (fst b) /\ encl (snd a) (snd b)) (combine xsI wsI) (combine xs ws).
  Proof.
    intro H. revert wsI ws. induction H as [|a b xsI xs Hab H IH]; intros wsI ws HW; simpl; [constructor|].
    destruct HW as [|u v wsI ws Huv HW]; [constructor|]. constructor; [split; assumption|]. apply IH; assumption.
  Qed.

  Lemma gl_sum_I_sound xsI xs wsI ws gI g ai a bi b r :
    Forall2 encl xsI xs -> Forall2 encl wsI ws -> sound1 gI g -> encl ai a -> encl bi b ->
    gl_sum_I xsI wsI gI ai bi = Some r -> encl r (gl_sum xs ws g a b).
  Proof.
    intros HX HW Hg Ha Hb. unfold gl_sum_I, gl_sum. cbv zeta.
    destruct (odiv (I.sub p bi ai) (zI 2)) as [f1|] eqn:E1; [|discriminate].
    destruct (odiv (I.add p bi ai) (zI 2)) as [f2|] eqn:E2; [|discriminate].
    intro H. eapply gl_loop_sound; [exact Hg| | | | |exact H].
    - eapply encl_odiv; [|apply encl_Z|exact E1]. apply encl_sub; assumption.
    - eapply encl_odiv; [|apply encl_Z|exact E2]. apply encl_add; assumption.
    - apply Forall2_combine; assumption.
    - apply encl_Z.
  Qed.

  Section Chain.
    Variables (xsI wsI vxsI vwsI : list I.type) (xs ws vxs vws : list R).
    Hypothesis HX : Forall2 encl xsI xs.
    Hypothesis HW : Forall2 encl wsI ws.
    Hypothesis HVX : Forall2 encl vxsI vxs.
    Hypothesis HVW : Forall2 encl vwsI vws.
    Variables (ci : cosmoI) (c : cosmoR) (br : curv).
    Hypothesis HC : cencl ci c.
    Hypothesis HB : branch_ok br c.

    Definition ezint_I (a b : I.type) : option I.type := gl_sum_I xsI wsI (ez_I ci) a b.
    Lemma ezint_I_sound ai a bi b r : encl ai a -> encl bi b -> ezint_I ai bi = Some r ->
      encl r (ezinv_integral xs ws c a b).
    Proof.
      intros Ha Hb H. unfold ezint_I, ezinv_integral in *.
      eapply gl_sum_I_sound; try eassumption. intros zi z v Hz Hv. eapply ez_I_sound; eassumption.
    Qed.

    Definition Dc_I (a b : I.type) : option I.type :=
      match ezint_I a b with Some s => Some (I.mul p (iDH ci) s) | None => None end.
    Lemma Dc_I_sound ai a bi b r : encl ai a -> encl bi b -> Dc_I ai bi = Some r -> encl r (Dc_GL xs ws c a b).
    Proof.
      intros Ha Hb. unfold Dc_I, Dc_GL. destruct (ezint_I ai bi) as [s|] eqn:E; [|discriminate].
      intro H; apply Some_eq in H; subst r. apply encl_mul; [apply HC|]. eapply ezint_I_sound; eassumption.
    Qed.

    Definition tc_I : option I.type :=
      match br with
      | Flat => Some (zI 0)
      | Open => odiv (I.sqrt p (iok ci)) (iDH ci)
      | Closed => odiv (I.sqrt p (I.neg (iok ci))) (iDH ci)
      end.
    Lemma tc_I_sound t : tc_I = Some t -> encl t (tcfac c).
    Proof.
      destruct HC as [H1 [H2 [H3 [H4 H5]]]]. unfold tc_I, tcfac. destruct br; cbn in HB.
      - rewrite HB. intro H; apply Some_eq in H; subst t. apply encl_Z.
      - destruct HB as [B1 B2]. rewrite B1. destruct (Rlt_dec 0 (cok c)); [|contradiction].
        intro H. eapply encl_odiv; [|exact H1|exact H]. apply encl_sqrt. assumption.
      - destruct HB as [B1 B2]. rewrite B1. destruct (Rlt_dec 0 (cok c)); [contradiction|].
        intro H. eapply encl_odiv; [|exact H1|exact H]. apply encl_sqrt. apply encl_neg. assumption.
    Qed.

    Definition sinh_I (x : I.type) : option I.type :=
      odiv (I.sub p (I.exp p x) (I.exp p (I.neg x))) (zI 2).
    Lemma sinh_I_sound xi x r : encl xi x -> sinh_I xi = Some r -> encl r (sinh x).
    Proof.
      intros Hx H. unfold sinh_I in H. unfold sinh. eapply encl_odiv; [| apply encl_Z | exact H].
      apply encl_sub; apply encl_exp; [|apply encl_neg]; assumption.
    Qed.

    Definition Dm_of_I (d : I.type) : option I.type :=
      match br with
      | Flat => Some d
      | Open => match tc_I with
                | Some t => match sinh_I (I.mul p d t) with Some s => odiv s t | None => None end
                | None => None
                end
      | Closed => match tc_I with
                  | Some t => odiv (I.sin p (I.mul p d t)) t
                  | None => None
                  end
      end.
    Lemma Dm_of_I_sound di d r : encl di d -> Dm_of_I di = Some r -> encl r (Dm_of c d).
    Proof.
      intros Hd. pose proof tc_I_sound as T. unfold Dm_of_I, Dm_of. destruct br; cbn in HB.
      - rewrite HB. intro H; apply Some_eq in H; subst r; assumption.
      - destruct HB as [B1 B2]. rewrite B1. destruct (Rlt_dec 0 (cok c)); [|contradiction].
        destruct tc_I as [t|]; [|discriminate]. specialize (T t eq_refl).
        destruct (sinh_I (I.mul p di t)) as [s|] eqn:E; [|discriminate].
        intro H. eapply encl_odiv; [|exact T|exact H].
        eapply sinh_I_sound; [|exact E]. apply encl_mul; assumption.
      - destruct HB as [B1 B2]. rewrite B1. destruct (Rlt_dec 0 (cok c)); [contradiction|].
        destruct tc_I as [t|]; [|discriminate]. specialize (T t eq_refl).
        intro H. eapply encl_odiv; [|exact T|exact H].
        apply encl_sin. apply encl_mul; assumption.
    Qed.

    Definition Dm_I (a b : I.type) : option I.type :=
      match Dc_I a b with Some d => Dm_of_I d | None => None end.
    Lemma Dm_I_sound ai a bi b r : encl ai a -> encl bi b -> Dm_I ai bi = Some r -> encl r (Dm_GL xs ws c a b).
    Proof.
      intros Ha Hb. unfold Dm_I, Dm_GL. destruct (Dc_I ai bi) as [d|] eqn:E; [|discriminate].
      intro H. eapply Dm_of_I_sound; [|exact H]. eapply Dc_I_sound; eassumption.
    Qed.

    Definition Da_I (a b : I.type) : option I.type :=
      match Dm_I a b with Some m => odiv m (I.add p (zI 1) b) | None => None end.
    Lemma Da_I_sound ai a bi b r : encl ai a -> encl bi b -> Da_I ai bi = Some r -> encl r (Da_GL xs ws c a b).
    Proof.
      intros Ha Hb. unfold Da_I, Da_GL. destruct (Dm_I ai bi) as [m|] eqn:E; [|discriminate].
      intro H. eapply encl_odiv; [| |exact H]; [eapply Dm_I_sound; eassumption|].
      apply encl_add; [apply encl_Z|assumption].
    Qed.

    Definition Dl_I (a b : I.type) : option I.type :=
      match Dm_I a b with Some m => Some (I.mul p m (I.add p (zI 1) b)) | None => None end.
    Lemma Dl_I_sound ai a bi b r : encl ai a -> encl bi b -> Dl_I ai bi = Some r -> encl r (Dl_GL xs ws c a b).
    Proof.
      intros Ha Hb. unfold Dl_I, Dl_GL. destruct (Dm_I ai bi) as [m|] eqn:E; [|discriminate].
      intro H; apply Some_eq in H; subst r. apply encl_mul; [eapply Dm_I_sound; eassumption|].
      apply encl_add; [apply encl_Z|assumption].
    Qed.

    Definition distmod_I (z : I.type) : option I.type :=
      match Dl_I (zI 0) z with
      | Some dl =>
          match odiv (I.mul p dl (zI 1000000)) (zI 10) with
          | Some q => match oln q, oln (zI 10) with
                      | Some n, Some t => match odiv n t with
                                          | Some l => Some (I.mul p (zI 5) l)
                                          | None => None
                                          end
                      | _, _ => None
                      end
          | None => None
          end
      | None => None
      end.
    Lemma distmod_I_sound zi z r : encl zi z -> distmod_I zi = Some r -> encl r (distmod_GL xs ws c z).
    Proof.
      intros Hz. unfold distmod_I, distmod_GL, distmod_of.
      destruct (Dl_I (zI 0) zi) as [dl|] eqn:E1; [|discriminate].
      destruct (odiv (I.mul p dl (zI 1000000)) (zI 10)) as [q|] eqn:E2; [|discriminate].
      destruct (oln q) as [n|] eqn:E3; [|discriminate]. destruct (oln (zI 10)) as [t|] eqn:E4; [|discriminate].
      destruct (odiv n t) as [l|] eqn:E5; [|discriminate]. intro H; apply Some_eq in H; subst r.
      apply encl_mul; [apply encl_Z|]. eapply encl_odiv; [| |exact E5].
      - eapply encl_oln; [|exact E3]. eapply encl_odiv; [|apply encl_Z|exact E2].
        apply encl_mul; [|apply encl_Z]. eapply Dl_I_sound; [apply encl_Z|exact Hz|exact E1].
      - eapply encl_oln; [apply encl_Z|exact E4].
    Qed.

    Definition dV_I (z : I.type) : option I.type :=
      match Da_I (zI 0) z, ez_I ci z with
      | Some da, Some e =>
          let o := I.add p (zI 1) z in
          Some (I.mul p (I.mul p (I.mul p (I.mul p (I.mul p (iDH ci) da) da) e) o) o)
      | _, _ => None
      end.
    Lemma dV_I_sound : sound1 dV_I (dV_GL xs ws c).
    Proof.
      intros zi z r Hz. unfold dV_I, dV_GL. cbv zeta.
      destruct (Da_I (zI 0) zi) as [da|] eqn:E1; [|discriminate].
      destruct (ez_I ci zi) as [e|] eqn:E2; [|discriminate]. intro H; apply Some_eq in H; subst r.
      assert (A : encl da (Da_GL xs ws c 0 z)) by (eapply Da_I_sound; [apply encl_Z|exact Hz|exact E1]).
      assert (B : encl e (ez_inverse c z)) by (eapply ez_I_sound; eassumption).
      assert (O : encl (I.add p (zI 1) zi) (1 + z)) by (apply encl_add; [apply encl_Z|assumption]).
      repeat apply encl_mul; try assumption. apply HC.
    Qed.

    Definition V_I (a b : I.type) : option I.type :=
      match gl_sum_I vxsI vwsI dV_I a b with
      | Some v => Some (I.mul p (I.mul p v (zI 4)) (I.pi p))
      | None => None
      end.
    Lemma V_I_sound ai a bi b r : encl ai a -> encl bi b -> V_I ai bi = Some r -> encl r (V_GL xs ws vxs vws c a b).
    Proof.
      intros Ha Hb. unfold V_I, V_GL. destruct (gl_sum_I vxsI vwsI dV_I ai bi) as [v|] eqn:E; [|discriminate].
      intro H; apply Some_eq in H; subst r. apply encl_mul; [|apply encl_pi]. apply encl_mul; [|apply encl_Z].
      eapply gl_sum_I_sound; try eassumption. apply dV_I_sound.
    Qed.

    (* behind the lens (zl < zs is decided on the exact fractions by the caller) *)
    Definition scinv_I (k zl zs : I.type) : option I.type :=
      match Da_I zl zs, Da_I (zI 0) zl, Da_I (zI 0) zs with
      | Some dls, Some dl, Some ds =>
          match odiv (I.mul p dls dl) ds with Some q => Some (I.mul p q k) | None => None end
      | _, _, _ => None
      end.
    Lemma scinv_I_sound ki zli zl zsi zs r : encl ki FOUR_PI_G_OVER_C_SQUARED_R ->
      encl zli zl -> encl zsi zs -> zl < zs ->
      scinv_I ki zli zsi = Some r -> encl r (scinv_GL xs ws c zl zs).
    Proof.
      intros Hk Hl Hs Lt. unfold scinv_I, scinv_GL. destruct (Rle_dec zs zl); [lra|].
      destruct (Da_I zli zsi) as [dls|] eqn:E1; [|discriminate].
      destruct (Da_I (zI 0) zli) as [dl|] eqn:E2; [|discriminate].
      destruct (Da_I (zI 0) zsi) as [ds|] eqn:E3; [|discriminate].
      destruct (odiv (I.mul p dls dl) ds) as [q|] eqn:E4; [|discriminate].
      intro H; apply Some_eq in H; subst r. apply encl_mul; [|assumption].
      eapply encl_odiv; [| |exact E4].
      - apply encl_mul; eapply Da_I_sound; try eassumption; apply encl_Z.
      - eapply Da_I_sound; try eassumption; apply encl_Z.
    Qed.
  End Chain.

  (* |o - g| <= 1e-12 |o|, decided on the bounds *)
  Definition close_I (o g : I.type) : bool :=
    match odiv (zI 1) (zI 1000000000000) with
    | Some tol =>
        let lhs := I.abs (I.sub p o g) in
        let rhs := I.mul p tol (I.abs o) in
        match I.sign_large (I.sub p rhs lhs) with Xgt | Xeq => true | _ => false end
    | None => false
    end.
  Lemma close_I_sound oi o gi g : encl oi o -> encl gi g -> close_I oi gi = true -> close12 o g.
  Proof.
    intros Ho Hg. unfold close_I, close12.
    destruct (odiv (zI 1) (zI 1000000000000)) as [tol|] eqn:E; [|discriminate].
    assert (T : encl tol (1 / 10 ^ 12)).
    { replace (1 / 10 ^ 12) with (IZR 1 / IZR 1000000000000) by (simpl; lra).
      eapply encl_odiv; [apply encl_Z|apply encl_Z|exact E]. }
    set (d := I.sub p (I.mul p tol (I.abs oi)) (I.abs (I.sub p oi gi))).
    assert (D : encl d (1 / 10 ^ 12 * Rabs o - Rabs (o - g))).
    { unfold d. apply encl_sub; [apply encl_mul; [assumption|apply encl_abs; assumption]|].
      apply encl_abs. apply encl_sub; assumption. }
    pose proof (I.sign_large_correct d) as S. destruct (I.sign_large d); try discriminate; intros _.
    - specialize (S _ D). inversion S. lra.
    - destruct (S _ D) as [_ S2]. cbn in S2. lra.
  Qed.
End Ops.

(* ------------------------------------------------------------------------------------------ *)
(* decisions on exact fractions                                                               *)
(* ------------------------------------------------------------------------------------------ *)
Local Open Scope Z_scope.
Definition qpos_den (q : Z * Z) : bool := 0 <? snd q.
Definition qlt (a b : Z * Z) : bool := qpos_den a && qpos_den b && (fst a * snd b <? fst b * snd a).
Definition qle (a b : Z * Z) : bool := qpos_den a && qpos_den b && (fst a * snd b <=? fst b * snd a).
Local Open Scope R_scope.

Lemma qlt_sound a b : qlt a b = true -> q2R a < q2R b.
Proof.
  unfold qlt, qpos_den, q2R. destruct a as [n1 d1], b as [n2 d2]. cbn [fst snd]. intro H.
  apply andb_true_iff in H as [H H3]. apply andb_true_iff in H as [H1 H2].
  apply Z.ltb_lt in H1, H2, H3. apply IZR_lt in H1, H2, H3. rewrite !mult_IZR in H3.
  apply Rmult_lt_reg_r with (IZR d1 * IZR d2); [apply Rmult_lt_0_compat; assumption|].
  replace (IZR n1 / IZR d1 * (IZR d1 * IZR d2)) with (IZR n1 * IZR d2) by (field; lra).
  replace (IZR n2 / IZR d2 * (IZR d1 * IZR d2)) with (IZR n2 * IZR d1) by (field; lra).
  assumption.
Qed.

Lemma qle_sound a b : qle a b = true -> q2R a <= q2R b.
Proof.
  unfold qle, qpos_den, q2R. destruct a as [n1 d1], b as [n2 d2]. cbn [fst snd]. intro H.
  apply andb_true_iff in H as [H H3]. apply andb_true_iff in H as [H1 H2].
  apply Z.ltb_lt in H1, H2. apply Z.leb_le in H3. apply IZR_lt in H1, H2. apply IZR_le in H3.
  rewrite !mult_IZR in H3.
  apply Rmult_le_reg_r with (IZR d1 * IZR d2); [apply Rmult_lt_0_compat; assumption|].
  replace (IZR n1 / IZR d1 * (IZR d1 * IZR d2)) with (IZR n1 * IZR d2) by (field; lra).
  replace (IZR n2 / IZR d2 * (IZR d1 * IZR d2)) with (IZR n2 * IZR d1) by (field; lra).
  assumption.
Qed.

Definition branch_ok_b (br : curv) (c : cosmoQ) : bool :=
  match br with
  | Flat => qflat c
  | Open => negb (qflat c) && qlt (0, 1)%Z (qok c)
  | Closed => negb (qflat c) && qle (qok c) (0, 1)%Z
  end.
Lemma branch_ok_b_sound br c : branch_ok_b br c = true -> branch_ok br (cosmoR_of c).
Proof.
  destruct br; unfold branch_ok_b, branch_ok, cosmoR_of; cbn [cflat cok].
  - auto.
  - intro H. apply andb_true_iff in H as [H1 H2]. apply negb_true_iff in H1. split; [assumption|].
    apply qlt_sound in H2. unfold q2R in H2 at 1. cbn in H2. lra.
  - intro H. apply andb_true_iff in H as [H1 H2]. apply negb_true_iff in H1. split; [assumption|].
    apply qle_sound in H2. unfold q2R in H2 at 2. cbn in H2. lra.
Qed.

(* mirror symmetry of a table, decided on the integer pairs *)
Definition qneg (q : Z * Z) : Z * Z := (- fst q, snd q)%Z.
Definition qeqb (a b : Z * Z) : bool := ((fst a =? fst b) && (snd a =? snd b))%Z.
Fixpoint qlist_eqb (l m : list (Z * Z)) : bool :=
  match l, m with
  | [], [] => true
  | a :: l', b :: m' => qeqb a b && qlist_eqb l' m'
  | _, _ => false
  end.
Lemma qeqb_eq a b : qeqb a b = true -> a = b.
Proof.
  destruct a, b. unfold qeqb. cbn [fst snd]. intro H. apply andb_true_iff in H as [H1 H2].
  apply Z.eqb_eq in H1, H2. subst. reflexivity.
Qed.
Lemma qlist_eqb_eq l : forall m, qlist_eqb l m = true -> l = m.
Proof.
  induction l as [|a l IH]; intros [|b m] H; simpl in H; try discriminate; [reflexivity|].
  apply andb_true_iff in H as [H1 H2]. apply qeqb_eq in H1. apply IH in H2. subst. reflexivity.
Qed.
Lemma q2R_qneg q : q2R (qneg q) = - q2R q.
Proof. unfold q2R, qneg. cbn [fst snd]. rewrite opp_IZR. unfold Rdiv. ring. Qed.

Definition mirror_check (xs ws : list (Z * Z)) : bool :=
  Nat.eqb (length xs) (length ws) && qlist_eqb (rev xs) (map qneg xs) && qlist_eqb (rev ws) ws.
Lemma mirror_check_sound xs ws : mirror_check xs ws = true -> mirror (map q2R xs) (map q2R ws).
Proof.
  unfold mirror_check, mirror. intro H. apply andb_true_iff in H as [H H3]. apply andb_true_iff in H as [H1 H2].
  apply Nat.eqb_eq in H1. apply qlist_eqb_eq in H2, H3. rewrite !map_length. split; [assumption|]. split.
  - rewrite <- map_rev, H2, !map_map. apply map_ext. intro q. apply q2R_qneg.
  - rewrite <- map_rev, H3. reflexivity.
Qed.

(* the flat flag of the struct implies omega_k = 0 *)
Definition flat_k0_b (c : cosmoQ) : bool := negb (qflat c) || (fst (qok c) =? 0)%Z.
Lemma flat_k0_b_sound c : flat_k0_b c = true -> cflat (cosmoR_of c) = true -> cok (cosmoR_of c) = 0.
Proof.
  unfold flat_k0_b, cosmoR_of. cbn [cflat cok]. intros H F. rewrite F in H. cbn in H.
  apply Z.eqb_eq in H. unfold q2R. rewrite H. unfold Rdiv. apply Rmult_0_l.
Qed.

(* E(z)^2 > 0, decided on the bounds *)
Definition E2_I (p : F.precision) (ci : cosmoI) (z : I.type) : I.type :=
  let o := I.add p (zI p 1) z in
  I.add p (I.add p (I.mul p (iom ci) (I.mul p o (I.mul p o (I.mul p o (zI p 1)))))
                   (I.mul p (iok ci) (I.mul p o (I.mul p o (zI p 1))))) (iol ci).
Lemma E2_I_sound p ci c zi z : cencl ci c -> encl zi z -> encl (E2_I p ci zi) (E2 c z).
Proof.
  intros [H1 [H2 [H3 [H4 H5]]]] Hz. unfold E2_I, E2. cbv zeta. simpl pow.
  assert (O : encl (I.add p (zI p 1) zi) (1 + z)) by (apply encl_add; [apply encl_Z|assumption]).
  pose proof (encl_Z p 1) as One.
  repeat first [apply encl_add | apply encl_mul | assumption].
Qed.
Definition E2_pos_check (prec : positive) (c : cosmoQ) (z : Z * Z) : bool :=
  let p := F.PtoP prec in
  match cosmoI_of p c, qI p z with
  | Some ci, Some zi => match I.sign_strict (E2_I p ci zi) with Xgt => true | _ => false end
  | _, _ => false
  end.
Lemma E2_pos_check_sound prec c z : E2_pos_check prec c z = true -> 0 < E2 (cosmoR_of c) (q2R z).
Proof.
  unfold E2_pos_check. set (p := F.PtoP prec).
  destruct (cosmoI_of p c) as [ci|] eqn:EC; [|discriminate]. destruct (qI p z) as [zi|] eqn:EZ; [|discriminate].
  apply cencl_of in EC. apply encl_qI in EZ. pose proof (E2_I_sound p ci _ zi _ EC EZ) as D.
  pose proof (I.sign_strict_correct (E2_I p ci zi)) as S.
  destruct (I.sign_strict (E2_I p ci zi)); try discriminate. intros _.
  destruct (S _ D) as [_ S2]. exact S2.
Qed.

(* ------------------------------------------------------------------------------------------ *)
(* the certificate                                                                            *)
(* ------------------------------------------------------------------------------------------ *)
Definition value_I (p : F.precision) (q : quantity) (xs ws vxs vws : list I.type) (br : curv)
           (ci : cosmoI) (zq1 zq2 : Z * Z) (z1 z2 : I.type) : option I.type :=
  match q with
  | QEz => ez_I p ci z2
  | QInt => ezint_I p xs ws ci z1 z2
  | QDc => Dc_I p xs ws ci z1 z2
  | QDm => Dm_I p xs ws ci br z1 z2
  | QDa => Da_I p xs ws ci br z1 z2
  | QDl => Dl_I p xs ws ci br z1 z2
  | QDistmod => distmod_I p xs ws ci br z2
  | QdV => dV_I p xs ws ci br z2
  | QV => V_I p xs ws vxs vws ci br z1 z2
  | QScinv =>
      if qlt zq1 zq2 then
        match qI p FOUR_PI_G_OVER_C_SQUARED_Q with
        | Some k => scinv_I p xs ws ci br k z1 z2
        | None => None
        end
      else if qle zq2 zq1 then Some (zI p 0) else None
  end.

Definition check (prec : positive) (q : quantity) (xs ws vxs vws : list (Z * Z)) (br : curv)
           (c : cosmoQ) (z1 z2 out : Z * Z) : bool :=
  let p := F.PtoP prec in
  branch_ok_b br c &&
  match qIs p xs, qIs p ws, qIs p vxs, qIs p vws with
  | Some xsI, Some wsI, Some vxsI, Some vwsI =>
      match cosmoI_of p c, qI p z1, qI p z2, qI p out with
      | Some ci, Some z1i, Some z2i, Some oi =>
          match value_I p q xsI wsI vxsI vwsI br ci z1 z2 z1i z2i with
          | Some g => close_I p oi g
          | None => false
          end
      | _, _, _, _ => false
      end
  | _, _, _, _ => false
  end.

Theorem cert prec q xs ws vxs vws br c z1 z2 out :
  check prec q xs ws vxs vws br c z1 z2 out = true ->
  close12 (q2R out)
          (value_R q (map q2R xs) (map q2R ws) (map q2R vxs) (map q2R vws) (cosmoR_of c) (q2R z1) (q2R z2)).
Proof.
  unfold check. set (p := F.PtoP prec). intro H.
  apply andb_true_iff in H as [HB H]. apply branch_ok_b_sound in HB.
  destruct (qIs p xs) as [xsI|] eqn:EX; [|discriminate]. destruct (qIs p ws) as [wsI|] eqn:EW; [|discriminate].
  destruct (qIs p vxs) as [vxsI|] eqn:EVX; [|discriminate]. destruct (qIs p vws) as [vwsI|] eqn:EVW; [|discriminate].
  destruct (cosmoI_of p c) as [ci|] eqn:EC; [|discriminate].
  destruct (qI p z1) as [z1i|] eqn:E1; [|discriminate]. destruct (qI p z2) as [z2i|] eqn:E2; [|discriminate].
  destruct (qI p out) as [oi|] eqn:EO; [|discriminate].
  destruct (value_I p q xsI wsI vxsI vwsI br ci z1 z2 z1i z2i) as [g|] eqn:EG; [|discriminate].
  apply encl_qIs in EX, EW, EVX, EVW. apply cencl_of in EC. apply encl_qI in E1, E2, EO.
  eapply close_I_sound; [exact EO| |exact H].
  destruct q; cbn [value_I value_R] in *.
  - eapply ez_I_sound; eassumption.
  - eapply ezint_I_sound; eassumption.
  - eapply Dc_I_sound; eassumption.
  - eapply Dm_I_sound; eassumption.
  - eapply Da_I_sound; eassumption.
  - eapply Dl_I_sound; eassumption.
  - eapply distmod_I_sound; eassumption.
  - eapply (dV_I_sound p xsI wsI (map q2R xs) (map q2R ws)); eassumption.
  - eapply V_I_sound; eassumption.
  - destruct (qlt z1 z2) eqn:L.
    + destruct (qI p FOUR_PI_G_OVER_C_SQUARED_Q) as [k|] eqn:EK; [|discriminate].
      apply encl_qI in EK. apply qlt_sound in L.
      eapply scinv_I_sound; try eassumption.
    + destruct (qle z2 z1) eqn:L2; [|discriminate]. apply qle_sound in L2. apply Some_eq in EG; subst g.
      unfold scinv_GL. destruct (Rle_dec (q2R z2) (q2R z1)); [apply encl_Z|contradiction].
Qed.

(* 1/E(z) has no quadrature in it: the certificate is against the definition itself *)
Theorem cert_Einv prec xs ws vxs vws br c z1 z2 out :
  flat_k0_b c = true -> E2_pos_check prec c z2 = true ->
  check prec QEz xs ws vxs vws br c z1 z2 out = true ->
  close12 (q2R out) (Einv_def (cosmoR_of c) (q2R z2)).
Proof.
  intros K P H. apply cert in H. cbn [value_R] in H.
  rewrite (Proofs.ez_inverse_is_def _ _ (flat_k0_b_sound c K) (E2_pos_check_sound prec c z2 P)) in H.
  exact H.
Qed.

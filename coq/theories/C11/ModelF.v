(* C11 -- bit-exact binary64 model (style F of DESIGN 3.3) of cosmolib.c: gauleg's Newton
   iteration and table fill, ez_inverse, ez_inverse_integral, Dc, and -- given the measured
   libm value of sinh/sin in curved universes -- Dm, Da, Dl, dV, V, scinv.  Only + - * / sqrt,
   comparisons and int->double conversions occur (the build uses -O3 without -march, hence no
   FMA contraction).  libm calls (cos for the Newton start value, sinh, sin) are oracle inputs:
   a table (argument, value) measured on the same libm; a missing argument makes the model
   answer None.  No proofs here. *)
From Coq Require Import PrimFloat Uint63 FloatOps SpecFloat ZArith List.
From EsVerif.Common Require Import Base.
From EsVerif.C11 Require Import Gen.
Local Open Scope float_scope.

Definition fnat (n : nat) : float := of_uint63 (Uint63.of_Z (Z.of_nat n)).

(* bit equality except that every NaN equals every NaN (payloads are not observable here) *)
Definition fsame (a b : float) : bool :=
  match PrimFloat.classify a, PrimFloat.classify b with
  | FloatClass.NaN, FloatClass.NaN => true
  | FloatClass.NaN, _ | _, FloatClass.NaN => false
  | _, _ => PrimFloat.eqb a b && PrimFloat.eqb (1 / a) (1 / b)   (* distinguishes +0 and -0 *)
  end.

Definition oracle := list (float * float).
Fixpoint ask (t : oracle) (x : float) : option float :=
  match t with
  | nil => None
  | (a, v) :: t' => if fsame a x then Some v else ask t' x
  end.

(* ---------------------------------------------------------------- gauleg (cosmolib.c:173-221) *)
(* P_n(z) by the three-term recurrence, j = 1..npts; returns (p1, p2) *)
Fixpoint legendre (steps : nat) (j : nat) (z p1 p2 : float) : float * float :=
  match steps with
  | O => (p1, p2)
  | S k =>
      let p3 := p2 in
      let p2 := p1 in
      let fj := fnat j in
      let p1 := ((2 * fj - 1) * z * p2 - (fj - 1) * p3) / fj in
      legendre k (S j) z p1 p2
  end.

(* while (abszdiff > EPS) {...}: state (z, z1, pp); None when the fuel runs out *)
Fixpoint newton (fuel : nat) (npts : nat) (z z1 pp : float) : option (float * float * float) :=
  if PrimFloat.ltb GAULEG_EPS_F (PrimFloat.abs (z - z1)) then
    match fuel with
    | O => None
    | S f =>
        let '(p1, p2) := legendre npts 1 z 1 0 in
        let pp := fnat npts * (z * p1 - p2) / (z * z - 1) in
        let z1 := z in
        let z := z1 - p1 / pp in
        newton f npts z z1 pp
    end
  else Some (z, z1, pp).

(* for (i=1; i<=m; ++i): z1 and pp are carried from one root to the next, exactly as in C *)
Fixpoint gauleg_loop (cosv : oracle) (npts : nat) (xm xl : float) (todo : nat) (i : nat)
         (z1 pp : float) (x w : list float) : option (list float * list float) :=
  match todo with
  | O => Some (x, w)
  | S k =>
      let arg := M_PI_F * (fnat i - 0.25) / (fnat npts + 0.5) in
      match ask cosv arg with
      | None => None
      | Some z0 =>
          match newton 100 npts z0 z1 pp with
          | None => None
          | Some (z, z1', pp') =>
              let lo := (i - 1)%nat in
              let hi := (npts + 1 - i - 1)%nat in
              let x := set_nth x lo (xm - xl * z) in
              let x := set_nth x hi (xm + xl * z) in
              let wi := 2 * xl / ((1 - z * z) * pp' * pp') in
              let w := set_nth w lo wi in
              let w := set_nth w hi wi in
              gauleg_loop cosv npts xm xl k (S i) z1' pp' x w
          end
      end
  end.

Definition gauleg (cosv : oracle) (x1 x2 : float) (npts : nat) : option (list float * list float) :=
  let m := Nat.div (npts + 1) 2 in
  let xm := (x1 + x2) / 2 in
  let xl := (x2 - x1) / 2 in
  gauleg_loop cosv npts xm xl m 1%nat 0 0 (repeat 0 npts) (repeat 0 npts).

(* ---------------------------------------------------------------- the struct and the chain *)
Record cosmoF := mkF { fDH : float; fflat : bool; fom : float; fol : float; fok : float;
                       fx : list float; fw : list float; fvx : list float; fvw : list float }.

(* cosmo_new *)
Definition tcfacF (c : cosmoF) : float :=
  if fflat c then 0
  else if PrimFloat.ltb 0 (fok c) then PrimFloat.sqrt (fok c) / fDH c else PrimFloat.sqrt (- fok c) / fDH c.

Definition cosmo_new (cosv : oracle) (DH : float) (flat : bool) (om ol ok : float) : option cosmoF :=
  match gauleg cosv (-1) 1 NPTS, gauleg cosv (-1) 1 VNPTS with
  | Some (x, w), Some (vx, vw) => Some (mkF DH flat om ol ok x w vx vw)
  | _, _ => None
  end.

Definition ez_inverseF (c : cosmoF) (z : float) : float :=
  let oneplusz := 1 + z in
  if fflat c then PrimFloat.sqrt (1 / (fom c * oneplusz * oneplusz * oneplusz + fol c))
  else
    let oneplusz2 := oneplusz * oneplusz in
    PrimFloat.sqrt (1 / (fom c * oneplusz2 * oneplusz + fok c * oneplusz2 + fol c)).

Definition gl_sumF (xs ws : list float) (g : float -> float) (zmin zmax : float) : float :=
  let f1 := (zmax - zmin) / 2 in
  let f2 := (zmax + zmin) / 2 in
  fold_left (fun acc xw => acc + f1 * g (fst xw * f1 + f2) * snd xw) (combine xs ws) 0.

(* option-valued variant for integrands that consult the libm oracle *)
Definition gl_sumF_opt (xs ws : list float) (g : float -> option float) (zmin zmax : float) : option float :=
  let f1 := (zmax - zmin) / 2 in
  let f2 := (zmax + zmin) / 2 in
  fold_left (fun acc xw =>
               match acc, g (fst xw * f1 + f2) with
               | Some a, Some v => Some (a + f1 * v * snd xw)
               | _, _ => None
               end) (combine xs ws) (Some 0).

Section ChainF.
  Variable libm : oracle.     (* sinh (open) or sin (closed) at the arguments that occur *)
  Variable c : cosmoF.

  Definition ezinv_integralF (zmin zmax : float) : float := gl_sumF (fx c) (fw c) (ez_inverseF c) zmin zmax.
  Definition DcF (zmin zmax : float) : float := fDH c * ezinv_integralF zmin zmax.

  Definition DmF (zmin zmax : float) : option float :=
    let d := DcF zmin zmax in
    if fflat c then Some d
    else match ask libm (d * tcfacF c) with
         | Some s => Some (s / tcfacF c)
         | None => None
         end.
  Definition DaF (zmin zmax : float) : option float := option_map (fun d => d / (1 + zmax)) (DmF zmin zmax).
  Definition DlF (zmin zmax : float) : option float := option_map (fun d => d * (1 + zmax)) (DmF zmin zmax).

  Definition dVF (z : float) : option float :=
    let oneplusz := 1 + z in
    match DaF 0 z with
    | Some da => Some (fDH c * da * da * ez_inverseF c z * oneplusz * oneplusz)
    | None => None
    end.

  Definition VF (zmin zmax : float) : option float :=
    option_map (fun v => v * 4 * M_PI_F) (gl_sumF_opt (fvx c) (fvw c) dVF zmin zmax).

  Definition scinvF (zl zs : float) : option float :=
    if PrimFloat.leb zs zl then Some 0
    else match DaF 0 zl, DaF 0 zs, DaF zl zs with
         | Some dl, Some ds, Some dls => Some (dls * dl / ds * FOUR_PI_G_OVER_C_SQUARED_F)
         | _, _, _ => None
         end.
End ChainF.

(* ---------------------------------------------------------------- binary64 -> exact rational *)
From Coq Require Import QArith.
Definition float_to_Q (f : float) : option Q :=
  match Prim2SF f with
  | SpecFloat.S754_zero _ => Some 0%Q
  | SpecFloat.S754_finite s m e =>
      let v := match e with
               | Z0 => Z.pos m # 1
               | Zpos p => (Z.pos m * 2 ^ Z.pos p) # 1
               | Zneg p => Z.pos m # (2 ^ p)
               end%Q in
      Some (if s then Qopp v else v)
  | _ => None
  end.

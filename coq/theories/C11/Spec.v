(* C11 -- the property: Hogg (1999, astro-ph/9905116) definitions of the distance measures with
   the integral taken as a genuine (Coquelicot) Riemann integral; the accuracy criterion of the
   statement; the documented parameter-normalisation rules; element-wise dispatch; boolean
   checkers (over exact rationals) for the "identities hold to rounding" part, used on the
   implementation's outputs. *)
From Coq Require Import Reals QArith Qabs.
From Coquelicot Require Import Coquelicot.
From EsVerif.Common Require Import Base.
From EsVerif.C11 Require Import Model.

(* ------------------------------------------------------------------------------------------ *)
(* Hogg's definitions.  The physical constants are pinned HERE (they do not come from Gen.v):  *)
(* a changed constant in the sources changes the model, not the definition.                    *)
(* ------------------------------------------------------------------------------------------ *)
Local Open Scope R_scope.

Definition CLIGHT_KMS : R := 299792458 / 1000.                  (* c, km/s (exact, SI) *)
Definition FOUR_PI_G_OVER_C2 : R := 60150504541630152 / 10 ^ 23. (* documented value, Mpc/Msun *)

Definition DH_def (H0 : R) : R := CLIGHT_KMS / H0.              (* eq. 4 *)

(* only DH and the three density parameters of the record are used by the definitions; the
   curvature case is decided by the sign of omega_k, never by the struct's flat flag *)
Definition E2 (c : cosmoR) (z : R) : R :=                        (* eq. 14, squared *)
  com c * (1 + z) ^ 3 + cok c * (1 + z) ^ 2 + col c.
Definition Einv_def (c : cosmoR) (z : R) : R := / sqrt (E2 c z).
Definition I_def (c : cosmoR) (z1 z2 : R) : R := RInt (Einv_def c) z1 z2.
Definition Dc_def (c : cosmoR) (z1 z2 : R) : R := cDH c * I_def c z1 z2.   (* eq. 15 *)

(* eq. 16; between two redshifts this is the form whose equivalence with eq. 19 is
   C11_two_redshift_Hogg19 *)
Definition Dm_of_def (c : cosmoR) (d : R) : R :=
  match total_order_T 0 (cok c) with
  | inleft (left _) => cDH c / sqrt (cok c) * sinh (sqrt (cok c) * d / cDH c)
  | inleft (right _) => d
  | inright _ => cDH c / sqrt (- cok c) * sin (sqrt (- cok c) * d / cDH c)
  end.
Definition Dm_def (c : cosmoR) (z1 z2 : R) : R := Dm_of_def c (Dc_def c z1 z2).
Definition Da_def (c : cosmoR) (z1 z2 : R) : R := Dm_def c z1 z2 / (1 + z2).   (* eq. 18 / 19 *)
Definition Dl_def (c : cosmoR) (z1 z2 : R) : R := Dm_def c z1 z2 * (1 + z2).   (* eq. 21 *)
Definition log10 (x : R) : R := ln x / ln 10.
Definition distmod_def (c : cosmoR) (z : R) : R :=                               (* eq. 25, D in Mpc *)
  5 * log10 (Dl_def c 0 z * 10 ^ 6 / 10).
(* eq. 28 per unit solid angle *)
Definition dV_def (c : cosmoR) (z : R) : R :=
  cDH c * (1 + z) ^ 2 * (Da_def c 0 z) ^ 2 * Einv_def c z.
(* all-sky comoving volume between z1 and z2: the definition ... *)
Definition V_def (c : cosmoR) (z1 z2 : R) : R := RInt (fun z => 4 * PI * dV_def c z) z1 z2.
(* ... and its closed form (eq. 29 written in u = sqrt|Ok| Dc/DH, so that it stays valid beyond
   the equator of a closed universe); C11_V_closed_form_derivative ties the two *)
Definition Vcum_of (c : cosmoR) (d : R) : R :=
  match total_order_T 0 (cok c) with
  | inleft (left _) =>
      let s := sqrt (cok c) in let u := s * d / cDH c in
      4 * PI * (cDH c / s) ^ 3 * (sinh (2 * u) / 4 - u / 2)
  | inleft (right _) => 4 * PI / 3 * d ^ 3
  | inright _ =>
      let s := sqrt (- cok c) in let u := s * d / cDH c in
      4 * PI * (cDH c / s) ^ 3 * (u / 2 - sin (2 * u) / 4)
  end.
Definition Vcum_closed (c : cosmoR) (z : R) : R := Vcum_of c (Dc_def c 0 z).
Definition V_closed (c : cosmoR) (z1 z2 : R) : R := Vcum_closed c z2 - Vcum_closed c z1.
(* inverse critical density (lens zl, source zs) *)
Definition scinv_def (c : cosmoR) (zl zs : R) : R :=
  if Rle_dec zs zl then 0
  else FOUR_PI_G_OVER_C2 * Da_def c zl zs * Da_def c 0 zl / Da_def c 0 zs.

(* ------------------------------------------------------------------------------------------ *)
(* The accuracy criterion of the statement, for an implementation output [out], the Hogg value  *)
(* [ref] and the fixed-order Gauss-Legendre value [gl] of the R model evaluated with the tables *)
(* the implementation actually uses: the error is at most 1.5 x the truncation error (plus a    *)
(* rounding allowance of 1e-12 relative).                                                       *)
(* ------------------------------------------------------------------------------------------ *)
Definition within_truncation (out ref gl : R) : Prop :=
  Rabs (out - ref) <= 3 / 2 * Rabs (gl - ref) + 1 / 10 ^ 12 * Rabs out.
(* closeness to rounding of an output to a model value; it implies the criterion for every
   reference (Proofs.within_truncation_of_close) *)
Definition close12 (out gl : R) : Prop := Rabs (out - gl) <= 1 / 10 ^ 12 * Rabs out.
(* the documented accuracy for concordance-like parameters *)
Definition within_rel (tol out ref : R) : Prop := Rabs (out - ref) <= tol * Rabs ref.

(* mirror symmetry of a Gauss-Legendre table on [-1,1] *)
Definition mirror (xs ws : list R) : Prop :=
  length xs = length ws /\ rev xs = map Ropp xs /\ rev ws = ws.

(* ------------------------------------------------------------------------------------------ *)
(* element-wise dispatch                                                                        *)
(* ------------------------------------------------------------------------------------------ *)
Definition elementwise2 {A B} (f : A -> A -> B) (a b : zarg A) (out : result (zarg B)) : Prop :=
  match a, b with
  | Sc x, Sc y => out = Ok (Sc (f x y))
  | Ar xs, Sc y => exists l, out = Ok (Ar l) /\ length l = length xs /\
                             forall i d e, (i < length xs)%nat -> nth i l e = f (nth i xs d) y
  | Sc x, Ar ys => exists l, out = Ok (Ar l) /\ length l = length ys /\
                             forall i d e, (i < length ys)%nat -> nth i l e = f x (nth i ys d)
  | Ar xs, Ar ys =>
      if Nat.eqb (length xs) (length ys)
      then exists l, out = Ok (Ar l) /\ length l = length xs /\
                     forall i d e, (i < length xs)%nat -> nth i l e = f (nth i xs d) (nth i ys d)
      else out = Err EValue
  end.

Definition elementwise1 {A B} (g : A -> B) (a : zarg A) (out : zarg B) : Prop :=
  match a with
  | Sc x => out = Sc (g x)
  | Ar xs => exists l, out = Ar l /\ length l = length xs /\
                       forall i d e, (i < length xs)%nat -> nth i l e = g (nth i xs d)
  end.

(* boolean versions over Z (bit patterns of binary64 values), evaluated on implementation outputs *)
Local Open Scope Z_scope.
Definition zarg_eqb (a b : zarg Z) : bool :=
  match a, b with
  | Sc x, Sc y => x =? y
  | Ar l, Ar m => zlist_eqb l m
  | _, _ => false
  end.

Fixpoint pointwise2_b (f : Z -> Z -> Z) (xs ys l : list Z) : bool :=
  match xs, ys, l with
  | [], [], [] => true
  | x :: xs', y :: ys', v :: l' => (v =? f x y) && pointwise2_b f xs' ys' l'
  | _, _, _ => false
  end.

Definition elementwise2_b (f : Z -> Z -> Z) (a b : zarg Z) (out : result (zarg Z)) : bool :=
  match a, b, out with
  | Sc x, Sc y, Ok (Sc v) => v =? f x y
  | Ar xs, Sc y, Ok (Ar l) => pointwise2_b f xs (repeat y (length xs)) l
  | Sc x, Ar ys, Ok (Ar l) => pointwise2_b f (repeat x (length ys)) ys l
  | Ar xs, Ar ys, Ok (Ar l) => Nat.eqb (length xs) (length ys) && pointwise2_b f xs ys l
  | Ar xs, Ar ys, Err EValue => negb (Nat.eqb (length xs) (length ys))
  | _, _, _ => false
  end.

Fixpoint pointwise1_b (g : Z -> Z) (xs l : list Z) : bool :=
  match xs, l with
  | [], [] => true
  | x :: xs', v :: l' => (v =? g x) && pointwise1_b g xs' l'
  | _, _ => false
  end.
Definition elementwise1_b (g : Z -> Z) (a : zarg Z) (out : zarg Z) : bool :=
  match a, out with
  | Sc x, Sc v => v =? g x
  | Ar xs, Ar l => pointwise1_b g xs l
  | _, _ => false
  end.

(* ------------------------------------------------------------------------------------------ *)
(* "the exact identities hold to rounding", decided on the exact rational values of the         *)
(* implementation's binary64 outputs: |a - b| <= 2^-49 * |b|  (16 units in the last place)       *)
(* ------------------------------------------------------------------------------------------ *)
Local Open Scope Q_scope.
Definition RND : Q := 1 # (2 ^ 49).
Definition close_to_rounding (a b : Q) : Prop := Qabs (a - b) <= RND * Qabs b.
Definition close_b (a b : Q) : bool := Qle_bool (Qabs (a - b)) (RND * Qabs b).

Record ident_outputs := mkIdent {
  i_flat : bool; i_z2 : Q;
  i_Dc : Q; i_Dm : Q; i_Da : Q; i_Dl : Q;     (* at (z1, z2) *)
  i_Dc_rev : Q;                               (* Dc(z2, z1) *)
  i_sc_rev : Q; i_sc_same : Q }.              (* sigmacritinv(z2, z1) with z1 <= z2; sigmacritinv(z2, z2) *)

(* Da = Dm/(1+z), Dl = Dm(1+z), Dm = Dc when flat, Dc(a,b) = -Dc(b,a), Sigma_crit^-1 = 0 for
   sources at or in front of the lens *)
Definition identities (o : ident_outputs) : Prop :=
  close_to_rounding (i_Da o * (1 + i_z2 o)) (i_Dm o)
  /\ close_to_rounding (i_Dl o) (i_Dm o * (1 + i_z2 o))
  /\ (i_flat o = true -> close_to_rounding (i_Dm o) (i_Dc o))
  /\ close_to_rounding (i_Dc_rev o) (- i_Dc o)
  /\ i_sc_rev o == 0 /\ i_sc_same o == 0.

Definition identities_b (o : ident_outputs) : bool :=
  close_b (i_Da o * (1 + i_z2 o)) (i_Dm o)
  && close_b (i_Dl o) (i_Dm o * (1 + i_z2 o))
  && (if i_flat o then close_b (i_Dm o) (i_Dc o) else true)
  && close_b (i_Dc_rev o) (- i_Dc o)
  && Qeq_bool (i_sc_rev o) 0 && Qeq_bool (i_sc_same o) 0.

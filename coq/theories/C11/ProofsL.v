(* C11 -- proof-deepening round: the C loops of the vector wrappers, the history (store) model, exact
   characterisation of rejections, completeness of the boolean checkers.  Discrete; no axioms. *)
From Coq Require Import ZArith List Bool Lia Arith QArith Qabs PrimFloat.
From EsVerif.Common Require Import Base.
From EsVerif.C11 Require Import Gen Model ModelF Spec Proofs Exec.
Import ListNotations.

(* ------------------------------------------------------------------ the C loop *)
Lemma firstn_set_nth {B} (v : B) : forall res i, (i < length res)%nat ->
  firstn (S i) (set_nth res i v) = firstn i res ++ [v].
Proof.
  induction res as [|x t IH]; intros [|i] L; cbn in *; try lia; [reflexivity|].
  f_equal. apply IH. lia.
Qed.

Lemma skipn_set_nth {B} (v : B) : forall res i n, (i < n)%nat -> skipn n (set_nth res i v) = skipn n res.
Proof.
  induction res as [|x t IH]; intros [|i] [|n] L; cbn; try lia; try reflexivity.
  apply IH. lia.
Qed.

Lemma c_loop_spec {B} (body : nat -> B) : forall todo i res, (i + todo <= length res)%nat ->
  c_loop todo i body res = firstn i res ++ map body (seq i todo) ++ skipn (i + todo) res.
Proof.
  induction todo as [|k IH]; intros i res L; cbn [c_loop seq map].
  - rewrite Nat.add_0_r. cbn. symmetry. apply firstn_skipn.
  - rewrite IH by (rewrite set_nth_length; lia).
    rewrite firstn_set_nth by lia. rewrite skipn_set_nth by lia.
    replace (S i + k)%nat with (i + S k)%nat by lia. rewrite <- app_assoc. reflexivity.
Qed.

Lemma c_loop_is_map {B} (zero : B) (body : nat -> B) n :
  c_loop n 0 body (repeat zero n) = map body (seq 0 n).
Proof.
  rewrite c_loop_spec by (rewrite repeat_length; lia). cbn [firstn app plus].
  rewrite skipn_all2 by (rewrite repeat_length; lia). apply app_nil_r.
Qed.

(* every slot of the result holds the loop body at its own index, and nothing else is written *)
Lemma c_loop_slots {B} (zero : B) (body : nat -> B) n :
  length (c_loop n 0 body (repeat zero n)) = n /\
  forall i d, (i < n)%nat -> nth i (c_loop n 0 body (repeat zero n)) d = body i.
Proof.
  rewrite c_loop_is_map. split; [rewrite map_length, seq_length; reflexivity|].
  intros i d L. rewrite (nth_indep _ d (body 0%nat)) by (rewrite map_length, seq_length; assumption).
  rewrite map_nth, seq_nth by assumption. reflexivity.
Qed.

Lemma map_nth_seq {A B} (d : A) (g : A -> B) : forall xs, map (fun i => g (nth i xs d)) (seq 0 (length xs)) = map g xs.
Proof.
  induction xs as [|x t IH]; [reflexivity|]. cbn [length seq map nth]. f_equal.
  rewrite <- seq_shift, map_map. exact IH.
Qed.

Lemma map_nth_seq2 {A B} (d : A) (f : A -> A -> B) : forall xs ys, length xs = length ys ->
  map (fun i => f (nth i xs d) (nth i ys d)) (seq 0 (length xs)) = two_vec f xs ys.
Proof.
  induction xs as [|x t IH]; intros [|y u] L; cbn in L; try lia; [reflexivity|].
  cbn [length seq map nth two_vec]. f_equal. rewrite <- seq_shift, map_map. apply IH. lia.
Qed.

Lemma wrapper_vec1 {A B} (d : A) (zero : B) f xs y : run_wrapper d zero W_vec1 f (Ar xs) (Sc y) = vec1 f xs y.
Proof. unfold run_wrapper, W_vec1, vec1. cbn [w_size_first w_k1 w_k2 arg_len arg_at]. rewrite c_loop_is_map.
  apply (map_nth_seq d (fun x => f x y)). Qed.
Lemma wrapper_vec2 {A B} (d : A) (zero : B) f x ys : run_wrapper d zero W_vec2 f (Sc x) (Ar ys) = vec2 f x ys.
Proof. unfold run_wrapper, W_vec2, vec2. cbn [w_size_first w_k1 w_k2 arg_len arg_at]. rewrite c_loop_is_map.
  apply (map_nth_seq d (fun y => f x y)). Qed.
Lemma wrapper_2vec {A B} (d : A) (zero : B) f xs ys : length xs = length ys ->
  run_wrapper d zero W_2vec f (Ar xs) (Ar ys) = two_vec f xs ys.
Proof. intro L. unfold run_wrapper, W_2vec. cbn [w_size_first w_k1 w_k2 arg_len arg_at]. rewrite c_loop_is_map.
  apply map_nth_seq2. assumption. Qed.
Lemma wrapper1_is_map {A B} (d : A) (zero : B) (g : A -> B) xs : run_wrapper1 d zero g xs = map g xs.
Proof. unfold run_wrapper1. rewrite c_loop_is_map. apply map_nth_seq. Qed.

Lemma dispatch2_c_is_dispatch2 {A B} (d : A) (zero : B) (f : A -> A -> B) a b :
  dispatch2_c d zero W_vec1 W_vec2 W_2vec f a b = dispatch2 f a b.
Proof.
  destruct a as [x|xs], b as [y|ys]; cbn [dispatch2_c dispatch2]; try reflexivity.
  - rewrite wrapper_vec2. reflexivity.
  - rewrite wrapper_vec1. reflexivity.
  - destruct (Nat.eqb (length xs) (length ys)) eqn:E; [|reflexivity].
    apply Nat.eqb_eq in E. rewrite wrapper_2vec by assumption. reflexivity.
Qed.

(* a wrapper that reads a stale / fixed slot is NOT the element-wise map: the theorem is not vacuous *)
Lemma wrong_wrapper_differs :
  run_wrapper 0%Z 0%Z (mkW KIndexed KIndexed false) Z.add (Ar [1; 2]%Z) (Ar [10; 20; 30]%Z) <> two_vec Z.add [1; 2]%Z [10; 20; 30]%Z
  /\ run_wrapper 0%Z 0%Z (mkW KScalar KIndexed true) Z.add (Ar [1; 2]%Z) (Ar [10; 20]%Z) <> two_vec Z.add [1; 2]%Z [10; 20]%Z.
Proof. split; vm_compute; intro H; discriminate H. Qed.

(* ------------------------------------------------------------------ rejections, exactly *)
Lemma dispatch2_rejects_iff {A B} (f : A -> A -> B) a b e :
  dispatch2 f a b = Err e <-> exists xs ys, a = Ar xs /\ b = Ar ys /\ length xs <> length ys /\ e = EValue.
Proof.
  split.
  - destruct a as [x|xs], b as [y|ys]; cbn; try discriminate.
    destruct (Nat.eqb (length xs) (length ys)) eqn:E; [discriminate|].
    intro H. inversion H. subst. exists xs, ys. apply Nat.eqb_neq in E. auto.
  - intros (xs & ys & -> & -> & N & ->). cbn. apply Nat.eqb_neq in N. rewrite N. reflexivity.
Qed.

Lemma dispatch2_accepts {A B} (f : A -> A -> B) a b :
  (exists v, dispatch2 f a b = Ok v) <-> (forall xs ys, a = Ar xs -> b = Ar ys -> length xs = length ys).
Proof.
  split.
  - intros [v H] xs ys -> ->. cbn in H. destruct (Nat.eqb (length xs) (length ys)) eqn:E; [apply Nat.eqb_eq; assumption|discriminate].
  - intro H. destruct a as [x|xs], b as [y|ys]; cbn; eauto.
    rewrite (proj2 (Nat.eqb_eq _ _) (H xs ys eq_refl eq_refl)). eauto.
Qed.

(* ------------------------------------------------------------------ completeness of the checkers *)
Lemma close_b_iff a b : close_b a b = true <-> close_to_rounding a b.
Proof. unfold close_b, close_to_rounding. apply Qle_bool_iff. Qed.

Lemma identities_b_complete o : identities o -> identities_b o = true.
Proof.
  unfold identities, identities_b. intros (H1 & H2 & H3 & H4 & H5 & H6).
  repeat (apply andb_true_iff; split); try (apply close_b_iff; assumption); try (apply Qeq_bool_iff; assumption).
  destruct (i_flat o); [apply close_b_iff; apply H3; reflexivity|reflexivity].
Qed.

Lemma pointwise2_b_complete f : forall xs ys l, length l = length xs -> length xs = length ys ->
  (forall i d e, (i < length xs)%nat -> nth i l e = f (nth i xs d) (nth i ys d)) -> pointwise2_b f xs ys l = true.
Proof.
  induction xs as [|x xs IH]; intros [|y ys] [|v l] L1 L2 N; cbn in *; try lia; try reflexivity.
  apply andb_true_iff. split.
  - apply Z.eqb_eq. apply (N 0%nat 0%Z 0%Z). lia.
  - apply IH; try lia. intros i d e L. apply (N (S i) d e). lia.
Qed.

Lemma pointwise1_b_complete g : forall xs l, length l = length xs ->
  (forall i d e, (i < length xs)%nat -> nth i l e = g (nth i xs d)) -> pointwise1_b g xs l = true.
Proof.
  induction xs as [|x xs IH]; intros [|v l] L1 N; cbn in *; try lia; try reflexivity.
  apply andb_true_iff. split.
  - apply Z.eqb_eq. apply (N 0%nat 0%Z 0%Z). lia.
  - apply IH; try lia. intros i d e L. apply (N (S i) d e). lia.
Qed.

Lemma elementwise2_b_complete f a b out : elementwise2 f a b out -> elementwise2_b f a b out = true.
Proof.
  destruct a as [x|xs], b as [y|ys]; cbn.
  - intros ->. apply Z.eqb_refl.
  - intros (l & -> & L & N). apply pointwise2_b_complete; rewrite ?repeat_length; auto.
    intros i d e Li. rewrite (N i d e Li), nth_repeat' by assumption. reflexivity.
  - intros (l & -> & L & N). apply pointwise2_b_complete; rewrite ?repeat_length; auto.
    intros i d e Li. rewrite ?repeat_length in Li. rewrite (N i d e Li), nth_repeat' by assumption. reflexivity.
  - destruct (Nat.eqb (length xs) (length ys)) eqn:E.
    + intros (l & -> & L & N). cbn. rewrite ?E. cbn. apply pointwise2_b_complete; auto. apply Nat.eqb_eq; assumption.
    + intros ->. cbn. rewrite ?E. reflexivity.
Qed.

Lemma elementwise1_b_complete g a out : elementwise1 g a out -> elementwise1_b g a out = true.
Proof.
  destruct a as [x|xs]; cbn.
  - intros ->. apply Z.eqb_refl.
  - intros (l & -> & L & N). apply pointwise1_b_complete; auto.
Qed.

(* ------------------------------------------------------------------ history *)
Section HistoryProofs.
  Context {num : Type}.
  Variables (zero one h_scale clight : num) (sub mul div : num -> num -> num) (is_zero : num -> bool).
  Notation run1 := (hrun1 zero one h_scale clight sub mul div is_zero).
  Notation run := (hrun zero one h_scale clight sub mul div is_zero).
  Notation mk := (construct zero one h_scale clight sub mul div is_zero).

  (* does the step write handle j ? *)
  Definition targets (st : @hstep num) (j : nat) : bool :=
    match st with HReinit i _ | HDel i => Nat.eqb i j | _ => false end.

  Lemma hget_set_nth_other (s : @store num) i j v : i <> j -> hget (set_nth s i v) j = hget s j.
  Proof. intro N. unfold hget. apply nth_set_nth_neq. assumption. Qed.

  (* frame: a step leaves every handle it does not target as it was (new handles are appended) *)
  Lemma hrun1_frame s st j : (j < length s)%nat -> targets st j = false -> hget (run1 s st) j = hget s j.
  Proof.
    intros L T. destruct st as [a|src op|i a|i|i]; cbn [hrun1 targets] in *.
    - unfold hget. apply app_nth1. assumption.
    - unfold hget. apply app_nth1. assumption.
    - apply Nat.eqb_neq in T. destruct (hget s i); [apply hget_set_nth_other; assumption|reflexivity].
    - apply Nat.eqb_neq in T. apply hget_set_nth_other; assumption.
    - reflexivity.
  Qed.

  Lemma hrun1_length s st : (length s <= length (run1 s st))%nat.
  Proof.
    destruct st as [a|src op|i a|i|i]; cbn [hrun1]; rewrite ?app_length, ?set_nth_length; cbn; try lia.
    destruct (hget s i); rewrite ?set_nth_length; lia.
  Qed.

  Lemma hrun_frame l : forall s j, (j < length s)%nat -> forallb (fun st => negb (targets st j)) l = true ->
    hget (run s l) j = hget s j.
  Proof.
    induction l as [|st l IH]; intros s j L T; [reflexivity|]. cbn [hrun fold_left forallb] in *.
    apply andb_true_iff in T as [T1 T2]. apply negb_true_iff in T1.
    change (fold_left run1 l (run1 s st)) with (run (run1 s st) l).
    rewrite IH; [apply hrun1_frame; assumption| |assumption].
    pose proof (hrun1_length s st). lia.
  Qed.

  (* a constructed object does not depend on what the process did before *)
  Lemma hnew_independent s a : hget (run1 s (HNew a)) (length s) = Some (mk a).
  Proof. cbn. unfold hget. rewrite app_nth2, Nat.sub_diag by lia. reflexivity. Qed.

  (* whatever a method returns on handle j is unchanged by any steps that do not re-initialise or drop j *)
  Lemma hobserve_history_free {T} (dist : num -> bool -> num -> num -> num -> T) s l j :
    (j < length s)%nat -> forallb (fun st => negb (targets st j)) l = true ->
    hobserve dist (run s l) j = hobserve dist s j.
  Proof. intros L H. unfold hobserve. rewrite hrun_frame by assumption. reflexivity. Qed.
End HistoryProofs.

(* ------------------------------------------------------------------ reachable stores *)
Section Reach.
  Context {num : Type}.
  Variables (zero one h_scale clight : num) (sub mul div : num -> num -> num) (is_zero : num -> bool).
  Hypothesis zero_is_zero : is_zero zero = true.
  Notation run1 := (hrun1 zero one h_scale clight sub mul div is_zero).
  Notation run := (hrun zero one h_scale clight sub mul div is_zero).
  Notation mk := (construct zero one h_scale clight sub mul div is_zero).
  Notation chain := (clone_chain zero one h_scale clight sub mul div is_zero).
  Notation cp := (apply_op zero one h_scale clight sub mul div is_zero).

  (* every object a process can hold is a clone chain of some constructor call *)
  Definition reach_inv (s : @store num) : Prop :=
    forall j o, hget s j = Some o -> exists a ops, o = chain a ops.

  Lemma reach_nil : reach_inv [].
  Proof. intros [|j] o H; discriminate H. Qed.

  Lemma hget_app (s : @store num) v j : hget (s ++ [v]) j = if (j <? length s)%nat then hget s j else if (j =? length s)%nat then v else None.
  Proof.
    unfold hget. destruct (j <? length s)%nat eqn:E.
    - apply Nat.ltb_lt in E. apply app_nth1. assumption.
    - apply Nat.ltb_ge in E. rewrite app_nth2 by assumption. destruct (j =? length s)%nat eqn:E2.
      + apply Nat.eqb_eq in E2. subst. rewrite Nat.sub_diag. reflexivity.
      + apply Nat.eqb_neq in E2. destruct (j - length s)%nat as [|[|k]] eqn:K; cbn; try reflexivity. lia.
  Qed.

  Lemma hget_beyond (s : @store num) j : (length s <= j)%nat -> hget s j = None.
  Proof. intro L. unfold hget. apply nth_overflow. assumption. Qed.

  Lemma hget_set_nth (s : @store num) i j v : hget (set_nth s i v) j = if (i =? j)%nat && (j <? length s)%nat then v else hget s j.
  Proof.
    unfold hget. destruct (i =? j)%nat eqn:E.
    - apply Nat.eqb_eq in E. subst. destruct (j <? length s)%nat eqn:L; cbn.
      + apply Nat.ltb_lt in L. apply nth_set_nth_eq. assumption.
      + apply Nat.ltb_ge in L. rewrite !nth_overflow; rewrite ?set_nth_length; auto.
    - apply Nat.eqb_neq in E. cbn. apply nth_set_nth_neq. assumption.
  Qed.

  Lemma reach_step s st : reach_inv s -> reach_inv (run1 s st).
  Proof.
    intros I j o H. destruct st as [a|src op|i a|i|i]; cbn [hrun1] in H.
    - rewrite hget_app in H. destruct (j <? length s)%nat; [eapply I; eassumption|].
      destruct (j =? length s)%nat; [|discriminate]. inversion H. exists a, []. reflexivity.
    - rewrite hget_app in H. destruct (j <? length s)%nat; [eapply I; eassumption|].
      destruct (j =? length s)%nat; [|discriminate].
      destruct (hget s src) as [o0|] eqn:G; [|discriminate]. cbn in H. inversion H.
      destruct (I _ _ G) as (a & ops & ->). exists a, (ops ++ [op]). unfold clone_chain. rewrite fold_left_app. reflexivity.
    - destruct (hget s i) eqn:G; [|eapply I; eassumption].
      rewrite hget_set_nth in H. destruct ((i =? j)%nat && (j <? length s)%nat); [|eapply I; eassumption].
      inversion H. exists a, []. reflexivity.
    - rewrite hget_set_nth in H. destruct ((i =? j)%nat && (j <? length s)%nat); [discriminate|eapply I; eassumption].
    - eapply I; eassumption.
  Qed.

  Lemma reach_run l : forall s, reach_inv s -> reach_inv (run s l).
  Proof. induction l as [|st l IH]; intros s I; [assumption|]. cbn [hrun fold_left]. apply IH. apply reach_step. assumption. Qed.

  (* hence: whatever the history, every live handle reports the parameters of a plain constructor call, so the
     normalisation rules (C11_params_normalised, C11_h_overrides_H0) hold for every object a process can ever hold *)
  Theorem reachable_reports_constructed l j o :
    hget (run [] l) j = Some o -> exists a, reported o = reported (mk a).
  Proof.
    intro H. destruct (reach_run l [] reach_nil j o H) as (a & ops & ->). exists a.
    apply (clone_chain_reported zero one h_scale clight sub mul div is_zero zero_is_zero).
  Qed.
End Reach.

(* ------------------------------------------------------------------ the binary64 chain: identities that hold bit for bit *)
Lemma float_chain_identities libm c a b :
  (fflat c = true -> DmF libm c a b = Some (DcF c a b))
  /\ DaF libm c a b = option_map (fun d => (d / (1 + b))%float) (DmF libm c a b)
  /\ DlF libm c a b = option_map (fun d => (d * (1 + b))%float) (DmF libm c a b)
  /\ (PrimFloat.leb b a = true -> scinvF libm c a b = Some 0%float)
  /\ DcF c a b = (fDH c * ezinv_integralF c a b)%float.
Proof.
  repeat split.
  - intro F. unfold DmF. rewrite F. reflexivity.
  - intro L. unfold scinvF. rewrite L. reflexivity.
Qed.

(* ------------------------------------------------------------------ gauleg's fill: weights symmetric, nodes paired *)
Definition sym_list {A} (n : nat) (d : A) (w : list A) : Prop :=
  length w = n /\ forall j, (j < n)%nat -> nth j w d = nth (n - 1 - j) w d.

Lemma sym_repeat {A} (d v : A) n : sym_list n d (repeat v n).
Proof. split; [apply repeat_length|]. intros j L. rewrite !nth_repeat' by lia. reflexivity. Qed.

Lemma nth_set_nth {A} (l : list A) n m v d :
  nth m (set_nth l n v) d = if (n =? m)%nat && (m <? length l)%nat then v else nth m l d.
Proof.
  destruct (n =? m)%nat eqn:E.
  - apply Nat.eqb_eq in E. subst. destruct (m <? length l)%nat eqn:L; cbn.
    + apply Nat.ltb_lt in L. apply nth_set_nth_eq. assumption.
    + apply Nat.ltb_ge in L. rewrite !nth_overflow; rewrite ?set_nth_length; auto.
  - apply Nat.eqb_neq in E. cbn. apply nth_set_nth_neq. assumption.
Qed.

Lemma sym_write_pair {A} (d v : A) n w lo : sym_list n d w -> (lo < n)%nat ->
  sym_list n d (set_nth (set_nth w lo v) (n - 1 - lo) v).
Proof.
  intros [L S] Hlo. split; [rewrite !set_nth_length; assumption|].
  intros j Hj. rewrite !nth_set_nth, !set_nth_length, L.
  assert (E1 : (j <? n)%nat = true) by (apply Nat.ltb_lt; lia).
  assert (E2 : (n - 1 - j <? n)%nat = true) by (apply Nat.ltb_lt; lia).
  rewrite E1, E2, !andb_true_r.
  destruct (n - 1 - lo =? j)%nat eqn:A1; destruct (n - 1 - lo =? n - 1 - j)%nat eqn:A2;
  destruct (lo =? j)%nat eqn:A3; destruct (lo =? n - 1 - j)%nat eqn:A4;
  rewrite ?Nat.eqb_eq, ?Nat.eqb_neq in *; try reflexivity; try lia. apply S. assumption.
Qed.

Lemma gauleg_loop_weights_sym cosv npts xm xl : forall todo i z1 pp x w x' w',
  gauleg_loop cosv npts xm xl todo i z1 pp x w = Some (x', w') ->
  (1 <= i)%nat -> (i + todo <= npts + 1)%nat -> sym_list npts 0%float w -> sym_list npts 0%float w'.
Proof.
  induction todo as [|k IH]; intros i z1 pp x w x' w' H Hi Hb S; cbn [gauleg_loop] in H.
  - inversion H. subst. assumption.
  - destruct (ask cosv _) as [z0|]; [|discriminate].
    destruct (newton 100 npts z0 z1 pp) as [[[z z1'] pp']|]; [|discriminate].
    eapply IH in H; try eassumption; try lia.
    replace (npts + 1 - i - 1)%nat with (npts - 1 - (i - 1))%nat by lia.
    apply sym_write_pair; [assumption|lia].
Qed.

Theorem gauleg_weights_symmetric cosv x1 x2 npts x w :
  gauleg cosv x1 x2 npts = Some (x, w) -> sym_list npts 0%float w.
Proof.
  unfold gauleg. intro H. eapply gauleg_loop_weights_sym in H; try eassumption; try lia.
  - pose proof (Nat.div_le_upper_bound (npts + 1) 2 (npts + 1)). assert ((npts + 1) / 2 <= npts + 1)%nat by (apply Nat.div_le_upper_bound; lia). 
    destruct npts as [|n]; [cbn; lia|].
    assert ((S n + 1) / 2 <= S n)%nat by (apply Nat.div_le_upper_bound; lia). lia.
  - apply sym_repeat.
Qed.

(* the documented normalisation rules as a proposition about the values an object REPORTS (binary64 values read as exact
   rationals; "to rounding" = Spec.close_to_rounding), for the keyword arguments k the caller gave *)
Definition params_rules (k : kwargs) (r : rep) : Prop :=
  (finite (r_H0 r) = true /\ finite (r_DH r) = true /\ finite (r_om r) = true /\ finite (r_ol r) = true /\ finite (r_ok r) = true)
  /\ (if r_flat r then qof (r_ok r) == 0 /\ close_to_rounding (qof (r_ol r)) (1 - qof (r_om r))
      else match k_ol k with Some l => fsame (r_ol r) l = true | None => True end)
  /\ match k_ok k with
     | Some w => (r_flat r = true <-> qof w == 0) /\ (r_flat r = false -> fsame (r_ok r) w = true)
     | None => r_flat r = true
     end
  /\ match k_om k with Some m => fsame (r_om r) m = true | None => close_to_rounding (qof (r_om r)) (3 # 10) end
  /\ match k_h k, k_H0 k with
     | Some h, _ => close_to_rounding (qof (r_H0 r)) (100 * qof h)
     | None, Some H => fsame (r_H0 r) H = true
     | None, None => qof (r_H0 r) == 100
     end
  /\ close_to_rounding (qof (r_DH r) * qof (r_H0 r)) CLIGHT_Q.

Lemma eqb_true_iff_iff a b : Bool.eqb a b = true <-> (a = true <-> b = true).
Proof. destruct a, b; cbn; intuition congruence. Qed.

Lemma params_ok_spec k r : params_ok k r = true <-> params_rules k r.
Proof.
  unfold params_ok, params_rules.
  rewrite !andb_true_iff.
  assert (F : (if r_flat r then Qeq_bool (qof (r_ok r)) 0 && close_b (qof (r_ol r)) (1 - qof (r_om r))
               else match k_ol k with Some l => fsame (r_ol r) l | None => true end) = true <->
              (if r_flat r then qof (r_ok r) == 0 /\ close_to_rounding (qof (r_ol r)) (1 - qof (r_om r))
               else match k_ol k with Some l => fsame (r_ol r) l = true | None => True end)).
  { destruct (r_flat r); [rewrite andb_true_iff, Qeq_bool_iff, close_b_iff; reflexivity|].
    destruct (k_ol k); intuition. }
  assert (K : match k_ok k with
              | Some w => Bool.eqb (r_flat r) (Qeq_bool (qof w) 0) && (r_flat r || fsame (r_ok r) w)
              | None => r_flat r end = true <->
              match k_ok k with
              | Some w => (r_flat r = true <-> qof w == 0) /\ (r_flat r = false -> fsame (r_ok r) w = true)
              | None => r_flat r = true end).
  { destruct (k_ok k) as [w|]; [|reflexivity]. rewrite andb_true_iff, eqb_true_iff_iff, Qeq_bool_iff, orb_true_iff.
    destruct (r_flat r); intuition congruence. }
  assert (M : match k_om k with Some m => fsame (r_om r) m | None => close_b (qof (r_om r)) (3 # 10) end = true <->
              match k_om k with Some m => fsame (r_om r) m = true | None => close_to_rounding (qof (r_om r)) (3 # 10) end).
  { destruct (k_om k); [reflexivity|apply close_b_iff]. }
  assert (H : match k_h k, k_H0 k with
              | Some h, _ => close_b (qof (r_H0 r)) (100 * qof h)
              | None, Some H => fsame (r_H0 r) H
              | None, None => Qeq_bool (qof (r_H0 r)) 100 end = true <->
              match k_h k, k_H0 k with
              | Some h, _ => close_to_rounding (qof (r_H0 r)) (100 * qof h)
              | None, Some H => fsame (r_H0 r) H = true
              | None, None => qof (r_H0 r) == 100 end).
  { destruct (k_h k); [apply close_b_iff|]. destruct (k_H0 k); [reflexivity|apply Qeq_bool_iff]. }
  rewrite F, K, M, H, close_b_iff. tauto.
Qed.

Local Open Scope float_scope.

(* nodes: after the passes for roots 1 .. done, slot lo < done and its mirror slot n-1-lo hold xm -/+ xl*z of ONE root z *)
Definition nodes_paired (n done : nat) (xm xl : float) (x : list float) : Prop :=
  length x = n /\
  forall lo, (lo < done)%nat -> (2 * lo <= n - 1)%nat -> (lo < n)%nat ->
    exists z, nth (n - 1 - lo) x 0 = xm + xl * z /\ ((2 * lo < n - 1)%nat -> nth lo x 0 = xm - xl * z).

Lemma gauleg_loop_nodes_paired cosv npts xm xl : forall todo i z1 pp x w x' w',
  gauleg_loop cosv npts xm xl todo i z1 pp x w = Some (x', w') ->
  (1 <= i)%nat -> (2 * (i - 1 + todo) <= npts + 1)%nat -> nodes_paired npts (i - 1) xm xl x ->
  nodes_paired npts (i - 1 + todo) xm xl x'.
Proof.
  induction todo as [|k IH]; intros i z1 pp x w x' w' H Hi Hb P; cbn [gauleg_loop] in H.
  - inversion H. subst. rewrite Nat.add_0_r. assumption.
  - destruct (ask cosv _) as [z0|]; [|discriminate].
    destruct (newton 100 npts z0 z1 pp) as [[[z z1'] pp']|]; [|discriminate].
    replace (i - 1 + S k)%nat with (S i - 1 + k)%nat by lia.
    eapply IH in H; try eassumption; try lia.
    destruct P as [L P]. split; [rewrite !set_nth_length; assumption|].
    replace (npts + 1 - i - 1)%nat with (npts - 1 - (i - 1))%nat by lia.
    set (lo0 := (i - 1)%nat) in *.
    intros lo Hlo H2 Hn. rewrite !nth_set_nth, !set_nth_length, L.
    assert (E1 : (lo <? npts)%nat = true) by (apply Nat.ltb_lt; lia).
    assert (E2 : (npts - 1 - lo <? npts)%nat = true) by (apply Nat.ltb_lt; lia).
    rewrite E1, E2, !andb_true_r.
    destruct (Nat.eq_dec lo lo0) as [->|N].
    + exists z. rewrite Nat.eqb_refl. split; [reflexivity|]. intro Hlt.
      assert (A : (npts - 1 - lo0 =? lo0)%nat = false) by (apply Nat.eqb_neq; lia). rewrite A, Nat.eqb_refl. reflexivity.
    + assert (Hlo' : (lo < lo0)%nat) by lia.
      destruct (P lo Hlo' H2 Hn) as (z' & Q1 & Q2). exists z'.
      assert (A1 : (npts - 1 - lo0 =? npts - 1 - lo)%nat = false) by (apply Nat.eqb_neq; lia).
      assert (A2 : (lo0 =? npts - 1 - lo)%nat = false) by (apply Nat.eqb_neq; lia).
      assert (A3 : (npts - 1 - lo0 =? lo)%nat = false) by (apply Nat.eqb_neq; lia).
      assert (A4 : (lo0 =? lo)%nat = false) by (apply Nat.eqb_neq; lia).
      rewrite A1, A2, A3, A4. split; assumption.
Qed.

Theorem gauleg_nodes_paired cosv x1 x2 npts x w :
  gauleg cosv x1 x2 npts = Some (x, w) ->
  nodes_paired npts ((npts + 1) / 2) ((x1 + x2) / 2) ((x2 - x1) / 2) x.
Proof.
  unfold gauleg. intro H.
  apply (gauleg_loop_nodes_paired cosv npts _ _ ((npts + 1) / 2) 1 _ _ _ _ _ _) in H; try lia.
  - exact H.
  - cbn [Nat.sub]. pose proof (Nat.mul_div_le (npts + 1) 2). lia.
  - split; [apply repeat_length|]. intros lo Hlo. cbn in Hlo. lia.
Qed.

(* ------------------------------------------------------------------ folds that consult the libm oracle *)
(* when the option-valued quadrature loop of ModelF succeeds, it is the plain loop over the unwrapped integrand (used by the
   per-run tie between ModelF.VF and the V function translated from cosmolib.c) *)
Lemma fold_opt_unwrap : forall (l : list (float * float)) (g : float -> option float) f1 f2 acc r,
  fold_left (fun acc xw => match acc, g (fst xw * f1 + f2) with Some a, Some v => Some (a + f1 * v * snd xw) | _, _ => None end) l (Some acc) = Some r ->
  fold_left (fun v xw => v + f1 * (match g (fst xw * f1 + f2) with Some d => d | None => 0 end) * snd xw) l acc = r.
Proof.
  induction l as [|xw l IH]; intros g f1 f2 acc r H; cbn in *; [congruence|].
  destruct (g (fst xw * f1 + f2)) as [v|]; [apply IH; assumption|].
  exfalso. clear IH. induction l as [|y l IHl]; cbn in H; [discriminate|apply IHl; assumption].
Qed.

(* C11 -- property theorems only.  Bodies live in Proofs.v, ProofsV.v and Cert.v. *)
From Coq Require Import Reals ZArith List QArith Lra.
From Coquelicot Require Import Coquelicot.
From EsVerif.Common Require Import Base.
From EsVerif.C11 Require Import Gen Model ModelF Spec Proofs ProofsV ProofsL Cert.
Import ListNotations.

(* ================================================================ parameter normalisation *)
Section Params.
  Context {num : Type}.
  Variables (zero one h_scale clight : num) (sub mul div : num -> num -> num) (is_zero : num -> bool).
  Notation mk := (construct zero one h_scale clight sub mul div is_zero).

  (* flat forces omega_k = 0 and omega_l = 1 - omega_m; omega_m is passed through; flatness is
     decided by omega_k alone when it is given and forced when it is not *)
  Theorem C11_params_normalised : forall a : ctor_args,
    let o := mk a in
    c_om o = a_om a
    /\ (c_flat o = true -> c_ok o = zero /\ c_ol o = sub one (c_om o))
    /\ c_flat o = match a_ok a with Some k => is_zero k | None => true end.
  Proof.
    intro a. pose proof (construct_normalised zero one h_scale clight sub mul div is_zero a) as [N1 N2].
    cbv zeta in *. split; [exact N1|]. split; [exact N2|].
    pose proof (extract_flat_flag zero one sub is_zero (a_om a) (a_ol a) (a_ok a) (a_flat a)) as F.
    unfold construct. destruct (extract_parms zero one sub is_zero (a_om a) (a_ol a) (a_ok a) (a_flat a)) as [[[f om'] ol'] ok'].
    exact F.
  Qed.

  (* h overrides H0: H0 = 100 h, and DH = c / H0 in either case *)
  Theorem C11_h_overrides_H0 : forall a : ctor_args,
    let o := mk a in
    s_H0 o = match a_h a with Some h => mul h_scale h | None => a_H0 a end
    /\ c_DH o = div clight (s_H0 o).
  Proof. exact (construct_hubble zero one h_scale clight sub mul div is_zero). Qed.

  (* copy(), copy.copy, copy.deepcopy report the same parameters (and hold the same state) *)
  Theorem C11_copy_same_params : forall a : ctor_args,
    reported (copy zero one h_scale clight sub mul div is_zero (mk a)) = reported (mk a).
  Proof. intro a. apply (copy_construct zero one h_scale clight sub mul div is_zero). Qed.

  Hypothesis zero_is_zero : is_zero zero = true.     (* 0.0 == 0.0 *)

  (* the pickle round trip: extract_parms is idempotent on its own output *)
  Theorem C11_reduce_roundtrip : forall a : ctor_args,
    let o := mk a in
    extract_parms zero one sub is_zero (c_om o) (c_ol o) (Some (c_ok o)) (c_flat o)
      = (c_flat o, c_om o, c_ol o, c_ok o)
    /\ reported (unpickle zero one h_scale clight sub mul div is_zero o) = reported o.
  Proof.
    intro a. split.
    - apply (reduce_roundtrip_extract zero one h_scale clight sub mul div is_zero zero_is_zero).
    - apply (unpickle_construct zero one h_scale clight sub mul div is_zero zero_is_zero).
  Qed.

  (* every object obtained from a constructed one by any sequence of copy / copy.copy /
     copy.deepcopy / pickle round trips reports the parameters of the original *)
  Theorem C11_clones_same_params : forall (a : ctor_args) (ops : list clone_op),
    reported (clone_chain zero one h_scale clight sub mul div is_zero a ops) = reported (mk a).
  Proof. intros a ops. apply (clone_chain_reported zero one h_scale clight sub mul div is_zero zero_is_zero). Qed.

  (* ... and gives the same distances: every observable quantity is a function of the fields of the C struct
     (DH, flat, omega_m, omega_l, omega_k; the Gauss-Legendre tables do not depend on the parameters), so any such
     function -- in particular the bit-exact binary64 chain of ModelF -- takes the same value on the clone *)
  Theorem C11_clones_same_distances : forall (T : Type) (dist : num -> bool -> num -> num -> num -> T)
                                             (a : ctor_args) (ops : list clone_op),
    let o := clone_chain zero one h_scale clight sub mul div is_zero a ops in
    let o0 := mk a in
    dist (c_DH o) (c_flat o) (c_om o) (c_ol o) (c_ok o) = dist (c_DH o0) (c_flat o0) (c_om o0) (c_ol o0) (c_ok o0).
  Proof.
    intros T dist a ops o o0. pose proof (C11_clones_same_params a ops) as R. fold o o0 in R.
    unfold reported in R. injection R as E1 E2 E3 E4 E5 E6. rewrite E2, E3, E4, E5, E6. reflexivity.
  Qed.
End Params.

(* ================================================================ dispatch *)
(* array-valued calls return element for element the scalar results; mismatched lengths are
   rejected with ValueError *)
Theorem C11_dispatch_elementwise : forall (A B : Type) (f : A -> A -> B) (a b : zarg A),
  elementwise2 f a b (dispatch2 f a b).
Proof. intros. apply dispatch2_elementwise. Qed.

Theorem C11_dispatch_arrays_are_map : forall (A B : Type) (f : A -> A -> B) xs ys,
  length xs = length ys ->
  dispatch2 f (Ar xs) (Ar ys) = Ok (Ar (map (fun p => f (fst p) (snd p)) (combine xs ys))).
Proof. intros. apply dispatch2_arrays. assumption. Qed.

Theorem C11_dispatch_mismatch_rejected : forall (A B : Type) (f : A -> A -> B) xs ys,
  length xs <> length ys -> dispatch2 f (Ar xs) (Ar ys) = Err EValue.
Proof. intros. apply dispatch2_mismatch. assumption. Qed.

Theorem C11_dispatch1_elementwise : forall (A B : Type) (g : A -> B) (a : zarg A),
  elementwise1 g a (dispatch1 g a).
Proof. intros. apply dispatch1_elementwise. Qed.

Theorem C11_distmod_elementwise : forall (A B C : Type) (dl : A -> A -> B) (post : B -> C) zero z,
  distmod_dispatch dl post zero z = Ok (dispatch1 (fun x => post (dl zero x)) z).
Proof. intros. apply distmod_dispatch_elementwise. Qed.

(* ================================================================ proof-deepening round: the C loops *)
(* The vector entry points of cosmolib_pywrap.c are loops `for (i=0;i<n;i++) res[i] = f(a or a[i], b or b[i])` over a
   zero-initialised array.  Modelled as such (sequential writes with set_nth), the loop puts f at its own index into every
   slot and writes nothing else ... *)
Theorem C11_c_loop_slots : forall (B : Type) (zero : B) (body : nat -> B) n,
  length (c_loop n 0 body (repeat zero n)) = n /\
  forall i d, (i < n)%nat -> nth i (c_loop n 0 body (repeat zero n)) d = body i.
Proof. intros B. exact (@c_loop_slots B). Qed.

(* ... hence the Python dispatch with the three C wrappers plugged in (flags regenerated from the C source, Gen.WRAP_...)
   IS the element-wise model dispatch2 of C11_dispatch_elementwise, for every argument shape *)
Theorem C11_vector_loops_are_elementwise : forall (A B : Type) (d : A) (zero : B) (f : A -> A -> B) (a b : zarg A),
  dispatch2_c d zero W_vec1 W_vec2 W_2vec f a b = dispatch2 f a b.
Proof. intros A B. exact (@dispatch2_c_is_dispatch2 A B). Qed.

Theorem C11_vector_loop1_is_map : forall (A B : Type) (d : A) (zero : B) (g : A -> B) xs,
  run_wrapper1 d zero g xs = map g xs.
Proof. intros A B. exact (@wrapper1_is_map A B). Qed.

(* a wrapper that sizes the loop by the wrong array or reads an argument through a stale / wrong slot is NOT element-wise *)
Example C11_wrong_wrapper_differs :
  run_wrapper 0%Z 0%Z (mkW KIndexed KIndexed false) Z.add (Ar [1; 2]%Z) (Ar [10; 20; 30]%Z) <> two_vec Z.add [1; 2]%Z [10; 20; 30]%Z
  /\ run_wrapper 0%Z 0%Z (mkW KScalar KIndexed true) Z.add (Ar [1; 2]%Z) (Ar [10; 20]%Z) <> two_vec Z.add [1; 2]%Z [10; 20]%Z.
Proof. exact wrong_wrapper_differs. Qed.

(* exactly which calls are rejected, and with which error class *)
Theorem C11_dispatch_rejects_exactly : forall (A B : Type) (f : A -> A -> B) (a b : zarg A) e,
  dispatch2 f a b = Err e <-> exists xs ys, a = Ar xs /\ b = Ar ys /\ length xs <> length ys /\ e = EValue.
Proof. intros A B. exact (@dispatch2_rejects_iff A B). Qed.

(* the boolean checkers evaluated on the implementation's outputs are complete as well as sound: they decide the property *)
Theorem C11_checkers_complete :
  (forall o, identities o -> identities_b o = true)
  /\ (forall f a b out, elementwise2 f a b out -> elementwise2_b f a b out = true)
  /\ (forall g a out, elementwise1 g a out -> elementwise1_b g a out = true).
Proof. split; [exact identities_b_complete|]. split; [exact elementwise2_b_complete|exact elementwise1_b_complete]. Qed.

(* ================================================================ proof-deepening round: history *)
(* A process holding several cosmologies (new / clone / re-initialise / drop / any method call).  The model's answers do not
   depend on the history: a step leaves every handle it does not target unchanged, a new object is the same whatever was built
   before, and whatever a method returns on a handle is unchanged by any steps that do not re-initialise or drop that handle. *)
Section History.
  Context {num : Type}.
  Variables (zero one h_scale clight : num) (sub mul div : num -> num -> num) (is_zero : num -> bool).
  Notation run := (hrun zero one h_scale clight sub mul div is_zero).
  Notation run1 := (hrun1 zero one h_scale clight sub mul div is_zero).

  Theorem C11_history_frame : forall (s : store) (l : list hstep) j,
    (j < length s)%nat -> forallb (fun st => negb (targets st j)) l = true -> hget (run s l) j = hget s j.
  Proof. intros s l j. apply hrun_frame. Qed.

  Theorem C11_history_new_independent : forall (s : store) a,
    hget (run1 s (HNew a)) (length s) = Some (construct zero one h_scale clight sub mul div is_zero a).
  Proof. exact (hnew_independent zero one h_scale clight sub mul div is_zero). Qed.

  Theorem C11_history_observe_free : forall (T : Type) (dist : num -> bool -> num -> num -> num -> T) (s : store) l j,
    (j < length s)%nat -> forallb (fun st => negb (targets st j)) l = true ->
    hobserve dist (run s l) j = hobserve dist s j.
  Proof. intros T dist s l j. apply hobserve_history_free. Qed.
End History.

Example C11_history_nonvacuous :
  let s := hrun 0%Z 1%Z 100%Z 300000%Z Z.sub Z.mul Z.div (Z.eqb 0) []
             [HNew (mkArgs 100 None true 3 7 None); HNew (mkArgs 100 (Some 7) true 3 7 None); HClone 0 OpPickle;
              HReinit 1 (mkArgs 50 None false 3 7 (Some 2)); HDel 2]%Z in
  hobserve (fun DH _ _ _ _ => DH) s 0 = Some 3000%Z /\ hobserve (fun DH _ _ _ ok => (DH, ok)) s 1 = Some (6000, 2)%Z
  /\ hobserve (fun DH _ _ _ _ => DH) s 2 = None.
Proof. vm_compute. repeat split. Qed.

(* reachable states: whatever sequence of constructions / clones / re-initialisations / drops a process performs, every object
   it holds reports the parameters of a plain constructor call; hence the normalisation rules hold for every such object *)
Section Reachable.
  Context {num : Type}.
  Variables (zero one h_scale clight : num) (sub mul div : num -> num -> num) (is_zero : num -> bool).
  Hypothesis zero_is_zero : is_zero zero = true.
  Theorem C11_reachable_objects_report_constructed : forall (l : list hstep) j o,
    hget (hrun zero one h_scale clight sub mul div is_zero [] l) j = Some o ->
    exists a, reported o = reported (construct zero one h_scale clight sub mul div is_zero a).
  Proof. exact (reachable_reports_constructed zero one h_scale clight sub mul div is_zero zero_is_zero). Qed.
End Reachable.

(* ================================================================ identities of the chain *)
Local Open Scope R_scope.

Theorem C11_Da_is_Dm_over_1pz : forall xs ws c z1 z2,
  Da_GL xs ws c z1 z2 = Dm_GL xs ws c z1 z2 / (1 + z2).
Proof. exact Da_is_Dm_over. Qed.

Theorem C11_Dl_is_Dm_times_1pz : forall xs ws c z1 z2,
  Dl_GL xs ws c z1 z2 = Dm_GL xs ws c z1 z2 * (1 + z2).
Proof. exact Dl_is_Dm_times. Qed.

Theorem C11_flat_Dm_is_Dc : forall xs ws c z1 z2,
  cflat c = true -> Dm_GL xs ws c z1 z2 = Dc_GL xs ws c z1 z2.
Proof. exact flat_Dm_is_Dc. Qed.

(* Dc(a,b) = -Dc(b,a) for any mirror-symmetric table, in particular the Gauss-Legendre ones *)
Theorem C11_Dc_antisymmetric : forall xs ws c z1 z2,
  mirror xs ws -> Dc_GL xs ws c z1 z2 = - Dc_GL xs ws c z2 z1.
Proof. exact Dc_antisym. Qed.

Theorem C11_affine_map_of_mirror_nodes : forall xs a b, rev xs = map Ropp xs ->
  map (fun x => x * ((a - b) / 2) + (a + b) / 2) xs = rev (map (fun x => x * ((b - a) / 2) + (b + a) / 2) xs).
Proof. exact affine_mirror. Qed.

Theorem C11_Dc_same_redshift_zero : forall xs ws c z, Dc_GL xs ws c z z = 0.
Proof. exact Dc_same. Qed.

(* sources at or in front of the lens *)
Theorem C11_scinv_zero_in_front : forall xs ws c zl zs, zs <= zl -> scinv_GL xs ws c zl zs = 0.
Proof. exact scinv_zero. Qed.

(* ================================================================ the chain is Hogg's *)
(* The modelled code computes Hogg's definitions with the integral replaced by the quadrature
   sum: 1/E(z) is the definition itself, and wherever the sum equals the integral every distance
   equals its definition.  Hence (model value - definition) IS the truncation error of the rule. *)
Theorem C11_Einv_is_definition : forall c z,
  (cflat c = true -> cok c = 0) -> 0 < E2 c z -> ez_inverse c z = Einv_def c z.
Proof. exact ez_inverse_is_def. Qed.

Theorem C11_chain_is_Hogg_up_to_quadrature : forall xs ws c z1 z2,
  0 < cDH c -> curvature_consistent c ->
  ezinv_integral xs ws c z1 z2 = I_def c z1 z2 ->
  Dc_GL xs ws c z1 z2 = Dc_def c z1 z2 /\ Dm_GL xs ws c z1 z2 = Dm_def c z1 z2 /\
  Da_GL xs ws c z1 z2 = Da_def c z1 z2 /\ Dl_GL xs ws c z1 z2 = Dl_def c z1 z2.
Proof. intros xs ws c z1 z2 HD HC. apply chain_is_Hogg; assumption. Qed.

Theorem C11_derived_are_Hogg_up_to_quadrature : forall xs ws c,
  0 < cDH c -> curvature_consistent c ->
  (forall z, ezinv_integral xs ws c 0 z = I_def c 0 z -> distmod_GL xs ws c z = distmod_def c z)
  /\ (forall z, 0 < E2 c z -> ezinv_integral xs ws c 0 z = I_def c 0 z -> dV_GL xs ws c z = dV_def c z)
  /\ (forall zl zs, FOUR_PI_G_OVER_C_SQUARED_R = FOUR_PI_G_OVER_C2 ->
                    ezinv_integral xs ws c zl zs = I_def c zl zs ->
                    ezinv_integral xs ws c 0 zl = I_def c 0 zl ->
                    ezinv_integral xs ws c 0 zs = I_def c 0 zs ->
                    scinv_GL xs ws c zl zs = scinv_def c zl zs)
  /\ (forall vxs vws z1 z2,
        V_GL xs ws vxs vws c z1 z2 = gl_sum vxs vws (fun z => 4 * PI * dV_GL xs ws c z) z1 z2).
Proof.
  intros xs ws c HD HC. split; [|split; [|split]].
  - intros z. apply distmod_is_Hogg; assumption.
  - intros z. apply dV_is_Hogg; assumption.
  - intros zl zs. apply scinv_is_Hogg; assumption.
  - intros. apply V_GL_is_rule.
Qed.

(* the code's two-redshift sinh / sin form is Hogg's eq. 19 *)
Theorem C11_two_redshift_Hogg19 : forall DH ok d1 d2, 0 < DH -> 0 < ok ->
  let s := sqrt ok in
  let DM1 := DH / s * sinh (s * d1 / DH) in
  let DM2 := DH / s * sinh (s * d2 / DH) in
  DH / s * sinh (s * (d2 - d1) / DH) =
  DM2 * sqrt (1 + ok * DM1 ^ 2 / DH ^ 2) - DM1 * sqrt (1 + ok * DM2 ^ 2 / DH ^ 2).
Proof. exact two_redshift_Hogg19_open. Qed.

Theorem C11_two_redshift_Hogg19_closed : forall DH ok d1 d2, 0 < DH -> ok < 0 ->
  let s := sqrt (- ok) in
  0 <= cos (s * d1 / DH) -> 0 <= cos (s * d2 / DH) ->
  let DM1 := DH / s * sin (s * d1 / DH) in
  let DM2 := DH / s * sin (s * d2 / DH) in
  DH / s * sin (s * (d2 - d1) / DH) =
  DM2 * sqrt (1 + ok * DM1 ^ 2 / DH ^ 2) - DM1 * sqrt (1 + ok * DM2 ^ 2 / DH ^ 2).
Proof. exact two_redshift_Hogg19_closed. Qed.

(* the comoving volume: Hogg's closed form (eq. 29, the reference value of the per-run documented-
   accuracy lemmas for V) IS the integral of 4 pi dV over the redshift range, for every curvature *)
Theorem C11_V_closed_form_derivative : forall c z1 z2,
  0 <= z1 <= z2 -> (forall z, 0 <= z <= z2 -> 0 < E2 c z) ->
  V_def c z1 z2 = V_closed c z1 z2.
Proof. exact V_closed_form. Qed.

Example C11_V_closed_form_nonvacuous : forall z1 z2, 0 <= z1 <= z2 ->
  V_def (mkC 3000 false (3 / 10) (8 / 10) (-1 / 10)) z1 z2 = V_closed (mkC 3000 false (3 / 10) (8 / 10) (-1 / 10)) z1 z2.
Proof. exact V_closed_form_closed_example. Qed.

(* ================================================================ the accuracy criterion *)
(* A per-case certificate (a boolean evaluated by vm_compute over outward-rounded interval
   arithmetic) proves the statement's criterion for that case against ANY reference value, in
   particular against Hogg's definition with the genuine integral. *)
Theorem C11_certificate_sound : forall prec q xs ws vxs vws br c z1 z2 out ref,
  check prec q xs ws vxs vws br c z1 z2 out = true ->
  within_truncation (q2R out) ref
    (value_R q (map q2R xs) (map q2R ws) (map q2R vxs) (map q2R vws) (cosmoR_of c) (q2R z1) (q2R z2)).
Proof.
  intros prec q xs ws vxs vws br c z1 z2 out ref H. apply within_truncation_of_close.
  exact (cert prec q xs ws vxs vws br c z1 z2 out H).
Qed.

(* and what the criterion gives once the truncation error is bounded *)
Theorem C11_criterion_gives_error_bound : forall out ref gl t,
  within_truncation out ref gl -> Rabs (gl - ref) <= t ->
  Rabs (out - ref) <= 3 / 2 * t + 1 / 10 ^ 12 * Rabs out.
Proof. exact within_truncation_bound. Qed.

(* ================================================================ checker soundness *)
Theorem C11_checkers_sound :
  (forall o, identities_b o = true -> identities o)
  /\ (forall f a b out, elementwise2_b f a b out = true -> elementwise2 f a b out)
  /\ (forall g a out, elementwise1_b g a out = true -> elementwise1 g a out).
Proof.
  split; [exact identities_b_sound|]. split; [exact elementwise2_b_sound|exact elementwise1_b_sound].
Qed.

(* ================================================================ non-vacuity *)
(* a mirror-symmetric table exists and the antisymmetry is not 0 = 0; the dispatch rejects and
   accepts; a flat and a curved normalisation *)
Example C11_nonvacuous :
  mirror [-1; 0; 1] [1 / 3; 4 / 3; 1 / 3]
  /\ gl_sum [-1; 0; 1] [1 / 3; 4 / 3; 1 / 3] (fun z => z * z) 0 1 = 1 / 3
  /\ dispatch2 Z.add (Ar [1; 2]%Z) (Ar [10; 20]%Z) = Ok (Ar [11; 22]%Z)
  /\ dispatch2 Z.add (Ar [1; 2]%Z) (Ar [10]%Z) = Err EValue
  /\ extract_parms 0%Z 1%Z Z.sub (Z.eqb 0) 3%Z 7%Z None false = (true, 3, -2, 0)%Z
  /\ extract_parms 0%Z 1%Z Z.sub (Z.eqb 0) 3%Z 7%Z (Some 5%Z) true = (false, 3, 7, 5)%Z.
Proof.
  split; [|split; [|repeat split]].
  - unfold mirror. simpl. repeat split. repeat (f_equal; try lra).
  - unfold gl_sum. simpl. lra.
Qed.

Import PrimFloat.
Local Close Scope R_scope.
(* ================================================================ proof-deepening round: the binary64 model *)
(* identities that hold bit for bit in the binary64 chain (no rounding involved): flat Dm IS Dc, Da / Dl are Dm divided /
   multiplied by (1+z), Sigma_crit^-1 is exactly +0.0 whenever zs <= zl (IEEE comparison: false for NaN), Dc = DH * integral *)
Theorem C11_float_chain_identities : forall libm c a b,
  (fflat c = true -> DmF libm c a b = Some (DcF c a b))
  /\ DaF libm c a b = option_map (fun d => PrimFloat.div d (PrimFloat.add 1 b)) (DmF libm c a b)
  /\ DlF libm c a b = option_map (fun d => PrimFloat.mul d (PrimFloat.add 1 b)) (DmF libm c a b)
  /\ (PrimFloat.leb b a = true -> scinvF libm c a b = Some PrimFloat.zero)
  /\ DcF c a b = PrimFloat.mul (fDH c) (ezinv_integralF c a b).
Proof. exact float_chain_identities. Qed.

(* gauleg's fill loop (cosmolib.c:173-221, bit-exact model): for EVERY libm cos oracle, every interval and every order the
   weight table is exactly mirror-symmetric, and node lo and its mirror node n-1-lo are xm - xl*z and xm + xl*z of one and the
   same Newton root z (so the per-run mirror check of the tables reduces to the arithmetic fact 0 - 1*z = -(0 + 1*z)) *)
Theorem C11_gauleg_weights_symmetric : forall cosv x1 x2 npts x w,
  gauleg cosv x1 x2 npts = Some (x, w) ->
  length w = npts /\ forall j, (j < npts)%nat -> nth j w PrimFloat.zero = nth (npts - 1 - j) w PrimFloat.zero.
Proof. exact gauleg_weights_symmetric. Qed.

Theorem C11_gauleg_nodes_paired : forall cosv x1 x2 npts x w,
  gauleg cosv x1 x2 npts = Some (x, w) ->
  let xm := PrimFloat.div (PrimFloat.add x1 x2) 2 in let xl := PrimFloat.div (PrimFloat.sub x2 x1) 2 in
  length x = npts /\
  forall lo, (lo < (npts + 1) / 2)%nat -> (2 * lo <= npts - 1)%nat -> (lo < npts)%nat ->
    exists z, nth (npts - 1 - lo) x PrimFloat.zero = PrimFloat.add xm (PrimFloat.mul xl z)
              /\ ((2 * lo < npts - 1)%nat -> nth lo x PrimFloat.zero = PrimFloat.sub xm (PrimFloat.mul xl z)).
Proof. exact gauleg_nodes_paired. Qed.

(* non-vacuity: a 3-point rule computed by the model from start values 0.75 and 0.0625 (the oracle is keyed by the very argument
   expression of the C code) *)
Example C11_gauleg_nonvacuous :
  let arg i := PrimFloat.div (PrimFloat.mul M_PI_F (PrimFloat.sub (fnat i) 0.25)) (PrimFloat.add (fnat 3) 0.5) in
  match gauleg [(arg 1%nat, 0.75%float); (arg 2%nat, 0.0625%float)] (-1)%float 1%float 3 with
  | Some (x, w) => length x = 3%nat /\ length w = 3%nat /\ PrimFloat.ltb (nth 0 x PrimFloat.zero) 0 = true
  | None => False
  end.
Proof. vm_compute. repeat split. Qed.

(* ================================================================ proof-deepening round: the params checker *)
(* the checker the harness evaluates on the parameters an object reports decides exactly the documented rules: flat forces
   omega_k = 0 and omega_l = 1 - omega_m (to rounding); omega_k, when given, alone decides flatness and is reported unchanged when
   non-zero; omega_m is passed through (default 0.3); h overrides H0 (H0 = 100 h to rounding, default 100); DH * H0 = c *)
From EsVerif.C11 Require Import Exec.
Theorem C11_params_checker_decides_rules : forall k r, params_ok k r = true <-> params_rules k r.
Proof. exact params_ok_spec. Qed.

Example C11_params_rules_nonvacuous :
  params_rules (mkKw None (Some 0x1.6666666666666p-1%float) None None None None)
               (mkRep 0x1.18p+6%float 0x1.0babfd8adab9fp+12%float true 0x1.3333333333333p-2%float 0x1.6666666666666p-1%float 0%float).
Proof. apply params_ok_spec. vm_compute. reflexivity. Qed.

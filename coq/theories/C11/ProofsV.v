(* C11 -- the closed form of the comoving volume (reference of the documented-accuracy checks for V)
   against its definition as an integral of the volume element. *)
From Coq Require Import Reals Lra Psatz.
From Coquelicot Require Import Coquelicot.
From EsVerif.C11 Require Import Gen Model Spec Proofs.
Local Open Scope R_scope.

(* ------------------------------------------------------------------------------------------ *)
(* continuity of the integrand 1/E and the derivative of z |-> I_def c 0 z                      *)
(* ------------------------------------------------------------------------------------------ *)

Lemma E2_continuous c z : continuous (E2 c) z.
Proof.
  apply (ex_derive_continuous (E2 c)). unfold E2. auto_derive. exact I.
Qed.

Lemma E2_pos_locally c z : 0 < E2 c z -> locally z (fun t => 0 < E2 c t).
Proof.
  intro H. apply (E2_continuous c z (fun y => 0 < y)). apply (open_gt 0). exact H.
Qed.

Lemma Einv_continuous c z : 0 < E2 c z -> continuous (Einv_def c) z.
Proof.
  intro H. apply (ex_derive_continuous (Einv_def c)). unfold Einv_def, E2 in *.
  auto_derive. split; [|split]; auto.
  apply Rgt_not_eq. apply sqrt_lt_R0. exact H.
Qed.

Lemma I_is_RInt c b :
  (forall t, Rmin 0 b <= t <= Rmax 0 b -> 0 < E2 c t) ->
  is_RInt (Einv_def c) 0 b (I_def c 0 b).
Proof.
  intro H. unfold I_def. apply (RInt_correct (Einv_def c)).
  apply (ex_RInt_continuous (Einv_def c)). intros z Hz. apply Einv_continuous. auto.
Qed.

(* positivity on the hull [a,b] of 0 and the redshifts *)
Lemma I_derive c a b z : a <= 0 <= b -> a <= z <= b ->
  (forall t, a <= t <= b -> 0 < E2 c t) ->
  is_derive (fun t => I_def c 0 t) z (Einv_def c z).
Proof.
  intros Hab Hz P.
  apply (is_derive_RInt (Einv_def c) (fun t => I_def c 0 t) 0 z).
  - destruct (E2_pos_locally c z (P z Hz)) as [eps He].
    exists eps. intros y Hy. apply I_is_RInt. intros t Ht.
    destruct (Rle_dec a t) as [L1|L1]; [destruct (Rle_dec t b) as [L2|L2]|].
    + apply P; lra.
    + apply He. unfold ball in *; simpl in *. unfold AbsRing_ball, abs, minus, plus, opp in *; simpl in *.
      unfold Rmin, Rmax in Ht. destruct (Rle_dec 0 y) in Ht; unfold Rabs in *;
      destruct (Rcase_abs (y + - z)); destruct (Rcase_abs (t + - z)); lra.
    + apply He. unfold ball in *; simpl in *. unfold AbsRing_ball, abs, minus, plus, opp in *; simpl in *.
      unfold Rmin, Rmax in Ht. destruct (Rle_dec 0 y) in Ht; unfold Rabs in *;
      destruct (Rcase_abs (y + - z)); destruct (Rcase_abs (t + - z)); lra.
  - apply Einv_continuous. auto.
Qed.

(* the generic step: whenever d/dd Vcum_of = 4 pi Dm_of^2 and Dm_of is continuous *)
Section Generic.
  Variable c : cosmoR.
  Hypothesis HV : forall d, is_derive (Vcum_of c) d (4 * PI * (Dm_of_def c d) ^ 2).
  Hypothesis HM : forall d, continuous (Dm_of_def c) d.

  Definition dV_alt (z : R) : R := 4 * PI * (Dm_of_def c (Dc_def c 0 z)) ^ 2 * (cDH c * Einv_def c z).

  Lemma dV_alt_eq z : -1 < z -> dV_alt z = 4 * PI * dV_def c z.
  Proof.
    intro H. unfold dV_alt, dV_def, Da_def, Dm_def. field. lra.
  Qed.

  Variables a b : R.
  Hypothesis Hab : a <= 0 <= b.
  Hypothesis P : forall t, a <= t <= b -> 0 < E2 c t.

  Lemma Dc_derive z : a <= z <= b -> is_derive (fun t => Dc_def c 0 t) z (cDH c * Einv_def c z).
  Proof.
    intro Hz. unfold Dc_def.
    apply (is_derive_scal (fun t => I_def c 0 t) z (cDH c) (Einv_def c z)).
    apply (I_derive c a b); auto.
  Qed.

  Lemma Vcum_derive z : a <= z <= b -> is_derive (Vcum_closed c) z (dV_alt z).
  Proof.
    intro Hz. unfold Vcum_closed, dV_alt.
    replace (4 * PI * Dm_of_def c (Dc_def c 0 z) ^ 2 * (cDH c * Einv_def c z))
      with (scal (cDH c * Einv_def c z) (4 * PI * Dm_of_def c (Dc_def c 0 z) ^ 2))
      by (unfold scal; simpl; unfold mult; simpl; ring).
    apply (is_derive_comp (Vcum_of c) (fun t => Dc_def c 0 t) z).
    - apply HV.
    - apply Dc_derive; auto.
  Qed.

  Lemma dV_alt_continuous z : a <= z <= b -> continuous dV_alt z.
  Proof.
    intro Hz. unfold dV_alt.
    apply (continuous_mult (fun z => 4 * PI * Dm_of_def c (Dc_def c 0 z) ^ 2) (fun z => cDH c * Einv_def c z)).
    - apply (continuous_mult (fun _ => 4 * PI) (fun z => Dm_of_def c (Dc_def c 0 z) ^ 2)).
      + apply continuous_const.
      + simpl.
        apply (continuous_mult (fun z => Dm_of_def c (Dc_def c 0 z)) (fun z => Dm_of_def c (Dc_def c 0 z) * 1)).
        * apply (continuous_comp (fun t => Dc_def c 0 t) (Dm_of_def c)); [|apply HM].
          apply (ex_derive_continuous (fun t => Dc_def c 0 t)). eexists. apply Dc_derive; auto.
        * apply (continuous_mult (fun z => Dm_of_def c (Dc_def c 0 z)) (fun _ => 1)); [|apply continuous_const].
          apply (continuous_comp (fun t => Dc_def c 0 t) (Dm_of_def c)); [|apply HM].
          apply (ex_derive_continuous (fun t => Dc_def c 0 t)). eexists. apply Dc_derive; auto.
    - apply (continuous_mult (fun _ => cDH c) (Einv_def c)); [apply continuous_const|].
      apply Einv_continuous; auto.
  Qed.

  Theorem V_closed_form_generic z1 z2 : -1 < a -> a <= z1 <= b -> a <= z2 <= b ->
    V_def c z1 z2 = V_closed c z1 z2.
  Proof.
    intros Ha H1 H2. unfold V_def, V_closed.
    assert (Hin : forall x, Rmin z1 z2 <= x <= Rmax z1 z2 -> a <= x <= b).
    { intros x. unfold Rmin, Rmax. destruct (Rle_dec z1 z2); lra. }
    apply is_RInt_unique.
    apply (is_RInt_ext dV_alt).
    - intros x Hx. apply dV_alt_eq. assert (a <= x <= b) by (apply Hin; lra). lra.
    - apply (is_RInt_derive (Vcum_closed c) dV_alt).
      + intros x Hx. apply Vcum_derive; auto.
      + intros x Hx. apply dV_alt_continuous; auto.
  Qed.
End Generic.


Lemma cosh_double u : cosh (2 * u) = 1 + 2 * sinh u ^ 2.
Proof.
  unfold cosh, sinh.
  assert (E : exp u * exp (- u) = 1) by (rewrite <- exp_plus, Rplus_opp_r; apply exp_0).
  replace (2 * u) with (u + u) by ring. replace (- (u + u)) with (- u + - u) by ring.
  rewrite !exp_plus.
  replace (((exp u - exp (- u)) / 2) ^ 2) with ((exp u * exp u - 2 * (exp u * exp (- u)) + exp (- u) * exp (- u)) / 4) by field.
  rewrite E. field.
Qed.

Lemma Vcum_of_derive c d : is_derive (Vcum_of c) d (4 * PI * (Dm_of_def c d) ^ 2).
Proof.
  unfold Vcum_of, Dm_of_def.
  destruct (total_order_T 0 (cok c)) as [[L|E]|G].
  - (* open *)
    destruct (Req_dec (cDH c) 0) as [Z|NZ].
    + rewrite Z. apply (is_derive_ext (fun _ => 0)).
      * intro t. unfold Rdiv. rewrite Rmult_0_l. simpl. ring.
      * match goal with |- is_derive _ _ ?e => replace e with 0 by (unfold Rdiv; rewrite Rmult_0_l; ring) end.
        apply (@is_derive_const R_AbsRing R_NormedModule).
    + assert (Hs : 0 < sqrt (cok c)) by (apply sqrt_lt_R0; assumption).
      auto_derive; [exact I|].
      unfold Rdiv. rewrite cosh_double. field. split; lra.
  - (* flat *)
    auto_derive; [exact I|]. field.
  - (* closed *)
    destruct (Req_dec (cDH c) 0) as [Z|NZ].
    + rewrite Z. apply (is_derive_ext (fun _ => 0)).
      * intro t. unfold Rdiv. rewrite Rmult_0_l. simpl. ring.
      * match goal with |- is_derive _ _ ?e => replace e with 0 by (unfold Rdiv; rewrite Rmult_0_l; ring) end.
        apply (@is_derive_const R_AbsRing R_NormedModule).
    + assert (Hs : 0 < sqrt (- cok c)) by (apply sqrt_lt_R0; lra).
      auto_derive; [exact I|].
      unfold Rdiv. rewrite cos_2a_sin. field. split; lra.
Qed.

Lemma Dm_of_def_continuous c d : continuous (Dm_of_def c) d.
Proof.
  apply (ex_derive_continuous (Dm_of_def c)). unfold Dm_of_def.
  destruct (total_order_T 0 (cok c)) as [[L|E]|G]; auto_derive; exact I.
Qed.

(* ------------------------------------------------------------------------------------------ *)
(* the theorems                                                                                 *)
(* ------------------------------------------------------------------------------------------ *)
(* any curvature; [a,b] is an interval containing 0 and both redshifts, inside z > -1, on which
   E^2 is positive (the integrand of I_def is then defined and continuous) *)
Theorem V_closed_form_hull : forall c a b z1 z2,
  -1 < a -> a <= 0 <= b -> a <= z1 <= b -> a <= z2 <= b ->
  (forall z, a <= z <= b -> 0 < E2 c z) ->
  V_def c z1 z2 = V_closed c z1 z2.
Proof.
  intros c a b z1 z2 Ha Hab H1 H2 P.
  apply (V_closed_form_generic c (Vcum_of_derive c) (Dm_of_def_continuous c) a b); assumption.
Qed.

Theorem V_closed_form : forall c z1 z2,
  0 <= z1 <= z2 -> (forall z, 0 <= z <= z2 -> 0 < E2 c z) ->
  V_def c z1 z2 = V_closed c z1 z2.
Proof.
  intros c z1 z2 H P. apply (V_closed_form_hull c 0 z2); try lra. exact P.
Qed.

Theorem V_closed_form_flat : forall c z1 z2,
  cok c = 0 -> 0 <= z1 <= z2 -> (forall z, 0 <= z <= z2 -> 0 < E2 c z) ->
  V_def c z1 z2 = V_closed c z1 z2.
Proof. intros c z1 z2 _ H P. apply V_closed_form; assumption. Qed.

Theorem V_closed_form_open : forall c z1 z2,
  0 < cok c -> 0 <= z1 <= z2 -> (forall z, 0 <= z <= z2 -> 0 < E2 c z) ->
  V_def c z1 z2 = V_closed c z1 z2.
Proof. intros c z1 z2 _ H P. apply V_closed_form; assumption. Qed.

Theorem V_closed_form_closed : forall c z1 z2,
  cok c < 0 -> 0 <= z1 <= z2 -> (forall z, 0 <= z <= z2 -> 0 < E2 c z) ->
  V_def c z1 z2 = V_closed c z1 z2.
Proof. intros c z1 z2 _ H P. apply V_closed_form; assumption. Qed.

(* what V_closed is in each curvature case (Hogg eq. 29 in u = sqrt|Ok| Dc/DH) *)
Lemma V_closed_flat_explicit : forall c z1 z2, cok c = 0 ->
  V_closed c z1 z2 = 4 * PI / 3 * (Dc_def c 0 z2 ^ 3 - Dc_def c 0 z1 ^ 3).
Proof.
  intros c z1 z2 K. unfold V_closed, Vcum_closed. rewrite !Vcum_of_flat by assumption. ring.
Qed.

Lemma V_closed_open_explicit : forall c z1 z2, 0 < cok c ->
  let s := sqrt (cok c) in
  let F := fun z => let u := s * Dc_def c 0 z / cDH c in
                    4 * PI * (cDH c / s) ^ 3 * (sinh (2 * u) / 4 - u / 2) in
  V_closed c z1 z2 = F z2 - F z1.
Proof.
  intros c z1 z2 K s F. unfold V_closed, Vcum_closed, Vcum_of, F, s.
  destruct (total_order_T 0 (cok c)) as [[L|E]|G]; [reflexivity | lra | lra].
Qed.

Lemma V_closed_closed_explicit : forall c z1 z2, cok c < 0 ->
  let s := sqrt (- cok c) in
  let F := fun z => let u := s * Dc_def c 0 z / cDH c in
                    4 * PI * (cDH c / s) ^ 3 * (u / 2 - sin (2 * u) / 4) in
  V_closed c z1 z2 = F z2 - F z1.
Proof.
  intros c z1 z2 K s F. unfold V_closed, Vcum_closed, Vcum_of, F, s.
  destruct (total_order_T 0 (cok c)) as [[L|E]|G]; [lra | lra | reflexivity].
Qed.

(* non-vacuity: the hypotheses are satisfiable in each curvature case *)
Example V_closed_form_flat_concordance : forall z1 z2, 0 <= z1 <= z2 ->
  let c := mkC 3000 true (3 / 10) (7 / 10) 0 in V_def c z1 z2 = V_closed c z1 z2.
Proof.
  intros z1 z2 H c. apply (V_closed_form_flat c z1 z2); [reflexivity | assumption |].
  intros z Hz. unfold E2, c; simpl com; simpl cok; simpl col.
  assert (0 < (1 + z) ^ 3) by (apply pow_lt; lra). lra.
Qed.

Example V_closed_form_open_example : forall z1 z2, 0 <= z1 <= z2 ->
  let c := mkC 3000 false (3 / 10) (6 / 10) (1 / 10) in V_def c z1 z2 = V_closed c z1 z2.
Proof.
  intros z1 z2 H c. apply (V_closed_form_open c z1 z2); [simpl; lra | assumption |].
  intros z Hz. unfold E2, c; simpl com; simpl cok; simpl col.
  assert (0 < (1 + z) ^ 3) by (apply pow_lt; lra).
  assert (0 < (1 + z) ^ 2) by (apply pow_lt; lra). lra.
Qed.

Example V_closed_form_closed_example : forall z1 z2, 0 <= z1 <= z2 ->
  let c := mkC 3000 false (3 / 10) (8 / 10) (- 1 / 10) in V_def c z1 z2 = V_closed c z1 z2.
Proof.
  intros z1 z2 H c. apply (V_closed_form_closed c z1 z2); [simpl; lra | assumption |].
  intros z Hz. unfold E2, c; simpl com; simpl cok; simpl col.
  assert (X : 1 <= 1 + z) by lra. revert X. generalize (1 + z). intros x X. simpl. nra.
Qed.

(* C11 -- the closed form of the comoving volume (reference of the documented-accuracy checks for V)
   against its definition as an integral of the volume element. *)
From Coq Require Import Reals Lra.
From Coquelicot Require Import Coquelicot.
From EsVerif.C11 Require Import Gen Model Spec Proofs.

(* C11 -- executable / evaluable models of esutil.cosmology.  No proofs here.

   (1) parameter normalisation, construction, copy / __reduce__  (cosmology.py:90-153, 489-536),
       generic over the number type so that the same definitions are instantiated with binary64
       (PrimFloat, Exec.v: bit-exact correspondence) and with R (theorems);
   (2) the scalar/array argument dispatch of every method (cosmology.py:154-472, 755-756 and the
       _vec1/_vec2/_2vec loops of cosmolib_pywrap.c:130-690), generic over the scalar function;
   (3) the distance chain of cosmolib.c:43-171 over R with abstract Gauss-Legendre node/weight
       vectors (style R of DESIGN 3.3). *)
From Coq Require Import Reals.
From EsVerif.Common Require Import Base.
From EsVerif.C11 Require Import Gen.

(* ------------------------------------------------------------------------------------------ *)
(* (1) parameters                                                                              *)
(* ------------------------------------------------------------------------------------------ *)
Section Params.
  Context {num : Type}.
  (* the arithmetic the constructor performs: 1.0 - omega_m, 100.0*h, _CLIGHT/H0, omega_k == 0.0 *)
  Variables (zero one h_scale clight : num) (sub mul div : num -> num -> num) (is_zero : num -> bool).

  (* Cosmo.__init__ arguments after the defaults have been filled in *)
  Record ctor_args := mkArgs {
    a_H0 : num; a_h : option num; a_flat : bool; a_om : num; a_ol : num; a_ok : option num }.

  (* cosmology.py:516-536, statement by statement *)
  Definition extract_parms (om ol : num) (ok : option num) (flat : bool) : bool * num * num * num :=
    let flat1 :=                                   (* if omega_k is not None: flat = (omega_k == 0.0) *)
      match ok with Some k => if is_zero k then true else false | None => flat end in
    let '(flat2, ok2) :=
      match ok with
      | None => (true, zero)                        (* if omega_k is None: flat = True; omega_k = 0.0 *)
      | Some k => if flat1 then (flat1, zero)       (* elif flat: omega_k = 0.0 *)
                  else (flat1, k)
      end in
    let ol2 := if flat2 then sub one om else ol in  (* if flat: omega_l = 1.0 - omega_m *)
    (flat2, om, ol2, ok2).

  (* a Cosmo instance: the remembered constructor inputs (_flat and the _omega_ attributes), _H0, and the fields of
     the C struct as reported by DH()/flat()/omega_m()/omega_l()/omega_k() *)
  Record cosmo_obj := mkObj {
    s_flat : bool; s_om : num; s_ol : num; s_ok : option num;
    s_H0 : num;
    c_DH : num; c_flat : bool; c_om : num; c_ol : num; c_ok : num }.

  (* cosmology.py:90-120 *)
  Definition construct (a : ctor_args) : cosmo_obj :=
    let '(flat, om, ol, ok) := extract_parms (a_om a) (a_ol a) (a_ok a) (a_flat a) in
    let H0 := match a_h a with Some h => mul h_scale h | None => a_H0 a end in
    mkObj (a_flat a) (a_om a) (a_ol a) (a_ok a) H0 (div clight H0) flat om ol ok.

  (* what the accessor methods report: H0(), DH(), flat(), omega_m(), omega_l(), omega_k() *)
  Definition reported (o : cosmo_obj) : num * num * bool * num * num * num :=
    (s_H0 o, c_DH o, c_flat o, c_om o, c_ol o, c_ok o).

  (* copy(), __copy__, __deepcopy__ (cosmology.py:489-514): a new instance from the remembered inputs *)
  Definition stored_args (o : cosmo_obj) : ctor_args :=
    mkArgs (s_H0 o) None (s_flat o) (s_om o) (s_ol o) (s_ok o).
  Definition copy (o : cosmo_obj) : cosmo_obj := construct (stored_args o).

  (* __reduce__ (cosmology.py:122-152): (class, (H0(), None, bool(flat()), omega_m(), omega_l(), omega_k())) *)
  Definition reduce_args (o : cosmo_obj) : ctor_args :=
    mkArgs (s_H0 o) None (c_flat o) (c_om o) (c_ol o) (Some (c_ok o)).
  Definition unpickle (o : cosmo_obj) : cosmo_obj := construct (reduce_args o).

  Inductive clone_op := OpCopy | OpCopyCopy | OpDeepCopy | OpPickle.
  Definition apply_op (o : cosmo_obj) (op : clone_op) : cosmo_obj :=
    match op with
    | OpCopy | OpCopyCopy | OpDeepCopy => copy o
    | OpPickle => unpickle o
    end.
  Definition clone_chain (a : ctor_args) (ops : list clone_op) : cosmo_obj :=
    fold_left apply_op ops (construct a).
End Params.

Arguments mkArgs {num}.
Arguments mkObj {num}.

(* ------------------------------------------------------------------------------------------ *)
(* (2) dispatch                                                                                *)
(* ------------------------------------------------------------------------------------------ *)
Inductive zarg (A : Type) := Sc (x : A) | Ar (l : list A).
Arguments Sc {A} x.
Arguments Ar {A} l.

Section Dispatch.
  Context {A B : Type}.

  (* the three C loops: for (i=0; i<n; i++) res[i] = f(zmin[i], zmax) etc.; in _2vec n is the
     size of the FIRST array and the second is read at the same index *)
  Definition vec1 (f : A -> A -> B) (xs : list A) (y : A) : list B := map (fun x => f x y) xs.
  Definition vec2 (f : A -> A -> B) (x : A) (ys : list A) : list B := map (fun y => f x y) ys.
  Fixpoint two_vec (f : A -> A -> B) (xs ys : list A) : list B :=
    match xs, ys with
    | x :: xs', y :: ys' => f x y :: two_vec f xs' ys'
    | _, _ => []
    end.

  (* Dc/Dm/Da/Dl/sigmacritinv: the isscalar if/elif chain; `len(zmin) != len(zmax)` -> ValueError *)
  Definition dispatch2 (f : A -> A -> B) (a b : zarg A) : result (zarg B) :=
    match a, b with
    | Sc x, Sc y => Ok (Sc (f x y))
    | Ar xs, Sc y => Ok (Ar (vec1 f xs y))
    | Sc x, Ar ys => Ok (Ar (vec2 f x ys))
    | Ar xs, Ar ys =>
        if Nat.eqb (length xs) (length ys) then Ok (Ar (two_vec f xs ys)) else Err EValue
    end.

  (* Ez_inverse / dV *)
  Definition dispatch1 (g : A -> B) (a : zarg A) : zarg B :=
    match a with Sc x => Sc (g x) | Ar xs => Ar (map g xs) end.
End Dispatch.

Definition zarg_map {A B} (g : A -> B) (a : zarg A) : zarg B := dispatch1 g a.

(* distmod(z) = 5*log10(Dl(0.0, z)*1e6/10): Dl's dispatch with a scalar lower bound, then an
   element-wise numpy expression [post] *)
Definition distmod_dispatch {A B C} (dl : A -> A -> B) (post : B -> C) (zero : A) (z : zarg A)
  : result (zarg C) :=
  match dispatch2 dl (Sc zero) z with
  | Ok d => Ok (zarg_map post d)
  | Err e => Err e
  end.

(* ------------------------------------------------------------------------------------------ *)
(* (3) the distance chain over R                                                               *)
(* ------------------------------------------------------------------------------------------ *)
Local Open Scope R_scope.

Record cosmoR := mkC { cDH : R; cflat : bool; com : R; col : R; cok : R }.

(* cosmo_new: tcfac = sqrt(|omega_k|)/DH when not flat, else 0 *)
Definition tcfac (c : cosmoR) : R :=
  if cflat c then 0
  else if Rlt_dec 0 (cok c) then sqrt (cok c) / cDH c else sqrt (- cok c) / cDH c.

(* cosmolib.c:137-151 *)
Definition ez_inverse (c : cosmoR) (z : R) : R :=
  let oneplusz := 1 + z in
  if cflat c then sqrt (1 / (com c * oneplusz * oneplusz * oneplusz + col c))
  else
    let oneplusz2 := oneplusz * oneplusz in
    sqrt (1 / (com c * oneplusz2 * oneplusz + cok c * oneplusz2 + col c)).

(* the fixed-order quadrature loop shared by ez_inverse_integral (cosmolib.c:154-171) and V
   (cosmolib.c:101-119): acc += f1*g(x[i]*f1 + f2)*w[i], i ascending *)
Definition gl_sum (xs ws : list R) (g : R -> R) (zmin zmax : R) : R :=
  let f1 := (zmax - zmin) / 2 in
  let f2 := (zmax + zmin) / 2 in
  fold_left (fun acc xw => acc + f1 * g (fst xw * f1 + f2) * snd xw) (combine xs ws) 0.

Section Chain.
  Variables (xs ws : list R).      (* the NPTS table of the struct *)
  Variables (vxs vws : list R).    (* the VNPTS table *)
  Variable c : cosmoR.

  Definition ezinv_integral (zmin zmax : R) : R := gl_sum xs ws (ez_inverse c) zmin zmax.

  Definition Dc_GL (zmin zmax : R) : R := cDH c * ezinv_integral zmin zmax.

  (* cosmolib.c:49-63 *)
  Definition Dm_of (d : R) : R :=
    if cflat c then d
    else if Rlt_dec 0 (cok c) then sinh (d * tcfac c) / tcfac c
         else sin (d * tcfac c) / tcfac c.
  Definition Dm_GL (zmin zmax : R) : R := Dm_of (Dc_GL zmin zmax).

  Definition Da_GL (zmin zmax : R) : R := Dm_GL zmin zmax / (1 + zmax).
  Definition Dl_GL (zmin zmax : R) : R := Dm_GL zmin zmax * (1 + zmax).

  (* cosmolib.c:88-99 *)
  Definition dV_GL (z : R) : R :=
    let oneplusz := 1 + z in
    let da := Da_GL 0 z in
    cDH c * da * da * ez_inverse c z * oneplusz * oneplusz.

  (* cosmolib.c:101-119 (M_PI is the real number pi here) *)
  Definition V_GL (zmin zmax : R) : R := gl_sum vxs vws dV_GL zmin zmax * 4 * PI.

  (* cosmolib.c:122-133 *)
  Definition scinv_GL (zl zs : R) : R :=
    if Rle_dec zs zl then 0
    else Da_GL zl zs * Da_GL 0 zl / Da_GL 0 zs * FOUR_PI_G_OVER_C_SQUARED_R.

  (* cosmology.py:377-390 *)
  Definition distmod_of (dmpc : R) : R := 5 * (ln (dmpc * 1000000 / 10) / ln 10).
  Definition distmod_GL (z : R) : R := distmod_of (Dl_GL 0 z).
End Chain.

(* the struct the Python constructor hands to cosmo_new, over R *)
Definition DH_of (H0 : R) : R := PY_CLIGHT_R / H0.

Local Close Scope R_scope.

(* ------------------------------------------------------------------------------------------ *)
(* (2b) the C wrappers of cosmolib_pywrap.c as what they are: a zero-initialised result array   *)
(* (PyArray_ZEROS) of n = PyArray_SIZE(<one of the array arguments>) slots and the loop          *)
(*   for (i=0; i<n; i++) res[i] = f(<arg1 or arg1[i]>, <arg2 or arg2[i]>);                       *)
(* ------------------------------------------------------------------------------------------ *)
Fixpoint c_loop {B} (todo i : nat) (body : nat -> B) (res : list B) : list B :=
  match todo with
  | O => res
  | S k => c_loop k (S i) body (set_nth res i (body i))
  end.

(* how the loop body reads an argument: the parsed double, or element i of the array data *)
Inductive akind := KScalar | KIndexed.
Record wrapper := mkW { w_k1 : akind; w_k2 : akind; w_size_first : bool }.

Definition arg_len {A} (a : zarg A) : nat := match a with Sc _ => 1%nat | Ar l => length l end.
(* an argument read in a way its parse format does not provide (a scalar indexed, an array pointer used as a
   double) does not compile in C; the model answers the default [d] *)
Definition arg_at {A} (d : A) (k : akind) (a : zarg A) (i : nat) : A :=
  match k, a with
  | KScalar, Sc x => x
  | KIndexed, Ar l => nth i l d
  | _, _ => d
  end.
Definition run_wrapper {A B} (d : A) (zero : B) (w : wrapper) (f : A -> A -> B) (a b : zarg A) : list B :=
  let n := arg_len (if w_size_first w then a else b) in
  c_loop n 0 (fun i => f (arg_at d (w_k1 w) a i) (arg_at d (w_k2 w) b i)) (repeat zero n).
Definition run_wrapper1 {A B} (d : A) (zero : B) (g : A -> B) (xs : list A) : list B :=
  c_loop (length xs) 0 (fun i => g (nth i xs d)) (repeat zero (length xs)).

(* the three wrappers as written in cosmolib_pywrap.c (Gen.WRAP_* regenerates these flags from the C source) *)
Definition W_vec1 := mkW KIndexed KScalar true.      (* "Od": n = size(arg1); f(arg1[i], arg2)    *)
Definition W_vec2 := mkW KScalar KIndexed false.     (* "dO": n = size(arg2); f(arg1, arg2[i])    *)
Definition W_2vec := mkW KIndexed KIndexed true.     (* "OO": n = size(arg1); f(arg1[i], arg2[i]) *)

(* the Python dispatch with the C wrappers plugged in *)
Definition dispatch2_c {A B} (d : A) (zero : B) (w1 w2 w3 : wrapper) (f : A -> A -> B) (a b : zarg A) : result (zarg B) :=
  match a, b with
  | Sc x, Sc y => Ok (Sc (f x y))
  | Ar _, Sc _ => Ok (Ar (run_wrapper d zero w1 f a b))
  | Sc _, Ar _ => Ok (Ar (run_wrapper d zero w2 f a b))
  | Ar xs, Ar ys => if Nat.eqb (length xs) (length ys) then Ok (Ar (run_wrapper d zero w3 f a b)) else Err EValue
  end.

(* ------------------------------------------------------------------------------------------ *)
(* (4) history: a process holding several objects                                              *)
(* ------------------------------------------------------------------------------------------ *)
Section History.
  Context {num : Type}.
  Variables (zero one h_scale clight : num) (sub mul div : num -> num -> num) (is_zero : num -> bool).
  Notation obj := (@cosmo_obj num).
  Notation mk := (construct zero one h_scale clight sub mul div is_zero).
  Notation cp := (apply_op zero one h_scale clight sub mul div is_zero).

  (* the store: slot i holds the object bound to handle i (None after del) *)
  Definition store := list (option obj).
  Inductive hstep :=
  | HNew (a : @ctor_args num)                 (* a new handle (appended) *)
  | HClone (src : nat) (op : clone_op)        (* a new handle holding a clone of handle src *)
  | HReinit (i : nat) (a : @ctor_args num)    (* handle i re-initialised in place *)
  | HDel (i : nat)
  | HObserve (i : nat).                       (* any accessor / distance method: reads handle i *)

  Definition hget (s : store) (i : nat) : option obj := nth i s None.
  Definition hrun1 (s : store) (st : hstep) : store :=
    match st with
    | HNew a => s ++ [Some (mk a)]
    | HClone src op => s ++ [option_map (fun o => cp o op) (hget s src)]
    | HReinit i a => match hget s i with Some _ => set_nth s i (Some (mk a)) | None => s end
    | HDel i => set_nth s i None
    | HObserve _ => s
    end.
  Definition hrun (s : store) (l : list hstep) : store := fold_left hrun1 l s.

  (* what a method call on handle i returns: a function [dist] of the C struct's fields of THAT object only *)
  Definition hobserve {T} (dist : num -> bool -> num -> num -> num -> T) (s : store) (i : nat) : option T :=
    option_map (fun o => dist (c_DH o) (c_flat o) (c_om o) (c_ol o) (c_ok o)) (hget s i).
End History.

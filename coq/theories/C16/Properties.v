(* C16 — property theorems only.  Bodies live in ChunkProofs.v / Proofs.v.
   [ml] is numpy.little_endian: every theorem holds on both kinds of machine.
   Inputs: [valid_dtype] = dtypes numpy can build (items >= 1 byte; exactly the single-byte units
   carry '|'); [uniform ml] = all fields that have a byte order have the same one ('<' and '=' are
   the same order on a little-endian machine).  Plain arrays are always uniform. *)
From Coq Require Import ZArith List Bool String.
From Coq.Strings Require Import Byte.
From EsVerif.Common Require Import Base Bytes.
From EsVerif.C16 Require Import Model Spec ChunkProofs Proofs.
Local Open Scope list_scope.

(* The whole statement for one call o1 = f(a, inplace, keep_dtype) and the same call repeated on
   its result (Spec.conv_ok lists the clauses). *)
Theorem C16_statement : forall ml f a inplace keep,
  valid_dtype (adt a) -> uniform ml (adt a) ->
  conv_ok ml f a inplace keep (apply f ml a inplace keep)
          (apply f ml (o_res (apply f ml a inplace keep)) inplace keep).
Proof. exact conv_correct. Qed.

(* Every element keeps its value under the updated dtype ... *)
Theorem C16_value_preserved : forall ml f a inplace,
  valid_dtype (adt a) -> uniform ml (adt a) ->
  arr_values ml (o_res (apply f ml a inplace false)) = arr_values ml a.
Proof. exact value_preserved_thm. Qed.

(* ... names, kinds, item sizes, sub-array shapes and the array shape are unchanged. *)
Theorem C16_structure_preserved : forall ml f a inplace keep,
  same_structure (adt (o_res (apply f ml a inplace keep))) (adt a)
  /\ ashape (o_res (apply f ml a inplace keep)) = ashape a.
Proof. exact structure_preserved. Qed.

(* With or without the dtype update the buffer holds the old values in the requested order;
   with keep_dtype the dtype is the caller's. *)
Theorem C16_converted_to_requested_order : forall ml f a inplace keep,
  valid_dtype (adt a) -> uniform ml (adt a) ->
  values_as ml (requested ml f (layout (adt a))) (adata (o_res (apply f ml a inplace keep))) = arr_values ml a.
Proof. exact converted. Qed.

Theorem C16_keep_dtype : forall ml f a inplace, adt (o_res (apply f ml a inplace true)) = adt a.
Proof. exact keep_dtype_thm. Qed.

Theorem C16_declares_requested_order : forall ml f a inplace,
  uniform ml (adt a) -> declares_requested ml f (adt a) (adt (o_res (apply f ml a inplace false))).
Proof. exact declares_thm. Qed.

Theorem C16_idempotent : forall ml f a inplace,
  valid_dtype (adt a) -> uniform ml (adt a) -> f <> Swap ->
  o_res (apply f ml (o_res (apply f ml a inplace false)) inplace false) = o_res (apply f ml a inplace false).
Proof. exact idempotent_thm. Qed.

Theorem C16_swap_twice_identity : forall ml a inplace keep,
  valid_dtype (adt a) ->
  adata (o_res (byteswap ml (o_res (byteswap ml a inplace keep)) inplace keep)) = adata a.
Proof. exact swap_twice_thm. Qed.

Theorem C16_swap_twice_same_declared_order : forall ml a inplace,
  map (endian_of ml) (orders (adt (o_res (byteswap ml (o_res (byteswap ml a inplace false)) inplace false))))
  = map (endian_of ml) (orders (adt a)).
Proof. exact swap_twice_orders_thm. Qed.

Theorem C16_copy_is_independent : forall ml f a keep,
  let o := apply f ml a false keep in o_same o = false /\ o_shares o = false /\ o_inp o = a.
Proof. exact copy_independent_thm. Qed.

Theorem C16_inplace_returns_same_object : forall ml f a keep,
  let o := apply f ml a true keep in o_same o = true /\ o_inp o = o_res o.
Proof. exact inplace_same_object_thm. Qed.

(* byteswap + newbyteorder keeps the values of ANY valid dtype, mixed orders included *)
Theorem C16_byteswap_values_any_order : forall ml a inplace,
  valid_dtype (adt a) -> arr_values ml (o_res (byteswap ml a inplace false)) = arr_values ml a.
Proof. exact byteswap_values. Qed.

(* byte strings, bool, single-byte integers: the buffer is untouched by a swap *)
Theorem C16_single_byte_units_untouched : forall d data,
  valid_dtype d -> (forall s, In s (layout d) -> sc s = 1%nat) -> swap_data (geom (layout d)) data = data.
Proof. exact single_byte_units_untouched. Qed.

(* the fuel of the chunking functions suffices: the chunks concatenate back to the buffer *)
Theorem C16_chunks_cover : forall n l, (1 <= n)%nat -> concat (chunks n l) = l.
Proof. exact concat_chunks. Qed.

(* The predicates agree with what the declared order means, on '<' '>' '=' '|' and both machines. *)
Theorem C16_predicates_agree : forall ml o,
  predicates_ok ml o (is_big_endian ml o) (is_little_endian ml o).
Proof. exact predicates_agree. Qed.

(* Descriptor stripping removes exactly the order letter: the result does not depend on the orders. *)
Theorem C16_descr_to_native_strips : forall ml fs,
  descr_to_native (descr_of ml fs) = map (fun f => (fname f, body (fty f), fsub f)) fs.
Proof. exact descr_to_native_strips. Qed.

Theorem C16_descr_to_native_order_independent : forall ml ml' fs fs',
  same_structure (DStruct fs) (DStruct fs') ->
  descr_to_native (descr_of ml fs) = descr_to_native (descr_of ml' fs').
Proof. exact descr_order_independent. Qed.

(* Checker soundness: what the correspondence run evaluates on the real code's outputs, and the
   guards by which it recognises the inputs of the quantifier. *)
Theorem C16_checkers_sound :
  (forall ml f a ip keep o1 o2, conv_check ml f a ip keep o1 o2 = true -> conv_ok ml f a ip keep o1 o2)
  /\ (forall ml o big little, predicates_check ml o big little = true -> predicates_ok ml o big little)
  /\ (forall din dparsed, stripped_check din dparsed = true -> stripped_ok din dparsed)
  /\ (forall d, valid_dtype_b d = true -> valid_dtype d)
  /\ (forall ml d, uniform_b ml d = true -> uniform ml d).
Proof. exact checkers_sound. Qed.

(* The loops of the unrepaired tree ("if not is_big_endian(array[fname])"): a field without byte
   order decides for a swap.  [('a','>i4'),('s','S3')] is already big-endian, yet the result
   declares '<' (likewise to_little_endian on '<i4'); with keep_dtype the values are destroyed. *)
Theorem C16_unrepaired_scan_refuted :
  valid_dtype (witness_dtype BE) /\ uniform true (witness_dtype BE)
  /\ ~ declares_requested true ToBig (adt witness_be) (adt (o_res (to_big_endian_unrepaired true witness_be false false)))
  /\ ~ declares_requested true ToLittle (adt witness_le) (adt (o_res (to_little_endian_unrepaired true witness_le false false)))
  /\ arr_values true (o_res (to_big_endian_unrepaired true witness_be false true)) <> arr_values true witness_be.
Proof. exact unrepaired_scan_refuted. Qed.

(* ... and only such fields: without a '|' field the unrepaired loops decide like the repaired ones. *)
Theorem C16_unrepaired_agrees_without_NA_fields : forall ml fs sh data ip keep,
  (forall f, In f fs -> sord (fty f) <> NA) ->
  let a := {| adt := DStruct fs; ashape := sh; adata := data |} in
  to_big_endian_unrepaired ml a ip keep = to_big_endian ml a ip keep
  /\ to_little_endian_unrepaired ml a ip keep = to_little_endian ml a ip keep.
Proof. exact unrepaired_agrees_without_NA_fields. Qed.

(* Non-vacuity: a structured array of the quantifier (string field, big-endian i2 sub-array field,
   complex field) meets the hypotheses and the conversions compute to concrete results. *)
Example C16_nonvacuous :
  valid_dtype ex_dtype /\ uniform true ex_dtype
  /\ arr_values true ex_arr = [[97; 98; 1; 2; 1065353216; 0]]%Z
  /\ adata (o_res (to_big_endian true ex_arr false false)) = adata ex_arr
  /\ adata (o_res (to_native true ex_arr false false)) = unhex "6162010002000000803f00000000"
  /\ orders (adt (o_res (to_native true ex_arr false false))) = [NA; LE; LE]
  /\ arr_values true (o_res (to_native true ex_arr false false)) = arr_values true ex_arr.
Proof. exact nonvacuous. Qed.

(* C16 — property theorems only.  Bodies live in ChunkProofs.v / Proofs.v.
   [ml] is numpy.little_endian: every theorem holds on both kinds of machine.
   Inputs: [valid_dtype] = dtypes numpy can build (items >= 1 byte; exactly the single-byte units
   carry '|'); [uniform ml] = all fields that have a byte order have the same one ('<' and '=' are
   the same order on a little-endian machine).  Plain arrays are always uniform. *)
From Coq Require Import ZArith List Bool String.
From Coq.Strings Require Import Byte.
From EsVerif.Common Require Import Base Bytes.
From EsVerif.C16 Require Import Model Spec ChunkProofs Proofs Ext ExtProofs Gen Tie Deep DeepProofs.
Local Open Scope list_scope.

(* The whole statement for one call o1 = f(a, inplace, keep_dtype) and the same call repeated on
   its result (Spec.conv_ok lists the clauses). *)
Theorem C16_statement : forall ml f a inplace keep,
  valid_dtype (adt a) -> uniform ml (adt a) ->
  conv_ok ml f a inplace keep (apply f ml a inplace keep)
          (apply f ml (o_res (apply f ml a inplace keep)) inplace keep).
Proof. exact conv_correct. Qed.

(* Every element keeps its value under the updated dtype ... *)
Theorem C16_value_preserved : forall ml f a inplace,
  valid_dtype (adt a) -> uniform ml (adt a) ->
  arr_values ml (o_res (apply f ml a inplace false)) = arr_values ml a.
Proof. exact value_preserved_thm. Qed.

(* ... names, kinds, item sizes, sub-array shapes and the array shape are unchanged. *)
Theorem C16_structure_preserved : forall ml f a inplace keep,
  same_structure (adt (o_res (apply f ml a inplace keep))) (adt a)
  /\ ashape (o_res (apply f ml a inplace keep)) = ashape a.
Proof. exact structure_preserved. Qed.

(* With or without the dtype update the buffer holds the old values in the requested order;
   with keep_dtype the dtype is the caller's. *)
Theorem C16_converted_to_requested_order : forall ml f a inplace keep,
  valid_dtype (adt a) -> uniform ml (adt a) ->
  values_as ml (requested ml f (layout (adt a))) (adata (o_res (apply f ml a inplace keep))) = arr_values ml a.
Proof. exact converted. Qed.

Theorem C16_keep_dtype : forall ml f a inplace, adt (o_res (apply f ml a inplace true)) = adt a.
Proof. exact keep_dtype_thm. Qed.

Theorem C16_declares_requested_order : forall ml f a inplace,
  uniform ml (adt a) -> declares_requested ml f (adt a) (adt (o_res (apply f ml a inplace false))).
Proof. exact declares_thm. Qed.

Theorem C16_idempotent : forall ml f a inplace,
  valid_dtype (adt a) -> uniform ml (adt a) -> f <> Swap ->
  o_res (apply f ml (o_res (apply f ml a inplace false)) inplace false) = o_res (apply f ml a inplace false).
Proof. exact idempotent_thm. Qed.

Theorem C16_swap_twice_identity : forall ml a inplace keep,
  valid_dtype (adt a) ->
  adata (o_res (byteswap ml (o_res (byteswap ml a inplace keep)) inplace keep)) = adata a.
Proof. exact swap_twice_thm. Qed.

Theorem C16_swap_twice_same_declared_order : forall ml a inplace,
  map (endian_of ml) (orders (adt (o_res (byteswap ml (o_res (byteswap ml a inplace false)) inplace false))))
  = map (endian_of ml) (orders (adt a)).
Proof. exact swap_twice_orders_thm. Qed.

Theorem C16_copy_is_independent : forall ml f a keep,
  let o := apply f ml a false keep in o_same o = false /\ o_shares o = false /\ o_inp o = a.
Proof. exact copy_independent_thm. Qed.

Theorem C16_inplace_returns_same_object : forall ml f a keep,
  let o := apply f ml a true keep in o_same o = true /\ o_inp o = o_res o.
Proof. exact inplace_same_object_thm. Qed.

(* byteswap + newbyteorder keeps the values of ANY valid dtype, mixed orders included *)
Theorem C16_byteswap_values_any_order : forall ml a inplace,
  valid_dtype (adt a) -> arr_values ml (o_res (byteswap ml a inplace false)) = arr_values ml a.
Proof. exact byteswap_values. Qed.

(* byte strings, bool, single-byte integers: the buffer is untouched by a swap *)
Theorem C16_single_byte_units_untouched : forall d data,
  valid_dtype d -> (forall s, In s (layout d) -> sc s = 1%nat) -> swap_data (geom (layout d)) data = data.
Proof. exact single_byte_units_untouched. Qed.

(* the fuel of the chunking functions suffices: the chunks concatenate back to the buffer *)
Theorem C16_chunks_cover : forall n l, (1 <= n)%nat -> concat (chunks n l) = l.
Proof. exact concat_chunks. Qed.

(* The predicates agree with what the declared order means, on '<' '>' '=' '|' and both machines. *)
Theorem C16_predicates_agree : forall ml o,
  predicates_ok ml o (is_big_endian ml o) (is_little_endian ml o).
Proof. exact predicates_agree. Qed.

(* Descriptor stripping removes exactly the order letter: the result does not depend on the orders. *)
Theorem C16_descr_to_native_strips : forall ml fs,
  descr_to_native (descr_of ml fs) = map (fun f => (fname f, body (fty f), fsub f)) fs.
Proof. exact descr_to_native_strips. Qed.

Theorem C16_descr_to_native_order_independent : forall ml ml' fs fs',
  same_structure (DStruct fs) (DStruct fs') ->
  descr_to_native (descr_of ml fs) = descr_to_native (descr_of ml' fs').
Proof. exact descr_order_independent. Qed.

(* Checker soundness: what the correspondence run evaluates on the real code's outputs, and the
   guards by which it recognises the inputs of the quantifier. *)
Theorem C16_checkers_sound :
  (forall ml f a ip keep o1 o2, conv_check ml f a ip keep o1 o2 = true -> conv_ok ml f a ip keep o1 o2)
  /\ (forall ml o big little, predicates_check ml o big little = true -> predicates_ok ml o big little)
  /\ (forall din dparsed, stripped_check din dparsed = true -> stripped_ok din dparsed)
  /\ (forall d, valid_dtype_b d = true -> valid_dtype d)
  /\ (forall ml d, uniform_b ml d = true -> uniform ml d).
Proof. exact checkers_sound. Qed.

(* The loops of the unrepaired tree ("if not is_big_endian(array[fname])"): a field without byte
   order decides for a swap.  [('a','>i4'),('s','S3')] is already big-endian, yet the result
   declares '<' (likewise to_little_endian on '<i4'); with keep_dtype the values are destroyed. *)
Theorem C16_unrepaired_scan_refuted :
  valid_dtype (witness_dtype BE) /\ uniform true (witness_dtype BE)
  /\ ~ declares_requested true ToBig (adt witness_be) (adt (o_res (to_big_endian_unrepaired true witness_be false false)))
  /\ ~ declares_requested true ToLittle (adt witness_le) (adt (o_res (to_little_endian_unrepaired true witness_le false false)))
  /\ arr_values true (o_res (to_big_endian_unrepaired true witness_be false true)) <> arr_values true witness_be.
Proof. exact unrepaired_scan_refuted. Qed.

(* ... and only such fields: without a '|' field the unrepaired loops decide like the repaired ones. *)
Theorem C16_unrepaired_agrees_without_NA_fields : forall ml fs sh data ip keep,
  (forall f, In f fs -> sord (fty f) <> NA) ->
  let a := {| adt := DStruct fs; ashape := sh; adata := data |} in
  to_big_endian_unrepaired ml a ip keep = to_big_endian ml a ip keep
  /\ to_little_endian_unrepaired ml a ip keep = to_little_endian ml a ip keep.
Proof. exact unrepaired_agrees_without_NA_fields. Qed.

(* Non-vacuity: a structured array of the quantifier (string field, big-endian i2 sub-array field,
   complex field) meets the hypotheses and the conversions compute to concrete results. *)
Example C16_nonvacuous :
  valid_dtype ex_dtype /\ uniform true ex_dtype
  /\ arr_values true ex_arr = [[97; 98; 1; 2; 1065353216; 0]]%Z
  /\ adata (o_res (to_big_endian true ex_arr false false)) = adata ex_arr
  /\ adata (o_res (to_native true ex_arr false false)) = unhex "6162010002000000803f00000000"
  /\ orders (adt (o_res (to_native true ex_arr false false))) = [NA; LE; LE]
  /\ arr_values true (o_res (to_native true ex_arr false false)) = arr_values true ex_arr.
Proof. exact nonvacuous. Qed.

(* ===== the source tie: the definitions regenerated from esutil/numpy_util.py and
   esutil/recfile/Util.py of the tree under check (Gen.v, rewritten on every run by
   harness/props/c16_translate.py) ARE the hand model the theorems above are about. *)
Theorem C16_source_tie :
  (forall ml o, nu_is_big_endian_g ml o = is_big_endian ml o)
  /\ (forall ml o, nu_is_little_endian_g ml o = is_little_endian ml o)
  /\ (forall ml o, ru_is_little_endian_g ml o = is_little_endian ml o)
  /\ (forall ml a ip k, nu_byteswap_g ml a ip k = byteswap ml a ip k)
  /\ (forall ml a ip k, nu_to_native_g ml a ip k = to_native ml a ip k)
  /\ (forall ml a ip k, nu_to_big_endian_g ml a ip k = to_big_endian ml a ip k)
  /\ (forall ml a ip k, nu_to_little_endian_g ml a ip k = to_little_endian ml a ip k)
  /\ (forall ml a, ru_to_native_inplace_g ml a = to_native_inplace ml a)
  /\ (forall ml a, ru_to_native_g ml a = rec_to_native ml a)
  /\ (forall d, nu_descr_to_native_g d = Some (descr_to_native d))
  /\ (forall d, ru_remove_dtype_byteorder_g d = Some (descr_to_native d))
  /\ nu_defaults = [(false, false); (false, false); (false, false); (false, false)].
Proof. exact source_tie. Qed.

(* hence the whole statement holds of the regenerated functions themselves *)
Theorem C16_statement_of_source : forall ml f a inplace keep,
  valid_dtype (adt a) -> uniform ml (adt a) ->
  let g := match f with
           | ToNative => nu_to_native_g | ToBig => nu_to_big_endian_g
           | ToLittle => nu_to_little_endian_g | Swap => nu_byteswap_g
           end in
  conv_ok ml f a inplace keep (g ml a inplace keep) (g ml (o_res (g ml a inplace keep)) inplace keep).
Proof. exact statement_of_source. Qed.

(* the regenerated scan of the as-found tree is the unrepaired model refuted above; a view in place of
   the assignment to .dtype returns a new object and leaves the caller's array mislabelled *)
Theorem C16_source_asfound_scan : forall ml a ip k,
  asfound_to_big_endian_g ml a ip k = to_big_endian_unrepaired ml a ip k.
Proof. exact asfound_scan_is_unrepaired. Qed.

Theorem C16_source_view_refuted : forall a,
  let o := prim_view (dt_newbyteorder NbSwap true) (prim_byteswap a true) in
  o_same o = false /\ adt (o_inp o) = adt a.
Proof. exact view_instead_of_setdtype_refuted. Qed.

(* ===== more of the code *)
(* recfile.Util.to_native (after fix 7fcb8b2) on EVERY valid array, fields of different orders
   included: values, native declared order, structure, argument untouched, the array itself exactly
   when it was native already *)
Theorem C16_rec_to_native_any_order : forall ml a,
  valid_dtype (adt a) -> rec_native_ok ml a (rec_to_native ml a).
Proof. exact rec_to_native_correct. Qed.

Theorem C16_rec_to_native_idempotent : forall ml a, valid_dtype (adt a) ->
  let r := o_res (rec_to_native ml a) in
  o_same (rec_to_native ml r) = true /\ o_res (rec_to_native ml r) = r.
Proof. exact rec_to_native_idempotent. Qed.

(* astype between two layouts of the same geometry converts every field on its own *)
Theorem C16_astype_fieldwise_values : forall ml ly ly' data,
  Forall2 same_geom ly ly' -> Forall seg_valid ly -> Forall seg_valid ly' -> (1 <= rowsize (geom ly))%nat ->
  values_as ml ly' (swap_data (cast_geom ml ly ly') data) = values_as ml ly data.
Proof. exact values_as_cast. Qed.

(* one decision for the whole record cannot convert a table whose fields differ in order *)
Theorem C16_mixed_order_needs_fieldwise :
  valid_dtype (adt mixed_witness) /\ ~ uniform true (adt mixed_witness)
  /\ arr_values true mixed_witness = [[1; 2]]%Z
  /\ adata (o_res (rec_to_native true mixed_witness)) = unhex "01000200"
  /\ all_native true (adt (to_native_inplace true mixed_witness)) = false
  /\ all_native true (adt (o_res (byteswap true mixed_witness false false))) = false.
Proof. exact mixed_witness_facts. Qed.

(* the four numpy_util functions on ANY valid array (no premise on the orders): values under the
   updated dtype, structure, argument untouched with inplace off *)
Theorem C16_values_any_order : forall ml f a ip, valid_dtype (adt a) ->
  arr_values ml (o_res (apply f ml a ip false)) = arr_values ml a
  /\ same_structure (adt (o_res (apply f ml a ip false))) (adt a)
  /\ (ip = false -> o_inp (apply f ml a ip false) = a).
Proof. exact values_any_order. Qed.

(* non-contiguous input: the call on a view of a larger buffer is the modelled conversion of the
   view's elements; elements outside the view are untouched; with inplace on the view shows the rows
   of the returned array, with inplace off the buffer is untouched *)
Theorem C16_view_conversion : forall f ml d sh base idx ip keep,
  valid_dtype d -> NoDup idx -> (forall i, In i idx -> (i < List.length base)%nat) ->
  (forall r, In r base -> List.length r = rowsize (geom (layout d))) ->
  let o := fst (apply_view f ml d sh base idx ip keep) in
  let base' := snd (apply_view f ml d sh base idx ip keep) in
  o = apply f ml (view_arr d sh base idx) ip keep
  /\ List.length base' = List.length base
  /\ (forall j, ~ In j idx -> nth j base' [] = nth j base [])
  /\ (ip = true -> gather [] idx base' = rows_of d (adata (o_res o)))
  /\ (ip = false -> base' = base).
Proof. exact view_correct. Qed.

Theorem C16_gather_scatter : forall (d : list byte) idx, NoDup idx -> forall rows base,
  (forall i, In i idx -> (i < List.length base)%nat) -> List.length rows = List.length idx ->
  gather d idx (scatter idx rows base) = rows.
Proof. exact (@gather_scatter (list byte)). Qed.

(* nested structured dtypes: the scan sees the top level only *)
Theorem C16_nested_top_level_scan : forall f ml top fs sh data ip keep,
  let a := {| adt := DStruct fs; ashape := sh; adata := data |} in
  (apply_top f ml (top_of fs) a ip keep = apply f ml a ip keep)
  /\ (doswap_top f ml top = leaf_decision f ml a -> apply_top f ml top a ip keep = apply f ml a ip keep).
Proof. exact nested_top_level. Qed.

Theorem C16_nested_hidden_order_refuted :
  valid_dtype (adt nested_witness) /\ uniform true (adt nested_witness)
  /\ doswap_top ToBig true [NA] <> leaf_decision ToBig true nested_witness
  /\ ~ declares_requested true ToBig (adt nested_witness) (adt (o_res (apply_top ToBig true [NA] nested_witness false false))).
Proof. exact nested_hidden_order_refuted. Qed.

Theorem C16_nested_only_not_idempotent :
  let o1 := apply_top ToNative true [NA] nested_witness_be false false in
  let o2 := apply_top ToNative true [NA] (o_res o1) false false in
  orders (adt (o_res o1)) = [LE] /\ o_res o2 <> o_res o1 /\ adata (o_res o2) = adata nested_witness_be.
Proof. exact nested_only_not_idempotent. Qed.

(* soundness of the added checkers *)
Theorem C16_ext_checkers_sound :
  (forall ml a o, rec_native_check ml a o = true -> rec_native_ok ml a o)
  /\ (forall ml a o, rec_native_check_core ml a o = true ->
        arr_values ml (o_res o) = arr_values ml a /\ all_native ml (adt (o_res o)) = true
        /\ (same_structure (adt (o_res o)) (adt a) /\ ashape (o_res o) = ashape a) /\ o_inp o = a)
  /\ (forall d base idx, view_wf_b d base idx = true ->
        valid_dtype d /\ NoDup idx /\ (forall i, In i idx -> (i < List.length base)%nat)
        /\ (forall r, In r base -> List.length r = rowsize (geom (layout d))))
  /\ (forall d base idx ip o1 base1, view_check d base idx ip o1 base1 = true ->
        (ip = true -> gather [] idx base1 = rows_of d (adata (o_res o1))) /\ (ip = false -> base1 = base))
  /\ (forall ml d, all_native ml d = true -> uniform ml d).
Proof. exact ext_checkers_sound. Qed.

(* non-vacuity of the extension: a 0-d big-endian complex array converted in place *)
Example C16_zero_d_complex :
  let a := {| adt := DPlain {| skind := KComplex; ssize := 8; sord := BE |}; ashape := []; adata := unhex "3f80000040000000" |} in
  adata (o_res (to_native true a true false)) = unhex "0000803f00000040"
  /\ ashape (o_res (to_native true a true false)) = []
  /\ arr_values true (o_res (to_native true a true false)) = arr_values true a.
Proof. exact zero_d_example. Qed.

(* ===== proof-deepening round *)
(* FRAME.  inplace off (all four functions, keep_dtype either way) and recfile's to_native: the argument keeps
   its bytes, dtype and shape and the result is another object sharing nothing -- for ANY array, no premise;
   inplace on: shape, field structure and buffer length are kept (only order letters / byte order inside items change) *)
Theorem C16_frame :
  (forall ml f a keep, let o := apply f ml a false keep in o_inp o = a /\ o_same o = false /\ o_shares o = false)
  /\ (forall ml a, o_inp (rec_to_native ml a) = a)
  /\ (forall ml f a keep, valid_dtype (adt a) ->
        let r := o_inp (apply f ml a true keep) in
        ashape r = ashape a /\ same_structure (adt r) (adt a) /\ List.length (adata r) = List.length (adata a)).
Proof. exact frame_all. Qed.

(* The premise "all multi-byte fields share one order" is NECESSARY: to_native / to_big_endian / to_little_endian
   reach the requested order on a valid array if and only if the array is uniformly ordered *)
Theorem C16_reaches_requested_iff_uniform : forall ml f a ip, valid_dtype (adt a) -> f <> Swap ->
  (all_order_b ml (target ml f) (adt (o_res (apply f ml a ip false))) = true <-> uniform ml (adt a)).
Proof. exact reaches_iff_uniform. Qed.

(* NESTED records, the statement itself: leaves share one order and some plain top-level field has a byte order
   (or no leaf has one) => the real scan, which sees the top level only, meets the whole statement at both calls *)
Theorem C16_nested_statement : forall ml f t sh data ip keep,
  let a := {| adt := DStruct (flatten1 t); ashape := sh; adata := data |} in
  valid_dtype (adt a) -> uniform ml (adt a) -> nested_ok t = true ->
  let o1 := apply_top f ml (top1 t) a ip keep in
  conv_ok ml f a ip keep o1 (apply_top f ml (top_after f ml (top1 t) keep) (o_res o1) ip keep).
Proof. exact nested_statement. Qed.

(* ... for any scan list that represents the leaves; the representation survives the relabelling *)
Theorem C16_faithful_scan_statement : forall ml f top fs sh data ip keep,
  let a := {| adt := DStruct fs; ashape := sh; adata := data |} in
  valid_dtype (adt a) -> uniform ml (adt a) -> faithful ml top (adt a) ->
  let o1 := apply_top f ml top a ip keep in
  o1 = apply f ml a ip keep
  /\ apply_top f ml (top_after f ml top keep) (o_res o1) ip keep = apply f ml (o_res o1) ip keep
  /\ conv_ok ml f a ip keep o1 (apply_top f ml (top_after f ml top keep) (o_res o1) ip keep).
Proof. exact faithful_statement. Qed.

Theorem C16_nested_ok_is_faithful : forall ml t, nested_ok t = true -> faithful ml (top1 t) (DStruct (flatten1 t)).
Proof. exact nested_ok_faithful. Qed.

Example C16_nested_nonvacuous :
  nested_ok nest_example = true
  /\ top1 nest_example = [NA; BE]
  /\ map fname (flatten1 nest_example) = ["pos.x"; "pos.tag"; "pos.x"; "pos.tag"; "id"]%string
  /\ valid_dtype (DStruct (flatten1 nest_example)) /\ uniform true (DStruct (flatten1 nest_example))
  /\ adata (o_res (apply_top ToNative true (top1 nest_example)
                     {| adt := DStruct (flatten1 nest_example); ashape := []; adata := unhex "3f800000614000000062000a" |}
                     false false)) = unhex "0000803f6100000040620a00".
Proof. exact nest_example_facts. Qed.

(* HISTORY.  The process as a heap of array objects: a call's answer and the new state of its object are a
   function of that object's state alone (whatever else the process holds, whatever happened before); other
   objects are untouched; inplace-off calls leave the whole heap as it was; calls on different objects commute *)
Theorem C16_history_independent :
  (forall ml h h' c, nth_error h (obj_of c) = nth_error h' (obj_of c) ->
     snd (step ml h c) = snd (step ml h' c)
     /\ nth_error (fst (step ml h c)) (obj_of c) = nth_error (fst (step ml h' c)) (obj_of c))
  /\ (forall ml h c a, nth_error h (obj_of c) = Some a ->
     snd (step ml h c) = snd (act ml c a) /\ nth_error (fst (step ml h c)) (obj_of c) = Some (fst (act ml c a)))
  /\ (forall ml h c j, j <> obj_of c -> nth_error (fst (step ml h c)) j = nth_error h j)
  /\ (forall ml h c, match c with CConv _ _ false _ => True | CRecNative _ => True | _ => False end ->
     fst (step ml h c) = h)
  /\ (forall ml h c1 c2, obj_of c1 <> obj_of c2 ->
     snd (step ml (fst (step ml h c1)) c2) = snd (step ml h c2)
     /\ snd (step ml (fst (step ml h c2)) c1) = snd (step ml h c1)).
Proof. exact history_independent. Qed.

Example C16_history_nonvacuous :
  map (fun a => match a with AConv o _ => adata (o_res o) | _ => [] end)
      (run true heap_example [CConv ToNative 0 true false; CConv ToNative 1 false false; CConv ToBig 0 true false])
  = [unhex "0100"; unhex "003c"; unhex "0001"].
Proof. exact heap_example_facts. Qed.

(* The checkers accept EXACTLY the property (soundness was C16_checkers_sound; this adds completeness:
   the check can raise no false alarm on the clauses of the statement) *)
Theorem C16_checkers_exact :
  (forall ml f a ip keep o1 o2, conv_check ml f a ip keep o1 o2 = true <-> conv_ok ml f a ip keep o1 o2)
  /\ (forall ml o big little, predicates_check ml o big little = true <-> predicates_ok ml o big little).
Proof. exact checkers_exact. Qed.

Theorem C16_heap_answers_sound : forall x y, answer_eqb x y = true -> x = y.
Proof. exact answer_eqb_sound. Qed.

(* ===== round 6 *)
(* TIE of the swap decisions and of the nested-record model: the regenerated decision of every converter (the lets of
   its body up to the `if` that binds the returned array, then its test) is the model's [doswap]; the hand model for
   nested records [apply_top] is assembled from regenerated parts only (the regenerated decision run on a record whose
   fields carry the top-level orders, the regenerated byteswap, the no-swap branch) *)
Theorem C16_source_tie_decisions :
  (forall f ml a ip k, swaps_g f ml a ip k = doswap f ml (adt a))
  /\ (forall ml a, ru_to_native_inplace_swaps_g ml a = doswap ToNative ml (adt a))
  /\ (forall f ml top a ip k,
        apply_top f ml top a ip k
        = if swaps_g f ml (pseudo top) ip k then nu_byteswap_g ml a ip k else (if ip then prim_self a else prim_copy a)).
Proof. exact source_tie_decisions. Qed.

(* The GUARDS by which a run recognises the inputs of the quantifier, and the remaining checkers, are exact
   (soundness was proved before; completeness means: the property check is demanded on EVERY valid, uniformly
   ordered input and can raise no false alarm) *)
Theorem C16_guards_exact :
  (forall d, valid_dtype_b d = true <-> valid_dtype d)
  /\ (forall ml d, uniform_b ml d = true <-> uniform ml d)
  /\ (forall din dparsed, stripped_check din dparsed = true <-> stripped_ok din dparsed)
  /\ (forall ml a o, rec_native_check_core ml a o = true <->
        arr_values ml (o_res o) = arr_values ml a /\ all_native ml (adt (o_res o)) = true
        /\ (same_structure (adt (o_res o)) (adt a) /\ ashape (o_res o) = ashape a) /\ o_inp o = a)
  /\ (forall d base idx ip o1 base1, view_check d base idx ip o1 base1 = true <->
        (ip = true -> gather [] idx base1 = rows_of d (adata (o_res o1))) /\ (ip = false -> base1 = base)).
Proof. exact guards_exact. Qed.

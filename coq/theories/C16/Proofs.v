(* C16 — proofs: the modelled conversions meet the statement; the checkers are sound. *)
From Coq Require Import ZArith List Bool Lia Arith String Ascii.
From Coq.Strings Require Import Byte.
From EsVerif.Common Require Import Base Bytes.
From EsVerif.C16 Require Import Model Spec ChunkProofs.
Local Open Scope nat_scope.
Local Open Scope list_scope.

(* ------------------------------------------------------------------------- orders *)
Lemma is_big_spec ml o :
  is_big_endian ml o = match endian_of ml o with Some true => true | _ => false end.
Proof. destruct ml, o; reflexivity. Qed.

Lemma is_little_spec ml o :
  is_little_endian ml o = match endian_of ml o with Some false => true | _ => false end.
Proof. destruct ml, o; reflexivity. Qed.

Lemma endian_swap ml o : endian_of ml (swap_order ml o) = option_map negb (endian_of ml o).
Proof. destruct ml, o; reflexivity. Qed.

Lemma endian_none ml o : endian_of ml o = None <-> o = NA.
Proof. destruct o; simpl; split; congruence. Qed.

Lemma swap_order_NA ml o : swap_order ml o = NA <-> o = NA.
Proof. destruct ml, o; simpl; split; congruence. Qed.

Lemma predicates_agree ml o : predicates_ok ml o (is_big_endian ml o) (is_little_endian ml o).
Proof. destruct ml, o; cbv; split; split; congruence. Qed.

Lemma predicates_check_sound ml o big little :
  predicates_check ml o big little = true -> predicates_ok ml o big little.
Proof.
  unfold predicates_check, predicates_ok.
  destruct (endian_of ml o) as [[|]|], big, little; simpl; intro H; try discriminate;
    split; split; congruence.
Qed.

(* ------------------------------------------------------------------------- list helpers *)
Lemma Forall2_map_r {A B} (R : A -> B -> Prop) (h : A -> B) l :
  (forall x, In x l -> R x (h x)) -> Forall2 R l (map h l).
Proof.
  induction l as [|x t IH]; intro H; simpl; constructor.
  - apply H. left. reflexivity.
  - apply IH. intros y Hy. apply H. right. exact Hy.
Qed.

Lemma Forall2_map2 {A B C} (R : B -> C -> Prop) (h : A -> B) (k : A -> C) l :
  (forall x, In x l -> R (h x) (k x)) -> Forall2 R (map h l) (map k l).
Proof.
  induction l as [|x t IH]; intro H; simpl; constructor.
  - apply H. left. reflexivity.
  - apply IH. intros y Hy. apply H. right. exact Hy.
Qed.

Lemma existsb_false {A} (p : A -> bool) l : existsb p l = false -> forall x, In x l -> p x = false.
Proof.
  induction l as [|y t IH]; simpl; intros H x Hx; [tauto|].
  apply orb_false_iff in H as [H1 H2]. destruct Hx as [<-|Hx]; auto.
Qed.

(* ------------------------------------------------------------------------- layouts *)
Definition swap_seg ml (s : seg) : seg := {| slen := slen s; sc := sc s; so := swap_order ml (so s) |}.

Lemma layout_newbo ml d : layout (newbyteorder ml d) = map (swap_seg ml) (layout d).
Proof.
  destruct d as [s|fs]; simpl; [reflexivity|].
  rewrite !map_map. apply map_ext. reflexivity.
Qed.

Lemma geom_newbo ml d : geom (layout (newbyteorder ml d)) = geom (layout d).
Proof. rewrite layout_newbo. unfold geom. rewrite map_map. apply map_ext. reflexivity. Qed.

Lemma orders_newbo ml d : orders (newbyteorder ml d) = map (swap_order ml) (orders d).
Proof. unfold orders. rewrite layout_newbo, !map_map. apply map_ext. reflexivity. Qed.

Lemma erase_newbo ml d : erase (newbyteorder ml d) = erase d.
Proof.
  destruct d as [s|fs]; simpl; [reflexivity|].
  f_equal. rewrite map_map. apply map_ext. reflexivity.
Qed.

Lemma valid_seg d s : valid_dtype d -> In s (layout d) -> seg_valid s.
Proof. intros [_ H] Hin. rewrite Forall_forall in H. auto. Qed.

Lemma segs_geom_ok ly : Forall (fun s => 1 <= sc s) ly -> geom_ok (geom ly).
Proof. induction 1; simpl; constructor; auto. Qed.

Lemma valid_units d : valid_dtype d -> Forall (fun s => 1 <= sc s) (layout d).
Proof.
  intros [_ H]. rewrite Forall_forall in *. intros s Hs. destruct (H s Hs) as (_ & Hc & _). exact Hc.
Qed.

Lemma valid_geom_ok d : valid_dtype d -> geom_ok (geom (layout d)).
Proof. intro H. apply segs_geom_ok, valid_units, H. Qed.

Lemma valid_rowsize d : valid_dtype d -> 1 <= rowsize (geom (layout d)).
Proof.
  intros [Hne H]. destruct (layout d) as [|s t]; [congruence|].
  inversion H as [|? ? (Hl & _) _]; subst. simpl. lia.
Qed.

Lemma valid_newbo ml d : valid_dtype d -> valid_dtype (newbyteorder ml d).
Proof.
  intros [Hne H]. unfold valid_dtype. rewrite layout_newbo. split.
  - destruct (layout d); [congruence|discriminate].
  - rewrite Forall_forall in *. intros s Hs. apply in_map_iff in Hs as (s0 & <- & Hs0).
    destruct (H s0 Hs0) as (Hl & Hc & Hna). unfold seg_valid. simpl.
    split; [exact Hl|]. split; [exact Hc|]. rewrite swap_order_NA. exact Hna.
Qed.

Lemma uniform_newbo ml d : uniform ml d -> uniform ml (newbyteorder ml d).
Proof.
  intros U s1 s2 b1 b2 H1 H2 E1 E2. rewrite layout_newbo in H1, H2.
  apply in_map_iff in H1 as (x1 & <- & Hx1). apply in_map_iff in H2 as (x2 & <- & Hx2).
  simpl in E1, E2. rewrite endian_swap in E1, E2.
  destruct (endian_of ml (so x1)) as [c1|] eqn:F1; [|discriminate].
  destruct (endian_of ml (so x2)) as [c2|] eqn:F2; [|discriminate].
  simpl in E1, E2. injection E1 as <-. injection E2 as <-.
  f_equal. exact (U x1 x2 c1 c2 Hx1 Hx2 F1 F2).
Qed.

Lemma newbo_allNA ml d : (forall s, In s (layout d) -> so s = NA) -> newbyteorder ml d = d.
Proof.
  destruct d as [s|fs]; intro H.
  - destruct s as [k n o]. assert (E : o = NA) by (apply (H (seg_of {| skind := k; ssize := n; sord := o |} 1)); left; reflexivity).
    subst o. reflexivity.
  - simpl. f_equal. induction fs as [|f t IH]; simpl; [reflexivity|]. f_equal.
    + destruct f as [nm [k n o] sub].
      assert (E : o = NA).
      { apply (H (seg_of {| skind := k; ssize := n; sord := o |} (prod sub))). left. reflexivity. }
      subst o. reflexivity.
    + apply IH. intros s Hs. apply H. simpl. right. exact Hs.
Qed.

(* ------------------------------------------------------------------------- values *)
Lemma decb_short b b' x : List.length x <= 1 -> decb b' x = decb b x.
Proof.
  destruct x as [|y [|z t]]; simpl; intro H; try lia; destruct b, b'; reflexivity.
Qed.

Lemma decb_rev b x : decb (negb b) (rev x) = decb b x.
Proof. destruct b; simpl; rewrite ?rev_involutive; reflexivity. Qed.

Lemma seg_values_swapped c X b b' : 1 <= c -> (c = 1 \/ b' = negb b) ->
  map (decb b') (chunks c (map_chunks c (@rev byte) X)) = map (decb b) (chunks c X).
Proof.
  intros Hc H. rewrite chunks_map_chunks by auto using rev_length. rewrite map_map.
  destruct H as [->| ->].
  - apply map_ext_in. intros x Hx. apply chunks_len in Hx; [|lia].
    rewrite <- (decb_rev b x). apply decb_short. rewrite rev_length. exact Hx.
  - apply map_ext. intro x. apply decb_rev.
Qed.

Lemma seg_values_same c X b b' : 1 <= c -> (c = 1 \/ b' = b) ->
  map (decb b') (chunks c X) = map (decb b) (chunks c X).
Proof.
  intros Hc [->| ->]; [|reflexivity].
  apply map_ext_in. intros x Hx. apply chunks_len in Hx; [|lia]. apply decb_short. exact Hx.
Qed.

(* two layouts of the same geometry whose multi-byte units have equal (flip = false) or
   opposite (flip = true) endianness *)
Definition seg_rel (flip ml : bool) (s s' : seg) : Prop :=
  slen s' = slen s /\ sc s' = sc s /\ (sc s = 1 \/ seg_big ml s' = xorb flip (seg_big ml s)).

Lemma row_values_rel flip ml ly ly' :
  Forall2 (seg_rel flip ml) ly ly' -> Forall (fun s => 1 <= sc s) ly ->
  forall row, row_values ml ly' (if flip then swap_row (geom ly) row else row) = row_values ml ly row.
Proof.
  induction 1 as [|s s' t t' (E1 & E2 & E3) HR IH]; intros Hv row.
  - destruct flip; reflexivity.
  - inversion Hv as [|? ? Hc Hvt]; subst. cbn [row_values]. rewrite E1, E2.
    destruct flip.
    + cbn [geom map swap_row]. fold (geom t).
      destruct (swap_row_split (slen s) (sc s) (geom t) row Hc (segs_geom_ok t Hvt)) as [F1 F2].
      cbv zeta in F1, F2. rewrite F1, F2. f_equal.
      * apply seg_values_swapped; auto.
      * apply (IH Hvt).
    + f_equal.
      * apply seg_values_same; auto. destruct E3 as [E3|E3]; [left; exact E3|right].
        rewrite E3. destruct (seg_big ml s); reflexivity.
      * apply (IH Hvt).
Qed.

Lemma rowsize_rel flip ml ly ly' :
  Forall2 (seg_rel flip ml) ly ly' -> rowsize (geom ly') = rowsize (geom ly).
Proof.
  induction 1 as [|s s' t t' (E1 & _) HR IH]; simpl; [reflexivity|]. rewrite E1, IH. reflexivity.
Qed.

Lemma values_as_rel flip ml ly ly' data :
  Forall2 (seg_rel flip ml) ly ly' -> Forall (fun s => 1 <= sc s) ly -> 1 <= rowsize (geom ly) ->
  values_as ml ly' (if flip then swap_data (geom ly) data else data) = values_as ml ly data.
Proof.
  intros HR Hv Hr. unfold values_as. rewrite (rowsize_rel _ _ _ _ HR). destruct flip.
  - rewrite chunks_swap_data by auto using segs_geom_ok. rewrite map_map. apply map_ext.
    intro row. apply (row_values_rel true ml ly ly' HR Hv).
  - apply map_ext. intro row. apply (row_values_rel false ml ly ly' HR Hv).
Qed.

Lemma seg_big_of ml s b : endian_of ml (so s) = Some b -> seg_big ml s = b.
Proof. unfold seg_big. intros ->. destruct b; reflexivity. Qed.

Lemma newbo_rel ml d : valid_dtype d -> Forall2 (seg_rel true ml) (layout d) (layout (newbyteorder ml d)).
Proof.
  intro V. rewrite layout_newbo. apply Forall2_map_r. intros s Hs.
  split; [reflexivity|]. split; [reflexivity|].
  unfold seg_big. cbn [so swap_seg]. rewrite endian_swap.
  destruct (endian_of ml (so s)) as [[|]|] eqn:E; simpl; [right; reflexivity|right; reflexivity|left].
  apply endian_none in E. destruct (valid_seg d s V Hs) as (_ & _ & Hna). apply Hna. exact E.
Qed.

(* ------------------------------------------------------------------------- the decision to swap *)
Definition any_little ml d := existsb (fun s => is_little_endian ml (so s)) (layout d).
Definition any_big ml d := existsb (fun s => is_big_endian ml (so s)) (layout d).

Lemma scan_little_any ml fs : scan_little ml fs = any_little ml (DStruct fs).
Proof.
  unfold any_little. induction fs as [|f t IH]; simpl; [reflexivity|].
  destruct (is_little_endian ml (sord (fty f))); simpl; [reflexivity|exact IH].
Qed.

Lemma scan_big_any ml fs : scan_big ml fs = any_big ml (DStruct fs).
Proof.
  unfold any_big. induction fs as [|f t IH]; simpl; [reflexivity|].
  destruct (is_big_endian ml (sord (fty f))); simpl; [reflexivity|exact IH].
Qed.

Lemma any_little_true ml d : uniform ml d -> any_little ml d = true ->
  forall s b, In s (layout d) -> endian_of ml (so s) = Some b -> b = false.
Proof.
  intros U H s b Hs Hb. apply existsb_exists in H as (s0 & Hs0 & H0).
  rewrite is_little_spec in H0. destruct (endian_of ml (so s0)) as [[|]|] eqn:E0; try discriminate.
  exact (U s s0 b false Hs Hs0 Hb E0).
Qed.

Lemma any_little_false ml d : any_little ml d = false ->
  forall s b, In s (layout d) -> endian_of ml (so s) = Some b -> b = true.
Proof.
  intros H s b Hs Hb. pose proof (existsb_false _ _ H s Hs) as H0. simpl in H0.
  rewrite is_little_spec, Hb in H0. destruct b; congruence.
Qed.

Lemma any_big_true ml d : uniform ml d -> any_big ml d = true ->
  forall s b, In s (layout d) -> endian_of ml (so s) = Some b -> b = true.
Proof.
  intros U H s b Hs Hb. apply existsb_exists in H as (s0 & Hs0 & H0).
  rewrite is_big_spec in H0. destruct (endian_of ml (so s0)) as [[|]|] eqn:E0; try discriminate.
  exact (U s s0 b true Hs Hs0 Hb E0).
Qed.

Lemma any_big_false ml d : any_big ml d = false ->
  forall s b, In s (layout d) -> endian_of ml (so s) = Some b -> b = false.
Proof.
  intros H s b Hs Hb. pose proof (existsb_false _ _ H s Hs) as H0. simpl in H0.
  rewrite is_big_spec, Hb in H0. destruct b; congruence.
Qed.

Definition doswap (f : conv) (ml : bool) (d : dtype) : bool :=
  match f with
  | ToNative =>
      let dl := match d with DPlain s => is_little_endian ml (sord s) | DStruct fs => scan_little ml fs end in
      (ml && negb dl) || (negb ml && dl)
  | ToBig => match d with DPlain s => negb (is_big_endian ml (sord s)) | DStruct fs => scan_little ml fs end
  | ToLittle => match d with DPlain s => negb (is_little_endian ml (sord s)) | DStruct fs => scan_big ml fs end
  | Swap => true
  end.

Lemma apply_doswap f ml a ip k :
  apply f ml a ip k = if doswap f ml (adt a) then byteswap ml a ip k else noswap a ip.
Proof. destruct f; reflexivity. Qed.

(* the swap happens exactly when a field with a byte order is not yet in the requested one *)
Lemma doswap_correct f ml d : uniform ml d ->
  forall s b, In s (layout d) -> endian_of ml (so s) = Some b ->
  want_big ml f b = xorb (doswap f ml d) b.
Proof.
  intros U s b Hs Hb. destruct d as [sc|fs].
  - destruct Hs as [<-|[]]. destruct sc as [k n o]. simpl in Hb.
    destruct f, ml, o; cbv in Hb |- *; try discriminate; injection Hb as <-; reflexivity.
  - destruct f; unfold doswap; rewrite ?scan_little_any, ?scan_big_any.
    + destruct (any_little ml (DStruct fs)) eqn:E.
      * rewrite (any_little_true _ _ U E s b Hs Hb). destruct ml; reflexivity.
      * rewrite (any_little_false _ _ E s b Hs Hb). destruct ml; reflexivity.
    + destruct (any_little ml (DStruct fs)) eqn:E.
      * rewrite (any_little_true _ _ U E s b Hs Hb). reflexivity.
      * rewrite (any_little_false _ _ E s b Hs Hb). reflexivity.
    + destruct (any_big ml (DStruct fs)) eqn:E.
      * rewrite (any_big_true _ _ U E s b Hs Hb). reflexivity.
      * rewrite (any_big_false _ _ E s b Hs Hb). reflexivity.
    + destruct b; reflexivity.
Qed.

Lemma requested_rel f ml d : valid_dtype d -> uniform ml d ->
  Forall2 (seg_rel (doswap f ml d) ml) (layout d) (requested ml f (layout d)).
Proof.
  intros V U. unfold requested. apply Forall2_map_r. intros s Hs. unfold seg_rel.
  destruct (endian_of ml (so s)) as [b|] eqn:E.
  - split; [reflexivity|]. split; [reflexivity|]. right.
    rewrite (seg_big_of ml s b E), <- (doswap_correct f ml d U s b Hs E).
    unfold seg_big. simpl. destruct (want_big ml f b); reflexivity.
  - split; [reflexivity|]. split; [reflexivity|]. left.
    apply endian_none in E. destruct (valid_seg d s V Hs) as (_ & _ & Hna). apply Hna. exact E.
Qed.

Lemma self_rel ml ly : Forall2 (seg_rel false ml) ly ly.
Proof.
  induction ly as [|s t IH]; constructor; auto.
  split; [reflexivity|]. split; [reflexivity|]. right. destruct (seg_big ml s); reflexivity.
Qed.

(* ------------------------------------------------------------------------- the statement, clause by clause *)
Section Conv.
  Variables (ml : bool) (f : conv) (a : arr) (ip keep : bool).
  Hypothesis V : valid_dtype (adt a).
  Hypothesis U : uniform ml (adt a).
  Let sw := doswap f ml (adt a).
  Let o1 := apply f ml a ip keep.

  Lemma res_data : adata (o_res o1) = if sw then swap_data (geom (layout (adt a))) (adata a) else adata a.
  Proof. unfold o1. rewrite apply_doswap. fold sw. destruct sw; reflexivity. Qed.

  Lemma res_dtype : adt (o_res o1) = if sw && negb keep then newbyteorder ml (adt a) else adt a.
  Proof. unfold o1. rewrite apply_doswap. fold sw. destruct sw, keep; reflexivity. Qed.

  Lemma res_shape : ashape (o_res o1) = ashape a.
  Proof. unfold o1. rewrite apply_doswap. destruct (doswap f ml (adt a)); reflexivity. Qed.

  Lemma structure_preserved : same_structure (adt (o_res o1)) (adt a) /\ ashape (o_res o1) = ashape a.
  Proof.
    split; [|exact res_shape]. unfold same_structure. rewrite res_dtype.
    destruct (sw && negb keep); [apply erase_newbo|reflexivity].
  Qed.

  Lemma converted : values_as ml (requested ml f (layout (adt a))) (adata (o_res o1)) = arr_values ml a.
  Proof.
    rewrite res_data. unfold arr_values, sw.
    apply values_as_rel; auto using requested_rel, valid_units, valid_rowsize.
  Qed.

  Lemma declares : keep = false -> declares_requested ml f (adt a) (adt (o_res o1)).
  Proof.
    intro Hk. unfold declares_requested. rewrite res_dtype, Hk, andb_true_r.
    destruct sw eqn:Esw.
    - rewrite orders_newbo. unfold orders. rewrite map_map. apply Forall2_map2.
      intros s Hs. unfold order_requested. rewrite endian_swap.
      destruct (endian_of ml (so s)) as [b|] eqn:E; simpl.
      + rewrite (doswap_correct f ml (adt a) U s b Hs E). fold sw. rewrite Esw. destruct b; reflexivity.
      + apply endian_none in E. rewrite E. reflexivity.
    - unfold orders. apply Forall2_map2. intros s Hs. unfold order_requested.
      destruct (endian_of ml (so s)) as [b|] eqn:E.
      + rewrite (doswap_correct f ml (adt a) U s b Hs E). fold sw. rewrite Esw. destruct b; reflexivity.
      + apply endian_none in E. exact E.
  Qed.

  Lemma values_preserved : keep = false -> arr_values ml (o_res o1) = arr_values ml a.
  Proof.
    intro Hk. unfold arr_values at 1. rewrite res_dtype, res_data, Hk, andb_true_r.
    destruct sw.
    - apply (values_as_rel true); auto using newbo_rel, valid_units, valid_rowsize.
    - reflexivity.
  Qed.

  Lemma dtype_kept : keep = true -> adt (o_res o1) = adt a.
  Proof. intro Hk. rewrite res_dtype, Hk, andb_false_r. reflexivity. Qed.

  Lemma copy_independent : ip = false -> o_same o1 = false /\ o_shares o1 = false /\ o_inp o1 = a.
  Proof. intro Hi. unfold o1. rewrite apply_doswap, Hi. destruct (doswap f ml (adt a)); repeat split; reflexivity. Qed.

  Lemma inplace_same_object : ip = true -> o_same o1 = true /\ o_inp o1 = o_res o1.
  Proof. intro Hi. unfold o1. rewrite apply_doswap, Hi. destruct (doswap f ml (adt a)); split; reflexivity. Qed.

  Lemma res_valid : valid_dtype (adt (o_res o1)).
  Proof. rewrite res_dtype. destruct (sw && negb keep); auto using valid_newbo. Qed.

  Lemma res_uniform : uniform ml (adt (o_res o1)).
  Proof. rewrite res_dtype. destruct (sw && negb keep); auto using uniform_newbo. Qed.

  (* after an update of the dtype every field with a byte order has the requested one *)
  Lemma res_requested : keep = false -> forall s b, In s (layout (adt (o_res o1))) ->
    endian_of ml (so s) = Some b -> exists b0, b = want_big ml f b0.
  Proof.
    intros Hk s b Hs Hb. rewrite res_dtype, Hk, andb_true_r in Hs. destruct sw eqn:Esw.
    - rewrite layout_newbo in Hs. apply in_map_iff in Hs as (s0 & <- & Hs0).
      simpl in Hb. rewrite endian_swap in Hb.
      destruct (endian_of ml (so s0)) as [c|] eqn:E; [|discriminate]. simpl in Hb. injection Hb as <-.
      exists c. rewrite (doswap_correct f ml (adt a) U s0 c Hs0 E). fold sw. rewrite Esw. destruct c; reflexivity.
    - exists b. rewrite (doswap_correct f ml (adt a) U s b Hs Hb). fold sw. rewrite Esw. destruct b; reflexivity.
  Qed.

  Lemma idempotent : keep = false -> f <> Swap -> o_res (apply f ml (o_res o1) ip keep) = o_res o1.
  Proof.
    intros Hk Hf. rewrite apply_doswap. destruct (doswap f ml (adt (o_res o1))) eqn:E2; [|reflexivity].
    (* a second swap can only be decided when no field has a byte order: it changes nothing *)
    assert (HNA : forall s, In s (layout (adt (o_res o1))) -> so s = NA).
    { intros s Hs. apply (endian_none ml). destruct (endian_of ml (so s)) as [b|] eqn:Eb; [|reflexivity].
      exfalso. destruct (res_requested Hk s b Hs Eb) as (b0 & Hb0).
      pose proof (doswap_correct f ml _ res_uniform s b Hs Eb) as Hd. rewrite E2 in Hd.
      destruct f; try congruence; simpl in Hd, Hb0; destruct b; congruence. }
    rewrite Hk. unfold byteswap. cbn [o_res].
    rewrite (newbo_allNA ml _ HNA).
    rewrite swap_data_units.
    - destruct (o_res o1); reflexivity.
    - unfold geom. rewrite Forall_forall. intros p Hp. apply in_map_iff in Hp as (s & <- & Hs). simpl.
      destruct (valid_seg _ s res_valid Hs) as (_ & _ & Hna). apply Hna. apply HNA. exact Hs.
    - apply valid_rowsize, res_valid.
  Qed.

  Lemma swap_twice : f = Swap -> adata (o_res (apply f ml (o_res o1) ip keep)) = adata a.
  Proof.
    intro Hf. assert (G : geom (layout (adt (o_res o1))) = geom (layout (adt a))).
    { rewrite res_dtype. destruct (sw && negb keep); [apply geom_newbo|reflexivity]. }
    assert (Hsw : sw = true) by (unfold sw; rewrite Hf; reflexivity).
    pose proof res_data as D. rewrite Hsw in D.
    rewrite Hf. cbn [apply byteswap o_res adata]. rewrite G, D. apply swap_data_invol; auto using valid_geom_ok, valid_rowsize.
  Qed.

  Theorem conv_correct : conv_ok ml f a ip keep o1 (apply f ml (o_res o1) ip keep).
  Proof.
    constructor.
    - exact structure_preserved.
    - exact converted.
    - intro Hk. split; [exact (declares Hk)|exact (values_preserved Hk)].
    - exact dtype_kept.
    - exact copy_independent.
    - exact inplace_same_object.
    - exact idempotent.
    - exact swap_twice.
  Qed.
End Conv.

(* values survive byteswap + newbyteorder for EVERY valid dtype (mixed orders included) *)
Lemma byteswap_values ml a ip : valid_dtype (adt a) ->
  arr_values ml (o_res (byteswap ml a ip false)) = arr_values ml a.
Proof.
  intro V. unfold arr_values. cbn [byteswap o_res adt adata].
  apply (values_as_rel true); auto using newbo_rel, valid_units, valid_rowsize.
Qed.

(* ------------------------------------------------------------------------- the clauses in closed form *)
Lemma value_preserved_thm ml f a ip : valid_dtype (adt a) -> uniform ml (adt a) ->
  arr_values ml (o_res (apply f ml a ip false)) = arr_values ml a.
Proof. intros V U. exact (values_preserved ml f a ip false V eq_refl). Qed.

Lemma keep_dtype_thm ml f a ip : adt (o_res (apply f ml a ip true)) = adt a.
Proof. exact (dtype_kept ml f a ip true eq_refl). Qed.

Lemma declares_thm ml f a ip : uniform ml (adt a) ->
  declares_requested ml f (adt a) (adt (o_res (apply f ml a ip false))).
Proof. intro U. exact (declares ml f a ip false U eq_refl). Qed.

Lemma idempotent_thm ml f a ip : valid_dtype (adt a) -> uniform ml (adt a) -> f <> Swap ->
  o_res (apply f ml (o_res (apply f ml a ip false)) ip false) = o_res (apply f ml a ip false).
Proof. intros V U Hf. exact (idempotent ml f a ip false V U eq_refl Hf). Qed.

Lemma swap_twice_thm ml a ip keep : valid_dtype (adt a) ->
  adata (o_res (byteswap ml (o_res (byteswap ml a ip keep)) ip keep)) = adata a.
Proof. intro V. exact (swap_twice ml Swap a ip keep V eq_refl). Qed.

(* after two swaps the dtype means what it meant ('=' has become the machine's letter) *)
Lemma swap_twice_orders_thm ml a ip :
  map (endian_of ml) (orders (adt (o_res (byteswap ml (o_res (byteswap ml a ip false)) ip false))))
  = map (endian_of ml) (orders (adt a)).
Proof.
  cbn [byteswap o_res adt]. rewrite !orders_newbo, !map_map. apply map_ext. intro o.
  rewrite !endian_swap. destruct (endian_of ml o) as [[|]|]; reflexivity.
Qed.

Lemma copy_independent_thm ml f a keep :
  let o := apply f ml a false keep in o_same o = false /\ o_shares o = false /\ o_inp o = a.
Proof. exact (copy_independent ml f a false keep eq_refl). Qed.

Lemma inplace_same_object_thm ml f a keep :
  let o := apply f ml a true keep in o_same o = true /\ o_inp o = o_res o.
Proof. exact (inplace_same_object ml f a true keep eq_refl). Qed.

Lemma single_byte_units_untouched d data :
  valid_dtype d -> (forall s, In s (layout d) -> sc s = 1) -> swap_data (geom (layout d)) data = data.
Proof.
  intros V H. apply swap_data_units; [|apply valid_rowsize; exact V].
  unfold geom. rewrite Forall_forall. intros p Hp. apply in_map_iff in Hp as (s & <- & Hs). simpl. auto.
Qed.

(* ------------------------------------------------------------------------- checker soundness *)
Lemma order_eqb_eq a b : order_eqb a b = true <-> a = b.
Proof. destruct a, b; simpl; split; congruence. Qed.

Lemma kind_eqb_eq a b : kind_eqb a b = true <-> a = b.
Proof. destruct a, b; simpl; split; congruence. Qed.

Lemma natlist_eqb_eq l l' : natlist_eqb l l' = true <-> l = l'.
Proof. apply list_eqb_spec. intros; apply Nat.eqb_eq. Qed.

Lemma scalar_eqb_eq a b : scalar_eqb a b = true <-> a = b.
Proof.
  destruct a as [k n o], b as [k' n' o']. unfold scalar_eqb. simpl.
  rewrite !andb_true_iff, kind_eqb_eq, Nat.eqb_eq, order_eqb_eq. split.
  - intros [[-> ->] ->]. reflexivity.
  - intro E. injection E as -> -> ->. auto.
Qed.

Lemma field_eqb_eq a b : field_eqb a b = true <-> a = b.
Proof.
  destruct a as [nm s sub], b as [nm' s' sub']. unfold field_eqb. simpl.
  rewrite !andb_true_iff, String.eqb_eq, scalar_eqb_eq, natlist_eqb_eq. split.
  - intros [[-> ->] ->]. reflexivity.
  - intro E. injection E as -> -> ->. auto.
Qed.

Lemma dtype_eqb_eq a b : dtype_eqb a b = true <-> a = b.
Proof.
  destruct a as [s|fs], b as [s'|fs']; simpl; try (split; [discriminate|congruence]).
  - rewrite scalar_eqb_eq. split; congruence.
  - rewrite (list_eqb_spec field_eqb field_eqb_eq). split; congruence.
Qed.

Lemma arr_eqb_eq a b : arr_eqb a b = true <-> a = b.
Proof.
  destruct a as [d sh dat], b as [d' sh' dat']. unfold arr_eqb. simpl.
  rewrite !andb_true_iff, dtype_eqb_eq, natlist_eqb_eq, bytes_eqb_eq. split.
  - intros [[-> ->] ->]. reflexivity.
  - intro E. injection E as -> -> ->. auto.
Qed.

Lemma values_eqb_eq v v' : values_eqb v v' = true <-> v = v'.
Proof. apply list_eqb_spec. apply zlist_eqb_spec. Qed.

Lemma order_requested_b_sound ml f oin oout :
  order_requested_b ml f oin oout = true -> order_requested ml f oin oout.
Proof.
  unfold order_requested_b, order_requested. destruct (endian_of ml oin) as [b|].
  - destruct (endian_of ml oout) as [b'|]; [|discriminate]. intro H. apply Bool.eqb_prop in H. congruence.
  - apply order_eqb_eq.
Qed.

Lemma forall2b_sound {A B} (p : A -> B -> bool) (P : A -> B -> Prop) :
  (forall x y, p x y = true -> P x y) -> forall l l', forall2b p l l' = true -> Forall2 P l l'.
Proof.
  intros H l. induction l as [|x t IH]; intros [|y t']; simpl; intro E; try discriminate; constructor.
  - apply H. apply andb_true_iff in E. tauto.
  - apply IH. apply andb_true_iff in E. tauto.
Qed.

Lemma conv_check_sound ml f a ip keep o1 o2 :
  conv_check ml f a ip keep o1 o2 = true -> conv_ok ml f a ip keep o1 o2.
Proof.
  unfold conv_check. rewrite !andb_true_iff.
  intros [[[[[[H1 H2] H3] H4] H5] H6] H7].
  apply dtype_eqb_eq in H1. apply natlist_eqb_eq in H2. apply values_eqb_eq in H3.
  constructor.
  - split; assumption.
  - exact H3.
  - intros ->. apply andb_true_iff in H4 as [H4 H4']. split.
    + exact (forall2b_sound _ _ (order_requested_b_sound ml f) _ _ H4).
    + apply values_eqb_eq. exact H4'.
  - intros ->. apply dtype_eqb_eq. exact H4.
  - intros ->. rewrite !andb_true_iff, !negb_true_iff in H5. destruct H5 as [[Ha Hb] Hc].
    apply arr_eqb_eq in Hc. auto.
  - intros ->. apply andb_true_iff in H5 as [Ha Hb]. apply arr_eqb_eq in Hb. auto.
  - intros -> Hf. assert (is_swap f = false) as E by (destruct f; try reflexivity; congruence).
    rewrite E in H6. simpl in H6. apply arr_eqb_eq. exact H6.
  - intros ->. simpl in H7. apply bytes_eqb_eq. exact H7.
Qed.

Lemma seg_valid_b_sound s : seg_valid_b s = true -> seg_valid s.
Proof.
  unfold seg_valid_b, seg_valid. rewrite !andb_true_iff, !Nat.leb_le.
  intros [[H1 H2] H3]. split; [exact H1|]. split; [exact H2|].
  apply Bool.eqb_prop in H3. rewrite <- order_eqb_eq, <- Nat.eqb_eq, H3. reflexivity.
Qed.

Lemma valid_dtype_b_sound d : valid_dtype_b d = true -> valid_dtype d.
Proof.
  unfold valid_dtype_b, valid_dtype. destruct (layout d) as [|s t] eqn:E; [discriminate|].
  intro H. split; [discriminate|]. rewrite Forall_forall. rewrite forallb_forall in H.
  intros x Hx. apply seg_valid_b_sound, H, Hx.
Qed.

Lemma uniform_b_sound ml d : uniform_b ml d = true -> uniform ml d.
Proof.
  unfold uniform_b, uniform. intros H s1 s2 b1 b2 H1 H2 E1 E2.
  assert (I1 : In b1 (bigs ml d)).
  { unfold bigs. apply in_flat_map. exists s1. split; [exact H1|]. rewrite E1. left. reflexivity. }
  assert (I2 : In b2 (bigs ml d)).
  { unfold bigs. apply in_flat_map. exists s2. split; [exact H2|]. rewrite E2. left. reflexivity. }
  destruct (bigs ml d) as [|b t]; [destruct I1|].
  rewrite forallb_forall in H.
  assert (forall x, In x (b :: t) -> x = b) as K.
  { intros x [<-|Hx]; [reflexivity|]. symmetry. apply Bool.eqb_prop. apply H. exact Hx. }
  rewrite (K b1 I1), (K b2 I2). reflexivity.
Qed.

(* ------------------------------------------------------------------------- descriptor stripping *)
Lemma descr_to_native_strips ml fs :
  descr_to_native (descr_of ml fs) = map (fun f => (fname f, body (fty f), fsub f)) fs.
Proof. unfold descr_to_native, descr_of. rewrite map_map. apply map_ext. reflexivity. Qed.

Lemma descr_order_independent ml ml' fs fs' :
  same_structure (DStruct fs) (DStruct fs') ->
  descr_to_native (descr_of ml fs) = descr_to_native (descr_of ml' fs').
Proof.
  unfold same_structure. simpl. intro E. injection E as E. rewrite !descr_to_native_strips.
  set (er := fun f => {| fname := fname f; fty := erase_scalar (fty f); fsub := fsub f |}) in E.
  transitivity (map (fun f => (fname f, body (fty f), fsub f)) (map er fs)).
  - rewrite map_map. apply map_ext. reflexivity.
  - rewrite E, map_map. apply map_ext. reflexivity.
Qed.

Lemma stripped_check_sound din dparsed : stripped_check din dparsed = true -> stripped_ok din dparsed.
Proof.
  unfold stripped_check, stripped_ok. rewrite andb_true_iff. intros [H1 H2]. split.
  - apply dtype_eqb_eq. exact H1.
  - unfold native_only. rewrite Forall_forall. rewrite forallb_forall in H2. intros o Ho.
    specialize (H2 o Ho). apply orb_true_iff in H2 as [H2|H2]; apply order_eqb_eq in H2; auto.
Qed.

(* ------------------------------------------------------------------------- the unrepaired scan *)
(* [('a','>i4'),('s','S3')] (resp. '<i4'), one row: a = 1, s = "ab" *)
Definition witness_dtype (o : order) : dtype :=
  DStruct [ {| fname := "a"; fty := {| skind := KInt; ssize := 4; sord := o |}; fsub := [] |};
            {| fname := "s"; fty := {| skind := KBytes; ssize := 3; sord := NA |}; fsub := [] |} ].
Definition witness (o : order) (hex : string) : arr :=
  {| adt := witness_dtype o; ashape := [1]; adata := unhex hex |}.
Definition witness_be := witness BE "00000001616200".
Definition witness_le := witness LE "01000000616200".

Lemma unrepaired_scan_refuted :
  valid_dtype (witness_dtype BE) /\ uniform true (witness_dtype BE)
  /\ ~ declares_requested true ToBig (adt witness_be) (adt (o_res (to_big_endian_unrepaired true witness_be false false)))
  /\ ~ declares_requested true ToLittle (adt witness_le) (adt (o_res (to_little_endian_unrepaired true witness_le false false)))
  /\ arr_values true (o_res (to_big_endian_unrepaired true witness_be false true)) <> arr_values true witness_be.
Proof.
  split; [apply valid_dtype_b_sound; reflexivity|].
  split; [apply uniform_b_sound; reflexivity|].
  split; [|split].
  - intro H. vm_compute in H. inversion H as [|? ? ? ? H1 _]; subst. vm_compute in H1. discriminate.
  - intro H. vm_compute in H. inversion H as [|? ? ? ? H1 _]; subst. vm_compute in H1. discriminate.
  - vm_compute. discriminate.
Qed.

Lemma unrepaired_agrees_without_NA_fields ml fs sh data ip keep :
  (forall f, In f fs -> sord (fty f) <> NA) ->
  let a := {| adt := DStruct fs; ashape := sh; adata := data |} in
  to_big_endian_unrepaired ml a ip keep = to_big_endian ml a ip keep
  /\ to_little_endian_unrepaired ml a ip keep = to_little_endian ml a ip keep.
Proof.
  intros H a.
  assert (E1 : scan_notbig ml fs = scan_little ml fs).
  { induction fs as [|f t IH]; [reflexivity|]. simpl.
    assert (E : negb (is_big_endian ml (sord (fty f))) = is_little_endian ml (sord (fty f))).
    { specialize (H f (or_introl eq_refl)). destruct ml, (sord (fty f)); try reflexivity; congruence. }
    rewrite E, IH; [reflexivity|]. intros g Hg. apply H. right. exact Hg. }
  assert (E2 : scan_notlittle ml fs = scan_big ml fs).
  { clear E1. induction fs as [|f t IH]; [reflexivity|]. simpl.
    assert (E : negb (is_little_endian ml (sord (fty f))) = is_big_endian ml (sord (fty f))).
    { specialize (H f (or_introl eq_refl)). destruct ml, (sord (fty f)); try reflexivity; congruence. }
    rewrite E, IH; [reflexivity|]. intros g Hg. apply H. right. exact Hg. }
  unfold to_big_endian_unrepaired, to_little_endian_unrepaired, to_big_endian, to_little_endian.
  simpl. rewrite E1, E2. split; reflexivity.
Qed.

Lemma checkers_sound :
  (forall ml f a ip keep o1 o2, conv_check ml f a ip keep o1 o2 = true -> conv_ok ml f a ip keep o1 o2)
  /\ (forall ml o big little, predicates_check ml o big little = true -> predicates_ok ml o big little)
  /\ (forall din dparsed, stripped_check din dparsed = true -> stripped_ok din dparsed)
  /\ (forall d, valid_dtype_b d = true -> valid_dtype d)
  /\ (forall ml d, uniform_b ml d = true -> uniform ml d).
Proof.
  split; [exact conv_check_sound|]. split; [exact predicates_check_sound|].
  split; [exact stripped_check_sound|]. split; [exact valid_dtype_b_sound|exact uniform_b_sound].
Qed.

(* ------------------------------------------------------------------------- a concrete instance *)
(* [('s','S2'),('a','>i2',(2,)),('c','>c8')], one row: "ab", (1,2), 1+0j *)
Definition ex_dtype : dtype :=
  DStruct [ {| fname := "s"; fty := {| skind := KBytes; ssize := 2; sord := NA |}; fsub := [] |};
            {| fname := "a"; fty := {| skind := KInt; ssize := 2; sord := BE |}; fsub := [2] |};
            {| fname := "c"; fty := {| skind := KComplex; ssize := 8; sord := BE |}; fsub := [] |} ].
Definition ex_arr : arr := {| adt := ex_dtype; ashape := [1]; adata := unhex "6162000100023f80000000000000" |}.

Lemma nonvacuous :
  valid_dtype ex_dtype /\ uniform true ex_dtype
  /\ arr_values true ex_arr = [[97; 98; 1; 2; 1065353216; 0]]%Z
  /\ adata (o_res (to_big_endian true ex_arr false false)) = adata ex_arr
  /\ adata (o_res (to_native true ex_arr false false)) = unhex "6162010002000000803f00000000"
  /\ orders (adt (o_res (to_native true ex_arr false false))) = [NA; LE; LE]
  /\ arr_values true (o_res (to_native true ex_arr false false)) = arr_values true ex_arr.
Proof.
  split; [apply valid_dtype_b_sound; reflexivity|].
  split; [apply uniform_b_sound; reflexivity|].
  repeat split; vm_compute; reflexivity.
Qed.

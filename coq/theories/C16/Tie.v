(* C16 — tie of the hand model (Model.v, Ext.v) to the definitions regenerated from the source
   (Gen.v).  Every lemma here is about the CURRENT content of Gen.v: when the tree under check
   changes a tested order letter, the machine fallback, the scanned predicate or its negation, the
   break, the swap condition, an argument of byteswap / newbyteorder, `array` vs `array.copy()`,
   .dtype assignment vs .view, a default ..., Gen.v changes and these lemmas are re-checked against
   the new text; they then either still hold or the build fails and the check reports the broken tie. *)
From Coq Require Import List Bool String.
From EsVerif.Common Require Import Base Bytes.
From EsVerif.C16 Require Import Model Spec ChunkProofs Proofs Ext ExtProofs Gen.
Local Open Scope list_scope.

(* ---- predicates *)
Lemma tie_nu_is_big_endian ml o : nu_is_big_endian_g ml o = is_big_endian ml o.
Proof. destruct ml, o; reflexivity. Qed.
Lemma tie_nu_is_little_endian ml o : nu_is_little_endian_g ml o = is_little_endian ml o.
Proof. destruct ml, o; reflexivity. Qed.
Lemma tie_ru_is_little_endian ml o : ru_is_little_endian_g ml o = is_little_endian ml o.
Proof. destruct ml, o; reflexivity. Qed.

(* ---- the field scan *)
Lemma scan_g_ext (t t' : order -> bool) sv brk acc fs :
  (forall o, t o = t' o) -> scan_g t sv brk acc fs = scan_g t' sv brk acc fs.
Proof.
  intro H. revert sv acc. induction fs as [|f r IH]; intros sv acc; cbn [scan_g]; [reflexivity|].
  rewrite H. destruct (t' (sord (fty f))); [destruct brk; [reflexivity|apply IH]|apply IH].
Qed.
Lemma scan_g_true (t : order -> bool) brk fs : scan_g t true brk true fs = true.
Proof. induction fs as [|f r IH]; cbn [scan_g]; [reflexivity|]. destruct (t _); [destruct brk; auto|auto]. Qed.
(* with or without the break, the loop computes "some field passes the test" *)
Lemma scan_g_little ml brk fs : scan_g (is_little_endian ml) true brk false fs = scan_little ml fs.
Proof.
  induction fs as [|f r IH]; cbn [scan_g scan_little]; [reflexivity|].
  destruct (is_little_endian ml (sord (fty f))); [destruct brk; [reflexivity|apply scan_g_true]|exact IH].
Qed.
Lemma scan_g_big ml brk fs : scan_g (is_big_endian ml) true brk false fs = scan_big ml fs.
Proof.
  induction fs as [|f r IH]; cbn [scan_g scan_big]; [reflexivity|].
  destruct (is_big_endian ml (sord (fty f))); [destruct brk; [reflexivity|apply scan_g_true]|exact IH].
Qed.

(* ---- newbyteorder() *)
Lemma newbo_order_swap ml o : newbo_order NbSwap ml o = swap_order ml o.
Proof. destruct o; reflexivity. Qed.
Lemma dt_newbyteorder_swap ml d : dt_newbyteorder NbSwap ml d = newbyteorder ml d.
Proof.
  destruct d as [s|fs]; unfold dt_newbyteorder, map_orders, newbyteorder, newbo_scalar.
  - rewrite newbo_order_swap. reflexivity.
  - f_equal. apply map_ext. intro f. rewrite newbo_order_swap. reflexivity.
Qed.

(* ---- numpy_util.byteswap: array.byteswap(inplace); if not keep_dtype: outdata.dtype = newbyteorder() *)
Lemma tie_byteswap ml a ip k : nu_byteswap_g ml a ip k = byteswap ml a ip k.
Proof.
  unfold nu_byteswap_g, byteswap, prim_setdtype, prim_byteswap, relabel. cbv zeta.
  destruct ip, k; cbn [negb o_res o_same o_shares o_inp adt ashape adata]; rewrite ?dt_newbyteorder_swap; reflexivity.
Qed.

Lemma noswap_prim (a : arr) (ip : bool) : (if ip then prim_self a else prim_copy a) = noswap a ip.
Proof. destruct ip; reflexivity. Qed.

(* ---- the three converters *)
Lemma tie_to_native ml a ip k : nu_to_native_g ml a ip k = to_native ml a ip k.
Proof.
  unfold nu_to_native_g, to_native. cbv zeta. rewrite tie_byteswap, noswap_prim.
  destruct a as [[s|fs] sh data]; cbn [adt base_order].
  - rewrite tie_nu_is_little_endian. destruct ml, (is_little_endian _ (sord s)); reflexivity.
  - rewrite (scan_g_ext _ (is_little_endian ml)) by (intro; apply tie_nu_is_little_endian).
    rewrite scan_g_little. destruct ml, (scan_little _ fs); reflexivity.
Qed.

Lemma tie_to_big_endian ml a ip k : nu_to_big_endian_g ml a ip k = to_big_endian ml a ip k.
Proof.
  unfold nu_to_big_endian_g, to_big_endian. cbv zeta. rewrite tie_byteswap, noswap_prim.
  destruct a as [[s|fs] sh data]; cbn [adt base_order].
  - rewrite tie_nu_is_big_endian. destruct (is_big_endian ml (sord s)); reflexivity.
  - rewrite (scan_g_ext _ (is_little_endian ml)) by (intro; apply tie_nu_is_little_endian).
    rewrite scan_g_little. destruct (scan_little ml fs); reflexivity.
Qed.

Lemma tie_to_little_endian ml a ip k : nu_to_little_endian_g ml a ip k = to_little_endian ml a ip k.
Proof.
  unfold nu_to_little_endian_g, to_little_endian. cbv zeta. rewrite tie_byteswap, noswap_prim.
  destruct a as [[s|fs] sh data]; cbn [adt base_order].
  - rewrite tie_nu_is_little_endian. destruct (is_little_endian ml (sord s)); reflexivity.
  - rewrite (scan_g_ext _ (is_big_endian ml)) by (intro; apply tie_nu_is_big_endian).
    rewrite scan_g_big. destruct (scan_big ml fs); reflexivity.
Qed.

Lemma tie_apply f ml a ip k :
  match f with
  | ToNative => nu_to_native_g | ToBig => nu_to_big_endian_g | ToLittle => nu_to_little_endian_g | Swap => nu_byteswap_g
  end ml a ip k = apply f ml a ip k.
Proof.
  destruct f; [apply tie_to_native|apply tie_to_big_endian|apply tie_to_little_endian|apply tie_byteswap].
Qed.

(* inplace=False, keep_dtype=False are the defaults of all four *)
Lemma tie_defaults : nu_defaults = [(false, false); (false, false); (false, false); (false, false)].
Proof. reflexivity. Qed.

(* ---- recfile.Util *)
Lemma tie_to_native_inplace ml a : ru_to_native_inplace_g ml a = to_native_inplace ml a.
Proof.
  unfold ru_to_native_inplace_g, to_native_inplace, to_native. cbv zeta.
  destruct a as [[s|fs] sh data]; cbn [adt base_order].
  - rewrite tie_ru_is_little_endian.
    destruct ml, (is_little_endian _ (sord s)); cbn [andb orb negb];
      unfold byteswap, noswap, prim_setdtype, prim_byteswap, prim_self, relabel;
      cbn [o_res o_same o_shares o_inp adt ashape adata]; rewrite ?dt_newbyteorder_swap; reflexivity.
  - rewrite (scan_g_ext _ (is_little_endian ml)) by (intro; apply tie_ru_is_little_endian).
    rewrite scan_g_little.
    destruct ml, (scan_little _ fs); cbn [andb orb negb];
      unfold byteswap, noswap, prim_setdtype, prim_byteswap, prim_self, relabel;
      cbn [o_res o_same o_shares o_inp adt ashape adata]; rewrite ?dt_newbyteorder_swap; reflexivity.
Qed.

Lemma tie_rec_to_native ml a : ru_to_native_g ml a = rec_to_native ml a.
Proof. reflexivity. Qed.

(* ---- descriptor stripping: component 1 (the type string) loses exactly its first character *)
Lemma tie_descr_to_native d : nu_descr_to_native_g d = Some (descr_to_native d).
Proof. reflexivity. Qed.
Lemma tie_remove_dtype_byteorder d : ru_remove_dtype_byteorder_g d = Some (descr_to_native d).
Proof. reflexivity. Qed.

(* one statement for Properties.v *)
Lemma source_tie :
  (forall ml o, nu_is_big_endian_g ml o = is_big_endian ml o)
  /\ (forall ml o, nu_is_little_endian_g ml o = is_little_endian ml o)
  /\ (forall ml o, ru_is_little_endian_g ml o = is_little_endian ml o)
  /\ (forall ml a ip k, nu_byteswap_g ml a ip k = byteswap ml a ip k)
  /\ (forall ml a ip k, nu_to_native_g ml a ip k = to_native ml a ip k)
  /\ (forall ml a ip k, nu_to_big_endian_g ml a ip k = to_big_endian ml a ip k)
  /\ (forall ml a ip k, nu_to_little_endian_g ml a ip k = to_little_endian ml a ip k)
  /\ (forall ml a, ru_to_native_inplace_g ml a = to_native_inplace ml a)
  /\ (forall ml a, ru_to_native_g ml a = rec_to_native ml a)
  /\ (forall d, nu_descr_to_native_g d = Some (descr_to_native d))
  /\ (forall d, ru_remove_dtype_byteorder_g d = Some (descr_to_native d))
  /\ nu_defaults = [(false, false); (false, false); (false, false); (false, false)].
Proof.
  split; [exact tie_nu_is_big_endian|]. split; [exact tie_nu_is_little_endian|].
  split; [exact tie_ru_is_little_endian|]. split; [exact tie_byteswap|]. split; [exact tie_to_native|].
  split; [exact tie_to_big_endian|]. split; [exact tie_to_little_endian|]. split; [exact tie_to_native_inplace|].
  split; [exact tie_rec_to_native|]. split; [exact tie_descr_to_native|].
  split; [exact tie_remove_dtype_byteorder|exact tie_defaults].
Qed.

(* ---- the generated parts carry meaning.  With the scan of the as-found tree
        ("if not is_big_endian(array[fname])") the regenerated to_big_endian is the unrepaired model,
        which Properties.C16_unrepaired_scan_refuted refutes. *)
Definition asfound_to_big_endian_g (np_le : bool) (array : arr) (inplace keep_dtype : bool) : outcome :=
  let doswap := false in
  let doswap := match adt array with
                | DPlain _ => if negb (nu_is_big_endian_g np_le (base_order (adt array))) then true else doswap
                | DStruct fs_ => scan_g (fun o_ => negb (nu_is_big_endian_g np_le o_)) true true doswap fs_
                end in
  if doswap then nu_byteswap_g np_le array inplace keep_dtype
  else if inplace then prim_self array else prim_copy array.

Lemma scan_g_notbig ml brk fs : scan_g (fun o => negb (is_big_endian ml o)) true brk false fs = scan_notbig ml fs.
Proof.
  induction fs as [|f r IH]; cbn [scan_g scan_notbig]; [reflexivity|].
  destruct (negb (is_big_endian ml (sord (fty f)))); [destruct brk; [reflexivity|apply scan_g_true]|exact IH].
Qed.

Lemma asfound_scan_is_unrepaired ml a ip k :
  asfound_to_big_endian_g ml a ip k = to_big_endian_unrepaired ml a ip k.
Proof.
  unfold asfound_to_big_endian_g, to_big_endian_unrepaired. cbv zeta. rewrite tie_byteswap, noswap_prim.
  destruct a as [[s|fs] sh data]; cbn [adt base_order].
  - rewrite tie_nu_is_big_endian. destruct (is_big_endian ml (sord s)); reflexivity.
  - rewrite (scan_g_ext _ (fun o => negb (is_big_endian ml o))) by (intro; rewrite tie_nu_is_big_endian; reflexivity).
    rewrite scan_g_notbig. destruct (scan_notbig ml fs); reflexivity.
Qed.

(* a view instead of the assignment to .dtype (what numpy's deprecation message suggests) returns a
   new object and leaves the caller's array mislabelled *)
Lemma view_instead_of_setdtype_refuted : forall a,
  let o := prim_view (dt_newbyteorder NbSwap true) (prim_byteswap a true) in
  o_same o = false /\ adt (o_inp o) = adt a.
Proof. intro a. split; reflexivity. Qed.

(* the statement, about the regenerated functions themselves *)
Lemma statement_of_source ml f a ip keep :
  valid_dtype (adt a) -> uniform ml (adt a) ->
  let g := match f with
           | ToNative => nu_to_native_g | ToBig => nu_to_big_endian_g
           | ToLittle => nu_to_little_endian_g | Swap => nu_byteswap_g
           end in
  conv_ok ml f a ip keep (g ml a ip keep) (g ml (o_res (g ml a ip keep)) ip keep).
Proof.
  intros V U g. unfold g. rewrite !tie_apply. apply conv_correct; assumption.
Qed.

(* ---- the swap decisions alone (regenerated: the lets of each body up to the `if` that binds the returned array,
        then its test) are the model's [doswap] *)
Lemma tie_swaps_to_native ml a ip k : nu_to_native_swaps_g ml a ip k = doswap ToNative ml (adt a).
Proof.
  unfold nu_to_native_swaps_g, doswap. cbv zeta. destruct a as [[s|fs] sh data]; cbn [adt base_order].
  - rewrite tie_nu_is_little_endian. destruct ml, (is_little_endian _ (sord s)); reflexivity.
  - rewrite (scan_g_ext _ (is_little_endian ml)) by (intro; apply tie_nu_is_little_endian).
    rewrite scan_g_little. destruct ml, (scan_little _ fs); reflexivity.
Qed.
Lemma tie_swaps_to_big_endian ml a ip k : nu_to_big_endian_swaps_g ml a ip k = doswap ToBig ml (adt a).
Proof.
  unfold nu_to_big_endian_swaps_g, doswap. cbv zeta. destruct a as [[s|fs] sh data]; cbn [adt base_order].
  - rewrite tie_nu_is_big_endian. destruct (is_big_endian ml (sord s)); reflexivity.
  - rewrite (scan_g_ext _ (is_little_endian ml)) by (intro; apply tie_nu_is_little_endian).
    rewrite scan_g_little. reflexivity.
Qed.
Lemma tie_swaps_to_little_endian ml a ip k : nu_to_little_endian_swaps_g ml a ip k = doswap ToLittle ml (adt a).
Proof.
  unfold nu_to_little_endian_swaps_g, doswap. cbv zeta. destruct a as [[s|fs] sh data]; cbn [adt base_order].
  - rewrite tie_nu_is_little_endian. destruct (is_little_endian ml (sord s)); reflexivity.
  - rewrite (scan_g_ext _ (is_big_endian ml)) by (intro; apply tie_nu_is_big_endian).
    rewrite scan_g_big. reflexivity.
Qed.
Lemma tie_swaps_to_native_inplace ml a : ru_to_native_inplace_swaps_g ml a = doswap ToNative ml (adt a).
Proof.
  unfold ru_to_native_inplace_swaps_g, doswap. cbv zeta. destruct a as [[s|fs] sh data]; cbn [adt base_order].
  - rewrite tie_ru_is_little_endian. destruct ml, (is_little_endian _ (sord s)); reflexivity.
  - rewrite (scan_g_ext _ (is_little_endian ml)) by (intro; apply tie_ru_is_little_endian).
    rewrite scan_g_little. destruct ml, (scan_little _ fs); reflexivity.
Qed.

(* ---- nested records: the hand model [apply_top] (scan over what the top level shows, byteswap over the leaves)
        is assembled from REGENERATED parts only: the regenerated decision run on a record whose fields carry the
        top-level orders, the regenerated byteswap, and the no-swap branch *)
Definition pseudo_field (o : order) : field :=
  {| fname := EmptyString; fty := {| skind := KInt; ssize := 1; sord := o |}; fsub := [] |}.
Definition pseudo (top : list order) : arr := {| adt := DStruct (map pseudo_field top); ashape := []; adata := [] |}.

Lemma top_of_pseudo top : top_of (map pseudo_field top) = top.
Proof. unfold top_of. rewrite map_map. cbn [pseudo_field fty sord]. apply map_id. Qed.

Definition swaps_g (f : conv) (ml : bool) (a : arr) (ip k : bool) : bool :=
  match f with
  | ToNative => nu_to_native_swaps_g ml a ip k
  | ToBig => nu_to_big_endian_swaps_g ml a ip k
  | ToLittle => nu_to_little_endian_swaps_g ml a ip k
  | Swap => true
  end.

Lemma tie_swaps f ml a ip k : swaps_g f ml a ip k = doswap f ml (adt a).
Proof.
  destruct f; [apply tie_swaps_to_native|apply tie_swaps_to_big_endian|apply tie_swaps_to_little_endian|reflexivity].
Qed.

Lemma tie_apply_top f ml top a ip k :
  apply_top f ml top a ip k
  = if swaps_g f ml (pseudo top) ip k then nu_byteswap_g ml a ip k else (if ip then prim_self a else prim_copy a).
Proof.
  unfold apply_top. rewrite tie_swaps, tie_byteswap, noswap_prim. cbn [pseudo adt].
  rewrite <- doswap_top_flat, top_of_pseudo. reflexivity.
Qed.

Lemma source_tie_decisions :
  (forall f ml a ip k, swaps_g f ml a ip k = doswap f ml (adt a))
  /\ (forall ml a, ru_to_native_inplace_swaps_g ml a = doswap ToNative ml (adt a))
  /\ (forall f ml top a ip k,
        apply_top f ml top a ip k
        = if swaps_g f ml (pseudo top) ip k then nu_byteswap_g ml a ip k else (if ip then prim_self a else prim_copy a)).
Proof. split; [exact tie_swaps|]. split; [exact tie_swaps_to_native_inplace|exact tie_apply_top]. Qed.

(* C16 — proofs of the proof-deepening round. *)
From Coq Require Import ZArith List Bool Lia Arith String Ascii.
From Coq.Strings Require Import Byte.
From EsVerif.Common Require Import Base Bytes.
From EsVerif.C16 Require Import Model Spec ChunkProofs Proofs Ext ExtProofs Deep.
Local Open Scope nat_scope.
Local Open Scope list_scope.

(* ===================================================================== frame: what must NOT change *)
Lemma rec_input_untouched ml a : o_inp (rec_to_native ml a) = a.
Proof. unfold rec_to_native. cbv zeta. destruct (dtype_equiv _ _ _); reflexivity. Qed.

Lemma res_data_length ml f a ip keep : valid_dtype (adt a) ->
  List.length (adata (o_res (apply f ml a ip keep))) = List.length (adata a).
Proof.
  intro V. rewrite apply_doswap. destruct (doswap f ml (adt a)); cbn [byteswap noswap o_res adata]; [|reflexivity].
  apply swap_data_length; auto using valid_geom_ok, valid_rowsize.
Qed.

(* inplace off (all four functions, keep_dtype either way) and recfile's to_native: the argument keeps its
   bytes, dtype and shape, the result is another object sharing nothing -- for ANY array, no premise at all;
   inplace on: only byte-order letters and the order of bytes inside items can change *)
Lemma frame_all :
  (forall ml f a keep, let o := apply f ml a false keep in o_inp o = a /\ o_same o = false /\ o_shares o = false)
  /\ (forall ml a, o_inp (rec_to_native ml a) = a)
  /\ (forall ml f a keep, valid_dtype (adt a) ->
        let r := o_inp (apply f ml a true keep) in
        ashape r = ashape a /\ same_structure (adt r) (adt a) /\ List.length (adata r) = List.length (adata a)).
Proof.
  split; [|split].
  - intros ml f a keep o. destruct (copy_independent_thm ml f a keep) as (H1 & H2 & H3). auto.
  - exact rec_input_untouched.
  - intros ml f a keep V r. unfold r.
    rewrite (proj2 (inplace_same_object_thm ml f a keep)).
    destruct (structure_preserved ml f a true keep) as [S1 S2].
    split; [exact S2|]. split; [exact S1|]. apply res_data_length. exact V.
Qed.

(* ===================================================================== converters reach the requested order
   EXACTLY on the uniformly ordered arrays (the premise of the statement is necessary, not only sufficient) *)
Lemma uniform_of_newbo ml d : uniform ml (newbyteorder ml d) -> uniform ml d.
Proof.
  intros U s1 s2 b1 b2 H1 H2 E1 E2.
  assert (negb b1 = negb b2).
  { apply (U (swap_seg ml s1) (swap_seg ml s2)); rewrite ?layout_newbo; try (apply in_map; assumption);
      cbn [so swap_seg]; rewrite endian_swap; [rewrite E1|rewrite E2]; reflexivity. }
  destruct b1, b2; simpl in *; congruence.
Qed.

Lemma all_order_uniform ml w d : all_order_b ml w d = true -> uniform ml d.
Proof.
  unfold all_order_b. rewrite forallb_forall. intros H s1 s2 b1 b2 H1 H2 E1 E2.
  pose proof (H s1 H1) as N1. pose proof (H s2 H2) as N2.
  rewrite E1 in N1. rewrite E2 in N2. apply Bool.eqb_prop in N1. apply Bool.eqb_prop in N2. congruence.
Qed.

Lemma Forall2_right {A B} (R : A -> B -> Prop) (Q : B -> Prop) l l' :
  Forall2 R l l' -> (forall x y, R x y -> Q y) -> Forall Q l'.
Proof. induction 1 as [|x y l l' Rxy HF IH]; intro HQ; constructor; eauto. Qed.

Lemma reaches_iff_uniform ml f a ip : valid_dtype (adt a) -> f <> Swap ->
  (all_order_b ml (target ml f) (adt (o_res (apply f ml a ip false))) = true <-> uniform ml (adt a)).
Proof.
  intros V Hf. split.
  - intro H. apply all_order_uniform in H. rewrite res_dtype in H.
    destruct (doswap f ml (adt a) && negb false); [apply uniform_of_newbo; exact H|exact H].
  - intro U. pose proof (declares_thm ml f a ip U) as D. unfold declares_requested in D.
    assert (F : Forall (fun o => forall b, endian_of ml o = Some b -> b = target ml f)
                       (orders (adt (o_res (apply f ml a ip false))))).
    { apply (Forall2_right _ _ _ _ D). intros oin oout R b Eb. unfold order_requested in R.
      destruct (endian_of ml oin) as [b0|].
      - rewrite Eb in R. injection R as ->. destruct f; try reflexivity. congruence.
      - subst oout. discriminate. }
    unfold all_order_b. rewrite forallb_forall. intros s Hs.
    rewrite Forall_forall in F. destruct (endian_of ml (so s)) as [b|] eqn:E; [|reflexivity].
    assert (Hin : In (so s) (orders (adt (o_res (apply f ml a ip false))))) by (unfold orders; apply in_map; exact Hs).
    rewrite (F (so s) Hin b E). apply Bool.eqb_reflx.
Qed.

Lemma all_native_is_all_order ml d : all_native ml d = all_order_b ml (negb ml) d.
Proof. reflexivity. Qed.

(* ===================================================================== nested: when does the top level decide as the leaves would *)
Lemma endian_ordered o ml : o <> NA -> exists b, endian_of ml o = Some b.
Proof. destruct o; intro H; try (eexists; reflexivity). congruence. Qed.

Lemma any_little_iff ml d : any_little ml d = true <-> exists s, In s (layout d) /\ endian_of ml (so s) = Some false.
Proof.
  unfold any_little. rewrite existsb_exists. split; intros (s & Hs & H); exists s; split; auto.
  - rewrite is_little_spec in H. destruct (endian_of ml (so s)) as [[|]|]; try discriminate. reflexivity.
  - rewrite is_little_spec, H. reflexivity.
Qed.
Lemma any_big_iff ml d : any_big ml d = true <-> exists s, In s (layout d) /\ endian_of ml (so s) = Some true.
Proof.
  unfold any_big. rewrite existsb_exists. split; intros (s & Hs & H); exists s; split; auto.
  - rewrite is_big_spec in H. destruct (endian_of ml (so s)) as [[|]|]; try discriminate. reflexivity.
  - rewrite is_big_spec, H. reflexivity.
Qed.
Lemma top_little_iff ml top : existsb (is_little_endian ml) top = true <-> exists o, In o top /\ endian_of ml o = Some false.
Proof.
  rewrite existsb_exists. split; intros (o & Ho & H); exists o; split; auto.
  - rewrite is_little_spec in H. destruct (endian_of ml o) as [[|]|]; try discriminate. reflexivity.
  - rewrite is_little_spec, H. reflexivity.
Qed.
Lemma top_big_iff ml top : existsb (is_big_endian ml) top = true <-> exists o, In o top /\ endian_of ml o = Some true.
Proof.
  rewrite existsb_exists. split; intros (o & Ho & H); exists o; split; auto.
  - rewrite is_big_spec in H. destruct (endian_of ml o) as [[|]|]; try discriminate. reflexivity.
  - rewrite is_big_spec, H. reflexivity.
Qed.

Lemma bool_eq_iff (x y : bool) : (x = true <-> y = true) -> x = y.
Proof.
  destruct x, y; intros [H1 H2]; try reflexivity.
  - symmetry. apply H1. reflexivity.
  - apply H2. reflexivity.
Qed.

Lemma faithful_same_exists ml top d (w : bool) : uniform ml d -> faithful ml top d ->
  ((exists o, In o top /\ endian_of ml o = Some w) <-> (exists s, In s (layout d) /\ endian_of ml (so s) = Some w)).
Proof.
  intros U [F1 F2]. split.
  - intros (o & Ho & E). apply (F1 o w Ho E).
  - intros (s & Hs & E). destruct F2 as (o & b & Ho & Eo); [exists s, w; auto|].
    destruct (F1 o b Ho Eo) as (s' & Hs' & Es'). rewrite (U s s' w b Hs Hs' E Es'). exists o. auto.
Qed.

Lemma top_decision ml f top d : uniform ml d -> faithful ml top d ->
  doswap_top f ml top = match f with
                        | ToNative => (ml && negb (any_little ml d)) || (negb ml && any_little ml d)
                        | ToBig => any_little ml d
                        | ToLittle => any_big ml d
                        | Swap => true
                        end.
Proof.
  intros U F.
  assert (EL : existsb (is_little_endian ml) top = any_little ml d).
  { apply bool_eq_iff. rewrite top_little_iff, any_little_iff. apply faithful_same_exists; auto. }
  assert (EB : existsb (is_big_endian ml) top = any_big ml d).
  { apply bool_eq_iff. rewrite top_big_iff, any_big_iff. apply faithful_same_exists; auto. }
  destruct f; unfold doswap_top; rewrite ?EL, ?EB; reflexivity.
Qed.

Lemma top_decision_struct ml f top fs : uniform ml (DStruct fs) -> faithful ml top (DStruct fs) ->
  doswap_top f ml top = doswap f ml (DStruct fs).
Proof.
  intros U F. rewrite (top_decision ml f top _ U F).
  destruct f; unfold doswap; rewrite ?scan_little_any, ?scan_big_any; reflexivity.
Qed.

Lemma faithful_swapped ml top d : faithful ml top d -> faithful ml (map (swap_order ml) top) (newbyteorder ml d).
Proof.
  intros [F1 F2]. split.
  - intros o' b Ho' E. apply in_map_iff in Ho' as (o & <- & Ho). rewrite endian_swap in E.
    destruct (endian_of ml o) as [c|] eqn:Eo; [|discriminate]. simpl in E. injection E as <-.
    destruct (F1 o c Ho Eo) as (s & Hs & Es). exists (swap_seg ml s). split.
    + rewrite layout_newbo. apply in_map. exact Hs.
    + cbn [so swap_seg]. rewrite endian_swap, Es. reflexivity.
  - intros (s' & b & Hs' & E). rewrite layout_newbo in Hs'. apply in_map_iff in Hs' as (s & <- & Hs).
    cbn [so swap_seg] in E. rewrite endian_swap in E. destruct (endian_of ml (so s)) as [c|] eqn:Es; [|discriminate].
    destruct F2 as (o & c' & Ho & Eo); [exists s, c; auto|].
    exists (swap_order ml o), (negb c'). split; [apply in_map; exact Ho|]. rewrite endian_swap, Eo. reflexivity.
Qed.

(* the statement for an array whose scan list represents its leaves: both calls *)
Lemma faithful_statement ml f top fs sh data ip keep :
  let a := {| adt := DStruct fs; ashape := sh; adata := data |} in
  valid_dtype (adt a) -> uniform ml (adt a) -> faithful ml top (adt a) ->
  let o1 := apply_top f ml top a ip keep in
  o1 = apply f ml a ip keep
  /\ apply_top f ml (top_after f ml top keep) (o_res o1) ip keep = apply f ml (o_res o1) ip keep
  /\ conv_ok ml f a ip keep o1 (apply_top f ml (top_after f ml top keep) (o_res o1) ip keep).
Proof.
  intros a V U F o1.
  assert (E1 : o1 = apply f ml a ip keep).
  { unfold o1, apply_top. rewrite apply_doswap. cbn [adt a]. rewrite (top_decision_struct ml f top fs U F). reflexivity. }
  assert (E2 : apply_top f ml (top_after f ml top keep) (o_res o1) ip keep = apply f ml (o_res o1) ip keep).
  { rewrite E1. unfold apply_top. rewrite (apply_doswap f ml (o_res _)).
    pose proof (res_dtype ml f a ip keep) as RD. pose proof (res_uniform ml f a ip keep U) as RU.
    unfold top_after. cbn [adt a] in RD. rewrite (top_decision_struct ml f top fs U F).
    destruct (doswap f ml (DStruct fs) && negb keep) eqn:Esw.
    - rewrite RD in RU |- *. change (newbyteorder ml (DStruct fs)) with (DStruct (map (fun f0 => {| fname := fname f0; fty := newbo_scalar ml (fty f0); fsub := fsub f0 |}) fs)) in *.
      rewrite (top_decision_struct ml f _ _ RU); [reflexivity|].
      apply (faithful_swapped ml top (DStruct fs) F).
    - rewrite RD in RU |- *. rewrite (top_decision_struct ml f top fs RU F). reflexivity. }
  split; [exact E1|]. split; [exact E2|]. rewrite E2, E1. apply conv_correct; assumption.
Qed.

(* ---- one level of nesting *)
Lemma in_repeat_app {A} (x : A) l n : In x (repeat_app l n) -> In x l.
Proof. induction n as [|k IH]; simpl; [tauto|]. rewrite in_app_iff. tauto. Qed.

Lemma leaf_in_flatten t f : In (TLeaf f) t -> In f (flatten1 t).
Proof. intro H. unfold flatten1. apply in_flat_map. exists (TLeaf f). split; [exact H|left; reflexivity]. Qed.

Lemma order_eqb_NA o : order_eqb o NA = true <-> o = NA.
Proof. apply order_eqb_eq. Qed.

Lemma nested_ok_faithful ml t : nested_ok t = true -> faithful ml (top1 t) (DStruct (flatten1 t)).
Proof.
  intro OK. split.
  - intros o b Ho E. unfold top1 in Ho. apply in_map_iff in Ho as (x & <- & Hx). destruct x as [f|n fs reps]; [|discriminate].
    exists (seg_of (fty f) (prod (fsub f))). split; [|exact E].
    cbn [layout]. apply (in_map (fun f0 => seg_of (fty f0) (prod (fsub f0)))). apply leaf_in_flatten. exact Hx.
  - intros (s & b & Hs & E). unfold nested_ok in OK. apply orb_true_iff in OK as [OK|OK].
    + unfold has_plain_ordered in OK. apply existsb_exists in OK as (x & Hx & Px). destruct x as [f|n fs reps]; [|discriminate].
      unfold ordered_b in Px. apply negb_true_iff in Px.
      destruct (endian_ordered (sord (fty f)) ml) as (c & Ec).
      { intro N. rewrite N in Px. discriminate. }
      exists (sord (fty f)), c. split; [|exact Ec]. unfold top1.
      exact (in_map (fun x => match x with TLeaf f0 => sord (fty f0) | TNest _ _ _ => NA end) t (TLeaf f) Hx).
    + exfalso. unfold no_ordered_leaf in OK. rewrite forallb_forall in OK. cbn [layout] in Hs.
      apply in_map_iff in Hs as (f & <- & Hf). apply OK in Hf. apply order_eqb_NA in Hf.
      cbn [so seg_of] in E. rewrite Hf in E. discriminate.
Qed.

(* THE STATEMENT FOR NESTED RECORDS: leaves share one order, and some plain top-level field has a byte order
   (or no leaf has one): the real scan (top level only) takes the decision the leaves need, at both calls *)
Lemma nested_statement ml f t sh data ip keep :
  let a := {| adt := DStruct (flatten1 t); ashape := sh; adata := data |} in
  valid_dtype (adt a) -> uniform ml (adt a) -> nested_ok t = true ->
  let o1 := apply_top f ml (top1 t) a ip keep in
  conv_ok ml f a ip keep o1 (apply_top f ml (top_after f ml (top1 t) keep) (o_res o1) ip keep).
Proof.
  intros a V U OK o1.
  exact (proj2 (proj2 (faithful_statement ml f (top1 t) (flatten1 t) sh data ip keep V U (nested_ok_faithful ml t OK)))).
Qed.

Definition nest_example : list tfield :=
  [ TNest "pos" [ {| fname := "x"; fty := {| skind := KFloat; ssize := 4; sord := BE |}; fsub := [] |};
                  {| fname := "tag"; fty := {| skind := KBytes; ssize := 1; sord := NA |}; fsub := [] |} ] 2;
    TLeaf {| fname := "id"; fty := {| skind := KInt; ssize := 2; sord := BE |}; fsub := [] |} ].
Lemma nest_example_facts :
  nested_ok nest_example = true
  /\ top1 nest_example = [NA; BE]
  /\ map fname (flatten1 nest_example) = ["pos.x"; "pos.tag"; "pos.x"; "pos.tag"; "id"]%string
  /\ valid_dtype (DStruct (flatten1 nest_example)) /\ uniform true (DStruct (flatten1 nest_example))
  /\ adata (o_res (apply_top ToNative true (top1 nest_example)
                     {| adt := DStruct (flatten1 nest_example); ashape := []; adata := unhex "3f800000614000000062000a" |}
                     false false)) = unhex "0000803f6100000040620a00".
Proof.
  split; [reflexivity|]. split; [reflexivity|]. split; [reflexivity|].
  split; [apply valid_dtype_b_sound; vm_compute; reflexivity|].
  split; [apply uniform_b_sound; vm_compute; reflexivity|vm_compute; reflexivity].
Qed.

(* ===================================================================== history: the heap model *)
Lemma nth_error_set_nth_eq {A} (l : list A) k v a : nth_error l k = Some a -> nth_error (set_nth l k v) k = Some v.
Proof. revert k. induction l as [|x t IH]; intros [|k] H; simpl in *; try discriminate; auto. Qed.
Lemma nth_error_set_nth_neq {A} (l : list A) k j v : k <> j -> nth_error (set_nth l k v) j = nth_error l j.
Proof. revert k j. induction l as [|x t IH]; intros [|k] [|j] H; simpl; auto; congruence. Qed.
Lemma set_nth_same {A} (l : list A) k a : nth_error l k = Some a -> set_nth l k a = l.
Proof. revert k. induction l as [|x t IH]; intros [|k] H; simpl in *; try discriminate; [congruence|f_equal; auto]. Qed.

(* other objects are untouched *)
Lemma step_frame ml h c j : j <> obj_of c -> nth_error (fst (step ml h c)) j = nth_error h j.
Proof.
  intro H. unfold step. destruct (nth_error h (obj_of c)); cbn [fst]; [|reflexivity].
  apply nth_error_set_nth_neq. auto.
Qed.

(* the answer, and the new state of the object, are functions of the object's own state: whatever else
   the process holds, whatever happened before *)
Lemma step_local ml h h' c : nth_error h (obj_of c) = nth_error h' (obj_of c) ->
  snd (step ml h c) = snd (step ml h' c)
  /\ nth_error (fst (step ml h c)) (obj_of c) = nth_error (fst (step ml h' c)) (obj_of c).
Proof.
  intro E. unfold step. rewrite <- E. destruct (nth_error h (obj_of c)) as [a|] eqn:Ea; cbn [fst snd].
  - split; [reflexivity|]. rewrite (nth_error_set_nth_eq h _ _ a Ea). symmetry. apply (nth_error_set_nth_eq h' _ _ a). congruence.
  - split; [reflexivity|]. congruence.
Qed.

(* the model has no hidden state: a step is [act] on the one object *)
Lemma step_is_act ml h c a : nth_error h (obj_of c) = Some a ->
  snd (step ml h c) = snd (act ml c a) /\ nth_error (fst (step ml h c)) (obj_of c) = Some (fst (act ml c a)).
Proof.
  intro E. unfold step. rewrite E. cbn [fst snd]. split; [reflexivity|]. apply (nth_error_set_nth_eq h _ _ a E).
Qed.

(* calls with inplace off and recfile's to_native leave the whole heap as it was *)
Lemma step_pure ml h c :
  match c with CConv _ _ false _ => True | CRecNative _ => True | _ => False end -> fst (step ml h c) = h.
Proof.
  intro P. unfold step. destruct (nth_error h (obj_of c)) as [a|] eqn:E; [|reflexivity]. cbn [fst].
  destruct c as [f k [|] keep|k|k|k d]; try contradiction; cbn [act fst]; apply set_nth_same; exact E.
Qed.

(* two calls on different objects (the twin-layout sequences): each answers as if the other had not happened *)
Lemma step_commute ml h c1 c2 : obj_of c1 <> obj_of c2 ->
  snd (step ml (fst (step ml h c1)) c2) = snd (step ml h c2)
  /\ snd (step ml (fst (step ml h c2)) c1) = snd (step ml h c1).
Proof.
  intro N. split; apply step_local; apply step_frame; auto.
Qed.

Lemma run_cons ml h c cs : run ml h (c :: cs) = snd (step ml h c) :: run ml (fst (step ml h c)) cs.
Proof. reflexivity. Qed.

Lemma answer_eqb_sound x y : answer_eqb x y = true -> x = y.
Proof.
  destruct x, y; simpl; intro H; try discriminate; try reflexivity.
  - apply andb_true_iff in H as [H1 H2]. unfold outcome_eqb in H1, H2. rewrite !andb_true_iff in H1, H2.
    destruct H1 as (((A1 & A2) & A3) & A4). destruct H2 as (((B1 & B2) & B3) & B4).
    apply arr_eqb_eq in A1, A4, B1, B4. apply Bool.eqb_prop in A2, A3, B2, B3.
    destruct o1, o2, o0, o3; simpl in *; subst; reflexivity.
  - apply andb_true_iff in H as [H1 H2]. apply arr_eqb_eq in H1, H2. subst. reflexivity.
Qed.

Definition heap_example : heap :=
  [ {| adt := DPlain {| skind := KInt; ssize := 2; sord := BE |}; ashape := [1]; adata := unhex "0001" |};
    {| adt := DPlain {| skind := KFloat; ssize := 2; sord := BE |}; ashape := [1]; adata := unhex "3c00" |} ].
Lemma heap_example_facts :
  map (fun a => match a with AConv o _ => adata (o_res o) | _ => [] end)
      (run true heap_example [CConv ToNative 0 true false; CConv ToNative 1 false false; CConv ToBig 0 true false])
  = [unhex "0100"; unhex "003c"; unhex "0001"].
Proof. vm_compute. reflexivity. Qed.

(* ===================================================================== the checkers accept EXACTLY the property *)
Lemma order_requested_b_complete ml f oin oout :
  order_requested ml f oin oout -> order_requested_b ml f oin oout = true.
Proof.
  unfold order_requested_b, order_requested. destruct (endian_of ml oin) as [b|].
  - intro H. rewrite H. apply Bool.eqb_reflx.
  - intro H. apply order_eqb_eq. exact H.
Qed.

Lemma forall2b_complete {A B} (p : A -> B -> bool) (P : A -> B -> Prop) :
  (forall x y, P x y -> p x y = true) -> forall l l', Forall2 P l l' -> forall2b p l l' = true.
Proof.
  intros H l l'. induction 1 as [|x y t t' Hxy _ IH]; simpl; [reflexivity|]. rewrite (H x y Hxy), IH. reflexivity.
Qed.

Lemma conv_check_complete ml f a ip keep o1 o2 :
  conv_ok ml f a ip keep o1 o2 -> conv_check ml f a ip keep o1 o2 = true.
Proof.
  intros [[S1 S2] C D K Cp Ip Id Tw]. unfold conv_check. rewrite !andb_true_iff. repeat split.
  - apply dtype_eqb_eq. exact S1.
  - apply natlist_eqb_eq. exact S2.
  - apply values_eqb_eq. exact C.
  - destruct keep.
    + apply dtype_eqb_eq. apply K. reflexivity.
    + destruct (D eq_refl) as [D1 D2]. apply andb_true_iff. split.
      * exact (forall2b_complete _ _ (order_requested_b_complete ml f) _ _ D1).
      * apply values_eqb_eq. exact D2.
  - destruct ip.
    + destruct (Ip eq_refl) as [A B]. rewrite A. simpl. apply arr_eqb_eq. exact B.
    + destruct (Cp eq_refl) as (A & B & C'). rewrite A, B. simpl. apply arr_eqb_eq. exact C'.
  - destruct keep; simpl; [reflexivity|]. destruct f; simpl; try reflexivity;
      apply arr_eqb_eq; apply Id; try reflexivity; discriminate.
  - destruct f; simpl; try reflexivity. apply bytes_eqb_eq. apply Tw. reflexivity.
Qed.

Lemma predicates_check_complete ml o big little :
  predicates_ok ml o big little -> predicates_check ml o big little = true.
Proof.
  unfold predicates_ok, predicates_check. intros [[B1 B2] [L1 L2]].
  destruct (endian_of ml o) as [[|]|], big, little; simpl; try reflexivity; exfalso;
    try (assert (X : Some true = Some true) by reflexivity);
    try (assert (Y : Some false = Some false) by reflexivity);
    repeat match goal with
           | H : true = true -> _ |- _ => specialize (H eq_refl)
           | H : Some ?x = Some ?x -> _ |- _ => specialize (H eq_refl)
           end; congruence.
Qed.

Lemma checkers_exact :
  (forall ml f a ip keep o1 o2, conv_check ml f a ip keep o1 o2 = true <-> conv_ok ml f a ip keep o1 o2)
  /\ (forall ml o big little, predicates_check ml o big little = true <-> predicates_ok ml o big little).
Proof.
  split; intros; split;
    [apply conv_check_sound|apply conv_check_complete|apply predicates_check_sound|apply predicates_check_complete].
Qed.

Lemma history_independent :
  (forall ml h h' c, nth_error h (obj_of c) = nth_error h' (obj_of c) ->
     snd (step ml h c) = snd (step ml h' c)
     /\ nth_error (fst (step ml h c)) (obj_of c) = nth_error (fst (step ml h' c)) (obj_of c))
  /\ (forall ml h c a, nth_error h (obj_of c) = Some a ->
     snd (step ml h c) = snd (act ml c a) /\ nth_error (fst (step ml h c)) (obj_of c) = Some (fst (act ml c a)))
  /\ (forall ml h c j, j <> obj_of c -> nth_error (fst (step ml h c)) j = nth_error h j)
  /\ (forall ml h c, match c with CConv _ _ false _ => True | CRecNative _ => True | _ => False end ->
     fst (step ml h c) = h)
  /\ (forall ml h c1 c2, obj_of c1 <> obj_of c2 ->
     snd (step ml (fst (step ml h c1)) c2) = snd (step ml h c2)
     /\ snd (step ml (fst (step ml h c2)) c1) = snd (step ml h c1)).
Proof.
  split; [exact step_local|]. split; [exact step_is_act|]. split; [exact step_frame|].
  split; [exact step_pure|exact step_commute].
Qed.

(* ===================================================================== the GUARDS are exact: the check is demanded on
   every input of the quantifier (a guard that were only sound could silently skip the property check) *)
Lemma seg_valid_b_complete s : seg_valid s -> seg_valid_b s = true.
Proof.
  unfold seg_valid_b, seg_valid. intros (H1 & H2 & H3). rewrite !andb_true_iff, !Nat.leb_le.
  split; [split; assumption|].
  destruct (order_eqb (so s) NA) eqn:E1, (sc s =? 1) eqn:E2; try reflexivity; exfalso.
  - apply order_eqb_eq in E1. apply H3 in E1. apply Nat.eqb_neq in E2. contradiction.
  - apply Nat.eqb_eq in E2. apply H3 in E2. apply order_eqb_eq in E2. congruence.
Qed.

Lemma valid_dtype_b_complete d : valid_dtype d -> valid_dtype_b d = true.
Proof.
  unfold valid_dtype_b, valid_dtype. intros [Hne HF]. destruct (layout d) as [|s t] eqn:E; [congruence|].
  rewrite forallb_forall. rewrite Forall_forall in HF. intros x Hx. apply seg_valid_b_complete, HF, Hx.
Qed.

Lemma in_bigs ml d b : In b (bigs ml d) <-> exists s, In s (layout d) /\ endian_of ml (so s) = Some b.
Proof.
  unfold bigs. rewrite in_flat_map. split; intros (s & Hs & H); exists s; split; auto.
  - destruct (endian_of ml (so s)) as [c|]; [|destruct H]. destruct H as [<-|[]]. reflexivity.
  - rewrite H. left. reflexivity.
Qed.

Lemma uniform_b_complete ml d : uniform ml d -> uniform_b ml d = true.
Proof.
  intro U. unfold uniform_b. destruct (bigs ml d) as [|b t] eqn:E; [reflexivity|].
  rewrite forallb_forall. intros x Hx.
  assert (Ib : In b (bigs ml d)) by (rewrite E; left; reflexivity).
  assert (Ix : In x (bigs ml d)) by (rewrite E; right; exact Hx).
  apply in_bigs in Ib as (s1 & H1 & E1). apply in_bigs in Ix as (s2 & H2 & E2).
  rewrite (U s1 s2 b x H1 H2 E1 E2). apply Bool.eqb_reflx.
Qed.

Lemma stripped_check_complete din dparsed : stripped_ok din dparsed -> stripped_check din dparsed = true.
Proof.
  unfold stripped_check, stripped_ok. intros [H1 H2]. rewrite andb_true_iff. split.
  - apply dtype_eqb_eq. exact H1.
  - unfold native_only in H2. rewrite Forall_forall in H2. rewrite forallb_forall. intros o Ho.
    destruct (H2 o Ho) as [->| ->]; reflexivity.
Qed.

Lemma rec_native_check_core_complete ml a o :
  arr_values ml (o_res o) = arr_values ml a -> all_native ml (adt (o_res o)) = true ->
  same_structure (adt (o_res o)) (adt a) -> ashape (o_res o) = ashape a -> o_inp o = a ->
  rec_native_check_core ml a o = true.
Proof.
  intros H1 H2 H3 H4 H5. unfold rec_native_check_core. rewrite !andb_true_iff. repeat split.
  - apply values_eqb_eq. exact H1.
  - exact H2.
  - apply dtype_eqb_eq. exact H3.
  - apply natlist_eqb_eq. exact H4.
  - apply arr_eqb_eq. exact H5.
Qed.

Lemma view_check_complete d base idx ip o1 base1 :
  (ip = true -> gather [] idx base1 = rows_of d (adata (o_res o1))) -> (ip = false -> base1 = base) ->
  view_check d base idx ip o1 base1 = true.
Proof.
  intros H1 H2. unfold view_check. destruct ip; apply (list_eqb_spec bytes_eqb bytes_eqb_eq); auto.
Qed.

Lemma guards_exact :
  (forall d, valid_dtype_b d = true <-> valid_dtype d)
  /\ (forall ml d, uniform_b ml d = true <-> uniform ml d)
  /\ (forall din dparsed, stripped_check din dparsed = true <-> stripped_ok din dparsed)
  /\ (forall ml a o, rec_native_check_core ml a o = true <->
        arr_values ml (o_res o) = arr_values ml a /\ all_native ml (adt (o_res o)) = true
        /\ (same_structure (adt (o_res o)) (adt a) /\ ashape (o_res o) = ashape a) /\ o_inp o = a)
  /\ (forall d base idx ip o1 base1, view_check d base idx ip o1 base1 = true <->
        (ip = true -> gather [] idx base1 = rows_of d (adata (o_res o1))) /\ (ip = false -> base1 = base)).
Proof.
  split; [intro d; split; [apply valid_dtype_b_sound|apply valid_dtype_b_complete]|].
  split; [intros ml d; split; [apply uniform_b_sound|apply uniform_b_complete]|].
  split; [intros a b; split; [apply stripped_check_sound|apply stripped_check_complete]|].
  split.
  - intros ml a o. split; [apply rec_native_check_core_sound|].
    intros (H1 & H2 & (H3 & H4) & H5). apply rec_native_check_core_complete; assumption.
  - intros d base idx ip o1 base1. split; [apply view_check_sound|].
    intros [H1 H2]. apply view_check_complete; assumption.
Qed.

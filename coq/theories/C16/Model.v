(* C16 — executable byte-level model of the byte-order helpers of esutil/numpy_util.py
   (is_big_endian, is_little_endian, to_native, to_big_endian, to_little_endian, byteswap,
   descr_to_native) and esutil/recfile/Util.py (remove_dtype_byteorder, to_native_inplace).
   No proofs here.

   An array is numpy's own memory image: a dtype, a shape and the flat list of bytes of the
   C-contiguous buffer.  [ml] is numpy.little_endian (the machine), kept as a parameter; the
   four spellings '<' '>' '|' '=' of dtype.byteorder are kept distinct. *)
From Coq Require Import ZArith List Bool String Ascii DecimalString.
From Coq.Strings Require Import Byte.
From EsVerif.Common Require Import Base Bytes.
Local Open Scope nat_scope.
Local Open Scope list_scope.
Notation length := List.length.

(* ---- dtypes *)
Inductive order := LE | BE | NA | NAT.          (* '<'  '>'  '|'  '=' *)
Inductive kind := KInt | KUInt | KFloat | KComplex | KBool | KBytes | KUnicode.   (* i u f c b S U *)

Record scalar := { skind : kind; ssize : nat; sord : order }.                (* itemsize in bytes *)
Record field := { fname : string; fty : scalar; fsub : list nat }.           (* sub-array shape, [] = scalar field *)
Inductive dtype := DPlain (s : scalar) | DStruct (fs : list field).          (* packed structured dtype *)
Record arr := { adt : dtype; ashape : list nat; adata : list byte }.

Definition order_eqb (a b : order) : bool :=
  match a, b with LE, LE | BE, BE | NA, NA | NAT, NAT => true | _, _ => false end.

(* size of the unit that ndarray.byteswap reverses: the whole item; each half of a complex;
   each UCS4 code point of a unicode string; a single byte of a byte string (= untouched) *)
Definition csize (s : scalar) : nat :=
  match skind s with
  | KComplex => Nat.div2 (ssize s)
  | KBytes => 1
  | KUnicode => 4
  | _ => ssize s
  end.

Definition prod (l : list nat) : nat := fold_right Nat.mul 1 l.

(* one contiguous region of a row: [slen] bytes made of units of [sc] bytes, declared order [so] *)
Record seg := { slen : nat; sc : nat; so : order }.
Definition seg_of (s : scalar) (n : nat) : seg := {| slen := ssize s * n; sc := csize s; so := sord s |}.
Definition layout (d : dtype) : list seg :=
  match d with
  | DPlain s => [seg_of s 1]
  | DStruct fs => map (fun f => seg_of (fty f) (prod (fsub f))) fs
  end.
Definition geom (ly : list seg) : list (nat * nat) := map (fun s => (slen s, sc s)) ly.
Definition rowsize (g : list (nat * nat)) : nat := fold_right (fun p acc => fst p + acc) 0 g.

(* ---- ndarray.byteswap on the buffer *)
(* consecutive chunks of n bytes (the last one possibly shorter); fuel = number of bytes *)
Fixpoint chunks_f (fuel n : nat) (l : list byte) : list (list byte) :=
  match fuel with
  | O => []
  | S k => match l with
           | [] => []
           | _ => firstn n l :: chunks_f k n (skipn n l)
           end
  end.
Definition chunks (n : nat) (l : list byte) : list (list byte) := chunks_f (length l) n l.
Definition map_chunks (n : nat) (g : list byte -> list byte) (l : list byte) : list byte :=
  concat (map g (chunks n l)).

Fixpoint swap_row (g : list (nat * nat)) (row : list byte) : list byte :=
  match g with
  | [] => row
  | (len, c) :: t => map_chunks c (@rev byte) (firstn len row) ++ swap_row t (skipn len row)
  end.
Definition swap_data (g : list (nat * nat)) (data : list byte) : list byte :=
  map_chunks (rowsize g) (swap_row g) data.

(* ---- dtype.newbyteorder() (default 'S' = swap): PyArray_DescrNewByteorder
        '|' stays; native ('=' or the machine's own letter) -> the opposite letter;
        the opposite letter -> the machine's own letter; never yields '=' *)
Definition swap_order (ml : bool) (o : order) : order :=
  match o with
  | NA => NA
  | LE => BE
  | BE => LE
  | NAT => if ml then BE else LE
  end.
Definition newbo_scalar ml (s : scalar) : scalar :=
  {| skind := skind s; ssize := ssize s; sord := swap_order ml (sord s) |}.
Definition newbyteorder ml (d : dtype) : dtype :=
  match d with
  | DPlain s => DPlain (newbo_scalar ml s)
  | DStruct fs => DStruct (map (fun f => {| fname := fname f; fty := newbo_scalar ml (fty f); fsub := fsub f |}) fs)
  end.

(* ---- is_big_endian / is_little_endian: on array.dtype.base.byteorder *)
Definition is_big_endian (ml : bool) (o : order) : bool :=
  order_eqb o BE || (negb ml && order_eqb o NAT).
Definition is_little_endian (ml : bool) (o : order) : bool :=
  order_eqb o LE || (ml && order_eqb o NAT).
(* dtype.base.byteorder of a whole array: a structured (void) dtype reports '|' *)
Definition base_order (d : dtype) : order :=
  match d with DPlain s => sord s | DStruct _ => NA end.

(* ---- result of a call, with the aliasing facts the statement talks about *)
Record outcome := {
  o_res : arr;        (* the returned array *)
  o_same : bool;      (* "result is array" *)
  o_shares : bool;    (* result and argument share memory *)
  o_inp : arr         (* the caller's array (dtype, shape, buffer) after the call *)
}.

(* byteswap: outdata = array.byteswap(inplace); if not keep_dtype: outdata.dtype = newbyteorder() *)
Definition byteswap (ml : bool) (a : arr) (inplace keep : bool) : outcome :=
  let r := {| adt := if keep then adt a else newbyteorder ml (adt a);
              ashape := ashape a;
              adata := swap_data (geom (layout (adt a))) (adata a) |} in
  {| o_res := r; o_same := inplace; o_shares := inplace; o_inp := if inplace then r else a |}.

(* else-branch shared by the three converters: array itself, or array.copy() *)
Definition noswap (a : arr) (inplace : bool) : outcome :=
  {| o_res := a; o_same := inplace; o_shares := inplace; o_inp := a |}.

(* the loops "for fname in names: if <pred>(array[fname]): flag = True; break" *)
Fixpoint scan_little ml (fs : list field) : bool :=
  match fs with
  | [] => false
  | f :: t => if is_little_endian ml (sord (fty f)) then true else scan_little ml t
  end.
Fixpoint scan_big ml (fs : list field) : bool :=
  match fs with
  | [] => false
  | f :: t => if is_big_endian ml (sord (fty f)) then true else scan_big ml t
  end.

Definition to_native (ml : bool) (a : arr) (inplace keep : bool) : outcome :=
  let data_little := match adt a with
                     | DPlain s => is_little_endian ml (sord s)
                     | DStruct fs => scan_little ml fs
                     end in
  let doswap := (ml && negb data_little) || (negb ml && data_little) in
  if doswap then byteswap ml a inplace keep else noswap a inplace.

(* to_big_endian / to_little_endian AFTER the repair (fixes/C16): in a structured array the
   swap is decided by finding a field of the opposite order, so that fields without a byte
   order ('|': strings, single bytes) are not decisive.  The unrepaired loops were
   "if not is_big_endian(array[fname])" / "if not is_little_endian(array[fname])" — see
   [scan_notbig]/[scan_notlittle] and Properties.C16_unrepaired_scan_refuted. *)
Definition to_big_endian (ml : bool) (a : arr) (inplace keep : bool) : outcome :=
  let doswap := match adt a with
                | DPlain s => negb (is_big_endian ml (sord s))
                | DStruct fs => scan_little ml fs
                end in
  if doswap then byteswap ml a inplace keep else noswap a inplace.

Definition to_little_endian (ml : bool) (a : arr) (inplace keep : bool) : outcome :=
  let doswap := match adt a with
                | DPlain s => negb (is_little_endian ml (sord s))
                | DStruct fs => scan_big ml fs
                end in
  if doswap then byteswap ml a inplace keep else noswap a inplace.

(* the loops of the unrepaired tree, kept to state what was wrong with them *)
Fixpoint scan_notbig ml (fs : list field) : bool :=
  match fs with
  | [] => false
  | f :: t => if negb (is_big_endian ml (sord (fty f))) then true else scan_notbig ml t
  end.
Fixpoint scan_notlittle ml (fs : list field) : bool :=
  match fs with
  | [] => false
  | f :: t => if negb (is_little_endian ml (sord (fty f))) then true else scan_notlittle ml t
  end.
Definition to_big_endian_unrepaired (ml : bool) (a : arr) (inplace keep : bool) : outcome :=
  let doswap := match adt a with
                | DPlain s => negb (is_big_endian ml (sord s))
                | DStruct fs => scan_notbig ml fs
                end in
  if doswap then byteswap ml a inplace keep else noswap a inplace.
Definition to_little_endian_unrepaired (ml : bool) (a : arr) (inplace keep : bool) : outcome :=
  let doswap := match adt a with
                | DPlain s => negb (is_little_endian ml (sord s))
                | DStruct fs => scan_notlittle ml fs
                end in
  if doswap then byteswap ml a inplace keep else noswap a inplace.

Inductive conv := ToNative | ToBig | ToLittle | Swap.
Definition apply (f : conv) (ml : bool) (a : arr) (inplace keep : bool) : outcome :=
  match f with
  | ToNative => to_native ml a inplace keep
  | ToBig => to_big_endian ml a inplace keep
  | ToLittle => to_little_endian ml a inplace keep
  | Swap => byteswap ml a inplace keep
  end.

(* recfile/Util.to_native_inplace(array): same decision as to_native, swap in the caller's
   buffer and relabel; returns None *)
Definition to_native_inplace (ml : bool) (a : arr) : arr := o_inp (to_native ml a true false).

(* ---- dtype.descr and the descriptor byte-order stripping
        (numpy_util.descr_to_native, recfile/Util.remove_dtype_byteorder) *)
Definition order_char (ml : bool) (o : order) : ascii :=
  match o with
  | LE => "<" | BE => ">" | NA => "|"
  | NAT => if ml then "<" else ">"          (* .descr never shows '=' *)
  end%char.
Definition kind_char (k : kind) : ascii :=
  match k with
  | KInt => "i" | KUInt => "u" | KFloat => "f" | KComplex => "c" | KBool => "b" | KBytes => "S" | KUnicode => "U"
  end%char.
Definition size_digits (s : scalar) : string :=
  NilEmpty.string_of_uint (Nat.to_uint (match skind s with KUnicode => Nat.div (ssize s) 4 | _ => ssize s end)).
Definition body (s : scalar) : string := String (kind_char (skind s)) (size_digits s).
Definition typestr (ml : bool) (s : scalar) : string := String (order_char ml (sord s)) (body s).

Definition descr := list (string * string * list nat).          (* (name, typestr, sub-array shape) *)
Definition descr_of (ml : bool) (fs : list field) : descr :=
  map (fun f => (fname f, typestr ml (fty f), fsub f)) fs.
Definition drop1 (s : string) : string := match s with EmptyString => EmptyString | String _ r => r end.  (* s[1:] *)
Definition descr_to_native (d : descr) : descr :=
  map (fun e => match e with (n, t, sh) => (n, drop1 t, sh) end) d.

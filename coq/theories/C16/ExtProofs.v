(* C16 — proofs about the model extension Ext.v: recfile.Util.to_native on arrays whose fields
   have DIFFERENT byte orders, conversions through non-contiguous views, nested dtypes. *)
From Coq Require Import ZArith List Bool Lia Arith String Ascii.
From Coq.Strings Require Import Byte.
From EsVerif.Common Require Import Base Bytes.
From EsVerif.C16 Require Import Model Spec ChunkProofs Proofs Ext.
Local Open Scope nat_scope.
Local Open Scope list_scope.

(* ------------------------------------------------------------------------- relabelled dtypes *)
Definition reseg (h : order -> order) (s : seg) : seg := {| slen := slen s; sc := sc s; so := h (so s) |}.

Lemma layout_map_orders h d : layout (map_orders h d) = map (reseg h) (layout d).
Proof.
  destruct d as [s|fs]; simpl; [reflexivity|]. rewrite !map_map. apply map_ext. intro f. reflexivity.
Qed.
Lemma orders_map_orders h d : orders (map_orders h d) = map h (orders d).
Proof. unfold orders. rewrite layout_map_orders, !map_map. reflexivity. Qed.
Lemma erase_map_orders h d : erase (map_orders h d) = erase d.
Proof.
  destruct d as [s|fs]; simpl; [reflexivity|]. f_equal. rewrite map_map. apply map_ext. intro f. reflexivity.
Qed.
Lemma geom_map_orders h d : geom (layout (map_orders h d)) = geom (layout d).
Proof. rewrite layout_map_orders. unfold geom. rewrite map_map. reflexivity. Qed.

Lemma valid_map_orders h d : (forall o, h o = NA <-> o = NA) -> valid_dtype d -> valid_dtype (map_orders h d).
Proof.
  intros Hh [Hne HF]. split.
  - rewrite layout_map_orders. destruct (layout d); [congruence|discriminate].
  - rewrite layout_map_orders. apply Forall_forall. intros s' Hs'. apply in_map_iff in Hs' as (s & <- & Hs).
    rewrite Forall_forall in HF. destruct (HF s Hs) as (H1 & H2 & H3). repeat split; simpl; auto.
    + intro E. apply H3. apply Hh. exact E.
    + intro E. apply Hh. apply H3. exact E.
Qed.

Lemma newbo_native_NA ml o : newbo_order NbNative ml o = NA <-> o = NA.
Proof. destruct o; simpl; split; congruence. Qed.

(* ------------------------------------------------------------------------- astype: field-wise conversion *)
Lemma cast_geom_ok ml ly : Forall seg_valid ly -> forall ly', geom_ok (cast_geom ml ly ly').
Proof.
  induction 1 as [|s t (H1 & H2 & H3) Ht IH]; intros [|s' t']; unfold cast_geom; simpl; try constructor.
  - simpl. destruct (order_equiv ml (so s) (so s')); lia.
  - apply IH.
Qed.

Definition same_geom (s s' : seg) : Prop := slen s' = slen s /\ sc s' = sc s.

Lemma rowsize_cast ml ly ly' : Forall2 same_geom ly ly' -> rowsize (cast_geom ml ly ly') = rowsize (geom ly).
Proof.
  induction 1 as [|s s' t t' _ _ IH]; [reflexivity|]. unfold cast_geom in *. simpl. rewrite IH. reflexivity.
Qed.
Lemma rowsize_same_geom ly ly' : Forall2 same_geom ly ly' -> rowsize (geom ly') = rowsize (geom ly).
Proof. induction 1 as [|s s' t t' (E & _) _ IH]; simpl; [reflexivity|]. rewrite E, IH. reflexivity. Qed.

Lemma equiv_same_big ml s s' : order_equiv ml (so s) (so s') = true -> seg_big ml s' = seg_big ml s.
Proof.
  unfold order_equiv, seg_big. destruct (endian_of ml (so s)) as [b|], (endian_of ml (so s')) as [b'|]; try discriminate.
  - intro E. apply Bool.eqb_prop in E. subst. reflexivity.
  - reflexivity.
Qed.
Lemma nonequiv_flipped ml s s' : seg_valid s -> seg_valid s' -> sc s' = sc s ->
  order_equiv ml (so s) (so s') = false -> sc s = 1 \/ seg_big ml s' = negb (seg_big ml s).
Proof.
  intros (_ & _ & V) (_ & _ & V') Ec. unfold order_equiv, seg_big.
  destruct (endian_of ml (so s)) as [b|] eqn:E, (endian_of ml (so s')) as [b'|] eqn:E'; intro H; try discriminate.
  - right. destruct b, b'; try discriminate; reflexivity.
  - left. apply endian_none in E'. rewrite <- Ec. apply V'. exact E'.
  - left. apply endian_none in E. apply V. exact E.
Qed.

Lemma row_values_cast ml ly ly' :
  Forall2 same_geom ly ly' -> Forall seg_valid ly -> Forall seg_valid ly' ->
  forall row, row_values ml ly' (swap_row (cast_geom ml ly ly') row) = row_values ml ly row.
Proof.
  induction 1 as [|s s' t t' (E1 & E2) HR IH]; intros Hv Hv' row; [reflexivity|].
  inversion Hv as [|? ? Vs Vt]; subst. inversion Hv' as [|? ? Vs' Vt']; subst.
  assert (Hc : 1 <= sc s) by (destruct Vs as (_ & H & _); exact H).
  change (cast_geom ml (s :: t) (s' :: t'))
    with ((slen s, if order_equiv ml (so s) (so s') then 1 else sc s) :: cast_geom ml t t').
  cbn [row_values swap_row]. rewrite E1, E2.
  set (c := if order_equiv ml (so s) (so s') then 1 else sc s).
  assert (Hc' : 1 <= c) by (unfold c; destruct (order_equiv ml (so s) (so s')); lia).
  destruct (swap_row_split (slen s) c (cast_geom ml t t') row Hc' (cast_geom_ok ml t Vt t')) as [F1 F2].
  cbv zeta in F1, F2. rewrite F1, F2. f_equal; [|apply (IH Vt Vt')].
  unfold c. destruct (order_equiv ml (so s) (so s')) eqn:Eq.
  - rewrite map_chunks_1_rev. apply seg_values_same; auto. right. apply equiv_same_big. exact Eq.
  - apply seg_values_swapped; auto. apply nonequiv_flipped; auto.
Qed.

Lemma values_as_cast ml ly ly' data :
  Forall2 same_geom ly ly' -> Forall seg_valid ly -> Forall seg_valid ly' -> 1 <= rowsize (geom ly) ->
  values_as ml ly' (swap_data (cast_geom ml ly ly') data) = values_as ml ly data.
Proof.
  intros HR Hv Hv' Hr. unfold values_as. rewrite (rowsize_same_geom _ _ HR).
  rewrite <- (rowsize_cast ml ly ly' HR).
  rewrite chunks_swap_data by (auto using cast_geom_ok; rewrite rowsize_cast; auto).
  rewrite map_map. apply map_ext. intro row. apply row_values_cast; auto.
Qed.

Lemma same_geom_reseg h ly : Forall2 same_geom ly (map (reseg h) ly).
Proof. apply Forall2_map_r. intros s _. split; reflexivity. Qed.

(* ------------------------------------------------------------------------- recfile.Util.to_native *)
Lemma native_pointwise ml o :
  order_equiv ml (newbo_order NbNative ml o) o
  = match endian_of ml o with Some b => Bool.eqb b (negb ml) | None => true end.
Proof. destruct ml, o; reflexivity. Qed.

Lemma forall2b_native ml ly :
  forall2b (order_equiv ml) (map (fun s => newbo_order NbNative ml (so s)) ly) (map so ly) = forallb (seg_native ml) ly.
Proof.
  induction ly as [|s t IH]; [reflexivity|]. cbn [map forall2b forallb]. rewrite IH, native_pointwise. reflexivity.
Qed.

Lemma dtype_eqb_refl d : dtype_eqb d d = true.
Proof. apply dtype_eqb_eq. reflexivity. Qed.

Lemma equiv_native ml d : dtype_equiv ml (dt_newbyteorder NbNative ml d) d = all_native ml d.
Proof.
  unfold dtype_equiv, dt_newbyteorder, all_native. rewrite erase_map_orders, dtype_eqb_refl, orders_map_orders.
  unfold orders. rewrite map_map. cbn [andb]. apply forall2b_native.
Qed.

Lemma native_after ml d : all_native ml (dt_newbyteorder NbNative ml d) = true.
Proof.
  unfold all_native, dt_newbyteorder. rewrite layout_map_orders, forallb_forall. intros s' Hs'.
  apply in_map_iff in Hs' as (s & <- & _). unfold seg_native, reseg. cbn [so].
  destruct ml, (so s); reflexivity.
Qed.

Lemma valid_forall d : valid_dtype d -> Forall seg_valid (layout d).
Proof. intros [_ H]. exact H. Qed.

Theorem rec_to_native_correct ml a : valid_dtype (adt a) -> rec_native_ok ml a (rec_to_native ml a).
Proof.
  intro V. unfold rec_to_native. cbv zeta. rewrite equiv_native.
  destruct (all_native ml (adt a)) eqn:En.
  - constructor; cbn [prim_self o_res o_same o_shares o_inp]; auto; try (split; reflexivity); try discriminate.
  - assert (Vn : valid_dtype (dt_newbyteorder NbNative ml (adt a)))
      by (apply valid_map_orders; [intro; apply newbo_native_NA|exact V]).
    constructor; cbn [prim_astype o_res o_same o_shares o_inp adt ashape adata]; auto.
    + unfold arr_values. cbn [adt adata]. unfold dt_newbyteorder. rewrite layout_map_orders.
      apply values_as_cast; auto using same_geom_reseg, valid_forall, valid_rowsize.
      rewrite <- layout_map_orders. apply valid_forall. exact Vn.
    + apply native_after.
    + split; [|reflexivity]. unfold same_structure, dt_newbyteorder. apply erase_map_orders.
Qed.

(* a second call finds nothing to do and hands back the very same object *)
Theorem rec_to_native_idempotent ml a : valid_dtype (adt a) ->
  let r := o_res (rec_to_native ml a) in
  o_same (rec_to_native ml r) = true /\ o_res (rec_to_native ml r) = r.
Proof.
  intros V r.
  assert (Vr : valid_dtype (adt r)).
  { unfold r, rec_to_native. cbv zeta. destruct (dtype_equiv _ _ _); cbn [prim_self prim_astype o_res adt]; auto.
    apply valid_map_orders; [intro; apply newbo_native_NA|exact V]. }
  pose proof (rn_native _ _ _ (rec_to_native_correct ml a V)) as Hn. fold r in Hn.
  unfold rec_to_native at 1 2. cbv zeta. rewrite equiv_native, Hn. split; reflexivity.
Qed.

Lemma all_native_uniform ml d : all_native ml d = true -> uniform ml d.
Proof.
  unfold all_native. rewrite forallb_forall. intros H s1 s2 b1 b2 H1 H2 E1 E2.
  pose proof (H s1 H1) as N1. pose proof (H s2 H2) as N2. unfold seg_native in N1, N2.
  rewrite E1 in N1. rewrite E2 in N2. apply Bool.eqb_prop in N1. apply Bool.eqb_prop in N2. congruence.
Qed.

Lemma rec_native_check_core_sound ml a o : rec_native_check_core ml a o = true ->
  arr_values ml (o_res o) = arr_values ml a /\ all_native ml (adt (o_res o)) = true
  /\ (same_structure (adt (o_res o)) (adt a) /\ ashape (o_res o) = ashape a) /\ o_inp o = a.
Proof.
  unfold rec_native_check_core. rewrite !andb_true_iff.
  intros ((((H1 & H2) & H3) & H4) & H5).
  split; [apply values_eqb_eq; exact H1|]. split; [exact H2|].
  split; [split; [apply dtype_eqb_eq; exact H3|apply natlist_eqb_eq; exact H4]|apply arr_eqb_eq; exact H5].
Qed.

Lemma rec_native_check_sound ml a o : rec_native_check ml a o = true -> rec_native_ok ml a o.
Proof.
  unfold rec_native_check. rewrite !andb_true_iff.
  intros ((H & H6) & H7). apply rec_native_check_core_sound in H as (H1 & H2 & H3 & H5).
  constructor; auto.
  - apply Bool.eqb_prop. exact H6.
  - intro E. rewrite E in H7. simpl in H7. destruct (o_shares o); [discriminate|reflexivity].
Qed.

(* the as-found text writer converted with to_native_inplace's decision (all fields swapped or none):
   on a table whose fields have different orders no single decision is right *)
Definition mixed_witness : arr :=
  {| adt := DStruct [ {| fname := "a"; fty := {| skind := KInt; ssize := 2; sord := LE |}; fsub := [] |};
                      {| fname := "b"; fty := {| skind := KInt; ssize := 2; sord := BE |}; fsub := [] |} ];
     ashape := [1]; adata := unhex "01000002" |}.

Lemma mixed_witness_facts :
  valid_dtype (adt mixed_witness) /\ ~ uniform true (adt mixed_witness)
  /\ arr_values true mixed_witness = [[1; 2]]%Z
  /\ adata (o_res (rec_to_native true mixed_witness)) = unhex "01000200"
  /\ all_native true (adt (to_native_inplace true mixed_witness)) = false
  /\ all_native true (adt (o_res (byteswap true mixed_witness false false))) = false.
Proof.
  split; [|split; [|repeat split; vm_compute; reflexivity]].
  - apply valid_dtype_b_sound. vm_compute. reflexivity.
  - intro U. specialize (U (seg_of {| skind := KInt; ssize := 2; sord := LE |} 1)
                           (seg_of {| skind := KInt; ssize := 2; sord := BE |} 1) false true).
    assert (false = true); [|discriminate]. apply U; simpl; auto.
Qed.

(* ------------------------------------------------------------------------- gather / scatter *)
Lemma scatter_length {A} idx : forall (rows base : list A), List.length (scatter idx rows base) = List.length base.
Proof.
  induction idx as [|i it IH]; intros [|r rt] base; cbn [scatter]; auto. rewrite IH. apply set_nth_length.
Qed.

Lemma scatter_frame {A} (d : A) j idx : ~ In j idx -> forall rows base, nth j (scatter idx rows base) d = nth j base d.
Proof.
  induction idx as [|i it IH]; intros Hj [|r rt] base; cbn [scatter]; auto.
  rewrite IH by (intro H; apply Hj; right; exact H).
  apply nth_set_nth_neq. intro E. apply Hj. left. exact E.
Qed.

Lemma gather_scatter {A} (d : A) idx : NoDup idx -> forall rows base,
  (forall i, In i idx -> i < List.length base) -> List.length rows = List.length idx ->
  gather d idx (scatter idx rows base) = rows.
Proof.
  induction 1 as [|i it Hi Hnd IH]; intros [|r rt] base Hb Hl; try discriminate; [reflexivity|].
  cbn [scatter gather map]. f_equal.
  - rewrite (scatter_frame d i it Hi). apply nth_set_nth_eq. apply Hb. left. reflexivity.
  - apply IH.
    + intros k Hk. rewrite set_nth_length. apply Hb. right. exact Hk.
    + simpl in Hl. lia.
Qed.

Lemma chunks_concat n rows : 1 <= n -> Forall (fun r => List.length r = n) rows -> chunks n (concat rows) = rows.
Proof.
  intros Hn. induction 1 as [|r t Hr Ht IH]; [apply chunks_nil|].
  cbn [concat]. rewrite chunks_app_full by auto. rewrite IH. reflexivity.
Qed.

Lemma gather_rows n (base : list (list byte)) idx :
  (forall i, In i idx -> i < List.length base) -> (forall r, In r base -> List.length r = n) ->
  Forall (fun r => List.length r = n) (gather [] idx base).
Proof.
  intros Hb Hr. apply Forall_forall. intros r Hin. apply in_map_iff in Hin as (i & <- & Hi).
  apply Hr. apply nth_In. apply Hb. exact Hi.
Qed.

Lemma view_rows d sh base idx : valid_dtype d ->
  (forall i, In i idx -> i < List.length base) -> (forall r, In r base -> List.length r = rowsize (geom (layout d))) ->
  rows_of d (adata (view_arr d sh base idx)) = gather [] idx base.
Proof.
  intros V Hb Hr. unfold rows_of, view_arr. cbn [adata]. apply chunks_concat; [apply valid_rowsize; exact V|].
  apply gather_rows; auto.
Qed.

Lemma view_result_rows f ml d sh base idx ip keep : valid_dtype d ->
  (forall i, In i idx -> i < List.length base) -> (forall r, In r base -> List.length r = rowsize (geom (layout d))) ->
  List.length (rows_of d (adata (o_res (apply f ml (view_arr d sh base idx) ip keep)))) = List.length idx.
Proof.
  intros V Hb Hr. rewrite apply_doswap.
  destruct (doswap f ml (adt (view_arr d sh base idx))); cbn [byteswap noswap o_res adata].
  - unfold rows_of. change (adt (view_arr d sh base idx)) with d.
    rewrite chunks_swap_data by auto using valid_geom_ok, valid_rowsize.
    rewrite map_length. fold (rows_of d (adata (view_arr d sh base idx))). rewrite view_rows by auto. apply map_length.
  - rewrite view_rows by auto. apply map_length.
Qed.

(* the call is the modelled conversion of the view's elements (so every C16 theorem applies to it);
   the owning buffer keeps its size; elements outside the view are untouched; with inplace on the
   view shows exactly the rows of the returned array; with inplace off the buffer is untouched *)
Theorem view_correct f ml d sh base idx ip keep :
  valid_dtype d -> NoDup idx -> (forall i, In i idx -> i < List.length base) ->
  (forall r, In r base -> List.length r = rowsize (geom (layout d))) ->
  let o := fst (apply_view f ml d sh base idx ip keep) in
  let base' := snd (apply_view f ml d sh base idx ip keep) in
  o = apply f ml (view_arr d sh base idx) ip keep
  /\ List.length base' = List.length base
  /\ (forall j, ~ In j idx -> nth j base' [] = nth j base [])
  /\ (ip = true -> gather [] idx base' = rows_of d (adata (o_res o)))
  /\ (ip = false -> base' = base).
Proof.
  intros V ND Hb Hr. unfold apply_view. cbv zeta. cbn [fst snd].
  split; [reflexivity|]. destruct ip.
  - rewrite (proj2 (inplace_same_object_thm ml f (view_arr d sh base idx) keep)).
    split; [apply scatter_length|]. split; [intros j Hj; apply scatter_frame; exact Hj|].
    split; [|discriminate]. intros _. apply gather_scatter; auto. apply view_result_rows; auto.
  - split; [reflexivity|]. split; [reflexivity|]. split; [discriminate|reflexivity].
Qed.

(* boolean guards of the view entry *)
Lemma nodup_b_sound l : nodup_b l = true -> NoDup l.
Proof.
  induction l as [|x t IH]; simpl; intro H; constructor.
  - apply andb_true_iff in H as [H _]. intro Hin. apply negb_true_iff in H.
    pose proof (existsb_false _ _ H x Hin) as E. rewrite Nat.eqb_refl in E. discriminate.
  - apply IH. apply andb_true_iff in H as [_ H]. exact H.
Qed.

Lemma view_wf_b_sound d (base : list (list byte)) idx : view_wf_b d base idx = true ->
  valid_dtype d /\ NoDup idx /\ (forall i, In i idx -> i < List.length base)
  /\ (forall r, In r base -> List.length r = rowsize (geom (layout d))).
Proof.
  unfold view_wf_b. rewrite !andb_true_iff. intros (((H1 & H2) & H3) & H4).
  split; [apply valid_dtype_b_sound; exact H1|]. split; [apply nodup_b_sound; exact H2|]. split.
  - intros i Hi. rewrite forallb_forall in H3. apply Nat.ltb_lt. apply H3. exact Hi.
  - intros r Hin. rewrite forallb_forall in H4. apply Nat.eqb_eq. apply H4. exact Hin.
Qed.

(* ------------------------------------------------------------------------- nested dtypes: the scan sees the top level *)
Lemma existsb_top (p : order -> bool) fs : existsb p (top_of fs) = existsb (fun f => p (sord (fty f))) fs.
Proof. unfold top_of. induction fs as [|f t IH]; simpl; [reflexivity|]. rewrite IH. reflexivity. Qed.
Lemma scan_little_exists ml fs : scan_little ml fs = existsb (fun f => is_little_endian ml (sord (fty f))) fs.
Proof. induction fs as [|f t IH]; simpl; [reflexivity|]. destruct (is_little_endian _ _); simpl; auto. Qed.
Lemma scan_big_exists ml fs : scan_big ml fs = existsb (fun f => is_big_endian ml (sord (fty f))) fs.
Proof. induction fs as [|f t IH]; simpl; [reflexivity|]. destruct (is_big_endian _ _); simpl; auto. Qed.

Lemma doswap_top_flat f ml fs : doswap_top f ml (top_of fs) = doswap f ml (DStruct fs).
Proof.
  destruct f; unfold doswap_top, doswap; rewrite ?existsb_top, ?scan_little_exists, ?scan_big_exists; reflexivity.
Qed.

(* on a structure without nesting the top level IS the list of fields: same function *)
Theorem apply_top_flat f ml fs sh data ip keep :
  let a := {| adt := DStruct fs; ashape := sh; adata := data |} in
  apply_top f ml (top_of fs) a ip keep = apply f ml a ip keep.
Proof. intro a. unfold apply_top. rewrite apply_doswap, doswap_top_flat. reflexivity. Qed.

(* nested: when the top level decides as the leaves would, the call is the modelled conversion of the
   leaf structure, hence meets the whole statement *)
Theorem apply_top_faithful f ml top fs sh data ip keep :
  let a := {| adt := DStruct fs; ashape := sh; adata := data |} in
  doswap_top f ml top = leaf_decision f ml a ->
  apply_top f ml top a ip keep = apply f ml a ip keep.
Proof.
  intros a H. unfold apply_top. rewrite H. unfold leaf_decision. cbn [adt a].
  rewrite apply_doswap, doswap_top_flat. reflexivity.
Qed.

(* ... and when it does not (a nested field hides the only ordered leaves: the scan sees '|'):
   [('n', [('x', '<i4')])] asked to become big-endian is returned unchanged, still little-endian *)
Definition nested_witness : arr :=
  {| adt := DStruct [ {| fname := "n.x"; fty := {| skind := KInt; ssize := 4; sord := LE |}; fsub := [] |} ];
     ashape := [1]; adata := unhex "01000000" |}.
Theorem nested_hidden_order_refuted :
  valid_dtype (adt nested_witness) /\ uniform true (adt nested_witness)
  /\ doswap_top ToBig true [NA] <> leaf_decision ToBig true nested_witness
  /\ ~ declares_requested true ToBig (adt nested_witness) (adt (o_res (apply_top ToBig true [NA] nested_witness false false))).
Proof.
  split; [apply valid_dtype_b_sound; vm_compute; reflexivity|].
  split; [apply uniform_b_sound; vm_compute; reflexivity|].
  split; [vm_compute; discriminate|].
  intro H. vm_compute in H. inversion H as [|? ? ? ? H1 _]; subst. vm_compute in H1. discriminate.
Qed.

(* a structure with ONLY nested fields: the scan sees no ordered field, to_native on a little-endian
   machine swaps on every call -- the second call undoes the first ([('n', [('x', '>i4')])]) *)
Definition nested_witness_be : arr :=
  {| adt := DStruct [ {| fname := "n.x"; fty := {| skind := KInt; ssize := 4; sord := BE |}; fsub := [] |} ];
     ashape := [1]; adata := unhex "00000001" |}.
Theorem nested_only_not_idempotent :
  let o1 := apply_top ToNative true [NA] nested_witness_be false false in
  let o2 := apply_top ToNative true [NA] (o_res o1) false false in
  orders (adt (o_res o1)) = [LE] /\ o_res o2 <> o_res o1 /\ adata (o_res o2) = adata nested_witness_be.
Proof. split; [vm_compute; reflexivity|]. split; [vm_compute; discriminate|vm_compute; reflexivity]. Qed.

(* ------------------------------------------------------------------------- every valid array, any mix of orders:
   what numpy_util's converters guarantee without the "all fields share one order" premise *)
Theorem values_any_order ml f a ip : valid_dtype (adt a) ->
  arr_values ml (o_res (apply f ml a ip false)) = arr_values ml a
  /\ same_structure (adt (o_res (apply f ml a ip false))) (adt a)
  /\ (ip = false -> o_inp (apply f ml a ip false) = a).
Proof.
  intro V. rewrite apply_doswap. destruct (doswap f ml (adt a)).
  - split; [apply byteswap_values; exact V|]. split; [apply erase_newbo|]. intros ->. reflexivity.
  - split; [reflexivity|]. split; [reflexivity|]. intros _. reflexivity.
Qed.

(* 0-d arrays and arrays without elements: nothing special happens (shape is carried, rows = elements) *)
Lemma zero_d_example :
  let a := {| adt := DPlain {| skind := KComplex; ssize := 8; sord := BE |}; ashape := []; adata := unhex "3f80000040000000" |} in
  adata (o_res (to_native true a true false)) = unhex "0000803f00000040"
  /\ ashape (o_res (to_native true a true false)) = []
  /\ arr_values true (o_res (to_native true a true false)) = arr_values true a.
Proof. repeat split; vm_compute; reflexivity. Qed.

Lemma view_check_sound d base idx ip o1 base1 : view_check d base idx ip o1 base1 = true ->
  (ip = true -> gather [] idx base1 = rows_of d (adata (o_res o1))) /\ (ip = false -> base1 = base).
Proof.
  unfold view_check. destruct ip; intro H; (split; [|]); try discriminate; intros _;
    apply (list_eqb_spec bytes_eqb bytes_eqb_eq); exact H.
Qed.

Lemma nested_top_level f ml top fs sh data ip keep :
  let a := {| adt := DStruct fs; ashape := sh; adata := data |} in
  (apply_top f ml (top_of fs) a ip keep = apply f ml a ip keep)
  /\ (doswap_top f ml top = leaf_decision f ml a -> apply_top f ml top a ip keep = apply f ml a ip keep).
Proof. intro a. split; [apply apply_top_flat|apply apply_top_faithful]. Qed.

Lemma ext_checkers_sound :
  (forall ml a o, rec_native_check ml a o = true -> rec_native_ok ml a o)
  /\ (forall ml a o, rec_native_check_core ml a o = true ->
        arr_values ml (o_res o) = arr_values ml a /\ all_native ml (adt (o_res o)) = true
        /\ (same_structure (adt (o_res o)) (adt a) /\ ashape (o_res o) = ashape a) /\ o_inp o = a)
  /\ (forall d base idx, view_wf_b d base idx = true ->
        valid_dtype d /\ NoDup idx /\ (forall i, In i idx -> i < List.length base)
        /\ (forall r, In r base -> List.length r = rowsize (geom (layout d))))
  /\ (forall d base idx ip o1 base1, view_check d base idx ip o1 base1 = true ->
        (ip = true -> gather [] idx base1 = rows_of d (adata (o_res o1))) /\ (ip = false -> base1 = base))
  /\ (forall ml d, all_native ml d = true -> uniform ml d).
Proof.
  split; [exact rec_native_check_sound|]. split; [exact rec_native_check_core_sound|].
  split; [exact view_wf_b_sound|]. split; [exact view_check_sound|exact all_native_uniform].
Qed.

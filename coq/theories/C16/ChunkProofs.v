(* C16 — lemmas about chunking and the buffer-level byte swap (no dtype reasoning yet). *)
From Coq Require Import ZArith List Bool Lia Arith Wf_nat.
From Coq.Strings Require Import Byte.
From EsVerif.Common Require Import Base Bytes.
From EsVerif.C16 Require Import Model.
Local Open Scope nat_scope.
Local Open Scope list_scope.

Lemma firstn_app_len {A} (a r : list A) n : length a = n -> firstn n (a ++ r) = a.
Proof. intros <-. rewrite firstn_app, Nat.sub_diag, firstn_all. simpl. apply app_nil_r. Qed.

Lemma skipn_app_len {A} (a r : list A) n : length a = n -> skipn n (a ++ r) = r.
Proof. intros <-. rewrite skipn_app, Nat.sub_diag, skipn_all. reflexivity. Qed.

Lemma firstn_skipn_length {A} n (l : list A) : length (firstn n l) + length (skipn n l) = length l.
Proof. rewrite <- app_length, firstn_skipn. reflexivity. Qed.

(* ---- the fuel of [chunks] suffices *)
Lemma chunks_f_fuel n : 1 <= n -> forall f1 f2 l, length l <= f1 -> length l <= f2 ->
  chunks_f f1 n l = chunks_f f2 n l.
Proof.
  intros Hn f1. induction f1 as [|k IH]; intros f2 l H1 H2.
  - destruct l as [|b t]; simpl in H1; [|lia]. destruct f2; reflexivity.
  - destruct l as [|b t]. { destruct f2; reflexivity. }
    destruct f2 as [|k2]; [simpl in H2; lia|].
    cbn [chunks_f]. f_equal. cbn [List.length] in *. apply IH; rewrite skipn_length; cbn [List.length]; lia.
Qed.

Lemma chunks_nil n : chunks n [] = [].
Proof. reflexivity. Qed.

Lemma chunks_cons n l : 1 <= n -> l <> [] -> chunks n l = firstn n l :: chunks n (skipn n l).
Proof.
  intros Hn Hl. unfold chunks. destruct l as [|b t]; [congruence|].
  cbn [List.length chunks_f]. f_equal. apply chunks_f_fuel; auto; rewrite skipn_length; cbn [List.length]; lia.
Qed.

(* induction along the chunks of a list *)
Lemma chunk_ind n (Hn : 1 <= n) (P : list byte -> Prop) :
  P [] -> (forall l, l <> [] -> P (skipn n l) -> P l) -> forall l, P l.
Proof.
  intros H0 Hs l. remember (length l) as m eqn:E. revert l E.
  induction m as [m IH] using lt_wf_ind. intros l E. destruct l as [|b t]; [exact H0|].
  apply Hs; [discriminate|]. apply (IH (length (skipn n (b :: t)))); [|reflexivity].
  rewrite skipn_length. subst m. cbn [List.length]. lia.
Qed.

Lemma concat_chunks n l : 1 <= n -> concat (chunks n l) = l.
Proof.
  intro Hn. induction l as [|l Hl IH] using (chunk_ind n Hn); auto.
  rewrite chunks_cons by auto. simpl. rewrite IH. apply firstn_skipn.
Qed.

Lemma chunks_small n l : 1 <= n -> l <> [] -> length l <= n -> chunks n l = [l].
Proof.
  intros Hn Hl Hlen. rewrite chunks_cons by auto.
  rewrite firstn_all2, skipn_all2 by lia. reflexivity.
Qed.

Lemma chunks_app_full n a r : 1 <= n -> length a = n -> chunks n (a ++ r) = a :: chunks n r.
Proof.
  intros Hn Ha. rewrite chunks_cons; auto.
  - rewrite firstn_app_len, skipn_app_len by exact Ha. reflexivity.
  - destruct a; simpl in *; [lia|discriminate].
Qed.

Lemma chunks_len n l x : 1 <= n -> In x (chunks n l) -> length x <= n.
Proof.
  intro Hn. induction l as [|l Hl IH] using (chunk_ind n Hn); auto.
  - simpl. tauto.
  - rewrite chunks_cons by auto. intros [<-|Hin]; [apply firstn_le_length|auto].
Qed.

(* ---- map_chunks *)
Lemma map_chunks_nil n g : map_chunks n g [] = [].
Proof. reflexivity. Qed.

Lemma map_chunks_cons n g l : 1 <= n -> l <> [] ->
  map_chunks n g l = g (firstn n l) ++ map_chunks n g (skipn n l).
Proof. intros Hn Hl. unfold map_chunks. rewrite chunks_cons by auto. reflexivity. Qed.

Section MapChunks.
  Variable n : nat.
  Variable g : list byte -> list byte.
  Hypothesis Hn : 1 <= n.
  Hypothesis Hg : forall x, length (g x) = length x.

  Lemma map_chunks_length l : length (map_chunks n g l) = length l.
  Proof.
    induction l as [|l Hl IH] using (chunk_ind n Hn); auto.
    rewrite map_chunks_cons by auto. rewrite app_length, Hg, IH. apply firstn_skipn_length.
  Qed.

  Lemma chunks_map_chunks l : chunks n (map_chunks n g l) = map g (chunks n l).
  Proof.
    induction l as [|l Hl IH] using (chunk_ind n Hn); auto.
    rewrite map_chunks_cons by auto. rewrite (chunks_cons n l) by auto. simpl map.
    destruct (le_lt_dec n (length l)) as [Hle|Hlt].
    - rewrite chunks_app_full; auto.
      + rewrite IH. reflexivity.
      + rewrite Hg. apply firstn_length_le. exact Hle.
    - assert (Hs : skipn n l = []) by (apply skipn_all2; lia).
      rewrite Hs. rewrite map_chunks_nil, chunks_nil, app_nil_r. simpl.
      apply chunks_small; auto.
      + intro E. apply (f_equal (@length byte)) in E. rewrite Hg, firstn_all2 in E by lia.
        destruct l; simpl in E; [congruence|discriminate].
      + rewrite Hg. apply firstn_le_length.
  Qed.

  Hypothesis Hgg : forall x, g (g x) = x.

  Lemma map_chunks_invol l : map_chunks n g (map_chunks n g l) = l.
  Proof.
    unfold map_chunks at 1. rewrite chunks_map_chunks, map_map.
    rewrite (map_ext _ (fun x => x)) by (intro; apply Hgg).
    rewrite map_id. apply concat_chunks. exact Hn.
  Qed.
End MapChunks.

Lemma map_chunks_id n g l : 1 <= n -> (forall x, g x = x) -> map_chunks n g l = l.
Proof.
  intros Hn Hg. unfold map_chunks. rewrite (map_ext _ (fun x => x)) by exact Hg.
  rewrite map_id. apply concat_chunks. exact Hn.
Qed.

(* single-byte units (byte strings, bool, i1/u1) are untouched by the swap *)
Lemma map_chunks_1_rev l : map_chunks 1 (@rev byte) l = l.
Proof.
  unfold map_chunks.
  rewrite (map_ext_in _ (fun x => x)); [rewrite map_id; apply concat_chunks; lia|].
  intros x Hx. apply chunks_len in Hx; [|lia].
  destruct x as [|b [|c t]]; simpl in *; try reflexivity; lia.
Qed.

Lemma rev_chunks_invol c l : 1 <= c -> map_chunks c (@rev byte) (map_chunks c (@rev byte) l) = l.
Proof. intro Hc. apply map_chunks_invol; auto using rev_length, rev_involutive. Qed.

(* ---- swap_row *)
Definition geom_ok (g : list (nat * nat)) : Prop := Forall (fun p => 1 <= snd p) g.

Lemma swap_row_nil g : swap_row g [] = [].
Proof.
  induction g as [|[len c] t IH]; simpl; auto.
  rewrite firstn_nil, skipn_nil, IH. reflexivity.
Qed.

Lemma swap_row_length g : geom_ok g -> forall row, length (swap_row g row) = length row.
Proof.
  induction 1 as [|[len c] t Hc Ht IH]; intro row; simpl; auto.
  rewrite app_length, IH, map_chunks_length by auto using rev_length.
  apply firstn_skipn_length.
Qed.

(* re-splitting a swapped row at the same field boundary *)
Lemma split_app len (A R row : list byte) :
  length A = length (firstn len row) -> (length row <= len -> R = []) ->
  firstn len (A ++ R) = A /\ skipn len (A ++ R) = R.
Proof.
  intros HA HR. destruct (le_lt_dec len (length row)) as [Hle|Hlt].
  - rewrite firstn_length_le in HA by exact Hle.
    split; [apply firstn_app_len | apply skipn_app_len]; exact HA.
  - rewrite HR by lia. rewrite app_nil_r.
    rewrite firstn_all2 in HA by lia.
    split; [apply firstn_all2 | apply skipn_all2]; lia.
Qed.

Lemma swap_row_split len c t row : 1 <= c -> geom_ok t ->
  let A := map_chunks c (@rev byte) (firstn len row) in
  let R := swap_row t (skipn len row) in
  firstn len (A ++ R) = A /\ skipn len (A ++ R) = R.
Proof.
  intros Hc Ht A R. apply split_app with (row := row).
  - unfold A. apply map_chunks_length; auto using rev_length.
  - intro Hlen. unfold R. rewrite skipn_all2 by exact Hlen. apply swap_row_nil.
Qed.

Lemma swap_row_invol g : geom_ok g -> forall row, swap_row g (swap_row g row) = row.
Proof.
  induction 1 as [|[len c] t Hc Ht IH]; intro row; auto.
  simpl in Hc. cbn [swap_row].
  destruct (swap_row_split len c t row Hc Ht) as [E1 E2]. cbv zeta in E1, E2.
  rewrite E1, E2, IH, rev_chunks_invol by exact Hc. apply firstn_skipn.
Qed.

Lemma swap_row_units g : Forall (fun p => snd p = 1) g -> forall row, swap_row g row = row.
Proof.
  induction 1 as [|[len c] t Hc Ht IH]; intro row; auto.
  simpl in Hc. subst c. cbn [swap_row]. rewrite map_chunks_1_rev, IH. apply firstn_skipn.
Qed.

(* ---- swap_data *)
Lemma swap_data_length g data : geom_ok g -> 1 <= rowsize g -> length (swap_data g data) = length data.
Proof. intros Hg Hr. apply map_chunks_length; auto using swap_row_length. Qed.

Lemma swap_data_invol g data : geom_ok g -> 1 <= rowsize g -> swap_data g (swap_data g data) = data.
Proof. intros Hg Hr. apply map_chunks_invol; auto using swap_row_length, swap_row_invol. Qed.

Lemma swap_data_units g data : Forall (fun p => snd p = 1) g -> 1 <= rowsize g -> swap_data g data = data.
Proof. intros Hg Hr. apply map_chunks_id; auto using swap_row_units. Qed.

Lemma chunks_swap_data g data : geom_ok g -> 1 <= rowsize g ->
  chunks (rowsize g) (swap_data g data) = map (swap_row g) (chunks (rowsize g) data).
Proof. intros Hg Hr. apply chunks_map_chunks; auto using swap_row_length. Qed.

(* C16 — glue evaluated by generated case files:
   verdict = (model <> real code ? 1 : 0) + (verified property checker rejects the real code's output ? 2 : 0) *)
From Coq Require Import ZArith List Bool String Ascii.
From Coq.Strings Require Import Byte.
From EsVerif.Common Require Import Base Bytes.
From EsVerif.C16 Require Import Model Spec Ext Deep.
Local Open Scope list_scope.

(* compact constructors for the printed terms *)
Definition mkS (k : kind) (n : nat) (o : order) : scalar := {| skind := k; ssize := n; sord := o |}.
Definition mkF (nm : string) (k : kind) (n : nat) (o : order) (sub : list nat) : field :=
  {| fname := nm; fty := mkS k n o; fsub := sub |}.
Definition mkA (d : dtype) (sh : list nat) (data : list byte) : arr := {| adt := d; ashape := sh; adata := data |}.
Definition mkO (res : arr) (same shares : bool) (inp : arr) : outcome :=
  {| o_res := res; o_same := same; o_shares := shares; o_inp := inp |}.

(* o1 = f(a, inplace, keep_dtype) on the real code; o2 = f(o1.result, inplace, keep_dtype).
   An ill-formed generated case (buffer length <> itemsize * prod shape, impossible dtype) is a
   harness fault and is reported as a disagreement.  The property is demanded on the arrays of
   the quantifier (uniformly ordered); other arrays are compared with the model only. *)
Definition v_conv (ml : bool) (f : conv) (a : arr) (ip keep : bool) (o1 o2 : outcome) : Z :=
  let m1 := apply f ml a ip keep in
  let m2 := apply f ml (o_res m1) ip keep in
  verdict (arr_wf_b a && outcome_eqb m1 o1 && outcome_eqb m2 o2)
          (if uniform_b ml (adt a) then conv_check ml f a ip keep o1 o2 else true).

(* recfile/Util.to_native_inplace, called twice; it returns None and works in the caller's buffer *)
Definition v_native_inplace (ml : bool) (a out1 out2 : arr) : Z :=
  verdict (arr_wf_b a && arr_eqb (to_native_inplace ml a) out1 && arr_eqb (to_native_inplace ml out1) out2)
          (if uniform_b ml (adt a)
           then conv_check ml ToNative a true false (mkO out1 true true out1) (mkO out2 true true out2)
           else true).

(* is_big_endian / is_little_endian on an array of dtype d; the property speaks of plain arrays *)
Definition v_pred (ml : bool) (d : dtype) (big little : bool) : Z :=
  verdict (Bool.eqb (is_big_endian ml (base_order d)) big && Bool.eqb (is_little_endian ml (base_order d)) little)
          (match d with DPlain s => predicates_check ml (sord s) big little | DStruct _ => true end).

Definition entry_eqb (x y : string * string * list nat) : bool :=
  String.eqb (fst (fst x)) (fst (fst y)) && String.eqb (snd (fst x)) (snd (fst y)) && natlist_eqb (snd x) (snd y).
Definition descr_eqb := list_eqb entry_eqb.

(* descr_to_native(dtype.descr) / remove_dtype_byteorder(dtype): [indescr] = numpy's dtype.descr,
   [out] = the stripped descriptor, [parsed] = numpy.dtype(out) *)
Definition v_descr (ml : bool) (fs : list field) (indescr out : descr) (parsed : dtype) : Z :=
  verdict (valid_dtype_b (DStruct fs) && descr_eqb (descr_of ml fs) indescr
           && descr_eqb (descr_to_native (descr_of ml fs)) out)
          (stripped_check (DStruct fs) parsed).

(* ---- extension (Ext.v) *)
(* recfile/Util.to_native: o1 = to_native(a), o2 = to_native(o1.result).  The property is demanded on
   the arrays of the quantifier; arrays whose fields have different orders are compared with the model
   (every field converted on its own) only. *)
Definition v_rec_native (ml : bool) (a : arr) (o1 o2 : outcome) : Z :=
  let m1 := rec_to_native ml a in
  let m2 := rec_to_native ml (o_res m1) in
  verdict (arr_wf_b a && outcome_eqb m1 o1 && outcome_eqb m2 o2)
          (if uniform_b ml (adt a)
           then rec_native_check_core ml a o1 && arr_eqb (o_res o2) (o_res o1)
           else true).

(* a conversion function called on a non-contiguous view of a larger buffer, twice; [base1] = the rows
   of the owning buffer after the first call *)
Definition rows_eqb := list_eqb bytes_eqb.
Definition v_view (ml : bool) (f : conv) (d : dtype) (sh : list nat) (base : list (list byte)) (idx : list nat)
           (ip keep : bool) (o1 o2 : outcome) (base1 : list (list byte)) : Z :=
  let m := apply_view f ml d sh base idx ip keep in
  let m2 := apply f ml (o_res (fst m)) ip keep in
  verdict (view_wf_b d base idx && outcome_eqb (fst m) o1 && rows_eqb (snd m) base1 && outcome_eqb m2 o2)
          ((if uniform_b ml d then conv_check ml f (view_arr d sh base idx) ip keep o1 o2 else true)
           && view_check d base idx ip o1 base1).

(* nested structured dtype: [a] carries the leaf fields, [top] what the field scan sees.  The property
   is demanded when the leaves share one order and the top level decides as the leaves would, at both
   calls (a nested field hides its leaves from the scan: outside the quantifier). *)
Definition v_conv_top (ml : bool) (f : conv) (top : list order) (a : arr) (ip keep : bool) (o1 o2 : outcome) : Z :=
  let m1 := apply_top f ml top a ip keep in
  let top2 := if doswap_top f ml top && negb keep then map (swap_order ml) top else top in
  let m2 := apply_top f ml top2 (o_res m1) ip keep in
  verdict (arr_wf_b a && outcome_eqb m1 o1 && outcome_eqb m2 o2)
          (if uniform_b ml (adt a) && Bool.eqb (doswap_top f ml top) (leaf_decision f ml a)
              && Bool.eqb (doswap_top f ml top2) (leaf_decision f ml (o_res m1))
           then conv_check ml f a ip keep o1 o2 else true).

(* ---- proof-deepening round (Deep.v) *)
Definition orders_eqb := list_eqb order_eqb.
(* nested record given as a list of top-level fields: the leaf layout and what the scan sees are computed by
   the model ([flatten1], [top1]) and must equal what numpy reports ([a_obs] = the leaf view of the real array,
   [top_obs] = array[name].dtype.base.byteorder of every top-level name) *)
Definition v_nested1 (ml : bool) (f : conv) (t : list tfield) (top_obs : list order) (a_obs : arr) (ip keep : bool)
           (o1 o2 : outcome) : Z :=
  let a := mkA (DStruct (flatten1 t)) (ashape a_obs) (adata a_obs) in
  Z.lor (verdict (orders_eqb (top1 t) top_obs && arr_eqb a a_obs) true)
        (v_conv_top ml f (top1 t) a ip keep o1 o2).

(* a whole sequence of calls in one process: the model runs it from the INITIAL objects only (state threaded
   through the heap) and must reproduce every observed answer *)
Definition v_heap (ml : bool) (h : heap) (cs : list call) (obs : list answer) : Z :=
  verdict (list_eqb answer_eqb (run ml h cs) obs) true.

(* C16 — proof-deepening round, definitions only (no proofs):
   * one level of nesting as a Coq datatype: the flattening to leaf fields and the list of orders the field
     scan sees are computed HERE (no longer by the harness);
   * a heap of array objects and calls on them: the process history as data, so that "the answer depends on
     the call's own argument only" is a statement about the model;
   * predicates used by the added theorems. *)
From Coq Require Import ZArith List Bool String Ascii.
From Coq.Strings Require Import Byte.
From EsVerif.Common Require Import Base Bytes.
From EsVerif.C16 Require Import Model Spec Ext.
Local Open Scope nat_scope.
Local Open Scope list_scope.

(* ---- a top-level field: a plain one, or a structured one (its fields; how often it is repeated = the
        product of its sub-array shape, 1 without one) *)
Inductive tfield := TLeaf (f : field) | TNest (name : string) (fs : list field) (reps : nat).

Definition prefix_field (n : string) (f : field) : field :=
  {| fname := (n ++ "." ++ fname f)%string; fty := fty f; fsub := fsub f |}.
Fixpoint repeat_app {A} (l : list A) (n : nat) : list A :=
  match n with O => [] | S k => l ++ repeat_app l k end.
(* numpy's memory layout of the record: the leaves in order, a repeated structure unrolled *)
Definition leaves (x : tfield) : list field :=
  match x with TLeaf f => [f] | TNest n fs reps => repeat_app (map (prefix_field n) fs) reps end.
Definition flatten1 (t : list tfield) : list field := flat_map leaves t.
(* array[fname].dtype.base.byteorder for every top-level name: '|' for a structured field *)
Definition top1 (t : list tfield) : list order :=
  map (fun x => match x with TLeaf f => sord (fty f) | TNest _ _ _ => NA end) t.

Definition ordered_b (o : order) : bool := negb (order_eqb o NA).
Definition has_plain_ordered (t : list tfield) : bool :=
  existsb (fun x => match x with TLeaf f => ordered_b (sord (fty f)) | TNest _ _ _ => false end) t.
Definition no_ordered_leaf (fs : list field) : bool := forallb (fun f => order_eqb (sord (fty f)) NA) fs.
(* the nested arrays on which the statement is proved: some PLAIN top-level field has a byte order
   (then the scan decides from it, as for a flat record), or no leaf has one at all *)
Definition nested_ok (t : list tfield) : bool := has_plain_ordered t || no_ordered_leaf (flatten1 t).

(* what the scan sees represents the leaves *)
Definition faithful (ml : bool) (top : list order) (d : dtype) : Prop :=
  (forall o b, In o top -> endian_of ml o = Some b -> exists s, In s (layout d) /\ endian_of ml (so s) = Some b)
  /\ ((exists s b, In s (layout d) /\ endian_of ml (so s) = Some b) -> exists o b, In o top /\ endian_of ml o = Some b).

Definition top_after (f : conv) (ml : bool) (top : list order) (keep : bool) : list order :=
  if doswap_top f ml top && negb keep then map (swap_order ml) top else top.

(* ---- every field that has a byte order has THIS one *)
Definition all_order_b (ml : bool) (want : bool) (d : dtype) : bool :=
  forallb (fun s => match endian_of ml (so s) with Some b => Bool.eqb b want | None => true end) (layout d).
Definition target (ml : bool) (f : conv) : bool :=
  match f with ToNative => negb ml | ToBig => true | ToLittle => false | Swap => true end.

(* ---- the process as data: a heap of array objects, calls on them *)
Inductive call :=
| CConv (f : conv) (k : nat) (ip keep : bool)       (* r1 = f(obj k, ip, keep); r2 = f(r1, ip, keep) *)
| CRecNative (k : nat)                              (* recfile.Util.to_native(obj k), then on its result *)
| CNativeInplace (k : nat)                          (* recfile.Util.to_native_inplace(obj k), twice *)
| CRefill (k : nat) (data : list byte).             (* the object's bytes overwritten in place *)
Inductive answer := AConv (o1 o2 : outcome) | AArr2 (a1 a2 : arr) | ANone | ABad.
Definition heap := list arr.
Definition obj_of (c : call) : nat :=
  match c with CConv _ k _ _ => k | CRecNative k => k | CNativeInplace k => k | CRefill k _ => k end.

(* the effect of a call on the object it is given, and its answer: a function of that object alone *)
Definition act (ml : bool) (c : call) (a : arr) : arr * answer :=
  match c with
  | CConv f _ ip keep =>
      let o1 := apply f ml a ip keep in
      let o2 := apply f ml (o_res o1) ip keep in
      (if ip then o_inp o2 else a, AConv o1 o2)
  | CRecNative _ =>
      let o1 := rec_to_native ml a in
      (a, AConv o1 (rec_to_native ml (o_res o1)))
  | CNativeInplace _ =>
      let a1 := to_native_inplace ml a in
      let a2 := to_native_inplace ml a1 in
      (a2, AArr2 a1 a2)
  | CRefill _ data => ({| adt := adt a; ashape := ashape a; adata := data |}, ANone)
  end.
Definition step (ml : bool) (h : heap) (c : call) : heap * answer :=
  match nth_error h (obj_of c) with
  | None => (h, ABad)
  | Some a => let r := act ml c a in (set_nth h (obj_of c) (fst r), snd r)
  end.
Fixpoint run (ml : bool) (h : heap) (cs : list call) : list answer :=
  match cs with
  | [] => []
  | c :: t => let r := step ml h c in snd r :: run ml (fst r) t
  end.

Definition answer_eqb (x y : answer) : bool :=
  match x, y with
  | AConv a b, AConv a' b' => outcome_eqb a a' && outcome_eqb b b'
  | AArr2 a b, AArr2 a' b' => arr_eqb a a' && arr_eqb b b'
  | ANone, ANone => true
  | _, _ => false
  end.

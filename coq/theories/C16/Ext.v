(* C16 — model extension (no proofs here):
   * the primitives the regenerated definitions of Gen.v are written against (numpy's
     ndarray.byteswap / copy / astype / view, dtype.newbyteorder(arg), dtype ==, assignment to
     .dtype, the field-scan loop);
   * recfile/Util.to_native (after fix 7fcb8b2: every field converted on its own, mixed orders);
   * conversions applied through a non-contiguous view of a larger buffer (strided, transposed,
     a field of a record array, negative strides): gather / scatter of rows;
   * structured arrays whose fields are themselves structured (nested): the field scan sees only
     the top-level fields ('|' for a nested one), byteswap / newbyteorder act on the leaves. *)
From Coq Require Import ZArith List Bool String Ascii.
From Coq.Strings Require Import Byte.
From EsVerif.Common Require Import Base Bytes.
From EsVerif.C16 Require Import Model Spec.
Local Open Scope nat_scope.
Local Open Scope list_scope.

(* ---- object-level primitives.  An [outcome] is the state of one local variable holding an array
        (its value, whether it IS the caller's object, whether it shares the caller's buffer) together
        with the caller's array as it is now. *)
Definition prim_self (a : arr) : outcome := {| o_res := a; o_same := true; o_shares := true; o_inp := a |}.   (* x = array *)
Definition prim_copy (a : arr) : outcome := {| o_res := a; o_same := false; o_shares := false; o_inp := a |}. (* x = array.copy() *)
(* x = array.byteswap(ip): the dtype is NOT updated by numpy *)
Definition prim_byteswap (a : arr) (ip : bool) : outcome :=
  let r := {| adt := adt a; ashape := ashape a; adata := swap_data (geom (layout (adt a))) (adata a) |} in
  {| o_res := r; o_same := ip; o_shares := ip; o_inp := if ip then r else a |}.
Definition relabel (h : dtype -> dtype) (a : arr) : arr := {| adt := h (adt a); ashape := ashape a; adata := adata a |}.
(* x.dtype = h(x.dtype): mutates the object x; when x is the caller's object the caller sees it *)
Definition prim_setdtype (h : dtype -> dtype) (o : outcome) : outcome :=
  {| o_res := relabel h (o_res o); o_same := o_same o; o_shares := o_shares o;
     o_inp := if o_same o then relabel h (o_res o) else o_inp o |}.
(* x = x.view(h(x.dtype)): a NEW object on the same buffer; the old object keeps its dtype *)
Definition prim_view (h : dtype -> dtype) (o : outcome) : outcome :=
  {| o_res := relabel h (o_res o); o_same := false; o_shares := o_shares o; o_inp := o_inp o |}.

(* "for fname in names: if test(array[fname]): flag = setv; [break]" started with flag = acc *)
Fixpoint scan_g (test : order -> bool) (setv brk acc : bool) (fs : list field) : bool :=
  match fs with
  | [] => acc
  | f :: t => if test (sord (fty f)) then (if brk then setv else scan_g test setv brk setv t)
              else scan_g test setv brk acc t
  end.

Definition memo (o : order) (l : list order) : bool := existsb (order_eqb o) l.   (* byteorder in (...) *)

(* ---- dtype.newbyteorder(arg): PyArray_DescrNewByteorder.  '|' always stays. *)
Inductive nbarg := NbSwap | NbNative | NbLittle | NbBig | NbIgnore.     (* 'S' (default)  '='  '<'  '>'  '|' *)
Definition newbo_order (arg : nbarg) (ml : bool) (o : order) : order :=
  match o with
  | NA => NA
  | _ => match arg with
         | NbSwap => swap_order ml o
         | NbNative => NAT
         | NbLittle => LE
         | NbBig => BE
         | NbIgnore => o
         end
  end.
Definition map_orders (h : order -> order) (d : dtype) : dtype :=
  match d with
  | DPlain s => DPlain {| skind := skind s; ssize := ssize s; sord := h (sord s) |}
  | DStruct fs => DStruct (map (fun f => {| fname := fname f;
                                            fty := {| skind := skind (fty f); ssize := ssize (fty f); sord := h (sord (fty f)) |};
                                            fsub := fsub f |}) fs)
  end.
Definition dt_newbyteorder (arg : nbarg) (ml : bool) (d : dtype) : dtype := map_orders (newbo_order arg ml) d.

(* ---- numpy's dtype equality: same structure, every field means the same byte order *)
Definition order_equiv (ml : bool) (o o' : order) : bool :=
  match endian_of ml o, endian_of ml o' with
  | Some b, Some b' => Bool.eqb b b'
  | None, None => true
  | _, _ => false
  end.
Definition dtype_equiv (ml : bool) (d d' : dtype) : bool :=
  dtype_eqb (erase d) (erase d') && forall2b (order_equiv ml) (orders d) (orders d').

(* ---- array.astype(nd) between dtypes of the same structure: every field is converted on its own;
        a unit is reversed exactly when source and target field disagree about the byte order *)
Definition cast_geom (ml : bool) (ly ly' : list seg) : list (nat * nat) :=
  map (fun p => (slen (fst p), if order_equiv ml (so (fst p)) (so (snd p)) then 1 else sc (fst p))) (combine ly ly').
Definition prim_astype (ml : bool) (a : arr) (nd : dtype) : outcome :=
  {| o_res := {| adt := nd; ashape := ashape a;
                 adata := swap_data (cast_geom ml (layout (adt a)) (layout nd)) (adata a) |};
     o_same := false; o_shares := false; o_inp := a |}.

(* ---- recfile/Util.to_native(array):
        native_dtype = array.dtype.newbyteorder("=")
        if native_dtype == array.dtype: return array
        return array.astype(native_dtype) *)
Definition rec_to_native (ml : bool) (a : arr) : outcome :=
  let nd := dt_newbyteorder NbNative ml (adt a) in
  if dtype_equiv ml nd (adt a) then prim_self a else prim_astype ml a nd.

(* a field is in machine order (or has no order) *)
Definition seg_native (ml : bool) (s : seg) : bool :=
  match endian_of ml (so s) with Some b => Bool.eqb b (negb ml) | None => true end.
Definition all_native (ml : bool) (d : dtype) : bool := forallb (seg_native ml) (layout d).

(* what to_native must achieve on ANY valid array, fields of different orders included *)
Record rec_native_ok (ml : bool) (a : arr) (o : outcome) : Prop := {
  rn_values : arr_values ml (o_res o) = arr_values ml a;
  rn_native : all_native ml (adt (o_res o)) = true;
  rn_structure : same_structure (adt (o_res o)) (adt a) /\ ashape (o_res o) = ashape a;
  rn_input_untouched : o_inp o = a;
  rn_same_iff_native : o_same o = all_native ml (adt a);
  rn_fresh_otherwise : o_same o = false -> o_shares o = false
}.
(* the part of it the property statement speaks about (values, declared order, structure, argument untouched) *)
Definition rec_native_check_core (ml : bool) (a : arr) (o : outcome) : bool :=
  values_eqb (arr_values ml (o_res o)) (arr_values ml a)
  && all_native ml (adt (o_res o))
  && dtype_eqb (erase (adt (o_res o))) (erase (adt a)) && natlist_eqb (ashape (o_res o)) (ashape a)
  && arr_eqb (o_inp o) a.
Definition rec_native_check (ml : bool) (a : arr) (o : outcome) : bool :=
  rec_native_check_core ml a o
  && Bool.eqb (o_same o) (all_native ml (adt a))
  && (o_same o || negb (o_shares o)).

(* ---- conversions through a view.  [base] = the rows (elements) of the owning buffer, [idx] = for
        every element of the view, in the view's C order, the row of the base it lives in. *)
Fixpoint scatter {A} (idx : list nat) (rows : list A) (base : list A) : list A :=
  match idx, rows with
  | i :: it, r :: rt => scatter it rt (set_nth base i r)
  | _, _ => base
  end.
Definition gather {A} (d : A) (idx : list nat) (base : list A) : list A := map (fun i => nth i base d) idx.

Definition view_arr (d : dtype) (sh : list nat) (base : list (list byte)) (idx : list nat) : arr :=
  {| adt := d; ashape := sh; adata := concat (gather [] idx base) |}.
Definition rows_of (d : dtype) (data : list byte) : list (list byte) := chunks (rowsize (geom (layout d))) data.
(* the call on the view, and the rows of the owning buffer afterwards *)
Definition apply_view (f : conv) (ml : bool) (d : dtype) (sh : list nat) (base : list (list byte)) (idx : list nat)
           (ip keep : bool) : outcome * list (list byte) :=
  let o := apply f ml (view_arr d sh base idx) ip keep in
  (o, if ip then scatter idx (rows_of d (adata (o_inp o))) base else base).

Fixpoint nodup_b (l : list nat) : bool :=
  match l with [] => true | x :: t => negb (existsb (Nat.eqb x) t) && nodup_b t end.
Definition view_wf_b (d : dtype) (base : list (list byte)) (idx : list nat) : bool :=
  valid_dtype_b d && nodup_b idx && forallb (fun i => i <? List.length base) idx
  && forallb (fun r => List.length r =? rowsize (geom (layout d))) base.

(* inplace on: the conversion happened in the caller's buffer (the view shows the returned rows);
   inplace off: the owning buffer is untouched.  [base1] = the owning buffer's rows after the call *)
Definition view_check (d : dtype) (base : list (list byte)) (idx : list nat) (ip : bool) (o1 : outcome)
           (base1 : list (list byte)) : bool :=
  if ip then list_eqb bytes_eqb (gather [] idx base1) (rows_of d (adata (o_res o1)))
  else list_eqb bytes_eqb base1 base.

(* ---- nested structured dtypes.  [a] carries the LEAF fields (numpy's byteswap and newbyteorder
        recurse into nested fields); [top] = the byte orders the field scan sees: one per top-level
        field, '|' for a field that is itself structured. *)
Definition doswap_top (f : conv) (ml : bool) (top : list order) : bool :=
  match f with
  | ToNative => let dl := existsb (is_little_endian ml) top in (ml && negb dl) || (negb ml && dl)
  | ToBig => existsb (is_little_endian ml) top
  | ToLittle => existsb (is_big_endian ml) top
  | Swap => true
  end.
Definition apply_top (f : conv) (ml : bool) (top : list order) (a : arr) (ip keep : bool) : outcome :=
  if doswap_top f ml top then byteswap ml a ip keep else noswap a ip.
Definition top_of (fs : list field) : list order := map (fun f => sord (fty f)) fs.
(* the decision the scan would take if it saw the leaves *)
Definition leaf_decision (f : conv) (ml : bool) (a : arr) : bool :=
  match adt a with DStruct fs => doswap_top f ml (top_of fs) | DPlain _ => doswap_top f ml [] end.

(* ---- descriptor stripping, parameterised by what the source says:
        numpy_util.descr_to_native:  nd = list(d); nd[IDX] = nd[IDX][FROM:]; tuple(nd)
        recfile.Util.remove_dtype_byteorder: typestr = dt[IDX][FROM:]; (dt[0], typestr, dt[2]) / (dt[0], typestr) *)
Fixpoint dropn (n : nat) (s : string) : string :=
  match n with O => s | S k => dropn k (drop1 s) end.
Definition descr_map_g (idx from : nat) (d : descr) : option descr :=
  match idx with
  | 0 => Some (map (fun e => match e with (n, t, sh) => (dropn from n, t, sh) end) d)
  | 1 => Some (map (fun e => match e with (n, t, sh) => (n, dropn from t, sh) end) d)
  | _ => None                                      (* slicing the shape tuple: not a descriptor any more *)
  end.
Inductive tcomp := TIdx (i : nat) | TStripped.      (* dt[i] | typestr *)
(* the rebuilt entry keeps name / stripped type string / shape in their places *)
Definition rebuild_ok (t3 t2 : list tcomp) (lentest : nat) : bool :=
  match t3, t2 with
  | [TIdx 0; TStripped; TIdx 2], [TIdx 0; TStripped] => lentest =? 3
  | _, _ => false
  end.
Definition descr_rebuild_g (idx from : nat) (t3 t2 : list tcomp) (lentest : nat) (d : descr) : option descr :=
  if rebuild_ok t3 t2 lentest then
    match idx with 1 => descr_map_g 1 from d | _ => None end
  else None.

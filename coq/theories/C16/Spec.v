(* C16 — the property as Props, and the boolean checkers that the correspondence run
   evaluates on the outputs of the real code (soundness: Proofs.conv_check_sound). *)
From Coq Require Import ZArith List Bool String Ascii.
From Coq.Strings Require Import Byte.
From EsVerif.Common Require Import Base Bytes.
From EsVerif.C16 Require Import Model.
Local Open Scope nat_scope.
Local Open Scope list_scope.

(* ---- meaning of a declared order on the machine [ml]: Some true = most significant byte first *)
Definition endian_of (ml : bool) (o : order) : option bool :=
  match o with
  | LE => Some false
  | BE => Some true
  | NAT => Some (negb ml)
  | NA => None
  end.

(* ---- value of an element: every unit (item, complex half, code point, string byte) is the
        unsigned integer its bytes denote under the declared order.  For floats this is the
        bit pattern, so "same value" is bit-for-bit (NaN payloads, -0.0 included). *)
Definition le_Z (l : list byte) : Z := fold_right (fun b acc => (bZ b + 256 * acc)%Z) 0%Z l.
Definition decb (big : bool) (ch : list byte) : Z := if big then le_Z (rev ch) else le_Z ch.
Definition seg_big (ml : bool) (s : seg) : bool :=
  match endian_of ml (so s) with Some true => true | _ => false end.

Fixpoint row_values (ml : bool) (ly : list seg) (row : list byte) : list Z :=
  match ly with
  | [] => []
  | s :: t => map (decb (seg_big ml s)) (chunks (sc s) (firstn (slen s) row))
              ++ row_values ml t (skipn (slen s) row)
  end.
(* the values of all elements when the buffer is read with layout ly *)
Definition values_as (ml : bool) (ly : list seg) (data : list byte) : list (list Z) :=
  map (row_values ml ly) (chunks (rowsize (geom ly)) data).
Definition arr_values (ml : bool) (a : arr) : list (list Z) := values_as ml (layout (adt a)) (adata a).

(* ---- the inputs: dtypes numpy can build (items of >= 1 byte; exactly the single-byte
        units have no byte order), with all multi-byte fields in one order *)
Definition seg_valid (s : seg) : Prop := 1 <= slen s /\ 1 <= sc s /\ (so s = NA <-> sc s = 1).
Definition valid_dtype (d : dtype) : Prop := layout d <> [] /\ Forall seg_valid (layout d).
Definition uniform (ml : bool) (d : dtype) : Prop :=
  forall s1 s2 b1 b2, In s1 (layout d) -> In s2 (layout d) ->
    endian_of ml (so s1) = Some b1 -> endian_of ml (so s2) = Some b2 -> b1 = b2.

Definition seg_valid_b (s : seg) : bool :=
  (1 <=? slen s) && (1 <=? sc s) && Bool.eqb (order_eqb (so s) NA) (sc s =? 1).
Definition valid_dtype_b (d : dtype) : bool :=
  match layout d with [] => false | _ => forallb seg_valid_b (layout d) end.
Definition bigs (ml : bool) (d : dtype) : list bool :=
  flat_map (fun s => match endian_of ml (so s) with Some b => [b] | None => [] end) (layout d).
Definition uniform_b (ml : bool) (d : dtype) : bool :=
  match bigs ml d with [] => true | b :: t => forallb (Bool.eqb b) t end.
(* sanity of a generated case: the buffer has exactly prod(shape) elements *)
Definition arr_wf_b (a : arr) : bool :=
  valid_dtype_b (adt a) && (List.length (adata a) =? rowsize (geom (layout (adt a))) * prod (ashape a)).

(* ---- field structure: everything but the byte-order letters *)
Definition erase_scalar (s : scalar) : scalar := {| skind := skind s; ssize := ssize s; sord := NA |}.
Definition erase (d : dtype) : dtype :=
  match d with
  | DPlain s => DPlain (erase_scalar s)
  | DStruct fs => DStruct (map (fun f => {| fname := fname f; fty := erase_scalar (fty f); fsub := fsub f |}) fs)
  end.
Definition same_structure (d d' : dtype) : Prop := erase d = erase d'.

(* ---- the requested order.  [b] = "the field is big-endian now" *)
Definition want_big (ml : bool) (f : conv) (b : bool) : bool :=
  match f with
  | ToNative => negb ml
  | ToBig => true
  | ToLittle => false
  | Swap => negb b
  end.
Definition order_requested (ml : bool) (f : conv) (oin oout : order) : Prop :=
  match endian_of ml oin with
  | None => oout = NA                                     (* no byte order before: none after *)
  | Some b => endian_of ml oout = Some (want_big ml f b)
  end.
Definition orders (d : dtype) : list order := map so (layout d).
Definition declares_requested (ml : bool) (f : conv) (din dout : dtype) : Prop :=
  Forall2 (order_requested ml f) (orders din) (orders dout).
(* the input's layout relabelled with the requested order (what the buffer must mean afterwards,
   whether or not the dtype was updated) *)
Definition requested (ml : bool) (f : conv) (ly : list seg) : list seg :=
  map (fun s => match endian_of ml (so s) with
                | None => s
                | Some b => {| slen := slen s; sc := sc s; so := if want_big ml f b then BE else LE |}
                end) ly.

(* ---- the statement about one call [o1] = f(a, inplace, keep_dtype), and the same call
        repeated on its result, [o2] = f(o1.result, inplace, keep_dtype) *)
Record conv_ok (ml : bool) (f : conv) (a : arr) (inplace keep : bool) (o1 o2 : outcome) : Prop := {
  (* field structure and shape preserved *)
  ok_structure : same_structure (adt (o_res o1)) (adt a) /\ ashape (o_res o1) = ashape a;
  (* the buffer holds the same values in the requested order *)
  ok_converted : values_as ml (requested ml f (layout (adt a))) (adata (o_res o1)) = arr_values ml a;
  (* dtype updated: it declares the requested order and every element has its old value *)
  ok_declares : keep = false -> declares_requested ml f (adt a) (adt (o_res o1))
                                /\ arr_values ml (o_res o1) = arr_values ml a;
  (* dtype kept on request *)
  ok_kept : keep = true -> adt (o_res o1) = adt a;
  (* inplace off: an independent copy (even when nothing was swapped), argument untouched *)
  ok_copy : inplace = false -> o_same o1 = false /\ o_shares o1 = false /\ o_inp o1 = a;
  (* inplace on: done in the caller's buffer, that same object returned *)
  ok_inplace : inplace = true -> o_same o1 = true /\ o_inp o1 = o_res o1;
  (* idempotent *)
  ok_idempotent : keep = false -> f <> Swap -> o_res o2 = o_res o1;
  (* swapping twice restores the original bytes *)
  ok_twice : f = Swap -> adata (o_res o2) = adata a
}.

(* ---- boolean versions *)
Definition kind_eqb (a b : kind) : bool :=
  match a, b with
  | KInt, KInt | KUInt, KUInt | KFloat, KFloat | KComplex, KComplex | KBool, KBool
  | KBytes, KBytes | KUnicode, KUnicode => true
  | _, _ => false
  end.
Definition scalar_eqb (a b : scalar) : bool :=
  kind_eqb (skind a) (skind b) && (ssize a =? ssize b) && order_eqb (sord a) (sord b).
Definition natlist_eqb := list_eqb Nat.eqb.
Definition field_eqb (a b : field) : bool :=
  String.eqb (fname a) (fname b) && scalar_eqb (fty a) (fty b) && natlist_eqb (fsub a) (fsub b).
Definition dtype_eqb (a b : dtype) : bool :=
  match a, b with
  | DPlain s, DPlain s' => scalar_eqb s s'
  | DStruct fs, DStruct fs' => list_eqb field_eqb fs fs'
  | _, _ => false
  end.
Definition arr_eqb (a b : arr) : bool :=
  dtype_eqb (adt a) (adt b) && natlist_eqb (ashape a) (ashape b) && bytes_eqb (adata a) (adata b).
Definition outcome_eqb (a b : outcome) : bool :=
  arr_eqb (o_res a) (o_res b) && Bool.eqb (o_same a) (o_same b) && Bool.eqb (o_shares a) (o_shares b)
  && arr_eqb (o_inp a) (o_inp b).
Definition values_eqb := list_eqb zlist_eqb.

Definition order_requested_b (ml : bool) (f : conv) (oin oout : order) : bool :=
  match endian_of ml oin with
  | None => order_eqb oout NA
  | Some b => match endian_of ml oout with Some b' => Bool.eqb b' (want_big ml f b) | None => false end
  end.
Fixpoint forall2b {A B} (p : A -> B -> bool) (l : list A) (l' : list B) : bool :=
  match l, l' with
  | [], [] => true
  | x :: t, y :: t' => p x y && forall2b p t t'
  | _, _ => false
  end.
Definition is_swap (f : conv) : bool := match f with Swap => true | _ => false end.

Definition conv_check (ml : bool) (f : conv) (a : arr) (inplace keep : bool) (o1 o2 : outcome) : bool :=
  dtype_eqb (erase (adt (o_res o1))) (erase (adt a)) && natlist_eqb (ashape (o_res o1)) (ashape a)
  && values_eqb (values_as ml (requested ml f (layout (adt a))) (adata (o_res o1))) (arr_values ml a)
  && (if keep then dtype_eqb (adt (o_res o1)) (adt a)
      else forall2b (order_requested_b ml f) (orders (adt a)) (orders (adt (o_res o1)))
           && values_eqb (arr_values ml (o_res o1)) (arr_values ml a))
  && (if inplace then o_same o1 && arr_eqb (o_inp o1) (o_res o1)
      else negb (o_same o1) && negb (o_shares o1) && arr_eqb (o_inp o1) a)
  && (if negb keep && negb (is_swap f) then arr_eqb (o_res o2) (o_res o1) else true)
  && (if is_swap f then bytes_eqb (adata (o_res o2)) (adata a) else true).

(* ---- predicates: agree with what the declared order means, on every spelling *)
Definition predicates_ok (ml : bool) (o : order) (big little : bool) : Prop :=
  (big = true <-> endian_of ml o = Some true) /\ (little = true <-> endian_of ml o = Some false).
Definition predicates_check (ml : bool) (o : order) (big little : bool) : bool :=
  match endian_of ml o with
  | Some true => big && negb little
  | Some false => negb big && little
  | None => negb big && negb little
  end.

(* ---- descriptor stripping: the result carries no byte-order letter, i.e. it is the same for
        every relabelling of the fields' orders, and numpy reads it back as the same structure
        in native order *)
Definition native_only (d : dtype) : Prop :=
  Forall (fun o => o = NAT \/ o = NA) (orders d).
Definition stripped_ok (din dparsed : dtype) : Prop := same_structure dparsed din /\ native_only dparsed.
Definition stripped_check (din dparsed : dtype) : bool :=
  dtype_eqb (erase dparsed) (erase din)
  && forallb (fun o => order_eqb o NAT || order_eqb o NA) (orders dparsed).

(* Byte strings: files, row buffers and header text are [list byte]; case files carry them
   as hexadecimal text decoded here. *)
From Coq Require Import ZArith List Bool NArith.
From Coq.Strings Require Import Byte String Ascii.
Import ListNotations.

Definition hexval (a : ascii) : N :=
  let n := N_of_ascii a in
  if (48 <=? n)%N && (n <=? 57)%N then n - 48
  else if (97 <=? n)%N && (n <=? 102)%N then n - 87
  else if (65 <=? n)%N && (n <=? 70)%N then n - 55 else 0.

Definition byte_of_N (n : N) : byte :=
  match Byte.of_N n with Some b => b | None => x00 end.

Fixpoint unhex (s : string) : list byte :=
  match s with
  | String a (String b rest) => byte_of_N (16 * hexval a + hexval b) :: unhex rest
  | _ => []
  end.

Definition byte_eqb (a b : byte) : bool := N.eqb (Byte.to_N a) (Byte.to_N b).

Lemma byte_eqb_eq a b : byte_eqb a b = true <-> a = b.
Proof.
  unfold byte_eqb. rewrite N.eqb_eq. split; [|congruence].
  intro H. apply (f_equal Byte.of_N) in H. rewrite !Byte.of_to_N in H. congruence.
Qed.

Fixpoint bytes_eqb (l1 l2 : list byte) : bool :=
  match l1, l2 with
  | [], [] => true
  | a :: t1, b :: t2 => byte_eqb a b && bytes_eqb t1 t2
  | _, _ => false
  end.

Lemma bytes_eqb_eq l1 l2 : bytes_eqb l1 l2 = true <-> l1 = l2.
Proof.
  revert l2; induction l1 as [|a t IH]; intros [|b t2]; simpl; split; intro E;
    try reflexivity; try discriminate.
  - apply andb_true_iff in E as [E1 E2]. apply byte_eqb_eq in E1. apply IH in E2. congruence.
  - inversion E; subst. apply andb_true_iff; split; [apply byte_eqb_eq | apply IH]; reflexivity.
Qed.

Definition bytes_of_string (s : string) : list byte := list_byte_of_string s.
Definition bZ (b : byte) : Z := Z.of_N (Byte.to_N b).
Definition Zb (z : Z) : byte := byte_of_N (Z.to_N (z mod 256)).

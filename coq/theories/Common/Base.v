(* Shared vocabulary of all models: error enum, result monad, verdict encoding, list helpers. *)
From Coq Require Export ZArith List Bool Lia.
Export ListNotations.
Open Scope Z_scope.

Inductive err := EValue | EIndex | ERuntime | EType | EKey | EOther | EFuel.
Inductive result (A : Type) := Ok (a : A) | Err (e : err).
Arguments Ok {A} a.
Arguments Err {A} e.

Definition err_eqb (a b : err) : bool :=
  match a, b with
  | EValue, EValue | EIndex, EIndex | ERuntime, ERuntime | EType, EType
  | EKey, EKey | EOther, EOther | EFuel, EFuel => true
  | _, _ => false
  end.

Definition result_eqb {A} (eqb : A -> A -> bool) (x y : result A) : bool :=
  match x, y with
  | Ok a, Ok b => eqb a b
  | Err a, Err b => err_eqb a b
  | _, _ => false
  end.

Definition bind {A B} (x : result A) (f : A -> result B) : result B :=
  match x with Ok a => f a | Err e => Err e end.
Notation "'do' x <- m ; k" := (bind m (fun x => k)) (at level 200, x pattern, m at level 100, k at level 200).

Definition is_ok {A} (x : result A) : bool := match x with Ok _ => true | Err _ => false end.

(* verdict of one correspondence case: bit 0 = model differs from implementation,
   bit 1 = the property checker rejects the implementation's output *)
Definition verdict (agree ok : bool) : Z := (if agree then 0 else 1) + (if ok then 0 else 2).

Fixpoint list_eqb {A} (eqb : A -> A -> bool) (l1 l2 : list A) : bool :=
  match l1, l2 with
  | [], [] => true
  | x :: t1, y :: t2 => eqb x y && list_eqb eqb t1 t2
  | _, _ => false
  end.

Lemma list_eqb_spec {A} (eqb : A -> A -> bool) :
  (forall x y, eqb x y = true <-> x = y) ->
  forall l1 l2, list_eqb eqb l1 l2 = true <-> l1 = l2.
Proof.
  intros H l1; induction l1 as [|x t IH]; intros [|y t2]; simpl; split; intro E;
    try reflexivity; try discriminate.
  - apply andb_true_iff in E as [E1 E2]. apply H in E1. apply IH in E2. congruence.
  - inversion E; subst. apply andb_true_iff; split; [apply H | apply IH]; reflexivity.
Qed.

Definition pair_eqb {A B} (ea : A -> A -> bool) (eb : B -> B -> bool) (p q : A * B) : bool :=
  ea (fst p) (fst q) && eb (snd p) (snd q).

Definition option_eqb {A} (eqb : A -> A -> bool) (x y : option A) : bool :=
  match x, y with
  | Some a, Some b => eqb a b
  | None, None => true
  | _, _ => false
  end.

Definition zlist_eqb := list_eqb Z.eqb.

Lemma zlist_eqb_spec l1 l2 : zlist_eqb l1 l2 = true <-> l1 = l2.
Proof. apply list_eqb_spec. intros; apply Z.eqb_eq. Qed.

(* total list access with explicit default; theorems always guard the index *)
Definition zget (l : list Z) (i : Z) : Z := nth (Z.to_nat i) l 0.

Fixpoint set_nth {A} (l : list A) (n : nat) (v : A) : list A :=
  match l, n with
  | [], _ => []
  | _ :: t, O => v :: t
  | x :: t, S k => x :: set_nth t k v
  end.
Definition zset {A} (l : list A) (i : Z) (v : A) : list A :=
  if i <? 0 then l else set_nth l (Z.to_nat i) v.

Lemma set_nth_length {A} (l : list A) n v : length (set_nth l n v) = length l.
Proof. revert n; induction l as [|x t IH]; intros [|n]; simpl; auto. Qed.

Lemma nth_set_nth_eq {A} (l : list A) n v d : (n < length l)%nat -> nth n (set_nth l n v) d = v.
Proof. revert n; induction l as [|x t IH]; intros [|n] H; simpl in *; try lia; auto. apply IH; lia. Qed.

Lemma nth_set_nth_neq {A} (l : list A) n m v d : n <> m -> nth m (set_nth l n v) d = nth m l d.
Proof. revert n m; induction l as [|x t IH]; intros [|n] [|m] H; simpl; auto; try congruence. Qed.

Definition zsum (l : list Z) : Z := fold_right Z.add 0 l.

Fixpoint zseq (start : Z) (n : nat) : list Z :=
  match n with O => [] | S k => start :: zseq (start + 1) k end.

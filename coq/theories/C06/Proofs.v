(* C06 — the two element types the checks run at are decidable total orders; the code as
   found (unique with val = arr[0]) is refuted; a few derived statements. *)
From Coq Require Import Sorting.Permutation Sorting.Sorted Arith.
From EsVerif.Common Require Import Base.
From EsVerif.C06 Require Import Model Spec Lemmas MatchProofs DedupProofs.
Local Open Scope nat_scope.

Lemma z_total_order : total_order zltb zeqb.
Proof.
  unfold zltb, zeqb. constructor.
  - intros x y. apply Z.eqb_eq.
  - intro x. apply Z.ltb_irrefl.
  - intros x y z H1 H2. apply Z.ltb_lt in H1, H2. apply Z.ltb_lt. lia.
  - intros x y H1 H2. apply Z.ltb_ge in H1, H2. lia.
Qed.

Lemma lex_irrefl x : lex_ltb x x = false.
Proof. induction x as [|a s IH]; simpl; [reflexivity|]. rewrite Z.ltb_irrefl, Z.eqb_refl, IH. reflexivity. Qed.

Lemma lex_trans x : forall y z, lex_ltb x y = true -> lex_ltb y z = true -> lex_ltb x z = true.
Proof.
  induction x as [|a s IH]; intros [|b t] [|c u]; simpl; intros H1 H2; try discriminate; try reflexivity.
  apply orb_true_iff in H1. apply orb_true_iff in H2. apply orb_true_iff.
  destruct H1 as [H1|H1], H2 as [H2|H2].
  - left. apply Z.ltb_lt in H1, H2. apply Z.ltb_lt. lia.
  - apply andb_true_iff in H2 as [H2 _]. apply Z.eqb_eq in H2. subst. left; exact H1.
  - apply andb_true_iff in H1 as [H1 _]. apply Z.eqb_eq in H1. subst. left; exact H2.
  - apply andb_true_iff in H1 as [H1 H1']. apply andb_true_iff in H2 as [H2 H2'].
    apply Z.eqb_eq in H1, H2. subst. right. rewrite Z.eqb_refl. simpl. eapply IH; eauto.
Qed.

Lemma lex_total x : forall y, lex_ltb x y = false -> lex_ltb y x = false -> x = y.
Proof.
  induction x as [|a s IH]; intros [|b t]; simpl; intros H1 H2; try discriminate; try reflexivity.
  apply orb_false_iff in H1 as [H1 H1']. apply orb_false_iff in H2 as [H2 H2'].
  apply Z.ltb_ge in H1, H2. assert (a = b) by lia. subst b.
  rewrite Z.eqb_refl in H1', H2'. simpl in H1', H2'. f_equal. apply IH; assumption.
Qed.

Lemma lex_total_order : total_order lex_ltb lex_eqb.
Proof.
  constructor.
  - intros x y. unfold lex_eqb. apply list_eqb_spec. intros; apply Z.eqb_eq.
  - apply lex_irrefl.
  - intros x y z. apply lex_trans.
  - intros x y. apply lex_total.
Qed.

(* the code as found: unique([5,1,5]) = [0] although numpy's argsort is a sorting permutation *)
Lemma unique_as_found_refuted :
  exists s a keep, a <> [] /\ sorting_perm zltb s a
                   /\ unique_orig_with zeqb s a = Ok keep /\ ~ one_per_value a keep.
Proof.
  exists [1; 0; 2], [5; 1; 5]%Z, [0]. split; [discriminate|]. split; [|split].
  - apply (sorting_perm_check_sound _ zltb zeqb z_total_order). reflexivity.
  - reflexivity.
  - intros [_ [_ U]]. destruct (U 1%Z) as [k [[Hk Hv] _]]; [right; left; reflexivity|].
    destruct Hk as [E|[]]. subst k. discriminate.
Qed.

(* match_ok says exactly which positions of the second array are reported, once each *)
Lemma match_ok_exact {A} (a1 a2 : list A) o :
  match_ok a1 a2 o ->
  NoDup (snd o) /\ length (fst o) = length (snd o)
  /\ forall j, In j (snd o) <-> exists x, nth_error a2 j = Some x /\ In x a1.
Proof.
  intro H. split; [|split].
  - destruct H as [_ [S _]]. clear - S. induction S as [|x t St IH Hx]; constructor; [|exact IH].
    intro Hin. rewrite Forall_forall in Hx. apply Hx in Hin. lia.
  - destruct H as [F _]. eapply Forall2_len; exact F.
  - apply match_ok_members. exact H.
Qed.

Lemma match_multi_correct {A} (ltb eqb : A -> A -> bool) : total_order ltb eqb ->
  forall is_string presorted a1 a2, NoDup a1 -> a1 <> [] -> a2 <> [] ->
  exists o, match_multi ltb eqb is_string presorted a1 a2 = Ok o /\ match_ok a1 a2 o.
Proof. intros TO s p a1 a2. unfold match_multi. apply match_correct. exact TO. Qed.

Lemma match_scalars {A} (ltb eqb : A -> A -> bool) : total_order ltb eqb ->
  forall is_string presorted x a2, a2 <> [] ->
  exists o, match_ ltb eqb is_string presorted [x] a2 = Ok o /\ match_ok [x] a2 o.
Proof.
  intros TO s p x a2 N2.
  assert (ND : NoDup [x]) by (constructor; [intros []|constructor]).
  assert (E : match_ ltb eqb s p [x] a2 = match_ ltb eqb s false [x] a2).
  { destruct p; [|reflexivity]. apply match_presorted_same; auto; [discriminate|]. repeat constructor. }
  rewrite E. apply match_correct; auto. discriminate.
Qed.

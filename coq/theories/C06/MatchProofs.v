(* C06 — match: the model meets match_ok; the specification determines the answer; the
   presorted variant; rejection of repeated values; checker soundness and completeness. *)
From Coq Require Import Sorting.Permutation Sorting.Sorted Arith.
From EsVerif.Common Require Import Base.
From EsVerif.C06 Require Import Model Spec Lemmas.
Local Open Scope nat_scope.

Section Match.
  Variable A : Type.
  Variable ltb eqb : A -> A -> bool.
  Hypothesis TO : total_order ltb eqb.

  (* the part of match_with after the guards, with the arrays abstract *)
  Definition match_body (is_string presorted : bool) (st1 : list nat) (a1 a2 : list A) (d1 d2 : A)
    : result (list nat * list nat) :=
    let n := length a1 in
    do view <- (if presorted then Ok a1 else ogather a1 st1);
    let sub1 := map (count_lt ltb view) a2 in
    let sub1 := if is_string || ltb (maxl ltb d1 a1) (maxl ltb d2 a2)
                then map (clamp_hi n) sub1 else sub1 in
    if presorted then
      do vals <- ogather a1 sub1;
      let sub2 := where_ (eq_mask eqb vals a2) in
      do o1 <- ogather sub1 sub2;
      Ok (o1, sub2)
    else
      do i1 <- ogather st1 sub1;
      do vals <- ogather a1 i1;
      let sub2 := where_ (eq_mask eqb vals a2) in
      do t <- ogather sub1 sub2;
      do o1 <- ogather st1 t;
      Ok (o1, sub2).

  Lemma match_with_cons str pres st d1 t1 d2 t2 :
    match_with ltb eqb str pres st (d1 :: t1) (d2 :: t2) =
    if negb (nodupb eqb (d1 :: t1)) then Err EValue
    else match_body str pres st (d1 :: t1) (d2 :: t2) d1 d2.
  Proof. reflexivity. Qed.

  (* position searched for v: searchsorted-left, clamped at the high end when [c] *)
  Definition pos (c : bool) (n : nat) (view : list A) (v : A) : nat :=
    if c then clamp_hi n (count_lt ltb view v) else count_lt ltb view v.

  Lemma sub1_pos (c : bool) n view (a2 : list A) :
    (if c then map (clamp_hi n) (map (count_lt ltb view) a2) else map (count_lt ltb view) a2)
    = map (pos c n view) a2.
  Proof. unfold pos. destruct c; [rewrite map_map|]; reflexivity. Qed.

  Lemma pos_bound c n view v :
    length view = n -> 1 <= n ->
    (c = true \/ exists m, In m view /\ ltb m v = false) -> pos c n view v < n.
  Proof.
    intros L N H. unfold pos. pose proof (count_lt_le _ ltb view v) as B.
    destruct c.
    - unfold clamp_hi. destruct (count_lt ltb view v =? n) eqn:E; [lia|].
      apply Nat.eqb_neq in E. lia.
    - destruct H as [H|[m [Hm Hv]]]; [discriminate|].
      pose proof (count_lt_lt _ ltb view v m Hm Hv). lia.
  Qed.

  Lemma pos_found c n view v :
    NoDup view -> sorted ltb view -> length view = n -> In v view ->
    nth_error view (pos c n view v) = Some v.
  Proof.
    intros ND S L Hin. destruct (in_split _ _ Hin) as [l1 [l2 E]]. subst view.
    assert (Hc : count_lt ltb (l1 ++ v :: l2) v = length l1) by (apply (count_lt_split _ ltb eqb TO); assumption).
    assert (Hp : pos c n (l1 ++ v :: l2) v = length l1).
    { unfold pos. rewrite Hc. destruct c; [|reflexivity]. unfold clamp_hi.
      rewrite app_length in L. simpl in L.
      destruct (length l1 =? n) eqn:E; [apply Nat.eqb_eq in E; lia | reflexivity]. }
    rewrite Hp. rewrite nth_error_app2 by lia. rewrite Nat.sub_diag. reflexivity.
  Qed.

  (* when the clamp is switched off every probe is <= max(arr1) *)
  Lemma unclamped_has_upper str d1 a1 d2 a2 v :
    In d1 a1 -> In d2 a2 -> In v a2 ->
    str || ltb (maxl ltb d1 a1) (maxl ltb d2 a2) = false ->
    exists m, In m a1 /\ ltb m v = false.
  Proof.
    intros H1 H2 Hv Hc. apply orb_false_iff in Hc as [_ Hc].
    destruct (maxl_spec _ ltb eqb TO a1 d1) as [I1 _].
    destruct (maxl_spec _ ltb eqb TO a2 d2) as [_ I2].
    exists (maxl ltb d1 a1). split.
    - destruct I1 as [E|I]; [rewrite <- E; exact H1 | exact I].
    - eapply (le_trans _ ltb eqb TO); [|exact Hc]. apply I2. right. exact Hv.
  Qed.

  Lemma eq_mask_map (h : A -> A) l : eq_mask eqb (map h l) l = map (fun v => eqb (h v) v) l.
  Proof. induction l as [|x t IH]; simpl; [reflexivity|]. rewrite IH. reflexivity. Qed.

  Lemma nth_map_pos (f : A -> nat) l j v : nth_error l j = Some v -> nth j (map f l) 0 = f v.
  Proof. intro H. apply nth_error_nth. apply map_nth_error. exact H. Qed.

  (* ----------------------------------------------------- the general (argsort) path *)
  Lemma body_nonpresorted str st a1 a2 d1 d2 :
    NoDup a1 -> In d1 a1 -> In d2 a2 -> sorting_perm ltb st a1 ->
    exists o, match_body str false st a1 a2 d1 d2 = Ok o /\ match_ok a1 a2 o.
  Proof.
    intros ND Hd1 Hd2 SP.
    destruct (sorting_perm_facts _ ltb st a1 SP) as [Lst [NDst Hst]].
    destruct SP as [P [view [Gv Sv]]].
    set (n := length a1) in *.
    assert (N1 : 1 <= n) by (unfold n; destruct a1; [destruct Hd1 | simpl; lia]).
    assert (Pv : Permutation view a1) by (eapply gather_perm; eauto).
    assert (NDv : NoDup view) by (apply (Permutation_NoDup (Permutation_sym Pv)); exact ND).
    assert (Lv : length view = n) by (apply Permutation_length; exact Pv).
    pose proof (proj1 (gather_Forall2 _ _ _) Gv) as Fv.
    unfold match_body. fold n. cbv beta iota zeta.
    unfold ogather at 1. rewrite Gv. cbn [bind].
    rewrite sub1_pos.
    set (c := str || ltb (maxl ltb d1 a1) (maxl ltb d2 a2)).
    set (ps := pos c n view).
    (* (B) every searched position is inside the array *)
    assert (B : forall v, In v a2 -> ps v < n).
    { intros v Hv. apply pos_bound; [exact Lv | exact N1 |].
      destruct c eqn:Ec; [left; reflexivity | right].
      destruct (unclamped_has_upper str d1 a1 d2 a2 v Hd1 Hd2 Hv Ec) as [m [Hm Hmv]].
      exists m. split; [|exact Hmv]. apply (Permutation_in _ (Permutation_sym Pv)). exact Hm. }
    (* (C) a probe whose value occurs in arr1 is led to that element *)
    assert (C : forall v, In v a1 -> exists i, nth_error st (ps v) = Some i /\ nth_error a1 i = Some v).
    { intros v Hv. apply (Permutation_in _ (Permutation_sym Pv)) in Hv.
      pose proof (pos_found c n view v NDv Sv Lv Hv) as F.
      destruct (Forall2_nth_error_r _ _ _ _ _ Fv F) as [i [H1 H2]]. exists i; auto. }
    set (sub1 := map ps a2).
    assert (Lsub1 : length sub1 = length a2) by (unfold sub1; apply map_length).
    assert (Bsub1 : forall k, In k sub1 -> k < length st).
    { intros k Hk. unfold sub1 in Hk. apply in_map_iff in Hk as [v [E Hv]]. subst k. rewrite Lst. apply B; exact Hv. }
    unfold ogather at 1. rewrite (gather_map_nth st 0 sub1 Bsub1). cbn [bind].
    set (g := fun v => nth (ps v) st 0).
    assert (Ei1 : map (fun i => nth i st 0) sub1 = map g a2) by (unfold sub1; rewrite map_map; reflexivity).
    rewrite Ei1.
    assert (Bg : forall v, In v a2 -> g v < n).
    { intros v Hv. apply Hst. unfold g. apply nth_In. rewrite Lst. apply B; exact Hv. }
    assert (Bi1 : forall i, In i (map g a2) -> i < length a1).
    { intros i Hi. apply in_map_iff in Hi as [v [E Hv]]. subst i. apply Bg; exact Hv. }
    unfold ogather at 1. rewrite (gather_map_nth a1 d1 (map g a2) Bi1). cbn [bind].
    rewrite map_map. rewrite (eq_mask_map (fun v => nth (g v) a1 d1) a2).
    set (p := fun v => eqb (nth (g v) a1 d1) v).
    set (sub2 := where_ (map p a2)).
    assert (Hsub2 : forall j, In j sub2 -> exists v, nth_error a2 j = Some v /\ p v = true).
    { intros j Hj. unfold sub2 in Hj. apply where_In in Hj. rewrite nth_error_map in Hj.
      destruct (nth_error a2 j) as [v|]; [|discriminate]. exists v. split; [reflexivity|].
      simpl in Hj. congruence. }
    assert (Bsub2 : forall j, In j sub2 -> j < length sub1).
    { intros j Hj. destruct (Hsub2 j Hj) as [v [Hv _]]. rewrite Lsub1. apply nth_error_Some. congruence. }
    unfold ogather at 1. rewrite (gather_map_nth sub1 0 sub2 Bsub2). cbn [bind].
    assert (Bt : forall k, In k (map (fun j => nth j sub1 0) sub2) -> k < length st).
    { intros k Hk. apply in_map_iff in Hk as [j [E Hj]]. subst k. apply Bsub1. apply nth_In. apply Bsub2; exact Hj. }
    unfold ogather at 1. rewrite (gather_map_nth st 0 _ Bt). cbn [bind].
    rewrite map_map. eexists. split; [reflexivity|].
    unfold match_ok. cbn [fst snd]. split; [|split].
    - apply Forall2_map_self. intros j Hj. destruct (Hsub2 j Hj) as [v [Hv Hp]].
      exists v. split; [|exact Hv].
      unfold sub1. rewrite (nth_map_pos ps a2 j v Hv). fold (g v).
      unfold p in Hp. apply (to_eqb _ _ _ TO) in Hp. rewrite <- Hp at 2.
      apply nth_error_nth'. apply Bg. eapply nth_error_In; exact Hv.
    - unfold sub2, where_. apply where_from_sorted.
    - intros j x Hj Hx. unfold sub2. apply where_In. rewrite (map_nth_error p j a2 Hj). f_equal.
      unfold p. apply (to_eqb _ _ _ TO). destruct (C x Hx) as [i [H1 H2]].
      unfold g. rewrite (nth_error_nth st (ps x) 0 H1). apply nth_error_nth. exact H2.
  Qed.

  (* --------------------------------------------------------- the presorted path *)
  Lemma body_presorted str st a1 a2 d1 d2 :
    NoDup a1 -> In d1 a1 -> In d2 a2 -> sorted ltb a1 ->
    exists o, match_body str true st a1 a2 d1 d2 = Ok o /\ match_ok a1 a2 o.
  Proof.
    intros ND Hd1 Hd2 S1.
    set (n := length a1) in *.
    assert (N1 : 1 <= n) by (unfold n; destruct a1; [destruct Hd1 | simpl; lia]).
    unfold match_body. fold n. cbv beta iota zeta. cbn [bind].
    rewrite sub1_pos.
    set (c := str || ltb (maxl ltb d1 a1) (maxl ltb d2 a2)).
    set (ps := pos c n a1).
    assert (B : forall v, In v a2 -> ps v < n).
    { intros v Hv. apply pos_bound; [reflexivity | exact N1 |].
      destruct c eqn:Ec; [left; reflexivity | right].
      exact (unclamped_has_upper str d1 a1 d2 a2 v Hd1 Hd2 Hv Ec). }
    assert (C : forall v, In v a1 -> nth_error a1 (ps v) = Some v).
    { intros v Hv. apply pos_found; auto. }
    set (sub1 := map ps a2).
    assert (Lsub1 : length sub1 = length a2) by (unfold sub1; apply map_length).
    assert (Bsub1 : forall k, In k sub1 -> k < length a1).
    { intros k Hk. unfold sub1 in Hk. apply in_map_iff in Hk as [v [E Hv]]. subst k. apply B; exact Hv. }
    unfold ogather at 1. rewrite (gather_map_nth a1 d1 sub1 Bsub1). cbn [bind].
    assert (Ev : map (fun i => nth i a1 d1) sub1 = map (fun v => nth (ps v) a1 d1) a2)
      by (unfold sub1; rewrite map_map; reflexivity).
    rewrite Ev. rewrite (eq_mask_map (fun v => nth (ps v) a1 d1) a2).
    set (p := fun v => eqb (nth (ps v) a1 d1) v).
    set (sub2 := where_ (map p a2)).
    assert (Hsub2 : forall j, In j sub2 -> exists v, nth_error a2 j = Some v /\ p v = true).
    { intros j Hj. unfold sub2 in Hj. apply where_In in Hj. rewrite nth_error_map in Hj.
      destruct (nth_error a2 j) as [v|]; [|discriminate]. exists v. split; [reflexivity|].
      simpl in Hj. congruence. }
    assert (Bsub2 : forall j, In j sub2 -> j < length sub1).
    { intros j Hj. destruct (Hsub2 j Hj) as [v [Hv _]]. rewrite Lsub1. apply nth_error_Some. congruence. }
    unfold ogather at 1. rewrite (gather_map_nth sub1 0 sub2 Bsub2). cbn [bind].
    eexists. split; [reflexivity|].
    unfold match_ok. cbn [fst snd]. split; [|split].
    - apply Forall2_map_self. intros j Hj. destruct (Hsub2 j Hj) as [v [Hv Hp]].
      exists v. split; [|exact Hv].
      unfold sub1. rewrite (nth_map_pos ps a2 j v Hv).
      unfold p in Hp. apply (to_eqb _ _ _ TO) in Hp. rewrite <- Hp at 2.
      apply nth_error_nth'. apply B. eapply nth_error_In; exact Hv.
    - unfold sub2, where_. apply where_from_sorted.
    - intros j x Hj Hx. unfold sub2. apply where_In. rewrite (map_nth_error p j a2 Hj). f_equal.
      unfold p. apply (to_eqb _ _ _ TO). apply nth_error_nth. apply C. exact Hx.
  Qed.

  (* ------------------------------------------------------------- theorems *)
  Theorem match_with_correct str s a1 a2 :
    NoDup a1 -> a1 <> [] -> a2 <> [] -> sorting_perm ltb s a1 ->
    exists o, match_with ltb eqb str false s a1 a2 = Ok o /\ match_ok a1 a2 o.
  Proof.
    intros ND N1 N2 SP. destruct a1 as [|d1 t1]; [congruence|]. destruct a2 as [|d2 t2]; [congruence|].
    rewrite match_with_cons. rewrite (proj2 (nodupb_NoDup _ ltb eqb TO _) ND). cbn [negb].
    apply body_nonpresorted; auto; left; reflexivity.
  Qed.

  Theorem match_with_presorted_correct str s a1 a2 :
    NoDup a1 -> a1 <> [] -> a2 <> [] -> sorted ltb a1 ->
    exists o, match_with ltb eqb str true s a1 a2 = Ok o /\ match_ok a1 a2 o.
  Proof.
    intros ND N1 N2 S1. destruct a1 as [|d1 t1]; [congruence|]. destruct a2 as [|d2 t2]; [congruence|].
    rewrite match_with_cons. rewrite (proj2 (nodupb_NoDup _ ltb eqb TO _) ND). cbn [negb].
    apply body_presorted; auto; left; reflexivity.
  Qed.

  Theorem match_with_rejects_dups str pres s a1 a2 :
    ~ NoDup a1 -> a2 <> [] -> match_with ltb eqb str pres s a1 a2 = Err EValue.
  Proof.
    intros ND N2. destruct a1 as [|d1 t1]; [exfalso; apply ND; constructor|].
    destruct a2 as [|d2 t2]; [congruence|]. rewrite match_with_cons.
    destruct (nodupb eqb (d1 :: t1)) eqn:E; [|reflexivity].
    exfalso. apply ND. apply (nodupb_NoDup _ ltb eqb TO). exact E.
  Qed.

  (* the specification has at most one solution: both index arrays are determined *)
  Lemma match_ok_members (a1 a2 : list A) o :
    match_ok a1 a2 o -> forall j, In j (snd o) <-> exists x, nth_error a2 j = Some x /\ In x a1.
  Proof.
    intros H j. destruct o as [o1 o2]. destruct H as [F [_ Cm]]. cbn [fst snd] in *. split.
    - clear Cm. induction F as [|i j' t1 t2 [x [H1 H2]] _ IH]; simpl; [tauto|].
      intros [E|Hj]; [subst; exists x; split; [exact H2 | eapply nth_error_In; exact H1] | auto].
    - intros [x [H1 H2]]. eapply Cm; eauto.
  Qed.

  Theorem match_ok_unique (a1 a2 : list A) o o' :
    NoDup a1 -> match_ok a1 a2 o -> match_ok a1 a2 o' -> o = o'.
  Proof.
    intros ND H H'. pose proof (match_ok_members _ _ _ H) as M. pose proof (match_ok_members _ _ _ H') as M'.
    destruct o as [o1 o2], o' as [o1' o2']. destruct H as [F [S _]], H' as [F' [S' _]]. cbn [fst snd] in *.
    assert (o2 = o2').
    { apply ssorted_lt_ext; auto. intro j. rewrite M, M'. tauto. }
    subst o2'. f_equal. clear M M' S S'.
    revert o1' F'. induction F as [|i j t1 t2 [x [H1 H2]] _ IH]; intros o1' F'.
    - inversion F'; reflexivity.
    - inversion F' as [|i' ? t1' ? [x' [H1' H2']] Ft]; subst. f_equal; [|apply IH; exact Ft].
      rewrite H2 in H2'. inversion H2'; subst x'.
      apply (proj1 (NoDup_nth_error a1) ND); [apply nth_error_Some|]; congruence.
  Qed.

  (* presorted=True on a sorted first array gives the same answer as the general path *)
  Theorem match_with_presorted_same str s s' a1 a2 :
    a1 <> [] -> a2 <> [] -> sorted ltb a1 -> sorting_perm ltb s a1 ->
    match_with ltb eqb str true s' a1 a2 = match_with ltb eqb str false s a1 a2.
  Proof.
    intros N1 N2 S1 SP. destruct (nodupb eqb a1) eqn:E.
    - apply (nodupb_NoDup _ ltb eqb TO) in E.
      destruct (match_with_presorted_correct str s' a1 a2 E N1 N2 S1) as [o [E1 H1]].
      destruct (match_with_correct str s a1 a2 E N1 N2 SP) as [o' [E2 H2]].
      rewrite E1, E2. f_equal. eapply match_ok_unique; eauto.
    - assert (ND : ~ NoDup a1) by (intro ND; apply (nodupb_NoDup _ ltb eqb TO) in ND; congruence).
      rewrite !match_with_rejects_dups; auto.
  Qed.

  (* ------------------------------------------------------- the model's own argsort *)
  Definition ent_le (e f : nat * A) : Prop := ltb (snd f) (snd e) = false.

  Lemma ins_perm e l : Permutation (e :: l) (ins ltb e l).
  Proof.
    induction l as [|h t IH]; simpl; [apply Permutation_refl|].
    destruct (ltb (snd e) (snd h)); [apply Permutation_refl|].
    eapply Permutation_trans; [apply perm_swap|]. apply perm_skip. exact IH.
  Qed.

  Lemma ins_sorted e l : StronglySorted ent_le l -> StronglySorted ent_le (ins ltb e l).
  Proof.
    induction 1 as [|h t Ht IH Hh]; simpl; [repeat constructor|].
    destruct (ltb (snd e) (snd h)) eqn:E.
    - constructor; [constructor; assumption|]. constructor.
      + unfold ent_le. apply (ltb_asym _ ltb eqb TO). exact E.
      + rewrite Forall_forall in *. intros x Hx. unfold ent_le in *.
        eapply (le_trans _ ltb eqb TO); [|apply Hh; exact Hx]. apply (ltb_asym _ ltb eqb TO). exact E.
    - constructor; [exact IH|]. rewrite Forall_forall in *. intros x Hx.
      apply (Permutation_in _ (Permutation_sym (ins_perm e t))) in Hx. destruct Hx as [Ex|Hx].
      + subst x. exact E.
      + apply Hh; exact Hx.
  Qed.

  Lemma isort_perm l : Permutation l (fold_right (ins ltb) [] l).
  Proof.
    induction l as [|x t IH]; simpl; [constructor|].
    eapply Permutation_trans; [apply perm_skip; exact IH | apply ins_perm].
  Qed.

  Lemma isort_sorted l : StronglySorted ent_le (fold_right (ins ltb) [] l).
  Proof. induction l as [|x t IH]; simpl; [constructor | apply ins_sorted; exact IH]. Qed.

  Lemma map_fst_combine {B C} (l : list B) (l' : list C) : length l = length l' -> map fst (combine l l') = l.
  Proof. revert l'; induction l as [|x t IH]; intros [|y t'] H; simpl in *; try discriminate; [reflexivity|]. f_equal. apply IH. lia. Qed.

  Lemma ssorted_map {B C} (R : C -> C -> Prop) (f : B -> C) l :
    StronglySorted (fun x y => R (f x) (f y)) l -> StronglySorted R (map f l).
  Proof.
    induction 1 as [|x t Ht IH Hx]; simpl; constructor; [exact IH|].
    rewrite Forall_forall in *. intros y Hy. apply in_map_iff in Hy as [z [E Hz]]. subst y. apply Hx; exact Hz.
  Qed.

  Theorem argsort_sorting_perm a : sorting_perm ltb (argsort ltb a) a.
  Proof.
    unfold argsort. set (es := combine (seq 0 (length a)) a). set (srt := fold_right (ins ltb) [] es).
    assert (P : Permutation es srt) by apply isort_perm.
    split.
    - apply Permutation_sym. replace (seq 0 (length a)) with (map fst es).
      + apply Permutation_map. exact P.
      + unfold es. apply map_fst_combine. apply seq_length.
    - exists (map snd srt). split.
      + apply gather_Forall2.
        assert (H : forall e, In e srt -> nth_error a (fst e) = Some (snd e)).
        { intros [i x] He. apply (Permutation_in _ (Permutation_sym P)) in He. unfold es in He.
          apply combine_seq_In in He. rewrite Nat.sub_0_r in He. simpl. tauto. }
        clear P. induction srt as [|e t IH]; simpl; constructor.
        * apply H; left; reflexivity.
        * apply IH. intros; apply H; right; assumption.
      + unfold sorted. apply ssorted_map. apply isort_sorted.
  Qed.

  Theorem match_correct str a1 a2 :
    NoDup a1 -> a1 <> [] -> a2 <> [] ->
    exists o, match_ ltb eqb str false a1 a2 = Ok o /\ match_ok a1 a2 o.
  Proof. intros. apply match_with_correct; auto. apply argsort_sorting_perm. Qed.

  Theorem match_presorted_same str a1 a2 :
    a1 <> [] -> a2 <> [] -> sorted ltb a1 ->
    match_ ltb eqb str true a1 a2 = match_ ltb eqb str false a1 a2.
  Proof. intros. apply match_with_presorted_same; auto. apply argsort_sorting_perm. Qed.

  Theorem match_rejects_dups str pres a1 a2 :
    ~ NoDup a1 -> a2 <> [] -> match_ ltb eqb str pres a1 a2 = Err EValue.
  Proof. intros. apply match_with_rejects_dups; auto. Qed.

  (* ------------------------------------------------------------- checker *)
  Lemma pairs_b_Forall2 a1 a2 o1 o2 :
    pairs_b eqb a1 a2 o1 o2 = true <->
    Forall2 (fun i j => exists x, nth_error a1 i = Some x /\ nth_error a2 j = Some x) o1 o2.
  Proof.
    revert o2; induction o1 as [|i t1 IH]; intros [|j t2]; simpl; split; intro H;
      try discriminate; try constructor; try solve [inversion H].
    - apply andb_true_iff in H as [H1 H2]. destruct (nth_error a1 i) as [x|]; [|discriminate].
      destruct (nth_error a2 j) as [y|]; [|discriminate]. apply (to_eqb _ _ _ TO) in H1. subst y. exists x; auto.
    - apply andb_true_iff in H as [_ H2]. apply IH; exact H2.
    - inversion H as [|? ? ? ? [x [H1 H2]] Ft]; subst. rewrite H1, H2. apply andb_true_iff. split.
      + apply (to_eqb _ _ _ TO). reflexivity.
      + apply IH; exact Ft.
  Qed.

  Lemma mem_nat_In x l : mem_nat x l = true <-> In x l.
  Proof.
    unfold mem_nat. rewrite existsb_exists. split.
    - intros [y [Hy E]]. apply Nat.eqb_eq in E. subst; exact Hy.
    - intro H. exists x; split; [exact H | apply Nat.eqb_refl].
  Qed.

  Theorem match_check_iff a1 a2 o : match_check eqb a1 a2 o = true <-> match_ok a1 a2 o.
  Proof.
    unfold match_check, match_ok. rewrite !andb_true_iff, pairs_b_Forall2, forallb_forall. split.
    - intros [[H1 H2] H3]. split; [exact H1|]. split; [apply ascending_b_sorted; exact H2|].
      intros j x Hj Hx. specialize (H3 (j, x)). cbn [fst snd] in H3.
      assert (I : In (j, x) (combine (seq 0 (length a2)) a2)) by (apply combine_seq_In; rewrite Nat.sub_0_r; split; [lia|exact Hj]).
      apply H3 in I. rewrite (proj2 (memb_In _ ltb eqb TO x a1) Hx) in I. cbn [implb] in I.
      apply mem_nat_In. exact I.
    - intros [H1 [H2 H3]]. split; [split; [exact H1 | apply sorted_ascending_b; exact H2]|].
      intros [j x] I. cbn [fst snd]. apply combine_seq_In in I. rewrite Nat.sub_0_r in I. destruct I as [_ Hj].
      destruct (memb eqb x a1) eqn:E; [|reflexivity]. cbn [implb].
      apply mem_nat_In. apply (H3 j x Hj). apply (memb_In _ ltb eqb TO). exact E.
  Qed.
End Match.

(* C06 — the promoted search characterised exactly: for ANY search order [sltb] that never puts
   a probe above an element that is >= it (true of "compare the binary64 roundings" because
   rounding is monotone), match_with2 never fails, never reports an unequal pair, reports
   positions in ascending order, and reports position j of a probe x occurring in the first
   array IF AND ONLY IF the search lands on x, i.e. the number of elements below x in the search
   order equals the number of elements below x.  Instantiated at round53: a probe is lost iff a
   smaller element of the first array rounds to the same double. *)
From Coq Require Import Sorting.Permutation Sorting.Sorted Arith.
From EsVerif.Common Require Import Base.
From EsVerif.C06 Require Import Model Spec Lemmas MatchProofs DedupProofs Proofs PromoteProofs RoundProofs.
Local Open Scope nat_scope.

Section Char.
  Variable A : Type.
  Variable sltb ltb eqb : A -> A -> bool.
  Hypothesis TO : total_order ltb eqb.
  Hypothesis Hsafe : forall m v, ltb m v = false -> sltb m v = false.

  Definition hit (view : list A) (x : A) : bool := count_lt sltb view x =? count_lt ltb view x.

  Lemma filter_len_sub {B} (f g : B -> bool) l :
    (forall y, In y l -> f y = true -> g y = true) -> length (filter f l) <= length (filter g l).
  Proof.
    induction l as [|y t IH]; intro H; [apply Nat.le_refl|]. cbn [filter].
    assert (IH' : length (filter f t) <= length (filter g t)) by (apply IH; intros; apply H; [right|]; assumption).
    destruct (f y) eqn:Ef.
    - rewrite (H y (or_introl eq_refl) Ef). cbn [length]. lia.
    - destruct (g y); cbn [length]; lia.
  Qed.

  Lemma count_s_le view x : count_lt sltb view x <= count_lt ltb view x.
  Proof.
    unfold count_lt. apply filter_len_sub. intros y _ Hy.
    destruct (ltb y x) eqn:E; [reflexivity|]. rewrite (Hsafe y x E) in Hy. discriminate.
  Qed.

  (* where the promoted search lands for an element of the (sorted, duplicate-free) view *)
  Lemma lands_iff c n view x :
    NoDup view -> sorted ltb view -> length view = n -> In x view ->
    (nth_error view (pos A sltb c n view x) = Some x <-> hit view x = true).
  Proof.
    intros ND S L Hin.
    pose proof (pos_found A ltb eqb TO false n view x ND S L Hin) as F. unfold pos in F.
    pose proof (count_s_le view x) as Le.
    assert (Lt : count_lt ltb view x < n) by (rewrite <- L; apply nth_error_Some; congruence).
    assert (Ep : pos A sltb c n view x = count_lt sltb view x).
    { unfold pos. destruct c; [|reflexivity]. unfold clamp_hi.
      destruct (count_lt sltb view x =? n) eqn:E; [apply Nat.eqb_eq in E; lia | reflexivity]. }
    rewrite Ep. unfold hit. rewrite Nat.eqb_eq. split.
    - intro H. apply (proj1 (NoDup_nth_error view) ND); [apply nth_error_Some; congruence | congruence].
    - intro E. rewrite E. exact F.
  Qed.

  Lemma match_with2_char str st a1 a2 :
    NoDup a1 -> a1 <> [] -> a2 <> [] -> sorting_perm ltb st a1 ->
    exists o view, gather a1 st = Some view
      /\ match_with2 sltb ltb eqb str false st a1 a2 = Ok o
      /\ Forall2 (fun i j => exists x, nth_error a1 i = Some x /\ nth_error a2 j = Some x) (fst o) (snd o)
      /\ StronglySorted lt (snd o)
      /\ (forall j x, nth_error a2 j = Some x -> In x a1 -> (In j (snd o) <-> hit view x = true)).
  Proof.
    intros ND N1 N2 SP. destruct a1 as [|d1 t1]; [congruence|]. destruct a2 as [|d2 t2]; [congruence|].
    assert (Hd1 : In d1 (d1 :: t1)) by (left; reflexivity).
    assert (Hd2 : In d2 (d2 :: t2)) by (left; reflexivity).
    unfold match_with2. cbv beta iota zeta.
    rewrite (proj2 (nodupb_NoDup _ ltb eqb TO _) ND). cbn [negb].
    remember (d1 :: t1) as a1 eqn:Ea1. remember (d2 :: t2) as a2 eqn:Ea2. clear Ea1 Ea2 N1 N2 t1 t2.
    destruct (sorting_perm_facts _ ltb st a1 SP) as [Lst [NDst Hst]].
    destruct SP as [P [view [Gv Sv]]].
    set (n := length a1) in *.
    assert (Nn : 1 <= n) by (unfold n; destruct a1; [destruct Hd1 | simpl; lia]).
    assert (Pv : Permutation view a1) by (eapply gather_perm; eauto).
    assert (NDv : NoDup view) by (apply (Permutation_NoDup (Permutation_sym Pv)); exact ND).
    assert (Lv : length view = n) by (apply Permutation_length; exact Pv).
    pose proof (proj1 (gather_Forall2 _ _ _) Gv) as Fv.
    unfold ogather at 1. rewrite Gv. cbn [bind].
    rewrite (sub1_pos A sltb).
    set (c := str || ltb (maxl ltb d1 a1) (maxl ltb d2 a2)).
    set (ps := pos A sltb c n view).
    assert (B : forall v, In v a2 -> ps v < n).
    { intros v Hv. apply pos_bound; [exact Lv | exact Nn |].
      destruct c eqn:Ec; [left; reflexivity | right].
      destruct (unclamped_has_upper A ltb eqb TO str d1 a1 d2 a2 v Hd1 Hd2 Hv Ec) as [m [Hm Hmv]].
      exists m. split; [apply (Permutation_in _ (Permutation_sym Pv)); exact Hm | apply Hsafe; exact Hmv]. }
    set (sub1 := map ps a2).
    assert (Lsub1 : length sub1 = length a2) by (unfold sub1; apply map_length).
    assert (Bsub1 : forall k, In k sub1 -> k < length st).
    { intros k Hk. unfold sub1 in Hk. apply in_map_iff in Hk as [v [E Hv]]. subst k. rewrite Lst. apply B; exact Hv. }
    unfold ogather at 1. rewrite (gather_map_nth st 0 sub1 Bsub1). cbn [bind].
    set (g := fun v => nth (ps v) st 0).
    assert (Ei1 : map (fun i => nth i st 0) sub1 = map g a2) by (unfold sub1; rewrite map_map; reflexivity).
    rewrite Ei1.
    assert (Bg : forall v, In v a2 -> g v < n).
    { intros v Hv. apply Hst. unfold g. apply nth_In. rewrite Lst. apply B; exact Hv. }
    assert (Bi1 : forall i, In i (map g a2) -> i < length a1).
    { intros i Hi. apply in_map_iff in Hi as [v [E Hv]]. subst i. apply Bg; exact Hv. }
    unfold ogather at 1. rewrite (gather_map_nth a1 d1 (map g a2) Bi1). cbn [bind].
    rewrite map_map. rewrite (eq_mask_map A eqb (fun v => nth (g v) a1 d1) a2).
    set (p := fun v => eqb (nth (g v) a1 d1) v).
    set (sub2 := where_ (map p a2)).
    assert (Hsub2 : forall j, In j sub2 -> exists v, nth_error a2 j = Some v /\ p v = true).
    { intros j Hj. unfold sub2 in Hj. apply where_In in Hj. rewrite nth_error_map in Hj.
      destruct (nth_error a2 j) as [v|]; [|discriminate]. exists v. split; [reflexivity|].
      simpl in Hj. congruence. }
    assert (Bsub2 : forall j, In j sub2 -> j < length sub1).
    { intros j Hj. destruct (Hsub2 j Hj) as [v [Hv _]]. rewrite Lsub1. apply nth_error_Some. congruence. }
    unfold ogather at 1. rewrite (gather_map_nth sub1 0 sub2 Bsub2). cbn [bind].
    assert (Bt : forall k, In k (map (fun j => nth j sub1 0) sub2) -> k < length st).
    { intros k Hk. apply in_map_iff in Hk as [j [E Hj]]. subst k. apply Bsub1. apply nth_In. apply Bsub2; exact Hj. }
    unfold ogather at 1. rewrite (gather_map_nth st 0 _ Bt). cbn [bind].
    rewrite map_map. eexists. exists view. split; [reflexivity|]. split; [reflexivity|].
    cbn [fst snd]. split; [|split].
    - apply Forall2_map_self. intros j Hj. destruct (Hsub2 j Hj) as [v [Hv Hp]].
      exists v. split; [|exact Hv].
      unfold sub1. rewrite (nth_map_pos A ps a2 j v Hv). fold (g v).
      unfold p in Hp. apply (to_eqb _ _ _ TO) in Hp. rewrite <- Hp at 2.
      apply nth_error_nth'. apply Bg. eapply nth_error_In; exact Hv.
    - unfold sub2, where_. apply where_from_sorted.
    - intros j x Hj Hx. unfold sub2. rewrite where_In, (map_nth_error p j a2 Hj).
      assert (Hxv : In x view) by (apply (Permutation_in _ (Permutation_sym Pv)); exact Hx).
      assert (Hx2 : In x a2) by (eapply nth_error_In; exact Hj).
      rewrite <- (lands_iff c n view x NDv Sv Lv Hxv). fold (ps x).
      (* view[ps x] = a1[st[ps x]] *)
      assert (Bk : ps x < length view) by (rewrite Lv; apply B; exact Hx2).
      destruct (nth_error view (ps x)) as [y|] eqn:Ey; [|apply nth_error_None in Ey; lia].
      destruct (Forall2_nth_error_r _ _ _ _ _ Fv Ey) as [i [H1 H2]].
      assert (Ep : nth (g x) a1 d1 = y).
      { unfold g. rewrite (nth_error_nth st (ps x) 0 H1). apply nth_error_nth. exact H2. }
      unfold p. rewrite Ep. split.
      + intro H. inversion H as [H']. apply (to_eqb _ _ _ TO) in H'. congruence.
      + intro H. inversion H; subst y. f_equal. apply (to_eqb _ _ _ TO). reflexivity.
  Qed.
End Char.

(* ------------------------------------------------------------------ at round53 *)
Local Open Scope nat_scope.

Lemma rltb_safe m v : zltb m v = false -> rltb m v = false.
Proof.
  unfold zltb, rltb. intro H. apply Z.ltb_ge in H. apply Z.ltb_ge. apply round53_mono. exact H.
Qed.

Lemma filter_len_eq_pointwise {B} (f g : B -> bool) l :
  (forall y, In y l -> f y = true -> g y = true) ->
  length (filter f l) = length (filter g l) -> forall y, In y l -> f y = g y.
Proof.
  induction l as [|z t IH]; intros Hs E y Hy; [destruct Hy|].
  assert (Hs' : forall y, In y t -> f y = true -> g y = true) by (intros; apply Hs; [right|]; assumption).
  pose proof (filter_len_sub f g t Hs') as Le.
  cbn [filter] in E. destruct (f z) eqn:Ef.
  - rewrite (Hs z (or_introl eq_refl) Ef) in E. cbn [length] in E.
    destruct Hy as [->|Hy]; [rewrite Ef; symmetry; apply Hs; [left; reflexivity | exact Ef] | apply IH; auto; lia].
  - destruct (g z) eqn:Eg; cbn [length] in E; [lia|].
    destruct Hy as [->|Hy]; [congruence | apply IH; auto].
Qed.

(* a probe that occurs in the first array is LOST: a smaller element rounds to the same double *)
Definition collides_below (a1 : list Z) (v : Z) : bool :=
  existsb (fun y => (y <? v)%Z && (round53 y =? round53 v)%Z) a1.
Definition lost_b (a1 a2 : list Z) : bool := existsb (fun v => memb zeqb v a1 && collides_below a1 v) a2.

Lemma hit_iff view a1 x : Permutation view a1 ->
  (hit Z rltb zltb view x = true <-> collides_below a1 x = false).
Proof.
  intro P. unfold hit. rewrite Nat.eqb_eq. split.
  - intro E. destruct (collides_below a1 x) eqn:C; [|reflexivity]. exfalso.
    apply existsb_exists in C as [y [Hy Hc]]. apply andb_true_iff in Hc as [H1 H2].
    apply Z.ltb_lt in H1. apply Z.eqb_eq in H2.
    assert (Hv : In y view) by (apply (Permutation_in _ (Permutation_sym P)); exact Hy).
    pose proof (filter_len_eq_pointwise (fun z => rltb z x) (fun z => zltb z x) view) as Pw.
    assert (S : forall z, In z view -> rltb z x = true -> zltb z x = true).
    { intros z _ Hz. destruct (zltb z x) eqn:Ez; [reflexivity|]. rewrite (rltb_safe z x Ez) in Hz. discriminate. }
    specialize (Pw S E y Hv). unfold rltb, zltb in Pw. rewrite H2, Z.ltb_irrefl in Pw.
    symmetry in Pw. apply Z.ltb_ge in Pw. lia.
  - intro C. unfold count_lt. f_equal. apply filter_ext_in. intros y Hy.
    assert (Ha : In y a1) by (apply (Permutation_in _ P); exact Hy).
    unfold rltb, zltb. destruct (Z.ltb_spec y x) as [L|G].
    + apply Z.ltb_lt. pose proof (round53_mono y x ltac:(lia)).
      destruct (Z.eq_dec (round53 y) (round53 x)) as [E|N]; [|lia]. exfalso.
      assert (X : collides_below a1 x = true).
      { apply existsb_exists. exists y. split; [exact Ha|]. apply andb_true_iff. split; [apply Z.ltb_lt; exact L | apply Z.eqb_eq; exact E]. }
      congruence.
    + apply Z.ltb_ge. apply round53_mono. exact G.
Qed.

(* the exact behaviour of match / match_multi on a mixed-signedness pair: always an answer, never an
   unequal pair, ascending; the full statement holds IF AND ONLY IF no probe is lost *)
Lemma match_z_mixed_exact str a1 a2 :
  NoDup a1 -> a1 <> [] -> a2 <> [] ->
  exists o, match_z true str false a1 a2 = Ok o /\ match_multi_z true str true a1 a2 = Ok o
    /\ Forall2 (fun i j => exists x, nth_error a1 i = Some x /\ nth_error a2 j = Some x) (fst o) (snd o)
    /\ StronglySorted lt (snd o)
    /\ (forall j x, nth_error a2 j = Some x -> In x a1 -> (In j (snd o) <-> collides_below a1 x = false))
    /\ (match_ok a1 a2 o <-> lost_b a1 a2 = false).
Proof.
  intros ND N1 N2.
  destruct (match_with2_char Z rltb zltb zeqb z_total_order rltb_safe str (argsort zltb a1) a1 a2 ND N1 N2
              (argsort_sorting_perm Z zltb zeqb z_total_order a1)) as (o & view & Gv & E & F & S & C).
  assert (P : Permutation view a1).
  { eapply gather_perm; [|exact Gv]. apply (argsort_sorting_perm Z zltb zeqb z_total_order a1). }
  exists o. split; [exact E|]. split; [exact E|]. split; [exact F|]. split; [exact S|].
  assert (C' : forall j x, nth_error a2 j = Some x -> In x a1 -> (In j (snd o) <-> collides_below a1 x = false)).
  { intros j x Hj Hx. rewrite (C j x Hj Hx). apply hit_iff. exact P. }
  split; [exact C'|]. split.
  - intros [_ [_ Cm]]. destruct (lost_b a1 a2) eqn:L; [|reflexivity]. exfalso.
    apply existsb_exists in L as [v [Hv Hl]]. apply andb_true_iff in Hl as [H1 H2].
    apply (memb_In Z zltb zeqb z_total_order) in H1. apply In_nth_error in Hv as [j Hj].
    pose proof (Cm j v Hj H1) as Hin. apply (C' j v Hj H1) in Hin. congruence.
  - intro L. split; [exact F|]. split; [exact S|]. intros j x Hj Hx. apply (C' j x Hj Hx).
    destruct (collides_below a1 x) eqn:Cb; [|reflexivity]. exfalso.
    assert (X : lost_b a1 a2 = true).
    { apply existsb_exists. exists x. split; [eapply nth_error_In; exact Hj|].
      rewrite (proj2 (memb_In Z zltb zeqb z_total_order x a1) Hx), Cb. reflexivity. }
    congruence.
Qed.

(* the exact failure condition lies inside the known class *)
Lemma lost_in_known_class a1 a2 : lost_b a1 a2 = true -> kf_mixed_sign_above_2p53 true a1 a2 = true.
Proof.
  intro L. apply existsb_exists in L as [v [Hv Hl]]. apply andb_true_iff in Hl as [_ H2].
  apply existsb_exists in H2 as [y [Hy Hc]]. apply andb_true_iff in Hc as [H1 H3].
  apply Z.ltb_lt in H1. apply Z.eqb_eq in H3.
  cbn [kf_mixed_sign_above_2p53 andb]. apply existsb_exists.
  destruct (Z.eq_dec (round53 y) y) as [Ey|Ny].
  - exists v. split; [apply in_or_app; right; exact Hv|].
    destruct (Z.eqb_spec (round53 v) v) as [Ev|Nv]; [lia | reflexivity].
  - exists y. split; [apply in_or_app; left; exact Hy|].
    destruct (Z.eqb_spec (round53 y) y); [contradiction | reflexivity].
Qed.

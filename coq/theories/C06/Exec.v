(* C06 — glue evaluated by generated case files:
   verdict = (model = implementation ?) + 2 * (property checker rejects the implementation's output).
   Element types: Z (integers; floats through an order embedding) and code-point strings. *)
From EsVerif.Common Require Import Base.
From EsVerif.C06 Require Import Model Spec.
Local Open Scope nat_scope.

Definition nl_eqb : list nat -> list nat -> bool := list_eqb Nat.eqb.
Definition out2_eqb (x y : list nat * list nat) : bool := nl_eqb (fst x) (fst y) && nl_eqb (snd x) (snd y).

Section V.
  Variable A : Type.
  Variable ltb eqb : A -> A -> bool.

  (* match / match_multi.  The property speaks about non-empty arrays; presorted=true only about
     a sorted first array (outside that the model is not a model of numpy's binary search). *)
  Definition v_match (is_string presorted multi : bool) (a1 a2 : list A)
             (out : result (list nat * list nat)) : Z :=
    let model := if multi then match_multi ltb eqb is_string presorted a1 a2
                 else match_ ltb eqb is_string presorted a1 a2 in
    if presorted && negb multi && negb (sorted_b ltb a1) then 0%Z
    else
      verdict (result_eqb out2_eqb model out)
              (match a1, a2 with
               | [], _ | _, [] => true
               | _, _ =>
                   if nodupb eqb a1
                   then match out with Ok o => match_check eqb a1 a2 o | Err _ => false end
                   else negb (is_ok out)                       (* repeated values are rejected *)
               end).

  Definition show_match (is_string presorted multi : bool) (a1 a2 : list A) :=
    if multi then match_multi ltb eqb is_string presorted a1 a2 else match_ ltb eqb is_string presorted a1 a2.

  (* unique / rem_dup: [s] is numpy's argsort of the same array (oracle), its contract is
     monitored: a broken contract is reported as a broken correspondence. *)
  Definition v_unique (s : list nat) (a : list A) (out : result (list nat)) : Z :=
    verdict (sorting_perm_check ltb s a && result_eqb nl_eqb (unique_with eqb s a) out)
            (match a with
             | [] => true
             | _ => match out with Ok keep => one_per_value_check eqb a keep | Err _ => false end
             end).

  Definition v_unique_values (s : list nat) (a : list A) (out : result (list A)) : Z :=
    verdict (sorting_perm_check ltb s a && result_eqb (list_eqb eqb) (unique_values_with eqb s a) out)
            (match a with
             | [] => true
             | _ => match out with Ok vals => values_check eqb a vals | Err _ => false end
             end).

  Definition v_rem_dup (s : list nat) (a : list A) (flag : list Z) (out : result (list nat)) : Z :=
    verdict (sorting_perm_check ltb s a && result_eqb nl_eqb (rem_dup_with eqb s a flag) out)
            (match a with
             | [] => true
             | _ => if length a =? length flag
                    then match out with Ok keep => rem_dup_check eqb a flag keep | Err _ => false end
                    else true
             end).

  Definition v_rem_dup_values (s : list nat) (a : list A) (flag : list Z)
             (out : result (list nat * list A)) : Z :=
    verdict (sorting_perm_check ltb s a
             && result_eqb (pair_eqb nl_eqb (list_eqb eqb)) (rem_dup_values_with eqb s a flag) out)
            (match a with
             | [] => true
             | _ => if length a =? length flag
                    then match out with
                         | Ok (keep, vals) =>
                             rem_dup_check eqb a flag keep
                             && match gather a keep with Some v => list_eqb eqb v vals | None => false end
                         | Err _ => false
                         end
                    else true
             end).

  Definition show_dedup (s : list nat) (a : list A) (flag : list Z) :=
    (sorting_perm_check ltb s a, unique_with eqb s a, rem_dup_with eqb s a flag).
End V.

Arguments v_match {A}. Arguments show_match {A}. Arguments v_unique {A}. Arguments v_unique_values {A}.
Arguments v_rem_dup {A}. Arguments v_rem_dup_values {A}. Arguments show_dedup {A}.

(* instances used by the case files *)
Definition vz_match := v_match zltb zeqb false.
Definition vs_match := v_match lex_ltb lex_eqb true.
Definition vz_unique := v_unique zltb zeqb.
Definition vs_unique := v_unique lex_ltb lex_eqb.
Definition vz_unique_values := v_unique_values zltb zeqb.
Definition vs_unique_values := v_unique_values lex_ltb lex_eqb.
Definition vz_rem_dup := v_rem_dup zltb zeqb.
Definition vs_rem_dup := v_rem_dup lex_ltb lex_eqb.
Definition vz_rem_dup_values := v_rem_dup_values zltb zeqb.
Definition vs_rem_dup_values := v_rem_dup_values lex_ltb lex_eqb.

(* exhaustive small scope (thorough tier): every array over {0..k-1} of length 1..n, with the
   model's own argsort: the repaired unique meets its checker and the code as found does not *)
Fixpoint all_lists (k n : nat) : list (list Z) :=
  match n with
  | O => [[]]
  | S m => flat_map (fun l => map (fun x => Z.of_nat x :: l) (seq 0 k)) (all_lists k m)
  end.

Definition unique_sweep (k n : nat) : bool :=
  forallb (fun a =>
    match a with
    | [] => true
    | _ => match unique_with zeqb (argsort zltb a) a with
           | Ok keep => one_per_value_check zeqb a keep
           | Err _ => false
           end
    end) (flat_map (all_lists k) (seq 0 (S n))).

Definition unique_orig_failures (k n : nat) : nat :=
  length (filter (fun a =>
    match a with
    | [] => false
    | _ => match unique_orig_with zeqb (argsort zltb a) a with
           | Ok keep => negb (one_per_value_check zeqb a keep)
           | Err _ => true
           end
    end) (flat_map (all_lists k) (seq 0 (S n)))).

Definition match_sweep (k n1 n2 : nat) : bool :=
  forallb (fun a1 =>
    forallb (fun a2 =>
      match a1, a2 with
      | [], _ | _, [] => true
      | _, _ =>
        match match_ zltb zeqb false false a1 a2 with
        | Ok o => nodupb zeqb a1 && match_check zeqb a1 a2 o
        | Err e => negb (nodupb zeqb a1) && err_eqb e EValue
        end
      end) (flat_map (all_lists k) (seq 0 (S n2))))
    (flat_map (all_lists k) (seq 0 (S n1))).

(* C06 — glue evaluated by generated case files:
   verdict = (model = implementation ?) + 2 * (property checker rejects the implementation's output).
   Element types: Z (integers; floats through an order embedding) and code-point strings. *)
From EsVerif.Common Require Import Base.
From EsVerif.C06 Require Import Model Spec Forms.
Local Open Scope nat_scope.

Definition nl_eqb : list nat -> list nat -> bool := list_eqb Nat.eqb.
Definition out2_eqb (x y : list nat * list nat) : bool := nl_eqb (fst x) (fst y) && nl_eqb (snd x) (snd y).

Section V.
  Variable A : Type.
  Variable ltb eqb : A -> A -> bool.

  (* match / match_multi.  The property speaks about non-empty arrays; presorted=true only about
     a sorted first array (outside that the model is not a model of numpy's binary search). *)
  Definition v_match (is_string presorted multi : bool) (a1 a2 : list A)
             (out : result (list nat * list nat)) : Z :=
    let model := if multi then match_multi ltb eqb is_string presorted a1 a2
                 else match_ ltb eqb is_string presorted a1 a2 in
    if presorted && negb multi && negb (sorted_b ltb a1) then 0%Z
    else
      verdict (result_eqb out2_eqb model out)
              (match a1, a2 with
               | [], _ | _, [] => true
               | _, _ =>
                   if nodupb eqb a1
                   then match out with Ok o => match_check eqb a1 a2 o | Err _ => false end
                   else negb (is_ok out)                       (* repeated values are rejected *)
               end).

  Definition show_match (is_string presorted multi : bool) (a1 a2 : list A) :=
    if multi then match_multi ltb eqb is_string presorted a1 a2 else match_ ltb eqb is_string presorted a1 a2.

  (* unique / rem_dup: [s] is numpy's argsort of the same array (oracle), its contract is
     monitored: a broken contract is reported as a broken correspondence. *)
  Definition v_unique (s : list nat) (a : list A) (out : result (list nat)) : Z :=
    verdict (sorting_perm_check ltb s a && result_eqb nl_eqb (unique_with eqb s a) out)
            (match a with
             | [] => true
             | _ => match out with Ok keep => one_per_value_check eqb a keep | Err _ => false end
             end).

  Definition v_unique_values (s : list nat) (a : list A) (out : result (list A)) : Z :=
    verdict (sorting_perm_check ltb s a && result_eqb (list_eqb eqb) (unique_values_with eqb s a) out)
            (match a with
             | [] => true
             | _ => match out with Ok vals => values_check eqb a vals | Err _ => false end
             end).

  Definition v_rem_dup (s : list nat) (a : list A) (flag : list Z) (out : result (list nat)) : Z :=
    verdict (sorting_perm_check ltb s a && result_eqb nl_eqb (rem_dup_with eqb s a flag) out)
            (match a with
             | [] => true
             | _ => if length a =? length flag
                    then match out with Ok keep => rem_dup_check eqb a flag keep | Err _ => false end
                    else true
             end).

  Definition v_rem_dup_values (s : list nat) (a : list A) (flag : list Z)
             (out : result (list nat * list A)) : Z :=
    verdict (sorting_perm_check ltb s a
             && result_eqb (pair_eqb nl_eqb (list_eqb eqb)) (rem_dup_values_with eqb s a flag) out)
            (match a with
             | [] => true
             | _ => if length a =? length flag
                    then match out with
                         | Ok (keep, vals) =>
                             rem_dup_check eqb a flag keep
                             && match gather a keep with Some v => list_eqb eqb v vals | None => false end
                         | Err _ => false
                         end
                    else true
             end).

  Definition show_dedup (s : list nat) (a : list A) (flag : list Z) :=
    (sorting_perm_check ltb s a, unique_with eqb s a, rem_dup_with eqb s a flag).
End V.

Arguments v_match {A}. Arguments show_match {A}. Arguments v_unique {A}. Arguments v_unique_values {A}.
Arguments v_rem_dup {A}. Arguments v_rem_dup_values {A}. Arguments show_dedup {A}.

(* instances used by the case files *)
Definition vz_match := v_match zltb zeqb false.
Definition vs_match := v_match lex_ltb lex_eqb true.
Definition vz_unique := v_unique zltb zeqb.
Definition vs_unique := v_unique lex_ltb lex_eqb.
Definition vz_unique_values := v_unique_values zltb zeqb.
Definition vs_unique_values := v_unique_values lex_ltb lex_eqb.
Definition vz_rem_dup := v_rem_dup zltb zeqb.
Definition vs_rem_dup := v_rem_dup lex_ltb lex_eqb.
Definition vz_rem_dup_values := v_rem_dup_values zltb zeqb.
Definition vs_rem_dup_values := v_rem_dup_values lex_ltb lex_eqb.

(* exhaustive small scope (thorough tier): every array over {0..k-1} of length 1..n, with the
   model's own argsort: the repaired unique meets its checker and the code as found does not *)
Fixpoint all_lists (k n : nat) : list (list Z) :=
  match n with
  | O => [[]]
  | S m => flat_map (fun l => map (fun x => Z.of_nat x :: l) (seq 0 k)) (all_lists k m)
  end.

Definition unique_sweep (k n : nat) : bool :=
  forallb (fun a =>
    match a with
    | [] => true
    | _ => match unique_with zeqb (argsort zltb a) a with
           | Ok keep => one_per_value_check zeqb a keep
           | Err _ => false
           end
    end) (flat_map (all_lists k) (seq 0 (S n))).

Definition unique_orig_failures (k n : nat) : nat :=
  length (filter (fun a =>
    match a with
    | [] => false
    | _ => match unique_orig_with zeqb (argsort zltb a) a with
           | Ok keep => negb (one_per_value_check zeqb a keep)
           | Err _ => true
           end
    end) (flat_map (all_lists k) (seq 0 (S n)))).

Definition match_sweep (k n1 n2 : nat) : bool :=
  forallb (fun a1 =>
    forallb (fun a2 =>
      match a1, a2 with
      | [], _ | _, [] => true
      | _, _ =>
        match match_ zltb zeqb false false a1 a2 with
        | Ok o => nodupb zeqb a1 && match_check zeqb a1 a2 o
        | Err e => negb (nodupb zeqb a1) && err_eqb e EValue
        end
      end) (flat_map (all_lists k) (seq 0 (S n2))))
    (flat_map (all_lists k) (seq 0 (S n1))).

(* ======================================================================================
   Additions (round 2): complete return values, argument forms, mixed kinds, grouping,
   sweeps over functions given as arguments (so that a case file can pass the skeleton at
   the regenerated parameters, Skel.v/Gen.v, without Exec.v depending on Gen.v).
   ====================================================================================== *)
Section V2.
  Variable A : Type.
  Variable ltb eqb : A -> A -> bool.

  (* match / match_multi as called: like v_match, the checker also reads the output as groups
     (implied by match_ok: FormsProofs.match_ok_groups) *)
  Definition v_matchx (is_string presorted multi : bool) (a1 a2 : list A)
             (out : result (list nat * list nat)) : Z :=
    let model := if multi then match_multi ltb eqb is_string presorted a1 a2
                 else match_ ltb eqb is_string presorted a1 a2 in
    if presorted && negb multi && negb (sorted_b ltb a1) then 0%Z
    else
      verdict (result_eqb out2_eqb model out)
              (match a1, a2 with
               | [], _ | _, [] => true
               | _, _ =>
                   if nodupb eqb a1
                   then match out with
                        | Ok o => match_check eqb a1 a2 o && groups_check eqb a1 a2 o
                        | Err _ => false
                        end
                   else negb (is_ok out)
               end).

  (* unique(arr, values=) with its complete return value; zero_d: a 0-d array was passed *)
  Definition v_unique_call (zero_d : bool) (s : list nat) (a : list A) (values : bool)
             (out : result (uout A)) : Z :=
    verdict (sorting_perm_check ltb s a && result_eqb (uout_eqb eqb) (unique_call eqb zero_d s a values) out)
            (if zero_d then true
             else match a with
                  | [] => true
                  | _ => match out with
                         | Ok (UIdx keep) => negb values && one_per_value_check eqb a keep
                         | Ok (UVals vals) => values && values_check eqb a vals
                         | Err _ => false
                         end
                  end).

  (* rem_dup(arr, flag, values=): (python scalar returned?, indices, values) *)
  Definition v_rem_dup_call (s : list nat) (a : list A) (flag : list Z) (values : bool)
             (out : result (rdout A)) : Z :=
    verdict (sorting_perm_check ltb s a && result_eqb (rdout_eqb eqb) (rem_dup_call eqb s a flag values) out)
            (match a with
             | [] => true
             | _ => if length a =? length flag
                    then match out with
                         | Ok (_, keep, vals) =>
                             rem_dup_check eqb a flag keep
                             && (if values
                                 then match vals, gather a keep with
                                      | Some v, Some g => list_eqb eqb g v
                                      | _, _ => false
                                      end
                                 else match vals with None => true | Some _ => false end)
                         | Err _ => false
                         end
                    else true
             end).

  Definition show_calls (zero_d : bool) (s : list nat) (a : list A) (flag : list Z) (values : bool) :=
    (sorting_perm_check ltb s a, unique_call eqb zero_d s a values, rem_dup_call eqb s a flag values).
End V2.

Arguments v_matchx {A}. Arguments v_unique_call {A}. Arguments v_rem_dup_call {A}. Arguments show_calls {A}.

Definition vz_matchx := v_matchx zltb zeqb false.
Definition vs_matchx := v_matchx lex_ltb lex_eqb true.
Definition vt_matchx := v_matchx tag_ltb tag_eqb true.       (* bytes against unicode *)
Definition vz_unique_call := v_unique_call zltb zeqb.
Definition vs_unique_call := v_unique_call lex_ltb lex_eqb.
Definition vz_rem_dup_call := v_rem_dup_call zltb zeqb.
Definition vs_rem_dup_call := v_rem_dup_call lex_ltb lex_eqb.

(* ------------------------------------------------------------------ small-scope sweeps
   every array over a k-letter alphabet of length <= n (lengths 0 included where the code
   accepts them).  The functions under test are arguments. *)
Definition lists_upto (k n : nat) : list (list Z) := flat_map (all_lists k) (seq 0 (S n)).

Fixpoint find_first {B} (f : B -> bool) (l : list B) : option B :=
  match l with [] => None | x :: t => if f x then Some x else find_first f t end.

(* does [f a1 a2] (a match implementation) do what the property says on this pair? *)
Definition match_pair_ok (f : list Z -> list Z -> result (list nat * list nat)) (a1 a2 : list Z) : bool :=
  match a1, a2 with
  | [], _ | _, [] => true
  | _, _ =>
    match f a1 a2 with
    | Ok o => nodupb zeqb a1 && match_check zeqb a1 a2 o && groups_check zeqb a1 a2 o
    | Err e => negb (nodupb zeqb a1)
    end
  end.

(* restrict [f] to a sorted first array (for presorted=True) *)
Definition when_sorted (f : list Z -> list Z -> result (list nat * list nat)) (a1 a2 : list Z) :=
  if sorted_b zltb a1 then f a1 a2 else match_ zltb zeqb false false a1 a2.

Definition match_sweep_f f (k n1 n2 : nat) : bool :=
  forallb (fun a1 => forallb (match_pair_ok f a1) (lists_upto k n2)) (lists_upto k n1).

(* first failing pair, as [length a1; a1 ...; a2 ...] ([] = none) *)
Definition match_cex_f f (k n1 n2 : nat) : list Z :=
  match find_first (fun a1 => negb (forallb (match_pair_ok f a1) (lists_upto k n2))) (lists_upto k n1) with
  | None => []
  | Some a1 => match find_first (fun a2 => negb (match_pair_ok f a1 a2)) (lists_upto k n2) with
               | None => []
               | Some a2 => Z.of_nat (length a1) :: a1 ++ a2
               end
  end.

Definition unique_one_ok (f : list nat -> list Z -> result (list nat)) (a : list Z) : bool :=
  match a with
  | [] => true
  | _ => match f (argsort zltb a) a with Ok keep => one_per_value_check zeqb a keep | Err _ => false end
  end.
Definition unique_sweep_f f (k n : nat) : bool := forallb (unique_one_ok f) (lists_upto k n).
Definition unique_cex_f f (k n : nat) : list Z :=
  match find_first (fun a => negb (unique_one_ok f a)) (lists_upto k n) with None => [] | Some a => a end.

Definition unique_values_one_ok (f : list nat -> list Z -> result (list Z)) (a : list Z) : bool :=
  match a with
  | [] => true
  | _ => match f (argsort zltb a) a with Ok vals => values_check zeqb a vals | Err _ => false end
  end.
Definition unique_values_sweep_f f (k n : nat) : bool := forallb (unique_values_one_ok f) (lists_upto k n).

(* rem_dup: every array with every flag array of the same length over the same alphabet *)
Definition rem_dup_one_ok (f : list nat -> list Z -> list Z -> result (list nat)) (a flag : list Z) : bool :=
  match a with
  | [] => true
  | _ => match f (argsort zltb a) a flag with Ok keep => rem_dup_check zeqb a flag keep | Err _ => false end
  end.
Definition rem_dup_sweep_f f (k kf n : nat) : bool :=
  forallb (fun a => forallb (rem_dup_one_ok f a) (all_lists kf (length a))) (lists_upto k n).
Definition rem_dup_cex_f f (k kf n : nat) : list Z :=
  match find_first (fun a => negb (forallb (rem_dup_one_ok f a) (all_lists kf (length a)))) (lists_upto k n) with
  | None => []
  | Some a => match find_first (fun fl => negb (rem_dup_one_ok f a fl)) (all_lists kf (length a)) with
              | None => []
              | Some fl => Z.of_nat (length a) :: a ++ fl
              end
  end.

(* the sweeps of the thorough tier at the hand model: 3-letter alphabet, lengths <= 5 *)
Definition sweep_match_model (k n1 n2 : nat) : bool :=
  match_sweep_f (match_ zltb zeqb false false) k n1 n2
  && match_sweep_f (match_ zltb zeqb true false) k n1 n2                  (* the always-clamp path *)
  && match_sweep_f (when_sorted (match_ zltb zeqb false true)) k n1 n2    (* presorted=True *)
  && match_sweep_f (match_multi zltb zeqb false true) k n1 n2.
Definition sweep_dedup_model (k kf n : nat) : bool :=
  unique_sweep_f (unique_with zeqb) k n
  && unique_values_sweep_f (unique_values_with zeqb) k n
  && rem_dup_sweep_f (rem_dup_with zeqb) k kf n.

(* ------------------------------------------------ mixed signedness at 64 bits (round 2b)
   uint64 against a signed integer kind: the model is match_z true (np.searchsorted compares
   binary64 roundings); the property checker is the full statement, so a pair on which matches
   are lost gets verdict 2 (agree, checker rejects) = the known class when
   kf_mixed_sign_above_2p53 holds. *)
Definition vm_matchx (presorted multi : bool) (a1 a2 : list Z) (out : result (list nat * list nat)) : Z :=
  let model := if multi then match_multi_z true false presorted a1 a2 else match_z true false presorted a1 a2 in
  if presorted && negb multi && negb (sorted_b zltb a1) then 0%Z
  else
    verdict (result_eqb out2_eqb model out)
            (match a1, a2 with
             | [], _ | _, [] => true
             | _, _ =>
                 if nodupb zeqb a1
                 then match out with
                      | Ok o => match_check zeqb a1 a2 o && groups_check zeqb a1 a2 o
                      | Err _ => false
                      end
                 else negb (is_ok out)
             end).
Definition show_match_mixed (presorted multi : bool) (a1 a2 : list Z) :=
  (kf_mixed_sign_above_2p53 true a1 a2, if multi then match_multi_z true false presorted a1 a2 else match_z true false presorted a1 a2).
(* contract monitor of round53 against the platform's integer -> binary64 conversion *)
Definition round53_agrees (l : list (Z * Z)) : bool := forallb (fun p => (round53 (fst p) =? snd p)%Z) l.

(* C06 — more of numpy_util.py in the model (no proofs here):

     - what `isinstance(arr1[0], str) or isinstance(arr1[0], bytes)` sees           ([elclass])
     - the argument forms np.atleast_1d accepts for match (array, list, python / numpy
       scalar, 0-d array) and what unique / rem_dup do with a 0-d array               ([argform])
     - the complete return values: unique(values=) returns indices OR values; rem_dup returns the
       python scalar 0 (and, with values=True, the whole input) when n == 1            ([uout], [rem_dup_call])
     - mixed element kinds: byte strings against unicode strings are never equal (tagged strings,
       [tag_ltb]/[tag_eqb]); integers against floats and mixed widths are compared by value: the
       harness embeds both sides into Z through the same order embedding.
     - the grouping reading of match_multi's output ([group_of]).                                  *)
From EsVerif.Common Require Import Base.
From EsVerif.C06 Require Import Model.
Local Open Scope nat_scope.

(* class of arr1[0] as isinstance sees it (np.str_ is a str, np.bytes_ is a bytes) *)
Inductive elclass := ClsStr | ClsBytes | ClsNum.
Definition is_string_of (k : elclass) : bool := match k with ClsNum => false | _ => true end.

(* how an argument is spelled in the call *)
Inductive argform := FArray | FList | FScalar | FZeroD.
Definition is_scalar_form (f : argform) : bool := match f with FScalar | FZeroD => true | _ => false end.
(* np.atleast_1d: every form becomes the 1-d array of its elements; a scalar form has one *)
Definition form_ok {B} (f : argform) (l : list B) : bool := if is_scalar_form f then length l =? 1 else true.

Section Calls.
  Variable A : Type.
  Variable ltb eqb : A -> A -> bool.

  (* match(arr1input, arr2input, presorted=...) as called: forms are erased by np.atleast_1d *)
  Definition match_call (k : elclass) (f1 f2 : argform) (presorted : bool) (a1 a2 : list A) :=
    match_ ltb eqb (is_string_of k) presorted a1 a2.

  Definition match_multi_call (k : elclass) (f1 f2 : argform) (presorted : bool) (a1 a2 : list A) :=
    match_multi ltb eqb (is_string_of k) presorted a1 a2.

  (* unique(arr, values=...).  A 0-d array: s = arr.argsort() is array([0]), arr[s[0]] raises
     IndexError (too many indices). *)
  Inductive uout := UIdx (keep : list nat) | UVals (vals : list A).
  Definition uout_eqb (x y : uout) : bool :=
    match x, y with
    | UIdx k, UIdx k' => list_eqb Nat.eqb k k'
    | UVals v, UVals v' => list_eqb eqb v v'
    | _, _ => false
    end.

  Definition unique_call (zero_d : bool) (s : list nat) (a : list A) (values : bool) : result uout :=
    if zero_d then Err EIndex
    else if values then do v <- unique_values_with eqb s a; Ok (UVals v)
         else do k <- unique_with eqb s a; Ok (UIdx k).

  (* rem_dup(arr, flag, values=...): (returned a python scalar?, indices, values).
     n == 1 (also a 0-d array): `return 0` / `return 0, arr` - the scalar 0 and the whole input *)
  Definition rdout := (bool * list nat * option (list A))%type.
  Definition rdout_eqb (x y : rdout) : bool :=
    Bool.eqb (fst (fst x)) (fst (fst y)) && list_eqb Nat.eqb (snd (fst x)) (snd (fst y))
    && option_eqb (list_eqb eqb) (snd x) (snd y).

  Definition rem_dup_call (s : list nat) (a : list A) (flag : list Z) (values : bool) : result rdout :=
    if length a =? 1 then Ok (true, [0], if values then Some a else None)
    else if values then do kv <- rem_dup_values_with eqb s a flag; Ok (false, fst kv, Some (snd kv))
         else do k <- rem_dup_with eqb s a flag; Ok (false, k, None).

  (* the grouping reading of a match output: the positions of the second array that were paired
     with index i of the first *)
  Fixpoint group_of (i : nat) (o1 o2 : list nat) : list nat :=
    match o1, o2 with
    | x :: t1, j :: t2 => if x =? i then j :: group_of i t1 t2 else group_of i t1 t2
    | _, _ => []
    end.

  (* all positions of the second array holding the value x, ascending *)
  Definition positions_of (x : A) (a2 : list A) : list nat := where_ (map (fun y => eqb y x) a2).

  (* boolean checker of the grouping statement on an output *)
  Definition groups_check (a1 a2 : list A) (o : list nat * list nat) : bool :=
    forallb (fun ix => list_eqb Nat.eqb (group_of (fst ix) (fst o) (snd o)) (positions_of (snd ix) a2))
            (combine (seq 0 (length a1)) a1).
End Calls.

Arguments match_call {A}. Arguments match_multi_call {A}. Arguments UIdx {A}. Arguments UVals {A}.
Arguments uout_eqb {A}. Arguments unique_call {A}. Arguments rdout_eqb {A}. Arguments rem_dup_call {A}.
Arguments positions_of {A}. Arguments groups_check {A}.

(* byte strings and unicode strings in one array pair: (is_unicode, code points).  'a' and b'a'
   are different values (numpy's == between a U and an S array is False everywhere). *)
Definition tstr := (bool * list Z)%type.
Definition tag_ltb (x y : tstr) : bool :=
  (negb (fst x) && fst y) || (Bool.eqb (fst x) (fst y) && lex_ltb (snd x) (snd y)).
Definition tag_eqb (x y : tstr) : bool := Bool.eqb (fst x) (fst y) && lex_eqb (snd x) (snd y).

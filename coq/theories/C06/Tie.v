(* C06 — tie of the hand model to the parameters regenerated from the source (Gen.v).
   [skel_*] : the skeletons of Skel.v at the modelled parameter values ARE the functions of
              Model.v / Forms.v (for every element type, every input, no side condition);
   [tie_params] : the values c06_translate.py read from the tree under check are the modelled ones;
   [tie_*]  : hence skeleton(Gen) = model.  Every [tie_*]/[source_*] statement mentions Gen.v and is
              re-checked on every run; when the source changes an operator, a constant, a polarity,
              a default, an exception class ..., Gen.v changes and these no longer build.
   [skel_unique_as_found] : the code as found (29e445c) is the same skeleton at its own parameters.
   [skel_sensitive] : each interpreted parameter matters (a changed value changes the function). *)
From Coq Require Import Sorting.Permutation Sorting.Sorted Arith.
From EsVerif.Common Require Import Base.
From EsVerif.C06 Require Import Model Spec Lemmas MatchProofs DedupProofs Proofs Forms FormsProofs Skel Gen.
Local Open Scope nat_scope.

Ltac params :=
  cbv beta iota delta [ref_match ref_match_multi ref_unique asfound_unique ref_rem_dup
    mp_presorted_default mp_el_index mp_classes mp_str_then mp_str_else mp_empty_op1 mp_empty_k1 mp_empty_conn
    mp_empty_op2 mp_empty_k2 mp_empty_err mp_uniq_op mp_uniq_err mp_sort_if_not mp_side mp_clamp_conn mp_clamp_op
    mp_bad_op mp_clamp_minus mp_filter_if_not mp_eq_sorted mp_eq_presorted mp_el_first mp_f_sorted mp_r_sorted mp_f_presorted mp_r_presorted mp_ret_swap mm_presorted_default mm_pass
    up_values_default up_val_start up_keep0_pos up_keep0_start up_i0 up_nkeep0 up_while_op up_ne_op up_nkeep_step
    up_i_step up_slice_lo up_slice_plus up_values_if_not rp_values_default rp_single_op rp_single_k rp_single_if_not
    rp_single_ret_v rp_single_ret rp_nkeep0 rp_val0 rp_f0 rp_range_lo rp_ne_op rp_flag_op rp_nkeep_step rp_slice_lo
    rp_slice_plus rp_values_if_not rp_keep_new_via_s rp_keep_upd_via_s rp_sort_result u_pinned r_pinned].

Section Tie.
  Variable A : Type.
  Variable ltb eqb : A -> A -> bool.

  Lemma cmp_mask_eq l1 : forall l2, cmp_mask ltb eqb CEq l1 l2 = eq_mask eqb l1 l2.
  Proof. induction l1 as [|x t IH]; intros [|y t2]; simpl; try reflexivity. rewrite IH. reflexivity. Qed.

  Lemma dedup_length_le l : length (dedup eqb l) <= length l.
  Proof. induction l as [|x t IH]; simpl; [lia|]. destruct (memb eqb x t); simpl; lia. Qed.

  Lemma dedup_nodupb l : (length (dedup eqb l) =? length l) = nodupb eqb l.
  Proof.
    induction l as [|x t IH]; [reflexivity|]. cbn [dedup nodupb length].
    destruct (memb eqb x t) eqn:E; cbn [negb andb].
    - apply Nat.eqb_neq. pose proof (dedup_length_le t). lia.
    - cbn [length]. exact IH.
  Qed.

  Lemma unique_loop_g_ne rest : forall val acc,
    unique_loop_g ltb eqb CNe val acc rest = unique_loop eqb val acc rest.
  Proof.
    induction rest as [|[ind x] t IH]; intros val acc; [reflexivity|]. cbn [unique_loop_g unique_loop cmp_A].
    destruct (eqb x val); cbn [negb]; apply IH.
  Qed.

  Lemma rd_loop_g_ref rest : forall val f cur acc,
    rd_loop_g ltb eqb (fun i => i) (fun i => i) CNe CGt val f cur acc rest = rd_loop eqb val f cur acc rest.
  Proof.
    induction rest as [|[i [x fx]] t IH]; intros val f cur acc; [reflexivity|].
    cbn [rd_loop_g rd_loop cmp_A cmp_Z]. destruct (eqb x val); cbn [negb]; [|apply IH].
    destruct (f <? fx)%Z; apply IH.
  Qed.

  (* ------------------------------------------------------------------ match *)
  Lemma skel_match k p st a1 a2 :
    match_g ltb eqb ref_match k p st a1 a2 = match_with ltb eqb (is_string_of k) p st a1 a2.
  Proof.
    unfold match_g, match_with. params.
    destruct a1 as [|d1 t1]; [reflexivity|]. cbn [nth_error].
    destruct a2 as [|d2 t2]; [reflexivity|].
    pose proof (dedup_nodupb (d1 :: t1)) as Hd.
    set (n := length (d1 :: t1)) in *.
    assert (L1 : (n =? 0) = false) by reflexivity.
    assert (L2 : (length (d2 :: t2) =? 0) = false) by reflexivity.
    cbv beta iota zeta delta [cmp_nat]. rewrite L1, L2, Hd. cbn [orb].
    destruct (nodupb eqb (d1 :: t1)); cbn [negb]; [|reflexivity].
    assert (Es : (if is_string_g (mkCls true true) k then true else false) = is_string_of k) by (destruct k; reflexivity).
    rewrite Es. clear Es.
    assert (Ec : forall x y, conn_short COr x (Ok y) = Ok (x || y)) by (intros [|] y; reflexivity).
    rewrite Ec. clear Ec.
    change (fun j : nat => if j =? n then n - 1 else j) with (clamp_hi n).
    change (cmp_A ltb eqb CGt (maxl ltb d2 (d2 :: t2)) (maxl ltb d1 (d1 :: t1)))
      with (ltb (maxl ltb d1 (d1 :: t1)) (maxl ltb d2 (d2 :: t2))).
    change (search ltb SLeft) with (count_lt ltb).
    destruct p; cbn [xorb negb bind eval_ix].
    - destruct (ogather (d1 :: t1) _) as [vals|e]; [|reflexivity]. cbn [bind].
      rewrite cmp_mask_eq. reflexivity.
    - destruct (ogather (d1 :: t1) st) as [view|e]; [|reflexivity]. cbn [bind].
      destruct (ogather st _) as [i1|e]; [|reflexivity]. cbn [bind].
      destruct (ogather (d1 :: t1) i1) as [vals|e]; [|reflexivity]. cbn [bind].
      rewrite cmp_mask_eq. destruct (ogather _ (where_ _)); reflexivity.
  Qed.

  Lemma skel_match_multi k p a1 a2 :
    match_multi_g ltb eqb ref_match_multi ref_match k p (argsort ltb a1) a1 a2
    = match_multi ltb eqb (is_string_of k) p a1 a2.
  Proof. unfold match_multi_g. cbn [ref_match_multi mm_pass]. rewrite skel_match. reflexivity. Qed.

  (* ----------------------------------------------------------------- unique *)
  Lemma skel_unique s a : unique_g ltb eqb ref_unique s a = unique_with eqb s a.
  Proof.
    unfold unique_g, unique_with. params. cbn [Nat.eqb andb negb].
    unfold ogather. destruct (gather a s) as [sarr|] eqn:G; [|reflexivity]. cbn [bind].
    destruct s as [|i0 s'].
    - cbn in G. inversion G. reflexivity.
    - cbn [gather] in G. destruct (nth_error a i0) as [x|] eqn:E0; [|discriminate].
      destruct (gather a s') as [r|]; [|discriminate]. inversion G; subst sarr.
      cbn [start_index nth_error combine skipn]. rewrite E0. rewrite unique_loop_g_ne. reflexivity.
  Qed.

  Lemma skel_unique_call z s a v : unique_call_g ltb eqb ref_unique z s a v = unique_call eqb z s a v.
  Proof.
    unfold unique_call_g, unique_call. destruct z; [reflexivity|]. rewrite skel_unique.
    cbn [ref_unique up_values_if_not xorb]. unfold unique_values_with.
    destruct v; destruct (unique_with eqb s a) as [keep|e]; cbn [bind]; try reflexivity.
  Qed.

  (* the code as found is the same skeleton at the parameters read from ITS source *)
  Lemma skel_unique_as_found s a : unique_g ltb eqb asfound_unique s a = unique_orig_with eqb s a.
  Proof.
    unfold unique_g, unique_orig_with. params. cbn [Nat.eqb andb negb start_index].
    unfold ogather. destruct a as [|a0 t].
    - destruct (gather [] s); reflexivity.
    - destruct (gather (a0 :: t) s) as [sarr|]; [|reflexivity]. cbn [bind nth_error].
      rewrite unique_loop_g_ne. destruct (combine s sarr); reflexivity.
  Qed.

  (* ---------------------------------------------------------------- rem_dup *)
  Lemma skel_rem_dup_call s a flag v :
    rem_dup_call_g ltb eqb ref_rem_dup s a flag v = rem_dup_call eqb s a flag v.
  Proof.
    unfold rem_dup_call_g, rem_dup_call, rem_dup_values_with, rem_dup_with. params.
    cbn [Nat.eqb andb negb cmp_nat xorb].
    destruct (length a =? 1) eqn:E1; [destruct v; reflexivity|].
    unfold ogather. destruct (gather a s) as [sarr|]; [|destruct v; reflexivity]. cbn [bind].
    destruct (gather flag s) as [sflag|]; [|destruct v; reflexivity]. cbn [bind].
    destruct sarr as [|v0 sr].
    { cbn [nth_error]. replace (combine (seq 0 (length a)) (combine [] sflag)) with (@nil (nat * (A * Z)))
        by (destruct (seq 0 (length a)); reflexivity). destruct v; reflexivity. }
    destruct sflag as [|f0 sf].
    { cbn [nth_error combine]. replace (combine (seq 0 (length a)) []) with (@nil (nat * (A * Z)))
        by (destruct (seq 0 (length a)); reflexivity). destruct v; reflexivity. }
    destruct (length a) as [|n'].
    { cbn [seq combine nth_error]. destruct v; reflexivity. }
    cbn [seq combine nth_error skipn]. rewrite rd_loop_g_ref.
    destruct (gather s (rd_loop eqb v0 f0 0 [] (combine (seq 1 n') (combine sr sf)))) as [kept|]; cbn [bind];
      [|destruct v; reflexivity].
    destruct v; [|reflexivity]. destruct (gather a (sort_nat kept)); reflexivity.
  Qed.
End Tie.

(* the values read from the tree under check are the modelled ones *)
Lemma tie_params :
  gen_match = ref_match /\ gen_match_multi = ref_match_multi /\ gen_unique = ref_unique /\ gen_rem_dup = ref_rem_dup.
Proof. repeat split; reflexivity. Qed.

Lemma tie_match {A} (ltb eqb : A -> A -> bool) k p st a1 a2 :
  match_g ltb eqb gen_match k p st a1 a2 = match_with ltb eqb (is_string_of k) p st a1 a2.
Proof. destruct tie_params as (-> & _). apply skel_match. Qed.

Lemma tie_match_multi {A} (ltb eqb : A -> A -> bool) k p a1 a2 :
  match_multi_g ltb eqb gen_match_multi gen_match k p (argsort ltb a1) a1 a2
  = match_multi ltb eqb (is_string_of k) p a1 a2.
Proof. destruct tie_params as (-> & -> & _). apply skel_match_multi. Qed.

Lemma tie_unique {A} (ltb eqb : A -> A -> bool) z s a v :
  unique_call_g ltb eqb gen_unique z s a v = unique_call eqb z s a v.
Proof. destruct tie_params as (_ & _ & -> & _). apply skel_unique_call. Qed.

Lemma tie_rem_dup {A} (ltb eqb : A -> A -> bool) s a flag v :
  rem_dup_call_g ltb eqb gen_rem_dup s a flag v = rem_dup_call eqb s a flag v.
Proof. destruct tie_params as (_ & _ & _ & ->). apply skel_rem_dup_call. Qed.

(* the keyword defaults in the source are the documented ones *)
Lemma tie_defaults :
  mp_presorted_default gen_match = false /\ mm_presorted_default gen_match_multi = false
  /\ up_values_default gen_unique = false /\ rp_values_default gen_rem_dup = false.
Proof. repeat split; reflexivity. Qed.

(* ---- the property, stated about the regenerated definitions (keywords left at their defaults) *)
Lemma source_match {A} (ltb eqb : A -> A -> bool) : total_order ltb eqb ->
  forall k a1 a2, NoDup a1 -> a1 <> [] -> a2 <> [] ->
  exists o, match_g ltb eqb gen_match k (mp_presorted_default gen_match) (argsort ltb a1) a1 a2 = Ok o
            /\ match_ok a1 a2 o.
Proof.
  intros TO k a1 a2 ND N1 N2. rewrite tie_match. destruct tie_defaults as (-> & _).
  apply (match_correct A ltb eqb TO); assumption.
Qed.

Lemma source_match_multi {A} (ltb eqb : A -> A -> bool) : total_order ltb eqb ->
  forall k p a1 a2, NoDup a1 -> a1 <> [] -> a2 <> [] ->
  exists o, match_multi_g ltb eqb gen_match_multi gen_match k p (argsort ltb a1) a1 a2 = Ok o
            /\ match_ok a1 a2 o /\ groups_check eqb a1 a2 o = true.
Proof.
  intros TO k p a1 a2 ND N1 N2. rewrite tie_match_multi.
  destruct (match_multi_correct ltb eqb TO (is_string_of k) p a1 a2 ND N1 N2) as [o [E H]].
  exists o. split; [exact E|]. split; [exact H|]. apply (match_ok_groups A ltb eqb TO); assumption.
Qed.

Lemma source_unique {A} (ltb eqb : A -> A -> bool) : total_order ltb eqb ->
  forall s a, a <> [] -> sorting_perm ltb s a ->
  (exists keep, unique_call_g ltb eqb gen_unique false s a (up_values_default gen_unique) = Ok (UIdx keep)
                /\ one_per_value a keep)
  /\ (exists vals, unique_call_g ltb eqb gen_unique false s a true = Ok (UVals vals) /\ values_ok a vals).
Proof.
  intros TO s a Na SP. rewrite !tie_unique. destruct tie_defaults as (_ & _ & -> & _).
  unfold unique_call. split.
  - destruct (unique_with_correct A ltb eqb TO s a Na SP) as [keep [E H]]. exists keep. rewrite E. split; [reflexivity | exact H].
  - destruct (unique_values_with_correct A ltb eqb TO s a Na SP) as [vals [E H]]. exists vals. rewrite E. split; [reflexivity | exact H].
Qed.

Lemma source_rem_dup {A} (ltb eqb : A -> A -> bool) : total_order ltb eqb ->
  forall s a flag, a <> [] -> length flag = length a -> sorting_perm ltb s a ->
  exists sc keep, rem_dup_call_g ltb eqb gen_rem_dup s a flag (rp_values_default gen_rem_dup) = Ok (sc, keep, None)
                  /\ rem_dup_ok a flag keep.
Proof.
  intros TO s a flag Na L SP. rewrite tie_rem_dup. destruct tie_defaults as (_ & _ & _ & ->).
  destruct (rem_dup_call_correct A ltb eqb TO s a flag false Na L SP) as (sc & keep & vals & E & H & _ & _ & Hn).
  rewrite (Hn eq_refl) in E. exists sc, keep. split; [exact E | exact H].
Qed.

(* the code as found is the skeleton at the parameters of ITS source, and those are refuted *)
Lemma skel_unique_as_found_refuted :
  exists s a keep, a <> [] /\ sorting_perm zltb s a
                   /\ unique_g zltb zeqb asfound_unique s a = Ok keep /\ ~ one_per_value a keep.
Proof.
  destruct unique_as_found_refuted as (s & a & keep & H1 & H2 & H3 & H4).
  exists s, a, keep. rewrite skel_unique_as_found. auto.
Qed.

(* every interpreted parameter matters: changing it changes the function on a concrete input *)
Definition zm (P : mparams) k p a1 a2 := match_g zltb zeqb P k p (argsort zltb a1) a1 a2.
Lemma skel_sensitive :
  let a1 := [3; 1; 2]%Z in let a2 := [2; 2; 7; -1; 3]%Z in
  let good := Ok ([2; 2; 0], [0; 1; 4]) in
  let set_side P := mkM (mp_presorted_default P) (mp_el_index P) (mp_classes P) (mp_str_then P) (mp_str_else P)
        (mp_empty_op1 P) (mp_empty_k1 P) (mp_empty_conn P) (mp_empty_op2 P) (mp_empty_k2 P) (mp_empty_err P)
        (mp_uniq_op P) (mp_uniq_err P) (mp_sort_if_not P) SRight (mp_clamp_conn P) (mp_clamp_op P) (mp_bad_op P)
        (mp_clamp_minus P) (mp_filter_if_not P) (mp_eq_sorted P) (mp_eq_presorted P) (mp_el_first P)
        (mp_f_sorted P) (mp_r_sorted P) (mp_f_presorted P) (mp_r_presorted P) (mp_ret_swap P) in
  let set_clamp_op P := mkM (mp_presorted_default P) (mp_el_index P) (mp_classes P) (mp_str_then P) (mp_str_else P)
        (mp_empty_op1 P) (mp_empty_k1 P) (mp_empty_conn P) (mp_empty_op2 P) (mp_empty_k2 P) (mp_empty_err P)
        (mp_uniq_op P) (mp_uniq_err P) (mp_sort_if_not P) (mp_side P) (mp_clamp_conn P) CLt (mp_bad_op P)
        (mp_clamp_minus P) (mp_filter_if_not P) (mp_eq_sorted P) (mp_eq_presorted P) (mp_el_first P)
        (mp_f_sorted P) (mp_r_sorted P) (mp_f_presorted P) (mp_r_presorted P) (mp_ret_swap P) in
  let set_uniq_op P := mkM (mp_presorted_default P) (mp_el_index P) (mp_classes P) (mp_str_then P) (mp_str_else P)
        (mp_empty_op1 P) (mp_empty_k1 P) (mp_empty_conn P) (mp_empty_op2 P) (mp_empty_k2 P) (mp_empty_err P)
        CGt (mp_uniq_err P) (mp_sort_if_not P) (mp_side P) (mp_clamp_conn P) (mp_clamp_op P) (mp_bad_op P)
        (mp_clamp_minus P) (mp_filter_if_not P) (mp_eq_sorted P) (mp_eq_presorted P) (mp_el_first P)
        (mp_f_sorted P) (mp_r_sorted P) (mp_f_presorted P) (mp_r_presorted P) (mp_ret_swap P) in
  zm ref_match ClsNum false a1 a2 = good
  /\ zm (set_side ref_match) ClsNum false a1 a2 <> good
  /\ zm (set_clamp_op ref_match) ClsNum false a1 a2 = Err EIndex
  /\ zm (set_uniq_op ref_match) ClsNum false [3; 1; 3]%Z a2 <> Err EValue
  /\ rem_dup_call_g zltb zeqb ref_rem_dup [1; 0; 2; 3] [5; 1; 5; 5]%Z [3; 2; 3; 1]%Z false = Ok (false, [0; 1], None)
  /\ rem_dup_call_g zltb zeqb (mkR false CEq 1 false 0 0 0 0 0 1 CNe CGe 1 0 1 false false false true)
                    [1; 0; 2; 3] [5; 1; 5; 5]%Z [3; 2; 3; 1]%Z false = Ok (false, [1; 2], None).
Proof. cbv zeta. repeat split; try (vm_compute; reflexivity); intro H; vm_compute in H; discriminate H. Qed.

(* the statement ORDER is a parameter too: with the emptiness guard in front of `el = arr1[0]` an
   empty first array is rejected with ValueError instead of dying with IndexError; on non-empty
   arrays the order is irrelevant *)
Definition ref_match_guard_first : mparams :=
  mkM false 0 (mkCls true true) true false CEq 0 COr CEq 0 EValue CNe EValue true SLeft COr CGt CEq 1 true CEq CEq false
      (XAt XSt1 XSub1) (XAt XSt1 (XAt XSub1 XSub2)) XSub1 (XAt XSub1 XSub2) false.
Lemma skel_statement_order {A} (ltb eqb : A -> A -> bool) k p st a1 a2 :
  match_g ltb eqb ref_match k p st [] a2 = Err EIndex
  /\ match_g ltb eqb ref_match_guard_first k p st [] a2 = Err EValue
  /\ (a1 <> [] -> match_g ltb eqb ref_match_guard_first k p st a1 a2 = match_g ltb eqb ref_match k p st a1 a2).
Proof.
  split; [reflexivity|]. split; [reflexivity|]. intro N. destruct a1 as [|d1 t1]; [congruence|].
  unfold match_g, ref_match_guard_first, ref_match. cbn [mp_el_first mp_el_index nth_error mp_empty_conn mp_empty_op1 mp_empty_k1
    mp_empty_op2 mp_empty_k2 mp_empty_err cmp_nat length Nat.eqb orb].
  destruct (length a2 =? 0); reflexivity.
Qed.

(* the translated expressions matter as well: result not sorted without `s.sort()`; an index taken
   in the wrong coordinates (`keep[nkeep] = s[i]`); `arr1[sub1]` where `arr1[st1[sub1]]` is meant;
   the two returned arrays swapped *)
Lemma skel_sensitive_expressions :
  rem_dup_call_g zltb zeqb ref_rem_dup [2; 0; 1] [5; 7; 1]%Z [0; 0; 0]%Z false = Ok (false, [0; 1; 2], None)
  /\ rem_dup_call_g zltb zeqb (mkR false CEq 1 false 0 0 0 0 0 1 CNe CGt 1 0 1 false false false false)
       [2; 0; 1] [5; 7; 1]%Z [0; 0; 0]%Z false = Ok (false, [2; 0; 1], None)
  /\ rem_dup_call_g zltb zeqb (mkR false CEq 1 false 0 0 0 0 0 1 CNe CGt 1 0 1 false true false true)
       [2; 0; 1] [5; 7; 1]%Z [0; 0; 0]%Z false <> Ok (false, [0; 1; 2], None)
  /\ zm (mkM false 0 (mkCls true true) true false CEq 0 COr CEq 0 EValue CNe EValue true SLeft COr CGt CEq 1 true CEq CEq true
           XSub1 (XAt XSt1 (XAt XSub1 XSub2)) XSub1 (XAt XSub1 XSub2) false) ClsNum false [3; 1; 2]%Z [2; 2; 7; -1; 3]%Z
     <> Ok ([2; 2; 0], [0; 1; 4])
  /\ zm (mkM false 0 (mkCls true true) true false CEq 0 COr CEq 0 EValue CNe EValue true SLeft COr CGt CEq 1 true CEq CEq true
           (XAt XSt1 XSub1) (XAt XSt1 (XAt XSub1 XSub2)) XSub1 (XAt XSub1 XSub2) true) ClsNum false [3; 1; 2]%Z [2; 2; 7; -1; 3]%Z
     = Ok ([0; 1; 4], [2; 2; 0]).
Proof. repeat split; try (vm_compute; reflexivity); intro H; vm_compute in H; discriminate H. Qed.

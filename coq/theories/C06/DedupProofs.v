(* C06 — unique / rem_dup: the (repaired) scan over an argsort permutation keeps exactly one
   index per distinct value, rem_dup the one with the largest flag; checker soundness. *)
From Coq Require Import Sorting.Permutation Sorting.Sorted Arith.
From EsVerif.Common Require Import Base.
From EsVerif.C06 Require Import Model Spec Lemmas.
Local Open Scope nat_scope.

Lemma NoDup_map_In_inj {B C} (f : B -> C) l x y :
  NoDup (map f l) -> In x l -> In y l -> f x = f y -> x = y.
Proof.
  induction l as [|z t IH]; simpl; [tauto|]. intros N Hx Hy E. apply NoDup_cons_iff in N as [N1 N2].
  destruct Hx as [Ex|Hx], Hy as [Ey|Hy]; subst.
  - reflexivity.
  - exfalso. apply N1. rewrite E. apply in_map. exact Hy.
  - exfalso. apply N1. rewrite <- E. apply in_map. exact Hx.
  - apply IH; assumption.
Qed.

Lemma NoDup_map_inj_in {B C} (f : B -> C) l :
  NoDup l -> (forall x y, In x l -> In y l -> f x = f y -> x = y) -> NoDup (map f l).
Proof.
  induction 1 as [|x t Hx Ht IH]; intro Inj; simpl; constructor.
  - intro Hin. apply in_map_iff in Hin as [y [E Hy]]. apply Hx.
    rewrite (Inj x y); [exact Hy | left; reflexivity | right; exact Hy | symmetry; exact E].
  - apply IH. intros a b Ha Hb. apply Inj; right; assumption.
Qed.

Lemma map_fst_combine' {B C} (l : list B) (l' : list C) : length l = length l' -> map fst (combine l l') = l.
Proof. revert l'; induction l as [|x t IH]; intros [|y t'] H; simpl in *; try discriminate; [reflexivity|]. f_equal. apply IH. lia. Qed.

Lemma map_snd_combine' {B C} (l : list B) (l' : list C) : length l = length l' -> map snd (combine l l') = l'.
Proof. revert l'; induction l as [|x t IH]; intros [|y t'] H; simpl in *; try discriminate; [reflexivity|]. f_equal. apply IH. lia. Qed.

Lemma map_nth_seq (s : list nat) : map (fun p => nth p s 0) (seq 0 (length s)) = s.
Proof.
  assert (G := gather_seq s). rewrite (gather_map_nth s 0) in G; [congruence|].
  intros i Hi. apply in_seq in Hi. lia.
Qed.

Lemma combine_map_l {B C D} (h : B -> D) (l : list B) (l' : list C) :
  combine (map h l) l' = map (fun e => (h (fst e), snd e)) (combine l l').
Proof. revert l'; induction l as [|x t IH]; intros [|y t']; simpl; try reflexivity. f_equal. apply IH. Qed.

Lemma In_combine3 {B C} (s : list nat) (l1 : list B) (l2 : list C) k x f :
  In (k, (x, f)) (combine s (combine l1 l2)) -> In (k, x) (combine s l1) /\ In (k, f) (combine s l2).
Proof.
  revert l1 l2; induction s as [|i t IH]; intros [|y1 t1] [|y2 t2]; simpl; try tauto.
  intros [E|H]; [inversion E; subst; auto|]. destruct (IH _ _ H); auto.
Qed.

Lemma In_combine3_ex {B C} (s : list nat) (l1 : list B) (l2 : list C) i :
  length l1 = length s -> length l2 = length s -> In i s -> exists x f, In (i, (x, f)) (combine s (combine l1 l2)).
Proof.
  revert l1 l2; induction s as [|k t IH]; intros [|y1 t1] [|y2 t2] L1 L2; simpl in *; try discriminate; [tauto|].
  intros [E|H]; [subst; exists y1, y2; left; reflexivity|].
  destruct (IH t1 t2 ltac:(lia) ltac:(lia) H) as [x [f Hx]]. exists x, f. right; exact Hx.
Qed.

Section Dedup.
  Variable A : Type.
  Variable ltb eqb : A -> A -> bool.
  Hypothesis TO : total_order ltb eqb.

  (* ---------------------------------------------- one_per_value from (index, value) entries *)
  Lemma entries_one_per_value (a : list A) (out : list (nat * A)) :
    (forall e, In e out -> nth_error a (fst e) = Some (snd e)) ->
    NoDup (map snd out) ->
    (forall v, In v a -> In v (map snd out)) ->
    one_per_value a (map fst out).
  Proof.
    intros He ND Cov. split; [|split].
    - apply NoDup_map_inj_in; [eapply NoDup_map_inv; exact ND|].
      intros x y Hx Hy E. apply (NoDup_map_In_inj snd out x y ND Hx Hy).
      pose proof (He x Hx) as H1. pose proof (He y Hy) as H2. rewrite E in H1. congruence.
    - intros k Hk. apply in_map_iff in Hk as [e [E Hin]]. subst k. apply nth_error_Some.
      rewrite (He e Hin). discriminate.
    - intros v Hv. apply Cov in Hv. apply in_map_iff in Hv as [e [E Hin]].
      exists (fst e). split.
      + split; [apply in_map; exact Hin | rewrite (He e Hin); congruence].
      + intros k' [Hk' Hv']. apply in_map_iff in Hk' as [e' [E' Hin']]. subst k'.
        rewrite (He e' Hin') in Hv'. f_equal. apply (NoDup_map_In_inj snd out e e' ND Hin Hin'). congruence.
  Qed.

  Lemma one_per_value_perm (a : list A) keep keep' :
    Permutation keep keep' -> one_per_value a keep -> one_per_value a keep'.
  Proof.
    intros P [N [B U]]. split; [|split].
    - eapply Permutation_NoDup; eauto.
    - intros k Hk. apply B. eapply Permutation_in; [apply Permutation_sym; exact P | exact Hk].
    - intros v Hv. destruct (U v Hv) as [k [[H1 H2] H3]]. exists k. split.
      + split; [eapply Permutation_in; eauto | exact H2].
      + intros k' [H1' H2']. apply H3. split; [|exact H2'].
        eapply Permutation_in; [apply Permutation_sym; exact P | exact H1'].
  Qed.

  (* values=True: the values at the kept indices are the distinct values, once each *)
  Lemma one_per_value_values (a : list A) keep :
    one_per_value a keep -> exists vals, gather a keep = Some vals /\ values_ok a vals.
  Proof.
    intros [N [B U]]. destruct a as [|d t].
    - destruct keep as [|k ks]; [|specialize (B k (or_introl eq_refl)); simpl in B; lia].
      exists []. split; [reflexivity|]. split; [constructor | tauto].
    - remember (d :: t) as a eqn:Ea. clear Ea t.
      exists (map (fun k => nth k a d) keep). split; [apply gather_map_nth; exact B|]. split.
      + apply NoDup_map_inj_in; [exact N|]. intros x y Hx Hy E.
        assert (Hv : In (nth x a d) a) by (apply nth_In; apply B; exact Hx).
        destruct (U _ Hv) as [k [_ Uk]].
        rewrite <- (Uk x), <- (Uk y); [reflexivity| |].
        * split; [exact Hy|]. rewrite E. apply nth_error_nth'. apply B; exact Hy.
        * split; [exact Hx|]. apply nth_error_nth'. apply B; exact Hx.
      + intro v. split; intro Hv.
        * destruct (U v Hv) as [k [[H1 H2] _]]. apply in_map_iff. exists k. split; [|exact H1].
          apply nth_error_nth. exact H2.
        * apply in_map_iff in Hv as [k [E Hk]]. subst v. apply nth_In. apply B; exact Hk.
  Qed.

  (* ------------------------------------------------------------ unique *)
  (* the scan with whole (index, value) entries instead of indices *)
  Fixpoint uloop_e (cur : nat * A) (acc rest : list (nat * A)) : list (nat * A) :=
    match rest with
    | [] => rev (cur :: acc)
    | e :: t => if eqb (snd e) (snd cur) then uloop_e cur acc t else uloop_e e (cur :: acc) t
    end.

  Lemma uloop_e_fst rest : forall cur acc,
    unique_loop eqb (snd cur) (fst cur :: map fst acc) rest = map fst (uloop_e cur acc rest).
  Proof.
    induction rest as [|[ind x] t IH]; intros cur acc; simpl.
    - rewrite map_app, map_rev. reflexivity.
    - destruct (eqb x (snd cur)); [apply IH|]. apply (IH (ind, x) (cur :: acc)).
  Qed.

  Lemma uloop_e_spec rest : forall pre cur acc,
    sorted ltb (map snd (pre ++ rest)) ->
    In cur pre -> incl acc pre ->
    NoDup (map snd (cur :: acc)) ->
    (forall e, In e pre -> In (snd e) (map snd (cur :: acc))) ->
    (forall e, In e pre -> ltb (snd cur) (snd e) = false) ->
    incl (uloop_e cur acc rest) (pre ++ rest)
    /\ NoDup (map snd (uloop_e cur acc rest))
    /\ (forall e, In e (pre ++ rest) -> In (snd e) (map snd (uloop_e cur acc rest))).
  Proof.
    induction rest as [|e t IH]; intros pre cur acc S Hc Ha ND Cov Mx.
    - cbn [uloop_e]. rewrite app_nil_r. split; [|split].
      + intros x Hx. apply in_rev in Hx. destruct Hx as [E|Hx]; [subst; exact Hc | apply Ha; exact Hx].
      + rewrite map_rev. apply NoDup_rev. exact ND.
      + intros x Hx. rewrite map_rev. apply -> in_rev. apply Cov; exact Hx.
    - cbn [uloop_e].
      assert (EQ : pre ++ e :: t = (pre ++ [e]) ++ t) by (rewrite <- app_assoc; reflexivity).
      assert (Sm : forall y, In y pre -> ltb (snd e) (snd y) = false).
      { intros y Hy. rewrite map_app in S. cbn [map] in S. apply ssorted_app_mid in S as [S1 _].
        apply S1. apply in_map. exact Hy. }
      rewrite EQ in *. destruct (eqb (snd e) (snd cur)) eqn:E.
      + apply (to_eqb _ _ _ TO) in E. apply IH; auto.
        * apply in_or_app; left; exact Hc.
        * intros x Hx. apply in_or_app; left; apply Ha; exact Hx.
        * intros x Hx. apply in_app_or in Hx as [Hx|[Hx|[]]]; [apply Cov; exact Hx|].
          subst x. rewrite E. left; reflexivity.
        * intros x Hx. apply in_app_or in Hx as [Hx|[Hx|[]]]; [apply Mx; exact Hx|].
          subst x. rewrite E. apply (to_irrefl _ _ _ TO).
      + apply IH; auto.
        * apply in_or_app; right; left; reflexivity.
        * intros x [Hx|Hx]; apply in_or_app; left; [subst; exact Hc | apply Ha; exact Hx].
        * change (map snd (e :: cur :: acc)) with (snd e :: map snd (cur :: acc)).
          constructor; [|exact ND]. intro Hin. apply in_map_iff in Hin as [e' [E' Hin]].
          assert (He' : In e' pre) by (destruct Hin as [X|X]; [subst; exact Hc | apply Ha; exact X]).
          pose proof (Mx e' He') as M1. rewrite E' in M1. pose proof (Sm cur Hc) as M2.
          pose proof (to_total _ _ _ TO _ _ M1 M2) as X. rewrite X, (eqb_refl _ ltb eqb TO) in E. discriminate.
        * intros x Hx. apply in_app_or in Hx as [Hx|[Hx|[]]].
          -- right. apply Cov; exact Hx.
          -- subst x. left; reflexivity.
        * intros x Hx. apply in_app_or in Hx as [Hx|[Hx|[]]]; [apply Sm; exact Hx|].
          subst x. apply (to_irrefl _ _ _ TO).
  Qed.

  Theorem unique_with_correct s a :
    a <> [] -> sorting_perm ltb s a ->
    exists keep, unique_with eqb s a = Ok keep /\ one_per_value a keep.
  Proof.
    intros Na SP. destruct (sorting_perm_facts _ ltb s a SP) as [Ls [_ Hs]].
    destruct SP as [_ [sarr [G S]]].
    pose proof (gather_length _ _ _ G) as Lr. pose proof (proj1 (gather_Forall2 _ _ _) G) as F.
    unfold unique_with, ogather. rewrite G. cbn [bind].
    destruct (combine s sarr) as [|[i0 v0] rest] eqn:Ec.
    - exfalso. assert (L : length (combine s sarr) = 0) by (rewrite Ec; reflexivity).
      rewrite combine_length in L. destruct a; [congruence|]. simpl in Ls. lia.
    - eexists. split; [reflexivity|].
      change (unique_loop eqb v0 [i0] rest)
        with (unique_loop eqb (snd (i0, v0)) (fst (i0, v0) :: map fst (@nil (nat * A))) rest).
      rewrite uloop_e_fst.
      destruct (uloop_e_spec rest [(i0, v0)] (i0, v0) []) as [I [N C]].
      + change ([(i0, v0)] ++ rest) with ((i0, v0) :: rest). rewrite <- Ec.
        rewrite map_snd_combine' by lia. exact S.
      + left; reflexivity.
      + intros x [].
      + simpl. constructor; [intros []|constructor].
      + intros e [E|[]]. subst. left; reflexivity.
      + intros e [E|[]]. subst. apply (to_irrefl _ _ _ TO).
      + change ([(i0, v0)] ++ rest) with ((i0, v0) :: rest) in *. rewrite <- Ec in *.
        apply entries_one_per_value; [| exact N |].
        * intros [k x] He. apply I in He. exact (Forall2_combine_In _ _ _ _ _ F He).
        * intros v Hv. apply In_nth_error in Hv as [i Hi].
          assert (Hin : In i s) by (apply Hs; apply nth_error_Some; congruence).
          destruct (Forall2_In_l _ _ _ _ F Hin) as [y [Hy Hc]]. rewrite Hi in Hy. inversion Hy; subst y.
          apply (C _ Hc).
  Qed.

  Theorem unique_values_with_correct s a :
    a <> [] -> sorting_perm ltb s a ->
    exists vals, unique_values_with eqb s a = Ok vals /\ values_ok a vals.
  Proof.
    intros Na SP. destruct (unique_with_correct s a Na SP) as [keep [E H]].
    destruct (one_per_value_values a keep H) as [vals [G V]].
    exists vals. split; [|exact V]. unfold unique_values_with. rewrite E. cbn [bind].
    unfold ogather. rewrite G. reflexivity.
  Qed.

  (* ----------------------------------------------------------- rem_dup *)
  Local Notation ent := (nat * (A * Z))%type.
  Definition eval (e : ent) : A := fst (snd e).
  Definition eflag (e : ent) : Z := snd (snd e).

  Fixpoint rloop_e (cur : ent) (acc rest : list ent) : list ent :=
    match rest with
    | [] => rev (cur :: acc)
    | e :: t =>
        if eqb (eval e) (eval cur) then
          (if (eflag cur <? eflag e)%Z then rloop_e e acc t else rloop_e cur acc t)
        else rloop_e e (cur :: acc) t
    end.

  Lemma rloop_e_fst rest : forall cur acc,
    rd_loop eqb (eval cur) (eflag cur) (fst cur) (map fst acc) rest = map fst (rloop_e cur acc rest).
  Proof.
    induction rest as [|[i [x fx]] t IH]; intros cur acc; cbn [rd_loop rloop_e].
    - rewrite map_rev. reflexivity.
    - change (eval (i, (x, fx))) with x. change (eflag (i, (x, fx))) with fx.
      destruct (eqb x (eval cur)) eqn:E.
      + apply (to_eqb _ _ _ TO) in E. destruct (eflag cur <? fx)%Z.
        * rewrite <- E. apply (IH (i, (x, fx)) acc).
        * apply IH.
      + apply (IH (i, (x, fx)) (cur :: acc)).
  Qed.

  Lemma rd_loop_relabel (h : nat -> nat) rest : forall v f i acc,
    map h (rd_loop eqb v f i acc rest)
    = rd_loop eqb v f (h i) (map h acc) (map (fun e : ent => (h (fst e), snd e)) rest).
  Proof.
    induction rest as [|[j [x fx]] t IH]; intros v f i acc; cbn [rd_loop map fst snd].
    - rewrite map_rev. reflexivity.
    - destruct (eqb x v); [destruct (f <? fx)%Z|]; apply IH.
  Qed.

  Lemma rloop_e_spec rest : forall pre cur acc,
    sorted ltb (map eval (pre ++ rest)) ->
    In cur pre -> incl acc pre ->
    NoDup (map eval (cur :: acc)) ->
    (forall e, In e pre -> In (eval e) (map eval (cur :: acc))) ->
    (forall e, In e pre -> ltb (eval cur) (eval e) = false) ->
    (forall k e, In k (cur :: acc) -> In e pre -> eval e = eval k -> (eflag e <= eflag k)%Z) ->
    let out := rloop_e cur acc rest in
    incl out (pre ++ rest)
    /\ NoDup (map eval out)
    /\ (forall e, In e (pre ++ rest) -> In (eval e) (map eval out))
    /\ (forall k e, In k out -> In e (pre ++ rest) -> eval e = eval k -> (eflag e <= eflag k)%Z).
  Proof.
    induction rest as [|e t IH]; intros pre cur acc S Hc Ha ND Cov Mx Fl.
    - cbn [rloop_e]. rewrite app_nil_r. cbv zeta. split; [|split; [|split]].
      + intros x Hx. apply in_rev in Hx. destruct Hx as [E|Hx]; [subst; exact Hc | apply Ha; exact Hx].
      + rewrite map_rev. apply NoDup_rev. exact ND.
      + intros x Hx. rewrite map_rev. apply -> in_rev. apply Cov; exact Hx.
      + intros k x Hk Hx. apply in_rev in Hk. apply Fl; assumption.
    - cbn [rloop_e].
      assert (EQ : pre ++ e :: t = (pre ++ [e]) ++ t) by (rewrite <- app_assoc; reflexivity).
      assert (Sm : forall y, In y pre -> ltb (eval e) (eval y) = false).
      { intros y Hy. rewrite map_app in S. cbn [map] in S. apply ssorted_app_mid in S as [S1 _].
        apply S1. apply in_map. exact Hy. }
      assert (Hacc : forall k, In k acc -> eval k <> eval cur).
      { intros k Hk E. cbn [map] in ND. apply NoDup_cons_iff in ND as [N1 _]. apply N1. rewrite <- E.
        apply in_map. exact Hk. }
      rewrite EQ in *. destruct (eqb (eval e) (eval cur)) eqn:E.
      + apply (to_eqb _ _ _ TO) in E. destruct (eflag cur <? eflag e)%Z eqn:Ef.
        * (* same value, larger flag: e replaces cur *)
          apply Z.ltb_lt in Ef. apply IH; auto.
          -- apply in_or_app; right; left; reflexivity.
          -- intros x Hx. apply in_or_app; left; apply Ha; exact Hx.
          -- cbn [map] in *. rewrite E. exact ND.
          -- intros x Hx. cbn [map]. rewrite E. apply in_app_or in Hx as [Hx|[Hx|[]]]; [apply Cov; exact Hx|].
             subst x. rewrite E. left; reflexivity.
          -- intros x Hx. rewrite E. apply in_app_or in Hx as [Hx|[Hx|[]]]; [apply Mx; exact Hx|].
             subst x. rewrite E. apply (to_irrefl _ _ _ TO).
          -- intros k x Hk Hx Ev. destruct Hk as [Hk|Hk]; apply in_app_or in Hx as [Hx|[Hx|[]]].
             ++ subst k. rewrite E in Ev. pose proof (Fl cur x (or_introl eq_refl) Hx Ev). lia.
             ++ subst. lia.
             ++ apply Fl; auto. right; exact Hk.
             ++ subst x. exfalso. apply (Hacc k Hk). congruence.
        * apply Z.ltb_ge in Ef. apply IH; auto.
          -- apply in_or_app; left; exact Hc.
          -- intros x Hx. apply in_or_app; left; apply Ha; exact Hx.
          -- intros x Hx. apply in_app_or in Hx as [Hx|[Hx|[]]]; [apply Cov; exact Hx|].
             subst x. rewrite E. left; reflexivity.
          -- intros x Hx. apply in_app_or in Hx as [Hx|[Hx|[]]]; [apply Mx; exact Hx|].
             subst x. rewrite E. apply (to_irrefl _ _ _ TO).
          -- intros k x Hk Hx Ev. apply in_app_or in Hx as [Hx|[Hx|[]]]; [apply Fl; auto|].
             subst x. destruct Hk as [Hk|Hk]; [subst k; exact Ef|].
             exfalso. apply (Hacc k Hk). congruence.
      + (* new value *)
        assert (Hnew : ~ In (eval e) (map eval (cur :: acc))).
        { intro Hin. apply in_map_iff in Hin as [e' [E' Hin]].
          assert (He' : In e' pre) by (destruct Hin as [X|X]; [subst; exact Hc | apply Ha; exact X]).
          pose proof (Mx e' He') as M1. rewrite E' in M1. pose proof (Sm cur Hc) as M2.
          pose proof (to_total _ _ _ TO _ _ M1 M2) as X. rewrite X, (eqb_refl _ ltb eqb TO) in E. discriminate. }
        apply IH; auto.
        * apply in_or_app; right; left; reflexivity.
        * intros x [Hx|Hx]; apply in_or_app; left; [subst; exact Hc | apply Ha; exact Hx].
        * change (map eval (e :: cur :: acc)) with (eval e :: map eval (cur :: acc)).
          constructor; [exact Hnew | exact ND].
        * intros x Hx. apply in_app_or in Hx as [Hx|[Hx|[]]].
          -- right. apply Cov; exact Hx.
          -- subst x. left; reflexivity.
        * intros x Hx. apply in_app_or in Hx as [Hx|[Hx|[]]]; [apply Sm; exact Hx|].
          subst x. apply (to_irrefl _ _ _ TO).
        * intros k x Hk Hx Ev. destruct Hk as [Hk|Hk]; apply in_app_or in Hx as [Hx|[Hx|[]]].
          -- subst k. exfalso. apply Hnew. rewrite <- Ev. apply Cov; exact Hx.
          -- subst. lia.
          -- apply Fl; auto.
          -- subst x. exfalso. apply Hnew. rewrite Ev. apply in_map. exact Hk.
  Qed.

  Lemma map_eval_combine3 (q : list nat) (l1 : list A) (l2 : list Z) :
    length l1 = length q -> length l2 = length q -> map eval (combine q (combine l1 l2)) = l1.
  Proof.
    revert l1 l2; induction q as [|i t IH]; intros [|x1 t1] [|x2 t2] L1 L2; simpl in *; try discriminate; [reflexivity|].
    unfold eval at 1. simpl. f_equal. apply IH; lia.
  Qed.

  Lemma one_per_value_single (x : A) : one_per_value [x] [0].
  Proof.
    split; [|split].
    - constructor; [intros []|constructor].
    - intros k [E|[]]. subst. simpl. lia.
    - intros v [E|[]]. subst v. exists 0. split.
      + split; [left; reflexivity | reflexivity].
      + intros k' [[E|[]] _]. exact E.
  Qed.

  Theorem rem_dup_with_correct s a flag :
    a <> [] -> length flag = length a -> sorting_perm ltb s a ->
    exists keep, rem_dup_with eqb s a flag = Ok keep /\ rem_dup_ok a flag keep.
  Proof.
    intros Na Lf SP. unfold rem_dup_with. destruct (length a =? 1) eqn:E1.
    - apply Nat.eqb_eq in E1. destruct a as [|x [|y t]]; simpl in E1; try lia.
      exists [0]. split; [reflexivity|]. split; [apply one_per_value_single|].
      intros k j x0 fk fj [Hk|[]] Hak Haj Hfk Hfj. subst k.
      destruct j as [|j]; [assert (fj = fk) by congruence; lia|]. destruct j; simpl in Haj; discriminate.
    - apply Nat.eqb_neq in E1.
      destruct (sorting_perm_facts _ ltb s a SP) as [Ls [_ Hs]].
      destruct SP as [_ [sarr [G S]]].
      pose proof (gather_length _ _ _ G) as Lr. pose proof (proj1 (gather_Forall2 _ _ _) G) as F.
      assert (Bf : forall i, In i s -> i < length flag) by (intros i Hi; rewrite Lf; apply Hs; exact Hi).
      pose proof (gather_map_nth flag 0%Z s Bf) as Gf. set (sflag := map (fun i => nth i flag 0%Z) s) in *.
      pose proof (gather_length _ _ _ Gf) as Lsf. pose proof (proj1 (gather_Forall2 _ _ _) Gf) as Ff.
      unfold ogather at 1. rewrite G. cbn [bind]. unfold ogather at 1. rewrite Gf. cbn [bind].
      set (zs := combine sarr sflag). set (n := length a) in *.
      assert (Lzs : length zs = n) by (unfold zs; rewrite combine_length; lia).
      set (h := fun p => nth p s 0).
      assert (Erel : map (fun e : ent => (h (fst e), snd e)) (combine (seq 0 n) zs) = combine s zs).
      { transitivity (combine (map h (seq 0 n)) zs); [symmetry; apply (combine_map_l h (seq 0 n) zs)|].
        f_equal. unfold h. rewrite <- Ls. apply map_nth_seq. }
      destruct (combine (seq 0 n) zs) as [|[i0 [v0 f0]] rest] eqn:Ec.
      { exfalso. assert (L : length (combine (seq 0 n) zs) = 0) by (rewrite Ec; reflexivity).
        rewrite combine_length, seq_length in L. destruct a; [congruence|]. simpl in n. lia. }
      cbn [map fst snd] in Erel.
      set (rest' := map (fun e : ent => (h (fst e), snd e)) rest) in *.
      set (cur := (h i0, (v0, f0)) : ent) in *.
      (* facts about the entries in original index space *)
      assert (Hent : forall k x f, In (k, (x, f)) (combine s zs) ->
                                   nth_error a k = Some x /\ nth_error flag k = Some f).
      { intros k x f Hin. unfold zs in Hin. apply In_combine3 in Hin as [H1 H2].
        split; [exact (Forall2_combine_In _ _ _ _ _ F H1) | exact (Forall2_combine_In _ _ _ _ _ Ff H2)]. }
      assert (Hall : forall i, i < n -> exists x f, In (i, (x, f)) (combine s zs)).
      { intros i Hi. unfold zs. apply In_combine3_ex; [lia | lia | apply Hs; exact Hi]. }
      (* the loop over relabelled entries *)
      destruct (rloop_e_spec rest' [cur] cur []) as [I [N [C M]]].
      { change ([cur] ++ rest') with (cur :: rest'). rewrite Erel. unfold zs.
        rewrite map_eval_combine3 by lia. exact S. }
      { left; reflexivity. }
      { intros x []. }
      { simpl. constructor; [intros []|constructor]. }
      { intros e [E|[]]. subst. left; reflexivity. }
      { intros e [E|[]]. subst. apply (to_irrefl _ _ _ TO). }
      { intros k e [Ek|[]] [Ee|[]] _. subst. lia. }
      change ([cur] ++ rest') with (cur :: rest') in *. rewrite Erel in *.
      set (out := rloop_e cur [] rest') in *.
      (* the positions kept by the real loop, pushed through s, are the labels of [out] *)
      assert (Ekept : map h (rd_loop eqb v0 f0 i0 [] rest) = map fst out).
      { rewrite rd_loop_relabel. fold rest'. cbn [map]. unfold out.
        rewrite <- rloop_e_fst. reflexivity. }
      assert (Bpos : forall p, In p (rd_loop eqb v0 f0 i0 [] rest) -> p < length s).
      { intros p Hp.
        change (rd_loop eqb v0 f0 i0 [] rest)
          with (rd_loop eqb (eval (i0, (v0, f0))) (eflag (i0, (v0, f0))) (fst (i0, (v0, f0))) (map fst (@nil ent)) rest) in Hp.
        rewrite rloop_e_fst in Hp. apply in_map_iff in Hp as [e [Ee He]]. subst p.
        destruct (rloop_e_spec rest [(i0, (v0, f0))] (i0, (v0, f0)) []) as [I0 _].
        - (* sortedness is irrelevant for inclusion, but the lemma asks for it *)
          change ([(i0, (v0, f0))] ++ rest) with ((i0, (v0, f0)) :: rest). rewrite <- Ec. unfold zs.
          rewrite map_eval_combine3 by (rewrite seq_length; lia). exact S.
        - left; reflexivity.
        - intros x [].
        - simpl. constructor; [intros []|constructor].
        - intros e0 [E|[]]. subst. left; reflexivity.
        - intros e0 [E|[]]. subst. apply (to_irrefl _ _ _ TO).
        - intros k e0 [Ek|[]] [Ee|[]] _. subst. lia.
        - change ([(i0, (v0, f0))] ++ rest) with ((i0, (v0, f0)) :: rest) in I0. rewrite <- Ec in I0.
          apply I0 in He. destruct e as [p z]. apply in_combine_l in He. apply in_seq in He. cbn [fst]. lia. }
      unfold ogather. rewrite (gather_map_nth s 0 _ Bpos). fold h. cbn [bind]. rewrite Ekept.
      eexists. split; [reflexivity|].
      pose proof (sort_nat_perm (map fst out)) as Psort.
      split.
      + apply (one_per_value_perm a _ _ Psort).
        replace (map fst out) with (map fst (map (fun e : ent => (fst e, eval e)) out))
          by (rewrite map_map; reflexivity).
        apply entries_one_per_value.
        * intros e He. apply in_map_iff in He as [[k [x f]] [Ee He]]. subst e. cbn [fst snd].
          apply I in He. apply Hent in He. unfold eval; cbn [fst snd]. tauto.
        * rewrite map_map. cbn [snd]. exact N.
        * intros v Hv. rewrite map_map. cbn [snd]. apply In_nth_error in Hv as [i Hi].
          assert (Hlt : i < n) by (apply nth_error_Some; congruence).
          destruct (Hall i Hlt) as [x [f Hin]]. pose proof (Hent _ _ _ Hin) as [Hx _].
          rewrite Hi in Hx. inversion Hx; subst x. apply (C _ Hin).
      + intros k j x fk fj Hk Hak Haj Hfk Hfj.
        apply (Permutation_in _ (Permutation_sym Psort)) in Hk. apply in_map_iff in Hk as [[k' [xk f']] [Ek Hk]].
        cbn [fst] in Ek. subst k'. pose proof (Hent _ _ _ (I _ Hk)) as [Hx Hf].
        rewrite Hak in Hx. inversion Hx; subst xk. rewrite Hfk in Hf. inversion Hf; subst f'.
        assert (Hlt : j < n) by (apply nth_error_Some; congruence).
        destruct (Hall j Hlt) as [xj [f Hin]]. pose proof (Hent _ _ _ Hin) as [Hxj Hfj'].
        rewrite Haj in Hxj. inversion Hxj; subst xj. rewrite Hfj in Hfj'. inversion Hfj'; subst f.
        exact (M _ _ Hk Hin eq_refl).
  Qed.

  Theorem rem_dup_values_with_correct s a flag :
    a <> [] -> length flag = length a -> sorting_perm ltb s a ->
    exists keep vals, rem_dup_values_with eqb s a flag = Ok (keep, vals)
                      /\ rem_dup_ok a flag keep /\ gather a keep = Some vals /\ values_ok a vals.
  Proof.
    intros Na Lf SP. destruct (rem_dup_with_correct s a flag Na Lf SP) as [keep [E H]].
    destruct (one_per_value_values a keep (proj1 H)) as [vals [G V]].
    exists keep, vals. split; [|auto]. unfold rem_dup_values_with. rewrite E. cbn [bind].
    unfold ogather. rewrite G. reflexivity.
  Qed.

  (* ------------------------------------------------------------ checkers *)
  Theorem one_per_value_check_sound a keep : one_per_value_check eqb a keep = true -> one_per_value a keep.
  Proof.
    unfold one_per_value_check. destruct (gather a keep) as [vals|] eqn:G; [|discriminate].
    intro H. apply andb_true_iff in H as [H1 H2].
    pose proof (gather_length _ _ _ G) as L. pose proof (proj1 (gather_Forall2 _ _ _) G) as F.
    rewrite <- (map_fst_combine' keep vals) by lia. apply entries_one_per_value.
    - intros [k x] He. exact (Forall2_combine_In _ _ _ _ _ F He).
    - rewrite map_snd_combine' by lia. apply (nodupb_NoDup _ ltb eqb TO). exact H1.
    - intros v Hv. rewrite map_snd_combine' by lia. rewrite forallb_forall in H2.
      apply (memb_In _ ltb eqb TO). apply H2. exact Hv.
  Qed.

  Theorem values_check_sound a vals : values_check eqb a vals = true -> values_ok a vals.
  Proof.
    unfold values_check. intro H. apply andb_true_iff in H as [H H3]. apply andb_true_iff in H as [H1 H2].
    rewrite forallb_forall in H2, H3. split; [apply (nodupb_NoDup _ ltb eqb TO); exact H1|].
    intro v. split; intro Hv; apply (memb_In _ ltb eqb TO); auto.
  Qed.

  Theorem rem_dup_check_sound a flag keep : rem_dup_check eqb a flag keep = true -> rem_dup_ok a flag keep.
  Proof.
    unfold rem_dup_check. intro H. apply andb_true_iff in H as [H H3]. apply andb_true_iff in H as [H1 H2].
    apply Nat.eqb_eq in H1. split; [apply one_per_value_check_sound; exact H2|].
    intros k j x fk fj Hk Hak Haj Hfk Hfj. rewrite forallb_forall in H3. specialize (H3 k Hk).
    rewrite Hak, Hfk in H3. rewrite forallb_forall in H3.
    assert (Hin : In (x, fj) (combine a flag)).
    { clear - Haj Hfj. revert j flag Haj Hfj. induction a as [|y t IH]; intros [|j] [|g gs] H1 H2; simpl in *; try discriminate.
      - inversion H1; inversion H2; subst. left; reflexivity.
      - right. eapply IH; eauto. }
    specialize (H3 _ Hin). cbn [fst snd] in H3. rewrite (eqb_refl _ ltb eqb TO) in H3. cbn [implb] in H3.
    apply Z.leb_le. exact H3.
  Qed.
  (* the checkers are also complete: they never reject an answer that has the property *)
  Theorem one_per_value_check_complete a keep : one_per_value a keep -> one_per_value_check eqb a keep = true.
  Proof.
    intro H. destruct (one_per_value_values a keep H) as [vals [G [N C]]].
    unfold one_per_value_check. rewrite G. apply andb_true_iff. split.
    - apply (nodupb_NoDup _ ltb eqb TO). exact N.
    - apply forallb_forall. intros v Hv. apply (memb_In _ ltb eqb TO). apply C. exact Hv.
  Qed.

  Theorem values_check_complete a vals : values_ok a vals -> values_check eqb a vals = true.
  Proof.
    intros [N C]. unfold values_check. rewrite !andb_true_iff. split; [split|].
    - apply (nodupb_NoDup _ ltb eqb TO). exact N.
    - apply forallb_forall. intros v Hv. apply (memb_In _ ltb eqb TO). apply C. exact Hv.
    - apply forallb_forall. intros v Hv. apply (memb_In _ ltb eqb TO). apply C. exact Hv.
  Qed.

  Lemma In_combine_nth {B C} (l : list B) (l' : list C) x y :
    In (x, y) (combine l l') -> exists j, nth_error l j = Some x /\ nth_error l' j = Some y.
  Proof.
    revert l'; induction l as [|b t IH]; intros [|c t']; simpl; try tauto.
    intros [E|H]; [inversion E; subst; exists 0; auto|].
    destruct (IH _ H) as [j Hj]. exists (S j). exact Hj.
  Qed.

  Theorem rem_dup_check_complete a flag keep :
    length a = length flag -> rem_dup_ok a flag keep -> rem_dup_check eqb a flag keep = true.
  Proof.
    intros L [H1 H2]. unfold rem_dup_check.
    rewrite (proj2 (Nat.eqb_eq _ _) L), (one_per_value_check_complete _ _ H1). cbn [andb].
    apply forallb_forall. intros k Hk. destruct H1 as [_ [B _]]. pose proof (B k Hk) as Bk.
    destruct (nth_error a k) as [x|] eqn:Ea; [|apply nth_error_None in Ea; lia].
    destruct (nth_error flag k) as [fk|] eqn:Ef; [|apply nth_error_None in Ef; lia].
    apply forallb_forall. intros [y f] Hin. cbn [fst snd]. destruct (eqb y x) eqn:E; [|reflexivity]. cbn [implb].
    apply (to_eqb _ _ _ TO) in E. subst y. destruct (In_combine_nth _ _ _ _ Hin) as [j [Hj1 Hj2]].
    apply Z.leb_le. exact (H2 k j x fk f Hk Ea Hj1 Ef Hj2).
  Qed.
End Dedup.

(* C06 — Model.round53 (round to nearest, ties to even, 53 significant bits): shape, error bound,
   oddness, monotonicity.  Pure integer arithmetic. *)
From Coq Require Import ZArith Lia Bool.
From EsVerif.Common Require Import Base.
From EsVerif.C06 Require Import Model.
Local Open Scope Z_scope.

(* round a >= 0 to a multiple of p (p even, > 0), ties to the even quotient *)
Definition rne (p a : Z) : Z :=
  let q := a / p in let r := a mod p in let h := p / 2 in
  (if (h <? r) || ((r =? h) && Z.odd q) then q + 1 else q) * p.

Lemma rne_between p a : 0 < p -> (a / p) * p <= rne p a <= (a / p + 1) * p.
Proof. intro Hp. unfold rne. destruct ((p / 2 <? a mod p) || ((a mod p =? p / 2) && Z.odd (a / p))); nia. Qed.

Lemma rne_mono p a b : 0 < p -> 0 <= a <= b -> rne p a <= rne p b.
Proof.
  intros Hp Hab.
  assert (Qle : a / p <= b / p) by (apply Z.div_le_mono; lia).
  destruct (Z.eq_dec (a / p) (b / p)) as [E|NE].
  - assert (Rle : a mod p <= b mod p).
    { pose proof (Z.div_mod a p ltac:(lia)). pose proof (Z.div_mod b p ltac:(lia)). nia. }
    unfold rne. rewrite <- E.
    destruct ((p / 2 <? a mod p) || ((a mod p =? p / 2) && Z.odd (a / p))) eqn:Ua; [|
      destruct ((p / 2 <? b mod p) || ((b mod p =? p / 2) && Z.odd (a / p))); nia].
    assert (Ub : (p / 2 <? b mod p) || ((b mod p =? p / 2) && Z.odd (a / p)) = true).
    { apply orb_true_iff in Ua. apply orb_true_iff. destruct Ua as [U|U].
      - left. apply Z.ltb_lt in U. apply Z.ltb_lt. lia.
      - apply andb_true_iff in U as [U1 U2]. apply Z.eqb_eq in U1.
        destruct (Z.eq_dec (b mod p) (p / 2)) as [Eb|Nb].
        + right. rewrite Eb, Z.eqb_refl, U2. reflexivity.
        + left. apply Z.ltb_lt. lia. }
    rewrite Ub. lia.
  - pose proof (rne_between p a Hp). pose proof (rne_between p b Hp). nia.
Qed.

Lemma round53_small x : Z.abs x < 2 ^ 53 -> round53 x = x.
Proof. intro H. unfold round53. apply Z.ltb_lt in H. rewrite H. reflexivity. Qed.

(* shape above 2^53: with e = log2 a - 52 >= 1 and p = 2^e, the result is rne p a, and
   2^52 p <= a < 2^53 p *)
Lemma round53_big a : 2 ^ 53 <= a ->
  let e := Z.log2 a - 52 in
  1 <= e /\ round53 a = rne (2 ^ e) a /\ 2 ^ 52 * 2 ^ e <= a < 2 ^ 53 * 2 ^ e.
Proof.
  intros Ha e.
  assert (Pa : 0 < a) by (pose proof (Z.pow_pos_nonneg 2 53); lia).
  assert (L : 53 <= Z.log2 a).
  { apply Z.log2_le_pow2; [exact Pa | exact Ha]. }
  destruct (Z.log2_spec a Pa) as [Lo Hi].
  split; [unfold e; lia|]. split.
  - unfold round53. rewrite (Z.abs_eq a) by lia.
    destruct (a <? 2 ^ 53) eqn:E; [apply Z.ltb_lt in E; lia|].
    fold e. unfold rne. rewrite (Z.sgn_pos a Pa). cbv zeta. lia.
  - unfold e. rewrite <- !Z.pow_add_r by lia.
    replace (52 + (Z.log2 a - 52)) with (Z.log2 a) by lia.
    replace (53 + (Z.log2 a - 52)) with (Z.succ (Z.log2 a)) by lia. lia.
Qed.

Lemma round53_neg x : round53 (- x) = - round53 x.
Proof.
  unfold round53. rewrite Z.abs_opp, Z.sgn_opp.
  destruct (Z.abs x <? 2 ^ 53); [reflexivity|]. cbv zeta. lia.
Qed.

Lemma round53_nonneg a : 0 <= a -> 0 <= round53 a.
Proof.
  intro Ha. destruct (Z_lt_le_dec a (2 ^ 53)) as [S|B].
  - rewrite round53_small; [exact Ha | rewrite Z.abs_eq; lia].
  - destruct (round53_big a B) as (He & -> & Lo & Hi).
    pose proof (Z.pow_pos_nonneg 2 (Z.log2 a - 52) ltac:(lia) ltac:(lia)) as Pp.
    pose proof (rne_between (2 ^ (Z.log2 a - 52)) a Pp).
    assert (0 <= a / 2 ^ (Z.log2 a - 52)) by (apply Z.div_pos; lia). nia.
Qed.

Lemma round53_mono_nonneg a b : 0 <= a <= b -> round53 a <= round53 b.
Proof.
  intros Hab.
  destruct (Z_lt_le_dec b (2 ^ 53)) as [Sb|Bb].
  - rewrite !round53_small by (rewrite Z.abs_eq; lia). lia.
  - destruct (round53_big b Bb) as (Heb & Rb & Lob & Hib).
    set (pb := 2 ^ (Z.log2 b - 52)) in *.
    assert (Ppb : 0 < pb) by (apply Z.pow_pos_nonneg; lia).
    assert (Qb : 2 ^ 52 <= b / pb) by (apply Z.div_le_lower_bound; lia).
    pose proof (rne_between pb b Ppb) as Bb'.
    assert (Two : 2 <= pb) by (unfold pb; change 2 with (2 ^ 1) at 1; apply Z.pow_le_mono_r; lia).
    destruct (Z_lt_le_dec a (2 ^ 53)) as [Sa|Ba].
    + rewrite (round53_small a) by (rewrite Z.abs_eq; lia). rewrite Rb.
      assert (2 ^ 53 <= b / pb * pb); [|lia].
      change (2 ^ 53) with (2 ^ 52 * 2). nia.
    + destruct (round53_big a Ba) as (Hea & Ra & Loa & Hia).
      set (pa := 2 ^ (Z.log2 a - 52)) in *.
      assert (Ppa : 0 < pa) by (apply Z.pow_pos_nonneg; lia).
      assert (Lab : Z.log2 a <= Z.log2 b) by (apply Z.log2_le_mono; lia).
      destruct (Z.eq_dec (Z.log2 a) (Z.log2 b)) as [El|Nl].
      * rewrite Ra, Rb. unfold pa, pb. rewrite El. apply rne_mono; [rewrite <- El; exact Ppa | lia].
      * rewrite Ra, Rb.
        assert (Pab : 2 * pa <= pb).
        { unfold pa, pb. replace (Z.log2 b - 52) with ((Z.log2 b - Z.log2 a - 1) + (1 + (Z.log2 a - 52))) by lia.
          rewrite Z.pow_add_r by lia. rewrite (Z.pow_add_r 2 1) by lia. change (2 ^ 1) with 2.
          pose proof (Z.pow_pos_nonneg 2 (Z.log2 b - Z.log2 a - 1) ltac:(lia) ltac:(lia)). nia. }
        pose proof (rne_between pa a Ppa) as Ba'.
        assert (Qa : a / pa + 1 <= 2 ^ 53).
        { assert (a / pa < 2 ^ 53); [apply Z.div_lt_upper_bound; lia | lia]. }
        assert (rne pa a <= 2 ^ 53 * pa) by nia.
        assert (2 ^ 52 * pb <= rne pb b) by nia.
        change (2 ^ 53) with (2 ^ 52 * 2) in *. nia.
Qed.

(* round53 is monotone on all of Z *)
Theorem round53_mono x y : x <= y -> round53 x <= round53 y.
Proof.
  intro H. destruct (Z_le_gt_dec 0 x) as [Px|Nx].
  - apply round53_mono_nonneg. lia.
  - destruct (Z_le_gt_dec 0 y) as [Py|Ny].
    + pose proof (round53_nonneg y Py). pose proof (round53_nonneg (- x) ltac:(lia)) as N.
      rewrite round53_neg in N. lia.
    + pose proof (round53_mono_nonneg (- y) (- x) ltac:(lia)) as M. rewrite !round53_neg in M. lia.
Qed.

(* idempotent on its range is not needed; what the match proof needs: *)
Corollary round53_lt_inv x y : round53 x < round53 y -> x < y.
Proof. intro H. destruct (Z_lt_le_dec x y) as [L|G]; [exact L|]. pose proof (round53_mono y x G). lia. Qed.

(* C06 — property theorems only.  Bodies live in Lemmas.v / MatchProofs.v / DedupProofs.v / Proofs.v.
   All statements are generic over the element type: any [ltb]/[eqb] forming a decidable strict
   total order (C06_element_orders gives the two instances the checks run at). *)
From Coq Require Import Sorting.Permutation Sorting.Sorted.
From EsVerif.Common Require Import Base.
From EsVerif.C06 Require Import Model Spec Lemmas MatchProofs DedupProofs Proofs Forms FormsProofs Skel Gen Tie PromoteProofs RoundProofs PromoteChar DedupMore History Rejections.
Local Open Scope nat_scope.

(* integers (and order-embedded floats) and code-point strings are total orders *)
Theorem C06_element_orders : total_order zltb zeqb /\ total_order lex_ltb lex_eqb.
Proof. exact (conj z_total_order lex_total_order). Qed.

(* match: for a first array of distinct values and non-empty arrays the call succeeds and the
   returned index pairs have equal elements, contain every element of the second array whose
   value occurs in the first, ascending by position in the second array. *)
Theorem C06_match : forall A (ltb eqb : A -> A -> bool), total_order ltb eqb ->
  forall is_string a1 a2, NoDup a1 -> a1 <> [] -> a2 <> [] ->
  exists o, match_ ltb eqb is_string false a1 a2 = Ok o /\ match_ok a1 a2 o.
Proof. exact match_correct. Qed.

(* the same for ANY sorting permutation numpy's argsort may return *)
Theorem C06_match_any_argsort : forall A (ltb eqb : A -> A -> bool), total_order ltb eqb ->
  forall is_string s a1 a2, NoDup a1 -> a1 <> [] -> a2 <> [] -> sorting_perm ltb s a1 ->
  exists o, match_with ltb eqb is_string false s a1 a2 = Ok o /\ match_ok a1 a2 o.
Proof. exact match_with_correct. Qed.

(* reading of match_ok: exactly the positions of the second array whose value occurs in the
   first are reported, each exactly once (and hence no other element appears) *)
Theorem C06_match_exactly_once : forall A (a1 a2 : list A) o, match_ok a1 a2 o ->
  NoDup (snd o) /\ length (fst o) = length (snd o)
  /\ forall j, In j (snd o) <-> exists x, nth_error a2 j = Some x /\ In x a1.
Proof. exact @match_ok_exact. Qed.

(* the specification determines both index arrays *)
Theorem C06_match_ok_unique : forall A (a1 a2 : list A) o o',
  NoDup a1 -> match_ok a1 a2 o -> match_ok a1 a2 o' -> o = o'.
Proof. exact match_ok_unique. Qed.

(* declaring a sorted first array as presorted gives the same result *)
Theorem C06_match_presorted : forall A (ltb eqb : A -> A -> bool), total_order ltb eqb ->
  forall is_string a1 a2, a1 <> [] -> a2 <> [] -> sorted ltb a1 ->
  match_ ltb eqb is_string true a1 a2 = match_ ltb eqb is_string false a1 a2.
Proof. exact match_presorted_same. Qed.

(* a first array with repeated values is rejected (ValueError), presorted or not *)
Theorem C06_match_rejects_dups : forall A (ltb eqb : A -> A -> bool), total_order ltb eqb ->
  forall is_string presorted a1 a2, ~ NoDup a1 -> a2 <> [] ->
  match_ ltb eqb is_string presorted a1 a2 = Err EValue.
Proof. exact match_rejects_dups. Qed.

(* match_multi is match with presorted=False whatever it is told *)
Theorem C06_match_multi : forall A (ltb eqb : A -> A -> bool), total_order ltb eqb ->
  forall is_string presorted a1 a2, NoDup a1 -> a1 <> [] -> a2 <> [] ->
  exists o, match_multi ltb eqb is_string presorted a1 a2 = Ok o /\ match_ok a1 a2 o.
Proof. exact @match_multi_correct. Qed.

(* scalars (np.atleast_1d makes them one-element arrays) are accepted on either side *)
Theorem C06_match_scalars : forall A (ltb eqb : A -> A -> bool), total_order ltb eqb ->
  forall is_string presorted x a2, a2 <> [] ->
  exists o, match_ ltb eqb is_string presorted [x] a2 = Ok o /\ match_ok [x] a2 o.
Proof. exact @match_scalars. Qed.

(* unique (repaired, fixes/C06): exactly one index per distinct value, for every sorting
   permutation numpy's argsort may return; values=True returns the distinct values *)
Theorem C06_unique : forall A (ltb eqb : A -> A -> bool), total_order ltb eqb ->
  forall s a, a <> [] -> sorting_perm ltb s a ->
  exists keep, unique_with eqb s a = Ok keep /\ one_per_value a keep.
Proof. exact unique_with_correct. Qed.

Theorem C06_unique_values : forall A (ltb eqb : A -> A -> bool), total_order ltb eqb ->
  forall s a, a <> [] -> sorting_perm ltb s a ->
  exists vals, unique_values_with eqb s a = Ok vals /\ values_ok a vals.
Proof. exact unique_values_with_correct. Qed.

(* the code as found (val = arr[0]; keep[0] = 0) does not have the property *)
Theorem C06_unique_as_found_refuted :
  exists s a keep, a <> [] /\ sorting_perm zltb s a
                   /\ unique_orig_with zeqb s a = Ok keep /\ ~ one_per_value a keep.
Proof. exact unique_as_found_refuted. Qed.

(* rem_dup: one index per distinct value, carrying the largest flag found with that value *)
Theorem C06_rem_dup : forall A (ltb eqb : A -> A -> bool), total_order ltb eqb ->
  forall s a flag, a <> [] -> length flag = length a -> sorting_perm ltb s a ->
  exists keep, rem_dup_with eqb s a flag = Ok keep /\ rem_dup_ok a flag keep.
Proof. exact rem_dup_with_correct. Qed.

Theorem C06_rem_dup_values : forall A (ltb eqb : A -> A -> bool), total_order ltb eqb ->
  forall s a flag, a <> [] -> length flag = length a -> sorting_perm ltb s a ->
  exists keep vals, rem_dup_values_with eqb s a flag = Ok (keep, vals)
                    /\ rem_dup_ok a flag keep /\ gather a keep = Some vals /\ values_ok a vals.
Proof. exact rem_dup_values_with_correct. Qed.

(* the argsort oracle: the run-time contract monitor is sound, and the contract is
   satisfiable for every array (the model's own argsort meets it) *)
Theorem C06_argsort_contract : forall A (ltb eqb : A -> A -> bool), total_order ltb eqb ->
  (forall s a, sorting_perm_check ltb s a = true -> sorting_perm ltb s a)
  /\ (forall a, sorting_perm ltb (argsort ltb a) a).
Proof. intros A ltb eqb TO. split; [exact (sorting_perm_check_sound A ltb eqb TO) | exact (argsort_sorting_perm A ltb eqb TO)]. Qed.

(* checker soundness: what the correspondence run evaluates on the implementation's outputs.
   The checkers are also complete (they never reject an answer that has the property). *)
Theorem C06_checkers_sound : forall A (ltb eqb : A -> A -> bool), total_order ltb eqb ->
  (forall a1 a2 o, match_check eqb a1 a2 o = true -> match_ok a1 a2 o)
  /\ (forall a keep, one_per_value_check eqb a keep = true -> one_per_value a keep)
  /\ (forall a vals, values_check eqb a vals = true -> values_ok a vals)
  /\ (forall a flag keep, rem_dup_check eqb a flag keep = true -> rem_dup_ok a flag keep).
Proof.
  intros A ltb eqb TO. split; [intros a1 a2 o; apply (match_check_iff A ltb eqb TO)|].
  split; [exact (one_per_value_check_sound A ltb eqb TO)|].
  split; [exact (values_check_sound A ltb eqb TO) | exact (rem_dup_check_sound A ltb eqb TO)].
Qed.

Theorem C06_checkers_complete : forall A (ltb eqb : A -> A -> bool), total_order ltb eqb ->
  (forall a1 a2 o, match_ok a1 a2 o -> match_check eqb a1 a2 o = true)
  /\ (forall a keep, one_per_value a keep -> one_per_value_check eqb a keep = true)
  /\ (forall a vals, values_ok a vals -> values_check eqb a vals = true)
  /\ (forall a flag keep, length a = length flag -> rem_dup_ok a flag keep -> rem_dup_check eqb a flag keep = true).
Proof.
  intros A ltb eqb TO. split; [intros a1 a2 o; apply (match_check_iff A ltb eqb TO)|].
  split; [exact (one_per_value_check_complete A ltb eqb TO)|].
  split; [exact (values_check_complete A ltb eqb TO) | exact (rem_dup_check_complete A ltb eqb TO)].
Qed.

(* Non-vacuity: concrete instances meet the hypotheses and the conclusions compute. *)
Example C06_nonvacuous :
  (NoDup [3; 1; 2]%Z /\ match_ zltb zeqb false false [3; 1; 2]%Z [2; 2; 7; -1; 3]%Z = Ok ([2; 2; 0], [0; 1; 4]))
  /\ match_ lex_ltb lex_eqb true false [[98]; [97; 98]; [97]]%Z [[97]; [122]; [98]; [98]]%Z = Ok ([2; 0; 0], [0; 2; 3])
  /\ match_ zltb zeqb false true [1; 2; 3]%Z [2; 2; 7; -1; 3]%Z = Ok ([1; 1; 2], [0; 1; 4])
  /\ match_ zltb zeqb false false [3; 1; 3]%Z [2]%Z = Err EValue
  /\ (sorting_perm zltb [1; 0; 2] [5; 1; 5]%Z /\ unique_with zeqb [1; 0; 2] [5; 1; 5]%Z = Ok [1; 0])
  /\ rem_dup_with zeqb [1; 0; 2; 3] [5; 1; 5; 5]%Z [3; 2; 7; 1]%Z = Ok [1; 2].
Proof.
  split; [split; [|reflexivity]|].
  - apply (nodupb_NoDup Z zltb zeqb z_total_order). reflexivity.
  - split; [reflexivity|]. split; [reflexivity|]. split; [reflexivity|]. split; [|reflexivity].
    split; [|reflexivity].
    apply (sorting_perm_check_sound _ zltb zeqb z_total_order). reflexivity.
Qed.

(* ======================================================================================
   Round 2.  (a) more of the code in the model (Forms.v): empty arrays, scalar second argument,
   mixed string kinds, the grouping reading of the output, complete return values of unique /
   rem_dup.  (b) the tie to the SOURCE: Gen.v is regenerated from esutil/numpy_util.py on every
   run (harness/props/c06_translate.py); the statements below that mention gen_* are about what
   was read from the tree under check and stop building when the source changes one of the
   parts listed in Skel.v.
   ====================================================================================== *)

(* byte strings and unicode strings in one pair of arrays (tagged strings) form a total order too *)
Theorem C06_element_orders_tagged : total_order tag_ltb tag_eqb.
Proof. exact tag_total_order. Qed.

(* an empty second array is rejected (ValueError); an empty first array fails earlier, at
   `el = arr1[0]` (IndexError) - the code that exists; empty arrays are outside the quantifier *)
Theorem C06_match_empty : forall A (ltb eqb : A -> A -> bool) (str p : bool) (a1 a2 : list A),
  (a1 <> [] -> match_ ltb eqb str p a1 [] = Err EValue /\ match_multi ltb eqb str p a1 [] = Err EValue)
  /\ match_ ltb eqb str p [] a2 = Err EIndex /\ match_multi ltb eqb str p [] a2 = Err EIndex.
Proof. exact match_empty. Qed.

(* a scalar second argument: exactly its position in the first array, or nothing *)
Theorem C06_match_scalar_second : forall A (ltb eqb : A -> A -> bool), total_order ltb eqb ->
  forall (str p : bool) (a1 : list A) (y : A), NoDup a1 -> a1 <> [] -> (p = true -> sorted ltb a1) ->
  (forall i, nth_error a1 i = Some y -> match_ ltb eqb str p a1 [y] = Ok ([i], [0]))
  /\ (~ In y a1 -> match_ ltb eqb str p a1 [y] = Ok ([], [])).
Proof. exact match_scalar_second. Qed.

(* nothing in common: nothing reported; in particular bytes against unicode, either way round *)
Theorem C06_match_nothing_in_common : forall A (ltb eqb : A -> A -> bool), total_order ltb eqb ->
  forall (str p : bool) (a1 a2 : list A), NoDup a1 -> a1 <> [] -> a2 <> [] -> (p = true -> sorted ltb a1) ->
  (forall x, In x a1 -> In x a2 -> False) -> match_ ltb eqb str p a1 a2 = Ok ([], []).
Proof. exact match_nothing_in_common. Qed.

Theorem C06_match_bytes_vs_unicode : forall str p (a1 a2 : list tstr) u,
  NoDup a1 -> a1 <> [] -> a2 <> [] -> (p = true -> sorted tag_ltb a1) ->
  (forall x, In x a1 -> fst x = u) -> (forall y, In y a2 -> fst y = negb u) ->
  match_ tag_ltb tag_eqb str p a1 a2 = Ok ([], []).
Proof. exact match_bytes_vs_unicode. Qed.

(* the output read as groups (match_multi): the positions of the second array paired with index i
   of the first are exactly the positions holding a1[i], ascending; the boolean form is what the
   correspondence run evaluates on the implementation's output *)
Theorem C06_match_groups : forall A (ltb eqb : A -> A -> bool), total_order ltb eqb ->
  forall (a1 a2 : list A) o i x, NoDup a1 -> match_ok a1 a2 o -> nth_error a1 i = Some x ->
  group_of i (fst o) (snd o) = positions_of eqb x a2.
Proof. exact match_ok_group. Qed.

Theorem C06_match_groups_check : forall A (ltb eqb : A -> A -> bool), total_order ltb eqb ->
  forall (a1 a2 : list A) o, NoDup a1 -> match_ok a1 a2 o -> groups_check eqb a1 a2 o = true.
Proof. exact match_ok_groups. Qed.

(* unique with its complete return value: indices (values=False), the distinct values = arr[keep]
   (values=True); a 0-d array raises IndexError *)
Theorem C06_unique_call : forall A (ltb eqb : A -> A -> bool), total_order ltb eqb ->
  forall s (a : list A), a <> [] -> sorting_perm ltb s a ->
  (exists keep, unique_call eqb false s a false = Ok (UIdx keep) /\ one_per_value a keep)
  /\ (exists keep vals, unique_call eqb false s a true = Ok (UVals vals)
                        /\ one_per_value a keep /\ gather a keep = Some vals /\ values_ok a vals)
  /\ (forall v, unique_call eqb true s a v = Err EIndex).
Proof. exact unique_call_correct. Qed.

(* rem_dup with its complete return value: a python scalar exactly when n = 1 (also a 0-d array),
   values=True adds arr[keep] *)
Theorem C06_rem_dup_call : forall A (ltb eqb : A -> A -> bool), total_order ltb eqb ->
  forall s (a : list A) flag v, a <> [] -> length flag = length a -> sorting_perm ltb s a ->
  exists sc keep vals, rem_dup_call eqb s a flag v = Ok (sc, keep, vals)
    /\ rem_dup_ok a flag keep
    /\ (sc = true <-> length a = 1)
    /\ (v = true -> exists vl, vals = Some vl /\ gather a keep = Some vl /\ values_ok a vl)
    /\ (v = false -> vals = None).
Proof. exact rem_dup_call_correct. Qed.

(* ---- the skeletons (Skel.v) at the modelled parameters ARE the model, for every input *)
Theorem C06_skeleton_match : forall A (ltb eqb : A -> A -> bool) k p st (a1 a2 : list A),
  match_g ltb eqb ref_match k p st a1 a2 = match_with ltb eqb (is_string_of k) p st a1 a2.
Proof. exact skel_match. Qed.

Theorem C06_skeleton_match_multi : forall A (ltb eqb : A -> A -> bool) k p (a1 a2 : list A),
  match_multi_g ltb eqb ref_match_multi ref_match k p (argsort ltb a1) a1 a2
  = match_multi ltb eqb (is_string_of k) p a1 a2.
Proof. exact skel_match_multi. Qed.

Theorem C06_skeleton_unique : forall A (ltb eqb : A -> A -> bool) z s (a : list A) v,
  unique_call_g ltb eqb ref_unique z s a v = unique_call eqb z s a v.
Proof. exact skel_unique_call. Qed.

Theorem C06_skeleton_rem_dup : forall A (ltb eqb : A -> A -> bool) s (a : list A) flag v,
  rem_dup_call_g ltb eqb ref_rem_dup s a flag v = rem_dup_call eqb s a flag v.
Proof. exact skel_rem_dup_call. Qed.

(* the code as found (29e445c) is the same skeleton at the parameters read from ITS source
   (val = arr[0], keep[0] zero-initialised), and there the property is refuted *)
Theorem C06_skeleton_unique_as_found : forall A (ltb eqb : A -> A -> bool) s (a : list A),
  unique_g ltb eqb asfound_unique s a = unique_orig_with eqb s a.
Proof. exact skel_unique_as_found. Qed.

Theorem C06_skeleton_unique_as_found_refuted :
  exists s a keep, a <> [] /\ sorting_perm zltb s a
                   /\ unique_g zltb zeqb asfound_unique s a = Ok keep /\ ~ one_per_value a keep.
Proof. exact skel_unique_as_found_refuted. Qed.

(* ---- the tie: what c06_translate.py read from the tree under check *)
Theorem C06_tie_parameters :
  gen_match = ref_match /\ gen_match_multi = ref_match_multi /\ gen_unique = ref_unique /\ gen_rem_dup = ref_rem_dup.
Proof. exact tie_params. Qed.

Theorem C06_tie_match : forall A (ltb eqb : A -> A -> bool) k p st (a1 a2 : list A),
  match_g ltb eqb gen_match k p st a1 a2 = match_with ltb eqb (is_string_of k) p st a1 a2.
Proof. exact @tie_match. Qed.

Theorem C06_tie_match_multi : forall A (ltb eqb : A -> A -> bool) k p (a1 a2 : list A),
  match_multi_g ltb eqb gen_match_multi gen_match k p (argsort ltb a1) a1 a2
  = match_multi ltb eqb (is_string_of k) p a1 a2.
Proof. exact @tie_match_multi. Qed.

Theorem C06_tie_unique : forall A (ltb eqb : A -> A -> bool) z s (a : list A) v,
  unique_call_g ltb eqb gen_unique z s a v = unique_call eqb z s a v.
Proof. exact @tie_unique. Qed.

Theorem C06_tie_rem_dup : forall A (ltb eqb : A -> A -> bool) s (a : list A) flag v,
  rem_dup_call_g ltb eqb gen_rem_dup s a flag v = rem_dup_call eqb s a flag v.
Proof. exact @tie_rem_dup. Qed.

Theorem C06_tie_defaults :
  mp_presorted_default gen_match = false /\ mm_presorted_default gen_match_multi = false
  /\ up_values_default gen_unique = false /\ rp_values_default gen_rem_dup = false.
Proof. exact tie_defaults. Qed.

(* ---- the property stated about the regenerated definitions, keywords at their source defaults *)
Theorem C06_source_match : forall A (ltb eqb : A -> A -> bool), total_order ltb eqb ->
  forall k (a1 a2 : list A), NoDup a1 -> a1 <> [] -> a2 <> [] ->
  exists o, match_g ltb eqb gen_match k (mp_presorted_default gen_match) (argsort ltb a1) a1 a2 = Ok o
            /\ match_ok a1 a2 o.
Proof. exact @source_match. Qed.

Theorem C06_source_match_multi : forall A (ltb eqb : A -> A -> bool), total_order ltb eqb ->
  forall k p (a1 a2 : list A), NoDup a1 -> a1 <> [] -> a2 <> [] ->
  exists o, match_multi_g ltb eqb gen_match_multi gen_match k p (argsort ltb a1) a1 a2 = Ok o
            /\ match_ok a1 a2 o /\ groups_check eqb a1 a2 o = true.
Proof. exact @source_match_multi. Qed.

Theorem C06_source_unique : forall A (ltb eqb : A -> A -> bool), total_order ltb eqb ->
  forall s (a : list A), a <> [] -> sorting_perm ltb s a ->
  (exists keep, unique_call_g ltb eqb gen_unique false s a (up_values_default gen_unique) = Ok (UIdx keep)
                /\ one_per_value a keep)
  /\ (exists vals, unique_call_g ltb eqb gen_unique false s a true = Ok (UVals vals) /\ values_ok a vals).
Proof. exact @source_unique. Qed.

Theorem C06_source_rem_dup : forall A (ltb eqb : A -> A -> bool), total_order ltb eqb ->
  forall s (a : list A) flag, a <> [] -> length flag = length a -> sorting_perm ltb s a ->
  exists sc keep, rem_dup_call_g ltb eqb gen_rem_dup s a flag (rp_values_default gen_rem_dup) = Ok (sc, keep, None)
                  /\ rem_dup_ok a flag keep.
Proof. exact @source_rem_dup. Qed.

(* Non-vacuity of the parameterisation: each interpreted parameter changes the function
   (searchsorted side, clamp operator, uniqueness-guard operator, rem_dup's tie rule), and
   concrete instances of the new statements compute. *)
Example C06_nonvacuous_round2 :
  match_ tag_ltb tag_eqb true false [(true, [97]); (true, [98])]%Z [(false, [97]); (false, [99])]%Z = Ok ([], [])
  /\ match_ zltb zeqb false false [3; 1; 2]%Z [] = Err EValue
  /\ unique_call zeqb false [1; 0; 2] [5; 1; 5]%Z true = Ok (UVals [1; 5]%Z)
  /\ rem_dup_call zeqb [0] [5]%Z [1]%Z true = Ok (true, [0], Some [5]%Z)
  /\ group_of 2 [2; 2; 0] [0; 1; 4] = positions_of zeqb 2%Z [2; 2; 7; -1; 3]%Z
  /\ match_g zltb zeqb gen_match ClsNum false (argsort zltb [3; 1; 2]%Z) [3; 1; 2]%Z [2; 2; 7; -1; 3]%Z = Ok ([2; 2; 0], [0; 1; 4]).
Proof. repeat split; reflexivity. Qed.

(* ======================================================================================
   Round 2b.  Mixed signedness at 64 bits (uint64 against a signed integer kind): numpy promotes
   the pair to float64 inside np.searchsorted, so the search compares binary64 roundings
   ([round53]) while np.unique, argsort, max and == stay exact ([match_z true]).  The full
   statement is REFUTED there (matches are lost; no unequal pair is ever returned because the
   equality filter is exact) and PROVED outside the known class
   C06.kf_mixed_sign_above_2p53 = mixed pair with some element not exactly representable in
   binary64 (Spec.kf_mixed_sign_above_2p53).
   ====================================================================================== *)
Theorem C06_match_mixed_refuted :
  exists a1 a2 o, NoDup a1 /\ a1 <> [] /\ a2 <> []
    /\ kf_mixed_sign_above_2p53 true a1 a2 = true
    /\ match_z true false false a1 a2 = Ok o /\ ~ match_ok a1 a2 o.
Proof. exact match_z_mixed_refuted. Qed.

Theorem C06_match_outside_known : forall mixed str p (a1 a2 : list Z),
  kf_mixed_sign_above_2p53 mixed a1 a2 = false ->
  NoDup a1 -> a1 <> [] -> a2 <> [] -> (p = true -> sorted zltb a1) ->
  (exists o, match_z mixed str p a1 a2 = Ok o /\ match_ok a1 a2 o)
  /\ (exists o, match_multi_z mixed str p a1 a2 = Ok o /\ match_ok a1 a2 o).
Proof. exact match_z_outside_known. Qed.

(* the promoted search is the exact search whenever both orders agree on (element of the first,
   element of the second array) - any element type *)
Theorem C06_match_promoted_ext : forall A (sltb ltb eqb : A -> A -> bool) str p st (a1 a2 : list A),
  (forall x v, In x a1 -> In v a2 -> sltb x v = ltb x v) ->
  match_with2 sltb ltb eqb str p st a1 a2 = match_with ltb eqb str p st a1 a2.
Proof. exact match_with2_ext. Qed.

Example C06_nonvacuous_round2b :
  round53 9007199254740993 = 9007199254740992%Z /\ round53 9007199254740995 = 9007199254740996%Z
  /\ round53 (-18446744073709551615) = (-18446744073709551616)%Z /\ round53 9007199254740992 = 9007199254740992%Z
  /\ kf_mixed_sign_above_2p53 true [5; 9007199254740992]%Z [7; -3]%Z = false
  /\ match_z true false false [5; 9007199254740992]%Z [7; -3; 9007199254740992]%Z = Ok ([1], [2]).
Proof. repeat split; vm_compute; reflexivity. Qed.

(* ======================================================================================
   Proof-deepening round.
   ====================================================================================== *)

(* --- the float64 promotion: round53 is monotone and odd (pure integer arithmetic) *)
Theorem C06_round53_monotone : forall x y, (x <= y)%Z -> (round53 x <= round53 y)%Z.
Proof. exact round53_mono. Qed.

Theorem C06_round53_odd : forall x, round53 (- x) = (- round53 x)%Z.
Proof. exact round53_neg. Qed.

(* --- the promoted search characterised exactly, for ANY search order that never puts a probe above
   an element >= it: always an answer, only equal pairs, ascending, and position j of a probe x that
   occurs in the first array is reported IFF the search lands on x (the number of first-array
   elements below x in the search order equals the number below x) *)
Theorem C06_match_promoted_exact : forall A (sltb ltb eqb : A -> A -> bool), total_order ltb eqb ->
  (forall m v, ltb m v = false -> sltb m v = false) ->
  forall str st (a1 a2 : list A), NoDup a1 -> a1 <> [] -> a2 <> [] -> sorting_perm ltb st a1 ->
  exists o view, gather a1 st = Some view
    /\ match_with2 sltb ltb eqb str false st a1 a2 = Ok o
    /\ Forall2 (fun i j => exists x, nth_error a1 i = Some x /\ nth_error a2 j = Some x) (fst o) (snd o)
    /\ StronglySorted lt (snd o)
    /\ (forall j x, nth_error a2 j = Some x -> In x a1 -> (In j (snd o) <-> hit A sltb ltb view x = true)).
Proof. exact match_with2_char. Qed.

(* --- mixed signedness at 64 bits, EXACTLY: match / match_multi always answer, never return an
   unequal pair, report ascending positions, report a probe occurring in the first array iff no
   smaller first-array element rounds to the same double; the full statement holds IFF no probe is
   lost ([lost_b], decidable), and that condition lies inside the known class *)
Theorem C06_match_mixed_exact : forall str (a1 a2 : list Z), NoDup a1 -> a1 <> [] -> a2 <> [] ->
  exists o, match_z true str false a1 a2 = Ok o /\ match_multi_z true str true a1 a2 = Ok o
    /\ Forall2 (fun i j => exists x, nth_error a1 i = Some x /\ nth_error a2 j = Some x) (fst o) (snd o)
    /\ StronglySorted lt (snd o)
    /\ (forall j x, nth_error a2 j = Some x -> In x a1 -> (In j (snd o) <-> collides_below a1 x = false))
    /\ (match_ok a1 a2 o <-> lost_b a1 a2 = false).
Proof. exact match_z_mixed_exact. Qed.

Theorem C06_lost_inside_known_class : forall a1 a2,
  lost_b a1 a2 = true -> kf_mixed_sign_above_2p53 true a1 a2 = true.
Proof. exact lost_in_known_class. Qed.

(* --- unique(values=True): strictly ascending, hence the same array for EVERY sorting permutation
   numpy's argsort may return (the tie choice of argsort is invisible in the values) *)
Theorem C06_unique_values_ascending : forall A (ltb eqb : A -> A -> bool), total_order ltb eqb ->
  forall s (a : list A), a <> [] -> sorting_perm ltb s a ->
  exists vals, unique_values_with eqb s a = Ok vals /\ values_ok a vals /\ strict_asc A ltb vals.
Proof. exact unique_values_ascending. Qed.

Theorem C06_unique_values_determined : forall A (ltb eqb : A -> A -> bool), total_order ltb eqb ->
  forall s s' (a : list A), a <> [] -> sorting_perm ltb s a -> sorting_perm ltb s' a ->
  unique_values_with eqb s a = unique_values_with eqb s' a.
Proof. exact unique_values_determined. Qed.

(* --- with the model's own argsort (verified: C06_argsort_contract) no sort contract is left *)
Theorem C06_unique_own_sort : forall A (ltb eqb : A -> A -> bool), total_order ltb eqb ->
  forall a : list A, a <> [] ->
  exists keep vals, unique_with eqb (argsort ltb a) a = Ok keep /\ one_per_value a keep
    /\ unique_values_with eqb (argsort ltb a) a = Ok vals /\ values_ok a vals /\ strict_asc A ltb vals.
Proof. exact unique_own_sort. Qed.

Theorem C06_rem_dup_own_sort : forall A (ltb eqb : A -> A -> bool), total_order ltb eqb ->
  forall (a : list A) flag, a <> [] -> length flag = length a ->
  exists keep, rem_dup_with eqb (argsort ltb a) a flag = Ok keep /\ rem_dup_ok a flag keep.
Proof. exact rem_dup_own_sort. Qed.

(* --- rem_dup sees only the ORDER of the flags: any strictly monotone re-encoding (unsigned or
   extreme integers, the bit-pattern embedding of floats used by the harness) gives the same answer;
   C06_rem_dup itself quantifies over ALL integer flags (Z is unbounded) *)
Theorem C06_rem_dup_flag_order : forall A (eqb : A -> A -> bool) (h : Z -> Z) s (a : list A) flag,
  (forall x y, (x < y)%Z <-> (h x < h y)%Z) ->
  rem_dup_with eqb s a (map h flag) = rem_dup_with eqb s a flag.
Proof. exact rem_dup_flag_order. Qed.

(* --- history: the model is a state machine whose state is unit; the answer to a call in any
   history is the answer to that call alone *)
Theorem C06_history_independent : forall A (ltb eqb : A -> A -> bool) (h1 : list (call A)) c h2,
  nth_error (run A ltb eqb tt (h1 ++ c :: h2)) (length h1) = Some (answer_of A ltb eqb c)
  /\ run A ltb eqb tt [c] = [answer_of A ltb eqb c].
Proof. exact run_independent. Qed.

(* --- the statement order of `el = arr1[0]` and the emptiness guard is regenerated (mp_el_first):
   it decides only the error class for an empty first array *)
Theorem C06_skeleton_statement_order : forall A (ltb eqb : A -> A -> bool) k p st (a1 a2 : list A),
  match_g ltb eqb ref_match k p st [] a2 = Err EIndex
  /\ match_g ltb eqb ref_match_guard_first k p st [] a2 = Err EValue
  /\ (a1 <> [] -> match_g ltb eqb ref_match_guard_first k p st a1 a2 = match_g ltb eqb ref_match k p st a1 a2).
Proof. exact @skel_statement_order. Qed.

Example C06_nonvacuous_deepening :
  (* a lost probe: 2^53+1 in both arrays, 2^53 below it rounds to the same double *)
  lost_b [9007199254740993; 9007199254740992]%Z [9007199254740993]%Z = true
  /\ lost_b [9007199254740993; 5]%Z [9007199254740993; 9007199254740992]%Z = false
  /\ kf_mixed_sign_above_2p53 true [9007199254740993; 5]%Z [9007199254740993; 9007199254740992]%Z = true
  /\ match_z true false false [9007199254740993; 5]%Z [9007199254740993; 9007199254740992]%Z = Ok ([0], [0])
  /\ unique_values_with zeqb [1; 3; 0; 2] [5; 1; 5; 3]%Z = Ok [1; 3; 5]%Z
  /\ unique_values_with zeqb [1; 0; 2; 3] [5; 1; 5; 3]%Z = Ok [1; 5; 3]%Z   (* not a sorting permutation: no claim *)
  /\ rem_dup_with zeqb [1; 0; 2] [5; 1; 5]%Z (map (fun f => 2 * f + 18446744073709551615)%Z [3; 2; 7]%Z)
      = rem_dup_with zeqb [1; 0; 2] [5; 1; 5]%Z [3; 2; 7]%Z
  /\ run Z zltb zeqb tt [CUnique Z false [1; 0; 2] [5; 1; 5]%Z true; CMatch Z false ClsNum false [3; 1]%Z [1]%Z]
      = [AUnique Z (Ok (UVals [1; 5]%Z)); AMatch Z (Ok ([1], [0]))].
Proof. repeat split; vm_compute; reflexivity. Qed.

(* ======================================================================================
   Round 6.  Error paths as a theorem: exactly which inputs match / match_multi reject and with
   which class - IndexError iff the first array is empty; ValueError iff it is not empty and the
   second is empty or the first has a repeated value; an answer otherwise; no other error class;
   match_multi (whatever presorted= it is given) is the same function.
   ====================================================================================== *)
Theorem C06_match_rejections : forall A (ltb eqb : A -> A -> bool), total_order ltb eqb ->
  forall str (a1 a2 : list A),
  let r := match_ ltb eqb str false a1 a2 in
  (r = Err EIndex <-> a1 = [])
  /\ (r = Err EValue <-> a1 <> [] /\ (a2 = [] \/ ~ NoDup a1))
  /\ ((exists o, r = Ok o) <-> a1 <> [] /\ a2 <> [] /\ NoDup a1)
  /\ (forall e, r = Err e -> e = EIndex \/ e = EValue)
  /\ match_multi ltb eqb str true a1 a2 = r.
Proof. exact match_rejections. Qed.

Example C06_nonvacuous_round6 :
  match_ zltb zeqb false false [] [1]%Z = Err EIndex /\ match_ zltb zeqb false false [1; 1]%Z [1]%Z = Err EValue
  /\ match_ zltb zeqb false false [2; 1]%Z [] = Err EValue /\ match_ zltb zeqb false false [2; 1]%Z [1]%Z = Ok ([1], [0]).
Proof. repeat split; reflexivity. Qed.

(* C06 — property theorems only.  Bodies live in Lemmas.v / MatchProofs.v / DedupProofs.v / Proofs.v.
   All statements are generic over the element type: any [ltb]/[eqb] forming a decidable strict
   total order (C06_element_orders gives the two instances the checks run at). *)
From Coq Require Import Sorting.Permutation Sorting.Sorted.
From EsVerif.Common Require Import Base.
From EsVerif.C06 Require Import Model Spec Lemmas MatchProofs DedupProofs Proofs.
Local Open Scope nat_scope.

(* integers (and order-embedded floats) and code-point strings are total orders *)
Theorem C06_element_orders : total_order zltb zeqb /\ total_order lex_ltb lex_eqb.
Proof. exact (conj z_total_order lex_total_order). Qed.

(* match: for a first array of distinct values and non-empty arrays the call succeeds and the
   returned index pairs have equal elements, contain every element of the second array whose
   value occurs in the first, ascending by position in the second array. *)
Theorem C06_match : forall A (ltb eqb : A -> A -> bool), total_order ltb eqb ->
  forall is_string a1 a2, NoDup a1 -> a1 <> [] -> a2 <> [] ->
  exists o, match_ ltb eqb is_string false a1 a2 = Ok o /\ match_ok a1 a2 o.
Proof. exact match_correct. Qed.

(* the same for ANY sorting permutation numpy's argsort may return *)
Theorem C06_match_any_argsort : forall A (ltb eqb : A -> A -> bool), total_order ltb eqb ->
  forall is_string s a1 a2, NoDup a1 -> a1 <> [] -> a2 <> [] -> sorting_perm ltb s a1 ->
  exists o, match_with ltb eqb is_string false s a1 a2 = Ok o /\ match_ok a1 a2 o.
Proof. exact match_with_correct. Qed.

(* reading of match_ok: exactly the positions of the second array whose value occurs in the
   first are reported, each exactly once (and hence no other element appears) *)
Theorem C06_match_exactly_once : forall A (a1 a2 : list A) o, match_ok a1 a2 o ->
  NoDup (snd o) /\ length (fst o) = length (snd o)
  /\ forall j, In j (snd o) <-> exists x, nth_error a2 j = Some x /\ In x a1.
Proof. exact @match_ok_exact. Qed.

(* the specification determines both index arrays *)
Theorem C06_match_ok_unique : forall A (a1 a2 : list A) o o',
  NoDup a1 -> match_ok a1 a2 o -> match_ok a1 a2 o' -> o = o'.
Proof. exact match_ok_unique. Qed.

(* declaring a sorted first array as presorted gives the same result *)
Theorem C06_match_presorted : forall A (ltb eqb : A -> A -> bool), total_order ltb eqb ->
  forall is_string a1 a2, a1 <> [] -> a2 <> [] -> sorted ltb a1 ->
  match_ ltb eqb is_string true a1 a2 = match_ ltb eqb is_string false a1 a2.
Proof. exact match_presorted_same. Qed.

(* a first array with repeated values is rejected (ValueError), presorted or not *)
Theorem C06_match_rejects_dups : forall A (ltb eqb : A -> A -> bool), total_order ltb eqb ->
  forall is_string presorted a1 a2, ~ NoDup a1 -> a2 <> [] ->
  match_ ltb eqb is_string presorted a1 a2 = Err EValue.
Proof. exact match_rejects_dups. Qed.

(* match_multi is match with presorted=False whatever it is told *)
Theorem C06_match_multi : forall A (ltb eqb : A -> A -> bool), total_order ltb eqb ->
  forall is_string presorted a1 a2, NoDup a1 -> a1 <> [] -> a2 <> [] ->
  exists o, match_multi ltb eqb is_string presorted a1 a2 = Ok o /\ match_ok a1 a2 o.
Proof. exact @match_multi_correct. Qed.

(* scalars (np.atleast_1d makes them one-element arrays) are accepted on either side *)
Theorem C06_match_scalars : forall A (ltb eqb : A -> A -> bool), total_order ltb eqb ->
  forall is_string presorted x a2, a2 <> [] ->
  exists o, match_ ltb eqb is_string presorted [x] a2 = Ok o /\ match_ok [x] a2 o.
Proof. exact @match_scalars. Qed.

(* unique (repaired, fixes/C06): exactly one index per distinct value, for every sorting
   permutation numpy's argsort may return; values=True returns the distinct values *)
Theorem C06_unique : forall A (ltb eqb : A -> A -> bool), total_order ltb eqb ->
  forall s a, a <> [] -> sorting_perm ltb s a ->
  exists keep, unique_with eqb s a = Ok keep /\ one_per_value a keep.
Proof. exact unique_with_correct. Qed.

Theorem C06_unique_values : forall A (ltb eqb : A -> A -> bool), total_order ltb eqb ->
  forall s a, a <> [] -> sorting_perm ltb s a ->
  exists vals, unique_values_with eqb s a = Ok vals /\ values_ok a vals.
Proof. exact unique_values_with_correct. Qed.

(* the code as found (val = arr[0]; keep[0] = 0) does not have the property *)
Theorem C06_unique_as_found_refuted :
  exists s a keep, a <> [] /\ sorting_perm zltb s a
                   /\ unique_orig_with zeqb s a = Ok keep /\ ~ one_per_value a keep.
Proof. exact unique_as_found_refuted. Qed.

(* rem_dup: one index per distinct value, carrying the largest flag found with that value *)
Theorem C06_rem_dup : forall A (ltb eqb : A -> A -> bool), total_order ltb eqb ->
  forall s a flag, a <> [] -> length flag = length a -> sorting_perm ltb s a ->
  exists keep, rem_dup_with eqb s a flag = Ok keep /\ rem_dup_ok a flag keep.
Proof. exact rem_dup_with_correct. Qed.

Theorem C06_rem_dup_values : forall A (ltb eqb : A -> A -> bool), total_order ltb eqb ->
  forall s a flag, a <> [] -> length flag = length a -> sorting_perm ltb s a ->
  exists keep vals, rem_dup_values_with eqb s a flag = Ok (keep, vals)
                    /\ rem_dup_ok a flag keep /\ gather a keep = Some vals /\ values_ok a vals.
Proof. exact rem_dup_values_with_correct. Qed.

(* the argsort oracle: the run-time contract monitor is sound, and the contract is
   satisfiable for every array (the model's own argsort meets it) *)
Theorem C06_argsort_contract : forall A (ltb eqb : A -> A -> bool), total_order ltb eqb ->
  (forall s a, sorting_perm_check ltb s a = true -> sorting_perm ltb s a)
  /\ (forall a, sorting_perm ltb (argsort ltb a) a).
Proof. intros A ltb eqb TO. split; [exact (sorting_perm_check_sound A ltb eqb TO) | exact (argsort_sorting_perm A ltb eqb TO)]. Qed.

(* checker soundness: what the correspondence run evaluates on the implementation's outputs.
   The checkers are also complete (they never reject an answer that has the property). *)
Theorem C06_checkers_sound : forall A (ltb eqb : A -> A -> bool), total_order ltb eqb ->
  (forall a1 a2 o, match_check eqb a1 a2 o = true -> match_ok a1 a2 o)
  /\ (forall a keep, one_per_value_check eqb a keep = true -> one_per_value a keep)
  /\ (forall a vals, values_check eqb a vals = true -> values_ok a vals)
  /\ (forall a flag keep, rem_dup_check eqb a flag keep = true -> rem_dup_ok a flag keep).
Proof.
  intros A ltb eqb TO. split; [intros a1 a2 o; apply (match_check_iff A ltb eqb TO)|].
  split; [exact (one_per_value_check_sound A ltb eqb TO)|].
  split; [exact (values_check_sound A ltb eqb TO) | exact (rem_dup_check_sound A ltb eqb TO)].
Qed.

Theorem C06_checkers_complete : forall A (ltb eqb : A -> A -> bool), total_order ltb eqb ->
  (forall a1 a2 o, match_ok a1 a2 o -> match_check eqb a1 a2 o = true)
  /\ (forall a keep, one_per_value a keep -> one_per_value_check eqb a keep = true)
  /\ (forall a vals, values_ok a vals -> values_check eqb a vals = true)
  /\ (forall a flag keep, length a = length flag -> rem_dup_ok a flag keep -> rem_dup_check eqb a flag keep = true).
Proof.
  intros A ltb eqb TO. split; [intros a1 a2 o; apply (match_check_iff A ltb eqb TO)|].
  split; [exact (one_per_value_check_complete A ltb eqb TO)|].
  split; [exact (values_check_complete A ltb eqb TO) | exact (rem_dup_check_complete A ltb eqb TO)].
Qed.

(* Non-vacuity: concrete instances meet the hypotheses and the conclusions compute. *)
Example C06_nonvacuous :
  (NoDup [3; 1; 2]%Z /\ match_ zltb zeqb false false [3; 1; 2]%Z [2; 2; 7; -1; 3]%Z = Ok ([2; 2; 0], [0; 1; 4]))
  /\ match_ lex_ltb lex_eqb true false [[98]; [97; 98]; [97]]%Z [[97]; [122]; [98]; [98]]%Z = Ok ([2; 0; 0], [0; 2; 3])
  /\ match_ zltb zeqb false true [1; 2; 3]%Z [2; 2; 7; -1; 3]%Z = Ok ([1; 1; 2], [0; 1; 4])
  /\ match_ zltb zeqb false false [3; 1; 3]%Z [2]%Z = Err EValue
  /\ (sorting_perm zltb [1; 0; 2] [5; 1; 5]%Z /\ unique_with zeqb [1; 0; 2] [5; 1; 5]%Z = Ok [1; 0])
  /\ rem_dup_with zeqb [1; 0; 2; 3] [5; 1; 5; 5]%Z [3; 2; 7; 1]%Z = Ok [1; 2].
Proof.
  split; [split; [|reflexivity]|].
  - apply (nodupb_NoDup Z zltb zeqb z_total_order). reflexivity.
  - split; [reflexivity|]. split; [reflexivity|]. split; [reflexivity|]. split; [|reflexivity].
    split; [|reflexivity].
    apply (sorting_perm_check_sound _ zltb zeqb z_total_order). reflexivity.
Qed.

(* C06 — theorems about the parts of the code added to the model in Forms.v: empty arrays, a scalar
   second argument, arrays with nothing in common (bytes against unicode), the grouping reading
   of match_multi's output, the complete return values of unique / rem_dup. *)
From Coq Require Import Sorting.Permutation Sorting.Sorted Arith.
From EsVerif.Common Require Import Base.
From EsVerif.C06 Require Import Model Spec Lemmas MatchProofs DedupProofs Proofs Forms.
Local Open Scope nat_scope.

(* ------------------------------------------------- tagged strings are a total order *)
Lemma tag_total_order : total_order tag_ltb tag_eqb.
Proof.
  pose proof lex_total_order as L. constructor.
  - intros [t x] [u y]. unfold tag_eqb. cbn [fst snd]. rewrite andb_true_iff, (to_eqb _ _ _ L). split.
    + intros [H1 H2]. apply Bool.eqb_prop in H1. subst. reflexivity.
    + intro H. inversion H; subst. split; [apply Bool.eqb_reflx | reflexivity].
  - intros [t x]. unfold tag_ltb. cbn [fst snd]. rewrite (to_irrefl _ _ _ L). destruct t; reflexivity.
  - intros [t x] [u y] [w z]. unfold tag_ltb. cbn [fst snd].
    destruct t, u, w; cbn; try discriminate; try reflexivity; apply (to_trans _ _ _ L).
  - intros [t x] [u y]. unfold tag_ltb. cbn [fst snd].
    destruct t, u; cbn; try discriminate; intros H1 H2; f_equal; apply (to_total _ _ _ L); assumption.
Qed.

Section Forms.
  Variable A : Type.
  Variable ltb eqb : A -> A -> bool.
  Hypothesis TO : total_order ltb eqb.

  (* ---------------------------------------------------------- empty arrays *)
  (* an empty second array is rejected with ValueError; an empty FIRST array dies earlier, at
     `el = arr1[0]`, with IndexError (the code that exists) *)
  Lemma match_empty str p a1 a2 :
    (a1 <> [] -> match_ ltb eqb str p a1 [] = Err EValue /\ match_multi ltb eqb str p a1 [] = Err EValue)
    /\ match_ ltb eqb str p [] a2 = Err EIndex /\ match_multi ltb eqb str p [] a2 = Err EIndex.
  Proof.
    split; [|split; reflexivity]. intro N. destruct a1 as [|d t]; [congruence|]. split; reflexivity.
  Qed.

  (* ----------------------------------- determined outputs through match_ok_unique *)
  Lemma match_is str p a1 a2 o' :
    NoDup a1 -> a1 <> [] -> a2 <> [] -> (p = true -> sorted ltb a1) -> match_ok a1 a2 o' ->
    match_ ltb eqb str p a1 a2 = Ok o'.
  Proof.
    intros ND N1 N2 S H'.
    assert (E : match_ ltb eqb str p a1 a2 = match_ ltb eqb str false a1 a2).
    { destruct p; [|reflexivity]. apply (match_presorted_same A ltb eqb TO); auto. }
    rewrite E. destruct (match_correct A ltb eqb TO str a1 a2 ND N1 N2) as [o [Eo H]].
    rewrite Eo. f_equal. eapply match_ok_unique; eauto.
  Qed.

  (* a scalar (or one-element) second argument *)
  Lemma match_scalar_second str p a1 y :
    NoDup a1 -> a1 <> [] -> (p = true -> sorted ltb a1) ->
    (forall i, nth_error a1 i = Some y -> match_ ltb eqb str p a1 [y] = Ok ([i], [0]))
    /\ (~ In y a1 -> match_ ltb eqb str p a1 [y] = Ok ([], [])).
  Proof.
    intros ND N1 S. split.
    - intros i Hi. apply match_is; auto; [discriminate|]. split; [|split]; cbn [fst snd].
      + constructor; [|constructor]. exists y. split; [exact Hi | reflexivity].
      + repeat constructor.
      + intros j x Hj _. destruct j as [|j]; [left; reflexivity|]. destruct j; discriminate.
    - intro Hn. apply match_is; auto; [discriminate|]. split; [|split]; cbn [fst snd].
      + constructor.
      + constructor.
      + intros j x Hj Hx. destruct j as [|j]; [|destruct j; discriminate].
        inversion Hj; subst x. contradiction.
  Qed.

  (* arrays with no common value: nothing is reported *)
  Lemma match_nothing_in_common str p a1 a2 :
    NoDup a1 -> a1 <> [] -> a2 <> [] -> (p = true -> sorted ltb a1) ->
    (forall x, In x a1 -> In x a2 -> False) ->
    match_ ltb eqb str p a1 a2 = Ok ([], []).
  Proof.
    intros ND N1 N2 S D. apply match_is; auto. split; [|split]; cbn [fst snd]; try constructor.
    intros j x Hj Hx. exfalso. apply (D x Hx). eapply nth_error_In; exact Hj.
  Qed.

  (* ------------------------------------------------------------- grouping *)
  Lemma group_of_In i o1 : forall o2 j, In j (group_of i o1 o2) <-> In (i, j) (combine o1 o2).
  Proof.
    induction o1 as [|x t IH]; intros [|y t2] j; cbn [group_of combine]; try tauto.
    destruct (Nat.eqb_spec x i) as [E|E].
    - subst x. cbn [In]. rewrite IH. split; (intros [H|H]; [left; congruence | right; exact H]).
    - rewrite IH. cbn [In]. split; [auto|]. intros [H|H]; [congruence|exact H].
  Qed.

  Lemma group_of_sorted i o1 : forall o2, StronglySorted lt o2 -> StronglySorted lt (group_of i o1 o2).
  Proof.
    induction o1 as [|x t IH]; intros [|y t2] S; cbn [group_of]; try constructor.
    apply StronglySorted_inv in S as [S Hy]. destruct (x =? i); [|apply IH; exact S].
    constructor; [apply IH; exact S|]. rewrite Forall_forall in *. intros j Hj.
    apply group_of_In in Hj. apply Hy. eapply in_combine_r; exact Hj.
  Qed.

  Lemma Forall2_combine_all {B C} (R : B -> C -> Prop) l l' :
    Forall2 R l l' -> forall x y, In (x, y) (combine l l') -> R x y.
  Proof.
    induction 1 as [|a b t t' H _ IH]; intros x y; cbn [combine In]; [tauto|].
    intros [E|I]; [inversion E; subst; exact H | apply IH; exact I].
  Qed.

  Lemma Forall2_In_r_ex {B C} (R : B -> C -> Prop) l l' :
    Forall2 R l l' -> forall y, In y l' -> exists x, In (x, y) (combine l l').
  Proof.
    induction 1 as [|a b t t' H _ IH]; intros y; cbn [combine In]; [tauto|].
    intros [E|I]; [subst; exists a; left; reflexivity|]. destruct (IH y I) as [x Hx]. exists x. right; exact Hx.
  Qed.

  (* the positions of the second array paired with index i are exactly the positions holding
     a1[i], ascending: the output of match / match_multi read as groups *)
  Lemma match_ok_group a1 a2 o i x :
    NoDup a1 -> match_ok a1 a2 o -> nth_error a1 i = Some x ->
    group_of i (fst o) (snd o) = positions_of eqb x a2.
  Proof.
    intros ND [F [S Cm]] Hi. apply ssorted_lt_ext.
    - apply group_of_sorted; exact S.
    - unfold positions_of, where_. apply where_from_sorted.
    - intro j. rewrite group_of_In. unfold positions_of. rewrite where_In, nth_error_map. split.
      + intro H. destruct (Forall2_combine_all _ _ _ F _ _ H) as [y [H1 H2]]. rewrite Hi in H1.
        inversion H1; subst y. rewrite H2. cbn. f_equal. apply (to_eqb _ _ _ TO). reflexivity.
      + intro H. destruct (nth_error a2 j) as [y|] eqn:Hj; [|discriminate]. cbn in H.
        assert (E : eqb y x = true) by congruence. apply (to_eqb _ _ _ TO) in E. subst y.
        assert (Hin : In j (snd o)) by (apply (Cm j x Hj); eapply nth_error_In; exact Hi).
        destruct (Forall2_In_r_ex _ _ _ F j Hin) as [i' Hc].
        destruct (Forall2_combine_all _ _ _ F _ _ Hc) as [y [H1 H2]]. rewrite Hj in H2. inversion H2; subst y.
        assert (i' = i); [|subst; exact Hc].
        apply (proj1 (NoDup_nth_error a1) ND); [apply nth_error_Some; congruence | congruence].
  Qed.

  Lemma match_ok_groups a1 a2 o : NoDup a1 -> match_ok a1 a2 o -> groups_check eqb a1 a2 o = true.
  Proof.
    intros ND H. unfold groups_check. apply forallb_forall. intros [i x] Hin. cbn [fst snd].
    apply combine_seq_In in Hin. rewrite Nat.sub_0_r in Hin. destruct Hin as [_ Hi].
    rewrite (match_ok_group a1 a2 o i x ND H Hi). apply list_eqb_spec; [intros; apply Nat.eqb_eq | reflexivity].
  Qed.

  (* ------------------------------------------------- unique: complete return value *)
  Lemma unique_call_correct s a :
    a <> [] -> sorting_perm ltb s a ->
    (exists keep, unique_call eqb false s a false = Ok (UIdx keep) /\ one_per_value a keep)
    /\ (exists keep vals, unique_call eqb false s a true = Ok (UVals vals)
                          /\ one_per_value a keep /\ gather a keep = Some vals /\ values_ok a vals)
    /\ (forall v, unique_call eqb true s a v = Err EIndex).
  Proof.
    intros Na SP. destruct (unique_with_correct A ltb eqb TO s a Na SP) as [keep [E H]].
    split; [|split; [|reflexivity]].
    - exists keep. unfold unique_call. rewrite E. split; [reflexivity | exact H].
    - destruct (one_per_value_values A a keep H) as [vals [G V]].
      exists keep, vals. unfold unique_call, unique_values_with. rewrite E. cbn [bind]. unfold ogather. rewrite G.
      cbn [bind]. split; [reflexivity|]. split; [exact H|]. split; [reflexivity | exact V].
  Qed.

  (* ------------------------------------------------ rem_dup: complete return value *)
  Lemma rem_dup_call_correct s a flag v :
    a <> [] -> length flag = length a -> sorting_perm ltb s a ->
    exists sc keep vals, rem_dup_call eqb s a flag v = Ok (sc, keep, vals)
      /\ rem_dup_ok a flag keep
      /\ (sc = true <-> length a = 1)
      /\ (v = true -> exists vl, vals = Some vl /\ gather a keep = Some vl /\ values_ok a vl)
      /\ (v = false -> vals = None).
  Proof.
    intros Na L SP.
    destruct (rem_dup_values_with_correct A ltb eqb TO s a flag Na L SP) as [keep [vl [E [H [G V]]]]].
    assert (Ek : rem_dup_with eqb s a flag = Ok keep).
    { unfold rem_dup_values_with in E. destruct (rem_dup_with eqb s a flag) as [k|e]; [|discriminate].
      cbn [bind] in E. destruct (ogather a k); [|discriminate]. inversion E. reflexivity. }
    unfold rem_dup_call. destruct (length a =? 1) eqn:E1.
    - apply Nat.eqb_eq in E1.
      assert (keep = [0]) by (unfold rem_dup_with in Ek; rewrite E1 in Ek; cbn in Ek; congruence). subst keep.
      destruct a as [|x [|y t]]; try discriminate. cbn in G. inversion G; subst vl.
      exists true, [0], (if v then Some [x] else None). split; [reflexivity|]. split; [exact H|].
      split; [tauto|]. split; intro Hv; subst v; [|reflexivity]. exists [x]. auto.
    - apply Nat.eqb_neq in E1. destruct v.
      + rewrite E. cbn [bind fst snd]. exists false, keep, (Some vl). split; [reflexivity|]. split; [exact H|].
        split; [split; [discriminate | intro; contradiction]|]. split; [|discriminate]. intros _. exists vl. auto.
      + rewrite Ek. cbn [bind]. exists false, keep, None. split; [reflexivity|]. split; [exact H|].
        split; [split; [discriminate | intro; contradiction]|]. split; [discriminate | reflexivity].
  Qed.
End Forms.

(* byte strings against unicode strings: never equal, so nothing is reported (either way round) *)
Lemma match_bytes_vs_unicode str p (a1 a2 : list tstr) u :
  NoDup a1 -> a1 <> [] -> a2 <> [] -> (p = true -> sorted tag_ltb a1) ->
  (forall x, In x a1 -> fst x = u) -> (forall y, In y a2 -> fst y = negb u) ->
  match_ tag_ltb tag_eqb str p a1 a2 = Ok ([], []).
Proof.
  intros ND N1 N2 S H1 H2. apply (match_nothing_in_common _ tag_ltb tag_eqb tag_total_order); auto.
  intros x I1 I2. apply H1 in I1. apply H2 in I2. rewrite I1 in I2. destruct u; discriminate.
Qed.

(* C06 — the property as Props and the boolean checkers that the correspondence run
   evaluates on the implementation's outputs (soundness is proved in Proofs.v). *)
From Coq Require Import Sorting.Permutation Sorting.Sorted.
From EsVerif.Common Require Import Base.
From EsVerif.C06 Require Import Model.
Local Open Scope nat_scope.

Section Spec.
  Variable A : Type.
  Variable ltb : A -> A -> bool.
  Variable eqb : A -> A -> bool.

  (* what the element type has to provide: a decidable strict total order and its equality *)
  Record total_order : Prop := {
    to_eqb : forall x y, eqb x y = true <-> x = y;
    to_irrefl : forall x, ltb x x = false;
    to_trans : forall x y z, ltb x y = true -> ltb y z = true -> ltb x z = true;
    to_total : forall x y, ltb x y = false -> ltb y x = false -> x = y
  }.

  (* non-decreasing *)
  Definition sorted (l : list A) : Prop := StronglySorted (fun x y => ltb y x = false) l.

  (* contract of the argsort oracle: a permutation of 0..n-1 that sorts [a] *)
  Definition sorting_perm (s : list nat) (a : list A) : Prop :=
    Permutation s (seq 0 (length a)) /\ exists v, gather a s = Some v /\ sorted v.

  (* ---- match: (o1, o2) are the two returned index arrays *)
  Definition match_ok (a1 a2 : list A) (o : list nat * list nat) : Prop :=
    (* the returned pairs have equal elements *)
    Forall2 (fun i j => exists x, nth_error a1 i = Some x /\ nth_error a2 j = Some x) (fst o) (snd o)
    (* ordered by position in the second array (strictly: nothing appears twice) *)
    /\ StronglySorted lt (snd o)
    (* every element of the second array whose value occurs in the first appears *)
    /\ (forall j x, nth_error a2 j = Some x -> In x a1 -> In j (snd o)).

  (* ---- unique / rem_dup: exactly one index per distinct value *)
  Definition one_per_value (a : list A) (keep : list nat) : Prop :=
    NoDup keep
    /\ (forall k, In k keep -> k < length a)
    /\ (forall v, In v a -> exists! k, In k keep /\ nth_error a k = Some v).

  (* values=True *)
  Definition values_ok (a : list A) (vals : list A) : Prop :=
    NoDup vals /\ (forall v, In v a <-> In v vals).

  (* the kept index of every value carries the largest flag found with that value *)
  Definition rem_dup_ok (a : list A) (flag : list Z) (keep : list nat) : Prop :=
    one_per_value a keep
    /\ (forall k j x fk fj, In k keep -> nth_error a k = Some x -> nth_error a j = Some x ->
          nth_error flag k = Some fk -> nth_error flag j = Some fj -> (fj <= fk)%Z).

  (* ---------------------------------------------------------------- checkers *)
  Fixpoint pairs_b (a1 a2 : list A) (o1 o2 : list nat) : bool :=
    match o1, o2 with
    | [], [] => true
    | i :: t1, j :: t2 =>
        match nth_error a1 i, nth_error a2 j with
        | Some x, Some y => eqb x y
        | _, _ => false
        end && pairs_b a1 a2 t1 t2
    | _, _ => false
    end.

  Fixpoint ascending_b (l : list nat) : bool :=
    match l with
    | [] => true
    | x :: t => match t with [] => true | y :: _ => x <? y end && ascending_b t
    end.

  Definition mem_nat (x : nat) (l : list nat) : bool := existsb (Nat.eqb x) l.

  Definition match_check (a1 a2 : list A) (o : list nat * list nat) : bool :=
    pairs_b a1 a2 (fst o) (snd o)
    && ascending_b (snd o)
    && forallb (fun jx => implb (memb eqb (snd jx) a1) (mem_nat (fst jx) (snd o)))
               (combine (seq 0 (length a2)) a2).

  Definition one_per_value_check (a : list A) (keep : list nat) : bool :=
    match gather a keep with
    | None => false
    | Some vals => nodupb eqb vals && forallb (fun v => memb eqb v vals) a
    end.

  Definition values_check (a vals : list A) : bool :=
    nodupb eqb vals && forallb (fun v => memb eqb v vals) a && forallb (fun v => memb eqb v a) vals.

  Definition rem_dup_check (a : list A) (flag : list Z) (keep : list nat) : bool :=
    (length a =? length flag)
    && one_per_value_check a keep
    && forallb (fun k =>
         match nth_error a k, nth_error flag k with
         | Some x, Some fk => forallb (fun yf => implb (eqb (fst yf) x) (snd yf <=? fk)%Z) (combine a flag)
         | _, _ => false
         end) keep.

  (* contract monitor of the argsort oracle *)
  Fixpoint sorted_b (l : list A) : bool :=
    match l with
    | [] => true
    | x :: t => match t with [] => true | y :: _ => negb (ltb y x) end && sorted_b t
    end.

  Fixpoint nodup_nat_b (l : list nat) : bool :=
    match l with
    | [] => true
    | x :: t => negb (mem_nat x t) && nodup_nat_b t
    end.

  Definition sorting_perm_check (s : list nat) (a : list A) : bool :=
    (length s =? length a) && forallb (fun i => i <? length a) s && nodup_nat_b s
    && match gather a s with Some v => sorted_b v | None => false end.
End Spec.

Arguments total_order {A}. Arguments sorted {A}. Arguments sorting_perm {A}.
Arguments match_ok {A}. Arguments one_per_value {A}. Arguments values_ok {A}.
Arguments rem_dup_ok {A}. Arguments match_check {A}. Arguments one_per_value_check {A}.
Arguments values_check {A}. Arguments rem_dup_check {A}. Arguments sorting_perm_check {A}.
Arguments pairs_b {A}. Arguments sorted_b {A}.

(* -------------------------------------------------------------- known finding (round 2b)
   C06.kf_mixed_sign_above_2p53: the pair mixes uint64 with a signed integer kind (numpy promotes
   it to float64 inside np.searchsorted) AND some element of either array is not exactly
   representable in binary64.  Outside this class the full statement is proved
   (Properties.C06_match_outside_known); inside it completeness is refuted
   (C06_match_mixed_refuted). *)
Definition kf_mixed_sign_above_2p53 (mixed : bool) (a1 a2 : list Z) : bool :=
  mixed && existsb (fun x => negb (round53 x =? x)%Z) (a1 ++ a2).

(* C06 — list, order and permutation lemmas shared by the match and de-duplication proofs. *)
From Coq Require Import Sorting.Permutation Sorting.Sorted Arith.
From EsVerif.Common Require Import Base.
From EsVerif.C06 Require Import Model Spec.
Local Open Scope nat_scope.

(* ------------------------------------------------------------------ gather *)
Lemma gather_Forall2 {B} (l : list B) idx r :
  gather l idx = Some r <-> Forall2 (fun i x => nth_error l i = Some x) idx r.
Proof.
  revert r; induction idx as [|i t IH]; intros r; simpl.
  - split; intro H.
    + inversion H; constructor.
    + inversion H; reflexivity.
  - destruct (nth_error l i) as [x|] eqn:E.
    + destruct (gather l t) as [r'|] eqn:G.
      * split; intro H.
        -- inversion H; subst. constructor; [exact E | apply IH; reflexivity].
        -- inversion H as [|? y ? r2 Hy Hr]; subst. apply IH in Hr. rewrite E in Hy.
           inversion Hy; subst. inversion Hr; subst. reflexivity.
      * split; intro H; [discriminate|].
        inversion H as [|? y ? r2 Hy Hr]; subst. apply IH in Hr. discriminate.
    + split; intro H; [discriminate|].
      inversion H as [|? y ? r2 Hy Hr]; subst. rewrite E in Hy. discriminate.
Qed.

Lemma Forall2_len {B C} (R : B -> C -> Prop) l l' : Forall2 R l l' -> length l = length l'.
Proof. induction 1; simpl; congruence. Qed.

Lemma gather_length {B} (l : list B) idx r : gather l idx = Some r -> length r = length idx.
Proof. intro H. apply gather_Forall2 in H. symmetry. eapply Forall2_len; eauto. Qed.

Lemma gather_map_nth {B} (l : list B) d idx :
  (forall i, In i idx -> i < length l) -> gather l idx = Some (map (fun i => nth i l d) idx).
Proof.
  induction idx as [|i t IH]; intro H; simpl; [reflexivity|].
  rewrite (nth_error_nth' l d) by (apply H; left; reflexivity).
  rewrite IH by (intros; apply H; right; assumption). reflexivity.
Qed.

Lemma gather_bound {B} (l : list B) idx r : gather l idx = Some r -> forall i, In i idx -> i < length l.
Proof.
  intro H. apply gather_Forall2 in H. induction H as [|i x t r' Hx _ IH]; intros j Hin.
  - destruct Hin.
  - destruct Hin as [E|Hj]; subst.
    + apply nth_error_Some. congruence.
    + apply IH; assumption.
Qed.

Lemma gather_seq_app {B} (p l : list B) : gather (p ++ l) (seq (length p) (length l)) = Some l.
Proof.
  revert p; induction l as [|x t IH]; intro p; simpl; [reflexivity|].
  rewrite nth_error_app2 by lia. rewrite Nat.sub_diag. simpl.
  specialize (IH (p ++ [x])). rewrite <- app_assoc in IH. simpl in IH.
  rewrite app_length in IH. simpl in IH. rewrite Nat.add_1_r in IH. rewrite IH. reflexivity.
Qed.

Lemma gather_seq {B} (l : list B) : gather l (seq 0 (length l)) = Some l.
Proof. exact (gather_seq_app [] l). Qed.

Lemma Forall2_combine_In {B C} (R : B -> C -> Prop) l l' x y :
  Forall2 R l l' -> In (x, y) (combine l l') -> R x y.
Proof.
  induction 1 as [|a b t t' Hab _ IH]; simpl; [tauto|].
  intros [E|H]; [inversion E; subst; assumption | auto].
Qed.

Lemma Forall2_In_l {B C} (R : B -> C -> Prop) l l' x :
  Forall2 R l l' -> In x l -> exists y, R x y /\ In (x, y) (combine l l').
Proof.
  induction 1 as [|a b t t' Hab _ IH]; simpl; [tauto|].
  intros [E|H]; [subst; exists b; auto|].
  destruct (IH H) as [y [Hy Hin]]. exists y; auto.
Qed.

Lemma Forall2_nth_error_r {B C} (R : B -> C -> Prop) l l' p y :
  Forall2 R l l' -> nth_error l' p = Some y -> exists x, nth_error l p = Some x /\ R x y.
Proof.
  intro H; revert p; induction H as [|a b t t' Hab _ IH]; intros [|p] E; simpl in *; try discriminate.
  - inversion E; subst. exists a; auto.
  - apply IH; assumption.
Qed.

Lemma Forall2_map_self {B C} (R : C -> B -> Prop) (h : B -> C) l :
  (forall j, In j l -> R (h j) j) -> Forall2 R (map h l) l.
Proof.
  induction l as [|x t IH]; intro H; simpl; constructor.
  - apply H; left; reflexivity.
  - apply IH; intros; apply H; right; assumption.
Qed.

(* a gather through a permutation of all indices is a permutation of the array *)
Lemma gather_perm {B} (l : list B) idx r :
  Permutation idx (seq 0 (length l)) -> gather l idx = Some r -> Permutation r l.
Proof.
  intros P G. destruct l as [|d t].
  - simpl in P. apply Permutation_sym, Permutation_nil in P. subst. simpl in G. inversion G. constructor.
  - remember (d :: t) as l eqn:El. clear El t.
    assert (Hb : forall i, In i idx -> i < length l).
    { intros i Hi. apply (Permutation_in _ P) in Hi. apply in_seq in Hi. lia. }
    rewrite (gather_map_nth l d idx Hb) in G.
    assert (Er : map (fun i => nth i l d) idx = r) by congruence. subst r.
    assert (E : map (fun i => nth i l d) (seq 0 (length l)) = l).
    { assert (G2 := gather_seq l). rewrite (gather_map_nth l d) in G2.
      - congruence.
      - intros i Hi. apply in_seq in Hi. lia. }
    eapply Permutation_trans; [apply Permutation_map; exact P | rewrite E; apply Permutation_refl].
Qed.

(* ------------------------------------------------------------------ where *)
Lemma where_from_In k m j : In j (where_from k m) <-> k <= j /\ nth_error m (j - k) = Some true.
Proof.
  revert k; induction m as [|b t IH]; intro k; simpl.
  - split; [tauto|]. intros [_ H]. destruct (j - k); discriminate.
  - assert (T : In j (where_from (S k) t) <-> S k <= j /\ nth_error t (j - S k) = Some true) by apply IH.
    destruct b; simpl; rewrite T; clear T IH.
    + split.
      * intros [E|[H1 H2]]; [subst; rewrite Nat.sub_diag; simpl; split; [lia|reflexivity]|].
        split; [lia|]. replace (j - k) with (S (j - S k)) by lia. exact H2.
      * intros [H1 H2]. destruct (Nat.eq_dec k j) as [E|NE]; [left; exact E|right].
        split; [lia|]. replace (j - k) with (S (j - S k)) in H2 by lia. exact H2.
    + split.
      * intros [H1 H2]. split; [lia|]. replace (j - k) with (S (j - S k)) by lia. exact H2.
      * intros [H1 H2]. destruct (Nat.eq_dec k j) as [E|NE].
        -- subst. rewrite Nat.sub_diag in H2. discriminate.
        -- split; [lia|]. replace (j - k) with (S (j - S k)) in H2 by lia. exact H2.
Qed.

Lemma where_from_sorted k m : StronglySorted lt (where_from k m).
Proof.
  revert k; induction m as [|b t IH]; intro k; simpl; [constructor|].
  destruct b; [|apply IH]. constructor; [apply IH|].
  apply Forall_forall. intros j Hj. apply where_from_In in Hj. lia.
Qed.

Lemma where_In m j : In j (where_ m) <-> nth_error m j = Some true.
Proof. unfold where_. rewrite where_from_In, Nat.sub_0_r. split; [tauto|]. split; [lia|assumption]. Qed.

(* ------------------------------------------------------ strictly sorted nat lists *)
Lemma ssorted_lt_ext l l' :
  StronglySorted lt l -> StronglySorted lt l' -> (forall x, In x l <-> In x l') -> l = l'.
Proof.
  intro H; revert l'; induction H as [|x t Ht IH Hx]; intros l' H' E.
  - destruct l' as [|y t']; [reflexivity|]. exfalso. apply (E y). left; reflexivity.
  - destruct l' as [|y t']; [exfalso; apply (E x); left; reflexivity|].
    apply StronglySorted_inv in H' as [Ht' Hy].
    rewrite Forall_forall in Hx, Hy.
    assert (x = y).
    { destruct (proj1 (E x) (or_introl eq_refl)) as [E1|I1]; [congruence|].
      destruct (proj2 (E y) (or_introl eq_refl)) as [E2|I2]; [congruence|].
      apply Hy in I1. apply Hx in I2. lia. }
    subst y. f_equal. apply IH; [assumption|].
    intro z; split; intro Hz.
    + destruct (proj1 (E z) (or_intror Hz)) as [E1|I1]; [|assumption].
      subst z. apply Hx in Hz. lia.
    + destruct (proj2 (E z) (or_intror Hz)) as [E1|I1]; [|assumption].
      subst z. apply Hy in Hz. lia.
Qed.

Lemma ascending_b_sorted l : ascending_b l = true -> StronglySorted lt l.
Proof.
  intro H. apply Sorted_StronglySorted; [intros a b c; apply Nat.lt_trans|].
  induction l as [|x t IH]; [constructor|]. simpl in H. apply andb_true_iff in H as [H1 H2].
  constructor; [apply IH; exact H2|]. destruct t as [|y t']; constructor. apply Nat.ltb_lt. exact H1.
Qed.

Lemma sorted_ascending_b l : StronglySorted lt l -> ascending_b l = true.
Proof.
  induction 1 as [|x t Ht IH Hx]; [reflexivity|]. simpl. rewrite IH, andb_true_r.
  destruct t as [|y t']; [reflexivity|]. apply Nat.ltb_lt. inversion Hx; assumption.
Qed.

(* ------------------------------------------------------------- sort_nat *)
Lemma ins_nat_perm x l : Permutation (x :: l) (ins_nat x l).
Proof.
  induction l as [|h t IH]; simpl; [apply Permutation_refl|].
  destruct (x <=? h); [apply Permutation_refl|].
  eapply Permutation_trans; [apply perm_swap|]. apply perm_skip. exact IH.
Qed.

Lemma sort_nat_perm l : Permutation l (sort_nat l).
Proof.
  induction l as [|x t IH]; simpl; [constructor|].
  eapply Permutation_trans; [apply perm_skip; exact IH | apply ins_nat_perm].
Qed.

(* ------------------------------------------------------ filters and counting *)
Lemma filter_all {B} (f : B -> bool) l : (forall x, In x l -> f x = true) -> filter f l = l.
Proof.
  induction l as [|x t IH]; intro H; simpl; [reflexivity|].
  rewrite (H x) by (left; reflexivity). f_equal. apply IH. intros; apply H; right; assumption.
Qed.

Lemma filter_none {B} (f : B -> bool) l : (forall x, In x l -> f x = false) -> filter f l = [].
Proof.
  induction l as [|x t IH]; intro H; simpl; [reflexivity|].
  rewrite (H x) by (left; reflexivity). apply IH. intros; apply H; right; assumption.
Qed.

Lemma filter_len_le {B} (f : B -> bool) l : length (filter f l) <= length l.
Proof. induction l as [|x t IH]; simpl; [lia|]. destruct (f x); simpl; lia. Qed.

Lemma filter_len_lt {B} (f : B -> bool) l m : In m l -> f m = false -> length (filter f l) < length l.
Proof.
  induction l as [|x t IH]; simpl; [tauto|]. intros [E|H] Hm.
  - subst. rewrite Hm. pose proof (filter_len_le f t). lia.
  - specialize (IH H Hm). destruct (f x); simpl; lia.
Qed.

Lemma ssorted_app_mid {B} (R : B -> B -> Prop) l1 x l2 :
  StronglySorted R (l1 ++ x :: l2) -> (forall y, In y l1 -> R y x) /\ (forall y, In y l2 -> R x y).
Proof.
  induction l1 as [|a t IH]; simpl; intro H.
  - apply StronglySorted_inv in H as [_ H]. rewrite Forall_forall in H. split; [tauto|exact H].
  - apply StronglySorted_inv in H as [H1 H2]. rewrite Forall_forall in H2.
    destruct (IH H1) as [I1 I2]. split; [|exact I2].
    intros y [E|Hy]; [subst; apply H2; apply in_or_app; right; left; reflexivity | apply I1; exact Hy].
Qed.

Lemma ssorted_app_l {B} (R : B -> B -> Prop) l1 l2 : StronglySorted R (l1 ++ l2) -> StronglySorted R l1.
Proof.
  induction l1 as [|a t IH]; simpl; intro H; [constructor|].
  apply StronglySorted_inv in H as [H1 H2]. constructor; [apply IH; exact H1|].
  rewrite Forall_forall in *. intros y Hy. apply H2. apply in_or_app; left; exact Hy.
Qed.

Lemma combine_seq_In {B} (l : list B) k j x :
  In (j, x) (combine (seq k (length l)) l) <-> k <= j /\ nth_error l (j - k) = Some x.
Proof.
  revert k; induction l as [|y t IH]; intro k; simpl.
  - split; [tauto|]. intros [_ H]. destruct (j - k); discriminate.
  - rewrite IH. split.
    + intros [E|[H1 H2]].
      * inversion E; subst. rewrite Nat.sub_diag. simpl. split; [lia|reflexivity].
      * split; [lia|]. replace (j - k) with (S (j - S k)) by lia. exact H2.
    + intros [H1 H2]. destruct (Nat.eq_dec k j) as [E|NE].
      * subst. rewrite Nat.sub_diag in H2. simpl in H2. inversion H2; subst. left; reflexivity.
      * right. split; [lia|]. replace (j - k) with (S (j - S k)) in H2 by lia. exact H2.
Qed.

(* --------------------------------------------------- facts about the order *)
Section Order.
  Variable A : Type.
  Variable ltb eqb : A -> A -> bool.
  Hypothesis TO : total_order ltb eqb.

  Lemma eqb_refl x : eqb x x = true.
  Proof. apply (to_eqb _ _ _ TO). reflexivity. Qed.

  Lemma eqb_false_neq x y : eqb x y = false -> x <> y.
  Proof. intros H E. subst. rewrite eqb_refl in H. discriminate. Qed.

  Lemma ltb_asym x y : ltb x y = true -> ltb y x = false.
  Proof.
    intro H. destruct (ltb y x) eqn:E; [|reflexivity].
    pose proof (to_trans _ _ _ TO _ _ _ H E) as T. rewrite (to_irrefl _ _ _ TO) in T. discriminate.
  Qed.

  (* le x y is written  ltb y x = false *)
  Lemma le_trans x y z : ltb y x = false -> ltb z y = false -> ltb z x = false.
  Proof.
    intros H1 H2. destruct (ltb z x) eqn:E; [|reflexivity]. exfalso.
    destruct (ltb y z) eqn:E2.
    - pose proof (to_trans _ _ _ TO _ _ _ E2 E) as T. congruence.
    - pose proof (to_total _ _ _ TO _ _ E2 H2). subst. congruence.
  Qed.

  Lemma lt_of_le_neq x y : ltb y x = false -> x <> y -> ltb x y = true.
  Proof.
    intros H N. destruct (ltb x y) eqn:E; [reflexivity|]. exfalso. apply N.
    apply (to_total _ _ _ TO); assumption.
  Qed.

  Lemma memb_In x l : memb eqb x l = true <-> In x l.
  Proof.
    unfold memb. rewrite existsb_exists. split.
    - intros [y [Hy E]]. apply (to_eqb _ _ _ TO) in E. subst. exact Hy.
    - intro H. exists x. split; [exact H | apply eqb_refl].
  Qed.

  Lemma nodupb_NoDup l : nodupb eqb l = true <-> NoDup l.
  Proof.
    induction l as [|x t IH]; simpl.
    - split; [constructor | reflexivity].
    - rewrite andb_true_iff, negb_true_iff, IH, NoDup_cons_iff. split.
      + intros [H1 H2]. split; [|exact H2]. intro Hin. apply memb_In in Hin. congruence.
      + intros [H1 H2]. split; [|exact H2]. destruct (memb eqb x t) eqn:E; [|reflexivity].
        apply memb_In in E. contradiction.
  Qed.

  Lemma sorted_b_sorted l : sorted_b ltb l = true -> sorted ltb l.
  Proof.
    intro H. apply Sorted_StronglySorted.
    - intros a b c Hab Hbc. eapply le_trans; eassumption.
    - induction l as [|x t IH]; [constructor|]. simpl in H. apply andb_true_iff in H as [H1 H2].
      constructor; [apply IH; exact H2|]. destruct t as [|y t']; constructor.
      apply negb_true_iff. exact H1.
  Qed.

  (* searchsorted-left of a member of a strictly sorted array is its position *)
  Lemma count_lt_split l1 v l2 :
    sorted ltb (l1 ++ v :: l2) -> NoDup (l1 ++ v :: l2) -> count_lt ltb (l1 ++ v :: l2) v = length l1.
  Proof.
    intros S N. unfold count_lt. destruct (ssorted_app_mid _ _ _ _ S) as [H1 H2].
    rewrite filter_app. simpl. rewrite (to_irrefl _ _ _ TO).
    rewrite filter_all, filter_none.
    - rewrite app_nil_r. reflexivity.
    - intros y Hy. apply H2. exact Hy.
    - intros y Hy. apply lt_of_le_neq; [apply H1; exact Hy|].
      intro E; subst y. apply NoDup_remove_2 in N. apply N. apply in_or_app; left; exact Hy.
  Qed.

  Lemma count_lt_le l v : count_lt ltb l v <= length l.
  Proof. apply filter_len_le. Qed.

  Lemma count_lt_lt l v m : In m l -> ltb m v = false -> count_lt ltb l v < length l.
  Proof. intros. eapply filter_len_lt; eauto. Qed.

  Lemma maxl_spec l d :
    In (maxl ltb d l) (d :: l) /\ forall x, In x (d :: l) -> ltb (maxl ltb d l) x = false.
  Proof.
    unfold maxl. revert d; induction l as [|y t IH]; intro d; simpl.
    - split; [left; reflexivity|]. intros x [E|[]]. subst. apply (to_irrefl _ _ _ TO).
    - destruct (IH (if ltb d y then y else d)) as [I1 I2].
      set (m := if ltb d y then y else d) in *.
      assert (Hd : ltb m d = false).
      { unfold m. destruct (ltb d y) eqn:E; [apply ltb_asym; exact E | apply (to_irrefl _ _ _ TO)]. }
      assert (Hy : ltb m y = false).
      { unfold m. destruct (ltb d y) eqn:E; [apply (to_irrefl _ _ _ TO) | exact E]. }
      split.
      + destruct I1 as [E|I1]; [|right; right; exact I1].
        rewrite <- E. unfold m. destruct (ltb d y); [right; left|left]; reflexivity.
      + intros x [E|[E|Hx]].
        * subst x. eapply le_trans; [exact Hd | apply I2; left; reflexivity].
        * subst x. eapply le_trans; [exact Hy | apply I2; left; reflexivity].
        * apply I2. right. exact Hx.
  Qed.

  (* ------------------------------------------------ the argsort contract *)
  Lemma sorting_perm_facts s a :
    sorting_perm ltb s a ->
    length s = length a /\ NoDup s /\ (forall i, In i s <-> i < length a).
  Proof.
    intros [P _]. split; [|split].
    - rewrite (Permutation_length P). apply seq_length.
    - apply (Permutation_NoDup (Permutation_sym P)). apply seq_NoDup.
    - intro i. split; intro H.
      + apply (Permutation_in _ P) in H. apply in_seq in H. lia.
      + apply (Permutation_in _ (Permutation_sym P)). apply in_seq. lia.
  Qed.

  Lemma nodup_nat_b_NoDup l : nodup_nat_b l = true -> NoDup l.
  Proof.
    induction l as [|x t IH]; simpl; intro H; [constructor|].
    apply andb_true_iff in H as [H1 H2]. constructor; [|apply IH; exact H2].
    intro Hin. apply negb_true_iff in H1. unfold mem_nat in H1.
    assert (existsb (Nat.eqb x) t = true) by (apply existsb_exists; exists x; split; [exact Hin|apply Nat.eqb_refl]).
    congruence.
  Qed.

  Lemma sorting_perm_check_sound s a : sorting_perm_check ltb s a = true -> sorting_perm ltb s a.
  Proof.
    unfold sorting_perm_check. intro H.
    apply andb_true_iff in H as [H H4]. apply andb_true_iff in H as [H H3].
    apply andb_true_iff in H as [H1 H2]. apply Nat.eqb_eq in H1.
    split.
    - apply NoDup_Permutation_bis.
      + apply nodup_nat_b_NoDup. exact H3.
      + rewrite seq_length. lia.
      + intros i Hi. rewrite forallb_forall in H2. apply H2 in Hi. apply Nat.ltb_lt in Hi.
        apply in_seq. lia.
    - destruct (gather a s) as [v|]; [|discriminate]. exists v. split; [reflexivity|].
      apply sorted_b_sorted. exact H4.
  Qed.
End Order.

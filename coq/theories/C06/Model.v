(* C06 — executable models of esutil.numpy_util.match / match_multi / unique / rem_dup
   (numpy_util.py:1411-1593).  Generic over an element type A with a strict order [ltb] and an
   equality test [eqb] (run at Z — integers and order-embedded floats — and at code-point
   strings with the lexicographic order).  No proofs here.

   External numpy calls (DESIGN 3.4):
     arr[idx] (fancy indexing)     re-implemented: [gather], None = IndexError
     np.searchsorted(side='left')  re-implemented on the array it is entitled to assume sorted:
                                   number of strictly smaller elements ([count_lt])
     np.unique(a).size != a.size   re-implemented: "a has a repeated value" ([nodupb])
     arr.max(), np.where, ==       re-implemented ([maxl], [where_], [eq_mask])
     np.argsort                    match: called on distinct values only, where its answer is
                                   determined; re-implemented ([argsort], insertion sort).
                                   unique / rem_dup: the answer on ties is numpy's choice, so
                                   the permutation is an ORACLE argument [s] with the contract
                                   [Spec.sorting_perm s a], monitored on every case. *)
From EsVerif.Common Require Import Base.
Local Open Scope nat_scope.

(* l[idx] *)
Fixpoint gather {B} (l : list B) (idx : list nat) : option (list B) :=
  match idx with
  | [] => Some []
  | i :: t => match nth_error l i, gather l t with
              | Some x, Some r => Some (x :: r)
              | _, _ => None
              end
  end.

Definition ogather {B} (l : list B) (idx : list nat) : result (list B) :=
  match gather l idx with Some r => Ok r | None => Err EIndex end.

(* np.where(mask)[0] *)
Fixpoint where_from (k : nat) (m : list bool) : list nat :=
  match m with
  | [] => []
  | b :: t => if b then k :: where_from (S k) t else where_from (S k) t
  end.
Definition where_ := where_from 0.

(* sub1[sub1 == n] = n - 1 *)
Definition clamp_hi (n k : nat) : nat := if k =? n then n - 1 else k.

(* s.sort() on an index array *)
Fixpoint ins_nat (x : nat) (l : list nat) : list nat :=
  match l with
  | [] => [x]
  | h :: t => if x <=? h then x :: l else h :: ins_nat x t
  end.
Definition sort_nat (l : list nat) : list nat := fold_right ins_nat [] l.

Section Generic.
  Variable A : Type.
  Variable ltb : A -> A -> bool.     (* strict "less than" of the dtype *)
  Variable eqb : A -> A -> bool.     (* == of the dtype *)

  Definition memb (x : A) (l : list A) : bool := existsb (eqb x) l.

  Fixpoint nodupb (l : list A) : bool :=
    match l with
    | [] => true
    | x :: t => negb (memb x t) && nodupb t
    end.

  (* searchsorted(side='left') of v in a sorted array *)
  Definition count_lt (sorted_view : list A) (v : A) : nat :=
    length (filter (fun x => ltb x v) sorted_view).

  (* arr.max() of a non-empty array with first element d *)
  Definition maxl (d : A) (l : list A) : A := fold_left (fun m x => if ltb m x then x else m) l d.

  (* elementwise l1 == l2 *)
  Fixpoint eq_mask (l1 l2 : list A) : list bool :=
    match l1, l2 with
    | x :: t1, y :: t2 => eqb x y :: eq_mask t1 t2
    | _, _ => []
    end.

  (* np.argsort on distinct values (stable insertion sort of (index, value) pairs) *)
  Fixpoint ins (e : nat * A) (l : list (nat * A)) : list (nat * A) :=
    match l with
    | [] => [e]
    | h :: t => if ltb (snd e) (snd h) then e :: l else h :: ins e t
    end.
  Definition argsort (a : list A) : list nat :=
    map fst (fold_right ins [] (combine (seq 0 (length a)) a)).

  (* ---------------------------------------------------------------- match
     numpy_util.py:1510-1584.  [is_string]: isinstance(arr1[0], (str, bytes)).
     Faithful for presorted=true only when a1 really is sorted (otherwise numpy's binary
     search on unsorted data is not the count of smaller elements); the property and the
     correspondence run speak about presorted=true on sorted a1 only. *)
  Definition match_with (is_string presorted : bool) (st1 : list nat) (a1 a2 : list A)
    : result (list nat * list nat) :=
    match a1 with
    | [] => Err EIndex                                          (* el = arr1[0] *)
    | d1 :: _ =>
      match a2 with
      | [] => Err EValue                                        (* "must each be non-zero length" *)
      | d2 :: _ =>
        if negb (nodupb a1) then Err EValue                     (* "arr1input must be unique" *)
        else
          let n := length a1 in
          do view <- (if presorted then Ok a1 else ogather a1 st1);   (* what searchsorted searches *)
          let sub1 := map (count_lt view) a2 in
          let sub1 := if is_string || ltb (maxl d1 a1) (maxl d2 a2)
                      then map (clamp_hi n) sub1 else sub1 in
          if presorted then
            do vals <- ogather a1 sub1;                          (* arr1[sub1] *)
            let sub2 := where_ (eq_mask vals a2) in
            do o1 <- ogather sub1 sub2;                          (* sub1[sub2] *)
            Ok (o1, sub2)
          else
            do i1 <- ogather st1 sub1;                           (* st1[sub1] *)
            do vals <- ogather a1 i1;                            (* arr1[st1[sub1]] *)
            let sub2 := where_ (eq_mask vals a2) in
            do t <- ogather sub1 sub2;                           (* sub1[sub2] *)
            do o1 <- ogather st1 t;                              (* st1[sub1[sub2]] *)
            Ok (o1, sub2)
      end
    end.

  Definition match_ (is_string presorted : bool) (a1 a2 : list A) :=
    match_with is_string presorted (argsort a1) a1 a2.

  (* numpy_util.py:1587-1593: the presorted keyword is ignored *)
  Definition match_multi (is_string presorted : bool) (a1 a2 : list A) :=
    match_ is_string false a1 a2.

  (* --------------------------------------------------------------- unique
     numpy_util.py:1411-1451, scan over the argsort permutation [s]; entries are
     (s[i], arr[s[i]]).  keep[] is the list of kept indices (reverse accumulated). *)
  Fixpoint unique_loop (val : A) (acc : list nat) (rest : list (nat * A)) : list nat :=
    match rest with
    | [] => rev acc
    | (ind, x) :: t =>
        if eqb x val then unique_loop val acc t        (* arr[ind] != val is false *)
        else unique_loop x (ind :: acc) t              (* val = arr[ind]; nkeep += 1; keep[nkeep] = ind *)
    end.

  (* repaired code (fixes/C06): val = arr[s[0]]; keep[0] = s[0] *)
  Definition unique_with (s : list nat) (a : list A) : result (list nat) :=
    do sarr <- ogather a s;
    match combine s sarr with
    | [] => Err EIndex                                  (* s[0] on an empty array *)
    | (i0, v0) :: rest => Ok (unique_loop v0 [i0] rest)
    end.

  (* the code as found: val = arr[0]; keep[0] = 0 (zero-initialised array) *)
  Definition unique_orig_with (s : list nat) (a : list A) : result (list nat) :=
    match a with
    | [] => Err EIndex                                  (* arr[0] *)
    | a0 :: _ =>
      do sarr <- ogather a s;
      Ok (unique_loop a0 [0] (tl (combine s sarr)))
    end.

  (* values=True: arr[keep] *)
  Definition unique_values_with (s : list nat) (a : list A) : result (list A) :=
    do keep <- unique_with s a; ogather a keep.

  (* -------------------------------------------------------------- rem_dup
     numpy_util.py:1454-1507.  Entries are (i, (sarr[i], sflag[i])); state: value and best
     flag of the current run, keep[nkeep] (= cur), keep[0..nkeep-1] (= acc, reversed). *)
  Fixpoint rd_loop (val : A) (f : Z) (cur : nat) (acc : list nat) (rest : list (nat * (A * Z)))
    : list nat :=
    match rest with
    | [] => rev (cur :: acc)
    | (i, (x, fx)) :: t =>
        if eqb x val then
          (if (f <? fx)%Z then rd_loop val fx i acc t      (* f = sflag[i]; keep[nkeep] = i *)
           else rd_loop val f cur acc t)
        else rd_loop x fx i (cur :: acc) t                  (* new value: nkeep += 1; keep[nkeep] = i *)
    end.

  Definition rem_dup_with (s : list nat) (a : list A) (flag : list Z) : result (list nat) :=
    let n := length a in
    if n =? 1 then Ok [0]                                   (* returns the scalar 0 *)
    else
      do sarr <- ogather a s;                               (* arr[s] *)
      do sflag <- ogather flag s;                           (* flag[s] *)
      match combine (seq 0 n) (combine sarr sflag) with
      | [] => Err EIndex                                    (* sarr[0] on an empty array *)
      | (i0, (v0, f0)) :: rest =>
          do kept <- ogather s (rd_loop v0 f0 i0 [] rest);  (* s[keep] *)
          Ok (sort_nat kept)                                (* s.sort() *)
      end.

  Definition rem_dup_values_with (s : list nat) (a : list A) (flag : list Z)
    : result (list nat * list A) :=
    do keep <- rem_dup_with s a flag;
    do vals <- ogather a keep;
    Ok (keep, vals).
End Generic.

Arguments memb {A}. Arguments nodupb {A}. Arguments count_lt {A}. Arguments maxl {A}.
Arguments eq_mask {A}. Arguments argsort {A}. Arguments match_with {A}. Arguments match_ {A}.
Arguments match_multi {A}. Arguments unique_loop {A}. Arguments unique_with {A}.
Arguments unique_orig_with {A}. Arguments unique_values_with {A}. Arguments rd_loop {A}.
Arguments rem_dup_with {A}. Arguments rem_dup_values_with {A}. Arguments ins {A}.

(* ------------------------------------------------------------- instances *)
(* integers of any width, and floats through the harness's order embedding (no NaN) *)
Definition zltb : Z -> Z -> bool := Z.ltb.
Definition zeqb : Z -> Z -> bool := Z.eqb.

(* byte / unicode strings as code-point lists (trailing NUL padding removed), numpy's
   lexicographic comparison *)
Fixpoint lex_ltb (x y : list Z) : bool :=
  match x, y with
  | _, [] => false
  | [], _ :: _ => true
  | a :: s, b :: t => (a <? b)%Z || ((a =? b)%Z && lex_ltb s t)
  end.
Definition lex_eqb : list Z -> list Z -> bool := list_eqb Z.eqb.

(* ------------------------------------------------- mixed signedness at 64 bits (round 2b)
   A uint64 array against a signed-integer array (or the reverse): numpy has no common integer
   type and np.searchsorted promotes BOTH arrays to float64, so the binary search compares the
   binary64 roundings of the integers (round to nearest, ties to even, 53 significant bits).
   np.unique, np.argsort (one array each), arr2.max() > arr1.max() (numpy scalars) and the
   elementwise == (numpy >= 1.25/2.x compares mixed-sign integers exactly) stay exact. *)
Definition round53 (x : Z) : Z :=
  let a := Z.abs x in
  if (a <? 2 ^ 53)%Z then x
  else
    let e := (Z.log2 a - 52)%Z in
    let p := (2 ^ e)%Z in
    let q := (a / p)%Z in
    let r := (a mod p)%Z in
    let h := (p / 2)%Z in
    let q' := if (h <? r)%Z || ((r =? h)%Z && Z.odd q) then (q + 1)%Z else q in
    (Z.sgn x * (q' * p))%Z.

Section Promoted.
  Variable A : Type.
  Variable sltb : A -> A -> bool.    (* the order np.searchsorted compares with *)
  Variable ltb : A -> A -> bool.     (* the order of the dtype (argsort, max) *)
  Variable eqb : A -> A -> bool.

  (* match_with with the search order separated; match_with2 ltb ltb eqb IS match_with ltb eqb *)
  Definition match_with2 (is_string presorted : bool) (st1 : list nat) (a1 a2 : list A)
    : result (list nat * list nat) :=
    match a1 with
    | [] => Err EIndex
    | d1 :: _ =>
      match a2 with
      | [] => Err EValue
      | d2 :: _ =>
        if negb (nodupb eqb a1) then Err EValue
        else
          let n := length a1 in
          do view <- (if presorted then Ok a1 else ogather a1 st1);
          let sub1 := map (count_lt sltb view) a2 in
          let sub1 := if is_string || ltb (maxl ltb d1 a1) (maxl ltb d2 a2)
                      then map (clamp_hi n) sub1 else sub1 in
          if presorted then
            do vals <- ogather a1 sub1;
            let sub2 := where_ (eq_mask eqb vals a2) in
            do o1 <- ogather sub1 sub2;
            Ok (o1, sub2)
          else
            do i1 <- ogather st1 sub1;
            do vals <- ogather a1 i1;
            let sub2 := where_ (eq_mask eqb vals a2) in
            do t <- ogather sub1 sub2;
            do o1 <- ogather st1 t;
            Ok (o1, sub2)
      end
    end.
End Promoted.
Arguments match_with2 {A}.

Definition rltb (x y : Z) : bool := (round53 x <? round53 y)%Z.

(* match / match_multi on integer arrays; [mixed]: one array is uint64, the other a signed kind *)
Definition match_z (mixed is_string presorted : bool) (a1 a2 : list Z) : result (list nat * list nat) :=
  if mixed then match_with2 rltb zltb zeqb is_string presorted (argsort zltb a1) a1 a2
  else match_ zltb zeqb is_string presorted a1 a2.
Definition match_multi_z (mixed is_string presorted : bool) (a1 a2 : list Z) := match_z mixed is_string false a1 a2.

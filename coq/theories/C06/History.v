(* C06 — the history dimension.  A process makes a sequence of calls; whatever state an
   implementation carries between them, the MODEL carries none: its step function ignores and
   returns the unit state, so the answer to a call in any history is the answer to that call
   alone.  This is the statement the `history` entry of the harness tests the real code against
   (every call of a sequence is compared with the model's answer on the contents the arrays have
   at that call, and with the same call repeated on fresh copies). *)
From EsVerif.Common Require Import Base.
From EsVerif.C06 Require Import Model Forms.
Local Open Scope nat_scope.

Section Hist.
  Variable A : Type.
  Variable ltb eqb : A -> A -> bool.

  Inductive call :=
  | CMatch (multi : bool) (k : elclass) (presorted : bool) (a1 a2 : list A)
  | CUnique (zero_d : bool) (s : list nat) (a : list A) (values : bool)
  | CRemDup (s : list nat) (a : list A) (flag : list Z) (values : bool).

  Inductive answer :=
  | AMatch (r : result (list nat * list nat))
  | AUnique (r : result (uout A))
  | ARemDup (r : result (rdout A)).

  Definition answer_of (c : call) : answer :=
    match c with
    | CMatch multi k p a1 a2 =>
        AMatch (if multi then match_multi ltb eqb (is_string_of k) p a1 a2 else match_ ltb eqb (is_string_of k) p a1 a2)
    | CUnique z s a v => AUnique (unique_call eqb z s a v)
    | CRemDup s a flag v => ARemDup (rem_dup_call eqb s a flag v)
    end.

  (* the model as a state machine: the state is unit *)
  Definition step (st : unit) (c : call) : unit * answer := (tt, answer_of c).

  Fixpoint run (st : unit) (h : list call) : list answer :=
    match h with
    | [] => []
    | c :: t => let '(st', a) := step st c in a :: run st' t
    end.

  Lemma run_map st h : run st h = map answer_of h.
  Proof. revert st; induction h as [|c t IH]; intro st; [reflexivity|]. cbn [run step map]. rewrite IH. reflexivity. Qed.

  (* the answer to a call does not depend on what was called before or after it *)
  Lemma run_independent h1 c h2 : nth_error (run tt (h1 ++ c :: h2)) (length h1) = Some (answer_of c)
                                  /\ run tt [c] = [answer_of c].
  Proof.
    split; [|reflexivity]. rewrite run_map, map_app. cbn [map].
    rewrite nth_error_app2 by (rewrite map_length; apply Nat.le_refl).
    rewrite map_length, Nat.sub_diag. reflexivity.
  Qed.
End Hist.

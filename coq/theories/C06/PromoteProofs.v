(* C06 — mixed signedness at 64 bits: outside the known class the promoted search is the exact
   search, so the full statement holds; inside it completeness fails (witness). *)
From Coq Require Import Sorting.Permutation Sorting.Sorted Arith.
From EsVerif.Common Require Import Base.
From EsVerif.C06 Require Import Model Spec Lemmas MatchProofs DedupProofs Proofs.
Local Open Scope nat_scope.

Section Ext.
  Variable A : Type.
  Variable sltb ltb eqb : A -> A -> bool.

  Lemma match_with2_same str p st a1 a2 :
    match_with2 ltb ltb eqb str p st a1 a2 = match_with ltb eqb str p st a1 a2.
  Proof. reflexivity. Qed.

  Lemma gather_In {B} (l : list B) idx r : gather l idx = Some r -> forall x, In x r -> In x l.
  Proof.
    revert r; induction idx as [|i t IH]; intros r G x Hx; cbn [gather] in G.
    - inversion G; subst. destruct Hx.
    - destruct (nth_error l i) as [y|] eqn:E; [|discriminate]. destruct (gather l t) as [r'|]; [|discriminate].
      inversion G; subst. destruct Hx as [->|Hx]; [eapply nth_error_In; exact E | eapply IH; eauto].
  Qed.

  Lemma count_lt_ext (view a2 : list A) :
    (forall x v, In x view -> In v a2 -> sltb x v = ltb x v) ->
    map (count_lt sltb view) a2 = map (count_lt ltb view) a2.
  Proof.
    intro H. apply map_ext_in. intros v Hv. unfold count_lt. f_equal.
    induction view as [|x t IH]; [reflexivity|]. cbn [filter].
    rewrite (H x v (or_introl eq_refl) Hv). rewrite IH; [reflexivity|]. intros; apply H; [right|]; assumption.
  Qed.

  (* when the search order agrees with the dtype's order on (element of a1, element of a2) the
     promoted search changes nothing *)
  Lemma match_with2_ext str p st a1 a2 :
    (forall x v, In x a1 -> In v a2 -> sltb x v = ltb x v) ->
    match_with2 sltb ltb eqb str p st a1 a2 = match_with ltb eqb str p st a1 a2.
  Proof.
    intro H. unfold match_with2, match_with.
    destruct a1 as [|d1 t1]; [reflexivity|]. destruct a2 as [|d2 t2]; [reflexivity|].
    destruct (negb (nodupb eqb (d1 :: t1))); [reflexivity|].
    destruct p.
    - cbn [bind]. rewrite (count_lt_ext (d1 :: t1) (d2 :: t2) H). reflexivity.
    - destruct (ogather (d1 :: t1) st) as [view|e] eqn:G; [|reflexivity]. cbn [bind].
      rewrite (count_lt_ext view (d2 :: t2)); [reflexivity|].
      intros x v Hx Hv. apply H; [|exact Hv]. unfold ogather in G.
      destruct (gather (d1 :: t1) st) as [w|] eqn:G'; [|discriminate]. inversion G; subst w.
      eapply gather_In; eauto.
  Qed.
End Ext.

Lemma rltb_exact x v : round53 x = x -> round53 v = v -> rltb x v = zltb x v.
Proof. intros Ex Ev. unfold rltb, zltb. rewrite Ex, Ev. reflexivity. Qed.

(* the full statement for every integer pair outside the known class - in particular for
   mixed-signedness pairs whose elements are all exactly representable in binary64 (|x| <= 2^53,
   and beyond that the multiples of the spacing) *)
Lemma match_z_outside_known mixed str p a1 a2 :
  kf_mixed_sign_above_2p53 mixed a1 a2 = false ->
  NoDup a1 -> a1 <> [] -> a2 <> [] -> (p = true -> sorted zltb a1) ->
  (exists o, match_z mixed str p a1 a2 = Ok o /\ match_ok a1 a2 o)
  /\ (exists o, match_multi_z mixed str p a1 a2 = Ok o /\ match_ok a1 a2 o).
Proof.
  intros K ND N1 N2 S.
  assert (E : forall q, match_z mixed str q a1 a2 = match_ zltb zeqb str q a1 a2).
  { intro q. unfold match_z. destruct mixed; [|reflexivity]. unfold match_.
    apply match_with2_ext. intros x v Hx Hv. cbn [kf_mixed_sign_above_2p53 andb] in K.
    assert (R : forall y, In y (a1 ++ a2) -> round53 y = y).
    { intros y Hy. destruct (Z.eqb_spec (round53 y) y) as [Ey|Ey]; [exact Ey|]. exfalso.
      assert (X : existsb (fun x => negb (round53 x =? x)%Z) (a1 ++ a2) = true).
      { apply existsb_exists. exists y. split; [exact Hy|]. destruct (Z.eqb_spec (round53 y) y); [contradiction|reflexivity]. }
      rewrite X in K. discriminate. }
    apply rltb_exact; apply R; apply in_or_app; [left|right]; assumption. }
  split.
  - rewrite E. destruct p.
    + rewrite (match_presorted_same Z zltb zeqb z_total_order str a1 a2 N1 N2 (S eq_refl)).
      apply (match_correct Z zltb zeqb z_total_order); assumption.
    + apply (match_correct Z zltb zeqb z_total_order); assumption.
  - unfold match_multi_z. rewrite E. apply (match_correct Z zltb zeqb z_total_order); assumption.
Qed.

(* inside the class completeness fails: uint64 [2^53+1, 2^53+2, 2^53] against the same values
   as int64 - 2^53+1 rounds to 2^53, the search lands on the element 2^53, the exact equality
   filter drops the probe, and position 0 of the second array is not reported *)
Lemma match_z_mixed_refuted :
  exists a1 a2 o, NoDup a1 /\ a1 <> [] /\ a2 <> []
    /\ kf_mixed_sign_above_2p53 true a1 a2 = true
    /\ match_z true false false a1 a2 = Ok o /\ ~ match_ok a1 a2 o.
Proof.
  exists [9007199254740993; 9007199254740994; 9007199254740992]%Z,
         [9007199254740993; 9007199254740994; 9007199254740992]%Z, ([1; 2], [1; 2]).
  split; [apply (nodupb_NoDup Z zltb zeqb z_total_order); vm_compute; reflexivity|].
  split; [discriminate|]. split; [discriminate|]. split; [vm_compute; reflexivity|].
  split; [vm_compute; reflexivity|].
  intro H. apply (match_check_iff Z zltb zeqb z_total_order) in H. vm_compute in H. discriminate.
Qed.

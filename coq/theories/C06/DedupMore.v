(* C06 — unique(values=True) returns the distinct values in strictly ascending order, hence the
   SAME array whatever sorting permutation argsort chose among equal elements; unique / rem_dup
   with the model's own (verified) argsort need no sort contract; rem_dup depends only on the
   ORDER of the flags (any strictly monotone re-encoding - unsigned, extreme, float bit patterns -
   gives the same answer). *)
From Coq Require Import Sorting.Permutation Sorting.Sorted Arith.
From EsVerif.Common Require Import Base.
From EsVerif.C06 Require Import Model Spec Lemmas MatchProofs DedupProofs Proofs.
Local Open Scope nat_scope.

Lemma ssorted_remove_mid {B} (R : B -> B -> Prop) l1 x l2 :
  StronglySorted R (l1 ++ x :: l2) -> StronglySorted R (l1 ++ l2).
Proof.
  induction l1 as [|y t IH]; cbn [app]; intro S.
  - apply StronglySorted_inv in S. tauto.
  - apply StronglySorted_inv in S as [S Hy]. constructor; [apply IH; exact S|].
    rewrite Forall_forall in *. intros z Hz. apply Hy. apply in_app_or in Hz. apply in_or_app.
    destruct Hz as [Hz|Hz]; [left; exact Hz | right; right; exact Hz].
Qed.

Section More.
  Variable A : Type.
  Variable ltb eqb : A -> A -> bool.
  Hypothesis TO : total_order ltb eqb.

  Definition strict_asc (l : list A) : Prop := StronglySorted (fun x y => ltb x y = true) l.

  Lemma uloop_e_sorted rest : forall cur acc,
    sorted ltb (map snd (rev acc ++ cur :: rest)) -> sorted ltb (map snd (uloop_e A eqb cur acc rest)).
  Proof.
    induction rest as [|e t IH]; intros cur acc S; cbn [uloop_e].
    - cbn [rev]. exact S.
    - destruct (eqb (snd e) (snd cur)).
      + apply IH. unfold sorted in *. rewrite map_app in *. cbn [map] in *.
        change (snd cur :: snd e :: map snd t) with ([snd cur] ++ snd e :: map snd t) in S.
        rewrite app_assoc in S. apply ssorted_remove_mid in S. rewrite <- app_assoc in S. exact S.
      + apply IH. cbn [rev]. rewrite <- app_assoc. exact S.
  Qed.

  Lemma sorted_nodup_strict l : sorted ltb l -> NoDup l -> strict_asc l.
  Proof.
    induction 1 as [|x t St IH Hx]; intro ND; [constructor|]. inversion ND as [|? ? Nin NDt]; subst.
    constructor; [apply IH; exact NDt|]. rewrite Forall_forall in *. intros y Hy.
    apply (lt_of_le_neq _ ltb eqb TO); [apply Hx; exact Hy | intro E; subst; contradiction].
  Qed.

  Lemma strict_asc_ext l : forall l', strict_asc l -> strict_asc l' -> (forall x, In x l <-> In x l') -> l = l'.
  Proof.
    induction l as [|x t IH]; intros l' S S' E.
    - destruct l' as [|y t']; [reflexivity|]. exfalso. apply (E y). left; reflexivity.
    - destruct l' as [|y t']; [exfalso; apply (E x); left; reflexivity|].
      apply StronglySorted_inv in S as [St Hx]. apply StronglySorted_inv in S' as [St' Hy].
      rewrite Forall_forall in Hx, Hy.
      assert (x = y).
      { destruct (proj1 (E x) (or_introl eq_refl)) as [E1|I1]; [congruence|].
        destruct (proj2 (E y) (or_introl eq_refl)) as [E2|I2]; [congruence|].
        apply Hy in I1. apply Hx in I2. pose proof (ltb_asym _ ltb eqb TO _ _ I1). congruence. }
      subst y. f_equal. apply IH; [exact St | exact St'|].
      intro z; split; intro Hz.
      + destruct (proj1 (E z) (or_intror Hz)) as [E1|I1]; [|exact I1].
        subst z. apply Hx in Hz. rewrite (to_irrefl _ _ _ TO) in Hz. discriminate.
      + destruct (proj2 (E z) (or_intror Hz)) as [E1|I1]; [|exact I1].
        subst z. apply Hy in Hz. rewrite (to_irrefl _ _ _ TO) in Hz. discriminate.
  Qed.

  Lemma gather_entries (a : list A) (l : list (nat * A)) :
    (forall e, In e l -> nth_error a (fst e) = Some (snd e)) -> gather a (map fst l) = Some (map snd l).
  Proof.
    induction l as [|e t IH]; intro H; [reflexivity|]. cbn [map gather].
    rewrite (H e (or_introl eq_refl)), IH; [reflexivity|]. intros; apply H; right; assumption.
  Qed.

  (* unique(values=True): the distinct values, strictly ascending *)
  Theorem unique_values_ascending s a :
    a <> [] -> sorting_perm ltb s a ->
    exists vals, unique_values_with eqb s a = Ok vals /\ values_ok a vals /\ strict_asc vals.
  Proof.
    intros Na SP. destruct (unique_values_with_correct A ltb eqb TO s a Na SP) as [vals [E V]].
    exists vals. split; [exact E|]. split; [exact V|].
    destruct (sorting_perm_facts _ ltb s a SP) as [Ls _]. destruct SP as [_ [sarr [G S]]].
    pose proof (gather_length _ _ _ G) as Lr. pose proof (proj1 (gather_Forall2 _ _ _) G) as F.
    unfold unique_values_with, unique_with, ogather in E. rewrite G in E. cbn [bind] in E.
    destruct (combine s sarr) as [|[i0 v0] rest] eqn:Ec.
    { exfalso. assert (L : length (combine s sarr) = 0) by (rewrite Ec; reflexivity).
      rewrite combine_length in L. destruct a; [congruence|]. simpl in Ls. lia. }
    cbn [bind] in E.
    change (unique_loop eqb v0 [i0] rest)
      with (unique_loop eqb (snd (i0, v0)) (fst (i0, v0) :: map fst (@nil (nat * A))) rest) in E.
    rewrite uloop_e_fst in E.
    assert (Sall : sorted ltb (map snd ((i0, v0) :: rest))) by (rewrite <- Ec, map_snd_combine' by lia; exact S).
    destruct (uloop_e_spec A ltb eqb TO rest [(i0, v0)] (i0, v0) []) as [I [N _]].
    - exact Sall.
    - left; reflexivity.
    - intros x [].
    - simpl. constructor; [intros []|constructor].
    - intros e [Ee|[]]. subst. left; reflexivity.
    - intros e [Ee|[]]. subst. apply (to_irrefl _ _ _ TO).
    - change ([(i0, v0)] ++ rest) with ((i0, v0) :: rest) in I. rewrite <- Ec in I.
      rewrite (gather_entries a (uloop_e A eqb (i0, v0) [] rest)) in E.
      + inversion E; subst vals. apply sorted_nodup_strict; [|exact N].
        apply uloop_e_sorted. exact Sall.
      + intros [k x] He. apply I in He. exact (Forall2_combine_In _ _ _ _ _ F He).
  Qed.

  (* ... hence the same array for every sorting permutation numpy's argsort may return *)
  Theorem unique_values_determined s s' a :
    a <> [] -> sorting_perm ltb s a -> sorting_perm ltb s' a ->
    unique_values_with eqb s a = unique_values_with eqb s' a.
  Proof.
    intros Na SP SP'.
    destruct (unique_values_ascending s a Na SP) as [v [E [[_ V] S]]].
    destruct (unique_values_ascending s' a Na SP') as [v' [E' [[_ V'] S']]].
    rewrite E, E'. f_equal. apply strict_asc_ext; auto. intro x. rewrite <- V, <- V'. tauto.
  Qed.

  (* the model's own argsort is verified (MatchProofs.argsort_sorting_perm): no sort contract left *)
  Theorem unique_own_sort a : a <> [] ->
    exists keep vals, unique_with eqb (argsort ltb a) a = Ok keep /\ one_per_value a keep
      /\ unique_values_with eqb (argsort ltb a) a = Ok vals /\ values_ok a vals /\ strict_asc vals.
  Proof.
    intro Na. pose proof (argsort_sorting_perm A ltb eqb TO a) as SP.
    destruct (unique_with_correct A ltb eqb TO _ a Na SP) as [keep [E H]].
    destruct (unique_values_ascending _ a Na SP) as [vals [E' [V S]]].
    exists keep, vals. auto.
  Qed.

  Theorem rem_dup_own_sort a flag : a <> [] -> length flag = length a ->
    exists keep, rem_dup_with eqb (argsort ltb a) a flag = Ok keep /\ rem_dup_ok a flag keep.
  Proof. intros Na L. apply (rem_dup_with_correct A ltb eqb TO); auto. apply (argsort_sorting_perm A ltb eqb TO). Qed.

  (* --------------------------------- rem_dup sees only the ORDER of the flags *)
  Lemma rd_loop_flag_map (h : Z -> Z) (Hh : forall x y, (x < y)%Z <-> (h x < h y)%Z) rest :
    forall val f cur acc,
    rd_loop eqb val (h f) cur acc (map (fun e => (fst e, (fst (snd e), h (snd (snd e))))) rest)
    = rd_loop eqb val f cur acc rest.
  Proof.
    induction rest as [|[i [x fx]] t IH]; intros val f cur acc; [reflexivity|].
    cbn [map rd_loop fst snd]. destruct (eqb x val); [|apply IH].
    assert (E : (h f <? h fx)%Z = (f <? fx)%Z).
    { destruct (Z.ltb_spec f fx) as [L|G]; [apply Z.ltb_lt; apply (proj1 (Hh f fx)); exact L|].
      apply Z.ltb_ge. destruct (Z_lt_le_dec (h f) (h fx)) as [Lt|?]; [|assumption]. apply (proj2 (Hh f fx)) in Lt. lia. }
    rewrite E. destruct (f <? fx)%Z; apply IH.
  Qed.

  Lemma combine_map_r {B C D} (g : C -> D) (l : list B) : forall l' : list C,
    combine l (map g l') = map (fun p => (fst p, g (snd p))) (combine l l').
  Proof. induction l as [|x t IH]; intros [|y t']; cbn; try reflexivity. f_equal. apply IH. Qed.

  Lemma gather_map {B C} (h : B -> C) l idx : gather (map h l) idx = option_map (map h) (gather l idx).
  Proof.
    induction idx as [|i t IH]; [reflexivity|]. cbn [gather]. rewrite nth_error_map, IH.
    destruct (nth_error l i); [|reflexivity]. destruct (gather l t); reflexivity.
  Qed.

  Theorem rem_dup_flag_order (h : Z -> Z) s a flag :
    (forall x y, (x < y)%Z <-> (h x < h y)%Z) ->
    rem_dup_with eqb s a (map h flag) = rem_dup_with eqb s a flag.
  Proof.
    intro Hh. unfold rem_dup_with. destruct (length a =? 1); [reflexivity|].
    unfold ogather. destruct (gather a s) as [sarr|]; [|reflexivity]. cbn [bind].
    rewrite gather_map. destruct (gather flag s) as [sflag|]; [|reflexivity]. cbn [option_map bind].
    assert (Ec : combine (seq 0 (length a)) (combine sarr (map h sflag))
                 = map (fun e => (fst e, (fst (snd e), h (snd (snd e))))) (combine (seq 0 (length a)) (combine sarr sflag))).
    { rewrite (combine_map_r h sarr sflag), (combine_map_r (fun p : A * Z => (fst p, h (snd p)))). reflexivity. }
    rewrite Ec. destruct (combine (seq 0 (length a)) (combine sarr sflag)) as [|[i0 [v0 f0]] rest]; [reflexivity|].
    cbn [map fst snd]. rewrite (rd_loop_flag_map h Hh). reflexivity.
  Qed.
End More.

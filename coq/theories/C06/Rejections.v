(* C06 — exactly which inputs match / match_multi reject, and with which error class. *)
From Coq Require Import Sorting.Permutation Sorting.Sorted Arith.
From EsVerif.Common Require Import Base.
From EsVerif.C06 Require Import Model Spec Lemmas MatchProofs DedupProofs Proofs.
Local Open Scope nat_scope.

Section Rej.
  Variable A : Type.
  Variable ltb eqb : A -> A -> bool.
  Hypothesis TO : total_order ltb eqb.

  Lemma match_rejections str a1 a2 :
    let r := match_ ltb eqb str false a1 a2 in
    (r = Err EIndex <-> a1 = [])
    /\ (r = Err EValue <-> a1 <> [] /\ (a2 = [] \/ ~ NoDup a1))
    /\ ((exists o, r = Ok o) <-> a1 <> [] /\ a2 <> [] /\ NoDup a1)
    /\ (forall e, r = Err e -> e = EIndex \/ e = EValue)
    /\ match_multi ltb eqb str true a1 a2 = r.
  Proof.
    cbv zeta. destruct a1 as [|d1 t1].
    - cbn. split; [tauto|]. split; [split; [discriminate | intros [X _]; congruence]|].
      split; [split; [intros [o X]; discriminate | intros [X _]; congruence]|].
      split; [intros e X; inversion X; left; reflexivity | reflexivity].
    - destruct a2 as [|d2 t2].
      + cbn. split; [split; [discriminate | discriminate]|].
        split; [split; [intros _; split; [discriminate | left; reflexivity] | reflexivity]|].
        split; [split; [intros [o X]; discriminate | intros [_ [X _]]; congruence]|].
        split; [intros e X; inversion X; right; reflexivity | reflexivity].
      + destruct (nodupb eqb (d1 :: t1)) eqn:N.
        * assert (ND : NoDup (d1 :: t1)) by (apply (nodupb_NoDup _ ltb eqb TO); exact N).
          destruct (match_correct A ltb eqb TO str (d1 :: t1) (d2 :: t2) ND) as [o [E _]]; try discriminate.
          unfold match_multi. rewrite E.
          split; [split; discriminate|].
          split; [split; [discriminate | intros [_ [X|X]]; [discriminate | contradiction]]|].
          split; [split; [intros _; repeat split; [discriminate | discriminate | exact ND] | intros _; exists o; reflexivity]|].
          split; [intros e X; discriminate | reflexivity].
        * assert (ND : ~ NoDup (d1 :: t1)) by (intro X; apply (nodupb_NoDup _ ltb eqb TO) in X; congruence).
          unfold match_multi.
          rewrite (match_rejects_dups A ltb eqb TO str false (d1 :: t1) (d2 :: t2) ND) by discriminate.
          split; [split; discriminate|].
          split; [split; [intros _; split; [discriminate | right; exact ND] | reflexivity]|].
          split; [split; [intros [o X]; discriminate | intros [_ [_ X]]; contradiction]|].
          split; [intros e X; inversion X; right; reflexivity | reflexivity].
  Qed.
End Rej.

(* C06 — the skeletons of match / match_multi / unique / rem_dup with the parts that
   harness/props/c06_translate.py reads out of the SOURCE of the tree under check left open as
   parameters (records [mparams], [mmparams], [uparams], [rparams]):

     match      ORDER of `el = arr1[K]` and the emptiness guard, default of presorted=, index of the element whose class is tested, the classes named in
                the isinstance tests and the two values is_string is set to, operators / constants /
                connective / exception class of the emptiness guard, operator and exception class of the
                uniqueness guard, polarity of both `if not presorted`, the searchsorted side, connective
                and operator of the clamp condition, operator of `sub1 == arr1.size` and the constant of
                `arr1.size - 1`, the operator of both equality filters
     match_multi what is passed on as presorted= (a constant or the caller's value), default
     unique     start element (s[k] or a literal index) of `val` and of keep[0], loop start, loop
                test, the comparison with val, all step constants and slice bounds, polarity of values
     rem_dup    the n == 1 guard (operator, constant, returned scalar), start entries of val and f,
                loop start, the value comparison, the FLAG comparison (tie rule: `>` keeps the first
                of equal flags in sort order, `>=` the last), step constants, slice bounds, polarity

   Interpreted parameters change the function computed; "pinned" parameters (step constants, slice
   bounds, the while test) make the skeleton [unmodelled] unless they have the one value the
   recursion scheme stands for.  Gen.v (generated) holds the values found in the source; Tie.v
   proves skeleton(Gen) = Model, so a change of any of these parts of the source changes a
   statement that is re-checked on every run.  No proofs in this file. *)
From EsVerif.Common Require Import Base.
From EsVerif.C06 Require Import Model Forms.
Local Open Scope nat_scope.

Inductive cmpop := CEq | CNe | CLt | CLe | CGt | CGe.
Definition cmp_nat (c : cmpop) (x y : nat) : bool :=
  match c with
  | CEq => x =? y | CNe => negb (x =? y) | CLt => x <? y | CLe => x <=? y | CGt => y <? x | CGe => y <=? x
  end.
Definition cmp_Z (c : cmpop) (x y : Z) : bool :=
  match c with
  | CEq => (x =? y)%Z | CNe => negb (x =? y)%Z | CLt => (x <? y)%Z | CLe => (x <=? y)%Z
  | CGt => (y <? x)%Z | CGe => (y <=? x)%Z
  end.

Inductive conn := COr | CAnd.
Inductive side := SLeft | SRight.
Inductive passarg := PassConst (b : bool) | PassVar.
(* `arr[s[k]]` or `arr[k]` *)
Inductive ustart := UViaSort (k : nat) | UDirect (k : nat).

Definition unmodelled {B} : result B := Err EOther.

(* index-array expressions of match's equality filter and result: st1, sub1, sub2, x[y] *)
Inductive ix := XSt1 | XSub1 | XSub2 | XAt (x y : ix).
Fixpoint eval_ix (st1 : option (list nat)) (sub1 sub2 : list nat) (e : ix) : result (list nat) :=
  match e with
  | XSt1 => match st1 with Some s => Ok s | None => Err EType end        (* None[...] *)
  | XSub1 => Ok sub1
  | XSub2 => Ok sub2
  | XAt x y => do a <- eval_ix st1 sub1 sub2 x; do b <- eval_ix st1 sub1 sub2 y; ogather a b
  end.

(* isinstance(el, C1) or isinstance(el, C2): which classes are named *)
Record strclasses := mkCls { sc_str : bool; sc_bytes : bool }.
Definition is_string_g (c : strclasses) (k : elclass) : bool :=
  match k with ClsStr => sc_str c | ClsBytes => sc_bytes c | ClsNum => false end.

Record mparams := mkM {
  mp_presorted_default : bool;
  mp_el_index : nat;                       (* el = arr1[K] *)
  mp_classes : strclasses;
  mp_str_then : bool; mp_str_else : bool;  (* is_string = True / else: is_string = False *)
  mp_empty_op1 : cmpop; mp_empty_k1 : nat; mp_empty_conn : conn; mp_empty_op2 : cmpop; mp_empty_k2 : nat;
  mp_empty_err : err;
  mp_uniq_op : cmpop; mp_uniq_err : err;   (* if np.unique(arr1).size OP arr1.size: raise *)
  mp_sort_if_not : bool;                   (* `if not presorted: st1 = argsort` (true) / `if presorted:` (false) *)
  mp_side : side;
  mp_clamp_conn : conn; mp_clamp_op : cmpop;   (* if is_string CONN arr2.max() OP arr1.max(): *)
  mp_bad_op : cmpop; mp_clamp_minus : nat;     (* sub1[sub1 OP arr1.size] = arr1.size - K *)
  mp_filter_if_not : bool;
  mp_eq_sorted : cmpop; mp_eq_presorted : cmpop;
  mp_el_first : bool;                      (* statement ORDER: `el = arr1[K]` (+ is_string) before the emptiness guard (true) or after it *)
  (* the index EXPRESSIONS, translated: np.where(arr1[F] == arr2); sub1 = R; per branch; return order *)
  mp_f_sorted : ix; mp_r_sorted : ix; mp_f_presorted : ix; mp_r_presorted : ix;
  mp_ret_swap : bool                       (* return (sub2, sub1) instead of (sub1, sub2) *)
}.

Record mmparams := mkMM { mm_presorted_default : bool; mm_pass : passarg }.

Record uparams := mkU {
  up_values_default : bool;
  up_val_start : ustart; up_keep0_pos : nat; up_keep0_start : ustart;
  up_i0 : nat; up_nkeep0 : nat; up_while_op : cmpop; up_ne_op : cmpop;
  up_nkeep_step : nat; up_i_step : nat; up_slice_lo : nat; up_slice_plus : nat;
  up_values_if_not : bool
}.

Record rparams := mkR {
  rp_values_default : bool;
  rp_single_op : cmpop; rp_single_k : nat; rp_single_if_not : bool; rp_single_ret_v : nat; rp_single_ret : nat;
  rp_nkeep0 : nat; rp_val0 : nat; rp_f0 : nat; rp_range_lo : nat;
  rp_ne_op : cmpop; rp_flag_op : cmpop; rp_nkeep_step : nat; rp_slice_lo : nat; rp_slice_plus : nat;
  rp_values_if_not : bool;
  (* translated: `keep[nkeep] = i` or `= s[i]` in the new-value / larger-flag branch; is `s.sort()` there *)
  rp_keep_new_via_s : bool; rp_keep_upd_via_s : bool; rp_sort_result : bool
}.

Section Skel.
  Variable A : Type.
  Variable ltb eqb : A -> A -> bool.

  Definition cmp_A (c : cmpop) (x y : A) : bool :=
    match c with
    | CEq => eqb x y | CNe => negb (eqb x y) | CLt => ltb x y | CGt => ltb y x
    | CLe => negb (ltb y x) | CGe => negb (ltb x y)
    end.

  Fixpoint cmp_mask (c : cmpop) (l1 l2 : list A) : list bool :=
    match l1, l2 with
    | x :: t1, y :: t2 => cmp_A c x y :: cmp_mask c t1 t2
    | _, _ => []
    end.

  (* np.unique(arr1): one representative per value *)
  Fixpoint dedup (l : list A) : list A :=
    match l with
    | [] => []
    | x :: t => if memb eqb x t then dedup t else x :: dedup t
    end.

  (* searchsorted(side='right') on a sorted array: number of elements <= v *)
  Definition count_le (view : list A) (v : A) : nat := length (filter (fun x => negb (ltb v x)) view).
  Definition search (sd : side) (view : list A) (v : A) : nat :=
    match sd with SLeft => count_lt ltb view v | SRight => count_le view v end.

  Definition conn_short (c : conn) (x : bool) (y : result bool) : result bool :=
    match c with
    | COr => if x then Ok true else y
    | CAnd => if x then y else Ok false
    end.

  (* ------------------------------------------------------------------ match *)
  Definition match_g (P : mparams) (k : elclass) (presorted : bool) (st : list nat) (a1 a2 : list A)
    : result (list nat * list nat) :=
    let is_string := if is_string_g (mp_classes P) k then mp_str_then P else mp_str_else P in
    let e1 := cmp_nat (mp_empty_op1 P) (length a1) (mp_empty_k1 P) in
    let e2 := cmp_nat (mp_empty_op2 P) (length a2) (mp_empty_k2 P) in
    (* `el = arr1[K]`: IndexError on an array without element K *)
    let el (kont : result (list nat * list nat)) :=
      match nth_error a1 (mp_el_index P) with None => Err EIndex | Some _ => kont end in
    (* the emptiness guard *)
    let guard (kont : result (list nat * list nat)) :=
      if (match mp_empty_conn P with COr => e1 || e2 | CAnd => e1 && e2 end) then Err (mp_empty_err P) else kont in
    let rest :=
      if cmp_nat (mp_uniq_op P) (length (dedup a1)) (length a1) then Err (mp_uniq_err P)
      else
        let n := length a1 in
        (* if [not] presorted: st1 = np.argsort(arr1) else: st1 = None *)
        let st1 := if xorb (mp_sort_if_not P) presorted then Some st else None in
        do view <- (match st1 with Some s => ogather a1 s | None => Ok a1 end);
        let sub1 := map (search (mp_side P) view) a2 in
        do clamp <- conn_short (mp_clamp_conn P) is_string
                      (match a1, a2 with
                       | d1 :: _, d2 :: _ => Ok (cmp_A (mp_clamp_op P) (maxl ltb d2 a2) (maxl ltb d1 a1))
                       | _, _ => Err EValue                             (* max() of an empty array *)
                       end);
        let sub1 := if clamp
                    then map (fun j => if cmp_nat (mp_bad_op P) j n then n - mp_clamp_minus P else j) sub1
                    else sub1 in
        let ret (o1 sub2 : list nat) := if mp_ret_swap P then (sub2, o1) else (o1, sub2) in
        if xorb (mp_filter_if_not P) presorted then
          do i1 <- eval_ix st1 sub1 [] (mp_f_sorted P);                  (* arr1[F] *)
          do vals <- ogather a1 i1;
          let sub2 := where_ (cmp_mask (mp_eq_sorted P) vals a2) in
          do o1 <- eval_ix st1 sub1 sub2 (mp_r_sorted P);                (* sub1 = R *)
          Ok (ret o1 sub2)
        else
          do i1 <- eval_ix st1 sub1 [] (mp_f_presorted P);
          do vals <- ogather a1 i1;
          let sub2 := where_ (cmp_mask (mp_eq_presorted P) vals a2) in
          do o1 <- eval_ix st1 sub1 sub2 (mp_r_presorted P);
          Ok (ret o1 sub2) in
    if mp_el_first P then el (guard rest) else guard (el rest).

  (* match_multi: `return match(arr1input, arr2input, presorted=<const or the caller's>)` *)
  Definition match_multi_g (Q : mmparams) (P : mparams) (k : elclass) (presorted : bool) (st : list nat)
             (a1 a2 : list A) :=
    match_g P k (match mm_pass Q with PassConst b => b | PassVar => presorted end) st a1 a2.

  (* ----------------------------------------------------------------- unique *)
  Fixpoint unique_loop_g (ne : cmpop) (val : A) (acc : list nat) (rest : list (nat * A)) : list nat :=
    match rest with
    | [] => rev acc
    | (ind, x) :: t =>
        if cmp_A ne x val then unique_loop_g ne x (ind :: acc) t      (* if arr[ind] OP val: *)
        else unique_loop_g ne val acc t
    end.

  Definition start_index (u : ustart) (s : list nat) : option nat :=
    match u with UViaSort k => nth_error s k | UDirect k => Some k end.

  Definition u_pinned (P : uparams) : bool :=
    (up_keep0_pos P =? 0) && (up_nkeep0 P =? 0) && (up_nkeep_step P =? 1) && (up_i_step P =? 1)
    && (up_slice_lo P =? 0) && (up_slice_plus P =? 1)
    && match up_while_op P with CLt => true | _ => false end.

  Definition unique_g (P : uparams) (s : list nat) (a : list A) : result (list nat) :=
    if negb (u_pinned P) then unmodelled
    else
      do sarr <- ogather a s;
      match start_index (up_val_start P) s, start_index (up_keep0_start P) s with
      | Some iv, Some ik =>
          match nth_error a iv with
          | None => Err EIndex
          | Some v0 => Ok (unique_loop_g (up_ne_op P) v0 [ik] (skipn (up_i0 P) (combine s sarr)))
          end
      | _, _ => Err EIndex
      end.

  Definition unique_call_g (P : uparams) (zero_d : bool) (s : list nat) (a : list A) (values : bool)
    : result (uout A) :=
    if zero_d then
      (* arr[s[k]] / arr[k] on a 0-d array raises IndexError whatever k is *)
      if negb (u_pinned P) then unmodelled else Err EIndex
    else
      do keep <- unique_g P s a;
      if xorb (up_values_if_not P) values then do v <- ogather a keep; Ok (UVals v)
      else Ok (UIdx keep).

  (* ---------------------------------------------------------------- rem_dup *)
  Fixpoint rd_loop_g (kn ku : nat -> nat) (ne fop : cmpop) (val : A) (f : Z) (cur : nat) (acc : list nat)
           (rest : list (nat * (A * Z))) : list nat :=
    match rest with
    | [] => rev (cur :: acc)
    | (i, (x, fx)) :: t =>
        if cmp_A ne x val then rd_loop_g kn ku ne fop x fx (kn i) (cur :: acc) t   (* if sarr[i] OP val: ... keep[nkeep] = KN(i) *)
        else if cmp_Z fop fx f then rd_loop_g kn ku ne fop val fx (ku i) acc t     (* elif sflag[i] OP f: ... keep[nkeep] = KU(i) *)
        else rd_loop_g kn ku ne fop val f cur acc t
    end.

  Definition r_pinned (P : rparams) : bool :=
    (rp_nkeep0 P =? 0) && (rp_nkeep_step P =? 1) && (rp_slice_lo P =? 0) && (rp_slice_plus P =? 1).

  (* (python scalar returned?, indices, values) *)
  Definition rem_dup_call_g (P : rparams) (s : list nat) (a : list A) (flag : list Z) (values : bool)
    : result (rdout A) :=
    if negb (r_pinned P) then unmodelled
    else
      let n := length a in
      if cmp_nat (rp_single_op P) n (rp_single_k P) then
        if xorb (rp_single_if_not P) values then Ok (true, [rp_single_ret_v P], Some a)
        else Ok (true, [rp_single_ret P], None)
      else
        do sarr <- ogather a s;
        do sflag <- ogather flag s;
        let ents := combine (seq 0 n) (combine sarr sflag) in
        match nth_error sarr (rp_val0 P), nth_error sflag (rp_f0 P), ents with
        | Some v0, Some f0, _ :: _ =>
            (* keep is zero-initialised: keep[0] = 0 until overwritten *)
            let via (b : bool) (i : nat) := if b then nth i s 0 else i in
            do kept <- ogather s (rd_loop_g (via (rp_keep_new_via_s P)) (via (rp_keep_upd_via_s P)) (rp_ne_op P) (rp_flag_op P)
                                            v0 f0 0 [] (skipn (rp_range_lo P) ents));          (* s = s[keep] *)
            let keep := if rp_sort_result P then sort_nat kept else kept in                    (* s.sort() *)
            if xorb (rp_values_if_not P) values then do v <- ogather a keep; Ok (false, keep, Some v)
            else Ok (false, keep, None)
        | _, _, _ => Err EIndex
        end.
End Skel.

Arguments cmp_A {A}. Arguments cmp_mask {A}. Arguments dedup {A}. Arguments count_le {A}. Arguments search {A}.
Arguments match_g {A}. Arguments match_multi_g {A}. Arguments unique_loop_g {A}. Arguments unique_g {A}.
Arguments unique_call_g {A}. Arguments rd_loop_g {A}. Arguments rem_dup_call_g {A}.

(* the values the hand model Model.v / Forms.v is written for (the repaired tree); Tie.v proves
   that Gen.v's values give the same functions, RefTie below that these do *)
Definition ref_match : mparams :=
  mkM false 0 (mkCls true true) true false CEq 0 COr CEq 0 EValue CNe EValue true SLeft COr CGt CEq 1 true CEq CEq true
      (XAt XSt1 XSub1) (XAt XSt1 (XAt XSub1 XSub2)) XSub1 (XAt XSub1 XSub2) false.
Definition ref_match_multi : mmparams := mkMM false (PassConst false).
Definition ref_unique : uparams := mkU false (UViaSort 0) 0 (UViaSort 0) 1 0 CLt CNe 1 1 0 1 false.
(* the code as found (commit 29e445c): val = arr[0], keep[0] left at its zero initialisation *)
Definition asfound_unique : uparams := mkU false (UDirect 0) 0 (UDirect 0) 1 0 CLt CNe 1 1 0 1 false.
Definition ref_rem_dup : rparams := mkR false CEq 1 false 0 0 0 0 0 1 CNe CGt 1 0 1 false false false true.

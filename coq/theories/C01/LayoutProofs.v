(* C01/LayoutProofs.v — the writer and the memory layout of the array it is given. *)
From Coq Require Import ZArith List Bool NArith Lia ZifyBool ZifyNat.
From Coq.Strings Require Import Byte String.
From EsVerif.Common Require Import Base Bytes.
From EsVerif.C01 Require Import Framing FramingProofs Model Layout.
Import ListNotations.
Open Scope Z_scope.
Open Scope list_scope.
Notation length := List.length.

(* ---------------------------------------------------------------- sizes *)
Lemma flat_map_const_length {A B} (f : A -> list B) k l :
  (forall x, length (f x) = k) -> length (flat_map f l) = (length l * k)%nat.
Proof.
  intro H. induction l as [|x t IH]; [reflexivity|].
  cbn [flat_map length]. rewrite app_length, H, IH. lia.
Qed.

Lemma offsets_length dims : forall b, length (offsets dims b) = nprod (map fst dims).
Proof.
  induction dims as [|[n s] t IH]; intro b; [reflexivity|].
  cbn [offsets map fst nprod fold_right].
  rewrite (flat_map_const_length _ (nprod (map fst t))) by (intro x; apply IH).
  rewrite seq_length. reflexivity.
Qed.

Lemma c_dims_fst ns item : map fst (c_dims ns item) = ns.
Proof. induction ns as [|n t IH]; [reflexivity|]. cbn [c_dims map fst]. rewrite IH. reflexivity. Qed.

Lemma view_rows_count v : length (view_rows v) = view_size v.
Proof. unfold view_rows, view_size. apply map_length. Qed.

Lemma ascontiguous_size v : view_size (ascontiguous v) = view_size v.
Proof.
  unfold view_size, view_offsets, ascontiguous. cbn [v_dims v_start].
  rewrite !offsets_length, c_dims_fst. reflexivity.
Qed.

(* ---------------------------------------------------------------- slices *)
Lemma slice_length buf o len :
  0 <= o -> o + Z.of_nat len <= Z.of_nat (length buf) -> length (slice buf o len) = len.
Proof.
  intros H0 H1. unfold slice. replace (o <? 0) with false by lia.
  rewrite firstn_length, skipn_length. lia.
Qed.

Lemma slice_0_all (l : list byte) : slice l 0 (length l) = l.
Proof. unfold slice. cbn. apply firstn_all. Qed.

Lemma view_rows_item v : in_bounds v = true ->
  Forall (fun r => length r = v_item v) (view_rows v).
Proof.
  unfold in_bounds, view_rows. intro H. rewrite forallb_forall in H.
  apply Forall_forall. intros r Hr. apply in_map_iff in Hr as [o [<- Ho]].
  specialize (H o Ho). apply slice_length; lia.
Qed.

(* ---------------------------------------------------------------- the repaired writer *)
(* After numpy.ascontiguousarray the single fwrite writes exactly the rows of the table, in
   order, for EVERY layout of the array that was passed in. *)
Theorem write_any_layout v : in_bounds v = true ->
  recfile_write_view v = bin_write (view_rows v).
Proof.
  intro IB. unfold recfile_write_view, write_buffer. rewrite ascontiguous_size.
  cbn [ascontiguous v_buf v_start v_item]. unfold bin_write.
  replace (view_size v * v_item v)%nat with (length (concat (view_rows v))).
  - apply slice_0_all.
  - rewrite (concat_length_rows (v_item v)) by (apply view_rows_item; exact IB).
    rewrite view_rows_count. reflexivity.
Qed.

(* ---------------------------------------------------------------- the writer as found *)
Lemma skipn_add {A} (l : list A) : forall a b, skipn (a + b) l = skipn b (skipn a l).
Proof.
  intros a; revert l. induction a as [|a IH]; intros l b; [reflexivity|].
  destruct l as [|x t]; [cbn; rewrite skipn_nil; reflexivity|]. cbn [Nat.add skipn]. apply IH.
Qed.

(* consecutive slices of equal length *)
Lemma concat_slices buf sz : forall n b,
  0 <= b -> b + Z.of_nat (n * sz) <= Z.of_nat (length buf) ->
  concat (map (fun i => slice buf (b + Z.of_nat i * Z.of_nat sz) sz) (seq 0 n)) = slice buf b (n * sz).
Proof.
  induction n as [|n IH]; intros b H0 H1.
  - cbn. unfold slice. replace (b <? 0) with false by lia. reflexivity.
  - cbn [seq map concat]. rewrite <- seq_shift, map_map.
    rewrite (map_ext _ (fun i => slice buf ((b + Z.of_nat sz) + Z.of_nat i * Z.of_nat sz) sz))
      by (intro i; f_equal; lia).
    rewrite IH by lia.
    replace (b + Z.of_nat 0 * Z.of_nat sz) with b by lia.
    unfold slice. replace (b <? 0) with false by lia. replace (b + Z.of_nat sz <? 0) with false by lia.
    replace (Z.to_nat (b + Z.of_nat sz)) with (Z.to_nat b + sz)%nat by lia.
    rewrite skipn_add. set (l := skipn (Z.to_nat b) buf).
    replace (S n * sz)%nat with (sz + n * sz)%nat by lia.
    rewrite <- (firstn_skipn sz (firstn (sz + n * sz) l)).
    rewrite firstn_firstn, Nat.min_l by lia. f_equal.
    rewrite skipn_firstn_comm. f_equal. lia.
Qed.

Lemma concat_flat_map {A B} (g : A -> list B) (f : nat -> list A) l :
  concat (map g (flat_map f l)) = concat (map (fun i => concat (map g (f i))) l).
Proof.
  induction l as [|x t IH]; [reflexivity|].
  cbn [flat_map map concat]. rewrite map_app, concat_app, IH. reflexivity.
Qed.

Lemma nprod_cons n t : nprod (n :: t) = (n * nprod t)%nat.
Proof. reflexivity. Qed.

Lemma contiguous_rows buf item : forall ns b,
  0 <= b -> b + Z.of_nat (nprod ns * item) <= Z.of_nat (length buf) ->
  concat (map (fun o => slice buf o item) (offsets (c_dims ns item) b)) = slice buf b (nprod ns * item).
Proof.
  induction ns as [|n t IH]; intros b H0 H1.
  - cbn [c_dims offsets map concat nprod fold_right]. rewrite app_nil_r. f_equal. lia.
  - cbn [c_dims offsets]. rewrite concat_flat_map. rewrite nprod_cons in *.
    set (sz := (nprod t * item)%nat) in *.
    rewrite (map_ext_in _ (fun i => slice buf (b + Z.of_nat i * Z.of_nat sz) sz)).
    + replace (n * nprod t * item)%nat with (n * sz)%nat by (subst sz; lia).
      apply concat_slices; [exact H0|]. subst sz. nia.
    + intros i Hi. apply in_seq in Hi. apply IH; subst sz; nia.
Qed.

(* The writer of the unchanged tree is right for C-contiguous arrays (so the copy that the
   repair inserts changes nothing for them) ... *)
Theorem write_v0_contiguous v : is_c_contiguous v = true -> in_bounds v = true ->
  0 <= v_start v -> v_start v + Z.of_nat (view_size v * v_item v) <= Z.of_nat (length (v_buf v)) ->
  recfile_write_view_v0 v = bin_write (view_rows v).
Proof.
  intros C IB H0 H1. unfold recfile_write_view_v0, write_buffer, bin_write, view_rows, view_offsets in *.
  unfold is_c_contiguous in C.
  assert (E : v_dims v = c_dims (map fst (v_dims v)) (v_item v)).
  { apply (list_eqb_spec (fun a b => Nat.eqb (fst a) (fst b) && (snd a =? snd b))); [|exact C].
    intros [a1 a2] [b1 b2]. cbn [fst snd]. split.
    - intro X. apply andb_true_iff in X as [X1 X2]. apply Nat.eqb_eq in X1. apply Z.eqb_eq in X2. congruence.
    - intro X. inversion X; subst. rewrite Nat.eqb_refl, Z.eqb_refl. reflexivity. }
  unfold view_size, view_offsets in *. rewrite offsets_length in *.
  rewrite E at 2. symmetry. apply contiguous_rows; assumption.
Qed.

(* ... and wrong for the others: data[::2] of a four-row table writes rows 0,1 instead of 0,2. *)
Definition w_strided : ndview :=
  {| v_buf := [x01; x02; x03; x04]; v_start := 0; v_dims := [(2%nat, 2)]; v_item := 1 |}.
(* a transposed 2x2 table *)
Definition w_transposed : ndview :=
  {| v_buf := [x01; x02; x03; x04]; v_start := 0; v_dims := [(2%nat, 1); (2%nat, 2)]; v_item := 1 |}.

Lemma unrepaired_write_refuted :
  exists v, in_bounds v = true /\ view_rows v <> []
            /\ recfile_write_view_v0 v <> bin_write (view_rows v)
            /\ recfile_write_view v = bin_write (view_rows v).
Proof.
  exists w_strided. split; [reflexivity|]. split; [discriminate|]. split; [|reflexivity].
  vm_compute. intro X. discriminate X.
Qed.

Lemma unrepaired_write_refuted_transposed :
  exists v, in_bounds v = true /\ view_rows v <> []
            /\ recfile_write_view_v0 v <> bin_write (view_rows v)
            /\ recfile_write_view v = bin_write (view_rows v).
Proof.
  exists w_transposed. split; [reflexivity|]. split; [discriminate|]. split; [|reflexivity].
  vm_compute. intro X. discriminate X.
Qed.

(* ---------------------------------------------------------------- the self-describing file *)
Lemma sfile_write_view_eq (pyval : Type) v_str v_descr pformat hdr dt v : in_bounds v = true ->
  sfile_write_view pyval v_str v_descr pformat hdr dt v
  = sfile_write pyval v_str v_descr pformat hdr dt (view_rows v).
Proof.
  intro IB. unfold sfile_write_view, sfile_write, sfile_file.
  rewrite write_any_layout by exact IB. rewrite view_rows_count. reflexivity.
Qed.

(* C01/Model.v — executable model of the binary record-file round trip.  NO proofs here.

   Framing.v holds the byte-level part (size line, header framing, END scanner, row reads).
   This file adds the Python layer of esutil/sfile.py and the entry points of the property:

     SFile._make_header (520-543), SFile._write_header (545-579), SFile.write (394-418),
     SFile.open / read_header / read (172-236, 740-769, 420-476), _match_key (1076-1096),
     recfile.write / recfile.read / Recfile (Util.py 15-38, 155-243, 334-396, 433-457),
     io.write / io.read for *.rec (io.py 582-632: thin wrappers of sfile.write / sfile.read).

   pprint.pformat, eval and numpy.dtype(descr) are NOT modelled: they are the Section
   variables [pformat], [pyeval], [np_dtype].  Header values are an abstract type [pyval].
   The theorems carry, as explicit premises, the contract H_pf on the concrete header of the
   case; the harness monitors exactly those premises on every case it runs. *)
From Coq Require Import ZArith List Bool NArith.
From Coq.Strings Require Import Byte String.
From EsVerif.Common Require Import Base Bytes.
From EsVerif.C01 Require Import Framing.
Import ListNotations.
Open Scope Z_scope.
Open Scope list_scope.
Notation length := List.length.

(* SFILE_VERSION *)
Definition sfile_version : list byte := B "1.0".

Section PythonLayer.
  Variable pyval : Type.                          (* finite Python literal values *)
  Variable v_str : list byte -> pyval.            (* a str value *)
  Variable v_int : Z -> pyval.                    (* an int value *)
  Variable v_descr : dtype -> pyval.              (* data.dtype.descr as a Python value *)
  Variable np_dtype : pyval -> option dtype.      (* numpy.dtype(descr); None = raises *)

  (* a dict with str keys, in insertion order *)
  Definition hdict := list (list byte * pyval).

  Variable pformat : hdict -> list byte.          (* pprint.pformat(d).encode() *)
  Variable pyeval : list byte -> option hdict.    (* eval(text); None = raises *)

  Fixpoint dget (k : list byte) (h : hdict) : option pyval :=
    match h with
    | [] => None
    | (k', v) :: t => if bytes_eqb k k' then Some v else dget k t
    end.
  Definition has (k : list byte) (h : hdict) : bool :=
    match dget k h with Some _ => true | None => false end.
  Fixpoint ddel (k : list byte) (h : hdict) : hdict :=
    match h with
    | [] => []
    | (k', v) :: t => if bytes_eqb k k' then ddel k t else (k', v) :: ddel k t
    end.
  Fixpoint dset (k : list byte) (v : pyval) (h : hdict) : hdict :=
    match h with
    | [] => [(k, v)]
    | (k', v') :: t => if bytes_eqb k k' then (k, v) :: t else (k', v') :: dset k v t
    end.
  Definition keys (h : hdict) : list (list byte) := map fst h.

  (* the names _make_header removes, in ANY spelling (`key.lower() in reserved`; /repo 04e3f20; before that fix
     only the all-lower and all-upper spellings were removed: Witness.make_header_v0) *)
  Definition reserved_lower : list (list byte) :=
    [B "_size"; B "_nrows"; B "_delim"; B "_shape"; B "_has_fields"].
  Definition deleted_keys : list (list byte) := reserved_lower.
  Definition is_stripped (k : list byte) : bool := existsb (bytes_eqb (lower k)) reserved_lower.
  Fixpoint strip_reserved (h : hdict) : hdict :=
    match h with
    | [] => []
    | (k, v) :: t => if is_stripped k then strip_reserved t else (k, v) :: strip_reserved t
    end.

  (* SFile._make_header for a binary file (delim is None) *)
  Definition make_header (hdr : hdict) (dt : dtype) : hdict :=
    dset (B "_VERSION") (v_str sfile_version) (dset (B "_DTYPE") (v_descr dt) (strip_reserved hdr)).

  (* SFile(mode='w').write(data, header=hdr); also sfile.write and io.write for *.rec *)
  Definition sfile_write (hdr : hdict) (dt : dtype) (rows : list (list byte)) : file :=
    sfile_file (pformat (make_header hdr dt)) rows.

  (* _match_key: first key, in dict order, equal to [key] when both are lower-cased *)
  Fixpoint match_key (h : hdict) (key : list byte) : option pyval :=
    match h with
    | [] => None
    | (k, v) :: t => if bytes_eqb (lower k) (lower key) then Some v else match_key t key
    end.

  (* SFile.read_header after the eval: hdr["_SIZE"] = size; default _VERSION *)
  Definition finish_header (size : Z) (h0 : hdict) : hdict :=
    let h1 := dset (B "_SIZE") (v_int size) h0 in
    if has (B "_version") h1 || has (B "_VERSION") h1 then h1
    else dset (B "_VERSION") (v_str sfile_version) h1.

  (* SFile(filename).read(header=True); also sfile.read and io.read for *.rec.
     Returns (dtype of the array, its rows, the header dict). *)
  Definition sfile_read (f : file) : result (dtype * list (list byte) * hdict) :=
    do raw <- sfile_read_raw f;
    let '(size, dtext, offset) := raw in
    match pyeval dtext with
    | None => Err EOther                                      (* SyntaxError etc. *)
    | Some h0 =>
        let h := finish_header size h0 in
        match match_key h (B "_delim") with
        | Some _ => Err EOther                                (* text file: outside this model *)
        | None =>
            match match_key h (B "_dtype") with
            | None => Err ERuntime                            (* required key missing *)
            | Some dv =>
                match np_dtype dv with
                | None => Err EType
                | Some dt =>
                    do rows <- recfile_read f (Z.of_nat offset) (rowsize dt) (Some size);
                    Ok (dt, rows, h)
                end
            end
        end
    end.
End PythonLayer.

(* SFile(f).read() with the Python-level steps (eval, numpy.dtype) taken from the contract:
   the dtype that numpy.dtype(header['_DTYPE']) yields is [dt].  Same composition as
   sfile_read (Proofs.sfile_read_c_is_model); this is what the case files evaluate. *)
Definition sfile_read_c (f : file) (dt : dtype) : result (Z * list (list byte)) :=
  do raw <- sfile_read_raw f;
  let '(size, _, offset) := raw in
  do rows <- recfile_read f (Z.of_nat offset) (rowsize dt) (Some size);
  Ok (size, rows).

(* recfile.write(f, data) / Recfile(f, 'w').write(data): the rows and nothing else *)
Definition recfile_write (rows : list (list byte)) : file := bin_write rows.

(* recfile.read(f, dtype) / Recfile(f, dtype=dt[, nrows=n]).read() at offset 0 *)
Definition recfile_read0 (f : file) (dt : dtype) (nrows : option Z) : result (list (list byte)) :=
  recfile_read f 0 (rowsize dt) nrows.

(* C01/Frame.v — what must NOT change.  NO proofs here.

   (1) A file system as a map from paths to files and the entry points of the property as steps on
       it: the reads return a value and leave every file as it is; a write replaces exactly the file
       it names.  The answer of a read is a function of the file found under its path only.
   (2) Records::update_row_count (rewind; fprintf "SIZE = %20ld" and a newline): the in-place
       update of the row count overwrites the first line and nothing else. *)
From Coq Require Import ZArith List Bool NArith.
From Coq.Strings Require Import Byte String.
From EsVerif.Common Require Import Base Bytes.
From EsVerif.C01 Require Import Framing Model Pyval Uncond.
Import ListNotations.
Open Scope Z_scope.
Open Scope list_scope.
Notation length := List.length.

Definition path := nat.
Definition fsys := path -> option file.
Definition fs_empty : fsys := fun _ => None.
Definition fs_set (s : fsys) (p : path) (f : file) : fsys := fun q => if Nat.eqb q p then Some f else s q.

Inductive op :=
| WriteSelf (p : path) (hdr : hdict pv) (dt : dtype) (rows : list (list byte))   (* SFile / sfile.write / io.write *)
| WriteRec (p : path) (rows : list (list byte))                                (* Recfile / recfile.write *)
| ReadSelf (p : path)                                                          (* SFile / sfile.read / io.read *)
| ReadRec (p : path) (dt : dtype) (nrows : option Z).                          (* Recfile / recfile.read *)

Inductive answer :=
| ANone
| ASelf (r : result (dtype * list (list byte) * hdict pv))
| ARec (r : result (list (list byte))).

Definition read_self (f : option file) : answer :=
  match f with
  | Some f => ASelf (sfile_read pv py_vstr py_vint py_np_dtype py_eval f)
  | None => ASelf (Err EOther)
  end.
Definition read_rec (f : option file) (dt : dtype) (nrows : option Z) : answer :=
  match f with Some f => ARec (recfile_read0 f dt nrows) | None => ARec (Err EOther) end.

Definition step (s : fsys) (o : op) : fsys * answer :=
  match o with
  | WriteSelf p hdr dt rows => (fs_set s p (sfile_write pv py_vstr py_vdescr py_pformat hdr dt rows), ANone)
  | WriteRec p rows => (fs_set s p (recfile_write rows), ANone)
  | ReadSelf p => (s, read_self (s p))
  | ReadRec p dt nrows => (s, read_rec (s p) dt nrows)
  end.

Fixpoint run (s : fsys) (ops : list op) : fsys :=
  match ops with [] => s | o :: t => run (fst (step s o)) t end.

(* the path an operation writes, if any *)
Definition writes (o : op) : option path :=
  match o with WriteSelf p _ _ _ | WriteRec p _ => Some p | _ => None end.
Definition touches (p : path) (o : op) : bool :=
  match writes o with Some q => Nat.eqb q p | None => false end.

(* ------------------------------------------------------------------ the in-place SIZE update *)
Definition overwrite (p f : list byte) : list byte := p ++ skipn (length p) f.
Definition size_update (f : file) (n : Z) : file := overwrite (size_line n ++ [nl]) f.

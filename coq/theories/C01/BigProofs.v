(* C01/BigProofs.v — the fast readers of Big.v are the model's readers. *)
From Coq Require Import ZArith List Bool NArith Lia ZifyBool ZifyNat.
From Coq.Strings Require Import Byte String.
From EsVerif.Common Require Import Base Bytes.
From EsVerif.C01 Require Import Framing Model Big.
Import ListNotations.
Open Scope Z_scope.
Open Scope list_scope.
Notation length := List.length.

Lemma take_rows_fast_eq rs : forall n f, take_rows rs n f = take_rows_fast rs n f.
Proof.
  induction n as [|n IH]; intro f.
  - unfold take_rows_fast. cbn. reflexivity.
  - cbn [take_rows]. unfold take_rows_fast in *. cbn [chunks].
    destruct (length f <? rs)%nat eqn:E1.
    + replace (length f <? S n * rs)%nat with true by lia. reflexivity.
    + rewrite IH. rewrite skipn_length.
      destruct (length f - rs <? n * rs)%nat eqn:E2.
      * replace (length f <? S n * rs)%nat with true by lia. reflexivity.
      * replace (length f <? S n * rs)%nat with false by lia. reflexivity.
Qed.

Theorem recfile_read_fast_eq f offset rs nrows :
  recfile_read_fast f offset rs nrows = recfile_read f offset rs nrows.
Proof. unfold recfile_read_fast, recfile_read. rewrite take_rows_fast_eq. reflexivity. Qed.

Theorem sfile_read_c_fast_eq f dt : sfile_read_c_fast f dt = sfile_read_c f dt.
Proof.
  unfold sfile_read_c_fast, sfile_read_c. destruct (sfile_read_raw f) as [[[size dtext] off]|e]; cbn [bind]; [|reflexivity].
  rewrite recfile_read_fast_eq. reflexivity.
Qed.

Theorem recfile_read0_fast_eq f dt nrows : recfile_read0_fast f dt nrows = recfile_read0 f dt nrows.
Proof. unfold recfile_read0_fast, recfile_read0. apply recfile_read_fast_eq. Qed.

(* every row of a run has the length of its first row's digit list (when the step has it too) *)
Lemma add_carry_length : forall a b c, length a = length b -> length (add_carry a b c) = length a.
Proof.
  induction a as [|x ta IH]; intros [|y tb] c H; cbn in *; try reflexivity; try discriminate.
  destruct (x + y + c <? 256); cbn; rewrite IH by lia; reflexivity.
Qed.

Lemma ap_run_rows n : forall cur step, length cur = length step ->
  Forall (fun r => length r = length cur) (ap_run n cur step).
Proof.
  induction n as [|n IH]; intros cur step H; cbn [ap_run]; constructor.
  - unfold row_of. apply map_length.
  - specialize (IH (add_carry cur step 0) step). rewrite add_carry_length in IH by exact H.
    apply IH. exact H.
Qed.

Lemma ap_run_count n : forall cur step, length (ap_run n cur step) = n.
Proof. induction n as [|n IH]; intros; cbn; [reflexivity | rewrite IH; reflexivity]. Qed.

(* C01/FrameProofs.v — frame conditions and independence of history for the model. *)
From Coq Require Import ZArith List Bool NArith Lia ZifyBool ZifyNat.
From Coq.Strings Require Import Byte String.
From EsVerif.Common Require Import Base Bytes.
From EsVerif.C01 Require Import Framing FramingProofs Model Pyval Uncond Frame.
Import ListNotations.
Open Scope Z_scope.
Open Scope list_scope.
Notation length := List.length.

(* reads change no file *)
Theorem read_frame s o : writes o = None -> fst (step s o) = s.
Proof. destruct o; cbn; intro H; try discriminate H; reflexivity. Qed.

(* a write changes exactly the file it names *)
Theorem write_frame s o p q : writes o = Some p -> q <> p -> fst (step s o) q = s q.
Proof.
  destruct o; cbn; intro H; try discriminate H; inversion H; subst; intro N; unfold fs_set;
    (destruct (Nat.eqb q p) eqn:E; [apply Nat.eqb_eq in E; contradiction | reflexivity]).
Qed.

(* operations that do not write p leave p's file alone, however many there are *)
Theorem run_frame ops : forall s p, forallb (fun o => negb (touches p o)) ops = true -> run s ops p = s p.
Proof.
  induction ops as [|o t IH]; intros s p H; [reflexivity|].
  cbn [forallb] in H. apply andb_true_iff in H as [H1 H2]. cbn [run]. rewrite IH by exact H2.
  unfold touches in H1. destruct (writes o) as [q|] eqn:W.
  - apply (write_frame s o q p W). apply negb_true_iff in H1. intro X. subst. rewrite Nat.eqb_refl in H1. discriminate.
  - rewrite read_frame by exact W. reflexivity.
Qed.

(* history does not matter: whatever ran before, and whatever ran in between as long as it did not
   write p, a read of p after a write of p answers exactly as the same write + read alone *)
Theorem history_independent before between p hdr dt rows :
  forallb (fun o => negb (touches p o)) between = true ->
  forall s0,
  snd (step (run (fst (step (run s0 before) (WriteSelf p hdr dt rows))) between) (ReadSelf p))
  = snd (step (fst (step fs_empty (WriteSelf p hdr dt rows))) (ReadSelf p)).
Proof.
  intros H s0. cbn [step fst snd]. rewrite run_frame by exact H.
  unfold fs_set. rewrite Nat.eqb_refl. reflexivity.
Qed.

Theorem history_independent_rec before between p rows dt nrows :
  forallb (fun o => negb (touches p o)) between = true ->
  forall s0,
  snd (step (run (fst (step (run s0 before) (WriteRec p rows))) between) (ReadRec p dt nrows))
  = snd (step (fst (step fs_empty (WriteRec p rows))) (ReadRec p dt nrows)).
Proof.
  intros H s0. cbn [step fst snd]. rewrite run_frame by exact H.
  unfold fs_set. rewrite Nat.eqb_refl. reflexivity.
Qed.

(* ------------------------------------------------------------------ the in-place SIZE update *)
Lemma mk_header_shape n d : mk_header n d = (size_line n ++ [nl]) ++ d ++ nl :: B "END" ++ [nl; nl].
Proof. unfold mk_header. rewrite <- app_assoc. reflexivity. Qed.

(* the update rewrites the first line and leaves every other byte of the file — the rest of the
   header and all rows — as it is; the result is the file a fresh write with the new count has *)
Theorem size_update_frame m n d data : 0 <= m < 10 ^ 20 -> 0 <= n < 10 ^ 20 ->
  size_update (mk_header m d ++ data) n = mk_header n d ++ data
  /\ length (size_update (mk_header m d ++ data) n) = length (mk_header m d ++ data)
  /\ skipn 28 (size_update (mk_header m d ++ data) n) = skipn 28 (mk_header m d ++ data).
Proof.
  intros Hm Hn.
  assert (Lm : length (size_line m ++ [nl]) = 28%nat) by (rewrite app_length, size_line_length by exact Hm; reflexivity).
  assert (Ln : length (size_line n ++ [nl]) = 28%nat) by (rewrite app_length, size_line_length by exact Hn; reflexivity).
  set (hm := size_line m ++ [nl]) in *. set (hn := size_line n ++ [nl]) in *.
  assert (E : size_update (mk_header m d ++ data) n = mk_header n d ++ data).
  { unfold size_update, overwrite. fold hn. rewrite Ln, !mk_header_shape. fold hm hn. rewrite <- !app_assoc.
    rewrite <- Lm. rewrite skipn_app, skipn_all, Nat.sub_diag, skipn_O. reflexivity. }
  split; [exact E|]. rewrite E. split.
  - rewrite !mk_header_shape. fold hm hn. rewrite !app_length, Lm, Ln. reflexivity.
  - rewrite !mk_header_shape. fold hm hn. rewrite <- !app_assoc.
    rewrite <- Ln at 1. rewrite skipn_app, skipn_all, Nat.sub_diag, skipn_O.
    rewrite <- Lm. rewrite skipn_app, skipn_all, Nat.sub_diag, skipn_O. reflexivity.
Qed.

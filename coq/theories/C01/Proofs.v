(* C01/Proofs.v — the round-trip theorems over the Python layer, and checker soundness. *)
From Coq Require Import ZArith List Bool NArith Lia ZifyBool ZifyNat.
From Coq.Strings Require Import Byte String.
From EsVerif.Common Require Import Base Bytes.
From EsVerif.C01 Require Import Framing FramingProofs Model Spec Layout LayoutProofs Entry.
Import ListNotations.
Open Scope Z_scope.
Open Scope list_scope.
Notation length := List.length.

Ltac beq a b := let E := fresh "E" in
  destruct (bytes_eqb a b) eqn:E; [apply bytes_eqb_eq in E | ].

Lemma bytes_eqb_false a b : bytes_eqb a b = false -> a <> b.
Proof. intros H E. subst. rewrite bytes_eqb_refl in H. discriminate. Qed.

(* ---------------------------------------------------------------- the file *)
Lemma sfile_file_eq d rows : hdr_text_ok d = true ->
  sfile_file d rows = mk_header (Z.of_nat (length rows)) d ++ bin_write rows.
Proof.
  intro T. unfold sfile_file, write_header. rewrite clean_cstr; [reflexivity|].
  apply mk_header_clean; [lia|]. unfold hdr_text_ok in T. apply andb_true_iff in T. apply T.
Qed.

Lemma sfile_read_raw_spec d rows : hdr_text_ok d = true ->
  sfile_read_raw (sfile_file d rows)
  = Ok (Z.of_nat (length rows), join [sp] (split_nl d), length (mk_header (Z.of_nat (length rows)) d)).
Proof.
  intro T. rewrite sfile_file_eq by exact T. unfold sfile_read_raw.
  rewrite read_sfile_header_spec by (try lia; exact T). cbn [bind fst snd].
  rewrite parse_header_spec by lia. reflexivity.
Qed.


Section PyProofs.
  Variable pyval : Type.
  Variable pyeq : pyval -> pyval -> Prop.
  Variable v_str : list byte -> pyval.
  Variable v_int : Z -> pyval.
  Variable v_descr : dtype -> pyval.
  Variable np_dtype : pyval -> option dtype.
  Variable pformat : hdict pyval -> list byte.
  Variable pyeval : list byte -> option (hdict pyval).

  Notation hd := (hdict pyval).
  Notation get := (dget pyval).
  Notation put := (dset pyval).
  Notation del := (ddel pyval).
  Notation mkh := (make_header pyval v_str v_descr).

  (* ---------------------------------------------------------------- dict algebra *)
  Lemma get_put_same k v (h : hd) : get k (put k v h) = Some v.
  Proof.
    induction h as [|[k' v'] t IH]; simpl.
    - rewrite bytes_eqb_refl. reflexivity.
    - beq k k'; simpl.
      + rewrite bytes_eqb_refl. reflexivity.
      + rewrite E. exact IH.
  Qed.

  Lemma get_put_other k k0 v (h : hd) : k <> k0 -> get k (put k0 v h) = get k h.
  Proof.
    intro N. induction h as [|[k' v'] t IH]; simpl.
    - rewrite (bytes_eqb_neq _ _ N). reflexivity.
    - beq k0 k'; simpl.
      + subst k'. rewrite !(bytes_eqb_neq _ _ N). reflexivity.
      + rewrite IH. reflexivity.
  Qed.

  Lemma get_del k k0 (h : hd) : get k (del k0 h) = if bytes_eqb k k0 then None else get k h.
  Proof.
    induction h as [|[k' v'] t IH]; simpl.
    - destruct (bytes_eqb k k0); reflexivity.
    - beq k0 k'.
      + subst k'. rewrite IH. destruct (bytes_eqb k k0); reflexivity.
      + simpl. rewrite IH. beq k k'; [|reflexivity].
        subst k'. rewrite (bytes_eqb_neq k k0); [reflexivity|].
        intro X; subst. rewrite bytes_eqb_refl in E. discriminate.
  Qed.

  Lemma get_strip (h : hd) k : get k (strip_reserved pyval h) = if is_stripped k then None else get k h.
  Proof.
    induction h as [|[k' v'] t IH]; simpl.
    - destruct (is_stripped k); reflexivity.
    - destruct (is_stripped k') eqn:S'.
      + rewrite IH. beq k k'; [subst k'; rewrite S'; reflexivity | reflexivity].
      + simpl. beq k k'; [subst k'; rewrite S'; reflexivity | exact IH].
  Qed.

  Lemma in_keys_get k (h : hd) : In k (keys pyval h) <-> get k h <> None.
  Proof.
    induction h as [|[k' v'] t IH]; simpl.
    - split; [intros [] | intro H; apply H; reflexivity].
    - beq k k'.
      + subst. split; [intros _; discriminate | intros _; left; reflexivity].
      + rewrite <- IH. split; [intros [X|X]; [subst; rewrite bytes_eqb_refl in E; discriminate | exact X]
                              | intro X; right; exact X].
  Qed.

  (* ---------------------------------------------------------------- _make_header *)
  Lemma reserved_split k : reserved k = false ->
    is_stripped k = false /\ k <> B "_DTYPE" /\ k <> B "_VERSION".
  Proof.
    unfold reserved. intro H.
    apply orb_false_iff in H as [H1 H2]. split; [exact H1|]. simpl in H2.
    apply orb_false_iff in H2 as [H2 H3]. apply orb_false_iff in H3 as [H3 _].
    split; apply bytes_eqb_false; assumption.
  Qed.

  Lemma user_keys_kept hdr dt k : reserved k = false -> get k (mkh hdr dt) = get k hdr.
  Proof.
    intro R. destruct (reserved_split k R) as [D [N1 N2]]. unfold make_header.
    rewrite get_put_other by exact N2. rewrite get_put_other by exact N1.
    rewrite get_strip, D. reflexivity.
  Qed.

  Lemma head_dtype hdr dt : get (B "_DTYPE") (mkh hdr dt) = Some (v_descr dt).
  Proof.
    unfold make_header. rewrite get_put_other by discriminate. apply get_put_same.
  Qed.

  Lemma head_version hdr dt : get (B "_VERSION") (mkh hdr dt) = Some (v_str sfile_version).
  Proof. unfold make_header. apply get_put_same. Qed.

  Lemma head_key_cases hdr dt k : get k (mkh hdr dt) <> None ->
    k = B "_VERSION" \/ k = B "_DTYPE"
    \/ (is_stripped k = false /\ In k (keys pyval hdr)).
  Proof.
    intro H. beq k (B "_VERSION"); [left; exact E|]. right.
    beq k (B "_DTYPE"); [left; exact E0|]. right.
    unfold make_header in H.
    rewrite get_put_other in H by (apply bytes_eqb_false; exact E).
    rewrite get_put_other in H by (apply bytes_eqb_false; exact E0).
    rewrite get_strip in H. destruct (is_stripped k); [contradiction|].
    split; [reflexivity | apply in_keys_get; exact H].
  Qed.

  (* ---------------------------------------------------------------- _match_key *)
  Lemma match_key_none (h : hd) key :
    (forall k, In k (keys pyval h) -> bytes_eqb (lower k) (lower key) = false) ->
    match_key pyval h key = None.
  Proof.
    induction h as [|[k v] t IH]; simpl; intro H; [reflexivity|].
    rewrite (H k) by (left; reflexivity). apply IH. intros k' I. apply H. right. exact I.
  Qed.

  Lemma match_key_unique (h : hd) key key0 :
    bytes_eqb (lower key0) (lower key) = true ->
    (forall k, In k (keys pyval h) -> bytes_eqb (lower k) (lower key) = true -> k = key0) ->
    match_key pyval h key = get key0 h.
  Proof.
    intros L. induction h as [|[k v] t IH]; simpl; intro H; [reflexivity|].
    destruct (bytes_eqb (lower k) (lower key)) eqn:E.
    - rewrite (H k (or_introl eq_refl) E), bytes_eqb_refl. reflexivity.
    - beq key0 k; [subst k; congruence|]. apply IH. intros k' I. apply H. right. exact I.
  Qed.

  (* ---------------------------------------------------------------- the header read back *)
  Lemma equiv_get_some (h' head : hd) k v : dict_equiv pyval pyeq h' head -> get k head = Some v ->
    exists v', get k h' = Some v' /\ pyeq v' v.
  Proof.
    intros Q G. specialize (Q k). rewrite G in Q. destruct (get k h') as [v'|]; [|contradiction].
    exists v'. split; [reflexivity | exact Q].
  Qed.

  Lemma equiv_get_none (h' head : hd) k : dict_equiv pyval pyeq h' head -> get k h' <> None -> get k head <> None.
  Proof.
    intros Q G X. specialize (Q k). rewrite X in Q. destruct (get k h'); [contradiction | apply G; reflexivity].
  Qed.

  Lemma finish_header_eq hdr dt h' n : dict_equiv pyval pyeq h' (mkh hdr dt) ->
    finish_header pyval v_str v_int n h' = put (B "_SIZE") (v_int n) h'.
  Proof.
    intro Q. unfold finish_header.
    destruct (equiv_get_some _ _ _ _ Q (head_version hdr dt)) as [v' [G _]].
    replace (has pyval (B "_VERSION") (put (B "_SIZE") (v_int n) h')) with true.
    - rewrite orb_true_r. reflexivity.
    - unfold has. rewrite get_put_other by discriminate. rewrite G. reflexivity.
  Qed.

  (* every key of the header read back is _SIZE, _VERSION, _DTYPE, or a surviving user key *)
  Lemma final_key_cases hdr dt h' n k :
    dict_equiv pyval pyeq h' (mkh hdr dt) -> user_hdr_ok pyval hdr ->
    In k (keys pyval (put (B "_SIZE") (v_int n) h')) ->
    k = B "_SIZE" \/ k = B "_VERSION" \/ k = B "_DTYPE"
    \/ (is_stripped k = false /\ user_key_ok k = true).
  Proof.
    intros Q U I. beq k (B "_SIZE"); [left; exact E|]. right.
    apply in_keys_get in I. rewrite get_put_other in I by (apply bytes_eqb_false; exact E).
    apply (equiv_get_none _ _ _ Q) in I. apply head_key_cases in I.
    destruct I as [I|[I|[I1 I2]]]; [left; exact I | right; left; exact I |].
    right. right. split; [exact I1 | apply U; exact I2].
  Qed.

  Lemma no_delim hdr dt h' n :
    dict_equiv pyval pyeq h' (mkh hdr dt) -> user_hdr_ok pyval hdr ->
    match_key pyval (put (B "_SIZE") (v_int n) h') (B "_delim") = None.
  Proof.
    intros Q U. apply match_key_none. intros k I.
    destruct (final_key_cases hdr dt h' n k Q U I) as [->|[->|[->|[D K]]]]; try reflexivity.
    change (lower (B "_delim")) with (B "_delim").
    unfold is_stripped, reserved_lower in D. simpl existsb in D.
    repeat (let X := fresh "X" in apply orb_false_iff in D as [X D]). exact X1.
  Qed.

  Lemma dtype_key hdr dt h' n :
    dict_equiv pyval pyeq h' (mkh hdr dt) -> user_hdr_ok pyval hdr ->
    match_key pyval (put (B "_SIZE") (v_int n) h') (B "_dtype") = get (B "_DTYPE") h'.
  Proof.
    intros Q U. rewrite (match_key_unique _ (B "_dtype") (B "_DTYPE")).
    - apply get_put_other. discriminate.
    - reflexivity.
    - intros k I L.
      destruct (final_key_cases hdr dt h' n k Q U I) as [->|[->|[->|[D K]]]]; try discriminate; [reflexivity|].
      change (lower (B "_dtype")) with (B "_dtype") in L.
      unfold user_key_ok in K. rewrite L in K. simpl in K.
      apply bytes_eqb_eq. exact K.
  Qed.

  (* ---------------------------------------------------------------- the round trip *)
  Theorem roundtrip hdr dt rows :
    H_pf pyval pyeq pformat pyeval np_dtype (mkh hdr dt) dt ->
    user_hdr_ok pyval hdr ->
    rows <> [] -> rows_fit dt rows -> 0 < rowsize dt ->
    exists out, sfile_read pyval v_str v_int np_dtype pyeval
                  (sfile_write pyval v_str v_descr pformat hdr dt rows) = Ok out
                /\ roundtrip_ok pyval pyeq v_int np_dtype hdr dt rows out.
  Proof.
    intros [T [h' [Ev [Q Dt]]]] U NE F R.
    destruct (equiv_get_some _ _ _ _ Q (head_dtype hdr dt)) as [dv [Gd _]].
    set (n := Z.of_nat (length rows)).
    exists (dt, rows, put (B "_SIZE") (v_int n) h'). split.
    - unfold sfile_read, sfile_write. rewrite sfile_read_raw_spec by exact T. cbn [bind].
      rewrite Ev. rewrite (finish_header_eq hdr dt h' _ Q).
      rewrite (no_delim hdr dt h' _ Q U), (dtype_key hdr dt h' _ Q U), Gd, (Dt dv Gd).
      rewrite sfile_file_eq by exact T.
      rewrite recfile_read_spec; auto.
    - unfold roundtrip_ok. split; [reflexivity|]. split; [reflexivity|].
      split; [apply get_put_same|]. split.
      + exists dv. rewrite get_put_other by discriminate. split; [exact Gd | exact (Dt dv Gd)].
      + intros k v Rk G. rewrite <- (user_keys_kept hdr dt k Rk) in G.
        destruct (equiv_get_some _ _ _ _ Q G) as [v' [G' P]]. exists v'. split; [|exact P].
        rewrite get_put_other; [exact G'|]. intro X; subst k. discriminate.
  Qed.

  (* ---------------------------------------------------------------- no premise on the user's keys *)
  (* the first key, in dict order, that lower-cases like [key]: what _match_key finds *)
  Fixpoint first_key (h : hd) (key : list byte) : option (list byte) :=
    match h with
    | [] => None
    | (k, v) :: t => if bytes_eqb (lower k) (lower key) then Some k else first_key t key
    end.

  Lemma first_key_lower (h : hd) key k0 : first_key h key = Some k0 -> bytes_eqb (lower k0) (lower key) = true.
  Proof.
    induction h as [|[k v] t IH]; simpl; [discriminate|].
    destruct (bytes_eqb (lower k) (lower key)) eqn:E; [intro X; inversion X; subst; exact E | exact IH].
  Qed.

  Lemma match_key_first (h : hd) key k0 : first_key h key = Some k0 -> match_key pyval h key = get k0 h.
  Proof.
    induction h as [|[k v] t IH]; simpl; [discriminate|].
    destruct (bytes_eqb (lower k) (lower key)) eqn:E.
    - intro X. inversion X; subst. rewrite bytes_eqb_refl. reflexivity.
    - intro X. rewrite (IH X). beq k0 k; [|reflexivity].
      subst k0. rewrite (first_key_lower t key k X) in E. discriminate.
  Qed.

  Lemma first_key_put (h : hd) k0 v key : bytes_eqb (lower k0) (lower key) = false ->
    first_key (put k0 v h) key = first_key h key.
  Proof.
    intro N. induction h as [|[k v'] t IH]; simpl.
    - rewrite N. reflexivity.
    - beq k0 k; simpl.
      + subst k. rewrite N. reflexivity.
      + rewrite IH. reflexivity.
  Qed.

  Lemma no_delim_any hdr dt h' n :
    dict_equiv pyval pyeq h' (mkh hdr dt) ->
    match_key pyval (put (B "_SIZE") (v_int n) h') (B "_delim") = None.
  Proof.
    intros Q. apply match_key_none. intros k I.
    beq k (B "_SIZE"); [subst; reflexivity|].
    apply in_keys_get in I. rewrite get_put_other in I by (apply bytes_eqb_false; exact E).
    apply (equiv_get_none _ _ _ Q) in I. apply head_key_cases in I.
    destruct I as [->|[->|[D _]]]; try reflexivity.
    change (lower (B "_delim")) with (B "_delim").
    unfold is_stripped, reserved_lower in D. simpl existsb in D.
    repeat (let X := fresh "X" in apply orb_false_iff in D as [X D]). exact X1.
  Qed.

  (* the round trip for EVERY user header, given that in the evaluated dict the first key that
     lower-cases to _dtype is _DTYPE itself (true of what pformat prints: it sorts the keys and
     _DTYPE sorts before every other spelling; decided on the real text by Uncond.hpf_check_all) *)
  Theorem roundtrip_ordered hdr dt rows h' :
    hdr_text_ok (pformat (mkh hdr dt)) = true ->
    pyeval (join [sp] (split_nl (pformat (mkh hdr dt)))) = Some h' ->
    dict_equiv pyval pyeq h' (mkh hdr dt) ->
    (forall v, get (B "_DTYPE") h' = Some v -> np_dtype v = Some dt) ->
    first_key h' (B "_dtype") = Some (B "_DTYPE") ->
    rows <> [] -> rows_fit dt rows -> 0 < rowsize dt ->
    exists out, sfile_read pyval v_str v_int np_dtype pyeval
                  (sfile_write pyval v_str v_descr pformat hdr dt rows) = Ok out
                /\ roundtrip_ok pyval pyeq v_int np_dtype hdr dt rows out.
  Proof.
    intros T Ev Q Dt FK NE F R.
    destruct (equiv_get_some _ _ _ _ Q (head_dtype hdr dt)) as [dv [Gd _]].
    set (n := Z.of_nat (length rows)).
    exists (dt, rows, put (B "_SIZE") (v_int n) h'). split.
    - unfold sfile_read, sfile_write. rewrite sfile_read_raw_spec by exact T. cbn [bind].
      rewrite Ev. rewrite (finish_header_eq hdr dt h' _ Q).
      rewrite (no_delim_any hdr dt h' _ Q).
      rewrite (match_key_first _ (B "_dtype") (B "_DTYPE")) by (rewrite first_key_put by reflexivity; exact FK).
      rewrite get_put_other by discriminate. rewrite Gd, (Dt dv Gd).
      rewrite sfile_file_eq by exact T.
      rewrite recfile_read_spec; auto.
    - unfold roundtrip_ok. split; [reflexivity|]. split; [reflexivity|].
      split; [apply get_put_same|]. split.
      + exists dv. rewrite get_put_other by discriminate. split; [exact Gd | exact (Dt dv Gd)].
      + intros k v Rk G. rewrite <- (user_keys_kept hdr dt k Rk) in G.
        destruct (equiv_get_some _ _ _ _ Q G) as [v' [G' P]]. exists v'. split; [|exact P].
        rewrite get_put_other; [exact G'|]. intro X; subst k. discriminate.
  Qed.

  (* ---------------------------------------------------------------- any memory layout *)
  Lemma view_rows_fit dt v : in_bounds v = true -> Z.of_nat (v_item v) = rowsize dt ->
    rows_fit dt (view_rows v).
  Proof.
    intros IB E. unfold rows_fit. eapply Forall_impl; [|apply view_rows_item; exact IB].
    intros r Hr. cbv beta in Hr. rewrite Hr. exact E.
  Qed.

  Lemma view_rows_nonempty v : (1 <= view_size v)%nat -> view_rows v <> [].
  Proof. intros H E. rewrite <- view_rows_count, E in H. cbn in H. lia. Qed.

  (* the round trip for the array as numpy holds it: strided, reversed, transposed, ... *)
  Theorem roundtrip_any_layout hdr dt v :
    H_pf pyval pyeq pformat pyeval np_dtype (mkh hdr dt) dt ->
    user_hdr_ok pyval hdr ->
    in_bounds v = true -> (1 <= view_size v)%nat -> Z.of_nat (v_item v) = rowsize dt -> 0 < rowsize dt ->
    exists out, sfile_read pyval v_str v_int np_dtype pyeval
                  (sfile_write_view pyval v_str v_descr pformat hdr dt v) = Ok out
                /\ roundtrip_ok pyval pyeq v_int np_dtype hdr dt (view_rows v) out.
  Proof.
    intros H U IB N E R. rewrite sfile_write_view_eq by exact IB.
    apply roundtrip; auto using view_rows_nonempty, view_rows_fit.
  Qed.

  (* ---------------------------------------------------------------- the entry points *)
  Notation W_SFile := (SFile_write pyval v_str v_descr pformat).
  Notation W_fn := (sfile_write_fn pyval v_str v_descr pformat).
  Notation W_io := (io_write pyval v_str v_descr pformat).
  Notation R_SFile := (SFile_read pyval v_str v_int np_dtype pyeval).
  Notation R_fn := (sfile_read_fn pyval v_str v_int np_dtype pyeval).
  Notation R_io := (io_read pyval v_str v_int np_dtype pyeval).

  (* the self-describing entry points denote the same model functions *)
  Theorem entrypoints_agree :
    (forall sw h dt v, W_fn sw h dt v = W_SFile h dt v)
    /\ (forall h dt v, W_io h dt v = W_SFile h dt v)
    /\ (forall dt v, W_SFile None dt v = W_SFile (Some []) dt v)
    /\ (forall h dt v, W_SFile (Some h) dt v = sfile_write_view pyval v_str v_descr pformat h dt v)
    /\ (forall f, R_fn f = R_SFile f) /\ (forall f, R_io f = R_SFile f)
    /\ (forall f, R_SFile f = sfile_read pyval v_str v_int np_dtype pyeval f)
    /\ (forall v, recfile_write_fn v = Recfile_write v) /\ (forall v, Recfile_write v = recfile_write_view v)
    /\ (forall f dt n, recfile_read_fn f dt n = Recfile_read f dt n)
    /\ (forall f dt n, Recfile_read f dt n = recfile_read0 f dt n).
  Proof. repeat split; reflexivity. Qed.

  (* hence: written through ANY of the three self-describing writers (either argument order of
     sfile.write, header given or None) and read through ANY of the three readers *)
  Theorem roundtrip_every_entry_point hdr dt v :
    H_pf pyval pyeq pformat pyeval np_dtype (mkh (hdr_arg pyval hdr) dt) dt ->
    user_hdr_ok pyval (hdr_arg pyval hdr) ->
    in_bounds v = true -> (1 <= view_size v)%nat -> Z.of_nat (v_item v) = rowsize dt -> 0 < rowsize dt ->
    forall w r,
      In w [W_SFile; W_fn false; W_fn true; W_io] -> In r [R_SFile; R_fn; R_io] ->
      exists out, r (w hdr dt v) = Ok out
                  /\ roundtrip_ok pyval pyeq v_int np_dtype (hdr_arg pyval hdr) dt (view_rows v) out.
  Proof.
    intros H U IB N E R w r Hw Hr.
    assert (Ew : w hdr dt v = sfile_write_view pyval v_str v_descr pformat (hdr_arg pyval hdr) dt v).
    { cbn [In] in Hw. destruct Hw as [<-|[<-|[<-|[<-|[]]]]]; reflexivity. }
    assert (Er : forall f, r f = sfile_read pyval v_str v_int np_dtype pyeval f).
    { cbn [In] in Hr. destruct Hr as [<-|[<-|[<-|[]]]]; reflexivity. }
    rewrite Er, Ew. apply roundtrip_any_layout; assumption.
  Qed.

  (* the data region of a self-describing file, read by the low-level reader given the dtype
     and the offset of the data *)
  Theorem sfile_data_region hdr dt rows nrows :
    hdr_text_ok (pformat (mkh hdr dt)) = true ->
    rows <> [] -> rows_fit dt rows -> 0 < rowsize dt ->
    (nrows = None \/ nrows = Some (Z.of_nat (length rows))) ->
    let f := sfile_write pyval v_str v_descr pformat hdr dt rows in
    exists off, scan_end f = Ok off
      /\ skipn off f = bin_write rows
      /\ recfile_read f (Z.of_nat off) (rowsize dt) nrows = Ok rows.
  Proof.
    intros T NE F R HN f. subst f. unfold sfile_write. rewrite sfile_file_eq by exact T.
    exists (length (mk_header (Z.of_nat (length rows)) (pformat (mkh hdr dt)))). split; [|split].
    - unfold scan_end. rewrite read_sfile_header_spec by (try lia; exact T). reflexivity.
    - rewrite skipn_app, skipn_all, Nat.sub_diag, skipn_O. reflexivity.
    - apply recfile_read_spec; auto. destruct HN as [->| ->]; auto.
  Qed.
  (* the function evaluated by the case files is the model's read with the Python steps
     (eval, numpy.dtype) resolved *)
  Lemma sfile_read_c_is_model f dt rows h :
    sfile_read pyval v_str v_int np_dtype pyeval f = Ok (dt, rows, h) ->
    exists size, sfile_read_c f dt = Ok (size, rows).
  Proof.
    unfold sfile_read, sfile_read_c. destruct (sfile_read_raw f) as [[[size dtext] off]|e]; cbn [bind]; [|discriminate].
    destruct (pyeval dtext) as [h0|]; [|discriminate].
    destruct (match_key pyval _ (B "_delim")); [discriminate|].
    destruct (match_key pyval _ (B "_dtype")) as [dv|]; [|discriminate].
    destruct (np_dtype dv) as [dt'|]; [|discriminate].
    destruct (recfile_read f (Z.of_nat off) (rowsize dt') (Some size)) as [rows'|e] eqn:R; cbn [bind]; [|discriminate].
    intro X. inversion X; subst. exists size. rewrite R. reflexivity.
  Qed.
End PyProofs.

(* ---------------------------------------------------------------- the plain record file *)
Theorem recfile_roundtrip dt rows nrows :
  rows <> [] -> rows_fit dt rows -> 0 < rowsize dt ->
  (nrows = None \/ (exists m, nrows = Some m /\ m < 0) \/ nrows = Some (Z.of_nat (length rows))) ->
  recfile_read0 (recfile_write rows) dt nrows = Ok rows.
Proof.
  intros NE F R HN. unfold recfile_read0, recfile_write.
  exact (recfile_read_spec [] rows (rowsize dt) nrows R NE F HN).
Qed.

Theorem recfile_roundtrip_any_layout dt v nrows :
  in_bounds v = true -> (1 <= view_size v)%nat -> Z.of_nat (v_item v) = rowsize dt -> 0 < rowsize dt ->
  (nrows = None \/ (exists m, nrows = Some m /\ m < 0) \/ nrows = Some (Z.of_nat (view_size v))) ->
  recfile_read0 (recfile_write_view v) dt nrows = Ok (view_rows v).
Proof.
  intros IB N E R HN. rewrite write_any_layout by exact IB.
  apply recfile_roundtrip; auto.
  - intro X. rewrite <- view_rows_count, X in N. cbn in N. lia.
  - unfold rows_fit. eapply Forall_impl; [|apply view_rows_item; exact IB].
    intros r Hr. cbv beta in Hr. rewrite Hr. exact E.
  - rewrite view_rows_count. exact HN.
Qed.

Theorem write_v0_outside_known v : kf_noncontiguous_write v = false -> in_bounds v = true ->
  0 <= v_start v -> v_start v + Z.of_nat (view_size v * v_item v) <= Z.of_nat (length (v_buf v)) ->
  recfile_write_view_v0 v = bin_write (view_rows v).
Proof.
  intro K. apply write_v0_contiguous. unfold kf_noncontiguous_write in K.
  destruct (is_c_contiguous v); [reflexivity | discriminate K].
Qed.

Theorem count_nrows_written (hdr : list byte) dt rows :
  rows_fit dt rows -> 0 < rowsize dt ->
  count_nrows (Z.of_nat (length (hdr ++ bin_write rows))) (Z.of_nat (length hdr)) (rowsize dt)
  = Z.of_nat (length rows).
Proof.
  intros F R. apply count_nrows_spec; [exact R|]. unfold bin_write.
  assert (F' : Forall (fun r => length r = Z.to_nat (rowsize dt)) rows).
  { eapply Forall_impl; [|exact F]. intros r Hr. cbv beta in Hr. lia. }
  rewrite (concat_length_rows _ _ F'). lia.
Qed.

(* ---------------------------------------------------------------- the size line and the scanner *)
Theorem size_line_spec n : 0 <= n ->
  parse_size (size_line n) = Ok n /\ (n < 10 ^ 20 -> length (size_line n) = 27%nat).
Proof.
  intro H. split; [apply parse_size_size_line; exact H|]. intro L. apply size_line_length. lia.
Qed.

Theorem scan_end_spec n d data : 0 <= n -> hdr_text_ok d = true ->
  scan_end (mk_header n d ++ data) = Ok (length (mk_header n d)).
Proof.
  intros H T. unfold scan_end. rewrite read_sfile_header_spec by assumption. reflexivity.
Qed.

(* ---------------------------------------------------------------- checker soundness *)
Lemma zl_eqb_eq a b : zl_eqb a b = true -> a = b.
Proof. apply list_eqb_spec. intros; apply Z.eqb_eq. Qed.

Lemma field_eqb_eq a b : field_eqb a b = true <-> a = b.
Proof.
  split.
  - destruct a, b. unfold field_eqb. simpl. intro H.
    repeat (let X := fresh "X" in apply andb_true_iff in H as [H X]).
    apply bytes_eqb_eq in H. apply byte_eqb_eq in X2. apply byte_eqb_eq in X1.
    apply Z.eqb_eq in X0. apply zl_eqb_eq in X. subst. reflexivity.
  - intros ->. destruct b. unfold field_eqb. simpl.
    rewrite bytes_eqb_refl, !byte_eqb_refl, Z.eqb_refl. simpl.
    apply (list_eqb_spec Z.eqb); [intros; apply Z.eqb_eq | reflexivity].
Qed.

Lemma dtype_eqb_eq a b : dtype_eqb a b = true <-> a = b.
Proof. apply list_eqb_spec. apply field_eqb_eq. Qed.

Lemma rows_eqb_eq a b : rows_eqb a b = true <-> a = b.
Proof. apply list_eqb_spec. apply bytes_eqb_eq. Qed.

Theorem sf_check_sound dt rows ukeys o : sf_check dt rows ukeys o = true -> sf_ok dt rows ukeys o.
Proof.
  unfold sf_check, sf_ok. intro H.
  repeat (let X := fresh "X" in apply andb_true_iff in H as [H X]).
  apply dtype_eqb_eq in H. apply rows_eqb_eq in X2. apply Z.eqb_eq in X1. apply dtype_eqb_eq in X0.
  repeat (split; [assumption|]).
  intros k I R. rewrite forallb_forall in X. specialize (X k I). rewrite R in X. simpl in X.
  unfold key_kept in X. apply existsb_exists in X as [[k' b] [I' E]]. simpl in E.
  apply andb_true_iff in E as [E1 E2]. apply bytes_eqb_eq in E1. subst. exact I'.
Qed.

Theorem rf_check_sound dt rows o : rf_check dt rows o = true -> rf_ok dt rows o.
Proof.
  unfold rf_check, rf_ok. intro H. apply andb_true_iff in H as [H1 H2].
  split; [apply dtype_eqb_eq | apply rows_eqb_eq]; assumption.
Qed.

Theorem rows_fit_b_sound dt rows : rows_fit_b dt rows = true -> rows_fit dt rows.
Proof.
  unfold rows_fit_b, rows_fit. intro H. apply Forall_forall. intros r I.
  rewrite forallb_forall in H. apply Z.eqb_eq. apply H. exact I.
Qed.

(* the checkers are also complete: they reject nothing that meets the property *)
Theorem sf_check_complete dt rows ukeys o : sf_ok dt rows ukeys o -> sf_check dt rows ukeys o = true.
Proof.
  unfold sf_ok, sf_check. intros [H1 [H2 [H3 [H4 H5]]]].
  rewrite (proj2 (dtype_eqb_eq _ _) H1), (proj2 (rows_eqb_eq _ _) H2), (proj2 (Z.eqb_eq _ _) H3),
          (proj2 (dtype_eqb_eq _ _) H4). cbn [andb].
  apply forallb_forall. intros k I. destruct (reserved k) eqn:R; [reflexivity|]. cbn [orb].
  unfold key_kept. apply existsb_exists. exists (k, true). split; [exact (H5 k I R)|].
  cbn [fst snd]. rewrite bytes_eqb_refl. reflexivity.
Qed.

Theorem rf_check_complete dt rows o : rf_ok dt rows o -> rf_check dt rows o = true.
Proof.
  unfold rf_ok, rf_check. intros [H1 H2].
  rewrite (proj2 (dtype_eqb_eq _ _) H1), (proj2 (rows_eqb_eq _ _) H2). reflexivity.
Qed.

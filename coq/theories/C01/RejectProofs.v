(* C01/RejectProofs.v — what the readers reject: exactly which requests, with which error class. *)
From Coq Require Import ZArith List Bool NArith Lia ZifyBool ZifyNat.
From Coq.Strings Require Import Byte String.
From EsVerif.Common Require Import Base Bytes.
From EsVerif.C01 Require Import Framing FramingProofs Model Spec Proofs Big BigProofs.
Import ListNotations.
Open Scope Z_scope.
Open Scope list_scope.
Notation length := List.length.

(* ---------------------------------------------------------------- rejections of the low-level reader *)
(* exactly which requests are rejected, and that the only error class is ERuntime *)
Theorem take_rows_rejects rs n f :
  (take_rows rs n f = Err ERuntime <-> (length f < n * rs)%nat)
  /\ (forall e, take_rows rs n f = Err e -> e = ERuntime)
  /\ (forall rows, take_rows rs n f = Ok rows -> length rows = n /\ Forall (fun r => length r = rs) rows
                                                /\ concat rows = firstn (n * rs) f).
Proof.
  rewrite take_rows_fast_eq. unfold take_rows_fast. destruct (length f <? n * rs)%nat eqn:E.
  - split; [split; [lia | reflexivity]|]. split; [intros e H; inversion H; reflexivity | intros rows H; discriminate H].
  - split; [split; [intro H; discriminate H | lia]|]. split; [intros e H; discriminate H|].
    intros rows H. inversion H; subst rows. clear H. assert (L : (n * rs <= length f)%nat) by lia. clear E.
    revert f L. induction n as [|n IH]; intros f L; [cbn; repeat split; constructor|].
    cbn [chunks length concat]. destruct (IH (skipn rs f)) as [I1 [I2 I3]]; [rewrite skipn_length; lia|].
    split; [lia|]. split.
    + constructor; [rewrite firstn_length; lia | exact I2].
    + rewrite I3. replace (S n * rs)%nat with (rs + n * rs)%nat by lia.
      rewrite <- (firstn_skipn rs (firstn (rs + n * rs) f)). rewrite firstn_firstn, Nat.min_l by lia. f_equal.
      rewrite skipn_firstn_comm. f_equal. lia.
Qed.

(* a self-describing file whose data region lost its last k bytes (1 <= k <= all of it) is rejected with
   ERuntime by every self-describing reader: never a short or shifted table *)
Theorem truncated_rejected d dt rows k : hdr_text_ok d = true ->
  rows <> [] -> rows_fit dt rows -> 0 < rowsize dt ->
  (1 <= k <= length (bin_write rows))%nat ->
  let f := sfile_file d rows in
  sfile_read_c (firstn (length f - k) f) dt = Err ERuntime.
Proof.
  intros T NE F R K f. subst f. rewrite sfile_file_eq by exact T.
  set (hd := mk_header (Z.of_nat (length rows)) d). set (data := bin_write rows) in *.
  rewrite app_length. replace (length hd + length data - k)%nat with (length hd + (length data - k))%nat by lia.
  rewrite firstn_app_2. set (data' := firstn (length data - k) data).
  rewrite <- sfile_read_c_fast_eq. unfold sfile_read_c_fast, sfile_read_raw.
  unfold hd. rewrite read_sfile_header_spec by (try lia; exact T). cbn [bind fst snd].
  rewrite parse_header_spec by lia. cbn [bind fst snd].
  unfold recfile_read_fast. fold hd.
  assert (L1 : 1 <= Z.of_nat (length rows)) by (destruct rows; [contradiction | cbn [length]; lia]).
  replace (Z.of_nat (length rows) <? 0) with false by lia. replace (Z.of_nat (length rows) <? 1) with false by lia.
  rewrite !Nat2Z.id, skipn_app, skipn_all, Nat.sub_diag, skipn_O. cbn [app].
  unfold take_rows_fast.
  assert (F' : Forall (fun r => length r = Z.to_nat (rowsize dt)) rows).
  { eapply Forall_impl; [|exact F]. intros r Hr. cbv beta in Hr. lia. }
  assert (Ld : length data = (length rows * Z.to_nat (rowsize dt))%nat) by (apply concat_length_rows; exact F').
  assert (Ld' : length data' = (length data - k)%nat) by (unfold data'; rewrite firstn_length; lia).
  replace (length data' <? length rows * Z.to_nat (rowsize dt))%nat with true by lia.
  reflexivity.
Qed.

(* C01/Framing.v — byte-level model of the record-file framing shared by the record-file
   properties (C01; imported by C03).  Executable Gallina only, NO proofs in this file.

   Anchors (esheldon/esutil):
     esutil/sfile.py        _get_size_string (617-620), _write_header (545-579),
                            _extract_size_from_string (622-639), read_header (740-769)
     esutil/recfile/records.cpp
                            write_header_and_update_offset (1470-1483), read_sfile_header (1510-1556),
                            Write/WriteAllAsBinary (1561-1611), read_binary_slice (732-777),
                            process_nrows (220-227)
     esutil/recfile/Util.py _count_nrows (261-284), read/_read_binary_slice (334-396, 525-548)

   A file is the list of its bytes.  Header text is kept as bytes (the UTF-8 encoding that
   str.encode() / Py_BuildValue("s") produce and consume; the codec itself is not modelled). *)
From Coq Require Import ZArith List Bool NArith.
From Coq.Strings Require Import Byte String.
From EsVerif.Common Require Import Base Bytes.
Import ListNotations.
Open Scope Z_scope.
Open Scope list_scope.
Notation length := List.length.

Definition file := list byte.

Definition nl : byte := x0a.
Definition sp : byte := x20.
Definition B (s : string) : list byte := list_byte_of_string s.

(* ------------------------------------------------------------------ decimal printing *)
(* "%20d" % size (Python) and "SIZE = %20ld\n" (C): decimal digits, right-aligned in 20. *)
Definition digit (d : Z) : byte := byte_of_N (Z.to_N (48 + d)).

Fixpoint dec_aux (fuel : nat) (n : Z) (acc : list byte) : list byte :=
  match fuel with
  | O => acc
  | S f => let acc' := digit (n mod 10) :: acc in
           if n <? 10 then acc' else dec_aux f (n / 10) acc'
  end.

(* the fuel S(log2 n) always suffices (FramingProofs.dec_spec); only 0 <= n is meaningful *)
Definition dec (n : Z) : list byte := dec_aux (S (Z.to_nat (Z.log2 n))) n [].

Definition pad_left (w : nat) (l : list byte) : list byte := repeat sp (w - length l) ++ l.

Definition size_line (n : Z) : list byte := B "SIZE = " ++ pad_left 20 (dec n).

(* ------------------------------------------------------------------ C strings *)
(* strdup / fprintf("%s") / Py_BuildValue("s") all stop at the first NUL byte *)
Fixpoint cstr (l : list byte) : list byte :=
  match l with
  | [] => []
  | b :: t => if byte_eqb b x00 then [] else b :: cstr t
  end.

(* ------------------------------------------------------------------ writing the header *)
(* "\n".join([size_string, hdr_dict_string, "END", "", ""]) *)
Definition mk_header (n : Z) (d : list byte) : list byte :=
  size_line n ++ nl :: d ++ nl :: B "END" ++ [nl; nl].

(* write_header_and_update_offset on an empty file: rewind; fprintf("%s", header.c_str()) *)
Definition write_header (total : list byte) : file := cstr total.

(* ------------------------------------------------------------------ the END scanner *)
(* read_sfile_header AFTER the repair (fixes/C01): a window over the last five characters
   read, compared with "\nEND\n"; then count += 1 for the blank line. *)
Definition window := (byte * byte * byte * byte * byte)%type.
Definition w0 : window := (x00, x00, x00, x00, x00).
Definition shift (w : window) (c : byte) : window :=
  let '(_, b1, b2, b3, b4) := w in (b1, b2, b3, b4, c).
Definition wl (w : window) : list byte := let '(a, b, c, d, e) := w in [a; b; c; d; e].
Definition pat : list byte := nl :: B "END" ++ [nl].
(* bytes added to the count after the match: the blank line ("count += 1") *)
Definition blank_extra : nat := 1.
Definition is_end (w : window) : bool := bytes_eqb (wl w) pat.

(* `char c = fgetc(f); if (EOF == c) throw`: with signed char the byte 0xFF is taken for EOF *)
Fixpoint scan_loop (w : window) (count : nat) (f : list byte) : result nat :=
  match f with
  | [] => Err ERuntime
  | c :: rest =>
      if byte_eqb c xff then Err ERuntime
      else let w' := shift w c in
           if is_end w' then Ok (S count) else scan_loop w' (S count) rest
  end.

(* returns (header string handed to Python, data offset = ftell after the fread) *)
Definition read_sfile_header (f : file) : result (list byte * nat) :=
  do c <- scan_loop w0 0 f;
  let count := (c + blank_extra)%nat in
  if (length f <? count)%nat then Err ERuntime          (* fread returned fewer bytes *)
  else Ok (cstr (firstn count f), count).

Definition scan_end (f : file) : result nat :=
  do r <- read_sfile_header f; Ok (snd r).

(* The scanner of the UNCHANGED tree: three-character window compared with "END", count += 2.
   Kept to state what was wrong (Properties.C01_unrepaired_scanner_refuted). *)
Fixpoint scan_loop_v0 (w : byte * byte * byte) (count : nat) (f : list byte) : result nat :=
  match f with
  | [] => Err ERuntime
  | c :: rest =>
      if byte_eqb c xff then Err ERuntime
      else let '(_, b1, b2) := w in
           if bytes_eqb [b1; b2; c] (B "END") then Ok (S count)
           else scan_loop_v0 (b1, b2, c) (S count) rest
  end.
Definition read_sfile_header_v0 (f : file) : result (list byte * nat) :=
  do c <- scan_loop_v0 (x00, x00, x00) 0 f;
  let count := (c + 2)%nat in
  if (length f <? count)%nat then Err ERuntime
  else Ok (cstr (firstn count f), count).

(* ------------------------------------------------------------------ parsing the header string *)
(* str.split(sep) for a one-character separator *)
Fixpoint split_on (sep : byte) (l : list byte) : list (list byte) :=
  match l with
  | [] => [[]]
  | b :: t =>
      if byte_eqb b sep then [] :: split_on sep t
      else match split_on sep t with
           | cur :: rest => (b :: cur) :: rest
           | [] => [[b]]
           end
  end.
Definition split_nl := split_on nl.

Fixpoint join (sep : list byte) (ls : list (list byte)) : list byte :=
  match ls with
  | [] => []
  | x :: t => match t with [] => x | _ => x ++ sep ++ join sep t end
  end.

(* ASCII view of str.strip()/str.upper()/str.lower() (the first header line and the reserved
   key names are ASCII; other code points are left alone) *)
Definition is_ws (b : byte) : bool :=
  let z := bZ b in ((9 <=? z) && (z <=? 13)) || ((28 <=? z) && (z <=? 32)).
Definition is_digit (b : byte) : bool := let z := bZ b in (48 <=? z) && (z <=? 57).
Definition upper_b (b : byte) : byte := let z := bZ b in if (97 <=? z) && (z <=? 122) then Zb (z - 32) else b.
Definition lower_b (b : byte) : byte := let z := bZ b in if (65 <=? z) && (z <=? 90) then Zb (z + 32) else b.
Definition upper := map upper_b.
Definition lower := map lower_b.

Fixpoint drop_ws (l : list byte) : list byte :=
  match l with
  | b :: t => if is_ws b then drop_ws t else l
  | [] => []
  end.
Definition strip (l : list byte) : list byte := rev (drop_ws (rev (drop_ws l))).

Fixpoint read_digits (acc : Z) (l : list byte) : Z * list byte :=
  match l with
  | b :: t => if is_digit b then read_digits (10 * acc + (bZ b - 48)) t else (acc, l)
  | [] => (acc, [])
  end.

(* eval(text) for the right-hand side of the SIZE line: blanks, decimal digits, blanks.
   Anything else (which "SIZE = %20d" cannot produce) is reported as an error. *)
Definition eval_int (l : list byte) : result Z :=
  match drop_ws l with
  | [] => Err EOther
  | (b :: _) as l1 =>
      if is_digit b then
        let '(v, rest) := read_digits 0 l1 in
        match drop_ws rest with [] => Ok v | _ => Err EOther end
      else Err EOther
  end.

(* SFile._extract_size_from_string *)
Definition parse_size (line : list byte) : result Z :=
  match split_on "="%byte line with
  | [name; val] =>
      let nm := upper (strip name) in
      if bytes_eqb nm (B "SIZE") || bytes_eqb nm (B "NROWS") then eval_int val else Err EValue
  | _ => Err EValue
  end.

(* SFile.read_header up to the eval of the dict text:
   lines = hdrstring.split("\n"); size from lines[0]; " ".join(lines[1:len(lines)-3]) *)
Definition parse_header (hs : list byte) : result (Z * list byte) :=
  let lines := split_nl hs in
  match lines with
  | [] => Err EOther
  | l0 :: rest =>
      do size <- parse_size l0;
      Ok (size, join [sp] (firstn (length lines - 3 - 1) rest))
  end.

(* ------------------------------------------------------------------ binary rows *)
(* Write: fseek(END); fwrite(data, rowsize, nrows) of a contiguous array *)
Definition bin_write (rows : list (list byte)) : list byte := concat rows.

(* fread(ptr, rowsize, n, f): all n complete rows or an error *)
Fixpoint take_rows (rowsize n : nat) (f : list byte) : result (list (list byte)) :=
  match n with
  | O => Ok []
  | S k =>
      if (length f <? rowsize)%nat then Err ERuntime
      else do t <- take_rows rowsize k (skipn rowsize f); Ok (firstn rowsize f :: t)
  end.

(* Recfile._count_nrows for a binary file *)
Definition count_nrows (filelen offset rowsize : Z) : Z := (filelen - offset) / rowsize.

(* Recfile(mode='r', dtype, nrows, offset).read(): nrows None or < 0 means "count";
   Records::process_nrows rejects nrows < 1; read_binary_slice(0, nrows, 1) seeks to the
   offset and freads nrows rows into a zeroed array *)
Definition recfile_read (f : file) (offset rowsize : Z) (nrows : option Z) : result (list (list byte)) :=
  let n := match nrows with
           | Some n => if n <? 0 then count_nrows (Z.of_nat (length f)) offset rowsize else n
           | None => count_nrows (Z.of_nat (length f)) offset rowsize
           end in
  if n <? 1 then Err ERuntime
  else take_rows (Z.to_nat rowsize) (Z.to_nat n) (skipn (Z.to_nat offset) f).

(* ------------------------------------------------------------------ dtypes *)
(* a packed structured dtype as numpy's descr shows it: ('name', '<f8', (2,3)) *)
Record field := { f_name : list byte; f_order : byte; f_kind : byte; f_size : Z; f_shape : list Z }.
Definition dtype := list field.
Definition nelem (sh : list Z) : Z := fold_right Z.mul 1 sh.
Definition field_bytes (f : field) : Z := f_size f * nelem (f_shape f).
Definition rowsize (dt : dtype) : Z := zsum (map field_bytes dt).

(* ------------------------------------------------------------------ the self-describing file *)
(* bytes that SFile(mode='w').write(data, header) leaves on disk, given the pformat text d of
   the header dict and the rows of data *)
Definition sfile_file (d : list byte) (rows : list (list byte)) : file :=
  write_header (mk_header (Z.of_nat (length rows)) d) ++ bin_write rows.

(* SFile.read_header up to (not including) the eval: (size, dict text, data offset) *)
Definition sfile_read_raw (f : file) : result (Z * list byte * nat) :=
  do r <- read_sfile_header f;
  do p <- parse_header (fst r);
  Ok (fst p, snd p, snd r).

(* the premise of the round trip on the header text: what write and scan need *)
Definition clean_b (b : byte) : bool := negb (byte_eqb b x00) && negb (byte_eqb b xff).
Definition clean (l : list byte) : bool := forallb clean_b l.
Definition hdr_text_ok (d : list byte) : bool :=
  clean d && forallb (fun l => negb (bytes_eqb l (B "END"))) (split_nl d).

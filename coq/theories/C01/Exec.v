(* C01/Exec.v — glue evaluated by generated case files:
   verdict = (model <> implementation ? 1 : 0) + (property checker rejects implementation ? 2 : 0).

   The harness supplies per case: the pformat text [d] of the header dict that the REAL
   SFile._make_header built, the dtype and the rows of the table, and what the real code did:
   the bytes of the file it wrote, what the real read_sfile_header returned on that file, the
   text the real read_header handed to eval, and the read-back table/header. *)
From Coq Require Import ZArith List Bool NArith.
From Coq.Strings Require Import Byte String.
From EsVerif.Common Require Import Base Bytes.
From EsVerif.C01 Require Import Framing Model Spec Layout Big Pyval Uncond.
Import ListNotations.
Open Scope Z_scope.
Open Scope list_scope.
Notation length := List.length.

(* literal helpers for the printers *)
Definition fld (name order kind : list byte) (size : Z) (shape : list Z) : field :=
  {| f_name := name; f_order := hd x00 order; f_kind := hd x00 kind; f_size := size; f_shape := shape |}.

Definition scan_eqb (a b : list byte * Z) : bool := bytes_eqb (fst a) (fst b) && (snd a =? snd b).
Definition scan_model (f : file) : result (list byte * Z) :=
  do r <- read_sfile_header f; Ok (fst r, Z.of_nat (snd r)).
Definition evaltext_model (f : file) : result (list byte) :=
  do raw <- sfile_read_raw f; Ok (snd (fst raw)).
Definition szrows_eqb (a b : Z * list (list byte)) : bool := (fst a =? fst b) && rows_eqb (snd a) (snd b).

(* ---- self-describing entry points: sfile.write/read, SFile, io.write/io.read *)
Definition v_sfile (d : list byte) (dt : dtype) (rows : list (list byte)) (ukeys : list (list byte))
           (impl_file : list byte) (impl_scan : result (list byte * Z)) (impl_evaltext : result (list byte))
           (out : result sf_out) : Z :=
  let mfile := sfile_file d rows in
  verdict
    (bytes_eqb mfile impl_file
     && result_eqb scan_eqb (scan_model impl_file) impl_scan
     && result_eqb bytes_eqb (evaltext_model impl_file) impl_evaltext
     && result_eqb szrows_eqb (sfile_read_c mfile dt)
          (match out with Ok o => Ok (o_size o, o_rows o) | Err e => Err e end))
    (match out with Ok o => sf_check dt rows ukeys o | Err _ => false end).

(* ---- malformed stream: an arbitrary file read through sfile.read, dtype [dt] as eval'd by
   the real code (or the dummy when the real code never got that far); correspondence only *)
Definition v_sfile_raw (f : file) (dt : dtype) (out : result (Z * list (list byte))) : Z :=
  verdict (result_eqb szrows_eqb (sfile_read_c f dt) out) true.

(* ---- plain record file: recfile.write/read, Recfile *)
Definition v_recfile (dt : dtype) (rows : list (list byte)) (nrows : option Z)
           (impl_file : list byte) (out : result (dtype * list (list byte))) : Z :=
  verdict
    (bytes_eqb (recfile_write rows) impl_file
     && result_eqb rows_eqb (recfile_read0 (recfile_write rows) dt nrows)
          (match out with Ok o => Ok (snd o) | Err e => Err e end))
    (match out with Ok o => rf_check dt rows o | Err _ => false end).

(* ---- malformed stream for the low-level reader: arbitrary bytes, any dtype/nrows/offset *)
Definition v_recfile_raw (f : file) (offset : Z) (dt : dtype) (nrows : option Z)
           (out : result (list (list byte))) : Z :=
  verdict (result_eqb rows_eqb (recfile_read f offset (rowsize dt) nrows) out) true.

(* ---- written through the self-describing module, data region read by the low-level reader
   given the dtype and the data offset reported by the real scanner; also the raw bytes after
   the END line *)
Definition v_region (d : list byte) (dt : dtype) (rows : list (list byte)) (nrows : option Z)
           (impl_file : list byte) (impl_offset : Z) (out : result (dtype * list (list byte))) : Z :=
  let mfile := sfile_file d rows in
  verdict
    (bytes_eqb mfile impl_file
     && match scan_end mfile with
        | Ok off => (Z.of_nat off =? impl_offset)
                    && result_eqb rows_eqb (recfile_read mfile (Z.of_nat off) (rowsize dt) nrows)
                         (match out with Ok o => Ok (snd o) | Err e => Err e end)
        | Err _ => false
        end)
    (bytes_eqb (skipn (Z.to_nat impl_offset) impl_file) (bin_write rows)
     && match out with Ok o => rf_check dt rows o | Err _ => false end).

(* ---- contract monitor, clause (a) of H_pf, evaluated with the verified definition *)
Definition v_text_ok (d : list byte) : Z := if hdr_text_ok d then 0 else 1.

(* ---- constants extracted from the source on every run (sfile.py via ast, records.cpp via
   regex) against the constants of the model *)
Definition v_tie_size (n : Z) (txt : list byte) : Z := if bytes_eqb (size_line n) txt then 0 else 1.
Definition v_tie_keys (ks : list (list byte)) : Z := if list_eqb bytes_eqb deleted_keys ks then 0 else 1.
Definition v_tie_version (v : list byte) : Z := if bytes_eqb sfile_version v then 0 else 1.
Definition v_tie_scan (lit : list byte) (n incr : nat) : Z :=
  if bytes_eqb pat lit && Nat.eqb (length pat) n && Nat.eqb blank_extra incr then 0 else 1.

(* ---- the array as numpy holds it: buffer of the base array, offset of element 0, (length,
   stride) per dimension, item size.  Model: the rows of the view are the rows numpy reports
   (ascontiguousarray().tobytes()), the file Recfile.write leaves is recfile_write_view, and the
   read-back; property: the file is the rows, the read-back is the rows *)
Definition mkview (buf : list byte) (start : Z) (dims : list (Z * Z)) (item : Z) : ndview :=
  {| v_buf := buf; v_start := start; v_dims := map (fun p => (Z.to_nat (fst p), snd p)) dims;
     v_item := Z.to_nat item |}.
Definition v_layout (v : ndview) (dt : dtype) (np_rows : list (list byte)) (impl_file : list byte)
           (out : result (dtype * list (list byte))) : Z :=
  verdict
    (in_bounds v && rows_eqb (view_rows v) np_rows && bytes_eqb (recfile_write_view v) impl_file
     && result_eqb rows_eqb (recfile_read0 (recfile_write_view v) dt None)
          (match out with Ok o => Ok (snd o) | Err e => Err e end))
    (bytes_eqb impl_file (bin_write np_rows)
     && match out with Ok o => rf_check dt np_rows o | Err _ => false end).
(* what the writer of the unchanged tree would leave for the same array (replay files only) *)
Definition show_layout_v0 (v : ndview) : list byte * list byte := (recfile_write_view_v0 v, recfile_write_view v).

(* ---- SFile._make_header against Model.make_header: the user's keys (dict order) carry the ids
   1..n as values, _VERSION is -1 and _DTYPE is -2; the harness prints the header dict the real
   _make_header built the same way (a value that is not equal to what it should be is 0) *)
Definition idhdr (ks : list (list byte)) : hdict Z := combine ks (zseq 1 (length ks)).
Definition pairs_eqb : list (list byte * Z) -> list (list byte * Z) -> bool :=
  list_eqb (fun a b => bytes_eqb (fst a) (fst b) && (snd a =? snd b)).
Definition v_mkheader (ukeys : list (list byte)) (impl : list (list byte * Z)) : Z :=
  if pairs_eqb (make_header Z (fun _ => -1) (fun _ => -2) (idhdr ukeys) []) impl then 0 else 1.

(* ---- literal compression for the printers: the text handed to eval is the pformat text with
   every newline replaced by a blank (checked byte-for-byte in Python before it is printed so) *)
Definition nl2sp (l : list byte) : list byte := map (fun b => if byte_eqb b x0a then x20 else b) l.

(* ---- many-rows family (tables around the block sizes a C reader or stdio could use: 2^k, 2^k +- 1,
   k = 10..17).  Same verdicts as v_sfile / v_recfile, evaluated with the fast readers of Big.v
   (Properties.C01_fast_readers_are_model: the same functions); rows, file data and read-back rows
   come in as arithmetic-progression runs (Big.dec_runs) and are compared as decoded byte lists *)
Definition v_big_sfile (d : list byte) (dt : dtype) (rows : list (list byte)) (ukeys : list (list byte))
           (impl_file : list byte) (impl_scan : result (list byte * Z)) (impl_evaltext : result (list byte))
           (out : result sf_out) : Z :=
  let mfile := sfile_file d rows in
  verdict
    (bytes_eqb mfile impl_file
     && result_eqb scan_eqb (scan_model impl_file) impl_scan
     && result_eqb bytes_eqb (evaltext_model impl_file) impl_evaltext
     && result_eqb szrows_eqb (sfile_read_c_fast mfile dt)
          (match out with Ok o => Ok (o_size o, o_rows o) | Err e => Err e end))
    (match out with Ok o => sf_check dt rows ukeys o | Err _ => false end).

Definition v_big_recfile (dt : dtype) (rows : list (list byte)) (nrows : option Z)
           (impl_file : list byte) (out : result (dtype * list (list byte))) : Z :=
  verdict
    (bytes_eqb (recfile_write rows) impl_file
     && result_eqb rows_eqb (recfile_read0_fast (recfile_write rows) dt nrows)
          (match out with Ok o => Ok (snd o) | Err e => Err e end))
    (match out with Ok o => rf_check dt rows o | Err _ => false end).

(* the implementation returned something too irregular to be printed as runs: [window] are its
   rows from row [r] on, as literals, around the first row that differs from the table written.
   Never 0: 3 when the window differs from the rows of the table (a failing input), else 1. *)
Definition v_big_window (rows : list (list byte)) (r : Z) (window : list (list byte)) : Z :=
  verdict false (rows_eqb window (firstn (length window) (skipn (Z.to_nat r) rows))).

(* ---- the Python layer (Pyval.v / Uncond.v) against the REAL pformat / eval / numpy.dtype:
   [real] is the text the real pprint.pformat produced, [uhdr] the user's header and [head] the dict
   the real _make_header built from it (dict order; nested dicts sorted as pformat prints them),
   [mirror] the harness's own rendering of Pyval.pv_print for [head] (the harness also hands it to
   the real eval and compares the result with the header), [dt] the dtype of the data.
   0 iff Uncond.hpf_check accepts — the real text satisfies clause (a) of H_pf, the model's
   _make_header gives exactly [head], the VERIFIED parser reads the real text back to a dict equal
   to [head] (Properties.C01_hpf_check_sound: then H_pf holds for the real text) — and the model
   printer's text for [head] is [mirror] *)
Definition v_hpf_real (real : list byte) (uhdr head : hdict pv) (mirror : list byte) (dt : dtype) : Z :=
  if hpf_check_all real uhdr head dt && bytes_eqb (py_pformat head) mirror then 0 else 1.

(* C01/Spec.v — the property as Props, plus the boolean checkers evaluated on the
   implementation's outputs by the correspondence run (soundness in Proofs.v). *)
From Coq Require Import ZArith List Bool NArith.
From Coq.Strings Require Import Byte String.
From EsVerif.Common Require Import Base Bytes.
From EsVerif.C01 Require Import Framing Model Layout.
Import ListNotations.
Open Scope Z_scope.
Open Scope list_scope.
Notation length := List.length.

(* ---------------------------------------------------------------- reserved header names *)
(* exactly the names SFile._make_header deletes (any spelling of the five) or overwrites *)
Definition reserved_keys : list (list byte) := deleted_keys ++ [B "_DTYPE"; B "_VERSION"].
Definition reserved (k : list byte) : bool :=
  is_stripped k || existsb (bytes_eqb k) [B "_DTYPE"; B "_VERSION"].

(* What is left of the carve-out after /repo 04e3f20: a user key that spells _dtype in another way
   than _DTYPE.  The reader looks the dtype up case-insensitively and takes the FIRST match in dict
   order; the real code is safe because pformat sorts the keys (_DTYPE sorts before every other
   spelling), but the order of the evaluated dict is not part of the contract H_pf, so the abstract
   theorem keeps this premise (Properties.C01_roundtrip_needs_user_hdr_ok); the harness generates
   such keys and the real code is judged on them by the checker. *)
Definition user_key_ok (k : list byte) : bool :=
  negb (bytes_eqb (lower k) (B "_dtype")) || bytes_eqb k (B "_DTYPE").

Section PySpec.
  Variable pyval : Type.
  Variable pyeq : pyval -> pyval -> Prop.        (* Python's == on header values *)

  Definition user_hdr_ok (h : hdict pyval) : Prop :=
    forall k, In k (keys pyval h) -> user_key_ok k = true.

  (* d1 == d2 for dicts: same keys, equal values (insertion order is irrelevant) *)
  Definition dict_equiv (h1 h2 : hdict pyval) : Prop :=
    forall k, match dget pyval k h1, dget pyval k h2 with
              | Some a, Some b => pyeq a b
              | None, None => True
              | _, _ => False
              end.

  (* H_pf, for ONE header dict [head] (the one _make_header built) and ONE dtype:
     (a) the pformat text has no NUL / 0xFF byte and none of its lines is exactly END;
     (b) eval of the lines joined by blanks gives back an equal dict;
     (c) numpy.dtype of the evaluated _DTYPE entry is the dtype of the data. *)
  Definition H_pf (pformat : hdict pyval -> list byte) (pyeval : list byte -> option (hdict pyval))
             (np_dtype : pyval -> option dtype) (head : hdict pyval) (dt : dtype) : Prop :=
    hdr_text_ok (pformat head) = true
    /\ exists h', pyeval (join [sp] (split_nl (pformat head))) = Some h'
                  /\ dict_equiv h' head
                  /\ forall v, dget pyval (B "_DTYPE") h' = Some v -> np_dtype v = Some dt.

  (* what the round trip must deliver (the statement of C01 for one written table) *)
  Definition roundtrip_ok (v_int : Z -> pyval) (np_dtype : pyval -> option dtype)
             (hdr : hdict pyval) (dt : dtype) (rows : list (list byte))
             (out : dtype * list (list byte) * hdict pyval) : Prop :=
    let '(dt', rows', hdr') := out in
    dt' = dt                                            (* names, types, sub-shapes, byte order *)
    /\ rows' = rows                                     (* identical bytes in every row *)
    /\ dget pyval (B "_SIZE") hdr' = Some (v_int (Z.of_nat (length rows)))
    /\ (exists v, dget pyval (B "_DTYPE") hdr' = Some v /\ np_dtype v = Some dt)
    /\ forall k v, reserved k = false -> dget pyval k hdr = Some v ->
                   exists v', dget pyval k hdr' = Some v' /\ pyeq v' v.
End PySpec.

(* ---------------------------------------------------------------- checkers on implementation outputs *)
Definition zl_eqb := list_eqb Z.eqb.
Definition field_eqb (a b : field) : bool :=
  bytes_eqb (f_name a) (f_name b) && byte_eqb (f_order a) (f_order b) && byte_eqb (f_kind a) (f_kind b)
  && (f_size a =? f_size b) && zl_eqb (f_shape a) (f_shape b).
Definition dtype_eqb := list_eqb field_eqb.
Definition rows_eqb := list_eqb bytes_eqb.

(* What the harness observes after a real write + read through a self-describing entry point:
   the dtype of the returned array, its rows as bytes, the header's _SIZE, the dtype that
   numpy.dtype(header['_DTYPE']) reconstructs, and per user key whether it is present with an
   equal (Python ==) value. *)
Record sf_out := { o_dtype : dtype; o_rows : list (list byte); o_size : Z;
                   o_hdtype : dtype; o_keys : list (list byte * bool) }.

Definition sf_ok (dt : dtype) (rows : list (list byte)) (ukeys : list (list byte)) (o : sf_out) : Prop :=
  o_dtype o = dt /\ o_rows o = rows /\ o_size o = Z.of_nat (length rows) /\ o_hdtype o = dt
  /\ forall k, In k ukeys -> reserved k = false -> In (k, true) (o_keys o).

Definition key_kept (o : sf_out) (k : list byte) : bool :=
  existsb (fun p => bytes_eqb (fst p) k && snd p) (o_keys o).
Definition sf_check (dt : dtype) (rows : list (list byte)) (ukeys : list (list byte)) (o : sf_out) : bool :=
  dtype_eqb (o_dtype o) dt && rows_eqb (o_rows o) rows && (o_size o =? Z.of_nat (length rows))
  && dtype_eqb (o_hdtype o) dt && forallb (fun k => reserved k || key_kept o k) ukeys.

(* low-level reader given the dtype: dtype of the returned array and its rows *)
Definition rf_ok (dt : dtype) (rows : list (list byte)) (o : dtype * list (list byte)) : Prop :=
  fst o = dt /\ snd o = rows.
Definition rf_check (dt : dtype) (rows : list (list byte)) (o : dtype * list (list byte)) : bool :=
  dtype_eqb (fst o) dt && rows_eqb (snd o) rows.

(* the rows of a table have the row size of its dtype *)
Definition rows_fit (dt : dtype) (rows : list (list byte)) : Prop :=
  Forall (fun r => Z.of_nat (length r) = rowsize dt) rows.
Definition rows_fit_b (dt : dtype) (rows : list (list byte)) : bool :=
  forallb (fun r => Z.of_nat (length r) =? rowsize dt) rows.

(* ---------------------------------------------------------------- class of the repaired write defect *)
(* fixes/C01/0002: the failing inputs of the unrepaired writer are arrays that are not
   C-contiguous (Properties.C01_unrepaired_write_contiguous / _refuted); the harness's
   classify() returns "C01.kf_noncontiguous_write" for exactly these *)
Definition kf_noncontiguous_write (v : ndview) : bool := negb (is_c_contiguous v).

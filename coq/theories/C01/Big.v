(* C01/Big.v — evaluation of the model on tables with 10^4..10^5 rows.  NO proofs here.

   (1) Framing.take_rows asks for the length of the rest of the file before every row, which is
       quadratic when evaluated; [take_rows_fast] asks once.  BigProofs.v proves that the two are
       the same function, so the verdicts that use the fast readers evaluate the model.
   (2) Case files cannot carry megabytes as literals.  A table (the input rows, the data region of
       the file the real code wrote, the rows the real code read back) is printed as a list of
       arithmetic-progression runs: [Run n first step] stands for n rows of s = |first| bytes whose
       k-th row is the little-endian s-byte number first + k*step (mod 256^s).  The encoder in
       harness/props/C01.py is generic (it looks only at the bytes it is given, never at how the
       input was generated) and lossless; [dec_runs] below is its decoder, and every comparison of
       rows and files is done on the decoded byte lists inside Coq. *)
From Coq Require Import ZArith List Bool NArith.
From Coq.Strings Require Import Byte String.
From EsVerif.Common Require Import Base Bytes.
From EsVerif.C01 Require Import Framing Model.
Import ListNotations.
Open Scope Z_scope.
Open Scope list_scope.
Notation length := List.length.

(* ------------------------------------------------------------------ fast row reader *)
Fixpoint chunks (rs n : nat) (f : list byte) : list (list byte) :=
  match n with
  | O => []
  | S k => firstn rs f :: chunks rs k (skipn rs f)
  end.

Definition take_rows_fast (rs n : nat) (f : list byte) : result (list (list byte)) :=
  if (length f <? n * rs)%nat then Err ERuntime else Ok (chunks rs n f).

Definition recfile_read_fast (f : file) (offset rowsize : Z) (nrows : option Z) : result (list (list byte)) :=
  let n := match nrows with
           | Some n => if n <? 0 then count_nrows (Z.of_nat (length f)) offset rowsize else n
           | None => count_nrows (Z.of_nat (length f)) offset rowsize
           end in
  if n <? 1 then Err ERuntime
  else take_rows_fast (Z.to_nat rowsize) (Z.to_nat n) (skipn (Z.to_nat offset) f).

Definition sfile_read_c_fast (f : file) (dt : dtype) : result (Z * list (list byte)) :=
  do raw <- sfile_read_raw f;
  let '(size, _, offset) := raw in
  do rows <- recfile_read_fast f (Z.of_nat offset) (rowsize dt) (Some size);
  Ok (size, rows).

Definition recfile_read0_fast (f : file) (dt : dtype) (nrows : option Z) : result (list (list byte)) :=
  recfile_read_fast f 0 (rowsize dt) nrows.

(* ------------------------------------------------------------------ arithmetic-progression runs *)
(* little-endian base-256 digits; addition with carry, the final carry is dropped (mod 256^s) *)
Fixpoint add_carry (a b : list Z) (c : Z) : list Z :=
  match a, b with
  | x :: ta, y :: tb =>
      let d := x + y + c in
      if d <? 256 then d :: add_carry ta tb 0 else (d - 256) :: add_carry ta tb 1
  | _, _ => []
  end.

Definition row_of (d : list Z) : list byte := map (fun z => byte_of_N (Z.to_N z)) d.

Fixpoint ap_run (n : nat) (cur step : list Z) : list (list byte) :=
  match n with
  | O => []
  | S k => row_of cur :: ap_run k (add_carry cur step 0) step
  end.

Inductive run := Run (count : Z) (first step : list byte).

Definition dec_run (r : run) : list (list byte) :=
  match r with Run c f s => ap_run (Z.to_nat c) (map bZ f) (map bZ s) end.

Definition dec_runs (rs : list run) : list (list byte) := flat_map dec_run rs.

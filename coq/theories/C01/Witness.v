(* C01/Witness.v — concrete instances: the defect of the unrepaired scanner, and a non-vacuity
   instance of the round-trip theorem (all by computation). *)
From Coq Require Import ZArith List Bool NArith Lia.
From Coq.Strings Require Import Byte String.
From EsVerif.Common Require Import Base Bytes.
From EsVerif.C01 Require Import Framing FramingProofs Model Spec Layout LayoutProofs Proofs Pyval PyvalProofs Uncond Frame FrameProofs.
Import ListNotations.
Open Scope Z_scope.
Open Scope list_scope.
Notation length := List.length.

(* pformat({'_DTYPE': [('x', '<i2')], '_VERSION': '1.0', 'k': 'THE END'}) wraps at 80 columns *)
Definition w_text_value : list byte :=
  B "{'_DTYPE': [('x', '<i2')], '_VERSION': '1.0', 'k': 'THE END'}".
(* a field named TREND *)
Definition w_text_field : list byte :=
  B "{'_DTYPE': [('TREND', '<i2')], '_VERSION': '1.0'}".

Definition offset_v0 (f : file) : result nat := do r <- read_sfile_header_v0 f; Ok (snd r).

Lemma unrepaired_scanner_refuted :
  exists n d data, 0 <= n /\ hdr_text_ok d = true
    /\ offset_v0 (mk_header n d ++ data) <> Ok (length (mk_header n d)).
Proof.
  exists 2, w_text_value, [x01; x00; xff; x7f]. split; [lia|]. split; [reflexivity|].
  vm_compute. intro X. discriminate X.
Qed.

Lemma unrepaired_scanner_refuted_field_name :
  exists n d data, 0 <= n /\ hdr_text_ok d = true
    /\ offset_v0 (mk_header n d ++ data) <> Ok (length (mk_header n d)).
Proof.
  exists 2, w_text_field, [x01; x00; xff; x7f]. split; [lia|]. split; [reflexivity|].
  vm_compute. intro X. discriminate X.
Qed.

(* ---- a closed instance of every premise of the round-trip theorem.  Header values are
   modelled here by their repr text; pformat/eval/numpy.dtype are the (trivially correct)
   functions that know this one header. *)
Definition ex_dt : dtype :=
  [{| f_name := B "x"; f_order := "<"%byte; f_kind := "i"%byte; f_size := 2; f_shape := [] |}].
Definition ex_hdr : hdict (list byte) := [(B "k", B "'THE END'"); (B "_size", B "7")].
Definition ex_rows : list (list byte) := [[x01; x00]; [xff; x7f]].
Definition ex_vstr (s : list byte) : list byte := B "'" ++ s ++ B "'".
Definition ex_vdescr (_ : dtype) : list byte := B "[('x', '<i2')]".
Definition ex_head := make_header (list byte) ex_vstr ex_vdescr ex_hdr ex_dt.
Definition ex_pformat (_ : hdict (list byte)) : list byte := w_text_value.
Definition ex_pyeval (_ : list byte) : option (hdict (list byte)) := Some ex_head.
Definition ex_np_dtype (_ : list byte) : option dtype := Some ex_dt.

Lemma nonvacuous :
  H_pf (list byte) eq ex_pformat ex_pyeval ex_np_dtype ex_head ex_dt
  /\ user_hdr_ok (list byte) ex_hdr
  /\ ex_rows <> [] /\ rows_fit ex_dt ex_rows /\ 0 < rowsize ex_dt
  /\ sfile_read (list byte) ex_vstr dec ex_np_dtype ex_pyeval
       (sfile_write (list byte) ex_vstr ex_vdescr ex_pformat ex_hdr ex_dt ex_rows)
     = Ok (ex_dt, ex_rows,
           [(B "k", B "'THE END'"); (B "_DTYPE", B "[('x', '<i2')]"); (B "_VERSION", B "'1.0'"); (B "_SIZE", B "2")])
  /\ scan_end (mk_header 2 w_text_value ++ concat ex_rows) = Ok 95%nat.
Proof.
  split; [|split; [|split; [|split; [|split; [|split]]]]].
  - split; [reflexivity|]. exists ex_head. split; [reflexivity|]. split.
    + intro k. destruct (dget (list byte) k ex_head); reflexivity || exact I.
    + intros v _. reflexivity.
  - intros k I. simpl in I. destruct I as [<-|[<-|[]]]; reflexivity.
  - discriminate.
  - repeat constructor.
  - reflexivity.
  - vm_compute. reflexivity.
  - vm_compute. reflexivity.
Qed.

(* ---- closed instances of the premises of the layout theorems *)
Definition ex_dt1 : dtype :=
  [{| f_name := B "b"; f_order := "|"%byte; f_kind := "u"%byte; f_size := 1; f_shape := [] |}].
Definition w_contig : ndview :=
  {| v_buf := [x01; x02; x03; x04]; v_start := 1; v_dims := [(2%nat, 1)]; v_item := 1 |}.

Lemma layout_nonvacuous :
  (* a strided view meets the premises of the any-layout round trip, and the round trip computes *)
  (in_bounds w_strided = true /\ (1 <= view_size w_strided)%nat
   /\ Z.of_nat (v_item w_strided) = rowsize ex_dt1 /\ 0 < rowsize ex_dt1
   /\ recfile_read0 (recfile_write_view w_strided) ex_dt1 None = Ok [[x01]; [x03]]
   /\ recfile_read0 (recfile_write_view_v0 w_strided) ex_dt1 None = Ok [[x01]; [x02]])
  (* a C-contiguous view (not starting at the first byte of its buffer) meets the premises of
     the contiguous case of the unrepaired writer *)
  /\ (kf_noncontiguous_write w_contig = false /\ in_bounds w_contig = true /\ 0 <= v_start w_contig
      /\ v_start w_contig + Z.of_nat (view_size w_contig * v_item w_contig) <= Z.of_nat (length (v_buf w_contig))
      /\ recfile_write_view_v0 w_contig = [x02; x03]).
Proof.
  repeat split; try (vm_compute; reflexivity); try (vm_compute; intro X; discriminate X);
    try (vm_compute; repeat constructor).
Qed.

(* ---- what is left of the premise user_hdr_ok (a user key that spells _dtype otherwise than _DTYPE)
   cannot be dropped from the ABSTRACT theorem: the contract H_pf says nothing about the order of the
   evaluated dict, and the reader takes the first key that lower-cases to _dtype.  Here eval returns
   the header in the order it was built (user keys first).  The real code is safe because pformat
   sorts the keys and _DTYPE sorts before every other spelling. *)
Definition bad_hdr : hdict (list byte) := [(B "_dtype", B "'f8'")].
Definition bad_text : list byte := B "{'_dtype': 'f8', '_DTYPE': [('x', '<i2')], '_VERSION': '1.0'}".
Definition bad_head := make_header (list byte) ex_vstr ex_vdescr bad_hdr ex_dt.
Definition bad_pformat (_ : hdict (list byte)) : list byte := bad_text.
Definition bad_pyeval (_ : list byte) : option (hdict (list byte)) := Some bad_head.
Definition bad_np_dtype (v : list byte) : option dtype :=
  if bytes_eqb v (B "[('x', '<i2')]") then Some ex_dt else None.

Lemma roundtrip_needs_user_hdr_ok :
  H_pf (list byte) eq bad_pformat bad_pyeval bad_np_dtype bad_head ex_dt
  /\ ~ user_hdr_ok (list byte) bad_hdr
  /\ ex_rows <> [] /\ rows_fit ex_dt ex_rows /\ 0 < rowsize ex_dt
  /\ reserved (B "_dtype") = false
  /\ sfile_read (list byte) ex_vstr dec bad_np_dtype bad_pyeval
       (sfile_write (list byte) ex_vstr ex_vdescr bad_pformat bad_hdr ex_dt ex_rows) = Err EType.
Proof.
  split; [|split; [|split; [|split; [|split; [|split]]]]].
  - split; [reflexivity|]. exists bad_head. split; [reflexivity|]. split.
    + intro k. destruct (dget (list byte) k bad_head); reflexivity || exact I.
    + intros v G. vm_compute in G. inversion G; subst. reflexivity.
  - intro U. specialize (U (B "_dtype") (or_introl eq_refl)). vm_compute in U. discriminate U.
  - discriminate.
  - repeat constructor.
  - reflexivity.
  - reflexivity.
  - vm_compute. reflexivity.
Qed.

(* ---- _make_header as found (before /repo 04e3f20): only the all-lower and all-upper spellings of
   the five names were removed.  A user key _Delim then survives into the file, the reader's
   case-insensitive lookup takes the binary file for a text file; with the repaired _make_header
   the same header round-trips. *)
Definition deleted_keys_v0 : list (list byte) :=
  [B "_size"; B "_SIZE"; B "_nrows"; B "_NROWS"; B "_delim"; B "_DELIM";
   B "_shape"; B "_SHAPE"; B "_has_fields"; B "_HAS_FIELDS"].
Definition make_header_v0 (hdr : hdict (list byte)) : hdict (list byte) :=
  dset (list byte) (B "_VERSION") (ex_vstr sfile_version)
    (dset (list byte) (B "_DTYPE") (ex_vdescr ex_dt)
       (fold_left (fun h k => ddel (list byte) k h) deleted_keys_v0 hdr)).
Definition mc_hdr : hdict (list byte) := [(B "_Delim", B "','"); (B "keep", B "1")].
Definition mc_pyeval_v0 (_ : list byte) : option (hdict (list byte)) := Some (make_header_v0 mc_hdr).
Definition mc_head := make_header (list byte) ex_vstr ex_vdescr mc_hdr ex_dt.
Definition mc_pyeval (_ : list byte) : option (hdict (list byte)) := Some mc_head.

Lemma unrepaired_make_header_refuted :
  user_hdr_ok (list byte) mc_hdr
  (* as found: _Delim survives, the read fails *)
  /\ dget (list byte) (B "_Delim") (make_header_v0 mc_hdr) = Some (B "','")
  /\ sfile_read (list byte) ex_vstr dec ex_np_dtype mc_pyeval_v0 (sfile_file w_text_field ex_rows) = Err EOther
  (* repaired: _Delim is stripped, the other key is kept, the read returns the table *)
  /\ dget (list byte) (B "_Delim") mc_head = None /\ dget (list byte) (B "keep") mc_head = Some (B "1")
  /\ exists h, sfile_read (list byte) ex_vstr dec ex_np_dtype mc_pyeval (sfile_file w_text_field ex_rows) = Ok (ex_dt, ex_rows, h).
Proof.
  split. { intros k I. cbn in I. destruct I as [<-|[<-|[]]]; reflexivity. }
  split; [reflexivity|]. split; [vm_compute; reflexivity|]. split; [reflexivity|]. split; [reflexivity|].
  eexists. vm_compute. reflexivity.
Qed.

(* ---- a closed instance of the unconditional round trip (Uncond.v): header values of every kind *)
Definition u_hdr : hdict pv :=
  [(B "k", PStr (B "THE END")); (B "_size", PInt 7);
   (B "n", PList [PInt (-3); PFloat (B "1e+300"); PNone; PBool true; PBytes [x00; xff; x45; x4e; x44];
                  PTuple [PStr [x61; x27; x0a; x5c; xc3; xa9]]; PDict [(B "END", PTuple [])]])].
Definition u_dt : dtype :=
  [{| f_name := B "TREND"; f_order := "<"%byte; f_kind := "i"%byte; f_size := 2; f_shape := [] |};
   {| f_name := B "y"; f_order := ">"%byte; f_kind := "f"%byte; f_size := 4; f_shape := [2; 1] |}].
Definition u_rows : list (list byte) := [[x01; x00; x7f; xc0; x00; x01; x00; x00; x00; x80];
                                         [xff; x7f; x0a; x45; x4e; x44; x0a; x0a; xff; x00]].

Lemma unconditional_nonvacuous :
  wf_items u_hdr = true /\ wf_dtype u_dt = true /\ user_hdr_ok pv u_hdr
  /\ u_rows <> [] /\ rows_fit u_dt u_rows /\ 0 < rowsize u_dt
  /\ (exists h, sfile_read pv py_vstr py_vint py_np_dtype py_eval
                  (sfile_write pv py_vstr py_vdescr py_pformat u_hdr u_dt u_rows) = Ok (u_dt, u_rows, h)
                /\ dget pv (B "n") h = dget pv (B "n") u_hdr /\ dget pv (B "_SIZE") h = Some (PInt 2))
  /\ pv_parse (B "{'a': ('x' 'y'), 'b': (1), 'c': (1,), 'e': -0.0, 'f': [1, 2]}")
     = Some (PDict [(B "a", PStr (B "xy")); (B "b", PInt 1); (B "c", PTuple [PInt 1]); (B "e", PFloat (B "-0.0"));
                    (B "f", PList [PInt 1; PInt 2])]).
Proof.
  split; [reflexivity|]. split; [reflexivity|]. split.
  { intros k I. cbn in I. destruct I as [<-|[<-|[<-|[]]]]; reflexivity. }
  split; [discriminate|]. split; [repeat constructor|]. split; [reflexivity|]. split.
  - eexists. split; [vm_compute; reflexivity|]. split; reflexivity.
  - vm_compute. reflexivity.
Qed.

(* the file system steps: a write of path 1, unrelated traffic on path 2, a read of path 1 *)
Lemma frame_nonvacuous :
  forallb (fun o => negb (touches 1%nat o)) [WriteRec 2%nat u_rows; ReadSelf 1%nat; ReadRec 2%nat u_dt None] = true
  /\ snd (step (run (fst (step fs_empty (WriteSelf 1%nat u_hdr u_dt u_rows)))
                     [WriteRec 2%nat u_rows; ReadSelf 1%nat; ReadRec 2%nat u_dt None]) (ReadRec 2%nat u_dt None))
     = ARec (Ok u_rows)
  /\ 0 <= 2 < 10 ^ 20
  /\ parse_size (firstn 27 (size_update (mk_header 2 (B "{}") ++ concat u_rows) 12345)) = Ok 12345.
Proof. split; [reflexivity|]. split; [vm_compute; reflexivity|]. split; [lia|]. vm_compute. reflexivity. Qed.

(* ---- the H_pf checker on a real pformat text (three lines, as pprint wraps it) *)
Definition r_text : list byte :=
  B "{'_DTYPE': [('x', '<i2')]," ++ nl :: B " '_VERSION': '1.0'," ++ nl :: B " 'k': 'THE END'}".
Definition r_uhdr : hdict pv := [(B "k", PStr (B "THE END"))].
Definition r_head : hdict pv :=
  [(B "k", PStr (B "THE END")); (B "_DTYPE", PList [PTuple [PStr (B "x"); PStr (B "<i2")]]); (B "_VERSION", PStr (B "1.0"))].
Lemma hpf_check_nonvacuous : hpf_check r_text r_uhdr r_head ex_dt = true /\ user_hdr_ok pv r_uhdr.
Proof. split; [vm_compute; reflexivity|]. intros k I. cbn in I. destruct I as [<-|[]]. reflexivity. Qed.

(* ---- instances of the rejection theorems *)
Lemma reject_nonvacuous :
  hdr_text_ok w_text_value = true /\ ex_rows <> [] /\ rows_fit ex_dt ex_rows /\ 0 < rowsize ex_dt
  /\ (1 <= 3 <= length (bin_write ex_rows))%nat
  /\ sfile_read_c (firstn (length (sfile_file w_text_value ex_rows) - 3) (sfile_file w_text_value ex_rows)) ex_dt = Err ERuntime
  /\ sfile_read_c (sfile_file w_text_value ex_rows) ex_dt = Ok (2, ex_rows)
  /\ take_rows 2 2 [x01; x02; x03] = Err ERuntime.
Proof.
  split; [reflexivity|]. split; [discriminate|]. split; [repeat constructor|]. split; [reflexivity|].
  split; [cbn; lia|]. split; [vm_compute; reflexivity|]. split; [vm_compute; reflexivity | reflexivity].
Qed.

(* ---- hpf_check_all on a real pformat text whose user header spells _dtype in two other ways and
   _delim in mixed case (stripped): accepted, because pformat put _DTYPE first *)
Definition a_text : list byte :=
  B "{'_DTYPE': [('x', '<i2')]," ++ nl :: B " '_DtYpE': 3," ++ nl :: B " '_VERSION': '1.0'," ++ nl :: B " '_dtype': 'junk'}".
Definition a_uhdr : hdict pv := [(B "_dtype", PStr (B "junk")); (B "_Delim", PStr (B ",")); (B "_DtYpE", PInt 3)].
Definition a_head : hdict pv :=
  [(B "_dtype", PStr (B "junk")); (B "_DtYpE", PInt 3); (B "_DTYPE", PList [PTuple [PStr (B "x"); PStr (B "<i2")]]);
   (B "_VERSION", PStr (B "1.0"))].
Lemma hpf_check_all_nonvacuous :
  hpf_check_all a_text a_uhdr a_head ex_dt = true /\ ~ user_hdr_ok pv a_uhdr.
Proof.
  split; [vm_compute; reflexivity|]. intro U. specialize (U (B "_dtype") (or_introl eq_refl)). vm_compute in U. discriminate U.
Qed.

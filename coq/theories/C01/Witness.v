(* C01/Witness.v — concrete instances: the defect of the unrepaired scanner, and a non-vacuity
   instance of the round-trip theorem (all by computation). *)
From Coq Require Import ZArith List Bool NArith Lia.
From Coq.Strings Require Import Byte String.
From EsVerif.Common Require Import Base Bytes.
From EsVerif.C01 Require Import Framing FramingProofs Model Spec Proofs.
Import ListNotations.
Open Scope Z_scope.
Open Scope list_scope.
Notation length := List.length.

(* pformat({'_DTYPE': [('x', '<i2')], '_VERSION': '1.0', 'k': 'THE END'}) wraps at 80 columns *)
Definition w_text_value : list byte :=
  B "{'_DTYPE': [('x', '<i2')], '_VERSION': '1.0', 'k': 'THE END'}".
(* a field named TREND *)
Definition w_text_field : list byte :=
  B "{'_DTYPE': [('TREND', '<i2')], '_VERSION': '1.0'}".

Definition offset_v0 (f : file) : result nat := do r <- read_sfile_header_v0 f; Ok (snd r).

Lemma unrepaired_scanner_refuted :
  exists n d data, 0 <= n /\ hdr_text_ok d = true
    /\ offset_v0 (mk_header n d ++ data) <> Ok (length (mk_header n d)).
Proof.
  exists 2, w_text_value, [x01; x00; xff; x7f]. split; [lia|]. split; [reflexivity|].
  vm_compute. intro X. discriminate X.
Qed.

Lemma unrepaired_scanner_refuted_field_name :
  exists n d data, 0 <= n /\ hdr_text_ok d = true
    /\ offset_v0 (mk_header n d ++ data) <> Ok (length (mk_header n d)).
Proof.
  exists 2, w_text_field, [x01; x00; xff; x7f]. split; [lia|]. split; [reflexivity|].
  vm_compute. intro X. discriminate X.
Qed.

(* ---- a closed instance of every premise of the round-trip theorem.  Header values are
   modelled here by their repr text; pformat/eval/numpy.dtype are the (trivially correct)
   functions that know this one header. *)
Definition ex_dt : dtype :=
  [{| f_name := B "x"; f_order := "<"%byte; f_kind := "i"%byte; f_size := 2; f_shape := [] |}].
Definition ex_hdr : hdict (list byte) := [(B "k", B "'THE END'"); (B "_size", B "7")].
Definition ex_rows : list (list byte) := [[x01; x00]; [xff; x7f]].
Definition ex_vstr (s : list byte) : list byte := B "'" ++ s ++ B "'".
Definition ex_vdescr (_ : dtype) : list byte := B "[('x', '<i2')]".
Definition ex_head := make_header (list byte) ex_vstr ex_vdescr ex_hdr ex_dt.
Definition ex_pformat (_ : hdict (list byte)) : list byte := w_text_value.
Definition ex_pyeval (_ : list byte) : option (hdict (list byte)) := Some ex_head.
Definition ex_np_dtype (_ : list byte) : option dtype := Some ex_dt.

Lemma nonvacuous :
  H_pf (list byte) eq ex_pformat ex_pyeval ex_np_dtype ex_head ex_dt
  /\ user_hdr_ok (list byte) ex_hdr
  /\ ex_rows <> [] /\ rows_fit ex_dt ex_rows /\ 0 < rowsize ex_dt
  /\ sfile_read (list byte) ex_vstr dec ex_np_dtype ex_pyeval
       (sfile_write (list byte) ex_vstr ex_vdescr ex_pformat ex_hdr ex_dt ex_rows)
     = Ok (ex_dt, ex_rows,
           [(B "k", B "'THE END'"); (B "_DTYPE", B "[('x', '<i2')]"); (B "_VERSION", B "'1.0'"); (B "_SIZE", B "2")])
  /\ scan_end (mk_header 2 w_text_value ++ concat ex_rows) = Ok 95%nat.
Proof.
  split; [|split; [|split; [|split; [|split; [|split]]]]].
  - split; [reflexivity|]. exists ex_head. split; [reflexivity|]. split.
    + intro k. destruct (dget (list byte) k ex_head); reflexivity || exact I.
    + intros v _. reflexivity.
  - intros k I. simpl in I. destruct I as [<-|[<-|[]]]; reflexivity.
  - discriminate.
  - repeat constructor.
  - reflexivity.
  - vm_compute. reflexivity.
  - vm_compute. reflexivity.
Qed.

(* C01/Layout.v — how numpy holds the table that is handed to the writer.  NO proofs here.

   The property speaks about "any structured array".  What Records::Write receives is not a
   list of rows but an ndarray: a buffer, the address of element 0 inside it, and per dimension
   a length and a stride in bytes (strides may be larger than the item size — data[::2] —, or
   negative — data[::-1] —, or not in C order — a transposed 2-d table).

   Anchors: esutil/recfile/Util.py  Recfile.write (433-460): dataview = data.view(ndarray);
                                     AFTER fixes/C01/0002: numpy.ascontiguousarray(...)
            esutil/recfile/records.cpp  Records::Write (1565-1598): mNrows = PyArray_Size(obj);
                                     mData = PyArray_DATA(obj);  WriteAllAsBinary (1600-1615):
                                     fwrite(mData, mRowSize, mNrows, mFptr). *)
From Coq Require Import ZArith List Bool NArith.
From Coq.Strings Require Import Byte String.
From EsVerif.Common Require Import Base Bytes.
From EsVerif.C01 Require Import Framing Model.
Import ListNotations.
Open Scope Z_scope.
Open Scope list_scope.
Notation length := List.length.

(* an ndarray of structured items: v_start is the offset of element (0,...,0) in the buffer,
   v_dims the (length, stride in bytes) of every dimension, v_item the item size *)
Record ndview := { v_buf : list byte; v_start : Z; v_dims : list (nat * Z); v_item : nat }.

(* byte offsets of the elements in C (row-major) order: the order of data.ravel(), tobytes()
   and of the rows of the table *)
Fixpoint offsets (dims : list (nat * Z)) (base : Z) : list Z :=
  match dims with
  | [] => [base]
  | (n, s) :: t => flat_map (fun i => offsets t (base + Z.of_nat i * s)) (seq 0 n)
  end.

(* len bytes of the buffer from offset off (what a C read through the pointer buf+off sees,
   as far as the buffer goes) *)
Definition slice (buf : list byte) (off : Z) (len : nat) : list byte :=
  if off <? 0 then [] else firstn len (skipn (Z.to_nat off) buf).

Definition view_offsets (v : ndview) : list Z := offsets (v_dims v) (v_start v).
(* PyArray_Size *)
Definition view_size (v : ndview) : nat := length (view_offsets v).
(* the rows of the table: element i of the array, for every i in C order *)
Definition view_rows (v : ndview) : list (list byte) :=
  map (fun o => slice (v_buf v) o (v_item v)) (view_offsets v).

(* every element lies inside the buffer (numpy guarantees this for every view it creates) *)
Definition in_bounds (v : ndview) : bool :=
  forallb (fun o => (0 <=? o) && (o + Z.of_nat (v_item v) <=? Z.of_nat (length (v_buf v)))) (view_offsets v).

(* Records::Write + WriteAllAsBinary: ONE fwrite of PyArray_Size items starting at PyArray_DATA,
   i.e. at the address of element 0, whatever the strides are *)
Definition write_buffer (v : ndview) : list byte :=
  slice (v_buf v) (v_start v) (view_size v * v_item v).

(* strides of a C-contiguous array of the given shape *)
Definition nprod (ns : list nat) : nat := fold_right Nat.mul 1%nat ns.
Fixpoint c_dims (ns : list nat) (item : nat) : list (nat * Z) :=
  match ns with
  | [] => []
  | n :: t => (n, Z.of_nat (nprod t * item)) :: c_dims t item
  end.
Definition is_c_contiguous (v : ndview) : bool :=
  list_eqb (fun a b => Nat.eqb (fst a) (fst b) && (snd a =? snd b))
           (v_dims v) (c_dims (map fst (v_dims v)) (v_item v)).

(* numpy.ascontiguousarray: same shape, same elements, C order, own buffer *)
Definition ascontiguous (v : ndview) : ndview :=
  {| v_buf := concat (view_rows v); v_start := 0;
     v_dims := c_dims (map fst (v_dims v)) (v_item v); v_item := v_item v |}.

(* Recfile.write(data) for a binary file.  As found: the view itself goes to Records::Write. *)
Definition recfile_write_view_v0 (v : ndview) : file := write_buffer v.
(* After fixes/C01/0002: made C-contiguous first. *)
Definition recfile_write_view (v : ndview) : file := write_buffer (ascontiguous v).

(* SFile.write(data, header): the header carries data.size, then Recfile.write(data) *)
Definition sfile_write_view (pyval : Type) (v_str : list byte -> pyval) (v_descr : dtype -> pyval)
           (pformat : hdict pyval -> list byte) (hdr : hdict pyval) (dt : dtype) (v : ndview) : file :=
  write_header (mk_header (Z.of_nat (view_size v)) (pformat (make_header pyval v_str v_descr hdr dt)))
  ++ recfile_write_view v.

(* C01/FramingProofs.v — lemmas about the framing model (Framing.v). *)
From Coq Require Import ZArith List Bool NArith Lia ZifyBool ZifyNat.
From Coq.Strings Require Import Byte String.
From EsVerif.Common Require Import Base Bytes.
From EsVerif.C01 Require Import Framing.
Import ListNotations.
Open Scope Z_scope.
Open Scope list_scope.
Notation length := List.length.

(* ------------------------------------------------------------------ bytes *)
Lemma byte_eqb_refl b : byte_eqb b b = true.
Proof. apply byte_eqb_eq; reflexivity. Qed.

Lemma byte_eqb_neq a b : a <> b -> byte_eqb a b = false.
Proof. intro H. destruct (byte_eqb a b) eqn:E; [apply byte_eqb_eq in E; contradiction | reflexivity]. Qed.

Lemma byte_eqb_false a b : byte_eqb a b = false -> a <> b.
Proof. intros H E. subst. rewrite byte_eqb_refl in H. discriminate. Qed.

Lemma bytes_eqb_refl l : bytes_eqb l l = true.
Proof. apply bytes_eqb_eq; reflexivity. Qed.

Lemma bytes_eqb_neq a b : a <> b -> bytes_eqb a b = false.
Proof. intro H. destruct (bytes_eqb a b) eqn:E; [apply bytes_eqb_eq in E; contradiction | reflexivity]. Qed.

(* ------------------------------------------------------------------ generic list facts *)
Lemma Forall_notin {A} (P : A -> Prop) (l : list A) (c : A) :
  Forall P l -> ~ P c -> ~ In c l.
Proof. intros H N I. rewrite Forall_forall in H. apply N, H, I. Qed.

Lemma Forall_repeat {A} (P : A -> Prop) (x : A) n : P x -> Forall P (repeat x n).
Proof. intro H. induction n; simpl; constructor; auto. Qed.

(* ------------------------------------------------------------------ cstr / clean *)
Lemma clean_app a b : clean (a ++ b) = clean a && clean b.
Proof. apply forallb_app. Qed.

Lemma clean_cstr l : clean l = true -> cstr l = l.
Proof.
  induction l as [|b t IH]; simpl; intro H; [reflexivity|].
  apply andb_true_iff in H as [H1 H2]. unfold clean_b in H1.
  apply andb_true_iff in H1 as [H1 _]. apply negb_true_iff in H1. rewrite H1, IH; auto.
Qed.

Lemma clean_not_ff l x : clean l = true -> In x l -> x <> xff.
Proof.
  intros H I. unfold clean in H. rewrite forallb_forall in H. specialize (H x I).
  unfold clean_b in H. apply andb_true_iff in H as [_ H]. apply negb_true_iff in H.
  apply byte_eqb_false; exact H.
Qed.

Lemma Forall_clean (P : byte -> Prop) l :
  Forall P l -> (forall b, P b -> clean_b b = true) -> clean l = true.
Proof. intros H Q. apply forallb_forall. intros x I. rewrite Forall_forall in H. auto. Qed.

(* ------------------------------------------------------------------ decimal digits *)
Definition digsp (b : byte) : Prop := is_digit b = true \/ b = sp.

Lemma digit_cases d : 0 <= d < 10 ->
  is_digit (digit d) = true /\ bZ (digit d) - 48 = d.
Proof.
  intro H.
  assert (C : d = 0 \/ d = 1 \/ d = 2 \/ d = 3 \/ d = 4 \/ d = 5 \/ d = 6 \/ d = 7 \/ d = 8 \/ d = 9) by lia.
  repeat (destruct C as [C|C]; [subst d; split; reflexivity|]). subst d; split; reflexivity.
Qed.

Definition dstep (a : Z) (b : byte) : Z := 10 * a + (bZ b - 48).

(* with enough fuel dec_aux prepends the decimal digits of n (most significant first) *)
Lemma dec_aux_S f n acc : dec_aux (S f) n acc =
  if n <? 10 then digit (n mod 10) :: acc else dec_aux f (n / 10) (digit (n mod 10) :: acc).
Proof. reflexivity. Qed.

Lemma dec_aux_spec : forall f n acc, 0 <= n < 10 ^ Z.of_nat (S f) ->
  exists ds, dec_aux (S f) n acc = ds ++ acc /\ ds <> [] /\ Forall (fun b => is_digit b = true) ds
             /\ fold_left dstep ds 0 = n.
Proof.
  induction f as [|f IH]; intros n acc H;
    rewrite dec_aux_S; assert (M : 0 <= n mod 10 < 10) by (apply Z.mod_pos_bound; lia);
    destruct (digit_cases _ M) as [D1 D2]; destruct (n <? 10) eqn:E.
  - exists [digit (n mod 10)]. repeat split; try (intro; discriminate).
    + constructor; auto.
    + simpl. unfold dstep. rewrite D2. rewrite Z.mod_small; lia.
  - change (Z.of_nat 1) with 1 in H. lia.
  - exists [digit (n mod 10)]. repeat split; try (intro; discriminate).
    + constructor; auto.
    + simpl. unfold dstep. rewrite D2. rewrite Z.mod_small; lia.
  - assert (H10 : 10 ^ Z.of_nat (S (S f)) = 10 * 10 ^ Z.of_nat (S f)).
    { rewrite (Nat2Z.inj_succ (S f)), Z.pow_succ_r; lia. }
    assert (Hq : 0 <= n / 10 < 10 ^ Z.of_nat (S f)).
    { split; [apply Z.div_pos; lia|]. apply Z.div_lt_upper_bound; lia. }
    destruct (IH (n / 10) (digit (n mod 10) :: acc) Hq) as [ds [E1 [N1 [F1 V1]]]].
    exists (ds ++ [digit (n mod 10)]). repeat split.
    + rewrite E1, <- app_assoc. reflexivity.
    + intro X. apply app_eq_nil in X as [_ X]. discriminate.
    + apply Forall_app; split; auto.
    + rewrite fold_left_app. simpl. unfold dstep at 1. rewrite V1, D2.
      pose proof (Z.div_mod n 10). lia.
Qed.

Lemma dec_fuel n : 0 <= n -> n < 10 ^ Z.of_nat (S (Z.to_nat (Z.log2 n))).
Proof.
  intro H. rewrite Nat2Z.inj_succ, Z2Nat.id by apply Z.log2_nonneg.
  destruct (Z.eq_dec n 0) as [->|N]; [reflexivity|].
  pose proof (Z.log2_spec n ltac:(lia)) as [_ L].
  eapply Z.lt_le_trans; [exact L|].
  apply Z.pow_le_mono_l. lia.
Qed.

Lemma dec_spec n : 0 <= n ->
  dec n <> [] /\ Forall (fun b => is_digit b = true) (dec n) /\ fold_left dstep (dec n) 0 = n.
Proof.
  intro H. unfold dec.
  destruct (dec_aux_spec _ n [] (conj H (dec_fuel n H))) as [ds [E [N [F V]]]].
  rewrite E, app_nil_r. auto.
Qed.

Lemma dec_aux_length : forall f n acc k, 0 <= n < 10 ^ Z.of_nat k -> (1 <= k)%nat ->
  (length (dec_aux f n acc) <= k + length acc)%nat.
Proof.
  induction f as [|f IH]; intros n acc k H K; simpl; [lia|].
  destruct (n <? 10) eqn:E; [simpl; lia|].
  destruct k as [|k]; [lia|].
  assert (H10 : 10 ^ Z.of_nat (S k) = 10 * 10 ^ Z.of_nat k).
  { rewrite Nat2Z.inj_succ, Z.pow_succ_r; lia. }
  assert (K1 : (1 <= k)%nat).
  { destruct k; [simpl in H; lia | lia]. }
  assert (Hq : 0 <= n / 10 < 10 ^ Z.of_nat k).
  { split; [apply Z.div_pos; lia|]. apply Z.div_lt_upper_bound; lia. }
  specialize (IH (n / 10) (digit (n mod 10) :: acc) k Hq K1). simpl in IH. lia.
Qed.

Lemma dec_length_20 n : 0 <= n < 10 ^ 20 -> (length (dec n) <= 20)%nat.
Proof.
  intro H. unfold dec.
  pose proof (dec_aux_length (S (Z.to_nat (Z.log2 n))) n [] 20%nat) as L.
  simpl length in L. rewrite Nat.add_0_r in L. apply L; [|lia].
  change (Z.of_nat 20) with 20. exact H.
Qed.

Lemma pad_left_digsp w n : 0 <= n -> Forall digsp (pad_left w (dec n)).
Proof.
  intro H. unfold pad_left. apply Forall_app; split.
  - apply Forall_repeat. right; reflexivity.
  - destruct (dec_spec n H) as [_ [F _]]. eapply Forall_impl; [|exact F]. intros b Hb; left; exact Hb.
Qed.

Lemma digsp_neq c b : is_digit c = false -> c <> sp -> digsp b -> b <> c.
Proof. intros D S [H|H] E; subst; congruence. Qed.

Lemma pad_left_notin w n c : 0 <= n -> is_digit c = false -> c <> sp -> ~ In c (pad_left w (dec n)).
Proof.
  intros H D S. eapply Forall_notin; [apply pad_left_digsp; exact H|].
  intro X. exact (digsp_neq c c D S X eq_refl).
Qed.

Lemma size_line_notin n c : 0 <= n -> is_digit c = false -> c <> sp -> ~ In c (B "SIZE = ") ->
  ~ In c (size_line n).
Proof.
  intros H D S N I. unfold size_line in I. apply in_app_or in I as [I|I]; [auto|].
  exact (pad_left_notin 20 n c H D S I).
Qed.

Lemma size_line_no_nl n : 0 <= n -> ~ In nl (size_line n).
Proof.
  intro H. apply size_line_notin; auto; try discriminate.
  simpl. intros X. repeat (destruct X as [X|X]; [discriminate|]). exact X.
Qed.

Lemma size_line_clean n : 0 <= n -> clean (size_line n) = true.
Proof.
  intro H. unfold size_line. rewrite clean_app. apply andb_true_iff; split; [reflexivity|].
  eapply Forall_clean; [apply pad_left_digsp; exact H|].
  intros b [D | ->]; [|reflexivity].
  unfold clean_b. apply andb_true_iff; split; apply negb_true_iff; apply byte_eqb_neq; intro; subst; discriminate.
Qed.

Lemma size_line_length n : 0 <= n < 10 ^ 20 -> length (size_line n) = 27%nat.
Proof.
  intro H. unfold size_line, pad_left. rewrite !app_length, repeat_length.
  pose proof (dec_length_20 n H). change (length (B "SIZE = ")) with 7%nat. lia.
Qed.

(* ------------------------------------------------------------------ split_on *)
Lemma split_on_nonempty sep l : split_on sep l <> [].
Proof.
  induction l as [|b t IH]; simpl; [discriminate|].
  destruct (byte_eqb b sep); [discriminate|]. destruct (split_on sep t); discriminate.
Qed.

Lemma split_on_nosep sep a : ~ In sep a -> split_on sep a = [a].
Proof.
  induction a as [|b t IH]; simpl; intro H; [reflexivity|].
  rewrite byte_eqb_neq by (intro; subst; apply H; left; reflexivity).
  rewrite IH by (intro; apply H; right; assumption). reflexivity.
Qed.

Lemma split_on_app sep a b : split_on sep (a ++ sep :: b) = split_on sep a ++ split_on sep b.
Proof.
  induction a as [|x t IH]; simpl.
  - rewrite byte_eqb_refl. reflexivity.
  - destruct (byte_eqb x sep); [rewrite IH; reflexivity|].
    rewrite IH. destruct (split_on sep t) as [|c r] eqn:E; [exfalso; exact (split_on_nonempty _ _ E)|].
    reflexivity.
Qed.

(* ------------------------------------------------------------------ the size line parses back *)
Lemma drop_ws_spaces k l : drop_ws (repeat sp k ++ l) = drop_ws l.
Proof. induction k; simpl; auto. Qed.

Lemma drop_ws_digit b t : is_digit b = true -> drop_ws (b :: t) = b :: t.
Proof.
  intro H. simpl. replace (is_ws b) with false; [reflexivity|].
  unfold is_digit, is_ws in *. lia.
Qed.

Lemma read_digits_all : forall l acc, Forall (fun b => is_digit b = true) l ->
  read_digits acc l = (fold_left dstep l acc, []).
Proof.
  induction l as [|b t IH]; intros acc H; simpl; [reflexivity|].
  inversion H; subst. rewrite H2. apply IH; assumption.
Qed.

Lemma eval_int_padded k n : 0 <= n -> eval_int (repeat sp k ++ dec n) = Ok n.
Proof.
  intro H. destruct (dec_spec n H) as [N [F V]]. unfold eval_int.
  rewrite drop_ws_spaces. destruct (dec n) as [|b t] eqn:E; [contradiction|].
  assert (Db : is_digit b = true) by (inversion F; assumption).
  rewrite drop_ws_digit by exact Db. rewrite Db.
  rewrite read_digits_all by exact F. rewrite V. reflexivity.
Qed.

Lemma parse_size_size_line n : 0 <= n -> parse_size (size_line n) = Ok n.
Proof.
  intro H. unfold parse_size, size_line.
  change (B "SIZE = " ++ pad_left 20 (dec n)) with (B "SIZE " ++ "="%byte :: (sp :: pad_left 20 (dec n))).
  rewrite split_on_app.
  rewrite (split_on_nosep _ (B "SIZE ")).
  2:{ simpl. intros X. repeat (destruct X as [X|X]; [discriminate|]). exact X. }
  rewrite (split_on_nosep _ (sp :: pad_left 20 (dec n))).
  2:{ intros [X|X]; [discriminate|]. revert X. apply pad_left_notin; auto; discriminate. }
  cbn [app]. change (bytes_eqb (upper (strip (B "SIZE "))) (B "SIZE")) with true. cbn [orb].
  unfold pad_left. exact (eval_int_padded (S (20 - length (dec n))) n H).
Qed.

(* ------------------------------------------------------------------ the scanner *)
Definition z5 : list byte := [x00; x00; x00; x00; x00].

Lemma wl_shift junk w x : junk ++ wl w ++ [x] = (junk ++ [fst (fst (fst (fst w)))]) ++ wl (shift w x).
Proof. destruct w as [[[[a b] c] d] e]. simpl. rewrite <- app_assoc. reflexivity. Qed.

(* Running the loop over a stretch [a] in which no prefix ends with the pattern "\nEND\n"
   and no byte is 0xFF leaves the window holding the last five bytes read. *)
Lemma scan_loop_run : forall a rest w cnt pre junk,
  z5 ++ pre = junk ++ wl w ->
  (forall a1 x a2, a = a1 ++ x :: a2 -> x <> xff /\ forall u, z5 ++ pre ++ a1 ++ [x] <> u ++ pat) ->
  exists w' junk', z5 ++ pre ++ a = junk' ++ wl w' /\
    scan_loop w cnt (a ++ rest) = scan_loop w' (cnt + length a) rest.
Proof.
  induction a as [|x a IH]; intros rest w cnt pre junk Hw Hno.
  - exists w, junk. rewrite app_nil_r, Nat.add_0_r. split; [exact Hw | reflexivity].
  - destruct (Hno [] x a eq_refl) as [Hx Hu]. simpl in Hu.
    assert (Hw' : z5 ++ (pre ++ [x]) = (junk ++ [fst (fst (fst (fst w)))]) ++ wl (shift w x)).
    { rewrite <- wl_shift. rewrite (app_assoc z5 pre [x]), Hw, <- app_assoc. reflexivity. }
    assert (He : is_end (shift w x) = false).
    { destruct (is_end (shift w x)) eqn:E; [|reflexivity]. exfalso.
      unfold is_end in E. apply bytes_eqb_eq in E.
      apply (Hu (junk ++ [fst (fst (fst (fst w)))])). rewrite <- E. exact Hw'. }
    cbn [app scan_loop]. rewrite (byte_eqb_neq _ _ Hx), He.
    destruct (IH rest (shift w x) (S cnt) (pre ++ [x]) _ Hw') as [w' [junk' [E1 E2]]].
    { intros a1 y a2 Ea. subst a. destruct (Hno (x :: a1) y a2 eq_refl) as [Hy Hv]. split; [exact Hy|].
      intros u. specialize (Hv u). rewrite <- !app_assoc. exact Hv. }
    exists w', junk'. split.
    + rewrite <- E1. rewrite <- !app_assoc. reflexivity.
    + rewrite E2. f_equal. simpl. lia.
Qed.

Lemma split_nl_END : split_nl (B "END") = [B "END"].
Proof. reflexivity. Qed.

Lemma no_end_line d : hdr_text_ok d = true -> ~ In (B "END") (split_nl d).
Proof.
  intros H I. unfold hdr_text_ok in H. apply andb_true_iff in H as [_ H].
  rewrite forallb_forall in H. specialize (H _ I). rewrite bytes_eqb_refl in H. discriminate.
Qed.

(* the stretch scanned before the END line: size line, newline, dict text, newline *)
Definition before_end (n : Z) (d : list byte) : list byte := size_line n ++ nl :: d ++ [nl].

Lemma mk_header_split n d : mk_header n d = before_end n d ++ B "END" ++ [nl; nl].
Proof. unfold mk_header, before_end. rewrite <- !app_assoc. simpl. rewrite <- app_assoc. reflexivity. Qed.

Lemma before_end_clean n d : 0 <= n -> clean d = true -> clean (before_end n d) = true.
Proof.
  intros H C. unfold before_end. rewrite clean_app, size_line_clean by exact H.
  change (nl :: d ++ [nl]) with ([nl] ++ d ++ [nl]). rewrite !clean_app, C. reflexivity.
Qed.

Lemma before_end_no_pat n d : 0 <= n -> hdr_text_ok d = true ->
  forall a1 x a2 u, before_end n d = a1 ++ x :: a2 -> z5 ++ [] ++ a1 ++ [x] <> u ++ pat.
Proof.
  intros H T a1 x a2 u E X.
  assert (S : z5 ++ before_end n d = u ++ nl :: (B "END" ++ nl :: a2)).
  { rewrite E. transitivity ((z5 ++ [] ++ a1 ++ [x]) ++ a2).
    - simpl. rewrite <- app_assoc. reflexivity.
    - rewrite X. unfold pat. rewrite <- app_assoc. reflexivity. }
  apply (f_equal split_nl) in S. unfold split_nl in S.
  rewrite split_on_app, split_on_app in S.
  unfold before_end in S. rewrite app_assoc in S. rewrite split_on_app, split_on_app in S.
  change (split_on nl (B "END")) with [B "END"] in S.
  rewrite (split_on_nosep nl (z5 ++ size_line n)) in S.
  2:{ intro I. apply in_app_or in I as [I|I].
      - simpl in I. repeat (destruct I as [I|I]; [discriminate|]). exact I.
      - exact (size_line_no_nl n H I). }
  assert (I : In (B "END") ([z5 ++ size_line n] ++ split_on nl d ++ split_on nl [])).
  { rewrite S. apply in_or_app. right. left. reflexivity. }
  apply in_app_or in I as [I|I].
  - destruct I as [I|[]]. discriminate.
  - apply in_app_or in I as [I|I].
    + exact (no_end_line d T I).
    + simpl in I. destruct I as [I|[]]. discriminate.
Qed.

Lemma app_last5 (junk : list byte) q a b c d e :
  q ++ [nl] = junk ++ [a; b; c; d; e] -> e = nl.
Proof.
  intro H. change [a; b; c; d; e] with ([a; b; c; d] ++ [e]) in H. rewrite app_assoc in H.
  apply app_inj_tail in H. symmetry. apply H.
Qed.

Lemma is_end_last a b c d e : e <> nl -> is_end (a, b, c, d, e) = false.
Proof.
  intro H. unfold is_end. apply bytes_eqb_neq. intro X. unfold wl, pat in X. simpl in X.
  inversion X. congruence.
Qed.

Lemma scan_tail a b c e cnt data :
  scan_loop (a, b, c, e, nl) cnt ("E"%byte :: "N"%byte :: "D"%byte :: nl :: nl :: data) = Ok (cnt + 4)%nat.
Proof.
  cbn [scan_loop shift].
  change (byte_eqb "E" xff) with false. change (byte_eqb "N" xff) with false.
  change (byte_eqb "D" xff) with false. change (byte_eqb nl xff) with false. cbv iota.
  rewrite !is_end_last by discriminate.
  change (is_end (nl, "E"%byte, "N"%byte, "D"%byte, nl)) with true. cbv iota. f_equal. lia.
Qed.

(* The scanner stops exactly at the newline that ends the END line. *)
Lemma scan_loop_header n d data : 0 <= n -> hdr_text_ok d = true ->
  scan_loop w0 0 (mk_header n d ++ data) = Ok (length (before_end n d) + 4)%nat.
Proof.
  intros H T.
  assert (C : clean d = true) by (unfold hdr_text_ok in T; apply andb_true_iff in T; apply T).
  rewrite mk_header_split, <- app_assoc.
  destruct (scan_loop_run (before_end n d) ((B "END" ++ [nl; nl]) ++ data) w0 0%nat [] [] eq_refl)
    as [w' [junk' [E1 E2]]].
  { intros a1 x a2 E. split.
    - apply (clean_not_ff (before_end n d)); [apply before_end_clean; assumption|].
      rewrite E. apply in_or_app. right. left. reflexivity.
    - intro u. exact (before_end_no_pat n d H T a1 x a2 u E). }
  rewrite E2. destruct w' as [[[[a b] c] e] g]. cbn [wl] in E1.
  assert (G : g = nl).
  { apply (app_last5 junk' (z5 ++ size_line n ++ nl :: d) a b c e g). rewrite <- E1.
    unfold before_end. rewrite <- !app_assoc. reflexivity. }
  subst g. change ((B "END" ++ [nl; nl]) ++ data) with ("E"%byte :: "N"%byte :: "D"%byte :: nl :: nl :: data).
  rewrite scan_tail. f_equal.
Qed.

Lemma mk_header_length n d : length (mk_header n d) = (length (before_end n d) + 5)%nat.
Proof. rewrite mk_header_split, app_length. reflexivity. Qed.

Lemma mk_header_clean n d : 0 <= n -> clean d = true -> clean (mk_header n d) = true.
Proof.
  intros H C. rewrite mk_header_split, clean_app, before_end_clean by assumption. reflexivity.
Qed.

Lemma read_sfile_header_spec n d data : 0 <= n -> hdr_text_ok d = true ->
  read_sfile_header (mk_header n d ++ data) = Ok (mk_header n d, length (mk_header n d)).
Proof.
  intros H T.
  assert (C : clean d = true) by (unfold hdr_text_ok in T; apply andb_true_iff in T; apply T).
  unfold read_sfile_header, blank_extra. rewrite scan_loop_header by assumption. cbn [bind].
  replace (length (before_end n d) + 4 + 1)%nat with (length (mk_header n d))
    by (rewrite mk_header_length; lia).
  replace (length (mk_header n d ++ data) <? length (mk_header n d))%nat with false
    by (rewrite app_length; symmetry; apply Nat.ltb_ge; lia).
  rewrite firstn_app, firstn_all, Nat.sub_diag, firstn_O, app_nil_r.
  rewrite clean_cstr by (apply mk_header_clean; assumption). reflexivity.
Qed.

(* ------------------------------------------------------------------ parsing the header back *)
Lemma split_nl_mk_header n d : 0 <= n ->
  split_nl (mk_header n d) = size_line n :: split_nl d ++ [B "END"; []; []].
Proof.
  intro H. unfold mk_header, split_nl. rewrite split_on_app, split_on_app.
  rewrite (split_on_nosep nl (size_line n)) by (apply size_line_no_nl; exact H). reflexivity.
Qed.

Lemma parse_header_spec n d : 0 <= n ->
  parse_header (mk_header n d) = Ok (n, join [sp] (split_nl d)).
Proof.
  intro H. unfold parse_header. rewrite split_nl_mk_header by exact H.
  rewrite parse_size_size_line by exact H. cbn [bind]. f_equal. f_equal. f_equal.
  cbn [length]. rewrite app_length. cbn [length].
  replace (S (length (split_nl d) + 3) - 3 - 1)%nat with (length (split_nl d)) by lia.
  rewrite firstn_app, firstn_all, Nat.sub_diag, firstn_O, app_nil_r. reflexivity.
Qed.

(* ------------------------------------------------------------------ rows *)
Lemma take_rows_concat rs : forall rows extra,
  Forall (fun r => length r = rs) rows ->
  take_rows rs (length rows) (concat rows ++ extra) = Ok rows.
Proof.
  induction rows as [|r t IH]; intros extra H; [reflexivity|].
  inversion H; subst. cbn [length take_rows concat]. rewrite <- app_assoc.
  replace (length (r ++ concat t ++ extra) <? length r)%nat with false
    by (rewrite app_length; symmetry; apply Nat.ltb_ge; lia).
  rewrite skipn_app, skipn_all, Nat.sub_diag, skipn_O. cbn [app].
  rewrite IH by assumption. cbn [bind].
  rewrite firstn_app, firstn_all, Nat.sub_diag, firstn_O, app_nil_r. reflexivity.
Qed.

Lemma concat_length_rows rs : forall rows : list (list byte),
  Forall (fun r => length r = rs) rows -> length (concat rows) = (length rows * rs)%nat.
Proof.
  induction rows as [|r t IH]; intro H; [reflexivity|].
  inversion H; subst. simpl. rewrite app_length, IH by assumption. reflexivity.
Qed.

Lemma count_nrows_spec (hdr data : list byte) rs k :
  0 < rs -> Z.of_nat (length data) = k * rs ->
  count_nrows (Z.of_nat (length (hdr ++ data))) (Z.of_nat (length hdr)) rs = k.
Proof.
  intros R H. unfold count_nrows. rewrite app_length, Nat2Z.inj_add.
  replace (Z.of_nat (length hdr) + Z.of_nat (length data) - Z.of_nat (length hdr)) with (k * rs) by lia.
  apply Z.div_mul. lia.
Qed.

(* reading the data region written by bin_write, rows counted from the file size or given *)
Lemma recfile_read_spec (hdr : list byte) rows rs (nrows : option Z) :
  0 < rs -> rows <> [] -> Forall (fun r => Z.of_nat (length r) = rs) rows ->
  (nrows = None \/ (exists m, nrows = Some m /\ m < 0) \/ nrows = Some (Z.of_nat (length rows))) ->
  recfile_read (hdr ++ bin_write rows) (Z.of_nat (length hdr)) rs nrows = Ok rows.
Proof.
  intros R NE F HN. unfold recfile_read, bin_write.
  assert (F' : Forall (fun r => length r = Z.to_nat rs) rows).
  { eapply Forall_impl; [|exact F]. intros r Hr. cbv beta in Hr. lia. }
  assert (CN : count_nrows (Z.of_nat (length (hdr ++ concat rows))) (Z.of_nat (length hdr)) rs
               = Z.of_nat (length rows)).
  { apply count_nrows_spec; [exact R|]. rewrite (concat_length_rows _ _ F'). lia. }
  assert (L : 1 <= Z.of_nat (length rows)) by (destruct rows; [contradiction | simpl; lia]).
  set (n := match nrows with
            | Some n => if n <? 0 then count_nrows (Z.of_nat (length (hdr ++ concat rows))) (Z.of_nat (length hdr)) rs else n
            | None => count_nrows (Z.of_nat (length (hdr ++ concat rows))) (Z.of_nat (length hdr)) rs
            end).
  assert (En : n = Z.of_nat (length rows)).
  { subst n. destruct HN as [-> | [[m [-> Hm]] | ->]]; [exact CN | | ].
    - replace (m <? 0) with true by lia. exact CN.
    - replace (Z.of_nat (length rows) <? 0) with false by lia. reflexivity. }
  rewrite En. replace (Z.of_nat (length rows) <? 1) with false by lia.
  rewrite !Nat2Z.id. rewrite skipn_app, skipn_all, Nat.sub_diag, skipn_O. cbn [app].
  rewrite <- (app_nil_r (concat rows)). apply take_rows_concat. exact F'.
Qed.

(* C01/Uncond.v — the Python layer made concrete: header values are [pv], pformat is [pv_print],
   eval is [pv_parse], numpy.dtype(descr) is [py_np_dtype].  The contract H_pf is then a THEOREM
   for every well-formed header and packed dtype, and the round trip of C01_roundtrip holds without
   any hypothesis about pformat / eval / numpy.dtype (UncondProofs below in this file's second half). *)
From Coq Require Import ZArith List Bool NArith Lia ZifyBool ZifyNat.
From Coq.Strings Require Import Byte String.
From EsVerif.Common Require Import Base Bytes.
From EsVerif.C01 Require Import Framing FramingProofs Model Spec Proofs Pyval PyvalProofs.
Import ListNotations.
Open Scope Z_scope.
Open Scope list_scope.
Notation length := List.length.

(* ------------------------------------------------------------------ definitions *)
Definition py_vstr (s : list byte) : pv := PStr s.
Definition py_vint (z : Z) : pv := PInt z.

(* data.dtype.descr: [('name', '<f8'), ('name', '<f8', (2, 3)), ...] *)
Definition typestr (f : field) : list byte := f_order f :: f_kind f :: dec (f_size f).
Definition descr_field (f : field) : pv :=
  match f_shape f with
  | [] => PTuple [PStr (f_name f); PStr (typestr f)]
  | sh => PTuple [PStr (f_name f); PStr (typestr f); PTuple (map PInt sh)]
  end.
Definition py_vdescr (dt : dtype) : pv := PList (map descr_field dt).

(* numpy.dtype(descr) on such lists *)
Fixpoint ints_of (l : list pv) : option (list Z) :=
  match l with
  | [] => Some []
  | PInt z :: t => match ints_of t with Some r => Some (z :: r) | None => None end
  | _ => None
  end.
Definition mk_field (n ts : list byte) (sh : list Z) : option field :=
  match ts with
  | o :: k :: ds => if all_digits ds
                    then Some {| f_name := n; f_order := o; f_kind := k; f_size := fst (read_digits 0 ds); f_shape := sh |}
                    else None
  | _ => None
  end.
Definition field_of (v : pv) : option field :=
  match v with
  | PTuple [PStr n; PStr ts] => mk_field n ts []
  | PTuple [PStr n; PStr ts; PTuple sh] => match ints_of sh with Some s => mk_field n ts s | None => None end
  | _ => None
  end.
Fixpoint fields_of (l : list pv) : option dtype :=
  match l with
  | [] => Some []
  | v :: t => match field_of v, fields_of t with Some f, Some r => Some (f :: r) | _, _ => None end
  end.
Definition py_np_dtype (v : pv) : option dtype := match v with PList l => fields_of l | _ => None end.

Definition py_pformat (h : hdict pv) : list byte := pv_print (PDict h).
Definition py_eval (t : list byte) : option (hdict pv) :=
  match pv_parse t with Some (PDict h) => Some h | _ => None end.

(* the dtypes of the statement: sizes are not negative, names and type characters are text *)
Definition wf_field (f : field) : bool :=
  (0 <=? f_size f) && no_ff (f_name f) && negb (byte_eqb (f_order f) xff) && negb (byte_eqb (f_kind f) xff).
Definition wf_dtype (dt : dtype) : bool := forallb wf_field dt.

(* ------------------------------------------------------------------ numpy.dtype (descr dt) = dt *)
Lemma ints_of_map l : ints_of (map PInt l) = Some l.
Proof. induction l as [|z t IH]; [reflexivity|]. cbn [map ints_of]. rewrite IH. reflexivity. Qed.

Lemma mk_field_typestr f : 0 <= f_size f ->
  mk_field (f_name f) (typestr f) (f_shape f) = Some f.
Proof.
  intro H. unfold mk_field, typestr. rewrite all_digits_dec, read_digits_dec by exact H.
  destruct f; reflexivity.
Qed.

Lemma field_of_descr f : 0 <= f_size f -> field_of (descr_field f) = Some f.
Proof.
  intro H. unfold descr_field. destruct (f_shape f) as [|z sh] eqn:E.
  - cbn [field_of]. rewrite <- E. apply mk_field_typestr. exact H.
  - cbn [field_of]. rewrite ints_of_map, <- E. apply mk_field_typestr. exact H.
Qed.

Lemma np_dtype_descr dt : wf_dtype dt = true -> py_np_dtype (py_vdescr dt) = Some dt.
Proof.
  unfold py_np_dtype, py_vdescr, wf_dtype. induction dt as [|f t IH]; intro W; [reflexivity|].
  cbn [forallb] in W. apply andb_true_iff in W as [Wf Wt]. cbn [map fields_of].
  unfold wf_field in Wf. repeat (let X := fresh "X" in apply andb_true_iff in Wf as [Wf X]).
  rewrite field_of_descr by lia. rewrite (IH Wt). reflexivity.
Qed.

(* ------------------------------------------------------------------ well-formedness of the header *)
Lemma no_ff_dec n : 0 <= n -> no_ff (dec n) = true.
Proof.
  intro H. destruct (dec_spec n H) as [_ [F _]]. unfold no_ff. apply forallb_forall. intros x I.
  rewrite Forall_forall in F. specialize (F x I). destruct (byte_eqb x xff) eqn:E; [|reflexivity].
  apply byte_eqb_eq in E. subst x. discriminate F.
Qed.

Lemma wf_descr_field f : wf_field f = true -> wf (descr_field f) = true.
Proof.
  unfold wf_field. intro W. repeat (let X := fresh "X" in apply andb_true_iff in W as [W X]).
  assert (T : no_ff (typestr f) = true).
  { unfold typestr, no_ff. cbn [forallb]. rewrite X0, X. cbn [andb]. apply no_ff_dec. lia. }
  unfold descr_field. destruct (f_shape f) as [|z sh].
  - rewrite wf_tuple. cbn [forallb wf]. rewrite X1, T. reflexivity.
  - rewrite wf_tuple. cbn [forallb].
    change (wf (PStr (f_name f))) with (no_ff (f_name f)). change (wf (PStr (typestr f))) with (no_ff (typestr f)).
    rewrite X1, T. cbn [andb]. rewrite wf_tuple. rewrite andb_true_r. apply forallb_forall. intros x I.
    apply in_map_iff in I as [y [<- _]]. reflexivity.
Qed.

Lemma wf_vdescr dt : wf_dtype dt = true -> wf (py_vdescr dt) = true.
Proof.
  intro W. unfold py_vdescr. rewrite wf_list. apply forallb_forall. intros x I.
  apply in_map_iff in I as [f [<- If]]. apply wf_descr_field.
  unfold wf_dtype in W. rewrite forallb_forall in W. exact (W f If).
Qed.

Lemma wf_items_ddel k h : wf_items h = true -> wf_items (ddel pv k h) = true.
Proof.
  unfold wf_items. induction h as [|[k' v] t IH]; intro W; [reflexivity|].
  cbn [forallb] in W. apply andb_true_iff in W as [W1 W2]. cbn [ddel].
  destruct (bytes_eqb k k'); [auto|]. cbn [forallb]. rewrite W1, IH by exact W2. reflexivity.
Qed.

Lemma wf_items_dset k v h : no_ff k = true -> wf v = true -> wf_items h = true -> wf_items (dset pv k v h) = true.
Proof.
  unfold wf_items. intros Wk Wv. induction h as [|[k' v'] t IH]; intro W.
  - cbn [dset forallb fst snd]. rewrite Wk, Wv. reflexivity.
  - cbn [forallb] in W. apply andb_true_iff in W as [W1 W2]. cbn [fst snd] in W1. cbn [dset].
    destruct (bytes_eqb k k'); cbn [forallb fst snd].
    + rewrite Wk, Wv, W2. reflexivity.
    + rewrite W1, IH by exact W2. reflexivity.
Qed.

Lemma wf_items_strip h : wf_items h = true -> wf_items (strip_reserved pv h) = true.
Proof.
  unfold wf_items. induction h as [|[k v] t IH]; intro W; [reflexivity|].
  cbn [forallb] in W. apply andb_true_iff in W as [W1 W2]. cbn [strip_reserved].
  destruct (is_stripped k); [auto|]. cbn [forallb]. rewrite W1, IH by exact W2. reflexivity.
Qed.

Lemma wf_make_header hdr dt : wf_items hdr = true -> wf_dtype dt = true ->
  wf_items (make_header pv py_vstr py_vdescr hdr dt) = true.
Proof.
  intros Wh Wd. unfold make_header. apply wf_items_dset; [reflexivity | reflexivity |].
  apply wf_items_dset; [reflexivity | apply wf_vdescr; exact Wd |]. apply wf_items_strip. exact Wh.
Qed.

(* ------------------------------------------------------------------ the printed header text *)
Lemma okb_clean l : forallb okb l = true -> clean l = true /\ ~ In nl l.
Proof.
  intro H. rewrite forallb_forall in H. split.
  - unfold clean. apply forallb_forall. intros x I. specialize (H x I). unfold okb in H.
    apply andb_true_iff in H. apply H.
  - intro I. specialize (H nl I). vm_compute in H. discriminate H.
Qed.

Lemma py_pformat_text_ok h : wf_items h = true -> hdr_text_ok (py_pformat h) = true.
Proof.
  intro W. unfold py_pformat. assert (Wd : wf (PDict h) = true) by (rewrite wf_dict; exact W).
  destruct (okb_clean _ (pv_print_ok _ Wd)) as [C N].
  unfold hdr_text_ok. rewrite C. cbn [andb]. unfold split_nl. rewrite split_on_nosep by exact N.
  cbn [forallb]. rewrite andb_true_r.
  unfold pv_print. rewrite print_dict. reflexivity.
Qed.

Lemma py_eval_pformat h : wf_items h = true ->
  py_eval (join [sp] (split_nl (py_pformat h))) = Some h.
Proof.
  intro W. assert (Wd : wf (PDict h) = true) by (rewrite wf_dict; exact W).
  destruct (okb_clean _ (pv_print_ok _ Wd)) as [_ N].
  unfold split_nl, py_pformat. rewrite split_on_nosep by exact N. cbn [join].
  unfold py_eval. rewrite pv_parse_print by exact Wd. reflexivity.
Qed.

(* ------------------------------------------------------------------ H_pf is a theorem *)
Theorem H_pf_holds hdr dt : wf_items hdr = true -> wf_dtype dt = true ->
  H_pf pv eq py_pformat py_eval py_np_dtype (make_header pv py_vstr py_vdescr hdr dt) dt.
Proof.
  intros Wh Wd. pose proof (wf_make_header hdr dt Wh Wd) as W.
  split; [apply py_pformat_text_ok; exact W|].
  exists (make_header pv py_vstr py_vdescr hdr dt). split; [apply py_eval_pformat; exact W|]. split.
  - intro k. destruct (dget pv k (make_header pv py_vstr py_vdescr hdr dt)); [reflexivity | exact I].
  - intros v G. rewrite head_dtype in G. inversion G; subst. apply np_dtype_descr. exact Wd.
Qed.

Theorem roundtrip_unconditional hdr dt rows :
  wf_items hdr = true -> wf_dtype dt = true -> user_hdr_ok pv hdr ->
  rows <> [] -> rows_fit dt rows -> 0 < rowsize dt ->
  exists out, sfile_read pv py_vstr py_vint py_np_dtype py_eval
                (sfile_write pv py_vstr py_vdescr py_pformat hdr dt rows) = Ok out
              /\ roundtrip_ok pv eq py_vint py_np_dtype hdr dt rows out.
Proof.
  intros Wh Wd U NE F R. apply roundtrip; auto. apply H_pf_holds; assumption.
Qed.

(* ------------------------------------------------------------------ H_pf decided on a REAL pformat text *)
(* d1 == d2 for association lists without duplicate keys, values compared on their printed form *)
Fixpoint nodupb (l : list (list byte)) : bool :=
  match l with [] => true | k :: t => negb (existsb (bytes_eqb k) t) && nodupb t end.
Definition equivb (h head : hdict pv) : bool :=
  (length h =? length head)%nat && nodupb (keys pv h) && nodupb (keys pv head)
  && forallb (fun kv => match dget pv (fst kv) h with
                        | Some v => wf v && bytes_eqb (pv_print v) (pv_print (snd kv))
                        | None => false
                        end) head.

(* [real]: the text the real pprint.pformat produced; [uhdr]: the user's header; [head]: the dict the
   real _make_header built (both in dict order, nested dicts sorted as pformat prints them) *)
Definition hpf_check (real : list byte) (uhdr head : hdict pv) (dt : dtype) : bool :=
  hdr_text_ok real && wf_items uhdr && wf_items head && wf_dtype dt
  && bytes_eqb (py_pformat (make_header pv py_vstr py_vdescr uhdr dt)) (py_pformat head)
  && match py_eval (join [sp] (split_nl real)) with Some h => equivb h head | None => false end.

Lemma nodupb_NoDup l : nodupb l = true -> NoDup l.
Proof.
  induction l as [|k t IH]; intro H; [constructor|]. cbn [nodupb] in H. apply andb_true_iff in H as [H1 H2].
  constructor; [|auto]. intro I. apply negb_true_iff in H1.
  assert (X : existsb (bytes_eqb k) t = true) by (apply existsb_exists; exists k; split; [exact I | apply bytes_eqb_refl]).
  rewrite X in H1. discriminate.
Qed.

Lemma dget_in (h : hdict pv) k v : dget pv k h = Some v -> In k (keys pv h).
Proof.
  induction h as [|[k' v'] t IH]; cbn [dget keys map fst]; [discriminate|].
  destruct (bytes_eqb k k') eqn:E; intro H.
  - apply bytes_eqb_eq in E. left. symmetry. exact E.
  - right. apply IH. exact H.
Qed.

Lemma dget_notin (h : hdict pv) k : ~ In k (keys pv h) -> dget pv k h = None.
Proof.
  induction h as [|[k' v'] t IH]; cbn [dget keys map fst]; intro N; [reflexivity|].
  destruct (bytes_eqb k k') eqn:E.
  - apply bytes_eqb_eq in E. exfalso. apply N. left. symmetry. exact E.
  - apply IH. intro I. apply N. right. exact I.
Qed.

Lemma dget_nodup (h : hdict pv) k v : NoDup (keys pv h) -> In (k, v) h -> dget pv k h = Some v.
Proof.
  induction h as [|[k' v'] t IH]; intros N I; [destruct I|].
  cbn [keys map fst] in N. inversion N as [|x y Nk Nt]; subst. cbn [dget]. destruct I as [I|I].
  - inversion I; subst. rewrite bytes_eqb_refl. reflexivity.
  - destruct (bytes_eqb k k') eqn:E.
    + apply bytes_eqb_eq in E. subst k'. exfalso. apply Nk. change (In k (keys pv t)).
      unfold keys. apply in_map_iff. exists (k, v). split; [reflexivity | exact I].
    + apply IH; assumption.
Qed.

Lemma equivb_sound h head : wf_items head = true -> equivb h head = true -> dict_equiv pv eq h head.
Proof.
  intros Wh E. unfold equivb in E. repeat (let X := fresh "X" in apply andb_true_iff in E as [E X]).
  apply Nat.eqb_eq in E. apply nodupb_NoDup in X1. apply nodupb_NoDup in X0. rewrite forallb_forall in X.
  assert (Inc : incl (keys pv head) (keys pv h)).
  { intros k I. unfold keys in I. apply in_map_iff in I as [[k' v] [<- I]]. specialize (X _ I). cbn [fst] in X.
    destruct (dget pv k' h) as [v'|] eqn:G; [|discriminate]. exact (dget_in _ _ _ G). }
  assert (Inc' : incl (keys pv h) (keys pv head)).
  { apply NoDup_length_incl; [exact X0 | unfold keys; rewrite !map_length; lia | exact Inc]. }
  intro k. destruct (dget pv k head) as [b|] eqn:Gh.
  - assert (Ik : In k (keys pv head)) by exact (dget_in _ _ _ Gh).
    unfold keys in Ik. apply in_map_iff in Ik as [[k' v] [Ek I]]. cbn [fst] in Ek. subst k'.
    rewrite (dget_nodup head k v X0 I) in Gh. inversion Gh; subst b.
    specialize (X _ I). cbn [fst snd] in X. destruct (dget pv k h) as [v'|]; [|discriminate].
    apply andb_true_iff in X as [W' P]. apply bytes_eqb_eq in P.
    apply pv_print_inj; [exact W' | | exact P].
    unfold wf_items in Wh. rewrite forallb_forall in Wh. specialize (Wh _ I). cbn [fst snd] in Wh.
    apply andb_true_iff in Wh. apply Wh.
  - rewrite dget_notin; [exact I|]. intro Ik. apply Inc' in Ik.
    unfold keys in Ik. apply in_map_iff in Ik as [[k' v] [Ek I']]. cbn [fst] in Ek. subst k'.
    rewrite (dget_nodup head k v X0 I') in Gh. discriminate.
Qed.

(* the checker is sound: H_pf holds for the REAL text (pformat is whatever function returned it) *)
Theorem hpf_check_sound real uhdr head dt : hpf_check real uhdr head dt = true ->
  forall pformat, pformat (make_header pv py_vstr py_vdescr uhdr dt) = real ->
  H_pf pv eq pformat py_eval py_np_dtype (make_header pv py_vstr py_vdescr uhdr dt) dt.
Proof.
  intros C pformat Ep. unfold hpf_check in C. repeat (let X := fresh "X" in apply andb_true_iff in C as [C X]).
  apply bytes_eqb_eq in X0.
  assert (Wm := wf_make_header uhdr dt X3 X1).
  assert (Em : make_header pv py_vstr py_vdescr uhdr dt = head).
  { assert (Q : PDict (make_header pv py_vstr py_vdescr uhdr dt) = PDict head).
    { apply pv_print_inj; [rewrite wf_dict; exact Wm | rewrite wf_dict; exact X2 | exact X0]. }
    inversion Q. reflexivity. }
  unfold H_pf. rewrite Ep. split; [unfold hdr_text_ok; rewrite C, X4; reflexivity|].
  destruct (py_eval (join [sp] (split_nl real))) as [h|]; [|discriminate].
  exists h. split; [reflexivity|]. split.
  - rewrite Em. apply equivb_sound; assumption.
  - intros v G. pose proof (equivb_sound h head X2 X) as Q. specialize (Q (B "_DTYPE")). rewrite G in Q.
    rewrite <- Em, head_dtype in Q. subst v. apply np_dtype_descr. exact X1.
Qed.

(* ... and with it the round trip for the file the REAL text goes into *)
Theorem roundtrip_real_text real uhdr head dt rows : hpf_check real uhdr head dt = true ->
  user_hdr_ok pv uhdr -> rows <> [] -> rows_fit dt rows -> 0 < rowsize dt ->
  exists out, sfile_read pv py_vstr py_vint py_np_dtype py_eval
                (sfile_write pv py_vstr py_vdescr (fun _ => real) uhdr dt rows) = Ok out
              /\ roundtrip_ok pv eq py_vint py_np_dtype uhdr dt rows out.
Proof.
  intros C U NE F R. apply roundtrip; auto. apply (hpf_check_sound real uhdr head dt C). reflexivity.
Qed.

(* ------------------------------------------------------------------ ... and for EVERY user header *)
(* additionally: in the dict the verified parser reads from the real text, the first key that
   lower-cases to _dtype is _DTYPE itself (pformat sorts the keys) *)
Definition dtype_first (real : list byte) : bool :=
  match py_eval (join [sp] (split_nl real)) with
  | Some h => match first_key pv h (B "_dtype") with Some k => bytes_eqb k (B "_DTYPE") | None => false end
  | None => false
  end.
Definition hpf_check_all (real : list byte) (uhdr head : hdict pv) (dt : dtype) : bool :=
  hpf_check real uhdr head dt && dtype_first real.

Theorem roundtrip_real_text_all real uhdr head dt rows : hpf_check_all real uhdr head dt = true ->
  rows <> [] -> rows_fit dt rows -> 0 < rowsize dt ->
  exists out, sfile_read pv py_vstr py_vint py_np_dtype py_eval
                (sfile_write pv py_vstr py_vdescr (fun _ => real) uhdr dt rows) = Ok out
              /\ roundtrip_ok pv eq py_vint py_np_dtype uhdr dt rows out.
Proof.
  intros C NE F R. unfold hpf_check_all in C. apply andb_true_iff in C as [C D].
  destruct (hpf_check_sound real uhdr head dt C (fun _ => real) eq_refl) as [T [h' [Ev [Q Dt]]]].
  unfold dtype_first in D. rewrite Ev in D.
  destruct (first_key pv h' (B "_dtype")) as [k|] eqn:FK; [|discriminate]. apply bytes_eqb_eq in D. subst k.
  apply (roundtrip_ordered pv eq py_vstr py_vint py_vdescr py_np_dtype (fun _ => real) py_eval uhdr dt rows h'); auto.
Qed.

(* C01 — property theorems only.  Bodies live in FramingProofs.v / Proofs.v / Witness.v.

   "Binary record files reproduce the written table bit-for-bit."  The model describes the
   code AFTER the repair in fixes/C01 (read_sfile_header looks for the line END instead of the
   first occurrence of the characters END).  pprint.pformat, eval and numpy.dtype are not
   modelled: they are universally quantified below and constrained only by the premise
   [H_pf] on the one header that is written, which the harness monitors on every case. *)
From Coq Require Import ZArith List Bool.
From Coq.Strings Require Import Byte String.
From EsVerif.Common Require Import Base Bytes.
From EsVerif.C01 Require Import Framing FramingProofs Model Spec Layout LayoutProofs Entry Gen GenProofs Big BigProofs Proofs Pyval PyvalProofs Uncond Frame FrameProofs RejectProofs Witness.
Import ListNotations.
Open Scope Z_scope.
Open Scope list_scope.
Notation length := List.length.

(* The size line "SIZE = %20d" parses back to the number for EVERY n >= 0 and has the fixed
   length 27 (needed for in-place updates) whenever n < 10^20. *)
Theorem C01_size_line_spec : forall n, 0 <= n ->
  parse_size (size_line n) = Ok n /\ (n < 10 ^ 20 -> length (size_line n) = 27%nat).
Proof. exact size_line_spec. Qed.

(* The (repaired) scanner returns exactly the end of the header, whatever follows it, as soon
   as the dict text has no NUL/0xFF byte and none of its LINES is END.  Occurrences of the
   characters END inside a line ('THE END', TREND) are allowed. *)
Theorem C01_scan_end_spec : forall n d data, 0 <= n -> hdr_text_ok d = true ->
  scan_end (mk_header n d ++ data) = Ok (length (mk_header n d)).
Proof. exact scan_end_spec. Qed.

(* The scanner of the unchanged tree (first occurrence of E,N,D; +2) does not: the header
   value 'THE END' and the field name TREND are witnesses that satisfy the same premise. *)
Theorem C01_unrepaired_scanner_refuted :
  exists n d data, 0 <= n /\ hdr_text_ok d = true
    /\ offset_v0 (mk_header n d ++ data) <> Ok (length (mk_header n d)).
Proof. exact unrepaired_scanner_refuted. Qed.

Theorem C01_unrepaired_scanner_refuted_field_name :
  exists n d data, 0 <= n /\ hdr_text_ok d = true
    /\ offset_v0 (mk_header n d ++ data) <> Ok (length (mk_header n d)).
Proof. exact unrepaired_scanner_refuted_field_name. Qed.

(* Round trip through the self-describing module (SFile, sfile.write/read, io.write/io.read):
   for every header dict, packed dtype and non-empty table whose rows have the dtype's row
   size, reading the written file returns the same dtype (names, types, sub-array shapes,
   byte order), identical bytes in every row, _SIZE = number of rows, a _DTYPE entry from
   which numpy.dtype reconstructs the dtype, and every non-reserved user key with an equal
   value. *)
Theorem C01_roundtrip :
  forall (pyval : Type) (pyeq : pyval -> pyval -> Prop)
         (v_str : list byte -> pyval) (v_int : Z -> pyval) (v_descr : dtype -> pyval)
         (np_dtype : pyval -> option dtype) (pformat : hdict pyval -> list byte)
         (pyeval : list byte -> option (hdict pyval))
         (hdr : hdict pyval) (dt : dtype) (rows : list (list byte)),
    H_pf pyval pyeq pformat pyeval np_dtype (make_header pyval v_str v_descr hdr dt) dt ->
    user_hdr_ok pyval hdr ->
    rows <> [] -> rows_fit dt rows -> 0 < rowsize dt ->
    exists out, sfile_read pyval v_str v_int np_dtype pyeval
                  (sfile_write pyval v_str v_descr pformat hdr dt rows) = Ok out
                /\ roundtrip_ok pyval pyeq v_int np_dtype hdr dt rows out.
Proof. exact roundtrip. Qed.

(* What is left of the premise [user_hdr_ok] — a user key spelling _dtype otherwise than _DTYPE —
   cannot be dropped from the abstract theorem: H_pf does not fix the ORDER of the evaluated dict and
   the reader takes the first key that lower-cases to _dtype (the real code is safe: pformat sorts,
   _DTYPE sorts first; the harness generates such keys and the checker judges the real code on them). *)
Theorem C01_roundtrip_needs_user_hdr_ok :
  H_pf (list byte) eq bad_pformat bad_pyeval bad_np_dtype bad_head ex_dt
  /\ ~ user_hdr_ok (list byte) bad_hdr
  /\ ex_rows <> [] /\ rows_fit ex_dt ex_rows /\ 0 < rowsize ex_dt
  /\ reserved (B "_dtype") = false
  /\ sfile_read (list byte) ex_vstr dec bad_np_dtype bad_pyeval
       (sfile_write (list byte) ex_vstr ex_vdescr bad_pformat bad_hdr ex_dt ex_rows) = Err EType.
Proof. exact roundtrip_needs_user_hdr_ok. Qed.

(* _make_header as found (only all-lower / all-upper spellings removed) let a user key _Delim
   through: the binary file was then taken for a text file.  The repaired one (any spelling) strips
   it, keeps the other keys, and the table comes back (defect C01-mixed-case-reserved-key, /repo 04e3f20). *)
Theorem C01_unrepaired_make_header_refuted :
  user_hdr_ok (list byte) mc_hdr
  /\ dget (list byte) (B "_Delim") (make_header_v0 mc_hdr) = Some (B "','")
  /\ sfile_read (list byte) ex_vstr dec ex_np_dtype mc_pyeval_v0 (sfile_file w_text_field ex_rows) = Err EOther
  /\ dget (list byte) (B "_Delim") mc_head = None /\ dget (list byte) (B "keep") mc_head = Some (B "1")
  /\ exists h, sfile_read (list byte) ex_vstr dec ex_np_dtype mc_pyeval (sfile_file w_text_field ex_rows) = Ok (ex_dt, ex_rows, h).
Proof. exact unrepaired_make_header_refuted. Qed.

(* _make_header keeps every user key other than the reserved names, with its value. *)
Theorem C01_user_keys_kept :
  forall (pyval : Type) (v_str : list byte -> pyval) (v_descr : dtype -> pyval)
         (hdr : hdict pyval) (dt : dtype) (k : list byte),
    reserved k = false ->
    dget pyval k (make_header pyval v_str v_descr hdr dt) = dget pyval k hdr.
Proof. exact user_keys_kept. Qed.

(* Low-level reader (recfile.write/read, Recfile): rows counted from the file size, or the
   row count given. *)
Theorem C01_recfile_roundtrip : forall dt rows nrows,
  rows <> [] -> rows_fit dt rows -> 0 < rowsize dt ->
  (nrows = None \/ (exists m, nrows = Some m /\ m < 0) \/ nrows = Some (Z.of_nat (length rows))) ->
  recfile_read0 (recfile_write rows) dt nrows = Ok rows.
Proof. exact recfile_roundtrip. Qed.

(* Row count derived from the file size equals the number of rows written, after any header. *)
Theorem C01_count_nrows : forall (hdr : list byte) dt rows,
  rows_fit dt rows -> 0 < rowsize dt ->
  count_nrows (Z.of_nat (length (hdr ++ bin_write rows))) (Z.of_nat (length hdr)) (rowsize dt)
  = Z.of_nat (length rows).
Proof. exact count_nrows_written. Qed.

(* A file written through the self-describing module, read by the low-level reader given the
   dtype and the data offset found by the scanner: the bytes after the END line are the rows. *)
Theorem C01_sfile_data_region :
  forall (pyval : Type) (v_str : list byte -> pyval) (v_descr : dtype -> pyval)
         (pformat : hdict pyval -> list byte) (hdr : hdict pyval) (dt : dtype)
         (rows : list (list byte)) (nrows : option Z),
    hdr_text_ok (pformat (make_header pyval v_str v_descr hdr dt)) = true ->
    rows <> [] -> rows_fit dt rows -> 0 < rowsize dt ->
    (nrows = None \/ nrows = Some (Z.of_nat (length rows))) ->
    let f := sfile_write pyval v_str v_descr pformat hdr dt rows in
    exists off, scan_end f = Ok off
      /\ skipn off f = bin_write rows
      /\ recfile_read f (Z.of_nat off) (rowsize dt) nrows = Ok rows.
Proof. exact sfile_data_region. Qed.

(* ---- "any structured array": the memory layout of the array handed to the writer (Layout.v).

   Recfile.write (after fixes/C01/0002: numpy.ascontiguousarray first) leaves exactly the rows of
   the table, in order, for EVERY layout: strided slices, reversed views, transposed or sliced
   n-d arrays, 0-d arrays — any offsets/strides that stay inside the buffer. *)
Theorem C01_write_any_layout : forall v, in_bounds v = true ->
  recfile_write_view v = bin_write (view_rows v).
Proof. exact write_any_layout. Qed.

(* The writer of the unchanged tree (one fwrite of size*itemsize bytes from the address of
   element 0) does so for C-contiguous arrays ... *)
Theorem C01_unrepaired_write_contiguous : forall v, kf_noncontiguous_write v = false -> in_bounds v = true ->
  0 <= v_start v -> v_start v + Z.of_nat (view_size v * v_item v) <= Z.of_nat (length (v_buf v)) ->
  recfile_write_view_v0 v = bin_write (view_rows v).
Proof. exact write_v0_outside_known. Qed.

(* ... and not for others: data[::2] and a transposed 2x2 table are witnesses (the repaired
   writer is right on the same witnesses). *)
Theorem C01_unrepaired_write_refuted :
  exists v, in_bounds v = true /\ view_rows v <> []
            /\ recfile_write_view_v0 v <> bin_write (view_rows v)
            /\ recfile_write_view v = bin_write (view_rows v).
Proof. exact unrepaired_write_refuted. Qed.

Theorem C01_unrepaired_write_refuted_transposed :
  exists v, in_bounds v = true /\ view_rows v <> []
            /\ recfile_write_view_v0 v <> bin_write (view_rows v)
            /\ recfile_write_view v = bin_write (view_rows v).
Proof. exact unrepaired_write_refuted_transposed. Qed.

(* The round trip of C01_roundtrip for the array as numpy holds it. *)
Theorem C01_roundtrip_any_layout :
  forall (pyval : Type) (pyeq : pyval -> pyval -> Prop)
         (v_str : list byte -> pyval) (v_int : Z -> pyval) (v_descr : dtype -> pyval)
         (np_dtype : pyval -> option dtype) (pformat : hdict pyval -> list byte)
         (pyeval : list byte -> option (hdict pyval))
         (hdr : hdict pyval) (dt : dtype) (v : ndview),
    H_pf pyval pyeq pformat pyeval np_dtype (make_header pyval v_str v_descr hdr dt) dt ->
    user_hdr_ok pyval hdr ->
    in_bounds v = true -> (1 <= view_size v)%nat -> Z.of_nat (v_item v) = rowsize dt -> 0 < rowsize dt ->
    exists out, sfile_read pyval v_str v_int np_dtype pyeval
                  (sfile_write_view pyval v_str v_descr pformat hdr dt v) = Ok out
                /\ roundtrip_ok pyval pyeq v_int np_dtype hdr dt (view_rows v) out.
Proof. exact roundtrip_any_layout. Qed.

Theorem C01_recfile_roundtrip_any_layout : forall dt v nrows,
  in_bounds v = true -> (1 <= view_size v)%nat -> Z.of_nat (v_item v) = rowsize dt -> 0 < rowsize dt ->
  (nrows = None \/ (exists m, nrows = Some m /\ m < 0) \/ nrows = Some (Z.of_nat (view_size v))) ->
  recfile_read0 (recfile_write_view v) dt nrows = Ok (view_rows v).
Proof. exact recfile_roundtrip_any_layout. Qed.

(* ---- the entry points (Entry.v): SFile / sfile.write+read (either argument order) / io.write+read
   denote the same model functions, Recfile / recfile.write+read likewise ... *)
Theorem C01_entrypoints_agree :
  forall (pyval : Type) (v_str : list byte -> pyval) (v_int : Z -> pyval) (v_descr : dtype -> pyval)
         (np_dtype : pyval -> option dtype) (pformat : hdict pyval -> list byte)
         (pyeval : list byte -> option (hdict pyval)),
    (forall sw h dt v, sfile_write_fn pyval v_str v_descr pformat sw h dt v = SFile_write pyval v_str v_descr pformat h dt v)
    /\ (forall h dt v, io_write pyval v_str v_descr pformat h dt v = SFile_write pyval v_str v_descr pformat h dt v)
    /\ (forall dt v, SFile_write pyval v_str v_descr pformat None dt v = SFile_write pyval v_str v_descr pformat (Some []) dt v)
    /\ (forall h dt v, SFile_write pyval v_str v_descr pformat (Some h) dt v = sfile_write_view pyval v_str v_descr pformat h dt v)
    /\ (forall f, sfile_read_fn pyval v_str v_int np_dtype pyeval f = SFile_read pyval v_str v_int np_dtype pyeval f)
    /\ (forall f, io_read pyval v_str v_int np_dtype pyeval f = SFile_read pyval v_str v_int np_dtype pyeval f)
    /\ (forall f, SFile_read pyval v_str v_int np_dtype pyeval f = sfile_read pyval v_str v_int np_dtype pyeval f)
    /\ (forall v, recfile_write_fn v = Recfile_write v) /\ (forall v, Recfile_write v = recfile_write_view v)
    /\ (forall f dt n, recfile_read_fn f dt n = Recfile_read f dt n)
    /\ (forall f dt n, Recfile_read f dt n = recfile_read0 f dt n).
Proof. exact entrypoints_agree. Qed.

(* ... hence the round trip holds for every writer/reader combination of the self-describing
   family, header given or None. *)
Theorem C01_roundtrip_every_entry_point :
  forall (pyval : Type) (pyeq : pyval -> pyval -> Prop)
         (v_str : list byte -> pyval) (v_int : Z -> pyval) (v_descr : dtype -> pyval)
         (np_dtype : pyval -> option dtype) (pformat : hdict pyval -> list byte)
         (pyeval : list byte -> option (hdict pyval))
         (hdr : option (hdict pyval)) (dt : dtype) (v : ndview),
    H_pf pyval pyeq pformat pyeval np_dtype (make_header pyval v_str v_descr (hdr_arg pyval hdr) dt) dt ->
    user_hdr_ok pyval (hdr_arg pyval hdr) ->
    in_bounds v = true -> (1 <= view_size v)%nat -> Z.of_nat (v_item v) = rowsize dt -> 0 < rowsize dt ->
    forall w r,
      In w [SFile_write pyval v_str v_descr pformat; sfile_write_fn pyval v_str v_descr pformat false;
            sfile_write_fn pyval v_str v_descr pformat true; io_write pyval v_str v_descr pformat] ->
      In r [SFile_read pyval v_str v_int np_dtype pyeval; sfile_read_fn pyval v_str v_int np_dtype pyeval;
            io_read pyval v_str v_int np_dtype pyeval] ->
      exists out, r (w hdr dt v) = Ok out
                  /\ roundtrip_ok pyval pyeq v_int np_dtype (hdr_arg pyval hdr) dt (view_rows v) out.
Proof. exact roundtrip_every_entry_point. Qed.

(* ---- tie to the source (Gen.v is regenerated from sfile.py / Util.py / records.cpp on every run
   by harness/props/c01_translate.py; these statements are re-checked when it changes).

   The constants of the model are the constants of the source. *)
Theorem C01_gen_consts :
  gen_sfile_version = sfile_version
  /\ gen_reserved = reserved_lower
  /\ gen_scan_pat = pat /\ gen_scan_incr = blank_extra
  /\ gen_update_prefix = gen_size_prefix /\ gen_update_width = gen_size_width
  /\ forall n, size_line n = gen_size_prefix ++ pad_left gen_size_width (dec n).
Proof. exact gen_consts. Qed.

(* The model's _make_header is the translation, statement by statement, of SFile._make_header
   (reserved list, case-insensitive deletion loop, order of the _DTYPE / _VERSION entries). *)
Theorem C01_gen_make_header : forall (pyval : Type) (v_str : list byte -> pyval) (v_descr : dtype -> pyval)
                                     (hdr : hdict pyval) (dt : dtype),
  gen_make_header pyval v_str v_descr hdr dt = make_header pyval v_str v_descr hdr dt.
Proof. exact gen_make_header_eq. Qed.

(* The header framing (size line, dict text, END, blank line, joined by newlines) is the translation
   of the list SFile._write_header joins; the reader's choice of lines (lines[0], lines[1:len-3] joined
   by blanks) is the translation of the indices and the slice in SFile.read_header. *)
Theorem C01_gen_mk_header : forall n d, gen_mk_header n d = mk_header n d.
Proof. exact gen_mk_header_eq. Qed.

Theorem C01_gen_parse_header : forall hs, gen_parse_header hs = parse_header hs.
Proof. exact gen_parse_header_eq. Qed.

(* The model's low-level read is the composition of the translated integer functions
   (_count_nrows, Records::process_nrows, _get_slice_nrows, Records::process_slice) with the fread. *)
Theorem C01_gen_recfile_read : forall f offset rs nrows,
  recfile_read f offset rs nrows = recfile_read_gen f offset rs nrows.
Proof. exact recfile_read_is_gen. Qed.

(* C's truncating / and % in Records::process_slice and Python's floor // and % in
   Recfile._get_slice_nrows agree on every slice the reader accepts. *)
Theorem C01_gen_slice_agree : forall n r1 r2 s, 0 <= r1 -> r1 <= r2 -> r2 <= n -> 0 < s ->
  gen_process_slice n r1 r2 s = gen_get_slice_nrows r1 r2 s.
Proof. exact gen_slice_agree. Qed.

(* What the case files evaluate ([sfile_read_c]) is the model's read with eval / numpy.dtype
   resolved. *)
Theorem C01_exec_read_is_model :
  forall (pyval : Type) (v_str : list byte -> pyval) (v_int : Z -> pyval)
         (np_dtype : pyval -> option dtype) (pyeval : list byte -> option (hdict pyval))
         f dt rows h,
    sfile_read pyval v_str v_int np_dtype pyeval f = Ok (dt, rows, h) ->
    exists size, sfile_read_c f dt = Ok (size, rows).
Proof. exact sfile_read_c_is_model. Qed.

(* ---- the Python layer made concrete (Pyval.v, Uncond.v): header values [pv] (int, float token,
   None, bool, str, bytes, list, tuple, dict with str keys), a printer and a parser for Python's
   literal syntax.  For every well-formed value the parser reads the printed text back. *)
Theorem C01_pv_parse_print : forall v, wf v = true -> pv_parse (pv_print v) = Some v.
Proof. exact pv_parse_print. Qed.

Theorem C01_pv_print_injective : forall a b, wf a = true -> wf b = true -> pv_print a = pv_print b -> a = b.
Proof. exact pv_print_inj. Qed.

(* The printed header is one line without NUL / 0xFF bytes, none of whose lines is END: clause (a)
   of H_pf, whatever text the keys and values contain. *)
Theorem C01_pformat_text_ok : forall h, wf_items h = true -> hdr_text_ok (py_pformat h) = true.
Proof. exact py_pformat_text_ok. Qed.

(* The model of numpy.dtype reconstructs every packed dtype from its descr: clause (c). *)
Theorem C01_np_dtype_descr : forall dt, wf_dtype dt = true -> py_np_dtype (py_vdescr dt) = Some dt.
Proof. exact np_dtype_descr. Qed.

(* Hence the contract H_pf — so far a hypothesis monitored per case — is a theorem for this
   printer / parser / numpy.dtype model, for every well-formed header and dtype ... *)
Theorem C01_H_pf_holds : forall hdr dt, wf_items hdr = true -> wf_dtype dt = true ->
  H_pf pv eq py_pformat py_eval py_np_dtype (make_header pv py_vstr py_vdescr hdr dt) dt.
Proof. exact H_pf_holds. Qed.

(* ... and the round trip holds without any hypothesis about pformat / eval / numpy.dtype. *)
Theorem C01_roundtrip_unconditional : forall hdr dt rows,
  wf_items hdr = true -> wf_dtype dt = true -> user_hdr_ok pv hdr ->
  rows <> [] -> rows_fit dt rows -> 0 < rowsize dt ->
  exists out, sfile_read pv py_vstr py_vint py_np_dtype py_eval
                (sfile_write pv py_vstr py_vdescr py_pformat hdr dt rows) = Ok out
              /\ roundtrip_ok pv eq py_vint py_np_dtype hdr dt rows out.
Proof. exact roundtrip_unconditional. Qed.

(* For the REAL pformat text of a case the contract is decided inside Coq by a verified checker
   (model _make_header = the real header dict; the verified parser reads the real text back to an
   equal dict; clause (a)): if it accepts, H_pf holds for that text, and with it the round trip. *)
Theorem C01_hpf_check_sound : forall real uhdr head dt, hpf_check real uhdr head dt = true ->
  forall pformat, pformat (make_header pv py_vstr py_vdescr uhdr dt) = real ->
  H_pf pv eq pformat py_eval py_np_dtype (make_header pv py_vstr py_vdescr uhdr dt) dt.
Proof. exact hpf_check_sound. Qed.

Theorem C01_roundtrip_real_text : forall real uhdr head dt rows, hpf_check real uhdr head dt = true ->
  user_hdr_ok pv uhdr -> rows <> [] -> rows_fit dt rows -> 0 < rowsize dt ->
  exists out, sfile_read pv py_vstr py_vint py_np_dtype py_eval
                (sfile_write pv py_vstr py_vdescr (fun _ => real) uhdr dt rows) = Ok out
              /\ roundtrip_ok pv eq py_vint py_np_dtype uhdr dt rows out.
Proof. exact roundtrip_real_text. Qed.

(* The same for EVERY user header (no premise on its keys), given that in the evaluated dict the
   first key that lower-cases to _dtype is _DTYPE itself — which the checker [hpf_check_all] decides
   on the real text (pformat sorts the keys; _DTYPE sorts before every other spelling). *)
Theorem C01_roundtrip_ordered :
  forall (pyval : Type) (pyeq : pyval -> pyval -> Prop)
         (v_str : list byte -> pyval) (v_int : Z -> pyval) (v_descr : dtype -> pyval)
         (np_dtype : pyval -> option dtype) (pformat : hdict pyval -> list byte)
         (pyeval : list byte -> option (hdict pyval))
         (hdr : hdict pyval) (dt : dtype) (rows : list (list byte)) (h' : hdict pyval),
    hdr_text_ok (pformat (make_header pyval v_str v_descr hdr dt)) = true ->
    pyeval (join [sp] (split_nl (pformat (make_header pyval v_str v_descr hdr dt)))) = Some h' ->
    dict_equiv pyval pyeq h' (make_header pyval v_str v_descr hdr dt) ->
    (forall v, dget pyval (B "_DTYPE") h' = Some v -> np_dtype v = Some dt) ->
    first_key pyval h' (B "_dtype") = Some (B "_DTYPE") ->
    rows <> [] -> rows_fit dt rows -> 0 < rowsize dt ->
    exists out, sfile_read pyval v_str v_int np_dtype pyeval
                  (sfile_write pyval v_str v_descr pformat hdr dt rows) = Ok out
                /\ roundtrip_ok pyval pyeq v_int np_dtype hdr dt rows out.
Proof. exact roundtrip_ordered. Qed.

Theorem C01_roundtrip_real_text_all_keys : forall real uhdr head dt rows, hpf_check_all real uhdr head dt = true ->
  rows <> [] -> rows_fit dt rows -> 0 < rowsize dt ->
  exists out, sfile_read pv py_vstr py_vint py_np_dtype py_eval
                (sfile_write pv py_vstr py_vdescr (fun _ => real) uhdr dt rows) = Ok out
              /\ roundtrip_ok pv eq py_vint py_np_dtype uhdr dt rows out.
Proof. exact roundtrip_real_text_all. Qed.

(* ---- frame conditions and history (Frame.v): the entry points as steps on a file system.
   Reads change no file; a write changes exactly the file it names. *)
Theorem C01_read_frame : forall s o, writes o = None -> fst (step s o) = s.
Proof. exact read_frame. Qed.

Theorem C01_write_frame : forall s o p q, writes o = Some p -> q <> p -> fst (step s o) q = s q.
Proof. exact write_frame. Qed.

(* The model's answer depends on the call's own arguments only: after ANY history, and with any
   traffic in between that does not write the path, write + read answers as write + read alone. *)
Theorem C01_history_independent : forall before between p hdr dt rows,
  forallb (fun o => negb (touches p o)) between = true ->
  forall s0,
  snd (step (run (fst (step (run s0 before) (WriteSelf p hdr dt rows))) between) (ReadSelf p))
  = snd (step (fst (step fs_empty (WriteSelf p hdr dt rows))) (ReadSelf p)).
Proof. exact history_independent. Qed.

Theorem C01_history_independent_recfile : forall before between p rows dt nrows,
  forallb (fun o => negb (touches p o)) between = true ->
  forall s0,
  snd (step (run (fst (step (run s0 before) (WriteRec p rows))) between) (ReadRec p dt nrows))
  = snd (step (fst (step fs_empty (WriteRec p rows))) (ReadRec p dt nrows)).
Proof. exact history_independent_rec. Qed.

(* The in-place update of the row count (Records::update_row_count) rewrites the SIZE line and
   leaves every other byte — the rest of the header and all rows — as it is; the file is the one
   a fresh write with the new count has. *)
Theorem C01_size_update_frame : forall m n d data, 0 <= m < 10 ^ 20 -> 0 <= n < 10 ^ 20 ->
  size_update (mk_header m d ++ data) n = mk_header n d ++ data
  /\ length (size_update (mk_header m d ++ data) n) = length (mk_header m d ++ data)
  /\ skipn 28 (size_update (mk_header m d ++ data) n) = skipn 28 (mk_header m d ++ data).
Proof. exact size_update_frame. Qed.

(* ---- rejections.  The row reader rejects a request exactly when the data are shorter than
   nrows * rowsize, the only error class is ERuntime, and what it accepts are the first nrows * rowsize
   bytes cut into rows. *)
Theorem C01_take_rows_rejects : forall rs n f,
  (take_rows rs n f = Err ERuntime <-> (length f < n * rs)%nat)
  /\ (forall e, take_rows rs n f = Err e -> e = ERuntime)
  /\ (forall rows, take_rows rs n f = Ok rows -> length rows = n /\ Forall (fun r => length r = rs) rows
                                                /\ concat rows = firstn (n * rs) f).
Proof. exact take_rows_rejects. Qed.

(* A self-describing file whose data region lost its last k bytes (1 <= k <= all of them) is rejected
   with ERuntime: a truncated file is never read as a shorter or shifted table. *)
Theorem C01_truncated_rejected : forall d dt rows k, hdr_text_ok d = true ->
  rows <> [] -> rows_fit dt rows -> 0 < rowsize dt ->
  (1 <= k <= length (bin_write rows))%nat ->
  let f := sfile_file d rows in
  sfile_read_c (firstn (length f - k) f) dt = Err ERuntime.
Proof. exact truncated_rejected. Qed.

(* The readers evaluated on the many-rows cases (Big.v: the length of the file is asked once, not
   before every row) are the model's readers. *)
Theorem C01_fast_readers_are_model :
  (forall rs n f, take_rows_fast rs n f = take_rows rs n f)
  /\ (forall f offset rs nrows, recfile_read_fast f offset rs nrows = recfile_read f offset rs nrows)
  /\ (forall f dt, sfile_read_c_fast f dt = sfile_read_c f dt)
  /\ (forall f dt nrows, recfile_read0_fast f dt nrows = recfile_read0 f dt nrows).
Proof.
  exact (conj (fun rs n f => eq_sym (take_rows_fast_eq rs n f))
          (conj recfile_read_fast_eq (conj sfile_read_c_fast_eq recfile_read0_fast_eq))).
Qed.

(* Checker soundness: what the correspondence run evaluates on the implementation's outputs. *)
Theorem C01_checkers_sound :
  (forall dt rows ukeys o, sf_check dt rows ukeys o = true -> sf_ok dt rows ukeys o)
  /\ (forall dt rows o, rf_check dt rows o = true -> rf_ok dt rows o)
  /\ (forall dt rows, rows_fit_b dt rows = true -> rows_fit dt rows).
Proof. split; [exact sf_check_sound | split; [exact rf_check_sound | exact rows_fit_b_sound]]. Qed.

(* ... and complete: they reject nothing that meets the property (no false alarm from the checker). *)
Theorem C01_checkers_complete :
  (forall dt rows ukeys o, sf_ok dt rows ukeys o -> sf_check dt rows ukeys o = true)
  /\ (forall dt rows o, rf_ok dt rows o -> rf_check dt rows o = true).
Proof. split; [exact sf_check_complete | exact rf_check_complete]. Qed.

(* Non-vacuity: a closed instance meets every premise of C01_roundtrip (header value 'THE END',
   a reserved user key that is dropped) and the round trip computes. *)
Example C01_nonvacuous :
  H_pf (list byte) eq ex_pformat ex_pyeval ex_np_dtype ex_head ex_dt
  /\ user_hdr_ok (list byte) ex_hdr
  /\ ex_rows <> [] /\ rows_fit ex_dt ex_rows /\ 0 < rowsize ex_dt
  /\ sfile_read (list byte) ex_vstr dec ex_np_dtype ex_pyeval
       (sfile_write (list byte) ex_vstr ex_vdescr ex_pformat ex_hdr ex_dt ex_rows)
     = Ok (ex_dt, ex_rows,
           [(B "k", B "'THE END'"); (B "_DTYPE", B "[('x', '<i2')]"); (B "_VERSION", B "'1.0'"); (B "_SIZE", B "2")])
  /\ scan_end (mk_header 2 w_text_value ++ concat ex_rows) = Ok 95%nat.
Proof. exact nonvacuous. Qed.

(* Non-vacuity of the layout theorems: data[::2] meets every premise of the any-layout round trip
   (and the unrepaired writer returns other rows on it); a C-contiguous slice meets every premise
   of C01_unrepaired_write_contiguous. *)
Example C01_layout_nonvacuous :
  (in_bounds w_strided = true /\ (1 <= view_size w_strided)%nat
   /\ Z.of_nat (v_item w_strided) = rowsize ex_dt1 /\ 0 < rowsize ex_dt1
   /\ recfile_read0 (recfile_write_view w_strided) ex_dt1 None = Ok [[x01]; [x03]]
   /\ recfile_read0 (recfile_write_view_v0 w_strided) ex_dt1 None = Ok [[x01]; [x02]])
  /\ (kf_noncontiguous_write w_contig = false /\ in_bounds w_contig = true /\ 0 <= v_start w_contig
      /\ v_start w_contig + Z.of_nat (view_size w_contig * v_item w_contig) <= Z.of_nat (length (v_buf w_contig))
      /\ recfile_write_view_v0 w_contig = [x02; x03]).
Proof. exact layout_nonvacuous. Qed.

(* Non-vacuity of the unconditional round trip: a header with values of every kind (negative int,
   float token, None, bool, bytes with NUL/0xFF/END, a tuple holding a str with quote, newline,
   backslash and UTF-8, a nested dict with key END, a reserved key), a two-field dtype with a
   sub-array and both byte orders, rows containing the bytes of an END line; and the parser on
   pformat-style text (adjacent literals, parenthesised values). *)
Example C01_unconditional_nonvacuous :
  wf_items u_hdr = true /\ wf_dtype u_dt = true /\ user_hdr_ok pv u_hdr
  /\ u_rows <> [] /\ rows_fit u_dt u_rows /\ 0 < rowsize u_dt
  /\ (exists h, sfile_read pv py_vstr py_vint py_np_dtype py_eval
                  (sfile_write pv py_vstr py_vdescr py_pformat u_hdr u_dt u_rows) = Ok (u_dt, u_rows, h)
                /\ dget pv (B "n") h = dget pv (B "n") u_hdr /\ dget pv (B "_SIZE") h = Some (PInt 2))
  /\ pv_parse (B "{'a': ('x' 'y'), 'b': (1), 'c': (1,), 'e': -0.0, 'f': [1, 2]}")
     = Some (PDict [(B "a", PStr (B "xy")); (B "b", PInt 1); (B "c", PTuple [PInt 1]); (B "e", PFloat (B "-0.0"));
                    (B "f", PList [PInt 1; PInt 2])]).
Proof. exact unconditional_nonvacuous. Qed.

Example C01_frame_nonvacuous :
  forallb (fun o => negb (touches 1%nat o)) [WriteRec 2%nat u_rows; ReadSelf 1%nat; ReadRec 2%nat u_dt None] = true
  /\ snd (step (run (fst (step fs_empty (WriteSelf 1%nat u_hdr u_dt u_rows)))
                     [WriteRec 2%nat u_rows; ReadSelf 1%nat; ReadRec 2%nat u_dt None]) (ReadRec 2%nat u_dt None))
     = ARec (Ok u_rows)
  /\ 0 <= 2 < 10 ^ 20
  /\ parse_size (firstn 27 (size_update (mk_header 2 (B "{}") ++ concat u_rows) 12345)) = Ok 12345.
Proof. exact frame_nonvacuous. Qed.

Example C01_hpf_check_nonvacuous : hpf_check r_text r_uhdr r_head ex_dt = true /\ user_hdr_ok pv r_uhdr.
Proof. exact hpf_check_nonvacuous. Qed.

Example C01_reject_nonvacuous :
  hdr_text_ok w_text_value = true /\ ex_rows <> [] /\ rows_fit ex_dt ex_rows /\ 0 < rowsize ex_dt
  /\ (1 <= 3 <= length (bin_write ex_rows))%nat
  /\ sfile_read_c (firstn (length (sfile_file w_text_value ex_rows) - 3) (sfile_file w_text_value ex_rows)) ex_dt = Err ERuntime
  /\ sfile_read_c (sfile_file w_text_value ex_rows) ex_dt = Ok (2, ex_rows)
  /\ take_rows 2 2 [x01; x02; x03] = Err ERuntime.
Proof. exact reject_nonvacuous. Qed.

(* hpf_check_all accepts a real pformat text whose user header is OUTSIDE user_hdr_ok (two other
   spellings of _dtype, a mixed-case _Delim that was stripped). *)
Example C01_hpf_check_all_nonvacuous :
  hpf_check_all a_text a_uhdr a_head ex_dt = true /\ ~ user_hdr_ok pv a_uhdr.
Proof. exact hpf_check_all_nonvacuous. Qed.
